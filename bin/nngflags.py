#!/usr/bin/env python3
# prints the -D/-I flags libnng itself was compiled with (from its
# compile_commands.json), so harness code that includes nng's internal
# headers sees identical structure layouts.
import json, sys, shlex
cc = json.load(open(sys.argv[1] + "/compile_commands.json"))
for e in cc:
    if e["file"].endswith("src/core/aio.c"):
        toks = shlex.split(e["command"])
        print(" ".join(t for t in toks if t.startswith("-D") or t.startswith("-I") or t.startswith("-std=")))
        break
