#!/usr/bin/env python3
"""Regenerates MANIFEST.json from lib/plans.py (claimed checks) and the
not_applicable table below.  Keep MANIFEST.json valid at all times."""
import json, os, sys
V = os.path.dirname(os.path.dirname(os.path.abspath(__file__)))
sys.path.insert(0, os.path.join(V, "lib"))
import plans
props = [json.loads(l) for l in open(os.path.join(V, "properties.jsonl"))]
NA = {
 "C17": "pure sequential data structure (nng_msg edit operations): no schedule, clock, I/O, peer or fault in it; generating edit sequences would be property-based testing dressed as simulation (DESIGN.md section 8)",
 "C19": "pure function of a byte string (URL parse/format/clone): nothing for a scheduler, clock or fault to vary (DESIGN.md section 8)",
}
checks = []
for p in props:
    pid = p["id"]
    if pid not in plans.PLANS or plans.PLANS[pid].get("disabled"):
        continue
    pl = plans.PLANS[pid]
    if "level_text" not in pl:
        scs = pl.get("scenarios", [])
        if scs:
            names = []
            for e in scs:
                if e["scenario"] not in names:
                    names.append(e["scenario"])
            q = sum(e["runs"]["quick"] for e in scs)
            t = sum(e["runs"]["thorough"] for e in scs)
            pl["level_text"] = (f"seeded search over thread schedules, simulated-network behaviour, injected faults and generated "
                                f"workloads: {q} runs (quick) / {t} runs (thorough) of scenarios {', '.join(names)}; every run is one "
                                f"deterministic execution of the real library; violations are minimised and replay-gated")
        else:
            n = len(pl.get("enum_alloc", []))
            pl["level_text"] = (f"fault enumeration: for each of {n} deterministic programs and each seed, one run per allocation index k "
                                f"with allocation k failing (exhaustive over k, one schedule per seed)")
    checks.append({
        "property_id": pid,
        "quick_cmd": f"bin/check {pid} --tier quick",
        "thorough_cmd": f"bin/check {pid} --tier thorough",
        "evidence_file": f"/verif/evidence/{pid}.json",
        "replay_cmd_template": "bin/check --replay {path}",
        "engine": "nngsim",
        "level_claimed": {"category": pl.get("level", "exploration"), "text": pl.get("level_text", ""), "design_ref": pl.get("design_ref", "DESIGN.md section 7/" + pid)},
        "level_note": pl.get("level_note", "trusted base: the simulator (sim/*.cc), its kernel model, the reference models in the scenario; sampling, not proof"),
        "technique": pl.get("technique", "deterministic simulation with fault injection (seeded schedule/fault search, real libnng under a serialising scheduler, virtual clock, simulated kernel)"),
    })
na = []
for p in props:
    pid = p["id"]
    if pid in plans.PLANS and not plans.PLANS[pid].get("disabled"):
        continue
    na.append({"property_id": pid, "reason": NA.get(pid, "check not built yet in this session (work in progress; see DESIGN.md section 7 for the planned scenario)")})
m = {
 "version": 1,
 "setup_cmd": "make -C /verif -j16 all",
 "hooks": {"guard": "NNG_VERIF", "enable": "no source hooks are needed: the simulator attaches at link time (-Wl,--wrap=... on the static libnng.a that /verif/Makefile builds from /repo's working tree with the repo's own CMake)", "baseline_off_cmd": "cmake -G Ninja -S /repo -B /repo/_build && cmake --build /repo/_build && ctest --test-dir /repo/_build -j8 --timeout 900", "source_commits": [], "add_only": True},
 "engines": [{"name": "nngsim", "path": "/verif/build/nngsim", "serves_properties": [c["property_id"] for c in checks], "kind_free_text": "deterministic simulation with fault injection: real libnng (core, protocols, transports, POSIX platform layer incl. epoll poller) under a seeded serialising scheduler, virtual discrete-event clock, simulated kernel (sockets/epoll/eventfd/pipe/resolver) and allocator ledger; one forked child per run; Hypothesis-style shrinking of recorded workload/fault choices; replay gate"}],
 "checks": checks,
 "notes": "bin/check <id> rebuilds libnng from /repo's working tree (incremental) before running. exit 0 held / 1 VIOLATION / 2 infrastructure. Known findings: /verif/known_findings.json. See DESIGN.md.",
 "not_applicable": na,
}
json.dump(m, open(os.path.join(V, "MANIFEST.json"), "w"), indent=1)
print("checks:", [c["property_id"] for c in checks], "na:", [x["property_id"] for x in na])
