#!/usr/bin/env python3
"""Regenerates the 'fixed' list of known_findings.json with the current commit
hashes of the 'fix:' commits in /repo (matched by commit subject)."""
import json, subprocess, os
V = os.path.dirname(os.path.dirname(os.path.abspath(__file__)))
FIXED = [
 ("record the socket allocation size", "C03", "nni_sock_create never set s_size, so every socket was released with nni_free(s, 0): the pluggable allocator was told a wrong size (sized_free_mismatch, any scenario that opens a socket)"),
 ("nni_dialer_start_aio must not complete", "C02", "nni_dialer_start_aio ignored a refused nni_aio_start (zero timeout, aio aborted or stopped before submission): the user callback ran twice for one nng_dialer_start_aio, or the second completion touched an aio the application had already freed (user_callback_twice / heap-use-after-free in nni_aio_finish_impl < dialer_connect_cb)"),
 ("nni_aio_abort must not overwrite", "C02", "nni_aio_abort overwrote a_result of an aio that had completed but whose callback had not yet run: a cancel code was reported for an operation that had already succeeded; closing a TCP dialer at that instant leaked the established connection (leak of nni_tcp_conn + nni_tcp_dialer, c02_dial close-vs-connect race)"),
 ("nni_msgq_resize wraps", "C18", "nni_msgq_resize compared the read index with '>' instead of '>=' while discarding on shrink: mq_get could equal mq_alloc and the next access read past the ring (raw-socket NNG_OPT_RECVBUF/SENDBUF shrink with the ring content at the end of the array; asan heap-buffer-overflow in nni_msgq_resize / nni_msgq_run_getq)"),
 ("nni_lmq_resize must mask", "C18", "nni_lmq_resize set lmq_put = len unmasked: when exactly alloc messages survive (new depth a power of two, queue that full) the next nni_lmq_put wrote past the array (asan heap-buffer-overflow WRITE in nni_lmq_put; pair0/pair1/push resize with a full buffer)"),
 ("pipe statistics registered", "C03", "pipe closed while starting: pipe_reap unregistered the pipe statistics before dialer_start_pipe/listener_start_pipe registered them, the registration survived the free of the pipe (asan heap-use-after-free in nni_list_append < nni_stat_add < nni_stat_register; PAIR refusing a second inproc peer)"),
 ("ws transport leaked the message", "C03", "ws transport: message of a failed or canceled pipe send stayed on the pipe's txaio and was never released (leak of nni_msg + body when a ws pipe/dialer is closed with sends queued)"),
 ("nni_id_alloc wrapped", "C18", "nni_id_alloc on a map whose range ends at UINT64_MAX overflowed its cursor to 0 and returned id 0, outside [lo,hi]"),
 ("nni_chunk_insert overwrote", "C13", "nni_chunk_insert, when re-centring data inside the buffer, moved the old content to where the inserted bytes are then written: the first len bytes of the body were overwritten (request body altered after >= 9 inproc device hops; nng_msg_insert of 36..56 bytes into a 54-byte body)"),
 ("PUSH put a closed pipe", "C06", "push0: a send completing just before push0_pipe_close re-appended the closed pipe to the ready list; it was freed while listed and the next send used it (asan heap-use-after-free in nni_list_remove < push0_sock_send / nni_list_append < push0_pipe_ready)"),
 ("PAIR send could overtake", "C08", "pair0/pair1: after NNG_OPT_SENDBUF was enlarged a new send was buffered ahead of older senders still blocked in the wait queue, so messages arrived out of send order (reordered: 7,9,8)"),
 ("endpoint close leaked pipes", "C03", "tcp/ipc/socket transports: a pipe that had finished SP negotiation but was still in the endpoint's wait list when the endpoint was closed kept its hand-off reference forever: pipe + connection leaked after nng_fini (listener closed right after a handshake completed, before the next accept)"),
 ("PUSH send could overtake", "C06", "push0: after NNG_OPT_SENDBUF was enlarged a new send was buffered ahead of older senders still blocked in the wait queue (messages on one connection out of send order)"),
 ("surveyor receive must not end the survey", "C07", "surv0_ctx_cancel dropped the context's survey id even when the aio it was called for was no longer pending (timeout/cancel racing a response that had just completed the receive): the live survey was forgotten, the next receive failed NNG_ESTATE before the deadline and further responses were discarded"),
 ("PAIR pipe stop let a late receive", "C10", "pair0/pair1 pipe_stop detached the pipe (s->p = NULL) before stopping its aios; a receive completing in between set rd_ready again and the next nng_recv dereferenced the NULL pipe (ubsan null deref in pair1_sock_recv after the peer left)"),
 ("closed while the protocol was starting", "C10", "a pipe closed by another thread between the closed-check and the protocol's pipe_start in dialer_start_pipe/listener_start_pipe was reaped first and then linked into the protocol's lists/maps, and freed while still linked (asan heap-use-after-free in bus0_sock_send / nni_list_append < bus0_pipe_start; same shape in other protocols)"),
 ("dropped a reference it did not hold", "C10", "sock_shutdown ignored a failed nni_listener_hold/nni_dialer_hold when the application was closing the same endpoint concurrently and still called nni_*_close, releasing a reference it did not own: l_ref/d_ref underflow, endpoint reaped while in use (asan UAF in nni_dialer_rele < nni_dialer_close < sock_shutdown), busy loop"),
 ("websocket dialer stop hung", "C10", "ws_conn_cb reaped the nni_ws of a canceled dial whose TCP connect had succeeded without removing it from the dialer's pending list: ws_dialer_stop (nng_dialer_close / socket close) waited forever"),
 ("websocket dial aio could be completed twice", "C02", "ws dialer: ws_http_cb_dialer read/cleared ws->useraio under the dialer lock while ws_dial_cancel/ws_conn_cb use ws->mtx; a cancel/stop racing the end of the HTTP upgrade completed the user aio twice (aiomon double_completion on the ws dial aio during socket close vs redial)"),
 ("websocket close aio completed twice", "C02", "ws_read_frame_cb WS_CLOSE branch finished ws->closeaio without testing ws->wclose: a peer CLOSE arriving just after the 100 ms close timer fired completed the aio twice"),
 ("raw-mode sockets always failed", "C15", "nni_msgq_aio_get/put called nni_aio_start (which refuses a zero timeout) before looking at the queue: non-blocking receive on raw-mode sockets never returned queued messages, non-blocking send never used free queue space (always NNG_EAGAIN)"),
 ("surveyor waited until the survey deadline", "C15", "surv0_ctx_recv treated a zero timeout like 'none' and replaced it by the survey expiry: nng_recvmsg(surveyor, NNG_FLAG_NONBLOCK) blocked up to SURVEYTIME"),
 ("websocket listener leaked connections", "C03", "ws listener: server-side websockets that had completed the HTTP upgrade but were still on the listener's pending list (or finished their handshake after the listener was closed) were never released on stop/free: nni_ws + http connection + tcp connection leaked (nng_listener_close / socket close on a ws:// listener while clients are in the upgrade handshake)"),
 ("submitted while the socket was closing never completed", "C10", "nni_msgq_aio_put/get ignored mq_closed: a send/receive on a raw-mode socket that reached the socket queue just after nng_socket_close had closed it was queued on the dead queue and never completed (op_pending_after_close on reqraw/repraw/surveyorraw sockets)"),
 ("websocket dialer stopped redialing", "C14", "ws dialer: the server hanging up during the HTTP upgrade surfaced as NNG_ECLOSED, which core/dialer.c takes for 'dialer closed': an open dialer never redialed (redial_no_pipe, ws listener socket closed while a client was mid-upgrade)"),
 ("ending a device could deadlock", "C10", "device_cb closed the device's sockets inline; when the last forwarder aio completed synchronously inside a pipe send callback (pair0_send_sched -> nni_aio_finish_sync) the socket close waited for the pipe to be reaped while the reaper waited in nni_aio_stop for that callback: nng_device_aio never completed after nng_aio_cancel (device_pending_after_close, c10_device seed 1)"),
 ("while one of its contexts was still being torn down", "C10", "nni_ctx_rele took a closed context off the socket's list and woke the closing socket before tearing the context down; the socket could be freed first and the protocol's ctx teardown then locked the freed protocol socket (asan heap-use-after-free in surv0_ctx_close < surv0_ctx_fini < nni_ctx_destroy < nni_ctx_rele < nng_ctx_sendmsg)"),
 ("submitted while its socket was being closed could stay pending", "C10", "the protocol's sock_close (which fails waiting operations) runs before the socket is marked closed: an nng_send/nng_recv whose caller had already looked the socket up queued itself after that drain and was never completed (op_pending_after_close on pair0/pair1 and other protocols without their own closed flag)"),
 ("SUB receive descriptor stayed readable", "C15", "sub0_ctx_unsubscribe purged the queue without clearing the readable pollable: the receive poll descriptor stayed readable while non-blocking receive returned NNG_EAGAIN"),
 ("socket creation crashed when allocating its message queues", "C20", "nni_sock_create: when nni_msgq_init for the send or receive queue failed (allocation fault) sock_destroy called the protocol's sock_fini on data the protocol had never initialized (asan/ubsan crash in *_sock_fini, c20_sp fail_alloc_k just after the nni_socket allocation)"),
 ("websocket receive re-locked its own mutex", "C20", "ws_read_finish_msg, called with ws->mtx held, called ws_close_error on a failed nni_msg_alloc, which locks ws->mtx again: self-deadlock of the websocket receive path after one allocation failure (c20_sp tr=3)"),
 ("id allocation failed stayed on the socket", "C20", "nni_listener_create/nni_dialer_create: when nni_id_alloc failed (id map growth) the endpoint had already been appended to the socket's list and was then freed while listed (asan heap-use-after-free in the next nng_listen/nng_dial or at socket close)"),
 ("http server dereferenced a NULL server", "C20", "http_sconn_init: when allocating a per-connection aio failed it called http_sconn_close on a connection whose server pointer had not been set yet (ubsan null deref in http_sconn_close, c20_http)"),
 ("a pipe whose creation failed", "C20", "pipe_create failure (allocation fault in the protocol or transport pipe init): pipe_destroy/p_fini ran protocol and transport teardown on half-constructed pipe data (NULL ep in tcptran/ipctran/sfd pipe_fini, NULL pair in inproc_pipe_close, protocol pipe_fini without pipe_init), and the inproc pair structure leaked; crashes or leaks in c20_sp for every transport"),
 ("a failed nng_init tore down", "C20", "nng_init called nng_fini() on any failure, which drained/finalized subsystems that had not been initialized (NULL taskq in nni_taskq_drain, reaper thread join of a thread never created), and nni_aio_sys_init did not check the allocation of its expire queue list (c20_init no_init=1 fail_alloc_k=1..7)"),
]
log = subprocess.run(["git", "-C", "/repo", "log", "--format=%h %s"], capture_output=True, text=True).stdout.strip().split("\n")
fix_commits = [l for l in log if " fix:" in l]
out = []
used = set()
for sub, prop, what in FIXED:
    hit = [l for l in fix_commits if sub in l]
    if not hit:
        print("WARNING: no commit for", sub)
        continue
    h = hit[0].split()[0]
    used.add(h)
    out.append(f"fixed: property={prop} {h} {what}")
for l in fix_commits:
    if l.split()[0] not in used:
        print("WARNING: fix commit without description:", l)
p = os.path.join(V, "known_findings.json")
k = json.load(open(p))
k["fixed"] = out
json.dump(k, open(p, "w"), indent=1)
print(len(out), "fixed entries,", len(k["known"]), "known findings")
