#!/usr/bin/env python3
"""Regenerates seeded/INDEX.md from seeded/*/meta.json (run bin/seedcheck first to refresh the results)."""
import json, os, glob
V = os.path.dirname(os.path.dirname(os.path.abspath(__file__)))
# what had to be added to the machinery before the change was caught (empty: caught as it was)
ADDED = {
 "C02_1": "scenario `c02_reuse` (one aio reused across operation kinds)",
 "C02_3": "scenario `c02_many` (up to 260 deadlines in one instant)",
 "C04_1": "scenario `c04_dead` (guessed ids of requests that died before the wire)",
 "C04_2": "`c04_prewire` registered in the plan",
 "C04_3": "scenario `c04_gone` (reply to a requester that has gone away; before it the catch was 1 run in 3000 and missed by `bin/seedcheck`)",
 "C07_3": "scenario `c07_bp` (respondent contexts parked behind a busy connection)",
 "C08_3": "scenario `c08_race` (simultaneous connects through several endpoints)",
 "C10_1": "`Bounded` watchdog guard around every close call (the hang used to be *inconclusive*)",
 "C10_2": "pending blocking / asynchronous dial operations in `c10_close`",
 "C10_3": "`Bounded` watchdog guard (as C10_1)",
 "C02_4": "`c10_device` (devices started, cancelled and closed under the aio monitor) added to the C02 plan; it was already caught by C10",
 "C03_4": "list-walk scheduling points in the simulator (`sim/listpts.c`) + scenario `c03_subctx` (SUB contexts opened/closed while the receive path walks the context list)",
 "C11_4": "mutation kind `backtrace ends in a partial word` in `c11_sp`/`c11_udp` (before it the catch was 1 run in 2900)",
 "C04_5": "`c04_dead`: receive after a send that died (refused on the spot, timed out, cancelled, superseded) must fail with NNG_ESTATE",
 "C07_5": "scenario `c07_collect` (one aio, timeout set once, reused for every receive of every survey); `c07_surv` reuses receive aios; the aio monitor now also judges submissions refused with NNG_ETIMEDOUT (which exposed a genuine defect of the baseline next to the seeded one)",
 "C09_4": "scenario `c09_reflect` (bursts through a raw BUS hub run by nng_device, reflector or two sockets)",
 "C12_4": "scenario `c12_latepeer` (request made while no replier is reachable, first copies ignored; before it the catch was 1 run in 3100)",
 "C13_4": "`c13_chain` changes NNG_OPT_MAXTTL after the peers are connected",
 "C13_5": "back-pressure burst in `c08_hops` (messages parked behind a busy connection with SENDBUF in use), `c08_hops` added to the C13 plan",
 "C16_5": "long pipelined request trains (more than the server's read buffer) in `c16_http_srv` (before it the catch was 2 runs in 4000)",
 "C20_5": "`c20_http`: two connects outstanding on one HTTP client, a connect may not time out",
 "C01_6": "scenario `c01_fanout` (one send fanned out to several receivers, some of them waiting when it is sent, each scribbling over its copy)",
 "C01_7": "scenario `c01_fanout` (the sender as websocket client to several receivers)",
 "C04_7": "`c04_dead`: connection lost after a send that nobody waits for, then NNG_ESTATE checks after completed exchanges (a neighbouring genuine defect was found and repaired first)",
 "C05_6": "`c05_seq` resizes receive buffers with whatever they hold",
 "C07_6": "scenario `c07_manyctx` (150-260 surveys whose deadlines fall together)",
 "C07_7": "scenario `c07_dblsend` (two threads answer one survey on one respondent socket/context)",
 "C08_6": "failed attempts (non-blocking, short time-out) before the real send in the back-pressure burst of `c08_hops`",
 "C10_6": "scenario `c10_epchurn` (other threads create and start endpoints while the socket closes) -- which first found two genuine defects on the unchanged tree",
 "C10_7": "scenario `c10_epchurn` (other threads close endpoints one by one while the socket closes)",
 "C12_6": "scenario `c12_noise` (the C02 check caught it as it stood, through `c02_many`)",
 "C12_7": "scenario `c12_tworep` (two repliers, the connection of the timed retransmission is dropped)",
 "C14_6": "`Bounded` guard on the socket close of `c14_events` (the hang was *inconclusive* in 7 % of the runs, one *deadlock* verdict)",
 "C15_7": "scenario `c15_reqqueue` (requests queued before the connection exists, raw peer that never reads)",
 "C11_6": "`c11_sp`: NNG_OPT_RECVMAXSZ lowered on the listener after the hostile peers have connected and before they speak",
 "C16_6": "`c16_http_srv`: requests for unknown paths that carry a body the server has to skip, followed by further requests",
 "C18_7": "lockset monitor for identifier tables (`sim/lockset.c`: a table used by several threads without a mutex in common) -- the simulator cannot preempt inside the table code; scenario `c18_ctxrace`",
 "C20_7": "`c20_sp` wshdr programs: websocket dialer with request headers and a long URI, dialed synchronously and closed right after a failed dial",
 "C10_5": "extra peers arriving through a slow ADD_POST callback in `c10_close` (connections parked between negotiation and accept)",
 "C14_4": "scenario `c14_subset` (subsets of the pipe events registered, registrations dropped while a pipe is up)",
 "C14_5": "scenario `c14_churn` (listener closed and replaced while dialers redial)",
 "C12_1": "scenario `c12_mixed` (per-context resend times)",
 "C12_2": "`c12_mixed`: connections refused in ADD_PRE + bounded send (C14 caught it unchanged)",
 "C12_3": "option read-back mismatch made non-fatal in `c12_*` (it was reported as a harness error, exit 2)",
 "C15_2": "scenario `c15_pipelined` (REP vs a raw REQ that pipelines and reads no replies)",
 "C18_2": "scenario `c18_parked` (FIFO across parked asynchronous senders)",
 "C20_2": "burst phase in `c20_sp` (duplicates after a failed allocation)",
 "C02_8": "scenario `c02_submitrace` (cancel / abort / stop and 1 ms time-outs landing while the submitting call is still running)",
 "C02_9": "`c02_reuse`: surveyor receives, and time-outs set once and left alone between the uses of the aio (C07 caught it as it stood)",
 "C03_8": "`c06_churn` (which caught it under C06) added to the C03 plan",
 "C03_9": "`c03_api`: a ws:header option given several times with values of different lengths",
 "C04_8": "scenario `c04_repqueue` (a REP context's reply queued behind a busy connection while the context answers a newer request of another peer)",
 "C04_9": "scenario `c04_repqueue` (the queued send timed out or cancelled before the newer reply)",
 "C05_9": "scenario `c05_edit` (several contexts receive the same publication and every receiver edits its own message in place)",
 "C06_9": "scenario `c01_bursts` (bursts with empty messages against a receiver that is behind; twin-burst reference for the merged clause), also under C06 and C08",
 "C07_8": "scenario `c07_sendrace` (several tasks send surveys on one context at the same instant; a raw respondent answers every id it saw)",
 "C07_9": "scenario `c07_xpipe` (a respondent context answers a newer survey of another surveyor while its earlier response is parked behind a busy connection)",
 "C10_9": "`c10_close`: the application looks at its pipes' options (every getter, names the pipe has and has not) before closing",
 "C12_8": "scenario `c12_slowrep` (two repliers, connections stay up: a slow one answers after the timed retransmission went to a silent one)",
 "C12_9": "scenario `c12_optchange` (RESENDTICK / RESENDTIME changed while a request is outstanding and the retry timer is armed)",
 "C13_9": "scenarios `c13_fansurv`, `c13_fanbus` (fan-out over inproc to several raw receivers, devices behind them)",
 "C15_8": "scenario `c15_cbdrain` (a context's completion callback, or a second task, takes the socket's message between the unlock and the descriptor update)",
 "C18_9": "scenario `c18_preconnect` (messages accepted while no peer is connected, then the peer connects and sending goes on), also under C08",
 "C01_9": "`c18_fifo_seq` (which caught it under C18) added to the C01 plan",
 "C09_8": "`c18_fifo_conc` (bus path; C18 caught it) added to the C09 plan",
 "C20_8": "`c20_accept2` programs (two connections arrive at a listener together; the allocation failure hits one while the other is negotiating)",
 "C20_9": "`c20_keepalive` programs (requests with bodies on a keep-alive connection, the body the text of another request)",
}
rows = []
for d in sorted(glob.glob(os.path.join(V, "seeded", "*", "meta.json"))):
    n = os.path.basename(os.path.dirname(d))
    m = json.load(open(d))
    lc = m.get("lead_confirmation", {})
    res = lc.get("check_results", {})
    caught = [f"{p}: " + ", ".join(v["violations"][:3]) for p, v in res.items() if v.get("exit") == 1]
    if m.get("superseded"):
        caught = [c + " (on the HEAD it was written for; superseded since: a later repair made the change harmless)" for c in caught]
    missed = [p for p, v in res.items() if v.get("exit") != 1]
    demo = f'{lc.get("demo_exit_modified_tree","?")}/{lc.get("demo_exit_original_tree","?")}'
    rows.append(f'| `{n}` | {m.get("property")} | {", ".join(m.get("files", []))[:60]} | {m.get("title","")[:150]} | '
                f'{"yes" if lc.get("pinned_tests_pass") else "?"} | {demo} | {"; ".join(caught) or "**not caught**"}'
                f'{" (not by " + ",".join(missed) + ")" if missed and caught else ""} | {ADDED.get(n, "")} |')
out = ["# Changes seeded by independent sub-agents\n",
       "Each sub-agent got only the text of one property and its own scratch worktree of `/repo` (nothing from `/verif`).",
       "Kept here: `patch.diff` (applies to the `/repo` commit named in `meta.json`), the agent's demonstration (`demo.c`/`demo.md`)",
       "and `meta.json` (the agent's description plus `lead_confirmation`: builds, pinned tests pass, demo exit status on the",
       "modified / original tree as re-run by the lead, and the result of `bin/seedcheck`, i.e. `git -C /repo apply`, `bin/check`,",
       "`git -C /repo checkout -- .`).  Column *demo* is exit status modified/original (1 = violation shown, 9 = valgrind error).\n",
       "| name | property | file | change | tests pass | demo | caught by (quick tier, classes) | added to the machinery to catch it |",
       "|---|---|---|---|---|---|---|---|"] + rows
open(os.path.join(V, "seeded", "INDEX.md"), "w").write("\n".join(out) + "\n")
print(len(rows), "rows")
