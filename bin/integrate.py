#!/usr/bin/env python3
"""usage: bin/integrate.py CXX /tmp/wCXX scenario_file.cc  -- copy an agent's scenario + plans entry into /verif"""
import sys, shutil, re
pid, w, f = sys.argv[1], sys.argv[2], sys.argv[3]
shutil.copy(f"{w}/scenarios/{f}", f"/verif/scenarios/{f}")
src = open(f"{w}/lib/plans.py").read()
i = src.index(f'    "{pid}": {{')
j = src.index('\n    },\n', i) + len('\n    },\n')
entry = src[i:j]
p = '/verif/lib/plans.py'
s = open(p).read()
if f'"{pid}"' in s:
    a = s.index(f'    "{pid}": {{'); b = s.index('\n    },\n', a) + len('\n    },\n')
    s = s[:a] + entry + s[b:]
else:
    k = s.rindex('}\n')
    s = s[:k] + entry + s[k:]
open(p, 'w').write(s)
print("integrated", pid, len(entry), "bytes of plan")
