"""Per-property run plans: which scenarios, how many runs per tier."""

NT_RULE = ("runs are generated from one seed each (swarm-drawn configuration, workload, faults, schedule); "
           "a run counts as non-trivial if it completed (ok or violation), had at least one context switch at a "
           "synchronisation point and the scenario reported property-relevant progress (stat 'nontrivial' > 0); "
           "distinct = distinct trace hash over all scheduling points")


def S(scenario, quick, thorough, label="", wall=60, **params):
    return {"scenario": scenario, "runs": {"quick": quick, "thorough": thorough}, "label": label,
            "params": params, "wall": wall}


PLANS = {
    "C02": {
        "level": "exploration",
        "rule": NT_RULE + "; C02: at least one disturbed asynchronous operation was submitted and validated",
        "budget_s": {"quick": 55, "thorough": 900},
        "scenarios": [
            S("c02_sleep", 500, 20000),
            S("c02_xfer", 700, 30000),
            S("c02_pending", 600, 25000),
            S("c02_dial", 400, 15000),
            S("c02_stream", 400, 15000),
            S("c05_conc", 300, 10000, label="aiomon"),
        ],
        "assumptions": ["internal aios are observed through link-time wrapping of nni_task_*/nni_aio_* (sim/aiomon.c); the monitor self-reports its event counts in stats"],
    },
    "C04": {
        "level": "exploration",
        "rule": NT_RULE + "; C04: at least one reply was delivered or one request served and all delivered replies validated",
        "budget_s": {"quick": 55, "thorough": 900},
        "scenarios": [
            S("c04_reqatk", 1500, 50000),
            S("c04_repatk", 1200, 40000),
        ],
        "assumptions": ["the adversarial replier is a raw-mode REP socket (it controls the reply id word completely); requesters in part B are raw-mode REQ sockets"],
    },
    "C05": {
        "level": "exploration",
        "rule": NT_RULE + "; C05: at least one message was published and the model compared",
        "budget_s": {"quick": 50, "thorough": 900},
        "scenarios": [
            S("c05_seq", 1500, 60000),
            S("c05_conc", 800, 30000),
            S("c05_noblock", 200, 6000),
        ],
        "assumptions": ["sequential mode relies on sim_quiesce to make 'arrival' a definite point"],
    },
    "C08": {
        "level": "exploration",
        "rule": NT_RULE + "; C08: at least one message crossed the PAIR connection and was compared with the model "
                          "(c08_fifo: tagged FIFO exchange A<->peer; c08_hops: a hop-header batch from the raw wire peer)",
        "budget_s": {"quick": 50, "thorough": 900},
        "scenarios": [
            S("c08_fifo", 1600, 48000),
            S("c08_hops", 900, 27000),
        ],
        "assumptions": [
            "a shrink of NNG_OPT_SENDBUF/RECVBUF may discard queued messages (property C18): serials offered before a "
            "shrink on their path are only required to arrive in order and at most once",
            "'none lost' is decided after all sends were accepted and no delivery happened for 2 s of virtual time "
            "(injected stalls subtracted); blocking sends get 20 s",
            "the raw wire peer speaks SP/TCP and SP/IPC framing; MAXTTL range is 1..15 (NNI_MAX_MAX_TTL)",
        ],
    },
    "C10": {
        "level": "exploration",
        "rule": NT_RULE + "; C10: a close (socket, context, endpoint, pipe or device end) was issued with operations pending or being issued, and every pending operation and every handle was then checked",
        "budget_s": {"quick": 55, "thorough": 900},
        "scenarios": [
            S("c10_close", 2200, 70000),
            S("c10_device", 500, 15000),
        ],
        "assumptions": ["deadlock = no thread can run and no timer is pending (exact in the simulator); the 30 s bounds are virtual time with injected stalls subtracted",
                        "nng_pipe_close is asynchronous by design: only handles of closed sockets/contexts/dialers/listeners are required to be invalid immediately"],
    },
    "C18": {
        "level": "exploration",
        "rule": NT_RULE + "; C18: fifo_seq - a fill was refused or a buffer was resized with the path's content "
                          "known; fifo_conc - a resize happened while accepted messages were still undelivered and "
                          "something was received; ids - at least 3 sockets and 2 other objects were issued ids (or 2 "
                          "request/survey ids were seen on the wire); idmap - the operation sequence ran to the final "
                          "full comparison (single-task model-based sequence test, no interleaving claimed)",
        "budget_s": {"quick": 50, "thorough": 900},
        "scenarios": [
            S("c18_fifo_seq", 1000, 30000),
            S("c18_fifo_conc", 600, 18000),
            S("c18_ids", 400, 12000),
            S("c18_idmap", 500, 15000, label="model"),
            S("c18_idmap", 300, 9000, label="allocfault", idfault=1),
        ],
        "assumptions": [
            "fifo_seq: a send or receive that times out (2 ms) after sim_quiesce is taken as 'queue full' / 'nothing "
            "deliverable'; the content of a queue is taken as exactly known only after a fill from the empty path "
            "with no receive or resize in between (otherwise only upper bounds are asserted)",
            "fifo_seq occupancy: the number of in-flight slots outside the two buffers (N0 = 2 per path over inproc: "
            "one message parked in each side's pipe-level aio) is a committed table measured on the unchanged tree",
            "fifo_conc: on back-pressure paths the loss bound is the sum of (old depth - new depth) over the shrinks",
            "ids: pipe ids are observed through pipe notifications (ADD_PRE..REM_POST), request/survey ids through "
            "a raw REP/RESPONDENT peer; no range wraps within a run",
            "idmap is a single-task model-based sequence test run inside the engine (allocator ledger and injected "
            "allocation failures are what the simulator contributes); behaviour of nng_id_visit while the map is "
            "being modified is not asserted (probe idmap_visit_unstable_under_remove)",
        ],
    },
    "C09": {
        "level": "exploration",
        "rule": NT_RULE + "; C09: at least one message reached a connected peer and was checked against the model",
        "budget_s": {"quick": 50, "thorough": 900},
        "scenarios": [
            S("c09_mesh", 800, 24000),
            S("c09_raw", 600, 18000),
            S("c09_device", 500, 15000),
            S("c09_conc", 600, 18000),
            S("c09_flood", 300, 9000),
            S("c09_nbsend", 40, 1200),
        ],
        "assumptions": ["paced scenarios rely on sim_quiesce to make 'arrival' a definite point and on harness-driven "
                        "pipe arrivals/departures (dialers are retired after a pipe close so no redial timer fires mid-operation)",
                        "NNG_FLAG_NONBLOCK sends are confined to c09_nbsend (known finding bus_nonblock_eagain ends those runs at the first send)"],
    },
    "C12": {
        "level": "exploration",
        "rule": NT_RULE + "; C12: at least one injected fault (connection loss, replier restart, dropped/delayed/"
                          "mis-addressed reply, partition) fired while a tracked request was outstanding and every "
                          "request of the run was then checked against the statement",
        "budget_s": {"quick": 50, "thorough": 900},
        "scenarios": [
            S("c12_connloss", 900, 27000),
            S("c12_resend", 900, 27000),
            S("c12_noretry", 700, 21000),
        ],
        "assumptions": [
            "liveness is checked as a bound after the last fault: reconnect back-off + connect completion + transfer "
            "time from the run's own options + 0.5 s slack (+ 2 x (resend time + tick) where the statement lets a "
            "request wait for the resend timer, + 127 s when a connect() was swallowed by a partition/black hole), "
            "injected thread stalls subtracted",
            "c12_connloss asserts the 'whenever the connection is lost' clause by using resend times of 15-60 s and "
            "a bound far below them; c12_resend asserts the 'whenever RESENDTIME elapses' clause with silent loss",
            "raw repliers speak SP over simulated TCP only (8-byte hello, u64 length framing)",
        ],
    },
}
