"""Per-property run plans: which scenarios, how many runs per tier."""

NT_RULE = ("runs are generated from one seed each (swarm-drawn configuration, workload, faults, schedule); "
           "a run counts as non-trivial if it completed (ok or violation), had at least one context switch at a "
           "synchronisation point and the scenario reported property-relevant progress (stat 'nontrivial' > 0); "
           "distinct = distinct trace hash over all scheduling points")


def S(scenario, quick, thorough, label="", wall=None, **params):
    d = {"scenario": scenario, "runs": {"quick": quick, "thorough": thorough}, "label": label, "params": params}
    if wall is not None:
        d["wall"] = wall  # otherwise the driver's default wall-clock watchdog applies
    return d


# C20, scenarios/c20b_accept2.cc: two connections reach a stream listener at nearly the same time, one of them still in
# the SP negotiation when the allocation fails (lproto 0 PULL, 1 REP, 2 PAIR0, 3 PAIR1 listening; tr 1 tcp, 2 ipc;
# nnga=1: the negotiating peer is an nng dialer behind simulated latency instead of a raw wire peer sending its header late).
# 22..45 allocations per program: every k runs in the quick tier too.
C20_ACCEPT2 = ([{"scenario": "c20_accept2", "params": {"lproto": lp, "tr": tr, "nnga": 0}} for lp in (0, 1, 2, 3) for tr in (1, 2)] +
               [{"scenario": "c20_accept2", "params": {"lproto": lp, "tr": tr, "nnga": 1}} for lp in (0, 1, 2) for tr in (1, 2)])


# C20, scenarios/c20c_keepalive.cc: four requests, two of them with a body, one after the other on ONE keep-alive HTTP/1.1
# connection to an nng http server whose handlers collect the body (cli 0: raw wire client, 1: nng_http_transact on one nng_http;
# body 0: the bodies are the text of a request for the other resource, 1: letters without a line end).
# 28 / 60 allocations per program: every k runs in the quick tier too (round-4 seeded C20_9).
C20_KEEPALIVE = [{"scenario": "c20_keepalive", "params": {"cli": c, "body": b}} for c in (0, 1) for b in (0, 1)]


PLANS = {
    "C02": {
        "level": "exploration",
        "rule": NT_RULE + "; C02: at least one disturbed asynchronous operation was submitted and validated",
        "budget_s": {"quick": 55, "thorough": 900},
        "scenarios": [
            S("c02_sleep", 500, 20000),
            S("c02_xfer", 1200, 30000),
            S("c02_pending", 600, 25000),
            S("c02_dial", 400, 15000),
            S("c02_stream", 400, 15000),
            S("c02_submitrace", 600, 20000),  # cancel/abort/stop and 1 ms time-outs landing while the submitting call is still running (streams against a silent peer, sockets without a peer, sleep)
            S("c05_conc", 700, 10000, label="aiomon"),
            S("c02_reuse", 500, 15000),   # one aio reused across operation kinds: nothing leaks from one use to the next
            S("c02_many", 300, 6000),
            S("c07_collect", 600, 18000, label="collect"),  # aio reuse with absolute expirations (surveyor protocol)
            S("c02_httptxn", 600, 20000),  # nng_http_transact against a raw server that stalls: time-outs and cancels landing between the steps of the transaction (scenarios/c02d_httptxn.cc)
            S("c02_accept", 500, 15000),  # a stream listener's pending accept against close / cancel / time-out / a dialer (scenarios/c02c_accept.cc)
            S("c04_latecancel", 300, 10000, label="latecancel"),  # a cancel code only for an operation that was cancelled
            S("c10_device", 400, 12000, label="device"),  # nng_device_aio must complete after cancel/timeout also while traffic flows     # up to 260 deadlines in the same instant: none forgotten, none early
        ],
        "assumptions": ["internal aios are observed through link-time wrapping of nni_task_*/nni_aio_* (sim/aiomon.c); the monitor self-reports its event counts in stats"],
    },
    "C04": {
        "level": "exploration",
        "rule": NT_RULE + "; C04: at least one reply was delivered or one request served and all delivered replies validated",
        "budget_s": {"quick": 55, "thorough": 900},
        "scenarios": [
            S("c04_reqatk", 1500, 50000),
            S("c04_repatk", 1200, 40000),
            S("c04_prewire", 300, 9000),   # replies to request ids that are queued but not yet on the wire
            S("c04_gone", 600, 18000),     # REP replies to a requester that has gone away: the request is consumed all the same
            S("c04_dead", 900, 27000),     # guessed ids of requests that died before the wire (timed out, cancelled, superseded)
            S("c04_latecancel", 600, 20000),  # a cancel that lost the race against the reply must not touch the context's next request (scenarios/c04b_latecancel.cc)
            S("c04_repqueue", 800, 25000),  # a REP context's reply queued behind a busy connection; the context receives and answers a newer request meanwhile, the queued send is superseded / cancelled / times out (scenarios/c04c_repqueue.cc)
        ],
        "assumptions": ["the adversarial replier is a raw-mode REP socket (it controls the reply id word completely); requesters in part B are raw-mode REQ sockets; in c04_repqueue they are raw wire peers that read only when the script lets them, with 0.5-4 kB kernel buffers"],
    },
    "C05": {
        "level": "exploration",
        "rule": NT_RULE + "; C05: at least one message was published and the model compared",
        "budget_s": {"quick": 50, "thorough": 900},
        "scenarios": [
            S("c05_seq", 1500, 60000),
            S("c05_conc", 800, 30000),
            S("c05_noblock", 200, 6000),
            S("c05_edit", 600, 20000),     # several contexts get the same publication and every receiver edits its own message (scenarios/c05b_edit.cc)
        ],
        "assumptions": ["sequential mode relies on sim_quiesce to make 'arrival' a definite point"],
    },
    "C08": {
        "level": "exploration",
        "rule": NT_RULE + "; C08: at least one message crossed the PAIR connection and was compared with the model "
                          "(c08_fifo: tagged FIFO exchange A<->peer; c08_hops: a hop-header batch from the raw wire peer)",
        "budget_s": {"quick": 50, "thorough": 900},
        "scenarios": [
            S("c01_bursts", 300, 9000, label="pair0", proto=0),
            S("c18_preconnect", 400, 12000, label="preconnect"),  # PAIR send order across a connection that comes up while messages wait
            S("c08_fifo", 1600, 48000),
            S("c08_hops", 900, 27000),
            S("c08_race", 3000, 60000),    # several peers connect at the same instant through different endpoints (scenarios/c08b_race.cc)
        ],
        "assumptions": [
            "a shrink of NNG_OPT_SENDBUF/RECVBUF may discard queued messages (property C18): serials offered before a "
            "shrink on their path are only required to arrive in order and at most once",
            "'none lost' is decided after all sends were accepted and no delivery happened for 2 s of virtual time "
            "(injected stalls subtracted); blocking sends get 20 s",
            "the raw wire peer speaks SP/TCP and SP/IPC framing; MAXTTL range is 1..15 (NNI_MAX_MAX_TTL)",
        ],
    },
    "C10": {
        "level": "exploration",
        "rule": NT_RULE + "; C10: a close (socket, context, endpoint, pipe or device end) was issued with operations pending or being issued, and every pending operation and every handle was then checked",
        "budget_s": {"quick": 55, "thorough": 900},
        "scenarios": [
            S("c10_sfdqueue", 600, 18000),  # socket:// listeners (SP and stream API) closed with descriptors still queued: every descriptor closed once (scenarios/c10c_sfdqueue.cc)
            S("c10_close", 2200, 70000),
            S("c10_epchurn", 1500, 40000),   # endpoints created/closed by other threads while the socket closes (scenarios/c10b_epchurn.cc)
            S("c10_device", 500, 15000),
        ],
        "assumptions": ["deadlock = no thread can run and no timer is pending (exact in the simulator); the 30 s bounds are virtual time with injected stalls subtracted",
                        "nng_pipe_close is asynchronous by design: only handles of closed sockets/contexts/dialers/listeners are required to be invalid immediately"],
    },
    "C20": {
        "level": "fault_enumeration",
        "rule": ("each program is run once fault-free under a fixed seed to count its allocations N, then once per k with "
                 "allocation k failing (same seed, hence the identical execution up to the failure); a run is non-trivial "
                 "if the injected failure actually fired; distinct = distinct trace hash"),
        "budget_s": {"quick": 55, "thorough": 1200},
        "quick_first": 120, "quick_sample": 30,
        "enum_seeds": {"quick": 4, "thorough": 60},
        "enum_alloc": [{'scenario': 'c20_sp', 'params': {'proto': 0, 'tr': 0}}, {'scenario': 'c20_sp', 'params': {'proto': 0, 'tr': 1}}, {'scenario': 'c20_sp', 'params': {'proto': 0, 'tr': 2}}, {'scenario': 'c20_sp', 'params': {'proto': 0, 'tr': 3}}, {'scenario': 'c20_sp', 'params': {'proto': 1, 'tr': 0}}, {'scenario': 'c20_sp', 'params': {'proto': 1, 'tr': 1}}, {'scenario': 'c20_sp', 'params': {'proto': 1, 'tr': 2}}, {'scenario': 'c20_sp', 'params': {'proto': 1, 'tr': 3}}, {'scenario': 'c20_sp', 'params': {'proto': 2, 'tr': 0}}, {'scenario': 'c20_sp', 'params': {'proto': 2, 'tr': 1}}, {'scenario': 'c20_sp', 'params': {'proto': 2, 'tr': 2}}, {'scenario': 'c20_sp', 'params': {'proto': 2, 'tr': 3}}, {'scenario': 'c20_sp', 'params': {'proto': 3, 'tr': 0}}, {'scenario': 'c20_sp', 'params': {'proto': 3, 'tr': 1}}, {'scenario': 'c20_sp', 'params': {'proto': 3, 'tr': 2}}, {'scenario': 'c20_sp', 'params': {'proto': 3, 'tr': 3}}, {'scenario': 'c20_sp', 'params': {'proto': 4, 'tr': 0}}, {'scenario': 'c20_sp', 'params': {'proto': 4, 'tr': 1}}, {'scenario': 'c20_sp', 'params': {'proto': 4, 'tr': 2}}, {'scenario': 'c20_sp', 'params': {'proto': 4, 'tr': 3}}, {'scenario': 'c20_sp', 'params': {'proto': 5, 'tr': 0}}, {'scenario': 'c20_sp', 'params': {'proto': 5, 'tr': 1}}, {'scenario': 'c20_sp', 'params': {'proto': 5, 'tr': 2}}, {'scenario': 'c20_sp', 'params': {'proto': 5, 'tr': 3}}, {'scenario': 'c20_sp', 'params': {'proto': 6, 'tr': 0}}, {'scenario': 'c20_sp', 'params': {'proto': 6, 'tr': 1}}, {'scenario': 'c20_sp', 'params': {'proto': 6, 'tr': 2}}, {'scenario': 'c20_sp', 'params': {'proto': 6, 'tr': 3}}, {'scenario': 'c20_sp', 'params': {'proto': 0, 'tr': 0, 'longurl': 1}}, {'scenario': 'c20_sp', 'params': {'proto': 1, 'tr': 3, 'longurl': 1}}, {'scenario': 'c20_sp', 'params': {'proto': 1, 'tr': 3, 'wshdr': 1}}, {'scenario': 'c20_sp', 'params': {'proto': 0, 'tr': 3, 'wshdr': 1}}, {'scenario': 'c20_sp', 'params': {'proto': 1, 'tr': 0, 'udp': 1}}, {'scenario': 'c20_sp', 'params': {'proto': 3, 'tr': 0, 'udp': 1}}, {'scenario': 'c20_sp', 'params': {'proto': 0, 'tr': 0, 'udp': 1}}, {'scenario': 'c20_init', 'params': {'no_init': 1, 'cycles': 0}}, {'scenario': 'c20_init', 'params': {'no_init': 1, 'cycles': 2}}, {'scenario': 'c20_init', 'params': {'no_init': 1, 'cycles': 0, 'expires': 3, 'pollers_n': 2}}, {'scenario': 'c20_device', 'params': {}}, {'scenario': 'c20_http', 'params': {'errpage': 0}}, {'scenario': 'c20_http', 'params': {'errpage': 1}}] + C20_ACCEPT2 + C20_KEEPALIVE,
        "scenarios": [],
        "assumptions": ["enumeration is exhaustive over k for each (program, seed) but covers one schedule per seed",
                        "the allocator seam is nng_init_params.{malloc,calloc,free}_fn; every nng allocation goes through it"],
    },
    "C18": {
        "level": "exploration",
        "rule": NT_RULE + "; C18: fifo_seq - a fill was refused or a buffer was resized with the path's content "
                          "known; fifo_conc - a resize happened while accepted messages were still undelivered and "
                          "something was received; ids - at least 3 sockets and 2 other objects were issued ids (or 2 "
                          "request/survey ids were seen on the wire); idmap - the operation sequence ran to the final "
                          "full comparison (single-task model-based sequence test, no interleaving claimed)",
        "budget_s": {"quick": 50, "thorough": 900},
        "scenarios": [
            S("c18_preconnect", 600, 18000),  # messages accepted while no peer is connected leave before the ones sent after the peer connected (scenarios/c18c_preconnect.cc, round-4 seeded C18_9)
            S("c18_fifo_seq", 1000, 30000),
            S("c18_fifo_conc", 600, 18000),
            S("c18_ids", 400, 12000),
            S("c18_idmap", 500, 15000, label="model"),
            S("c18_idmap", 300, 9000, label="allocfault", idfault=1),
            S("c18_ctxrace", 400, 12000),   # contexts opened and closed by several threads (identifier table under the lockset monitor)
            S("c18_parked", 800, 24000),   # FIFO across parked asynchronous senders (scenarios/c18b_parked.cc)
        ],
        "assumptions": [
            "fifo_seq: a send or receive that times out (2 ms) after sim_quiesce is taken as 'queue full' / 'nothing "
            "deliverable'; the content of a queue is taken as exactly known only after a fill from the empty path "
            "with no receive or resize in between (otherwise only upper bounds are asserted)",
            "fifo_seq occupancy: the number of in-flight slots outside the two buffers (N0 = 2 per path over inproc: "
            "one message parked in each side's pipe-level aio) is a committed table measured on the unchanged tree",
            "fifo_conc: on back-pressure paths the loss bound is the sum of (old depth - new depth) over the shrinks",
            "ids: pipe ids are observed through pipe notifications (ADD_PRE..REM_POST), request/survey ids through "
            "a raw REP/RESPONDENT peer; no range wraps within a run",
            "idmap is a single-task model-based sequence test run inside the engine (allocator ledger and injected "
            "allocation failures are what the simulator contributes); behaviour of nng_id_visit while the map is "
            "being modified is not asserted (probe idmap_visit_unstable_under_remove)",
        ],
    },
    "C09": {
        "level": "exploration",
        "rule": NT_RULE + "; C09: at least one message reached a connected peer and was checked against the model",
        "budget_s": {"quick": 50, "thorough": 900},
        "scenarios": [
            S("c18_fifo_conc", 500, 15000, label="resize", path=5),  # BUS: per-peer order while the buffers behind the connection are resized under traffic (round-4 seeded C09_8, which C18 caught)
            S("c09_mesh", 800, 24000),
            S("c09_raw", 600, 18000),
            S("c09_device", 500, 15000),
            S("c09_conc", 600, 18000),
            S("c09_flood", 300, 9000),
            S("c09_nbsend", 40, 1200),
            S("c09_reflect", 600, 18000),
        ],
        "assumptions": ["paced scenarios rely on sim_quiesce to make 'arrival' a definite point and on harness-driven "
                        "pipe arrivals/departures (dialers are retired after a pipe close so no redial timer fires mid-operation)",
                        "NNG_FLAG_NONBLOCK sends are confined to c09_nbsend (known finding bus_nonblock_eagain ends those runs at the first send)"],
    },
    "C12": {
        "level": "exploration",
        "rule": NT_RULE + "; C12: at least one injected fault (connection loss, replier restart, dropped/delayed/"
                          "mis-addressed reply, partition) fired while a tracked request was outstanding and every "
                          "request of the run was then checked against the statement",
        "budget_s": {"quick": 50, "thorough": 900},
        "scenarios": [
            S("c12_connloss", 900, 27000),
            S("c12_resend", 900, 27000),
            S("c12_noretry", 700, 21000),
            S("c12_latepeer", 500, 15000),  # request made before any replier is reachable, first copies ignored (scenarios/c12c_latepeer.cc)
            S("c12_tworep", 400, 12000),    # two repliers: the connection of the timed retransmission is dropped (scenarios/c12d_tworep.cc)
            S("c12_noise", 600, 18000),     # retransmission while many other time-outs expire in the same instants
            S("c12_mixed", 600, 18000),    # contexts with different resend times on one socket (scenarios/c12b_mixed.cc)
            S("c12_slowrep", 600, 18000),  # two repliers, connections stay up: a slow one answers after the timed retransmission went to the other (scenarios/c12e_slowrep.cc)
            S("c12_optchange", 600, 18000),  # RESENDTICK set while a request is outstanding and the retry timer armed, RESENDTIME changed between requests; first copies ignored (scenarios/c12f_optchange.cc)
        ],
        "assumptions": [
            "liveness is checked as a bound after the last fault: reconnect back-off + connect completion + transfer "
            "time from the run's own options + 0.5 s slack (+ 2 x (resend time + tick) where the statement lets a "
            "request wait for the resend timer, + 127 s when a connect() was swallowed by a partition/black hole), "
            "injected thread stalls subtracted",
            "c12_connloss asserts the 'whenever the connection is lost' clause by using resend times of 15-60 s and "
            "a bound far below them; c12_resend asserts the 'whenever RESENDTIME elapses' clause with silent loss",
            "raw repliers speak SP over simulated TCP only (8-byte hello, u64 length framing)",
        ],
    },
    "C07": {
        "level": "exploration",
        "rule": NT_RULE + "; C07: c07_surv: at least one response was put on the wire and at least one surveyor receive "
                "was judged against the reference model; c07_resp: at least one response was routed and checked at the raw "
                "surveyors; c07_conc: at least one response was delivered and checked; c07_xpipe: at least one connection "
                "was busy (a response parked behind it) and at least one response was checked at a raw surveyor; "
                "c07_sendrace: at least one response was handed out and checked on a context (or the socket) on which two or "
                "three threads had sent a survey at the same time",
        "budget_s": {"quick": 50, "thorough": 900},
        "scenarios": [
            S("c07_surv", 1200, 36000),
            S("c07_resp", 600, 18000),
            S("c07_conc", 500, 15000),
            S("c07_collect", 1200, 36000),  # one aio, timeout set once, reused for every receive of every survey (scenarios/c07c_collect.cc)
            S("c07_manyctx", 200, 6000),    # hundreds of surveys whose deadlines fall together
            S("c07_dblsend", 400, 12000),   # two threads answer one survey on one respondent socket/context
            S("c07_bp", 600, 18000),       # respondent contexts answering behind a busy connection (scenarios/c07b_backpressure.cc)
            S("c07_xpipe", 600, 18000),    # a respondent context answers a newer survey of ANOTHER surveyor while its earlier response is parked and both connections are busy (scenarios/c07d_crosspipe.cc)
            S("c07_sendrace", 400, 12000),  # two or three threads send a new survey on the SAME surveyor context/socket at the same instant; raw respondents answer every id they saw once the sends have returned (scenarios/c07e_sendrace.cc)
        ],
        "assumptions": ["sequential scenarios rely on sim_quiesce (horizon 3 ms > largest configured segment latency) to make "
                        "'the response has arrived' a definite point",
                        "the deadline of a survey is only known to lie between the nng clock read before and after the send call; "
                        "outcomes inside that window plus a generous expiry allowance (20-50 ms + injected stalls) are not judged",
                        "hostile id streams are produced through raw-mode respondent sockets (any header/body bytes), not a wire-level peer",
                        "c07_conc uses inproc/tcp/ipc only"],
    },
    "C13": {
        "level": "exploration",
        "rule": NT_RULE + "; C13: a request crossed at least one nng_device and was answered or discarded as the hop "
                          "model says (chain), a crafted backtrace was delivered or refused (raw), a ring was "
                          "observed to fall silent (loop), or a survey fanned out to several respondents / a BUS message "
                          "fanned out to several devices arrived (fan)",
        "budget_s": {"quick": 50, "thorough": 900},
        "scenarios": [
            S("c13_chain", 1000, 30000),
            S("c13_raw", 800, 24000),
            S("c13_loop", 600, 18000),
            S("c08_hops", 500, 15000, label="pair1 hop", bp=1),  # PAIR1 hop count on every path to the wire (the loop clause rests on it)
            # scenarios/c13b_fanout.cc: one sender attached to several raw receivers at once (every other C13 workload uses one path at a time)
            S("c13_fansurv", 600, 18000),  # surveyor(s) -> 2..4 respondents directly / behind one device each / behind one device; raw surveyor with the survey id in the header, at the front of the body (empty header) or split; inproc and tcp/ipc
            S("c13_fanbus", 500, 15000),   # cooked BUS nodes attached to 2..3 BUS devices (reflector or bridge) at once, leaves behind single devices
        ],
        "assumptions": [
            "hop-count convention pinned by the existing suite (test_xrep_ttl_drop): a request that crossed j "
            "devices is accepted iff j+1 <= MAXTTL of the receiving socket",
            "MAXTTL of the reply-path sockets (raw REQ / raw SURVEYOR) is not part of the model: a reply does not "
            "carry the number of hops it has made",
            "the raw peer is a raw nng socket whose message body carries the crafted backtrace (no private API)",
            "answers are demanded only when no hop limit is exceeded, at most 3 requests are in flight and no "
            "connection was disturbed; the wait is 3 s of stall-free virtual time",
        ],
    },
    "C06": {
        "level": "exploration",
        "rule": NT_RULE + "; C06: at least one message went from a pusher to a puller and the conservation, "
                          "duplication, order and back-pressure bookkeeping was evaluated at the end of the run",
        "budget_s": {"quick": 50, "thorough": 900},
        "scenarios": [
            S("c01_bursts", 500, 15000, label="pipeline", proto=1),  # PUSH->PULL bursts with empty messages against a receiver that is behind, every transport: none lost, none merged (round-4 seeded C06_9)
            S("c06_mesh", 1400, 27000),
            S("c06_bp", 1400, 27000),
            S("c06_churn", 900, 18000),
        ],
        "assumptions": ["send order between two messages is only claimed when the call that submitted the first "
                        "(nng_sendmsg/nng_send/nng_socket_send) had returned before the call for the second was made; "
                        "receive order likewise (logical clock kept by the harness)",
                        "a SENDBUF shrink below the possible occupancy, a lost connection or a closed socket exempts the "
                        "messages sent before it from the loss check (the statement promises nothing for them); in "
                        "c06_churn a message still buffered in a pusher that has no connection left is not counted as lost"],
    },
    "C14": {
        "level": "exploration",
        "rule": NT_RULE + "; C14: at least one pipe was announced (ADD_PRE) and followed to its end, a redial obligation "
                          "was resolved, a message crossed a pipe or a listener was probed after the faults",
        "budget_s": {"quick": 50, "thorough": 900},
        "scenarios": [
            S("c14_events", 3000, 90000),
            S("c14_subset", 600, 18000),   # sockets that register only some pipe events, or drop registrations while a pipe is up (scenarios/c14b_more.cc)
            S("c14_churn", 800, 24000),    # dialers redialing while their listener is closed and replaced over and over
        ],
        "assumptions": [
            "redial bounds are measured at the simulated kernel's connect() (simnet_set_connect_hook), from the REM_POST "
            "callback or from a connect() that could only fail; allowed delay = larger reconnect time + the simulated "
            "network's connect/latency maxima + 300 ms slack, injected stalls subtracted",
            "connect() calls are attributed to a dialer by destination address, so the connect()-based bounds apply to "
            "dialers with an address of their own; shared addresses and inproc get the pipe-based bound only",
            "reconnect times of 0/1 ms (a dialer that never sleeps) are drawn only together with the fair random-walk "
            "scheduler, because the unfair schedulers starve other threads for ever then and every time bound is moot",
        ],
    },
    "C15": {
        "level": "exploration",
        "rule": NT_RULE + "; C15: at least one NNG_FLAG_NONBLOCK operation was issued at a quiescent point with a poll "
                          "descriptor to compare against, or succeeded",
        "budget_s": {"quick": 50, "thorough": 900},
        "scenarios": [
            # workload steers around the behaviours listed in known_findings.json (oracles unchanged),
            # so that the states behind them stay reachable; avoid is a bit mask, one bit per finding
            # (AV_* in scenarios/c15_nonblock.cc): clear a bit when the library has been repaired
            S("c15_nonblock", 6000, 120000, label="avoid_known", avoid=130),
            # unrestricted workload: every known finding is re-observed here
            S("c15_nonblock", 1500, 30000),
            S("c15_conc", 1500, 30000, label="avoid_known", avoid=130),
            S("c15_conc", 400, 8000),
S("c15_reqqueue", 400, 12000),   # REQ with requests queued before the connection exists, raw peer that never reads (scenarios/c15c_reqqueue.cc)
                        S("c15_pipelined", 800, 24000),  # REP against a raw REQ peer that pipelines requests and reads no replies (scenarios/c15b_pipelined.cc)
            # the message that raises the receive descriptor is consumed while it is being queued: by the completion
            # callback of a pending (context) receive that drains the socket non-blockingly, or by a second task
            # (scenarios/c15d_cbdrain.cc; SUB, PULL, PAIR0/1, REP, RESPONDENT)
            S("c15_cbdrain", 800, 24000),
            S("c15_cbdrain", 400, 12000, label="sub", kind=0),  # SUB: socket subscription + contexts matching the same message
        ],
        "assumptions": ["'library quiescent' is realised by sim_quiesce (no runnable thread, nothing in flight, no timer due within 3 ms)",
                        "clause (e) 'does the work when it can' is asserted only in states where the message-accounting model is exact "
                        "(no connectivity change since the last full drain)",
                        "ws transport is not drawn (tr=3 selects it): closing ws dialers trips transport defects outside C15"],
    },
    "C01": {
        "level": "exploration",
        "rule": NT_RULE + "; C01: at least one message crossed the connection and was compared byte for byte with what "
                          "was sent (c01_link: nng<->nng; c01_wire: nng<->raw wire peer; c01_cuts: every single cut "
                          "position of a small frame on nng's read side and/or write side; c01_bursts: nng<->nng, "
                          "bursts with empty messages towards a slow receiver)",
        "budget_s": {"quick": 50, "thorough": 900},
        "scenarios": [
            S("c18_fifo_seq", 600, 18000, label="resize"),  # order on one connection also while the buffers behind it are resized (round-4 seeded C01_9)
            S("c01_fanout", 600, 18000),    # one send fanned out to several receivers that scribble over their copies (scenarios/c01b_fanout.cc)
            S("c01_link", 1700, 33000),
            S("c01_wire", 2000, 39000),
            S("c01_cuts", 900, 18000),
            S("c01_bursts", 800, 18000),    # bursts with empty messages (first, last, several in a row) while the receiving application pauses, small RECVBUF, every transport, PAIR0/PAIR1/PUSH-PULL/BUS/raw PAIR0; every burst also as its twin with one byte in place of nothing (scenarios/c01c_bursts.cc)
        ],
        "assumptions": [
            "c01_bursts: several consecutive sends that come out as one receive are a merged message also when all but "
            "one of them are empty (the bytes of the receive cannot show it, the count of receives does); claimed only "
            "with a reference point - undisturbed connection, every send accepted, every byte of the burst arrived in "
            "order, and the twin burst (one payload byte in place of each empty message, same pauses of the receiver) "
            "was delivered message by message; never for BUS; plain loss is only counted (c01b_lost_no_fault)",
            "loss is not a violation ('or not at all'): it is counted (stats lost / probes c01_lost_no_fault, "
            "c01_cut_msg_lost); a receiver-side observation is matched to the earliest not yet observed sent message "
            "with exactly these bytes that lies after the last one observed on the same connection",
            "the raw wire peer speaks SP/TCP, SP/IPC (path and abstract names), SP over a socketpair (socket://) and "
            "RFC 6455 WebSocket both as client and as server; bytes from nng that do not parse under the transport's "
            "framing are reported as altered_framing (what an SP peer would observe as an altered message), and a frame "
            "that stops short while the library is quiescent and the connection is up as truncated",
            "raw sockets: the bytes header||body are compared after removing what the receiver adds in front (pipe id "
            "for raw REP, hop word for PAIR1); where nng puts the header/body boundary and what hop count it stores are "
            "probes (c01_split_differs, c01_hop_differs), not assertions",
            "the simulated kernel never offers less than 8 bytes of socket buffer: both ends of an SP connection write "
            "their 8-byte greeting before they read",
            "c01_cuts also asserts the statement's 'however the underlying byte stream is split' as a metamorphic "
            "clause (class split_dependent): on an undisturbed connection, a frame that was delivered when handed over "
            "whole must also be delivered when the same frame is split at the enumerated position(s); the wait is 5 s "
            "of virtual time and nothing is claimed without the un-split reference delivery",
            "c01_cuts enumerates every single cut position (read side: a piece is written only after nng consumed the "
            "previous one; write side: the simulated kernel cuts nng's write at the armed stream offset) for frames up "
            "to 130 bytes on the wire, pairs of read-side cuts for frames up to 24 bytes; message sizes, transports and "
            "roles are drawn per run, not enumerated",
        ],
    },
    "C16": {
        "level": "exploration",
        "rule": NT_RULE + "; C16: ws - the application received data frames that were compared with the reference decode, "
                          "a rule-breaking frame / start line was followed to the failure of the connection, or frames emitted "
                          "by nng were parsed by the strict reference framer; http_srv - a request was answered and compared "
                          "(handler view + response) or a malformed request line was followed to its error status / close; "
                          "http_cli - a response (incl. chunked) was delivered and compared or a malformed status line / chunk "
                          "size was followed to the failure of the exchange",
        "budget_s": {"quick": 50, "thorough": 900},
        "scenarios": [
            # (the scenarios take an `avoid` bit mask, AV_* in scenarios/c16_codecs.cc, that steers the workload around
            # an open finding; every finding made so far has been repaired in the library, so no bit is set)
            S("c16_ws_srv", 1500, 21000),
            S("c16_ws_cli", 1500, 21000),
            S("c16_http_srv", 500, 15000),
            S("c16_http_cli", 500, 15000),
        ],
        "assumptions": [
            "the raw peer cuts its own byte stream (whole, one cut at every offset over the seeds, byte-at-a-time, random "
            "pieces) and lets the library go idle (sim_quiesce) after every piece; nng's own reads and writes are cut by "
            "the simulated kernel (net=1..3)",
            "a rule violation must end in a CLOSE frame, EOF or reset seen by the raw peer within 3 s of virtual time "
            "(stalls subtracted) and nothing at or after the offending frame may reach the application; frames before it "
            "need not all be delivered",
            "valid sessions stay inside what RFC 6455/7230 require of a sender (SP, not HTAB, as header whitespace; CRLF "
            "line ends; no query string towards the ws listener); stricter RFC rules that the statement does not name "
            "(fragmented control frames, data frame inside a fragmented message, header line without colon, wrong "
            "Sec-WebSocket-Accept) are exercised and only recorded as probes",
            "message mode of the ws stream layer is reached through the SP ws transport and through the stream option "
            "'ws:msgmode' that the transport itself uses",
        ],
    },
    "C11": {
        "level": "exploration",
        "rule": NT_RULE + "; C11: after at least one hostile session (mutated SP/TCP, SP/IPC, SP/socket-fd, WebSocket+HTTP or "
                          "SP/UDP byte stream against the victim's receive path) a well-behaved connection completed an "
                          "exchange that was begun after the attack (control connection and/or late joiner), or an "
                          "over-RECVMAXSZ length was observed to close its connection; every message delivered to the "
                          "victim application was judged against the reference decoder",
        "budget_s": {"quick": 50, "thorough": 900},
        "scenarios": [
            S("c11_peergone", 500, 15000),  # a peer that handshakes correctly and goes away while the application is sending to it: no SIGPIPE, the listener keeps working (scenarios/c11b_peergone.cc)
            S("c11_sp", 1300, 39000),
            S("c11_ws", 800, 24000),
            S("c11_udp", 800, 24000),
        ],
        "assumptions": [
            "generation is grammar-based and seeded (valid session + structural mutations + truncation at any byte + "
            "FIN/RST/half-close/silence endings); coverage-guided mutation, named in the quantifier, is not attempted",
            "liveness bounds are virtual time with injected thread stalls subtracted: 5 s for an exchange of the control "
            "connection begun during the attack, 3 s after it, 4 s for a newcomer, 5 s for the close after an over-RECVMAXSZ "
            "length field; nng's own timeouts (10 s negotiation, 100 ms accept cool-down, ws close linger) are far below / not part of them",
            "'closes that connection' is asserted only when the oversize length follows a correct handshake and intact "
            "frames on a connection the victim is reading (tcp/ipc/socket/ws: EOF or RST seen by the peer; udp: a DISC datagram)",
            "the reference decoders are strict up to the first framing violation; behind a WebSocket rule violation, a "
            "non-canonical HTTP upgrade or non-canonical SP/UDP traffic deliveries are allowed but not required (the "
            "statement promises nothing there except the size limit, memory safety and liveness)",
            "hop-limit drops, replies with unknown request ids and PAIR's refusal of extra peers are other properties' "
            "business: such messages are allowed but not required to be delivered",
            "every UDP session ends with a DISC datagram (there is no FIN over UDP; a silent peer stays connected for 5 "
            "refresh periods and PUSH/REQ victims would keep sending into the void); no datagram loss or reordering is injected",
            "spin = more than 20000 scheduling points in 10 ms of virtual time with every harness task stopped",
        ],
    },
    "C03": {
        "level": "exploration",
        "rule": NT_RULE + "; C03: c03_api - at least one message was accepted by a send and one was handed to the application by a "
                          "receive (ownership moved both ways) in a random API program; c03_msg - the nng_msg_* sequence ran to "
                          "its end against the byte model; c03_stream - a stream transfer or an HTTP transaction completed; the "
                          "oracles are ASan/UBSan, the allocator ledger (sized free, balance after nng_fini) and the ownership "
                          "rule on failed sends",
        "budget_s": {"quick": 50, "thorough": 900},
        "scenarios": [
            S("c06_churn", 500, 15000, label="pipeclose"),  # pipes closed while messages are being received and nobody waits: memory safety of the completion path (round-4 seeded C03_8)
            S("c10_epchurn", 400, 12000, label="epchurn"),
            S("c20_init", 60, 1500, label="cycles", no_init=1, cycles=2),  # nng_init .. nng_fini three times in one process
            # avoid / savoid are bit masks that steer the WORKLOAD around behaviours listed in known_findings.json
            # (oracles unchanged; AV_* / SA_* in scenarios/c03_api.cc): clear a bit when the library has been repaired.
            # avoid 64 = one device at a time, 128 = one reply at a time per context of a cooked REP/RESPONDENT
            # socket, 256 = no udp transport
            S("c03_api", 2500, 45000, label="avoid_known", avoid=320),
            # unrestricted workload: the known findings are re-observed here
            S("c03_api", 300, 9000),
            S("c03_msg", 400, 12000),
            S("c03_subctx", 400, 12000),   # SUB contexts with subscriptions opened and closed under published traffic (scenarios/c03b_subctx.cc)
            # savoid 4 = no nng_stream_free with operations pending, 8/64 = no connect right after a cancelled connect
            # (http client / ws stream dialer), 16 = wait for the http server teardown before nng_fini,
            # 32 = no handler removal during a transaction
            S("c03_stream", 500, 15000, label="avoid_known", savoid=52),
            # S4 (8, 64) stays steered around even here: its symptoms (double_completion, bare deadlock) have no
            # signature that could be registered without hiding other defects
            S("c03_stream", 150, 4500),
        ],
        "assumptions": [
            "a program 'respects the documented preconditions' as read from docs/ref: handles may be used after close "
            "(NNG_ECLOSED), an aio is reused only after its callback ran, nng_aio_free/stop are not called from callbacks, "
            "buffers of stream operations live until completion, device sockets are not touched while the device owns them, "
            "at most one submission is made on an aio after nng_aio_stop",
            "blocking calls are bounded by finite socket/context timeouts (options are only ever set to finite timeouts)",
            "content of messages is not part of C03: c03_msg counts model differences in probe c03_msg_content_differs "
            "(0 on the unchanged tree) instead of asserting them",
        ],
    },
}
