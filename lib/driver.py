import json, os, re, subprocess, sys, threading, time, queue, hashlib, glob

VERIF = os.path.dirname(os.path.dirname(os.path.abspath(__file__)))
NNGSIM = os.path.join(VERIF, "build", "nngsim")
# the tree under test; overridden only by bin/sens2 (sensitivity runs against a scratch worktree)
REPO = os.environ.get("VERIF_REPO", "/repo").rstrip("/")
NWORKERS = int(os.environ.get("VERIF_WORKERS", "16"))

sys.path.insert(0, os.path.join(VERIF, "lib"))
import plans  # noqa: E402

COMPONENTS = {
    "real": [
        "src/core/* (aio, taskq, socket, pipe, dialer, listener, msgqueue, lmq, idhash, reap, ...)",
        "src/sp/protocol/* (all protocols, cooked and raw)",
        "src/sp/transport/{inproc,ipc,tcp,socket,ws,udp}",
        "src/supplemental/{http,websocket}",
        "src/platform/posix/* (thread/clock wrappers, epoll poller, tcp/ipc/udp/sockfd conn/dial/listen, pipe, resolver pool)",
        "src/nng.c public API",
    ],
    "stub": [
        "kernel: sockets, epoll, eventfd, pipe, poll, unix path namespace (sim/net.cc)",
        "thread library semantics: mutex/condvar/create/join (sim/sched.cc; real pthreads are only execution vehicles)",
        "clock_gettime/nanosleep (virtual discrete-event clock)",
        "getaddrinfo (numeric hosts + seeded name table)",
        "arc4random (seeded stream)",
        "allocator success/failure decision + ledger (blocks still come from the ASan heap)",
    ],
    "not_built": ["TLS/DTLS (NNG_ENABLE_TLS=OFF in the pinned configuration)", "Windows platform", "nngcat, perf"],
    "always_on_monitors": [
        "AddressSanitizer + UndefinedBehaviorSanitizer over library and harness",
        "allocator ledger: sized free, unknown pointer, leak after nng_fini with call sites (sim/alloc.cc)",
        "aio monitor: exactly-once completion, early time-outs, callbacks after stop/free (sim/aiomon.c)",
        "lockset monitor for identifier tables (sim/lockset.c)",
        "scheduler: deadlock detection with wait sites, mutex destroyed while owned/waited, condvar destroyed while waited (sim/sched.cc)",
        "Bounded watchdog guards on close-like calls (harness/util.cc)",
    ],
}


def mix(*parts):
    h = hashlib.sha256(("/".join(str(p) for p in parts)).encode()).digest()
    return int.from_bytes(h[:6], "big")


def build():
    t0 = time.time()
    p = subprocess.run(["make", "-C", VERIF, "-j16", "all", "REPO=" + REPO], stdout=subprocess.PIPE, stderr=subprocess.STDOUT, text=True)
    if p.returncode != 0:
        sys.stdout.write(p.stdout[-4000:])
        return False, time.time() - t0
    return True, time.time() - t0


class Worker:
    def __init__(self):
        self.start()

    def start(self):
        self.p = subprocess.Popen([NNGSIM, "worker"], stdin=subprocess.PIPE, stdout=subprocess.PIPE,
                                  stderr=subprocess.DEVNULL, text=True, bufsize=1)

    def run(self, cmd):
        try:
            self.p.stdin.write(cmd + "\n")
            self.p.stdin.flush()
            line = self.p.stdout.readline()
            if not line:
                raise IOError("worker died")
            return json.loads(line)
        except Exception as e:  # worker died: restart
            try:
                self.p.kill()
            except Exception:
                pass
            self.start()
            return {"status": "infra", "class": "worker_died", "detail": str(e)}

    def close(self):
        try:
            self.p.stdin.close()
            self.p.wait(timeout=5)
        except Exception:
            self.p.kill()


class Pool:
    def __init__(self, n=NWORKERS):
        self.n = n
        self.workers = [Worker() for _ in range(n)]

    def map(self, cmds, deadline=None):
        """run all cmds (strings); returns list of (cmd, result) in order;
        cmds not started before the deadline are skipped (result None)."""
        results = [None] * len(cmds)
        idx = [0]
        lock = threading.Lock()

        def loop(w):
            while True:
                with lock:
                    i = idx[0]
                    if i >= len(cmds):
                        return
                    if deadline is not None and time.time() > deadline:
                        return
                    idx[0] += 1
                results[i] = w.run(cmds[i])

        ts = [threading.Thread(target=loop, args=(w,)) for w in self.workers]
        for t in ts:
            t.start()
        for t in ts:
            t.join()
        return results

    def close(self):
        for w in self.workers:
            w.close()


# wall-clock watchdog of one run (seconds).  It is the only thing in a check that depends on real time: a run that
# trips it is re-run alone with a much longer limit before it is believed (a heavy run on an overloaded machine is not a hang)
WALL = int(os.environ.get("VERIF_WALL", "180"))


def run_single(cmd, wall=WALL):
    """fresh process"""
    p = subprocess.run([NNGSIM, "run"] + cmd.split(), stdout=subprocess.PIPE, stderr=subprocess.DEVNULL, text=True,
                       timeout=wall + 30)
    line = p.stdout.strip().split("\n")[0] if p.stdout.strip() else ""
    try:
        return json.loads(line)
    except Exception:
        return {"status": "infra", "class": "no_output", "detail": p.stdout[:200]}


# ------------------------------------------------------------ classification
def norm_detail(d):
    d = re.sub(r"0x[0-9a-fA-F]+", "X", d or "")
    d = re.sub(r"\d+", "N", d)
    return d[:160]


def parse_sanitizer(stderr):
    m = re.search(r"ERROR: AddressSanitizer: ([\w-]+)", stderr)
    kind = None
    if m:
        kind = "asan:" + m.group(1)
    else:
        m = re.search(r"runtime error: ([^\n]+)", stderr)
        if m:
            kind = "ubsan"
    # only the stack of the faulting access (up to the first blank line / "freed by")
    first = re.split(r"\n\s*\n|freed by|previously allocated|is located", stderr, 1)[0]
    frames = re.findall(r"#\d+ 0x[0-9a-f]+ in (\S+) (/\S+?):(\d+)", first)
    frames = [f for f in frames if f[1].startswith(REPO + "/")]
    top = [f"{fn}" for fn, path, ln in frames[:8]]
    site = ""
    if kind == "ubsan":
        m2 = re.search(r"(" + re.escape(REPO) + r"/\S+?):(\d+):\d+: runtime error: ([^\n]+)", stderr)
        if m2:
            site = f"{os.path.basename(m2.group(1))}: {m2.group(3)}"
    return kind, top, site


_SYM = {}


def symbolize(detail):
    """Replace code addresses of the simulator binary (ASLR is off: text at 0x5555...) in a violation detail by function
    names, so that call sites can be read and known findings can be keyed on them."""
    addrs = sorted(set(re.findall(r"0x5555[0-9a-f]{8}", detail or "")))
    todo = [a for a in addrs if a not in _SYM]
    if todo:
        try:
            offs = [hex(int(a, 16) - 0x555555554000) for a in todo]
            out = subprocess.run(["addr2line", "-f", "-e", NNGSIM] + offs, capture_output=True, text=True, timeout=60).stdout.split("\n")
            for i, a in enumerate(todo):
                fn = out[2 * i].strip() if 2 * i < len(out) else ""
                _SYM[a] = fn if fn and fn != "??" else a
        except Exception:
            for a in todo:
                _SYM[a] = a
    for a in addrs:
        detail = detail.replace(a, _SYM.get(a, a))
    return detail


def classify(r):
    """-> (kind, cls, sig, detail)   kind in ok|inconclusive|violation|infra"""
    st = r.get("status")
    if st == "violation" and "0x5555" in (r.get("detail") or ""):
        r["detail"] = symbolize(r["detail"])
    if st == "ok":
        return ("ok", "", "", "")
    if st == "inconclusive":
        return ("inconclusive", r.get("class", ""), "", r.get("detail", ""))
    if st == "violation":
        cls = r.get("class", "")
        return ("violation", cls, cls + "|" + norm_detail(r.get("detail", "")), r.get("detail", ""))
    if st == "crash":
        kind, top, site = parse_sanitizer(r.get("stderr", ""))
        if kind:
            det = (site + " " if site else "") + "in " + " < ".join(top)
            # for a use after free also say who freed and who allocated the block (first frames in the tree under test);
            # the signature (which groups runs) stays keyed on the faulting access only
            se = r.get("stderr", "")
            for label, pat in (("freed in", r"freed by thread[^\n]*\n((?:\s+#\d+ [^\n]*\n)+)"),
                               ("allocated in", r"previously allocated by thread[^\n]*\n((?:\s+#\d+ [^\n]*\n)+)")):
                mm = re.search(pat, se)
                if mm:
                    fr = [f for f, pth in re.findall(r"#\d+ 0x[0-9a-f]+ in (\S+) (/\S+?):\d+", mm.group(1))
                          if pth.startswith(REPO + "/") and f not in ("nni_free", "nni_alloc", "nni_zalloc")]
                    if fr:
                        det += f"; {label} " + " < ".join(fr[:4])
            return ("violation", kind, kind + "|" + norm_detail(site) + "|" + "<".join(top[:2]), det)
        cls = "abort" if r.get("signal") else "exit%d" % r.get("exit", -1)
        tail = (r.get("stderr", "") or "")[-300:]
        return ("violation", "crash:" + cls, "crash:" + cls + "|" + norm_detail(tail[-80:]), tail)
    if st == "hang":
        return ("violation", "hang_wall", "hang_wall", "run exceeded its wall-clock watchdog (real-time spin or simulator deadlock)")
    if st == "harness":
        return ("infra", r.get("class", "harness"), "", r.get("detail", ""))
    return ("infra", r.get("class", st or "?"), "", r.get("detail", ""))


# ------------------------------------------------------------ known findings
def load_known():
    p = os.path.join(VERIF, "known_findings.json")
    if not os.path.exists(p):
        return []
    return json.load(open(p)).get("known", [])


def match_known(known, cls, detail, scenario=None):
    for k in known:
        if k.get("class") and k["class"] != cls:
            continue
        if k.get("match") and not re.search(k["match"], detail or ""):
            continue
        # an entry may be tied to the scenario(s) whose workload reaches it (used where the detail of the
        # violation class carries no call site, so that the same class elsewhere is still reported)
        if k.get("scenario") and not (scenario and re.fullmatch(k["scenario"], scenario)):
            continue
        return k
    return None


# ------------------------------------------------------------------ shrink
def cmdline(scenario, seed, params, work=None, fault=None, wall=None):
    s = f"{scenario} {seed}"
    for k, v in params.items():
        s += f" {k}={v}"
    if work is not None:
        s += " --work " + (",".join(str(x) for x in work) if work else "0")
    if fault is not None:
        s += " --fault " + (",".join(str(x) for x in fault) if fault else "0")
    if wall:
        s += f" --wall {wall}"
    return s


def shrink(pool, scenario, seed, params, work, fault, want_cls, budget_runs=320, wall=40):
    """Hypothesis-style shrinking of the recorded choice lists.  A candidate
    is kept only if the same violation class recurs."""
    runs = [0]
    best = (list(work), list(fault))

    def ok(res):
        k, cls, _, _ = classify(res)
        return k == "violation" and cls == want_cls

    def try_batch(cands):
        if not cands or runs[0] >= budget_runs:
            return None
        cands = cands[: max(0, budget_runs - runs[0])]
        runs[0] += len(cands)
        cmds = [cmdline(scenario, seed, params, w, f, wall) for (w, f) in cands]
        res = pool.map(cmds)
        for c, r in zip(cands, res):
            if r is not None and ok(r):
                return c
        return None

    def size(c):
        return (len(c[0]) + len(c[1]), sum(c[0]) + sum(c[1]))

    improved = True
    while improved and runs[0] < budget_runs:
        improved = False
        for which in (0, 1):
            lst = best[which]
            # 1. truncation (exhausted list yields zeros)
            cands = []
            n = len(lst)
            for cut in sorted(set([0, n // 8, n // 4, n // 2, (3 * n) // 4, n - 1])):
                if 0 <= cut < n:
                    c = [list(best[0]), list(best[1])]
                    c[which] = lst[:cut]
                    cands.append(tuple(c))
            got = try_batch(cands)
            if got:
                best = got
                improved = True
                continue
            # 2. delete chunks
            n = len(lst)
            chunk = max(1, n // 4)
            while chunk >= 1 and runs[0] < budget_runs:
                cands = []
                for s in range(0, n, chunk):
                    c = [list(best[0]), list(best[1])]
                    c[which] = lst[:s] + lst[s + chunk:]
                    cands.append(tuple(c))
                got = try_batch(cands[:32])
                if got:
                    best = got
                    lst = best[which]
                    n = len(lst)
                    improved = True
                    chunk = max(1, min(chunk, n // 4)) if n else 0
                    if n == 0:
                        break
                else:
                    chunk //= 2
            # 3. zero / halve individual values
            lst = best[which]
            cands = []
            for i, v in enumerate(lst):
                if v != 0:
                    c = [list(best[0]), list(best[1])]
                    c[which] = lst[:i] + [0] + lst[i + 1:]
                    cands.append(tuple(c))
            # try zeroing many at once first
            if len(cands) > 1:
                c = [list(best[0]), list(best[1])]
                c[which] = [0] * len(lst)
                cands.insert(0, tuple(c))
            for off in range(0, len(cands), 32):
                got = try_batch(cands[off:off + 32])
                if got:
                    best = got
                    improved = True
                    break
    return best, runs[0]


# ------------------------------------------------------------------- main
def write_replay(prop, scenario, seed, params, work, fault, res, shrink_runs, orig):
    d = os.path.join(VERIF, "out", prop)
    os.makedirs(d, exist_ok=True)
    path = os.path.join(d, f"{scenario}-{seed}.replay.json")
    k, cls, sig, det = classify(res)
    doc = {
        "property": prop,
        "scenario": scenario,
        "run_seed": seed,
        "params": params,
        "work": work,
        "fault": fault,
        "schedule": {"mode": "prng", "note": "schedule, network and library randomness are pure functions of run_seed"},
        "expect": {"class": cls, "detail": det, "trace_hash": res.get("trace_hash"), "hist_hash": res.get("hist_hash")},
        "ops_log": res.get("events", []),
        "threads_state": res.get("threads_state", ""),
        "stderr": (res.get("stderr") or "")[:6000],
        "minimisation": {"reruns": shrink_runs, "orig_work_len": len(orig[0]), "orig_fault_len": len(orig[1]),
                         "work_len": len(work), "fault_len": len(fault)},
        "replay_cmd": f"bin/check --replay {path}",
    }
    json.dump(doc, open(path, "w"), indent=1)
    return path


def replay_file(path):
    doc = json.load(open(path))
    ok, _ = build()
    if not ok:
        print("BUILD FAILED")
        return 2
    work, fault = doc.get("work"), doc.get("fault")
    if not work and not fault and not doc.get("minimisation", {}).get("orig_work_len"):
        # a run that died in a sanitizer report has no recorded choice lists: it is replayed from its seed
        # (an explicit empty list would mean "every choice 0", which is another run)
        work = fault = None
    cmd = cmdline(doc["scenario"], doc["run_seed"], doc.get("params", {}), work, fault, 900)
    r = run_single(cmd + " trace_level=3", wall=900)
    k, cls, sig, det = classify(r)
    print(json.dumps({"kind": k, "class": cls, "detail": det, "trace_hash": r.get("trace_hash")}, indent=1))
    for e in r.get("events", [])[-60:]:
        print("   ", e)
    if r.get("stderr"):
        print(r["stderr"][:3000])
    if k == "violation" and cls == doc["expect"]["class"]:
        print(f"VIOLATION property={doc['property']} replay={path}")
        return 1
    print("replay did not reproduce the recorded violation (class %s)" % doc["expect"]["class"])
    return 0


def main(argv):
    if argv and argv[0] == "--replay":
        return replay_file(argv[1])
    prop = argv[0]
    tier = os.environ.get("VERIF_TIER", "quick")
    seed = int(os.environ.get("VERIF_SEED", "1"))
    budget = None
    i = 1
    while i < len(argv):
        if argv[i] == "--tier":
            tier = argv[i + 1]; i += 2
        elif argv[i] == "--seed":
            seed = int(argv[i + 1]); i += 2
        elif argv[i] == "--budget":
            budget = float(argv[i + 1]); i += 2
        else:
            i += 1
    t0 = time.time()
    ok, build_s = build()
    if not ok:
        print("INFRA: build failed")
        return 2
    plan = plans.PLANS[prop]
    if budget is None:
        budget = plan.get("budget_s", {}).get(tier, 60 if tier == "quick" else 900)
    deadline = time.time() + budget
    # ---- generate commands
    cmds = []
    meta = []
    pool = Pool()
    enum_info = []
    if "enum_alloc" in plan:
        # fault enumeration: run each program once to count allocations, then
        # once per k with allocation k failing (same seed => identical run up to k)
        progs = plan["enum_alloc"]
        base_cmds, base_meta = [], []
        nseeds = plan.get("enum_seeds", {}).get(tier, 1)
        for pi, prog in enumerate(progs):
            for si in range(nseeds):
                s = mix(seed, prop, "enum", pi, si)
                base_cmds.append(cmdline(prog["scenario"], s, prog.get("params", {}), wall=WALL))
                base_meta.append((pi, prog, s))
        base_res = pool.map(base_cmds)
        import random as _r
        rnd = _r.Random(seed)
        for (pi, prog, s), r in zip(base_meta, base_res):
            k_, cls_, _, det_ = classify(r)
            if k_ != "ok":
                print(f"INFRA: baseline of {prog['scenario']} {prog.get('params')} seed {s} is not ok: {k_} {cls_} {det_[:200]}")
                pool.close()
                return 2
            n = r.get("allocs", 0)
            init = r.get("stats", {}).get("init_allocs", 0)
            ks = list(range(init + 1, n + 1))
            full = True
            if tier == "quick":
                first = plan.get("quick_first", 120)
                rest = ks[first:]
                ks = ks[:first] + sorted(rnd.sample(rest, min(len(rest), plan.get("quick_sample", 30))))
                full = len(rest) <= plan.get("quick_sample", 30)
            enum_info.append({"program": prog["scenario"], "params": prog.get("params", {}), "seed": s, "allocations": n,
                              "init_allocations": init, "k_run": len(ks), "all_k": full})
            for k in ks:
                params = dict(prog.get("params", {}))
                params["fail_alloc_k"] = k
                ent = {"scenario": prog["scenario"], "label": "k", "params": params, "wall": WALL, "enum": True}
                cmds.append(cmdline(prog["scenario"], s, params, wall=WALL))
                meta.append((ent, s, params))
    for ent in plan.get("scenarios", []):
        n = ent["runs"][tier]
        for j in range(n):
            s = mix(seed, prop, ent["scenario"], ent.get("label", ""), j)
            params = dict(ent.get("params", {}))
            if j < 2:
                params["trace_level"] = 3
            cmds.append(cmdline(ent["scenario"], s, params, wall=ent.get("wall", WALL)))
            meta.append((ent, s, params))
    # interleave scenarios so a budget cut samples all of them
    order = sorted(range(len(cmds)), key=lambda i: (mix("o", i) % 1000003))
    cmds = [cmds[i] for i in order]
    meta = [meta[i] for i in order]
    results = pool.map(cmds, deadline)
    # ---- aggregate
    known = load_known()
    agg = {"ok": 0, "inconclusive": 0, "violation": 0, "infra": 0, "skipped": 0}
    hashes, sigs, nontriv = set(), set(), set()
    probes, fin, fidle, stats = {}, {}, {}, {}
    steps = vtime = 0
    samples = []
    per_scen = {}
    viols = {}
    infra_first = None
    rechecked = 0
    for i, ((ent, s, params), r) in enumerate(zip(meta, results)):
        if r is not None and r.get("status") == "hang" and rechecked < 8:
            # the wall-clock watchdog fired: believe it only if the same run, alone and with a long limit, hangs again
            rechecked += 1
            r = results[i] = run_single(cmdline(ent["scenario"], s, {k: v for k, v in params.items()}, wall=900), wall=900)
    for (ent, s, params), r in zip(meta, results):
        if r is None:
            agg["skipped"] += 1
            continue
        k, cls, sig, det = classify(r)
        agg[k] += 1
        ps = per_scen.setdefault(ent["scenario"] + (":" + ent["label"] if ent.get("label") else ""), {"runs": 0, "ok": 0, "inconclusive": 0, "violation": 0})
        ps["runs"] += 1
        if k in ps:
            ps[k] += 1
        if k == "infra" and infra_first is None:
            infra_first = (ent["scenario"], s, cls, det)
        if "trace_hash" in r:
            hashes.add(r["trace_hash"])
            sigs.add(r.get("sig_hash"))
            steps += r.get("steps", 0)
            vtime += r.get("vtime_ns", 0)
            for name, dst in (("probes", probes), ("faults_inflight", fin), ("faults_idle", fidle), ("stats", stats)):
                for kk, vv in r.get(name, {}).items():
                    dst[kk] = dst.get(kk, 0) + vv
            if ent.get("enum"):
                if r.get("alloc_fault_hit"):
                    nontriv.add(r["trace_hash"])
            elif k in ("ok", "violation") and r.get("stats", {}).get("nontrivial", 0) > 0 and r.get("switches", 0) > 0:
                nontriv.add(r["trace_hash"])
            if ent.get("enum") and len(samples) < 6 and r.get("alloc_fault_hit"):
                samples.append({"program": ent["scenario"], "params": params, "seed": s, "outcome": r.get("status"),
                                "probes": r.get("probes", {})})
            if len(samples) < 4 and r.get("events"):
                samples.append({"scenario": ent["scenario"], "seed": s, "config": r.get("samples", [])[:1],
                                "events": r["events"][:40], "outcome": r.get("status")})
        if k == "violation":
            viols.setdefault(sig, []).append((ent, s, params, r, cls, det))
    wall = time.time() - t0
    evaluations = sum(agg[k] for k in ("ok", "inconclusive", "violation", "infra"))
    # ---- violations: gate, shrink, replay
    rc = 0
    reported = []
    known_hits = []
    # known findings first, so that they cannot crowd new signatures out of the six that get triaged
    unknown = []
    for sig, lst in sorted(viols.items(), key=lambda kv: kv[0]):
        kf = match_known(known, lst[0][4], lst[0][5], lst[0][0]["scenario"])
        if kf is not None:
            for i, (k0, n0) in enumerate(known_hits):
                if k0 is kf:
                    known_hits[i] = (k0, n0 + len(lst))
                    break
            else:
                known_hits.append((kf, len(lst)))
        else:
            unknown.append((sig, lst))
    for sig, lst in unknown[:6]:
        ent, s, params, r, cls, det = lst[0]
        p2 = {k: v for k, v in params.items() if k != "trace_level"}
        # gate (a): same seed reproduces identically
        gwall = 900 if cls == "hang_wall" else ent.get("wall", WALL)
        r2 = pool.map([cmdline(ent["scenario"], s, p2, wall=gwall)])[0]
        k2, cls2, _, _ = classify(r2)
        if cls == "hang_wall" and cls2 != "hang_wall":
            # the wall-clock watchdog is the one thing here that depends on real time: a run that completes when
            # given a long limit was slow (overloaded machine), not hung
            print(f"note: scenario={ent['scenario']} seed={s} exceeded the wall-clock watchdog but completes with a longer limit ({k2}/{cls2}): machine load, not a finding")
            agg["violation"] -= len(lst)
            agg["inconclusive"] += len(lst)
            continue
        if k2 != "violation" or cls2 != cls or r2.get("trace_hash") != r.get("trace_hash"):
            print(f"NONDETERMINISM scenario={ent['scenario']} seed={s} first={cls}/{r.get('trace_hash')} second={cls2}/{r2.get('trace_hash')}")
            rc = max(rc, 2)
            continue
        work, fault = r.get("work"), r.get("fault")
        nshr = 0
        final = r
        if work is not None and not ent.get("enum"):
            (work, fault), nshr = shrink(pool, ent["scenario"], s, p2, work, fault or [], cls, wall=ent.get("wall", WALL))
            final = pool.map([cmdline(ent["scenario"], s, p2, work, fault, ent.get("wall", WALL)) + " trace_level=3"])[0]
            kf_, clsf, _, _ = classify(final)
            if kf_ != "violation" or clsf != cls:
                final = r
                work, fault = r.get("work"), r.get("fault")
        path = write_replay(prop, ent["scenario"], s, p2, work or [], fault or [], final, nshr,
                            (r.get("work") or [], r.get("fault") or []))
        # gate (b): fresh-process replay, twice
        good = 0
        for _ in range(2):
            rr = run_single(cmdline(ent["scenario"], s, p2, work, fault, gwall), wall=gwall)
            kk, cc, _, _ = classify(rr)
            if kk == "violation" and cc == cls:
                good += 1
        if good < 2:
            print(f"NONDETERMINISM replay of {path} reproduced {good}/2 times")
            rc = max(rc, 2)
            continue
        _, _, _, fdet = classify(final)
        print(f"VIOLATION property={prop} replay={path}")
        print(f"  class={cls} scenario={ent['scenario']} seed={s} occurrences={len(lst)} shrink_reruns={nshr}")
        print(f"  detail: {fdet[:400]}")
        reported.append({"class": cls, "detail": fdet[:400], "replay": path, "occurrences": len(lst)})
        rc = max(rc, 1)
    pool.close()
    for kf, n in known_hits:
        print(f"KNOWN-FINDING: property={kf.get('property', prop)} {kf.get('what', kf.get('class'))} (seen {n}x)")
    if infra_first and rc == 0 and agg["infra"] > 0:
        print(f"INFRA: {agg['infra']} runs failed in the harness, first: {infra_first}")
        rc = 2
    if evaluations == 0:
        print("INFRA: no runs completed")
        rc = 2
    wall = time.time() - t0
    ev = {
        "property_id": prop,
        "tier": tier,
        "seed": seed,
        "level": plan.get("level", "exploration"),
        "coverage": {
            "evaluations": evaluations,
            "distinct_nontrivial": len(nontriv),
            "rule": plan["rule"],
            "samples": samples if samples else [{"note": "no completed run"}],
            "distinct_trace_hashes": len(hashes),
            "distinct_interleavings_by_switch_signature": len(sigs),
            "runs_ok": agg["ok"], "runs_inconclusive": agg["inconclusive"], "runs_violation": agg["violation"],
            "runs_infra": agg["infra"], "runs_skipped_budget": agg["skipped"],
            "scheduling_points_total": steps,
            "simulated_seconds_total": round(vtime / 1e9, 3),
            "runs_per_hour": int(evaluations / max(wall - build_s, 0.001) * 3600),
            "faults_fired_in_flight": fin,
            "faults_fired_idle": fidle,
            "probes": probes,
            "stats": stats,
            "per_scenario": per_scen,
            "components": COMPONENTS,
            "technique": "deterministic simulation with fault injection: seeded search over schedules, segmentations and faults",
            "exhaustive": False,
        },
        "assumptions": plan.get("assumptions", []) + [
            "sampling, not proof: a clean batch is evidence only",
            "preemption granularity is synchronisation/atomic/clock/syscall boundaries; the scheduler is sequentially consistent",
            "simnet models the subset of Linux socket/epoll behaviour nng uses",
        ],
        "wall_s": round(wall, 2),
        "violations": len(reported),
        "violations_detail": reported,
        "known_findings_seen": [{"what": kf.get("what"), "count": n} for kf, n in known_hits],
        "build_s": round(build_s, 2),
    }
    if enum_info:
        ev["coverage"]["enumeration"] = enum_info
        ev["coverage"]["exhaustive"] = all(e["all_k"] for e in enum_info) and agg["skipped"] == 0
        ev["coverage"]["exhaustive_scope"] = "every allocation index k of every listed program under the listed seed(s) (one schedule each); not exhaustive over schedules"
        ev["coverage"]["technique"] = "deterministic simulation with fault enumeration: allocation k fails, for every k of each deterministic run"

    os.makedirs(os.path.join(VERIF, "evidence"), exist_ok=True)
    json.dump(ev, open(os.path.join(VERIF, "evidence", prop + ".json"), "w"), indent=1)
    print(f"{prop} {tier}: runs={evaluations} ok={agg['ok']} inconclusive={agg['inconclusive']} violations={agg['violation']} "
          f"infra={agg['infra']} skipped={agg['skipped']} distinct_nontrivial={len(nontriv)} wall={wall:.1f}s rc={rc}")
    return rc
