// C12 (third file): a request made while no replier is reachable at all.  The
// requester sits without any connection for a while (several retry ticks),
// then a replier appears, receives the request and ignores the first copies
// without dropping the connection.  "retransmitted whenever
// NNG_OPT_REQ_RESENDTIME elapses without a reply ... as long as some replier
// eventually becomes reachable and answers, the receive eventually succeeds."
#include "../harness/util.h"

namespace {

#define MS 1000000ull

struct LpCtx {
	int      idx;
	bool     is_sock;
	nng_ctx  ctx;
	int      drops, seen;
	uint64_t t_seen[8];
	UAio    *snd, *rcv;
};

struct LpWorld {
	nng_socket           req, rep;
	std::vector<LpCtx *> ctxs;
	volatile int         stop;
};

static void
lp_replier(void *a)
{
	LpWorld *w = (LpWorld *) a;
	while (!w->stop) {
		nng_msg *m = NULL;
		if (nng_recvmsg(w->rep, &m, 0) != 0) // 20 ms receive timeout
			continue;
		Tag t = tag_parse((const uint8_t *) nng_msg_body(m), nng_msg_len(m));
		if (!t.ok || t.origin < 1 || t.origin > w->ctxs.size()) {
			nng_msg_free(m);
			VIOL("request_altered", "the replier received a malformed request");
		}
		LpCtx *c = w->ctxs[(size_t) t.origin - 1];
		if (c->seen < 8)
			c->t_seen[c->seen] = sim_now_ns();
		c->seen++;
		sim_event("replier: request of ctx%d, transmission %d (ignoring the first %d)", c->idx, c->seen, c->drops);
		if (c->seen <= c->drops) {
			nng_msg_free(m);
			continue;
		}
		if (nng_sendmsg(w->rep, m, 0) != 0) // raw REP: the header routes it back
			nng_msg_free(m);
	}
}

static void
lp_cfg(sim_config *cfg, Params *p)
{
	(void) p;
	cfg->stall_p = 0; // bounds below are in plain virtual time
}

static void
lp_run(Params *p)
{
	LpWorld w;
	w.stop = 0;
	static const nng_duration rss[]   = { 50, 100, 300 };
	static const nng_duration ticks[] = { 10, 20, 50 };
	nng_duration rs   = rss[W(0, 2)];
	nng_duration tick = ticks[W(0, 2)];
	int          tr   = (int) p->draw("tr", 0, 2);
	bool         req_listens = p->draw("flip", 0, 1) != 0;
	MUST(nng_req0_open(&w.req));
	MUST(nng_socket_set_ms(w.req, NNG_OPT_REQ_RESENDTIME, rs));
	MUST(nng_socket_set_ms(w.req, NNG_OPT_REQ_RESENDTICK, tick));
	MUST(nng_socket_set_ms(w.req, NNG_OPT_RECONNMINT, 10));
	MUST(nng_socket_set_ms(w.req, NNG_OPT_RECONNMAXT, 10));
	std::string url = h_url(tr, 59);
	if (req_listens)
		MUST(nng_listen(w.req, url.c_str(), NULL, 0));
	else
		MUST(nng_dial(w.req, url.c_str(), NULL, NNG_FLAG_NONBLOCK));
	int n = 1 + (int) W(0, 1);
	for (int i = 0; i < n; i++) {
		LpCtx *c   = new LpCtx();
		c->idx     = i;
		c->is_sock = i == 0 && W(0, 1) == 0;
		c->drops   = 1 + (int) W(0, 1);
		c->seen    = 0;
		if (!c->is_sock)
			MUST(nng_ctx_open(&c->ctx, w.req));
		c->snd = new UAio();
		c->rcv = new UAio();
		w.ctxs.push_back(c);
	}
	// the requests, with nobody there
	for (auto c : w.ctxs) {
		nng_aio_set_msg(c->snd->aio, tag_msg(40, (uint16_t) (c->idx + 1), 0, 1));
		nng_aio_set_timeout(c->snd->aio, 20000);
		c->snd->arm("lp_send");
		if (c->is_sock)
			nng_socket_send(w.req, c->snd->aio);
		else
			nng_ctx_send(c->ctx, c->snd->aio);
	}
	uint64_t idle_ms = (uint64_t) W(0, 6) * (uint64_t) tick + (uint64_t) W(0, tick);
	sim_event("c12_latepeer tr=%s resend %d tick %d, %d request(s), %llu ms without any peer, %s", h_tr_name(tr), rs, tick,
	    n, (unsigned long long) idle_ms, req_listens ? "requester listens" : "requester dials");
	sim_sleep_ns(idle_ms * MS);
	// the replier appears
	MUST(nng_rep0_open_raw(&w.rep));
	MUST(nng_socket_set_ms(w.rep, NNG_OPT_RECVTIMEO, 20));
	MUST(nng_socket_set_ms(w.rep, NNG_OPT_SENDTIMEO, 1000));
	if (req_listens)
		MUST(nng_dial(w.rep, url.c_str(), NULL, 0));
	else
		MUST(nng_listen(w.rep, url.c_str(), NULL, 0));
	uint64_t t_up = sim_now_ns();
	int      rt   = sim_spawn("replier", lp_replier, &w, 0);
	for (auto c : w.ctxs) {
		// the send completes once the request is on a connection
		if (c->snd->wait(2000 * MS) == (nng_err) -1)
			VIOL("reply_never_arrived", "ctx%d: the request is still not on a connection 2 s after a replier became reachable",
			    c->idx);
		if (c->snd->result != 0) {
			nng_msg_free(nng_aio_get_msg(c->snd->aio));
			VIOL("request_send_failed", "ctx%d send returned %d", c->idx, (int) c->snd->result);
		}
		nng_aio_set_timeout(c->rcv->aio, NNG_DURATION_INFINITE);
		c->rcv->arm("lp_recv");
		if (c->is_sock)
			nng_socket_recv(w.req, c->rcv->aio);
		else
			nng_ctx_recv(c->ctx, c->rcv->aio);
	}
	for (auto c : w.ctxs) {
		// every ignored copy costs at most one resend time plus one tick
		uint64_t budget = 500 * MS + (uint64_t) c->drops * (uint64_t) (rs + tick + 50) * MS;
		uint64_t until  = t_up + 2000 * MS + budget;
		uint64_t now    = sim_now_ns();
		if (c->rcv->wait(until > now ? until - now : 1) == (nng_err) -1) {
			VIOL("reply_never_arrived",
			    "ctx%d: request made %llu ms before any replier was reachable; the replier saw %d transmission(s) "
			    "(it ignores the first %d and would answer the next) and %.0f ms after its last one no further "
			    "retransmission has come (resend time %d ms, tick %d ms)",
			    c->idx, (unsigned long long) idle_ms, c->seen, c->drops,
			    c->seen > 0 ? (double) (sim_now_ns() - c->t_seen[std::min(c->seen, 8) - 1]) / 1e6 : -1.0, rs, tick);
		}
		if (c->rcv->result != 0)
			VIOL("reply_never_arrived", "ctx%d: receive failed with %d", c->idx, (int) c->rcv->result);
		nng_msg *m = nng_aio_get_msg(c->rcv->aio);
		Tag      t = tag_parse((const uint8_t *) nng_msg_body(m), nng_msg_len(m));
		nng_msg_free(m);
		if (!t.ok || t.origin != (uint16_t) (c->idx + 1))
			VIOL("reply_misrouted", "ctx%d received a reply that is not the echo of its request", c->idx);
		for (int k = 1; k < std::min(c->seen, 8); k++)
			if (c->t_seen[k] - c->t_seen[k - 1] > (uint64_t) (rs + tick + 50) * MS)
				VIOL("retransmission_late",
				    "ctx%d: %.0f ms between transmissions %d and %d with the connection up (resend time %d ms, tick %d ms)",
				    c->idx, (double) (c->t_seen[k] - c->t_seen[k - 1]) / 1e6, k, k + 1, rs, tick);
		sim_probe("c12_latepeer_answered");
	}
	sim_stat("nontrivial", 1);
	w.stop = 1;
	sim_join(rt);
	for (auto c : w.ctxs) {
		if (!c->is_sock)
			MUST(nng_ctx_close(c->ctx));
		delete c->snd;
		delete c->rcv;
		delete c;
	}
	MUST(nng_socket_close(w.req));
	MUST(nng_socket_close(w.rep));
}
SCENARIO(c12_latepeer, "C12", lp_cfg, lp_run);

} // namespace
