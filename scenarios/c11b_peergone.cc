// C11, clause "disconnects at any byte - the process does not crash ... only the offending connection is dropped":
// a peer that goes away while the application is sending to it.
//
// A victim socket (PAIR0, PUSH, PUB or BUS) has a socket:// (or tcp/ipc, for comparison) connection to a raw peer that
// completes the SP handshake correctly and then closes its end - with or without reading - at a drawn instant, while an
// application task of the victim sends messages in a tight loop.  A send that reaches the kernel after the peer has gone
// gets EPIPE; with a plain write()/writev() (no MSG_NOSIGNAL) in a thread that has not blocked SIGPIPE the kernel also
// raises SIGPIPE, which kills the process.  The simulated kernel reports that as violation class `sigpipe` (sim/net.cc
// epipe()); everything else the statement promises is checked here:
//   * the process survives (no `sigpipe`, no sanitizer report), the send calls return;
//   * "only the offending connection is dropped ... the listener and all other connections keep working": a second,
//     well-behaved nng peer connected afterwards through the same listener receives a message from the victim
//     (PAIR0: after the first connection is gone).
#include "../harness/util.h"
#include <nng/protocol/bus0/bus.h>
#include <nng/protocol/pair0/pair.h>
#include <nng/protocol/pipeline0/pull.h>
#include <nng/protocol/pipeline0/push.h>
#include <nng/protocol/pubsub0/pub.h>
#include <nng/protocol/pubsub0/sub.h>
#include <netinet/in.h>
#include <sys/socket.h>
#include <sys/un.h>
#include <unistd.h>

namespace {

struct Kind {
	const char *name;
	int (*open)(nng_socket *);
	int (*peer_open)(nng_socket *);
	uint16_t self, peer;
};
static const Kind KINDS[] = {
	{ "pair0", nng_pair0_open, nng_pair0_open, 0x10, 0x10 },
	{ "push", nng_push0_open, nng_pull0_open, 0x50, 0x51 },
	{ "pub", nng_pub0_open, nng_sub0_open, 0x20, 0x21 },
	{ "bus", nng_bus0_open, nng_bus0_open, 0x70, 0x70 },
};

struct Tx {
	nng_socket   s;
	volatile int stop;
	int          sent, failed;
	uint64_t     gap_ns;
};

static void
tx_task(void *a)
{
	Tx *t = (Tx *) a;
	while (!t->stop) {
		nng_msg *m = NULL;
		MUST(nng_msg_alloc(&m, 0));
		MUST(nng_msg_append(m, "C11-peergone", 12));
		int rv = nng_sendmsg(t->s, m, NNG_FLAG_NONBLOCK);
		if (rv != 0) {
			nng_msg_free(m);
			t->failed++;
		} else {
			t->sent++;
		}
		if (t->gap_ns)
			sim_sleep_ns(t->gap_ns);
		else
			sim_yield();
	}
}

static void
pg_run(Params *p)
{
	simnet_sigpipe_fatal(1); // this scenario's raw peer never uses plain write()
	const Kind &k  = KINDS[p->draw("kind", 0, 3)];
	int         tr = (int) p->draw("tr", 0, 2); // 0 socket://, 1 tcp, 2 ipc
	nng_socket  v;
	MUST(k.open(&v));
	MUST(nng_socket_set_ms(v, NNG_OPT_SENDTIMEO, 100));
	nng_listener vl;
	std::string  url = tr == 0 ? std::string("socket://") : h_url(tr == 1 ? TR_TCP : TR_IPC, 71);
	MUST(nng_listener_create(&vl, v, url.c_str()));
	MUST(nng_listener_start(vl, 0));
	int rounds = 1 + (int) W(0, 2);
	for (int r = 0; r < rounds; r++) {
		// the raw peer: correct handshake, then gone
		int fd = -1;
		if (tr == 0) {
			int fds[2];
			if (socketpair(AF_UNIX, SOCK_STREAM, 0, fds) != 0)
				h_fatal("socketpair failed");
			MUST(nng_listener_set_int(vl, NNG_OPT_SOCKET_FD, fds[0]));
			fd = fds[1];
		} else {
			fd = simnet_socket(tr == 1 ? AF_INET : AF_UNIX, SOCK_STREAM);
			int crv;
			if (tr == 1) {
				struct sockaddr_in in;
				memset(&in, 0, sizeof(in));
				in.sin_family      = AF_INET;
				in.sin_port        = htons(5071);
				in.sin_addr.s_addr = htonl(0x7f000001);
				crv = simnet_connect_blocking(fd, &in, sizeof(in), 2000000000ull);
			} else {
				struct sockaddr_un un;
				memset(&un, 0, sizeof(un));
				un.sun_family = AF_UNIX;
				snprintf(un.sun_path, sizeof(un.sun_path), "/sim/sock71");
				crv = simnet_connect_blocking(fd, &un, sizeof(un), 2000000000ull);
			}
			if (fd < 0 || crv != 0)
				h_fatal("raw connect failed");
		}
		uint8_t hs[8] = { 0, 'S', 'P', 0, (uint8_t) (k.peer >> 8), (uint8_t) k.peer, 0, 0 };
		uint8_t in[8];
		if (simnet_write_full(fd, hs, 8, 2000000000ull) != 8 || simnet_read_full(fd, in, 8, 2000000000ull) != 8)
			h_fatal("raw handshake failed");
		sim_quiesce(2000000);
		Tx t;
		t.s = v, t.stop = 0, t.sent = t.failed = 0;
		t.gap_ns = (uint64_t) (1 + W(0, 3)) * 5000;
		int tid  = sim_spawn("tx", tx_task, &t, 0);
		sim_sleep_ns((uint64_t) W(0, 50) * 10000);
		long how = W(0, 2);
		sim_event("round %d: %s over %s, peer %s after %d sends", r, k.name, tr == 0 ? "socket://" : h_tr_name(tr == 1 ? TR_TCP : TR_IPC),
		    how == 0 ? "closes" : how == 1 ? "resets" : "reads a little, then closes", t.sent);
		if (how == 2) {
			uint8_t buf[64];
			(void) simnet_read_blocking(fd, buf, sizeof(buf), 1000000);
		}
		if (how == 1)
			simnet_reset(fd); // closes the descriptor as well
		else
			close(fd);
		// the application keeps sending for a while: some of these writes meet the dead connection
		sim_sleep_ns((uint64_t) W(1, 100) * 10000);
		t.stop = 1;
		sim_join(tid);
		sim_quiesce(5000000);
		sim_stat("nontrivial", 1);
	}
	// the listener still works: a well-behaved peer gets through and hears from the victim
	nng_socket g;
	MUST(k.peer_open(&g));
	MUST(nng_socket_set_ms(g, NNG_OPT_RECVTIMEO, 200));
	if (k.self == 0x20)
		MUST(nng_sub0_socket_subscribe(g, "", 0));
	if (tr == 0) {
		nng_listener gl;
		int          fds[2];
		MUST(nng_listener_create(&gl, g, "socket://"));
		MUST(nng_listener_start(gl, 0));
		if (socketpair(AF_UNIX, SOCK_STREAM, 0, fds) != 0)
			h_fatal("socketpair failed");
		MUST(nng_listener_set_int(vl, NNG_OPT_SOCKET_FD, fds[0]));
		MUST(nng_listener_set_int(gl, NNG_OPT_SOCKET_FD, fds[1]));
	} else {
		MUST(nng_dial(g, url.c_str(), NULL, NNG_FLAG_NONBLOCK));
	}
	bool heard = false;
	for (int i = 0; i < 40 && !heard; i++) {
		sim_quiesce(3000000);
		nng_msg *m = NULL;
		MUST(nng_msg_alloc(&m, 0));
		MUST(nng_msg_append(m, "C11-after", 9));
		if (nng_sendmsg(v, m, 0) != 0)
			nng_msg_free(m);
		nng_msg *rm = NULL;
		if (nng_recvmsg(g, &rm, 0) == 0) {
			heard = true;
			nng_msg_free(rm);
		}
	}
	if (!heard)
		VIOL("listener_dead_after_peer_loss",
		    "%s victim over %s: after raw peers that handshook correctly and went away while being sent to, a "
		    "well-behaved peer connected through the same listener heard nothing in 40 attempts",
		    k.name, url.c_str());
	MUST(nng_socket_close(g));
	MUST(nng_socket_close(v));
}

static void
pg_cfg(sim_config *cfg, Params *p)
{
	(void) p;
	(void) cfg;
}
SCENARIO(c11_peergone, "C11", pg_cfg, pg_run);

} // namespace
