// C04 (and the C02 clause "a cancel ... code is reported only if the operation had not already completed"):
// a cancel aimed at a receive that has meanwhile completed with its reply must not disturb the NEXT
// exchange of the same context.  The canceller thread may be inside nng_aio_cancel (cancel function
// fetched, not yet run) while the reply completes the receive and the application starts the next
// request; if that request has to wait for the connection (another context's large request is still being
// written), the stale cancel finds a pending send on the context.
//
// Workload: a REQ socket with context A (or the socket itself) and context B dials a raw REP peer over
// tcp/ipc; A's request 1 is sent and receive R1 posted; B then submits a large request that keeps the
// connection busy; the peer answers request 1; a canceller task calls nng_aio_cancel(R1) around the moment
// the reply arrives.  If R1 completed with the reply, A's request 2 is submitted at once with a finite
// time-out, and nobody ever cancels it.
//
// Oracle (statement phrases):
//  * "a cancel ... code is reported only if the operation had not already completed" / one final result that
//    something explains: the send of request 2 was never cancelled, stopped or closed, so it completes with 0
//    or with its own time-out - never NNG_ECANCELED;
//  * "replies ... are discarded without disturbing other contexts" - B's exchange completes normally.
#include "../harness/util.h"
#include <nng/protocol/reqrep0/rep.h>
#include <nng/protocol/reqrep0/req.h>

namespace {

struct LC {
	nng_aio     *r1;
	uint64_t     delay_ns;
	volatile int go, done;
};

static void
canceller(void *a)
{
	LC *l = (LC *) a;
	sim_wait_flag(&l->go, 0);
	if (l->delay_ns)
		sim_sleep_ns(l->delay_ns);
	nng_aio_cancel(l->r1);
	l->done = 1;
}

struct Peer {
	nng_socket   rep;
	LC          *lc;
	bool         early;
	int          expect; // requests to serve in this round
	volatile int got1, bsent, served;
};

// serves `expect` requests by echoing them; the first answer is held back until the requester's other
// context has started its large request
static void
peer_task(void *a)
{
	Peer *pr = (Peer *) a;
	for (int i = 0; i < pr->expect; i++) {
		nng_msg *m = NULL;
		if (nng_recvmsg(pr->rep, &m, 0) != 0)
			break;
		if (i == 0) {
			pr->got1 = 1;
			sim_wait_flag(&pr->bsent, 500000000ull);
			if (pr->early)
				pr->lc->go = 1;
		}
		if (nng_msg_len(m) > 64)
			nng_msg_chop(m, nng_msg_len(m) - 64);
		if (nng_sendmsg(pr->rep, m, 0) != 0)
			nng_msg_free(m);
		if (i == 0)
			pr->lc->go = 1;
		pr->served++;
	}
	pr->got1   = 1;
	pr->lc->go = 1;
}

static void
lc_run(Params *p)
{
	int         tr  = (int) p->draw("tr", 1, 2);
	std::string url = h_url(tr, 61);
	nng_socket  rep, req;
	MUST(nng_rep0_open_raw(&rep));
	MUST(nng_socket_set_ms(rep, NNG_OPT_RECVTIMEO, 400));
	MUST(nng_socket_set_ms(rep, NNG_OPT_SENDTIMEO, 1000));
	MUST(nng_socket_set_int(rep, NNG_OPT_RECVBUF, 8));
	MUST(nng_listen(rep, url.c_str(), NULL, 0));
	MUST(nng_req0_open(&req));
	MUST(nng_socket_set_ms(req, NNG_OPT_REQ_RESENDTIME, W(0, 1) ? NNG_DURATION_INFINITE : 60000));
	MUST(nng_dial(req, url.c_str(), NULL, 0));
	bool    use_ctx = W(0, 1) != 0;
	nng_ctx cxa, cxb;
	if (use_ctx)
		MUST(nng_ctx_open(&cxa, req));
	MUST(nng_ctx_open(&cxb, req));
	int rounds = 1 + (int) W(0, 3);
	for (int r = 0; r < rounds; r++) {
		UAio     s1, r1, s2, sb, rb;
		nng_msg *q = NULL;
		MUST(nng_msg_alloc(&q, 0));
		MUST(nng_msg_append(q, "one", 3));
		nng_aio_set_msg(s1.aio, q);
		nng_aio_set_timeout(s1.aio, 1000);
		s1.arm("send1");
		use_ctx ? nng_ctx_send(cxa, s1.aio) : nng_socket_send(req, s1.aio);
		if (s1.wait() != 0) {
			nng_msg_free(nng_aio_get_msg(s1.aio));
			sim_event("round %d: request 1 not sent (%d)", r, (int) s1.result);
			break;
		}
		nng_aio_set_timeout(r1.aio, 1500);
		r1.arm("recv1");
		use_ctx ? nng_ctx_recv(cxa, r1.aio) : nng_socket_recv(req, r1.aio);
		LC lc;
		lc.r1 = r1.aio, lc.go = 0, lc.done = 0;
		lc.delay_ns = (uint64_t) W(0, 40) * 5000; // 0..200 us after the peer has answered
		int  ct = sim_spawn("canceller", canceller, &lc, 0);
		Peer pr;
		pr.rep = rep, pr.lc = &lc, pr.got1 = 0, pr.bsent = 0, pr.served = 0;
		pr.early  = W(0, 2) == 0; // the cancel is released before the answer is sent
		pr.expect = 3;
		int pt    = sim_spawn("peer", peer_task, &pr, 0);
		sim_wait_flag(&pr.got1, 0);
		// the other context's large request keeps the connection busy writing
		size_t   big = (size_t) (16 + W(0, 15) * 16) * 1024;
		nng_msg *qb  = NULL;
		MUST(nng_msg_alloc(&qb, big));
		memset(nng_msg_body(qb), 'B', big);
		nng_aio_set_msg(sb.aio, qb);
		nng_aio_set_timeout(sb.aio, 3000);
		sb.arm("sendB");
		nng_ctx_send(cxb, sb.aio);
		pr.bsent = 1;
		nng_err rv1 = r1.wait();
		sim_event("round %d: R1 -> %d (cancel %s) B's send %s", r, (int) rv1, lc.done ? "returned" : "in progress",
		    sb.poll() ? "done" : "in progress");
		nng_err rv2 = NNG_ECLOSED;
		bool    two = false;
		if (rv1 == 0) {
			nng_msg_free(nng_aio_get_msg(r1.aio));
			if (!lc.done)
				sim_probe("c04_cancel_in_progress_at_completion");
			if (!sb.poll())
				sim_probe("c04_request2_behind_busy_connection");
			// request 2 at once; nobody cancels it
			nng_msg *q2 = NULL;
			MUST(nng_msg_alloc(&q2, 0));
			MUST(nng_msg_append(q2, "two", 3));
			nng_aio_set_msg(s2.aio, q2);
			nng_aio_set_timeout(s2.aio, 2000);
			s2.arm("send2");
			use_ctx ? nng_ctx_send(cxa, s2.aio) : nng_socket_send(req, s2.aio);
			rv2 = s2.wait();
			two = true;
			sim_event("round %d: S2 -> %d", r, (int) rv2);
			sim_stat("nontrivial", 1);
			if (rv2 != 0)
				nng_msg_free(nng_aio_get_msg(s2.aio));
			if (rv2 == NNG_ECANCELED)
				VIOL("uncancelled_send_canceled",
				    "the send of a new request completed with NNG_ECANCELED although nobody cancelled it "
				    "(a cancel aimed at the previous, already completed receive of the same %s was %s)",
				    use_ctx ? "context" : "socket", lc.done ? "issued earlier" : "in progress");
			else if (rv2 != 0 && rv2 != NNG_ETIMEDOUT)
				VIOL("unexplained_send_result", "send of request 2 returned %d (expected 0 or its own time-out)", (int) rv2);
		} else if (rv1 != NNG_ECANCELED && rv1 != NNG_ETIMEDOUT) {
			VIOL("unexplained_recv_result", "receive of reply 1 returned %d", (int) rv1);
		}
		sim_join(ct);
		// B's exchange is not disturbed by any of this
		nng_err rvb = sb.wait();
		if (rvb != 0) {
			nng_msg_free(nng_aio_get_msg(sb.aio));
			VIOL("other_context_disturbed", "the other context's request failed with %d", (int) rvb);
		}
		nng_aio_set_timeout(rb.aio, 3000);
		rb.arm("recvB");
		nng_ctx_recv(cxb, rb.aio);
		if (rb.wait() != 0)
			VIOL("other_context_disturbed", "the other context's reply did not arrive (%d)", (int) rb.result);
		else
			nng_msg_free(nng_aio_get_msg(rb.aio));
		if (two && rv2 == 0) {
			UAio r2;
			nng_aio_set_timeout(r2.aio, 3000);
			r2.arm("recv2");
			use_ctx ? nng_ctx_recv(cxa, r2.aio) : nng_socket_recv(req, r2.aio);
			if (r2.wait() == 0)
				nng_msg_free(nng_aio_get_msg(r2.aio));
			else
				VIOL("reply_lost", "request 2 was sent and answered by a connected peer, receive failed with %d",
				    (int) r2.result);
		}
		sim_join(pt); // the peer's last receive runs into its 400 ms time-out when fewer requests were made
		sim_quiesce(2000000);
	}
	if (use_ctx)
		MUST(nng_ctx_close(cxa));
	MUST(nng_ctx_close(cxb));
	MUST(nng_socket_close(req));
	MUST(nng_socket_close(rep));
}

static void
lc_cfg(sim_config *cfg, Params *p)
{
	(void) p;
	// a small socket send buffer and some latency make the large request take a while
	cfg->sndbuf_min = 2048;
	cfg->sndbuf_max = 16384;
}
SCENARIO(c04_latecancel, "C04", lc_cfg, lc_run);

} // namespace
