// C15 (fourth file): the message that makes a socket readable is consumed at
// the very moment it is queued -- by the completion callback of a pending
// asynchronous receive of the same socket (the callback drains the socket
// with nng_recvmsg(socket, NNG_FLAG_NONBLOCK), as applications that mix
// contexts / aios with a poll loop do), or by a second task that issues the
// same call while the message is arriving.  Afterwards, at a quiescent point,
// the receive descriptor and the non-blocking receive must still agree.
//
// World: a subject socket (SUB, PULL, PAIR0, PAIR1, REP or RESPONDENT, listens)
// with a receive poll descriptor, 1..2 peers that send one message at a time
// (PUB, PUSH, PAIR, raw REQ, raw SURVEYOR), and 0..3 "drains": asynchronous
// receives left pending on contexts of the subject (SUB, REP, RESPONDENT) or on
// the subject itself, whose callback frees what it got, calls
// nng_recvmsg(subject, NNG_FLAG_NONBLOCK) zero, one or many times and submits
// the receive again.  For SUB the socket has its own subscription, so one
// published message is queued on the socket AND completes the contexts'
// receives; the callbacks run while the protocol is still delivering it.
//
// Oracle clauses (each maps to a phrase of the statement):
//  (a) nonblock_blocked            "never blocks: it completes at once" -- every NONBLOCK receive, also
//                                  those issued from callbacks and from the second task
//  (b) fd_readable_but_eagain      "whenever the library is quiescent ... if it polls readable that operation
//                                  does not return NNG_EAGAIN (no busy loop)"
//  (c) success_but_fd_not_readable "whenever the library is quiescent, a descriptor polls readable if the
//                                  corresponding non-blocking operation would succeed (no missed wake-up)"
//  (e) eagain_when_ready           "if the socket can ... supply (receive) a message at that moment the call does
//                                  so instead of returning NNG_EAGAIN" -- only where a lower bound on the number of
//                                  messages held by the socket is certain (all sends accepted, counted arrivals
//                                  minus everything anybody received, clipped by the receive buffer for SUB)
// (b), (c), (e) are evaluated only at quiescent points (sim_quiesce) by the main task with no other task able
// to run between poll and call.  Everything else (how many messages a callback found, whether the callback ran
// inside the protocol's delivery) is counted with sim_probe / sim_stat.
#include "../harness/util.h"

namespace {

enum { K_SUB = 0, K_PULL, K_PAIR0, K_PAIR1, K_REP, K_RESP, K_N };

struct KindInfo {
	const char *name;
	int (*open)(nng_socket *);
	int (*open_peer)(nng_socket *);
	bool ctx;       // drains may sit on contexts
	bool pool;      // contexts and socket take from one pool of messages (REP/RESPONDENT); SUB contexts get copies
	bool rawhdr;    // the peer is a raw socket and needs a request/survey id in the header
	int  max_peers;
};

static const KindInfo KINDS[K_N] = {
	{ "sub", nng_sub0_open, nng_pub0_open, true, false, false, 2 },
	{ "pull", nng_pull0_open, nng_push0_open, false, true, false, 2 },
	{ "pair0", nng_pair0_open, nng_pair0_open, false, true, false, 1 },
	{ "pair1", nng_pair1_open, nng_pair1_open, false, true, false, 1 },
	{ "rep", nng_rep0_open, nng_req0_open_raw, true, true, true, 2 },
	{ "respondent", nng_respondent0_open, nng_surveyor0_open_raw, true, true, true, 2 },
};

static const uint64_t NB_LIMIT_NS = 50000000ull; // generous: a non-blocking call costs microseconds

struct World;

struct Drain {
	World       *w       = NULL;
	nng_aio     *aio     = NULL;
	bool         is_ctx  = false;
	nng_ctx      ctx     = NNG_CTX_INITIALIZER;
	int          modes[8]; // per callback: 0 receive from the socket until it fails, 1 once, 2 not at all
	int          ncb      = 0;
	int          resub    = 0; // submissions still allowed from the callback
	volatile int pending  = 0;
	int          got      = 0;
	std::string  topic;
	bool         has_topic = false;
};

struct World {
	int                     kind = 0;
	const KindInfo         *ki   = NULL;
	nng_socket              subj = NNG_SOCKET_INITIALIZER;
	std::vector<nng_socket> peers;
	int                     rfd = -1; // -1 not asked yet
	std::vector<Drain *>    drains;
	volatile int            stopping = 0;
	// socket-level subscriptions (SUB)
	std::vector<std::string> topics;
	int                      cap = 1 << 20; // SUB: receive buffer of the socket
	// model: lower bound on the messages the socket holds for a socket-level receive
	long lower    = 0;
	long arrivals = 0; // accepted sends that match the socket, since the last quiescent point
	long takes    = 0; // messages received from the socket's pool since the last quiescent point
	bool exact    = true;
	int  npipes   = 0; // connections of the subject (pipe events)
	int  npeer    = 0;
	int  checks = 0, cb_found = 0, thief_found = 0, in_cb = 0;
	uint32_t serial = 0;
};

static const char *
errname(int rv)
{
	switch (rv) {
	case 0:
		return "ok";
	case NNG_EAGAIN:
		return "EAGAIN";
	case NNG_ESTATE:
		return "ESTATE";
	case NNG_ETIMEDOUT:
		return "ETIMEDOUT";
	case NNG_ECANCELED:
		return "ECANCELED";
	case NNG_ECLOSED:
		return "ECLOSED";
	default:
		return nng_strerror((nng_err) rv);
	}
}

static void
pipe_cb(nng_pipe, nng_pipe_ev ev, void *arg)
{
	World *w = (World *) arg;
	if (ev == NNG_PIPE_EV_ADD_POST)
		w->npipes++;
	else if (ev == NNG_PIPE_EV_REM_POST)
		w->npipes--;
}

// One NNG_FLAG_NONBLOCK receive on the subject socket, from whatever thread.
// Asserts only what holds at any time: (a).
static int
nb_recv(World *w, const char *who)
{
	nng_msg *m  = NULL;
	uint64_t t0 = sim_now_ns(), s0 = sim_stall_total_ns();
	int      rv = nng_recvmsg(w->subj, &m, NNG_FLAG_NONBLOCK);
	uint64_t t1 = sim_now_ns(), s1 = sim_stall_total_ns();
	uint64_t dt = (t1 - t0) > (s1 - s0) ? (t1 - t0) - (s1 - s0) : 0;
	if (dt > NB_LIMIT_NS)
		VIOL("nonblock_blocked",
		    "recv on %s (%s): NNG_FLAG_NONBLOCK call took %llu ms of virtual time (stalls excluded) and returned %s",
		    w->ki->name, who, (unsigned long long) (dt / 1000000), errname(rv));
	if (rv != 0 && m != NULL)
		sim_probe("c15_cb_message_with_error"); // not a phrase of the statement: counted only (the ledger owns leaks)
	if (rv == 0) {
		nng_msg_free(m);
		w->takes++;
	}
	return rv;
}

static void
drain_submit(Drain *d)
{
	d->pending = 1;
	if (d->is_ctx)
		nng_ctx_recv(d->ctx, d->aio);
	else
		nng_socket_recv(d->w->subj, d->aio);
}

static void
drain_cb(void *arg)
{
	Drain *d  = (Drain *) arg;
	World *w  = d->w;
	int    rv = nng_aio_result(d->aio);
	d->pending = 0;
	if (rv != 0) {
		sim_event("drain cb -> %s", errname(rv));
		return; // cancelled, closed: the main task decides what happens next
	}
	nng_msg *m = nng_aio_get_msg(d->aio);
	nng_aio_set_msg(d->aio, NULL);
	if (m != NULL)
		nng_msg_free(m);
	d->got++;
	if (!d->is_ctx || w->ki->pool)
		w->takes++; // came out of the pool a socket-level receive is served from
	if (w->stopping)
		return;
	int mode = d->modes[d->ncb++ & 7];
	int max  = mode == 0 ? 16 : mode == 1 ? 1 : 0;
	int n    = 0;
	w->in_cb++;
	for (int i = 0; i < max; i++) {
		if (nb_recv(w, "completion callback") != 0)
			break;
		n++;
	}
	w->in_cb--;
	sim_event("drain cb %s: got its message, took %d more from the socket", d->is_ctx ? "ctx" : "socket", n);
	if (n > 0) {
		w->cb_found += n;
		sim_probe("c15_cb_took_from_socket");
	}
	if (d->resub > 0 && !w->stopping) {
		d->resub--;
		drain_submit(d);
	}
}

static void
drain_stop(Drain *d)
{
	// the callback may be submitting again right now: repeat until nothing is outstanding
	do {
		nng_aio_cancel(d->aio);
		nng_aio_wait(d->aio);
	} while (d->pending);
}

static bool
sock_matches(World &w, char first)
{
	if (w.kind != K_SUB)
		return true;
	for (auto &t : w.topics)
		if (t.empty() || t[0] == first)
			return true;
	return false;
}

// one message from a peer, handed over with a bounded blocking send
static void
peer_send(World &w, int pi)
{
	char     first = W(0, 4) == 4 ? 'B' : 'A';
	if (w.npipes != w.npeer && w.exact) {
		w.exact = false; // a peer is not connected (yet, or any more): arrivals cannot be counted
		sim_probe("c15_cb_model_off");
	}
	nng_msg *m     = tag_msg((size_t) W(24, 200), 15, (uint16_t) pi, ++w.serial);
	((uint8_t *) nng_msg_body(m))[0] = (uint8_t) first; // topic octet (SUB prefix match)
	if (w.ki->rawhdr)
		MUST(nng_msg_header_append_u32(m, 0x80000000u | w.serial));
	int rv = nng_sendmsg(w.peers[(size_t) pi], m, 0);
	sim_event("peer %d sends '%c' #%u -> %s", pi, first, w.serial, errname(rv));
	if (rv != 0) {
		nng_msg_free(m); // not sent (send timeout): the peer still owns it
		sim_probe("c15_cb_peer_send_failed");
		return;
	}
	if (sock_matches(w, first))
		w.arrivals++;
}

struct ThiefArg {
	World *w;
	int    iters;
};

// the second task: non-blocking receives while the message is on its way
static void
thief_task(void *a)
{
	ThiefArg *ta = (ThiefArg *) a;
	for (int i = 0; i < ta->iters; i++) {
		if (nb_recv(ta->w, "second task") == 0) {
			ta->w->thief_found++;
			sim_probe("c15_cb_second_task_took");
		}
		long pause = W(0, 2);
		if (pause == 0)
			sim_yield();
		else if (pause == 1)
			sim_sleep_ns((uint64_t) W(0, 400) * 1000);
	}
}

static void
get_fd(World &w)
{
	if (w.rfd != -1)
		return;
	int fd = -1;
	int rv = nng_socket_get_recv_poll_fd(w.subj, &fd);
	if (rv != 0)
		h_fatal("nng_socket_get_recv_poll_fd(%s) -> %d", w.ki->name, rv);
	w.rfd = fd;
	sim_event("recv fd=%d", fd);
}

static bool
sock_level_pending(World &w)
{
	for (Drain *d : w.drains)
		if (!d->is_ctx && d->pending)
			return true;
	return false;
}

// quiescent point: fold what happened since the last one into the lower bound
static void
settle(World &w)
{
	sim_quiesce(3000000);
	long l = w.lower + w.arrivals;
	if (l > w.cap)
		l = w.cap; // SUB keeps at most RECVBUF messages (whichever it drops)
	l -= w.takes;
	w.lower    = l > 0 ? l : 0;
	w.arrivals = w.takes = 0;
}

// poll, then the non-blocking receive, with nobody able to run in between
static int
check(World &w, const char *when)
{
	settle(w);
	int  readable = w.rfd >= 0 ? simnet_poll_in(w.rfd) : -1;
	// a pending socket-level receive would have been given the message: nothing can be waiting then
	bool must = w.exact && w.lower >= 1 && !sock_level_pending(w);
	long held = w.lower;
	uint64_t k0 = sim_block_count(), st0 = sim_stall_total_ns();
	int      rv = nb_recv(&w, when);
	if (sim_stall_total_ns() != st0) {
		// stalled inside the call (possibly past the quiescence horizon): the premise is gone, nothing is judged
		sim_probe("c15_stalled_inside_call");
		readable = -1;
		must     = false;
	}
	if (rv == 0) { // nb_recv counted it under takes; apply it to the bound at once
		w.takes--;
		if (w.lower > 0)
			w.lower--;
	}
	if (sim_block_count() != k0)
		sim_probe("c15_cb_descheduled_in_call");
	sim_event("check (%s) %s: fd_readable=%d must=%d held>=%ld -> %s", when, w.ki->name, readable, (int) must, held,
	    errname(rv));
	w.checks++;
	if (readable == 1 && rv == NNG_EAGAIN)
		VIOL("fd_readable_but_eagain",
		    "recv on %s (%s): library quiescent, recv descriptor polls readable, but the non-blocking recv returned "
		    "NNG_EAGAIN [messages taken from the socket inside completion callbacks so far: %d, by the second task: %d]",
		    w.ki->name, when, w.cb_found, w.thief_found);
	if (readable == 0 && rv == 0)
		VIOL("success_but_fd_not_readable",
		    "recv on %s (%s): library quiescent, recv descriptor did not poll readable, yet the non-blocking recv "
		    "succeeded [taken inside completion callbacks so far: %d, by the second task: %d]",
		    w.ki->name, when, w.cb_found, w.thief_found);
	if (must && rv != 0)
		VIOL(rv == NNG_EAGAIN ? "eagain_when_ready" : "failed_when_ready",
		    "recv on %s (%s): the socket can supply a message at this quiescent point (at least %ld accepted and "
		    "received by nobody) but the non-blocking recv returned %s",
		    w.ki->name, when, held, errname(rv));
	if (must)
		sim_probe("c15_cb_must_recv_checked");
	if (readable == 1 && rv == 0)
		sim_probe("c15_cb_fd_ready_ok");
	if (readable == 0 && rv == NNG_EAGAIN)
		sim_probe("c15_cb_fd_idle_eagain");
	if (readable >= 0)
		sim_stat("nontrivial", 1);
	return rv;
}

static void
cb_run(Params *p)
{
	World w;
	w.kind = (int) p->draw("kind", 0, K_N - 1);
	w.ki   = &KINDS[w.kind];
	int tr = (int) p->draw("tr", 0, 2);
	std::string url = h_url(tr, 17);
	int npeer = 1 + (int) (w.ki->max_peers > 1 && W(0, 2) == 2);
	w.npeer   = npeer;

	MUST(w.ki->open(&w.subj));
	if (w.kind == K_SUB) {
		long rb = W(0, 3);
		if (rb != 0)
			MUST(nng_socket_set_int(w.subj, NNG_OPT_RECVBUF, (int) rb));
		int v = 0;
		MUST(nng_socket_get_int(w.subj, NNG_OPT_RECVBUF, &v));
		w.cap = v;
		if (W(0, 5) == 5)
			MUST(nng_socket_set_bool(w.subj, NNG_OPT_SUB_PREFNEW, false));
		long st = W(0, 7);
		if (st <= 4) {
			MUST(nng_sub0_socket_subscribe(w.subj, "", 0));
			w.topics.push_back("");
		} else if (st <= 6) {
			MUST(nng_sub0_socket_subscribe(w.subj, "A", 1));
			w.topics.push_back("A");
		} // else: no subscription of its own
	} else if (w.kind == K_PAIR0 || w.kind == K_PAIR1) {
		long rb = W(0, 3);
		if (rb != 0)
			MUST(nng_socket_set_int(w.subj, NNG_OPT_RECVBUF, (int) rb - 1));
	}
	MUST(nng_pipe_notify(w.subj, NNG_PIPE_EV_ADD_POST, pipe_cb, &w));
	MUST(nng_pipe_notify(w.subj, NNG_PIPE_EV_REM_POST, pipe_cb, &w));
	bool early_fd = W(0, 2) != 2;
	if (early_fd)
		get_fd(w);
	MUST(nng_listen(w.subj, url.c_str(), NULL, 0));
	for (int i = 0; i < npeer; i++) {
		nng_socket s;
		MUST(w.ki->open_peer(&s));
		MUST(nng_socket_set_ms(s, NNG_OPT_SENDTIMEO, 40));
		MUST(nng_dial(s, url.c_str(), NULL, 0));
		w.peers.push_back(s);
	}
	sim_quiesce(20000000);

	// drains: mostly on contexts where the protocol has them, now and then on the socket itself
	int ndrain = (int) W(0, 3);
	if (ndrain == 0 && W(0, 1) == 0)
		ndrain = 1;
	bool sock_drain_used = false;
	for (int i = 0; i < ndrain; i++) {
		Drain *d  = new Drain();
		d->w      = &w;
		d->is_ctx = w.ki->ctx && W(0, 4) != 4;
		if (!d->is_ctx) {
			if (sock_drain_used) { // one receive at a time on the socket itself
				delete d;
				continue;
			}
			sock_drain_used = true;
		}
		MUST(nng_aio_alloc(&d->aio, drain_cb, d));
		nng_aio_set_timeout(d->aio, NNG_DURATION_INFINITE);
		if (d->is_ctx) {
			MUST(nng_ctx_open(&d->ctx, w.subj));
			if (w.kind == K_SUB) {
				long ct = W(0, 5);
				const char *t = ct <= 3 ? "" : ct == 4 ? "A" : "B";
				MUST(nng_sub0_ctx_subscribe(d->ctx, t, strlen(t)));
				d->topic = t;
			}
		}
		for (int k = 0; k < 8; k++)
			d->modes[k] = (int) W(0, 3) % 3; // 0 twice as likely: drain until the socket is empty
		d->resub = (int) W(0, 12);
		w.drains.push_back(d);
		sim_event("drain %d on %s, resubmits %d", i, d->is_ctx ? "ctx" : "socket", d->resub);
		drain_submit(d);
	}
	sim_event("c15_cbdrain kind=%s tr=%s peers=%d drains=%zu cap=%d early_fd=%d", w.ki->name, h_tr_name(tr), npeer,
	    w.drains.size(), w.cap, (int) early_fd);

	int rounds = (int) W(3, 16);
	for (int r = 0; r < rounds; r++) {
		long sel = W(0, 9);
		if (sel <= 6) {
			// traffic: one message at a time, now and then a few without waiting in between
			int      nsend = W(0, 4) == 4 ? (int) W(2, 3) : 1;
			ThiefArg ta;
			int      tid = -1;
			if (W(0, 1) == 1) {
				ta.w     = &w;
				ta.iters = (int) W(1, 8);
				tid      = sim_spawn("c15_second", thief_task, &ta, 0);
			}
			for (int k = 0; k < nsend; k++) {
				peer_send(w, (int) W(0, npeer - 1));
				if (k + 1 < nsend && W(0, 1) == 1)
					sim_yield();
			}
			if (tid >= 0)
				sim_join(tid);
			(void) check(w, "after a message");
		} else if (sel == 7) {
			// submit an idle drain again
			settle(w);
			for (Drain *d : w.drains)
				if (!d->pending) {
					sim_event("drain submitted again");
					drain_submit(d);
					break;
				}
		} else if (sel == 8) {
			settle(w);
			if (w.rfd == -1) {
				get_fd(w);
				sim_probe("c15_cb_late_fd");
			} else {
				sim_sleep_ms((uint64_t) W(1, 50));
			}
		} else {
			// empty the socket, checking at every step
			for (int k = 0; k < 8; k++)
				if (check(w, "emptying") != 0)
					break;
		}
	}

	// stop the drains, then the final sweep: the descriptor must follow the socket down to empty
	w.stopping = 1;
	settle(w);
	for (Drain *d : w.drains)
		drain_stop(d);
	get_fd(w);
	for (int k = 0; k < 140; k++)
		if (check(w, "final sweep") != 0)
			break;
	sim_stat("checks", w.checks);
	sim_stat("taken_in_callbacks", w.cb_found);

	for (Drain *d : w.drains) {
		if (d->is_ctx)
			MUST(nng_ctx_close(d->ctx));
		nng_aio_free(d->aio);
		delete d;
	}
	for (auto s : w.peers)
		MUST(nng_socket_close(s));
	MUST(nng_socket_close(w.subj));
}

static void
cb_cfg(sim_config *cfg, Params *p)
{
	long net = p->draw("net", 0, 3);
	if (net == 1) {
		cfg->seg_mode = 3;
	} else if (net == 2) {
		cfg->seg_mode   = 2;
		cfg->seg_k      = 7;
		cfg->lat_min_ns = 10000;
		cfg->lat_max_ns = 1500000;
	} else if (net == 3) {
		cfg->seg_mode = 1;
		cfg->eagain_p = 0.05;
	}
}

SCENARIO(c15_cbdrain, "C15", cb_cfg, cb_run);

} // namespace
