// C12 (second file): contexts of one REQ socket with *different* resend
// times.  Each request is retransmitted when its own resend time elapses,
// whatever the other contexts' resend times are and in whatever order the
// requests were first transmitted.
#include "../harness/util.h"

#include <map>

namespace {

struct MixCtx {
	int          idx;
	nng_ctx      ctx;
	nng_duration resend;
	int          drops;    // how many transmissions the replier ignores
	bool         ballast;  // answered only when everybody else is done
	int          seen;     // transmissions seen by the replier
	volatile int done;
	uint64_t     t_send, stall0;
	int          result;
};

struct MixWorld {
	nng_socket req, rep;
	nng_duration tick;
	std::vector<MixCtx *> ctxs;
	volatile int stop;
	volatile int release_ballast;
	std::vector<nng_msg *> held; // ballast requests kept for the end
};

// the application may refuse a connection in ADD_PRE; the dialer then has
// to make another one
static volatile int g_reject_left;
static void
mix_pipe_cb(nng_pipe p, nng_pipe_ev ev, void *arg)
{
	(void) arg;
	if (ev == NNG_PIPE_EV_ADD_PRE && g_reject_left > 0) {
		g_reject_left--;
		sim_probe("c12_pipe_rejected_in_add_pre");
		nng_pipe_close(p);
	}
}

static void
mix_replier(void *a)
{
	MixWorld *w = (MixWorld *) a;
	while (!w->stop) {
		if (w->release_ballast && !w->held.empty()) {
			for (auto m : w->held)
				if (nng_sendmsg(w->rep, m, 0) != 0)
					nng_msg_free(m);
			w->held.clear();
		}
		nng_msg *m = NULL;
		if (nng_recvmsg(w->rep, &m, 0) != 0) // 20 ms receive timeout
			continue;
		Tag t = tag_parse((const uint8_t *) nng_msg_body(m), nng_msg_len(m));
		if (!t.ok || t.origin < 1 || t.origin > w->ctxs.size()) {
			nng_msg_free(m);
			VIOL("request_altered", "the replier received a malformed request");
		}
		MixCtx *c = w->ctxs[(size_t) t.origin - 1];
		c->seen++;
		sim_event("replier: request of ctx%d, transmission %d (ignoring the first %d)%s", c->idx, c->seen, c->drops,
		    c->ballast ? " [held]" : "");
		if (c->ballast) {
			if (w->release_ballast) {
				if (nng_sendmsg(w->rep, m, 0) != 0)
					nng_msg_free(m);
			} else {
				w->held.push_back(m);
			}
			continue;
		}
		if (c->seen <= c->drops) {
			nng_msg_free(m);
			continue;
		}
		if (nng_sendmsg(w->rep, m, 0) != 0) // raw REP: the header routes it back
			nng_msg_free(m);
	}
	for (auto m : w->held)
		nng_msg_free(m);
	w->held.clear();
}

static void
mix_run(Params *p)
{
	MixWorld w;
	w.stop            = 0;
	w.release_ballast = 0;
	static const nng_duration ticks[] = { 10, 20, 50 };
	w.tick = ticks[W(0, 2)];
	MUST(nng_req0_open(&w.req));
	MUST(nng_rep0_open_raw(&w.rep));
	MUST(nng_socket_set_ms(w.rep, NNG_OPT_RECVTIMEO, 20));
	MUST(nng_socket_set_ms(w.rep, NNG_OPT_SENDTIMEO, 1000));
	MUST(nng_socket_set_ms(w.req, NNG_OPT_REQ_RESENDTICK, w.tick));
	// the socket-level value is what contexts opened afterwards inherit
	static const nng_duration shorts[] = { 50, 100, 200, 400 };
	nng_duration sock_resend = W(0, 1) ? shorts[W(0, 3)] : 60000;
	if (sock_resend != 60000 || W(0, 1))
		MUST(nng_socket_set_ms(w.req, NNG_OPT_REQ_RESENDTIME, sock_resend));
	int n = 2 + (int) W(0, 2);
	for (int i = 0; i < n; i++) {
		MixCtx *c = new MixCtx();
		c->idx    = i;
		c->seen   = 0;
		c->done   = 0;
		c->result = -1;
		MUST(nng_ctx_open(&c->ctx, w.req));
		// the first one or two hold a long resend time and are transmitted first
		c->ballast = i == 0 || (i == 1 && n > 2 && W(0, 2) == 0);
		if (c->ballast) {
			c->resend = 60000;
			c->drops  = 0;
			if (sock_resend != 60000)
				MUST(nng_ctx_set_ms(c->ctx, NNG_OPT_REQ_RESENDTIME, c->resend));
		} else {
			bool inherit = sock_resend != 60000 && W(0, 1);
			c->resend    = inherit ? sock_resend : shorts[W(0, 3)];
			c->drops     = 1 + (int) W(0, 1);
			if (!inherit)
				MUST(nng_ctx_set_ms(c->ctx, NNG_OPT_REQ_RESENDTIME, c->resend));
		}
		w.ctxs.push_back(c);
	}
	std::string url = h_url((int) p->draw("tr", 0, 2), 58);
	MUST(nng_listen(w.rep, url.c_str(), NULL, 0));
	int rejects   = W(0, 2) == 0 ? 1 + (int) W(0, 1) : 0;
	g_reject_left = rejects;
	MUST(nng_socket_set_ms(w.req, NNG_OPT_RECONNMINT, 10));
	MUST(nng_socket_set_ms(w.req, NNG_OPT_RECONNMAXT, 10));
	MUST(nng_pipe_notify(w.req, NNG_PIPE_EV_ADD_PRE, mix_pipe_cb, NULL));
	MUST(nng_dial(w.req, url.c_str(), NULL, NNG_FLAG_NONBLOCK));
	sim_quiesce(10000000);
	int rt = sim_spawn("replier", mix_replier, &w, 0);
	// send in index order (long resend times first), optionally spaced
	for (auto c : w.ctxs) {
		nng_msg *m = tag_msg(40, (uint16_t) (c->idx + 1), 0, 1);
		c->t_send  = sim_now_ns();
		c->stall0  = sim_stall_total_ns();
		int rv;
		{
			// a reachable replier exists: the request must get onto a connection
			Bounded g("C12", "reply_never_arrived", 3000000000ull,
			    "sending the request of ctx%d (replier reachable, %d connection(s) refused by the application in ADD_PRE)",
			    c->idx, rejects);
			rv = nng_ctx_sendmsg(c->ctx, m, 0);
		}
		if (rv != 0)
			VIOL("request_send_failed", "ctx%d send returned %d", c->idx, rv);
		sim_event("ctx%d: request sent (resend %d ms, first %d transmissions ignored%s)", c->idx, c->resend, c->drops,
		    c->ballast ? ", ballast" : "");
		if (W(0, 2) == 0)
			sim_sleep_ns((uint64_t) W(0, 30000) * 1000);
	}
	// every non-ballast context must be answered after `drops` resend periods
	for (auto c : w.ctxs) {
		if (c->ballast)
			continue;
		uint64_t bound_ms = (uint64_t) c->drops * ((uint64_t) c->resend + 2 * (uint64_t) w.tick) + 500 +
		    (uint64_t) rejects * 300;
		UAio     u;
		nng_aio_set_timeout(u.aio, NNG_DURATION_INFINITE);
		u.arm("mixed_recv");
		nng_ctx_recv(c->ctx, u.aio);
		for (;;) {
			if (u.poll())
				break;
			uint64_t stalled = sim_stall_total_ns() - c->stall0;
			uint64_t used    = sim_now_ns() - c->t_send;
			if (used > bound_ms * 1000000ull + stalled) {
				sim_event("ctx%d: no reply after %.0f ms; replier saw %d transmissions", c->idx, (double) used / 1e6,
				    c->seen);
				nng_aio_cancel(u.aio);
				u.wait(0);
				VIOL("reply_never_arrived",
				    "ctx%d (resend time %d ms, tick %d ms): the replier ignored %d transmission(s) and answers "
				    "the next, but after %.0f ms it has seen only %d transmission(s): the request was not "
				    "retransmitted when its resend time elapsed (other contexts hold resend times of 60 s)",
				    c->idx, c->resend, w.tick, c->drops, (double) used / 1e6, c->seen);
			}
			u.wait(20000000ull);
		}
		if (u.result != 0)
			VIOL("recv_failed", "ctx%d: receive returned %d", c->idx, (int) u.result);
		nng_msg *m = nng_aio_get_msg(u.aio);
		Tag      t = tag_parse((const uint8_t *) nng_msg_body(m), nng_msg_len(m));
		nng_msg_free(m);
		if (!t.ok || t.origin != (uint16_t) (c->idx + 1))
			VIOL("reply_misrouted", "ctx%d received a reply that is not the answer to its request", c->idx);
		if (c->seen < c->drops + 1)
			VIOL("reply_without_request", "ctx%d got a reply although the replier answered nothing yet", c->idx);
		sim_stat("nontrivial", 1);
	}
	// the long-resend contexts were transmitted exactly once so far and are answered now
	for (auto c : w.ctxs)
		if (c->ballast && c->seen > 1 && sim_now_ns() - c->t_send < 50000000000ull)
			VIOL("early_resend", "ctx%d (resend time 60 s) was retransmitted %d times within %.0f ms", c->idx, c->seen,
			    (double) (sim_now_ns() - c->t_send) / 1e6);
	w.release_ballast = 1;
	for (auto c : w.ctxs) {
		if (!c->ballast)
			continue;
		nng_msg *m = NULL;
		MUST(nng_ctx_set_ms(c->ctx, NNG_OPT_RECVTIMEO, 3000));
		int rv = nng_ctx_recvmsg(c->ctx, &m, 0);
		if (rv != 0)
			VIOL("reply_never_arrived", "ctx%d (long resend time): reply was sent but receive returned %d", c->idx, rv);
		nng_msg_free(m);
	}
	w.stop = 1;
	sim_join(rt);
	for (auto c : w.ctxs) {
		MUST(nng_ctx_close(c->ctx));
		delete c;
	}
	MUST(nng_socket_close(w.req));
	MUST(nng_socket_close(w.rep));
}

static void
mix_cfg(sim_config *cfg, Params *p)
{
	(void) p;
	cfg->stall_p = cfg->stall_p / 4; // bounds subtract stalls; keep them rare so most runs stay tight
}
SCENARIO(c12_mixed, "C12", mix_cfg, mix_run);

} // namespace
