// Smoke scenarios used to validate the simulator itself (determinism,
// virtual time, transports).  Not tied to a property check.
#include "../harness/h.h"

struct SmokeArg {
	nng_socket rep;
	int        n;
};

static void
smoke_server(void *a)
{
	SmokeArg *sa = (SmokeArg *) a;
	for (int i = 0; i < sa->n; i++) {
		nng_msg *m = NULL;
		int      rv = nng_recvmsg(sa->rep, &m, 0);
		if (rv != 0)
			h_fatal("server recv %d", rv);
		sim_event("srv got %zu bytes", nng_msg_len(m));
		rv = nng_sendmsg(sa->rep, m, 0);
		if (rv != 0)
			h_fatal("server send %d", rv);
	}
}

static void
smoke_run(Params *p)
{
	const char *url = p->has("url") ? p->kv["url"].c_str() : "inproc://smoke";
	std::string u = url;
	nng_socket  req, rep;
	MUST(nng_req0_open(&req));
	MUST(nng_rep0_open(&rep));
	MUST(nng_socket_set_ms(req, NNG_OPT_RECVTIMEO, 10000));
	MUST(nng_socket_set_ms(rep, NNG_OPT_RECVTIMEO, 10000));
	MUST(nng_listen(rep, u.c_str(), NULL, 0));
	MUST(nng_dial(req, u.c_str(), NULL, 0));
	int      n = (int) W(1, 5);
	SmokeArg sa = { rep, n };
	sim_spawn("server", smoke_server, &sa, 0);
	for (int i = 0; i < n; i++) {
		size_t   len = (size_t) W(20, 400);
		nng_msg *m   = tag_msg(len, 1, 0, (uint32_t) i);
		MUST(nng_sendmsg(req, m, 0));
		nng_msg *r = NULL;
		MUST(nng_recvmsg(req, &r, 0));
		Tag t = tag_parse((uint8_t *) nng_msg_body(r), nng_msg_len(r));
		if (!t.ok || t.serial != (uint32_t) i)
			VIOL("smoke_bad_reply", "reply %d corrupt", i);
		sim_event("cli got reply %d len %zu", i, nng_msg_len(r));
		nng_msg_free(r);
	}
	sim_join_all();
	MUST(nng_socket_close(req));
	MUST(nng_socket_close(rep));
}

SCENARIO(smoke, "C03", NULL, smoke_run);

// timers: REQ resend against a slow server, lots of virtual time
static void
slow_server(void *a)
{
	SmokeArg *sa = (SmokeArg *) a;
	int       served = 0;
	for (;;) {
		nng_msg *m = NULL;
		int      rv = nng_recvmsg(sa->rep, &m, 0);
		if (rv != 0)
			return;
		sim_sleep_ms(2500);
		rv = nng_sendmsg(sa->rep, m, 0);
		if (rv != 0) {
			nng_msg_free(m);
			continue;
		}
		served++;
	}
}

static void
smoke_timers_run(Params *p)
{
	(void) p;
	nng_socket req, rep;
	MUST(nng_req0_open(&req));
	MUST(nng_rep0_open(&rep));
	MUST(nng_socket_set_ms(req, NNG_OPT_REQ_RESENDTIME, 1000));
	MUST(nng_socket_set_ms(req, NNG_OPT_RECVTIMEO, 60000));
	MUST(nng_socket_set_ms(rep, NNG_OPT_RECVTIMEO, 60000));
	MUST(nng_listen(rep, "inproc://smoke_t", NULL, 0));
	MUST(nng_dial(req, "inproc://smoke_t", NULL, 0));
	SmokeArg sa = { rep, 3 };
	sim_spawn("slow", slow_server, &sa, 0);
	for (int i = 0; i < 3; i++) {
		nng_msg *m = tag_msg(64, 1, 0, (uint32_t) i);
		MUST(nng_sendmsg(req, m, 0));
		nng_msg *r = NULL;
		MUST(nng_recvmsg(req, &r, 0));
		nng_msg_free(r);
		sim_event("reply %d at %llu ms", i,
		    (unsigned long long) sim_now_ms());
	}
	MUST(nng_socket_close(req));
	MUST(nng_socket_close(rep));
	sim_join_all();
}

SCENARIO(smoke_timers, "C03", NULL, smoke_timers_run);
