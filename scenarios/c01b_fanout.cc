// C01 (second file): one send fanned out to several receivers (PUB -> SUBs,
// BUS).  Each receiver gets exactly the bytes that were sent, whatever the
// other receivers do with *their* copies and whatever transport each copy
// travels over (a websocket client masks what it sends; inproc hands message
// objects across).  Loss is allowed for these best-effort protocols and only
// counted.
#include "../harness/util.h"

namespace {

struct Rx {
	nng_socket s;
	int        tr;
	uint32_t   next; // lowest serial that may still come
	int        got;
	UAio      *pend; // a receive posted before the send
};

static void
fanout_run(Params *p)
{
	bool       bus        = p->draw("bus", 0, 1) != 0;
	bool       tx_dials   = p->draw("txdials", 0, 1) != 0;
	int        nrx        = 2 + (int) W(0, 1);
	nng_socket tx;
	MUST(bus ? nng_bus0_open(&tx) : nng_pub0_open(&tx));
	std::vector<Rx> rx((size_t) nrx);
	static const int TRS[] = { TR_INPROC, TR_WS, TR_TCP, TR_IPC, TR_INPROC, TR_WS };
	long             mix   = p->draw("mix", 0, 2); // 0 all inproc, 1 all ws, 2 mixed
	for (int i = 0; i < nrx; i++) {
		Rx &r  = rx[(size_t) i];
		r.next = 0;
		r.got  = 0;
		r.pend = NULL;
		r.tr   = mix == 0 ? TR_INPROC : mix == 1 ? TR_WS : TRS[W(0, 5)];
		MUST(bus ? nng_bus0_open(&r.s) : nng_sub0_open(&r.s));
		if (!bus)
			MUST(nng_sub0_socket_subscribe(r.s, "", 0));
		MUST(nng_socket_set_int(r.s, NNG_OPT_RECVBUF, 64));
		std::string url = h_url(r.tr, 20 + i);
		if (tx_dials) {
			MUST(nng_listen(r.s, url.c_str(), NULL, 0));
			MUST(nng_dial(tx, url.c_str(), NULL, 0));
		} else {
			MUST(nng_listen(tx, url.c_str(), NULL, 0));
			MUST(nng_dial(r.s, url.c_str(), NULL, 0));
		}
	}
	sim_quiesce(30000000);
	sim_event("c01_fanout %s, %d receivers, sender %s", bus ? "bus" : "pub/sub", nrx, tx_dials ? "dials" : "listens");
	int                               nmsg = (int) W(4, 24);
	std::vector<std::vector<uint8_t>> sent;
	int                               delivered = 0;
	auto take = [&](int i, nng_msg *g) {
		Rx      &r  = rx[(size_t) i];
		size_t   gl = nng_msg_len(g);
		uint8_t *gb = (uint8_t *) nng_msg_body(g);
		Tag      t  = tag_parse(gb, gl);
		if (!t.ok || t.serial >= sent.size() || gl != sent[t.serial].size() || memcmp(gb, sent[t.serial].data(), gl) != 0) {
			VIOL("altered",
			    "receiver %d (%s) got %zu bytes that are not any message as it was sent (%s...); the same "
			    "send also went to %d other receiver(s)",
			    i, h_tr_name(r.tr), gl, h_hex(gb, gl, 24).c_str(), nrx - 1);
		}
		if (t.serial < r.next)
			VIOL("reordered_or_duplicated", "receiver %d got message %u after message %u", i, t.serial, r.next - 1);
		r.next = t.serial + 1;
		r.got++;
		delivered++;
		// scribble over our own copy and cut it up before letting it go
		memset(gb, 0x5a, gl);
		(void) nng_msg_trim(g, gl < 7 ? gl : 7);
		(void) nng_msg_chop(g, nng_msg_len(g) / 2);
		(void) nng_msg_insert(g, "scribble", 8);
		if (W(0, 1))
			sim_yield();
		nng_msg_free(g);
	};
	for (int k = 0; k < nmsg; k++) {
		// some receivers are already waiting when the message is sent
		for (int i = 0; i < nrx; i++) {
			Rx &r = rx[(size_t) i];
			if (r.pend == NULL && W(0, 1)) {
				r.pend = new UAio();
				nng_aio_set_timeout(r.pend->aio, NNG_DURATION_INFINITE);
				r.pend->arm("fanout_recv");
				nng_socket_recv(r.s, r.pend->aio);
			}
		}
		size_t   len = W(0, 3) == 0 ? (size_t) W(TAG_MIN, 40) : (size_t) W(TAG_MIN, 3000);
		nng_msg *m   = tag_msg(len, 1, 0, (uint32_t) k);
		sent.push_back(std::vector<uint8_t>((uint8_t *) nng_msg_body(m), (uint8_t *) nng_msg_body(m) + len));
		int rv = nng_sendmsg(tx, m, 0);
		if (rv != 0) {
			nng_msg_free(m);
			VIOL("send_failed", "send on a %s socket returned %d", bus ? "BUS" : "PUB", rv);
		}
		// receivers take their copies at their own pace, and are free to do to
		// them what they like
		if (W(0, 2) != 0)
			sim_quiesce(3000000);
		for (int i = 0; i < nrx; i++) {
			Rx &r = rx[(size_t) i];
			if (W(0, 2) == 0 && k + 1 < nmsg)
				continue; // this one reads later
			if (r.pend != NULL) {
				if (!r.pend->poll())
					continue; // still waiting: nothing has come
				if (r.pend->result != 0)
					VIOL("recv_failed", "a waiting receive failed with %d", (int) r.pend->result);
				nng_msg *g = nng_aio_get_msg(r.pend->aio);
				delete r.pend;
				r.pend = NULL;
				take(i, g);
			}
			for (;;) {
				nng_msg *g = NULL;
				if (nng_recvmsg(r.s, &g, NNG_FLAG_NONBLOCK) != 0)
					break;
				take(i, g);
			}
		}
	}
	for (auto &r : rx)
		if (r.pend != NULL) {
			nng_aio_cancel(r.pend->aio);
			r.pend->wait(0);
			if (r.pend->result == 0)
				nng_msg_free(nng_aio_get_msg(r.pend->aio));
			delete r.pend;
			r.pend = NULL;
		}
	sim_quiesce(10000000);
	sim_stat("delivered", delivered);
	if (delivered >= nmsg)
		sim_stat("nontrivial", 1);
	MUST(nng_socket_close(tx));
	for (auto &r : rx)
		MUST(nng_socket_close(r.s));
}
SCENARIO(c01_fanout, "C01", NULL, fanout_run);

} // namespace
