// C14 Pipe events are ordered; dialers redial, listeners keep accepting.
//
// Oracle clauses (each maps to a phrase of the property statement):
//   event_order / event_repeated / event_without_pre
//        "fire in the order ADD_PRE, ADD_POST, REM_POST, each at most once and
//         never ADD_POST or REM_POST without ADD_PRE"
//   no_rem_by_close
//        "every pipe that reached ADD_POST receives REM_POST no later than the
//         return of its socket's close"
//   rejected_pipe_carried_message
//        "a pipe closed inside ADD_PRE never carries application messages"
//   dialer_two_pipes
//        "a dialer owns at most one pipe at a time"
//   redial_late_after_loss (A), redial_late_after_fail (B), redial_no_pipe (C),
//   redial_late_after_peer_close (D: the dialed listener was closed, so the
//   attempt in progress fails or the pipe is lost)
//        "after its pipe is lost or a background dial fails, dials again after
//         a randomised delay no longer than the larger configured reconnect
//         time, until it is closed"
//        A and B look at the connect() calls the simulated kernel sees (no
//        hook in nng); C looks at the ADD_PRE the dialer must eventually get
//        once its listener is (again) reachable, and therefore also needs "a
//        listener keeps accepting".
//   listener_stopped_accepting
//        "a listener keeps accepting further connections whatever happens to
//         individual pipes"
// Everything more specific that nng does (no ADD_POST after a reject, REM_POST
// for pipes that only saw ADD_PRE, ...) is only counted with sim_probe.
#include "../harness/util.h"

#include <netinet/in.h>
#include <stddef.h>
#include <sys/socket.h>
#include <sys/un.h>
#include <unistd.h>

#include <deque>
#include <set>

namespace {

enum { E_PRE = 1, E_POST = 2, E_REM = 4 };
enum { R_BUS = 0, R_PAIR, R_PUSH, R_PULL };
enum { A_DOWN = 0, A_UP, A_PENDING };
// what the harness does with a pipe in its callbacks
enum { ACT_ACCEPT = 0, ACT_REJECT, ACT_ASYNC_CLOSE, ACT_CLOSE_IN_POST };

static const uint64_t MS        = 1000000ull;
static const uint64_t SEC       = 1000000000ull;
static const uint64_t HOLE_NS   = 127ull * SEC; // simnet: a black-holed SYN fails after 127 s

struct World;

struct PipeRec {
	int      id;
	int      sock;
	int      dialer;   // index into World::dialers or -1
	int      listener; // index into World::listeners or -1
	unsigned evs;
	uint64_t t_pre, t_post, t_rem;
	bool     rejected; // closed by the harness inside ADD_PRE
	int      act;
};

struct SRec {
	World     *w;
	int        idx;
	nng_socket s;
	int        role;
	bool       open;
	bool       closing;
	std::vector<uint8_t> acts; // pre-drawn decisions for successive ADD_PREs
	size_t               act_pos;
	std::vector<uint64_t> send_t; // per serial: time the send call began
	int        n_pre, n_post, n_rem;
	bool       has_receiver;
};

struct ARec {
	int         idx;
	int         tr;
	std::string url, key;
	bool        dead;   // nobody ever listens here
	int         state;  // A_*
	bool        holed;  // black-holed right now
	bool        c_off;  // C obligations disabled (black hole used on it)
	int         ndialers_ever;
	int         owner;  // socket of the current/last listener
	int         cur_listener; // LRec that is (or was last) listening here, -1 if none yet
	bool        inet4;
	uint16_t    port;
};

struct LRec {
	int          idx;
	nng_listener l;
	int          id;
	int          sock, addr;
	bool         open, closing;
	int          n_pre;
	volatile int pre_flag;
};

struct DRec {
	int        idx;
	nng_dialer d;
	int        id;
	int        sock, addr;
	int        rmin, rmax; // ms, as read back from the dialer
	uint64_t   rt_ns;      // the larger of the two
	bool       started;
	bool       background; // redials on its own from now on
	bool       sync_starting;
	bool       closing, closed;
	bool       tracked;    // connect() calls can be attributed to it
	int        live_pipe;  // pipe between ADD_PRE and REM_POST, 0 if none
	int        n_connects, n_pre;
};

struct Ob {
	char     kind; // 'A' pipe lost, 'B' background dial failed, 'C' listener reachable, 'D' listener closed
	int      dialer;
	uint64_t t0, stall0, allow;
	bool     open;
};

struct World {
	std::vector<SRec *> socks;
	std::deque<ARec>    addrs; // deque: references stay valid across push_back
	std::vector<LRec *> listeners;
	std::vector<DRec *> dialers;
	std::map<int, PipeRec> pipes;
	std::map<int, int>  dialer_by_id, listener_by_id;
	std::map<std::string, int> addr_by_key;
	std::vector<Ob>     obs;
	std::set<int>       harness_tids;
	int                 raw_tid; // task currently acting as a raw client, -1 if none
	std::vector<int>    closeq;
	volatile int        closer_flag, closer_stop;
	volatile int        ob_flag;
	volatile int        stop_recv;
	volatile int        async_flag;
	int                 snipe_addr; // the harness waits for a connect() to this address
	volatile int        snipe_flag;
	int                 async_running;
	bool                tracking_off;
	int                 family; // 0 bus, 1 pair, 2 pipeline
	int                 tr_primary;
	bool                tr_mix;
	bool                ws_ok;
	bool                uses_ws; // some endpoint of this run is ws://
	uint64_t            slack, conn_delay, lat_max;
	bool                accept_faults;
	bool                spinner; // some dialer has reconnect time <= 1 ms (it never sleeps)
	bool                allow_spin; // the run uses a fair scheduler, so that is acceptable
	bool                risky;      // c14_risky=0: keep socket close and the close of its own endpoints apart
	uint64_t            step_budget;
	int                 next_addr;
};

static World *g_w;
static bool   g_echo; // c14_echo=1: append the op log to /tmp/c14_echo.log (for runs that crash)

static void evlog(const char *fmt, ...) __attribute__((format(printf, 1, 2)));
static void
evlog(const char *fmt, ...)
{
	char    b[512];
	va_list ap;
	va_start(ap, fmt);
	vsnprintf(b, sizeof(b), fmt, ap);
	va_end(ap);
	sim_event("%s", b);
	if (g_echo) {
		FILE *f = fopen("/tmp/c14_echo.log", "a");
		if (f != NULL) {
			fprintf(f, "%.6f t%d %s\n", (double) (sim_now_ns() % (1000 * SEC)) / 1e9, sim_self(), b);
			fclose(f);
		}
	}
}

static const char *
ev_name(int ev)
{
	switch (ev) {
	case NNG_PIPE_EV_ADD_PRE:
		return "ADD_PRE";
	case NNG_PIPE_EV_ADD_POST:
		return "ADD_POST";
	case NNG_PIPE_EV_REM_POST:
		return "REM_POST";
	}
	return "?";
}

static std::string
word(unsigned evs)
{
	std::string s;
	if (evs & E_PRE)
		s += "PRE.";
	if (evs & E_POST)
		s += "POST.";
	if (evs & E_REM)
		s += "REM.";
	return s;
}

// ------------------------------------------------------------ obligations ---
static uint64_t
ob_elapsed(const Ob &o, uint64_t now)
{
	uint64_t dt = now - o.t0;
	uint64_t st = sim_stall_total_ns() - o.stall0;
	return dt > st ? dt - st : 0;
}

static void
ob_fail(World *w, const Ob &o, uint64_t now, const char *how)
{
	DRec *d = w->dialers[(size_t) o.dialer];
	ARec &a = w->addrs[(size_t) d->addr];
	const char *cls = o.kind == 'A' ? "redial_late_after_loss"
	    : o.kind == 'B'             ? "redial_late_after_fail"
	    : o.kind == 'D'             ? "redial_late_after_peer_close"
	                                : "redial_no_pipe";
	const char *what = o.kind == 'A'
	    ? "its pipe was removed (REM_POST)"
	    : o.kind == 'B' ? "a background connect() that could only fail"
	    : o.kind == 'D' ? "the listener it dials was closed (whatever the dialer had in progress or established there is gone)"
	                    : "its listener became reachable";
	VIOL(cls,
	    "dialer %d (socket %d -> %s, reconnect min %d ms max %d ms, not closed): %s at "
	    "t0=%llu ms; %s %llu ms later (injected stalls subtracted), allowed %llu ms = "
	    "larger reconnect time + network time + slack",
	    d->idx, d->sock, a.url.c_str(), d->rmin, d->rmax, what,
	    (unsigned long long) (o.t0 / MS), how,
	    (unsigned long long) (ob_elapsed(o, now) / MS), (unsigned long long) (o.allow / MS));
}

static void
ob_add(World *w, char kind, DRec *d, uint64_t extra)
{
	Ob o;
	o.kind   = kind;
	o.dialer = d->idx;
	o.t0     = sim_now_ns();
	o.stall0 = sim_stall_total_ns();
	o.allow  = d->rt_ns + w->slack + extra;
	o.open   = true;
	w->obs.push_back(o);
}

// resolve obligations of a dialer: kinds in `kinds`
static void
ob_resolve(World *w, DRec *d, const char *kinds, const char *how)
{
	uint64_t now = sim_now_ns();
	for (auto &o : w->obs) {
		if (!o.open || o.dialer != d->idx || strchr(kinds, o.kind) == NULL)
			continue;
		if (ob_elapsed(o, now) > o.allow)
			ob_fail(w, o, now, how);
		o.open = false;
		sim_probe(o.kind == 'A' ? "c14_redial_after_loss_seen"
		        : o.kind == 'B' ? "c14_redial_after_fail_seen"
		        : o.kind == 'D' ? "c14_redial_after_peer_close_seen"
		                        : "c14_reconnected_seen");
		sim_stat("nontrivial", 1);
	}
	w->ob_flag = 1;
}

static void
ob_void(World *w, DRec *d, const char *kinds)
{
	for (auto &o : w->obs)
		if (o.open && o.dialer == d->idx && strchr(kinds, o.kind) != NULL)
			o.open = false;
}

// restart the clock of C obligations towards an address (a fault hit
// connections in progress, so the attempt may legitimately fail once more)
static void
ob_refresh_c(World *w, int addr)
{
	for (auto &o : w->obs)
		if (o.open && o.kind == 'C' && w->dialers[(size_t) o.dialer]->addr == addr) {
			o.t0     = sim_now_ns();
			o.stall0 = sim_stall_total_ns();
		}
}

static void
ob_check_expired(World *w)
{
	uint64_t now = sim_now_ns();
	for (auto &o : w->obs)
		if (o.open && ob_elapsed(o, now) > o.allow)
			ob_fail(w, o, now, o.kind == 'C' ? "still no ADD_PRE for the dialer" : "still no new connect()");
}

// ------------------------------------------------------- connect() hook ---
static std::string
key_of_sockaddr(const void *sa, unsigned salen)
{
	const struct sockaddr *s = (const struct sockaddr *) sa;
	char                   b[160];
	if (s->sa_family == AF_INET) {
		const struct sockaddr_in *in = (const struct sockaddr_in *) sa;
		snprintf(b, sizeof(b), "4:%u", (unsigned) ntohs(in->sin_port));
		return b;
	}
	if (s->sa_family == AF_INET6) {
		const struct sockaddr_in6 *in = (const struct sockaddr_in6 *) sa;
		snprintf(b, sizeof(b), "6:%u", (unsigned) ntohs(in->sin6_port));
		return b;
	}
	if (s->sa_family == AF_UNIX) {
		const struct sockaddr_un *un = (const struct sockaddr_un *) sa;
		size_t off = offsetof(struct sockaddr_un, sun_path);
		size_t n   = salen > off ? salen - off : 0;
		if (n > sizeof(un->sun_path))
			n = sizeof(un->sun_path);
		std::string p(un->sun_path, n);
		if (!p.empty() && p[0] == 0) {
			p = p.substr(1);
			while (!p.empty() && p.back() == 0)
				p.pop_back();
			return "a:" + p;
		}
		return "u:" + std::string(p.c_str());
	}
	return "?";
}

static std::string
key_of_url(int tr, int idx)
{
	char b[96];
	switch (tr) {
	case TR_TCP:
		snprintf(b, sizeof(b), "4:%d", 5000 + idx);
		break;
	case TR_WS:
		snprintf(b, sizeof(b), "4:%d", 8000 + idx);
		break;
	case TR_TCP6:
		snprintf(b, sizeof(b), "6:%d", 6000 + idx);
		break;
	case TR_IPC:
		snprintf(b, sizeof(b), "u:/sim/sock%d", idx);
		break;
	case TR_ABSTRACT:
		snprintf(b, sizeof(b), "a:sim%d", idx);
		break;
	default:
		snprintf(b, sizeof(b), "i:%d", idx);
		break;
	}
	return b;
}

static void
connect_hook(const void *sa, unsigned salen, uint64_t now)
{
	World *w = g_w;
	(void) now;
	if (w == NULL || w->tracking_off)
		return;
	if (w->raw_tid == sim_self())
		return; // a raw client of the harness, not the library
	auto it = w->addr_by_key.find(key_of_sockaddr(sa, salen));
	if (it == w->addr_by_key.end()) {
		evlog("connect() to unknown address %s", key_of_sockaddr(sa, salen).c_str());
		sim_probe("c14_connect_unknown_addr");
		return;
	}
	ARec &a = w->addrs[(size_t) it->second];
	sim_stat("connects_seen", 1);
	if (a.idx == w->snipe_addr)
		w->snipe_flag = 1;
	if (a.ndialers_ever != 1) {
		sim_probe("c14_connect_shared_addr");
		return;
	}
	DRec *d = NULL;
	for (auto x : w->dialers)
		if (x->addr == a.idx)
			d = x;
	if (d == NULL || !d->tracked)
		return;
	d->n_connects++;
	evlog("connect() d%d -> %s state=%d holed=%d", d->idx, a.url.c_str(), a.state, (int) a.holed);
	if (d->closed) {
		// not asserted ("until it is closed" is the end of an obligation,
		// not a prohibition), but worth counting
		sim_probe("c14_connect_after_dialer_close");
		return;
	}
	ob_resolve(w, d, "ABD", "the next connect() came");
	if (d->closing || d->sync_starting || !d->background || w->socks[(size_t) d->sock]->closing)
		return;
	// can this attempt only fail, and by when has it failed?
	if (a.inet4 && a.holed) {
		ob_add(w, 'B', d, HOLE_NS + w->conn_delay);
		sim_probe("c14_connect_into_blackhole");
	} else if (a.state == A_DOWN) {
		ob_add(w, 'B', d, w->conn_delay);
		sim_probe("c14_connect_refused");
	}
}

static bool c_applicable(World *w, DRec *d);
static uint64_t attempt_fail_extra(World *w, DRec *d);

// ------------------------------------------------------ pipe callbacks ---
static void
pipe_cb(nng_pipe p, nng_pipe_ev ev, void *arg)
{
	SRec    *s   = (SRec *) arg;
	World   *w   = s->w;
	int      id  = nng_pipe_id(p);
	uint64_t now = sim_now_ns();
	auto     it  = w->pipes.find(id);

	evlog("cb s%d pipe %08x %s%s", s->idx, (unsigned) id, ev_name(ev),
	    it == w->pipes.end() ? "" : (" after " + word(it->second.evs)).c_str());

	if (it != w->pipes.end() && it->second.sock != s->idx)
		VIOL("event_order", "pipe %08x: %s delivered to socket %d but its ADD_PRE was delivered to socket %d",
		    (unsigned) id, ev_name(ev), s->idx, it->second.sock);

	switch (ev) {
	case NNG_PIPE_EV_ADD_PRE: {
		if (it != w->pipes.end())
			VIOL(it->second.evs == E_PRE ? "event_repeated" : "event_order",
			    "pipe %08x on socket %d: ADD_PRE after %s", (unsigned) id, s->idx,
			    word(it->second.evs).c_str());
		PipeRec r;
		r.id       = id;
		r.sock     = s->idx;
		r.dialer   = -1;
		r.listener = -1;
		r.evs      = E_PRE;
		r.t_pre    = now;
		r.t_post = r.t_rem = 0;
		r.rejected = false;
		int did = nng_dialer_id(nng_pipe_dialer(p));
		int lid = nng_listener_id(nng_pipe_listener(p));
		if (did > 0 && w->dialer_by_id.count(did))
			r.dialer = w->dialer_by_id[did];
		if (lid > 0 && w->listener_by_id.count(lid))
			r.listener = w->listener_by_id[lid];
		s->n_pre++;
		if (r.dialer >= 0) {
			DRec *d = w->dialers[(size_t) r.dialer];
			if (d->live_pipe != 0)
				VIOL("dialer_two_pipes",
				    "dialer %d of socket %d got ADD_PRE for pipe %08x while its pipe %08x "
				    "(events so far %s) has not had REM_POST",
				    d->idx, d->sock, (unsigned) id, (unsigned) d->live_pipe,
				    word(w->pipes[d->live_pipe].evs).c_str());
			d->live_pipe = id;
			d->n_pre++;
			if (d->closed)
				sim_probe("c14_pipe_after_dialer_close");
			ob_resolve(w, d, "C", "ADD_PRE came");
			// the attempt that was under way when the listener closed
			// did not fail after all; from here on REM_POST rules
			ob_void(w, d, "D");
		}
		if (r.listener >= 0) {
			LRec *l = w->listeners[(size_t) r.listener];
			l->n_pre++;
			l->pre_flag = 1;
		}
		r.act = s->acts.empty() ? ACT_ACCEPT : s->acts[s->act_pos++ % s->acts.size()];
		if (r.act == ACT_REJECT) {
			r.rejected = true;
			w->pipes[id] = r;
			evlog("reject pipe %08x inside ADD_PRE", (unsigned) id);
			sim_probe("c14_reject_in_pre");
			nng_pipe_close(p);
			return;
		}
		w->pipes[id] = r;
		if (r.act == ACT_ASYNC_CLOSE) {
			w->closeq.push_back(id);
			w->closer_flag = 1;
		}
		return;
	}
	case NNG_PIPE_EV_ADD_POST: {
		if (it == w->pipes.end())
			VIOL("event_without_pre", "pipe %08x on socket %d: ADD_POST without ADD_PRE", (unsigned) id,
			    s->idx);
		PipeRec &r = it->second;
		if (r.evs & E_POST)
			VIOL("event_repeated", "pipe %08x on socket %d: ADD_POST twice (%s)", (unsigned) id, s->idx,
			    word(r.evs).c_str());
		if (r.evs & E_REM)
			VIOL("event_order", "pipe %08x on socket %d: ADD_POST after REM_POST", (unsigned) id, s->idx);
		r.evs |= E_POST;
		r.t_post = now;
		s->n_post++;
		if (r.rejected)
			sim_probe("c14_post_after_reject");
		if (r.act == ACT_CLOSE_IN_POST) {
			evlog("close pipe %08x inside ADD_POST", (unsigned) id);
			sim_probe("c14_close_in_post");
			nng_pipe_close(p);
		}
		return;
	}
	case NNG_PIPE_EV_REM_POST: {
		if (it == w->pipes.end())
			VIOL("event_without_pre", "pipe %08x on socket %d: REM_POST without ADD_PRE", (unsigned) id,
			    s->idx);
		PipeRec &r = it->second;
		if (r.evs & E_REM)
			VIOL("event_repeated", "pipe %08x on socket %d: REM_POST twice", (unsigned) id, s->idx);
		r.evs |= E_REM;
		r.t_rem = now;
		s->n_rem++;
		if (!(r.evs & E_POST))
			sim_probe(r.rejected ? "c14_word_pre_rem_rejected" : "c14_word_pre_rem_other");
		if (r.dialer >= 0) {
			DRec *d = w->dialers[(size_t) r.dialer];
			if (d->live_pipe == id)
				d->live_pipe = 0;
			SRec *ds = w->socks[(size_t) d->sock];
			if (!d->closing && !ds->closing && d->background) {
				if (d->tracked && !w->tracking_off)
					ob_add(w, 'A', d, 0);
				// the listener is there: the redial has to produce a pipe
				if (c_applicable(w, d)) {
					ob_void(w, d, "C");
					ob_add(w, 'C', d, 2 * w->conn_delay + 40 * w->lat_max + attempt_fail_extra(w, d));
				}
			}
		}
		return;
	}
	default:
		VIOL("event_order", "pipe %08x: unknown event %d", (unsigned) id, (int) ev);
	}
}

// ------------------------------------------------------------ helpers ---
static const char *
role_name(int r)
{
	static const char *n[] = { "bus", "pair", "push", "pull" };
	return n[r];
}

static SRec *
open_sock(World *w, int role, int mode)
{
	SRec *s = new SRec();
	s->w    = w;
	s->idx  = (int) w->socks.size();
	s->role = role;
	switch (role) {
	case R_BUS:
		MUST(nng_bus0_open(&s->s));
		break;
	case R_PAIR:
		MUST(nng_pair1_open(&s->s));
		break;
	case R_PUSH:
		MUST(nng_push0_open(&s->s));
		break;
	default:
		MUST(nng_pull0_open(&s->s));
		break;
	}
	s->open = true;
	s->closing = false;
	s->act_pos = 0;
	s->n_pre = s->n_post = s->n_rem = 0;
	s->has_receiver = false;
	// mode 0: accept everything (simplest); 1: mixed; 2: reject everything
	if (mode == 1) {
		int n = (int) W(4, 12);
		for (int i = 0; i < n; i++) {
			long v = W(0, 9);
			s->acts.push_back(v <= 4 ? ACT_ACCEPT : v <= 6 ? ACT_REJECT : v == 7 ? ACT_CLOSE_IN_POST : ACT_ASYNC_CLOSE);
		}
	} else if (mode == 2) {
		s->acts.push_back(ACT_REJECT);
	}
	MUST(nng_socket_set_ms(s->s, NNG_OPT_RECVTIMEO, 1000));
	MUST(nng_socket_set_ms(s->s, NNG_OPT_SENDTIMEO, 20));
	MUST(nng_pipe_notify(s->s, NNG_PIPE_EV_ADD_PRE, pipe_cb, s));
	MUST(nng_pipe_notify(s->s, NNG_PIPE_EV_ADD_POST, pipe_cb, s));
	MUST(nng_pipe_notify(s->s, NNG_PIPE_EV_REM_POST, pipe_cb, s));
	w->socks.push_back(s);
	evlog("open s%d %s mode=%d", s->idx, role_name(role), mode);
	return s;
}

static int
new_addr(World *w, bool dead, int tr)
{
	ARec a;
	a.idx   = (int) w->addrs.size();
	a.tr    = tr;
	if (tr == TR_WS)
		w->uses_ws = true;
	int n   = 10 + w->next_addr++;
	a.url   = h_url(tr, n);
	a.key   = key_of_url(tr, n);
	a.dead  = dead;
	a.state = A_DOWN;
	a.holed = a.c_off = false;
	a.ndialers_ever = 0;
	a.owner = -1;
	a.cur_listener = -1;
	a.inet4 = tr == TR_TCP || tr == TR_WS;
	a.port  = (uint16_t) (tr == TR_TCP ? 5000 + n : tr == TR_WS ? 8000 + n : tr == TR_TCP6 ? 6000 + n : 0);
	w->addrs.push_back(a);
	w->addr_by_key[a.key] = a.idx;
	return a.idx;
}

// c14_ws=0 leaves ws:// out (it was needed while nng's websocket layer had
// close-path defects of its own; they are fixed in /repo by now).
static int
tr_filter(World *w, int tr)
{
	return tr == TR_WS && !w->ws_ok ? TR_TCP : tr;
}

static int
pick_tr(World *w)
{
	return tr_filter(w, w->tr_mix ? (int) W(0, TR_N - 1) : w->tr_primary);
}

static std::vector<SRec *>
open_socks(World *w)
{
	std::vector<SRec *> v;
	for (auto s : w->socks)
		if (s->open && !s->closing)
			v.push_back(s);
	return v;
}

// Will a connection between these two sockets get as far as ADD_PRE?  With
// mismatched protocols some transports (ws) already refuse the handshake.
static bool
compatible(World *w, int sa, int sb)
{
	if (sa < 0 || sb < 0)
		return false;
	int a = w->socks[(size_t) sa]->role, b = w->socks[(size_t) sb]->role;
	if (a == R_PUSH)
		return b == R_PULL;
	if (a == R_PULL)
		return b == R_PUSH;
	return a == b;
}

// may the harness expect a pipe for dialer d now?
static bool
c_applicable(World *w, DRec *d)
{
	ARec &a = w->addrs[(size_t) d->addr];
	return a.state == A_UP && !a.c_off && !w->accept_faults && !w->tracking_off &&
	    compatible(w, d->sock, a.owner);
}

// C obligations for every background dialer that targets addr
static void
addr_now_up(World *w, int addr)
{
	ARec &a = w->addrs[(size_t) addr];
	if (a.c_off || w->accept_faults || w->tracking_off)
		return;
	for (auto d : w->dialers) {
		if (d->addr != addr || !d->background || d->closing || w->socks[(size_t) d->sock]->closing)
			continue;
		if (d->live_pipe != 0)
			continue; // a REM_POST will come first and create the obligation
		if (!c_applicable(w, d))
			continue;
		ob_void(w, d, "C");
		ob_add(w, 'C', d, 2 * w->conn_delay + 40 * w->lat_max + attempt_fail_extra(w, d));
	}
}

static void
addr_going_down(World *w, int addr)
{
	for (auto d : w->dialers)
		if (d->addr == addr)
			ob_void(w, d, "C");
}

static LRec *
do_listen(World *w, SRec *s, int addr)
{
	ARec &a = w->addrs[(size_t) addr];
	LRec *l = new LRec();
	l->idx  = (int) w->listeners.size();
	l->sock = s->idx;
	l->addr = addr;
	l->open = false;
	l->closing = false;
	l->n_pre = 0;
	l->pre_flag = 0;
	int rv = nng_listener_create(&l->l, s->s, a.url.c_str());
	if (rv != 0) {
		evlog("listen s%d %s: create failed %d", s->idx, a.url.c_str(), rv);
		delete l;
		return NULL;
	}
	l->id = nng_listener_id(l->l);
	w->listeners.push_back(l);
	w->listener_by_id[l->id] = l->idx;
	int prev = a.state;
	a.state  = A_PENDING;
	rv       = nng_listener_start(l->l, 0);
	if (rv != 0) {
		// e.g. the address is still held by the previous incarnation
		evlog("listen s%d %s: start failed %d (%s)", s->idx, a.url.c_str(), rv, nng_strerror((nng_err) rv));
		sim_probe("c14_listen_failed");
		a.state = prev;
		nng_listener_close(l->l);
		return NULL;
	}
	l->open = true;
	a.state = A_UP;
	a.owner = s->idx;
	a.cur_listener = l->idx;
	evlog("listen s%d l%d %s", s->idx, l->idx, a.url.c_str());
	addr_now_up(w, addr);
	return l;
}

// Extra time for "the attempt that was under way fails": an attempt that got as
// far as the handshake with a listener that is being closed is ended by the
// listener side closing the connection.  nng does that (like every deferred
// close) on its single reap thread, and tearing down one ws pipe keeps that
// thread for 100 ms and more (websocket close handshake), so with ws pipes in
// the run the connection may stay open and silent for an unbounded time; the
// dialing side then gives up only when its own handshake timer fires (ws: 2 s
// for the HTTP upgrade, stream transports: 10 s for the SP header).  The
// statement bounds the delay after the failure, not the time to fail.
static uint64_t
attempt_fail_extra(World *w, DRec *d)
{
	if (!w->uses_ws)
		return 0;
	return w->addrs[(size_t) d->addr].tr == TR_WS ? 2 * SEC + 100 * MS : 10 * SEC + 100 * MS;
}

// The listener at addr has just been closed (the call returned).  Whatever a
// background dialer had going on with it - a connection in the accept queue,
// a half finished handshake, an established pipe - is torn down by that, so
// the dialer's attempt fails (or still yields a pipe, which ends this
// obligation), and the statement's redial must show up as a new connect().
static void
addr_now_down(World *w, int addr)
{
	ARec &a = w->addrs[(size_t) addr];
	if (w->tracking_off || a.holed || a.c_off)
		return;
	for (auto d : w->dialers) {
		if (d->addr != addr || !d->tracked || !d->background || d->sync_starting || d->closing ||
		    w->socks[(size_t) d->sock]->closing)
			continue;
		// with a pipe the next event is its REM_POST, whose time the
		// statement does not bound (a ws pipe takes 100 ms and more to
		// be torn down); obligation A starts there
		if (d->live_pipe != 0)
			continue;
		ob_void(w, d, "D");
		ob_add(w, 'D', d, 2 * w->conn_delay + 40 * w->lat_max + attempt_fail_extra(w, d));
	}
}

static void
do_listener_close(World *w, LRec *l)
{
	ARec &a = w->addrs[(size_t) l->addr];
	l->closing = true;
	// An asynchronous close may get to run only after the listener's socket
	// has been closed (which closed the listener) and somebody else listens
	// at the address again: the model of the address then belongs to the
	// new listener and must not be touched.
	bool mine = l->open && a.cur_listener == l->idx;
	if (mine) {
		a.state = A_PENDING;
		addr_going_down(w, l->addr);
	}
	evlog("close listener l%d (%s)%s", l->idx, a.url.c_str(), mine ? "" : " (already gone)");
	nng_listener_close(l->l);
	if (mine && l->open && a.cur_listener == l->idx) {
		l->open = false;
		a.state = A_DOWN;
		addr_now_down(w, l->addr);
	}
	l->open = false;
}

static void
dialer_try_start(World *w, DRec *d, bool nonblock)
{
	ARec &a = w->addrs[(size_t) d->addr];
	evlog("start dialer d%d s%d -> %s %s", d->idx, d->sock, a.url.c_str(), nonblock ? "nonblock" : "sync");
	if (nonblock) {
		d->background = true;
		int rv = nng_dialer_start(d->d, NNG_FLAG_NONBLOCK);
		if (rv != 0) {
			d->background = false;
			evlog("start d%d failed %d", d->idx, rv);
			return;
		}
		d->started = true;
		// inproc shows no connect(): the only observable is the pipe
		if (c_applicable(w, d) && d->live_pipe == 0) {
			ob_void(w, d, "C");
			ob_add(w, 'C', d, 2 * w->conn_delay + 40 * w->lat_max + attempt_fail_extra(w, d));
		}
		return;
	}
	d->sync_starting = true;
	int rv           = nng_dialer_start(d->d, 0);
	d->sync_starting = false;
	if (rv == 0) {
		d->started    = true;
		d->background = true;
		sim_probe("c14_sync_dial_ok");
	} else {
		evlog("sync start d%d failed %d (%s)", d->idx, rv, nng_strerror((nng_err) rv));
		sim_probe("c14_sync_dial_failed");
	}
}

static const int RTIMES[] = { 10, 1, 40, 100, 400, 1500, 5000, 0 };

static DRec *
do_dialer(World *w, SRec *s, int addr, int rmin, int rmax, int startmode)
{
	ARec &a = w->addrs[(size_t) addr];
	DRec *d = new DRec();
	d->idx  = (int) w->dialers.size();
	d->sock = s->idx;
	d->addr = addr;
	d->started = d->background = d->sync_starting = d->closing = d->closed = false;
	d->live_pipe = 0;
	d->n_connects = d->n_pre = 0;
	int rv = nng_dialer_create(&d->d, s->s, a.url.c_str());
	if (rv != 0) {
		evlog("dialer s%d %s: create failed %d", s->idx, a.url.c_str(), rv);
		delete d;
		return NULL;
	}
	d->id = nng_dialer_id(d->d);
	MUST(nng_dialer_set_ms(d->d, NNG_OPT_RECONNMINT, rmin));
	MUST(nng_dialer_set_ms(d->d, NNG_OPT_RECONNMAXT, rmax));
	nng_duration g1 = -1, g2 = -1;
	MUST(nng_dialer_get_ms(d->d, NNG_OPT_RECONNMINT, &g1));
	MUST(nng_dialer_get_ms(d->d, NNG_OPT_RECONNMAXT, &g2));
	d->rmin  = g1;
	d->rmax  = g2;
	d->rt_ns = (uint64_t) (g1 > g2 ? g1 : g2) * MS;
	if (g1 <= 1 || g2 == 1)
		w->spinner = true;
	// attribution of connect() calls needs an address of its own
	a.ndialers_ever++;
	d->tracked = a.ndialers_ever == 1 && a.tr != TR_INPROC;
	if (a.ndialers_ever > 1)
		for (auto x : w->dialers)
			if (x->addr == addr) {
				x->tracked = false;
				ob_void(w, x, "ABD");
			}
	w->dialers.push_back(d);
	w->dialer_by_id[d->id] = d->idx;
	evlog("dialer d%d s%d -> %s rmin=%d rmax=%d tracked=%d", d->idx, s->idx, a.url.c_str(), d->rmin, d->rmax,
	    (int) d->tracked);
	if (startmode != 2)
		dialer_try_start(w, d, startmode == 0);
	return d;
}

static void
do_dialer_close(World *w, DRec *d)
{
	d->closing = true;
	ob_void(w, d, "ABCD");
	evlog("close dialer d%d", d->idx);
	nng_dialer_close(d->d);
	d->closed = true;
}

static void
mark_sock_closing(World *w, SRec *s)
{
	s->closing = true;
	for (auto d : w->dialers)
		if (d->sock == s->idx && !d->closing) {
			d->closing = true;
			ob_void(w, d, "ABCD");
		}
	for (auto l : w->listeners)
		if (l->sock == s->idx && l->open) {
			// (also when an asynchronous close of the listener is
			// already queued: that one may run only after this close)
			l->closing = true;
			if (w->addrs[(size_t) l->addr].cur_listener == l->idx) {
				w->addrs[(size_t) l->addr].state = A_PENDING;
				addr_going_down(w, l->addr);
			}
		}
}

static void
do_sock_close(World *w, SRec *s)
{
	mark_sock_closing(w, s);
	evlog("close socket s%d", s->idx);
	int rv;
	{
		// REM_POST is delivered "no later than the return of its socket's close":
		// a close that never returns withholds it for good
		Bounded g("C14", "no_rem_by_close", 30000000000ull,
		    "nng_socket_close(s%d): the close does not return, so the REM_POST events of its pipes (%d reached ADD_POST) are "
		    "withheld",
		    s->idx, s->n_post);
		rv = nng_socket_close(s->s);
	}
	if (rv != 0)
		h_fatal("nng_socket_close s%d -> %d", s->idx, rv);
	s->open = false;
	evlog("closed socket s%d", s->idx);
	for (auto d : w->dialers)
		if (d->sock == s->idx)
			d->closed = true;
	for (auto l : w->listeners)
		if (l->sock == s->idx && l->open) {
			l->open = false;
			if (w->addrs[(size_t) l->addr].cur_listener == l->idx) {
				addr_going_down(w, l->addr);
				w->addrs[(size_t) l->addr].state = A_DOWN;
				addr_now_down(w, l->addr);
			}
		}
	// "every pipe that reached ADD_POST receives REM_POST no later than the
	// return of its socket's close"
	for (auto &kv : w->pipes) {
		PipeRec &r = kv.second;
		if (r.sock != s->idx)
			continue;
		if ((r.evs & E_POST) && !(r.evs & E_REM))
			VIOL("no_rem_by_close",
			    "nng_socket_close(s%d) returned but pipe %08x (events %s, ADD_POST at %llu ms) never got "
			    "REM_POST",
			    s->idx, (unsigned) r.id, word(r.evs).c_str(), (unsigned long long) (r.t_post / MS));
		if (!(r.evs & E_REM))
			sim_probe("c14_pre_only_pipe_without_rem_at_close");
	}
	sim_stat("nontrivial", s->n_post > 0 ? 1 : 0);
}

// ---------------------------------------------------------------- tasks ---
static void
receiver_task(void *arg)
{
	SRec  *s = (SRec *) arg;
	World *w = s->w;
	while (!w->stop_recv) {
		nng_msg *m  = NULL;
		int      rv = nng_recvmsg(s->s, &m, 0);
		if (rv == NNG_ECLOSED || rv == NNG_ENOTSUP)
			break;
		if (rv != 0)
			continue;
		int  pid = nng_pipe_id(nng_msg_get_pipe(m));
		Tag  t   = nng_msg_len(m) >= TAG_MIN ? tag_parse((uint8_t *) nng_msg_body(m), nng_msg_len(m)) : Tag();
		bool ok  = nng_msg_len(m) >= TAG_MIN && t.ok;
		nng_msg_free(m);
		sim_stat("delivered", 1);
		auto it = w->pipes.find(pid);
		evlog("recv s%d pipe %08x origin %d serial %u", s->idx, (unsigned) pid, ok ? (int) t.origin : -1,
		    ok ? t.serial : 0);
		if (it == w->pipes.end()) {
			sim_probe("c14_msg_on_unannounced_pipe");
		} else if (it->second.rejected) {
			VIOL("rejected_pipe_carried_message",
			    "socket %d received a message on pipe %08x which the application had closed inside ADD_PRE",
			    s->idx, (unsigned) pid);
		} else if (!(it->second.evs & E_POST)) {
			sim_probe("c14_msg_before_post");
		}
		if (!ok || t.origin >= w->socks.size())
			continue;
		// the sending side: the message must have travelled on a pipe of
		// the origin socket that was not closed inside ADD_PRE and that
		// still existed when the send call began
		SRec *o = w->socks[t.origin];
		if (t.serial >= o->send_t.size())
			continue;
		uint64_t ts       = o->send_t[t.serial];
		bool     eligible = false;
		for (auto &kv : w->pipes) {
			PipeRec &r = kv.second;
			if (r.sock == o->idx && !r.rejected && (!(r.evs & E_REM) || r.t_rem >= ts))
				eligible = true;
		}
		if (!eligible)
			VIOL("rejected_pipe_carried_message",
			    "socket %d received message %u of socket %d (send began at %llu ms), but every pipe socket %d "
			    "had since then was closed inside ADD_PRE (%d ADD_PREs on it so far)",
			    s->idx, t.serial, o->idx, (unsigned long long) (ts / MS), o->idx, o->n_pre);
		if (o->n_pre > 0)
			sim_stat("nontrivial", 1);
	}
}

static void
closer_task(void *arg)
{
	World *w = (World *) arg;
	for (;;) {
		sim_wait_flag(&w->closer_flag, 0);
		w->closer_flag = 0;
		while (!w->closeq.empty()) {
			int id = w->closeq.back();
			w->closeq.pop_back();
			auto it = w->pipes.find(id);
			if (it != w->pipes.end() && !(it->second.evs & E_POST))
				sim_probe("c14_close_races_with_add");
			evlog("async close pipe %08x", (unsigned) id);
			nng_pipe p;
			p.id = (uint32_t) id;
			nng_pipe_close(p);
		}
		if (w->closer_stop)
			break;
	}
}

struct AsyncOp {
	World *w;
	int    kind; // 0 listener close, 1 dialer close, 2 socket close, 3 pipe close
	int    target;
};

static void
async_task(void *arg)
{
	AsyncOp *op = (AsyncOp *) arg;
	World   *w  = op->w;
	switch (op->kind) {
	case 0:
		do_listener_close(w, w->listeners[(size_t) op->target]);
		break;
	case 1:
		do_dialer_close(w, w->dialers[(size_t) op->target]);
		break;
	case 2:
		do_sock_close(w, w->socks[(size_t) op->target]);
		break;
	default: {
		nng_pipe p;
		p.id = (uint32_t) op->target;
		nng_pipe_close(p);
		break;
	}
	}
	w->async_running--;
	w->async_flag = 1;
	delete op;
}

// no polling here: a periodic wake-up would keep resetting the scheduler's
// starvation valve while a library thread busy-waits for another one
static void
wait_async(World *w)
{
	while (w->async_running > 0) {
		w->async_flag = 0;
		if (w->async_running > 0)
			sim_wait_flag(&w->async_flag, 0);
	}
}

static void
run_op(World *w, int kind, int target, bool async)
{
	// nng_socket_close racing with nng_dialer_close/nng_listener_close of one
	// of its own endpoints used to over-release the endpoint in
	// sock_shutdown() (fixed in /repo 3e48f83); c14_risky=0 keeps the two
	// apart again
	if (kind == 2 && !w->risky)
		wait_async(w);
	// mark the target busy before anything else can pick it
	if (kind == 0)
		w->listeners[(size_t) target]->closing = true;
	else if (kind == 1)
		w->dialers[(size_t) target]->closing = true;
	else if (kind == 2)
		mark_sock_closing(w, w->socks[(size_t) target]);
	AsyncOp *op = new AsyncOp();
	op->w       = w;
	op->kind    = kind;
	op->target  = target;
	w->async_running++;
	if (async) {
		sim_probe("c14_async_op");
		int tid = sim_spawn("op", async_task, op, 0);
		w->harness_tids.insert(tid);
	} else {
		async_task(op);
	}
}

static void
do_send(World *w, SRec *s)
{
	if (s->role == R_PULL)
		return;
	uint32_t serial = (uint32_t) s->send_t.size();
	nng_msg *m      = tag_msg((size_t) W(TAG_MIN, 80), (uint16_t) s->idx, 0, serial);
	s->send_t.push_back(sim_now_ns());
	// not NNG_FLAG_NONBLOCK: BUS refuses every non-blocking send (known
	// finding bus_nonblock_eagain); the socket has a 20 ms send timeout
	int rv = nng_sendmsg(s->s, m, 0);
	evlog("send s%d serial %u -> %d", s->idx, serial, rv);
	if (rv != 0)
		nng_msg_free(m);
}

// mostly a socket that has a pipe right now, so that messages really travel
static SRec *
pick_sender(World *w, const std::vector<SRec *> &os)
{
	std::vector<SRec *> c;
	for (auto s : os) {
		if (s->role == R_PULL)
			continue;
		for (auto &kv : w->pipes)
			if (kv.second.sock == s->idx && !(kv.second.evs & E_REM)) {
				c.push_back(s);
				break;
			}
	}
	long r = W(0, 3);
	if (!c.empty() && r != 3)
		return c[(size_t) W(0, (long) c.size() - 1)];
	return os[(size_t) W(0, (long) os.size() - 1)];
}

static void
do_raw_abort(World *w, ARec &a)
{
	// a client that connects and goes away during the handshake
	int fd;
	int rv;
	w->raw_tid = sim_self();
	if (a.tr == TR_IPC) {
		struct sockaddr_un un;
		memset(&un, 0, sizeof(un));
		un.sun_family = AF_UNIX;
		snprintf(un.sun_path, sizeof(un.sun_path), "%s", a.url.c_str() + strlen("ipc://"));
		fd = simnet_socket(AF_UNIX, SOCK_STREAM);
		if (fd < 0) {
			w->raw_tid = -1;
			return;
		}
		rv = simnet_connect_blocking(fd, &un, sizeof(un), 2 * SEC);
	} else {
		struct sockaddr_in in;
		memset(&in, 0, sizeof(in));
		in.sin_family      = AF_INET;
		in.sin_port        = htons(a.port);
		in.sin_addr.s_addr = htonl(0x7f000001);
		fd = simnet_socket(AF_INET, SOCK_STREAM);
		if (fd < 0) {
			w->raw_tid = -1;
			return;
		}
		rv = simnet_connect_blocking(fd, &in, sizeof(in), 2 * SEC);
	}
	w->raw_tid = -1;
	long how = W(0, 3);
	evlog("raw client -> %s connect=%d how=%ld", a.url.c_str(), rv, how);
	if (rv != 0) {
		close(fd);
		return;
	}
	sim_probe("c14_raw_client");
	static const uint8_t good[8] = { 0, 'S', 'P', 0, 0, 0x70, 0, 0 };
	static const uint8_t bad[8]  = { 0, 'X', 'Y', 0, 0, 0x70, 0, 0 };
	switch (how) {
	case 0:
		simnet_reset(fd);
		break;
	case 1:
		simnet_write_full(fd, good, 3, SEC);
		simnet_reset(fd);
		break;
	case 2:
		simnet_write_full(fd, bad, 8, SEC);
		sim_sleep_ns((uint64_t) W(0, 3) * MS);
		close(fd);
		break;
	default:
		simnet_write_full(fd, good, 8, SEC);
		sim_sleep_ns((uint64_t) W(0, 3) * MS);
		simnet_reset(fd);
		break;
	}
	ob_refresh_c(w, a.idx);
}

static bool
steps_left(World *w)
{
	return sim_steps() < w->step_budget;
}

// Sleeping costs scheduling steps when dialers keep cycling (small reconnect
// times against a dead address or a rejecting peer); stop early rather than
// run into the step budget.  Cutting a wait short can only hide a violation.
static void
world_sleep(World *w, uint64_t ns)
{
	if (w->spinner && ns > 3 * MS)
		ns = 3 * MS; // a dialer with reconnect time 0 spins; keep it short
	uint64_t end = sim_now_ns() + ns;
	while (sim_now_ns() < end && steps_left(w)) {
		uint64_t left = end - sim_now_ns();
		sim_sleep_ns(left > 100 * MS ? 100 * MS : left);
		ob_check_expired(w);
	}
	ob_check_expired(w);
}

// wait until every obligation that exists now is resolved or overdue
static void
wait_obligations(World *w)
{
	size_t n = w->obs.size();
	for (;;) {
		ob_check_expired(w);
		uint64_t now = sim_now_ns(), next = 0;
		bool     any = false;
		for (size_t i = 0; i < n; i++) {
			Ob &o = w->obs[i];
			if (!o.open)
				continue;
			uint64_t left = o.allow - ob_elapsed(o, now);
			if (!any || left < next)
				next = left;
			any = true;
		}
		if (!any)
			break;
		if (!steps_left(w)) {
			sim_probe("c14_wait_cut_by_step_budget");
			break;
		}
		w->ob_flag = 0;
		sim_wait_flag(&w->ob_flag, next + MS > 200 * MS ? 200 * MS : next + MS);
	}
}

static void
check_listeners_alive(World *w)
{
	// "a listener keeps accepting further connections whatever happens to
	// individual pipes": a fresh, well-behaved peer dials each listener
	// that is still open; the listener's socket must see a new pipe.
	std::vector<LRec *> ls;
	for (auto l : w->listeners)
		if (l->open && !l->closing && !w->addrs[(size_t) l->addr].holed)
			ls.push_back(l);
	for (auto l : ls) {
		ARec &a    = w->addrs[(size_t) l->addr];
		SRec *own  = w->socks[(size_t) l->sock];
		int   role = own->role == R_PUSH ? R_PULL : own->role == R_PULL ? R_PUSH : own->role;
		SRec *ps   = open_sock(w, role, 0);
		int   before = l->n_pre;
		l->pre_flag  = 0;
		uint64_t t0 = sim_now_ns(), s0 = sim_stall_total_ns();
		evlog("probe listener l%d (%s), %d pipes so far", l->idx, a.url.c_str(), before);
		DRec *d = do_dialer(w, ps, l->addr, 5, 20, 0);
		if (d == NULL)
			h_fatal("probe dialer could not be created");
		// generous: accept errors cost a 100 ms cool-down each
		uint64_t allow = 30 * SEC;
		bool cut = false;
		while (l->n_pre == before) {
			if (!steps_left(w)) {
				sim_probe("c14_wait_cut_by_step_budget");
				cut = true;
				break;
			}
			uint64_t el = sim_now_ns() - t0 - (sim_stall_total_ns() - s0);
			if (el > allow)
				VIOL("listener_stopped_accepting",
				    "listener %d of socket %d (%s, open, %d pipes before) produced no new pipe within "
				    "%llu ms for a fresh dialer that retries every 5..20 ms (the fresh dialer itself got %d pipes)",
				    l->idx, l->sock, a.url.c_str(), before, (unsigned long long) (el / MS), d->n_pre);
			l->pre_flag = 0;
			sim_wait_flag(&l->pre_flag, 200 * MS);
		}
		// the fresh peer goes away again (its dialer would otherwise keep
		// cycling against rejecting or busy sockets until the end)
		do_sock_close(w, ps);
		if (cut)
			break;
		sim_probe("c14_listener_alive_checked");
		sim_stat("nontrivial", 1);
	}
}

// -------------------------------------------------------------- scenario ---
static void
events_run(Params *p)
{
	World *w = new World();
	g_w      = w;
	w->closer_flag = w->closer_stop = w->ob_flag = w->stop_recv = w->async_flag = 0;
	w->async_running = 0;
	w->tracking_off  = false;
	w->spinner       = false;
	w->allow_spin    = p->i("c14_spin", 0) != 0;
	w->risky         = p->i("c14_risky", 1) != 0;
	w->step_budget   = (uint64_t) p->i("c14_step_budget", 450000);
	w->next_addr     = 0;
	w->raw_tid       = -1;
	w->snipe_addr    = -1;
	w->uses_ws       = false;
	w->snipe_flag    = 0;
	w->harness_tids.insert(sim_self());
	g_echo = p->i("c14_echo", 0) != 0;
	w->conn_delay    = (uint64_t) p->i("c14_conn_delay_ns", 0);
	w->lat_max       = (uint64_t) p->i("c14_lat_max_ns", 0);
	w->accept_faults = p->i("c14_accept_faults", 0) != 0;
	w->slack         = 300 * MS + 20 * w->lat_max;
	simnet_set_connect_hook(connect_hook);

	w->ws_ok      = p->i("c14_ws", 1) != 0;
	w->tr_primary = tr_filter(w, (int) p->draw("tr", 0, TR_N - 1));
	w->tr_mix     = p->draw("trmix", 0, 3) == 3;
	w->family     = (int) p->draw("family", 0, 2);
	int  nsock    = 2 + (int) p->draw("xsock", 0, 2);
	int  nlist    = 1 + (int) p->draw("xlist", 0, 2);
	int  ndial    = 1 + (int) p->draw("xdial", 0, 3);
	long share    = p->draw("share", 0, 3); // 3: dialers may share an address
	long deadp    = p->draw("dead", 0, 3);  // >0: some dialers aim at addresses nobody listens on
	long holes    = p->draw("holes", 0, 5) == 5;
	long rt_style = p->draw("rt", 0, 3);
	evlog("c14_events tr=%s mix=%d family=%d socks=%d listeners=%d dialers=%d", h_tr_name(w->tr_primary),
	    (int) w->tr_mix, w->family, nsock, nlist, ndial);

	for (int i = 0; i < nsock; i++) {
		int role = w->family == 0 ? R_BUS : w->family == 1 ? R_PAIR : (i % 2 == 0 ? R_PULL : R_PUSH);
		long m   = W(0, 5);
		open_sock(w, role, m <= 1 ? 0 : m <= 4 ? 1 : 2);
	}
	int closer_tid = sim_spawn("closer", closer_task, w, 0);
	w->harness_tids.insert(closer_tid);
	for (auto s : w->socks) {
		if (s->role == R_PUSH)
			continue;
		s->has_receiver = true;
		w->harness_tids.insert(sim_spawn("recv", receiver_task, s, 0));
	}

	auto draw_rt = [&](int *rmin, int *rmax) {
		// 0: small fixed; otherwise drawn from the table
		if (rt_style == 0) {
			*rmin = 10;
			*rmax = 40;
		} else {
			*rmin = RTIMES[W(0, rt_style == 3 ? 7 : 6)];
			*rmax = W(0, 2) == 0 ? 0 : RTIMES[W(0, 6)];
			// reconnect times of 0 or 1 ms never sleep ("random % 1"):
			// the dialer and nng's expiry thread then keep a CPU
			// busy for ever, which starves other threads under the
			// unfair schedulers and makes every time bound moot
			// (a maximum of 1 ms has the same effect from the second
			// attempt on)
			if (!w->allow_spin) {
				if (*rmin <= 1)
					*rmin = 10;
				if (*rmax == 1)
					*rmax = 10;
			}
		}
	};
	auto new_dialer = [&](bool setup) -> DRec * {
		auto os = open_socks(w);
		if (os.empty())
			return NULL;
		SRec *s    = os[(size_t) W(0, (long) os.size() - 1)];
		int   addr = -1;
		if (deadp > 0 && W(0, 3) < deadp) {
			int tr = pick_tr(w);
			if (tr == TR_INPROC && W(0, 1))
				tr = TR_TCP;
			addr = new_addr(w, true, tr);
		} else {
			// a live address, preferably one without a dialer yet and
			// not owned by the dialing socket
			std::vector<int> c1, c2;
			for (auto &a : w->addrs) {
				if (a.dead || a.owner == s->idx)
					continue;
				(a.ndialers_ever == 0 ? c1 : c2).push_back(a.idx);
			}
			if (!c1.empty() && !(share == 3 && !c2.empty() && W(0, 1)))
				addr = c1[(size_t) W(0, (long) c1.size() - 1)];
			else if (!c2.empty() && (share >= 2 || c1.empty()))
				addr = c2[(size_t) W(0, (long) c2.size() - 1)];
			else if (!c1.empty())
				addr = c1[0];
			else
				addr = new_addr(w, true, pick_tr(w));
		}
		int rmin, rmax;
		draw_rt(&rmin, &rmax);
		long sm = W(0, 5); // 0-3 nonblock, 4 sync, 5 created only (started later)
		ARec &a = w->addrs[(size_t) addr];
		int  startmode = sm <= 3 ? 0 : sm == 4 ? 1 : 2;
		if (startmode == 1 && (a.holed || (rmin == 0 && a.state != A_UP)))
			startmode = 0;
		(void) setup;
		return do_dialer(w, s, addr, rmin, rmax, startmode);
	};

	for (int i = 0; i < nlist; i++) {
		SRec *s = w->socks[(size_t) (i == 0 ? 0 : W(0, nsock - 1))];
		do_listen(w, s, new_addr(w, false, pick_tr(w)));
	}
	for (int i = 0; i < ndial; i++)
		new_dialer(true);

	int nops = (int) W(3, 30);
	for (int op = 0; op < nops; op++) {
		ob_check_expired(w);
		long kind = W(0, 19);
		bool async = W(0, 3) == 3;
		auto os = open_socks(w);
		switch (kind) {
		case 0:
		case 1: {
			static const int SL[] = { 1, 0, 3, 10, 50, 200, 1200, 6000 };
			world_sleep(w, (uint64_t) SL[W(0, 7)] * MS);
			break;
		}
		case 2:
		case 3:
		case 4:
			if (!os.empty())
				do_send(w, pick_sender(w, os));
			break;
		case 5: { // burst
			if (os.empty())
				break;
			SRec *s = pick_sender(w, os);
			int   n = (int) W(2, 6);
			for (int i = 0; i < n; i++)
				do_send(w, s);
			break;
		}
		case 6:
		case 7: { // the application closes one of its pipes
			std::vector<int> live;
			for (auto &kv : w->pipes)
				if (!(kv.second.evs & E_REM))
					live.push_back(kv.first);
			if (live.empty())
				break;
			int id = live[(size_t) W(0, (long) live.size() - 1)];
			evlog("nng_pipe_close %08x (%s)", (unsigned) id, word(w->pipes[id].evs).c_str());
			run_op(w, 3, id, async);
			break;
		}
		case 8: { // the network kills the connections of a listener address
			std::vector<int> c;
			for (auto &a : w->addrs)
				if (!a.dead && a.state == A_UP && (a.inet4 || a.tr == TR_TCP6))
					c.push_back(a.idx);
			if (c.empty())
				break;
			ARec &a = w->addrs[(size_t) c[(size_t) W(0, (long) c.size() - 1)]];
			evlog("kill connections of %s", a.url.c_str());
			ob_refresh_c(w, a.idx);
			simnet_kill_conns_of(a.inet4 ? 0x7f000001u : 0u, a.port);
			sim_probe("c14_peer_loss_injected");
			break;
		}
		case 9: { // listener close
			std::vector<LRec *> c;
			for (auto l : w->listeners)
				if (l->open && !l->closing)
					c.push_back(l);
			if (c.empty())
				break;
			run_op(w, 0, c[(size_t) W(0, (long) c.size() - 1)]->idx, async);
			break;
		}
		case 10:
		case 11: { // listen again on an address that is down, or a new one
			if (os.empty())
				break;
			std::vector<int> c;
			for (auto &a : w->addrs)
				if (!a.dead && a.state == A_DOWN)
					c.push_back(a.idx);
			int addr;
			SRec *s = os[(size_t) W(0, (long) os.size() - 1)];
			if (!c.empty() && W(0, 3) != 3) {
				addr = c[(size_t) W(0, (long) c.size() - 1)];
				// preferably the socket that had it
				int oi = w->addrs[(size_t) addr].owner;
				if (oi >= 0 && w->socks[(size_t) oi]->open && !w->socks[(size_t) oi]->closing && W(0, 2) != 2)
					s = w->socks[(size_t) oi];
			} else {
				addr = new_addr(w, false, pick_tr(w));
			}
			do_listen(w, s, addr);
			break;
		}
		case 12: { // dialer close
			std::vector<DRec *> c;
			for (auto d : w->dialers)
				if (!d->closing && !d->closed)
					c.push_back(d);
			if (c.empty())
				break;
			run_op(w, 1, c[(size_t) W(0, (long) c.size() - 1)]->idx, async);
			break;
		}
		case 13:
			new_dialer(false);
			break;
		case 14: { // socket close (keep one until the end)
			if (os.size() < 2 || W(0, 1))
				break;
			run_op(w, 2, os[(size_t) W(0, (long) os.size() - 1)]->idx, async);
			break;
		}
		case 15: { // black hole on/off
			if (!holes)
				break;
			std::vector<int> c;
			for (auto &a : w->addrs)
				if (a.inet4)
					c.push_back(a.idx);
			if (c.empty())
				break;
			ARec &a = w->addrs[(size_t) c[(size_t) W(0, (long) c.size() - 1)]];
			if (!a.holed) {
				a.holed = true;
				a.c_off = true;
				for (auto d : w->dialers)
					if (d->addr == a.idx)
						ob_void(w, d, "C");
				simnet_blackhole(0x7f000001u, a.port, 1);
			} else {
				simnet_blackhole(0x7f000001u, a.port, 0);
				a.holed = false;
			}
			evlog("blackhole %s %s", a.url.c_str(), a.holed ? "on" : "off");
			sim_probe("c14_blackhole_toggled");
			break;
		}
		case 16: { // misbehaving raw client
			std::vector<int> c;
			for (auto &a : w->addrs)
				if (!a.dead && a.state == A_UP && !a.holed && (a.tr == TR_TCP || a.tr == TR_IPC || a.tr == TR_WS))
					c.push_back(a.idx);
			if (c.empty())
				break;
			do_raw_abort(w, w->addrs[(size_t) c[(size_t) W(0, (long) c.size() - 1)]]);
			break;
		}
		case 17:
		case 18: { // close a listener while a dialer is in the middle of connecting to it
			std::vector<DRec *> c;
			for (auto d : w->dialers) {
				ARec &a = w->addrs[(size_t) d->addr];
				if (d->background && !d->closing && !d->closed && !w->socks[(size_t) d->sock]->closing &&
				    a.state == A_UP && !a.holed && a.tr != TR_INPROC && a.owner >= 0 &&
				    !w->socks[(size_t) a.owner]->closing)
					c.push_back(d);
			}
			if (c.empty() || !steps_left(w))
				break;
			DRec *d = c[(size_t) W(0, (long) c.size() - 1)];
			LRec *l = NULL;
			for (auto x : w->listeners)
				if (x->addr == d->addr && x->open && !x->closing)
					l = x;
			if (l == NULL)
				break;
			w->snipe_addr = d->addr;
			w->snipe_flag = 0;
			evlog("snipe: wait for a connect() of d%d, then close l%d", d->idx, l->idx);
			if (d->live_pipe != 0) {
				nng_pipe p;
				p.id = (uint32_t) d->live_pipe;
				nng_pipe_close(p);
			}
			uint64_t tmo = d->rt_ns + 200 * MS;
			if (tmo > 2 * SEC)
				tmo = 2 * SEC;
			// in slices, so that an expensive background (ws handshakes
			// byte by byte) cannot eat the whole step budget here
			int      got = -1;
			uint64_t end = sim_now_ns() + tmo;
			while (got != 0 && sim_now_ns() < end && steps_left(w)) {
				uint64_t left = end - sim_now_ns();
				got = sim_wait_flag(&w->snipe_flag, left > 50 * MS ? 50 * MS : left);
			}
			w->snipe_addr = -1;
			if (got != 0)
				break;
			sim_sleep_ns((uint64_t) W(0, 8) * 100000 + (W(0, 2) == 2 ? w->conn_delay : 0));
			if (l->open && !l->closing) {
				sim_probe("c14_listener_closed_during_connect");
				run_op(w, 0, l->idx, async);
			}
			break;
		}
		default: { // start a dialer that was only created, or retry a failed sync start
			std::vector<DRec *> c;
			for (auto d : w->dialers)
				if (!d->started && !d->closing && !d->closed)
					c.push_back(d);
			if (c.empty())
				break;
			DRec *d = c[(size_t) W(0, (long) c.size() - 1)];
			dialer_try_start(w, d, true);
			break;
		}
		}
	}

	// let the asynchronous operations finish
	wait_async(w);
	long patience = p->draw("patience", 0, 3);
	if (patience != 3)
		wait_obligations(w);
	else
		world_sleep(w, (uint64_t) W(0, 20) * MS);
	ob_check_expired(w);

	// listener liveness; the extra dialers make connect() attribution
	// ambiguous, so the redial bookkeeping ends here
	for (auto &o : w->obs)
		o.open = false;
	w->tracking_off = true;
	check_listeners_alive(w);

	// tear down: endpoints and sockets in a drawn order, some concurrently
	long teardown = W(0, 3);
	if (teardown >= 2) {
		for (auto d : w->dialers)
			if (!d->closing && !d->closed && W(0, 1))
				run_op(w, 1, d->idx, teardown == 3);
		for (auto l : w->listeners)
			if (l->open && !l->closing && W(0, 1))
				run_op(w, 0, l->idx, teardown == 3);
	}
	auto os = open_socks(w);
	while (!os.empty()) {
		size_t k = (size_t) W(0, (long) os.size() - 1);
		run_op(w, 2, os[k]->idx, teardown == 1 || teardown == 3);
		os.erase(os.begin() + (long) k);
	}
	wait_async(w);
	w->stop_recv   = 1;
	w->closer_stop = 1;
	w->closer_flag = 1;
	sim_join_all();
	simnet_set_connect_hook(NULL);

	// words seen (observation only) and the end-of-run form of the order clause
	for (auto &kv : w->pipes) {
		PipeRec &r = kv.second;
		switch (r.evs) {
		case E_PRE:
			sim_probe("c14_word_pre");
			break;
		case E_PRE | E_REM:
			sim_probe("c14_word_pre_rem");
			break;
		case E_PRE | E_POST | E_REM:
			sim_probe("c14_word_pre_post_rem");
			break;
		default:
			// PRE.POST without REM after every socket was closed
			VIOL("no_rem_by_close", "pipe %08x of socket %d ended the run with events %s", (unsigned) r.id,
			    r.sock, word(r.evs).c_str());
		}
	}
	if (!w->pipes.empty())
		sim_stat("nontrivial", 1);
	sim_stat("pipes", (int64_t) w->pipes.size());

	// listeners/dialers that were closed individually still hold handles? no:
	// nng frees them on close.  Free the harness records.
	g_w = NULL;
	for (auto s : w->socks)
		delete s;
	for (auto l : w->listeners)
		delete l;
	for (auto d : w->dialers)
		delete d;
	delete w;
}

static void
events_cfg(sim_config *cfg, Params *p)
{
	long net = p->draw("net", 0, 4);
	if (net == 1) {
		cfg->seg_mode = 3;
	} else if (net == 2) {
		cfg->seg_mode   = 2;
		cfg->seg_k      = 7;
		cfg->lat_min_ns = 10000;
		cfg->lat_max_ns = 2000000;
	} else if (net == 3) {
		cfg->seg_mode = 1;
		cfg->eagain_p = 0.05;
	} else if (net == 4) {
		cfg->lat_min_ns = 1000000;
		cfg->lat_max_ns = 30000000;
	}
	// dialers that never sleep are only drawn together with the fair
	// (random walk) scheduler
	if (p->draw("spin", 0, 5) == 5) {
		p->set("c14_spin", 1);
		cfg->strategy = 0;
		if (cfg->switch_p < 0.1)
			cfg->switch_p = 0.1;
	}
	long cd = p->draw("conndelay", 0, 3);
	cfg->conn_delay_max_ns = cd == 0 ? 0 : cd == 1 ? 200000 : cd == 2 ? 5000000 : 80000000;
	long ae = p->draw("accepterr", 0, 4);
	cfg->accept_err_p = ae <= 2 ? 0 : ae == 3 ? 0.1 : 0.3;
	// now and then a unix-domain connect finds the listener's backlog full (EAGAIN): a failed dial like any other
	cfg->unix_backlog_full_p = p->draw("backlogfull", 0, 3) == 3 ? 0.25 : 0;
	cfg->max_steps    = 1200000;
	cfg->max_virtual_ns = 3600ull * SEC;
	p->set("c14_conn_delay_ns", (long) cfg->conn_delay_max_ns);
	p->set("c14_lat_max_ns", (long) cfg->lat_max_ns);
	// either fault makes a dial to a reachable listener fail through no fault of the library: clause C (a pipe
	// within one redial period of the listener becoming reachable) is not asserted then
	p->set("c14_accept_faults", (cfg->accept_err_p > 0 || cfg->unix_backlog_full_p > 0) ? 1 : 0);
}

SCENARIO(c14_events, "C14", events_cfg, events_run);

} // namespace
