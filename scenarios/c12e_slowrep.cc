// C12 (fifth file).
//
// c12_slowrep: one REQ socket connected to two repliers that never lose their
// connections.  Each replier is either silent (reads requests, never answers:
// a hung peer) or slow: it answers a copy only after a delay that is usually
// longer than NNG_OPT_REQ_RESENDTIME, i.e. after the timed retransmission has
// already gone out over the other connection (and, tick after tick, over the
// two connections in turn).  A slow replier answers every copy it got, or
// only the first one or two copies of a request.  No fault is injected at
// all: the connections stay up, nothing is dropped or altered on the way.
//
// Oracle clauses and the phrase of the statement each one asserts:
//
//   reply_never_arrived  "as long as some replier eventually becomes reachable
//                        and answers, the requester's receive eventually
//                        succeeds with a reply to that request": from the
//                        moment the first answer to a request (the echo of
//                        one of its copies, routed back by the copy's own
//                        header, so it carries the request's id) has been
//                        handed to a replier's socket, the receive has to
//                        complete within B = 500 ms + 4 x the largest segment
//                        latency of the run (virtual time, no thread stalls
//                        in this scenario).  "Eventually" is checked as this
//                        bound, as everywhere in C12 (plans.py, assumptions).
//   recv_failed          same phrase ("the receive eventually succeeds"): the
//                        receive has no time-out, nothing is cancelled or
//                        replaced, resending is enabled, so any error result
//                        contradicts it.
//   wrong_reply          "... succeeds with a reply to that request": the
//                        body delivered is the echo of this client's current
//                        request, not of an earlier one or of another client.
//   request_altered      "An outstanding request is retransmitted": what a
//                        replier reads is one of the requests that were made.
//
// Not asserted, only counted (sim_probe): how many copies were made, which
// replier got the first one, whether an answer came from the replier that did
// not hold the latest copy, whether a request had to be rescued (see `force`).
#include "../harness/util.h"

#include <algorithm>

namespace {

#define MS 1000000ull
#define SR_MAXC 3
#define SR_MAXR 3 // serial numbers 1..2

enum { SR_SILENT = 0, SR_SLOW = 1 };

struct SrWorld;

struct SrPending {
	uint64_t due;
	nng_msg *m;
	int      client;
	uint32_t serial;
	int      copy;
};

struct SrRep {
	SrWorld               *w;
	int                    k;
	nng_socket             s;
	int                    mode;
	uint64_t               delay_ns;
	int                    nans; // answers the first nans copies it gets of a request
	int                    got[SR_MAXC][SR_MAXR];
	int                    answered;
	std::vector<SrPending> q;
};

struct SrClient {
	int      idx;
	bool     is_sock;
	nng_ctx  ctx;
	int      rounds;
	uint32_t serial; // current request
	int      state;  // 0 idle, 1 sending, 2 receiving, 3 finished
	uint64_t t_start; // state 0: when to make the next request
	uint64_t t_req, t_recv; // request submitted / receive submitted
	UAio    *snd, *rcv;
};

struct SrWorld {
	nng_socket   req;
	SrRep        rep[2];
	volatile int stop;
	int          nclients;
	SrClient     cl[SR_MAXC];
	// per request
	uint64_t t_ans[SR_MAXC][SR_MAXR];   // first answer handed to a replier's socket
	int      ans_by[SR_MAXC][SR_MAXR];  // by which replier
	int      last_at[SR_MAXC][SR_MAXR]; // replier that read the latest copy
	int      first_at[SR_MAXC][SR_MAXR];
	int      copies[SR_MAXC][SR_MAXR];
	int      ans_count[SR_MAXC][SR_MAXR];
	bool     force[SR_MAXC]; // nobody has answered for a long time: answer this client's next copy at once
};

static void
sr_send_due(SrRep *r)
{
	SrWorld *w = r->w;
	for (;;) {
		uint64_t now  = sim_now_ns();
		size_t   best = r->q.size();
		for (size_t i = 0; i < r->q.size(); i++)
			if (r->q[i].due <= now && (best == r->q.size() || r->q[i].due < r->q[best].due))
				best = i;
		if (best == r->q.size())
			return;
		SrPending pe = r->q[best];
		r->q.erase(r->q.begin() + (long) best);
		// raw REP: the header of the copy routes the answer back
		int rv = nng_sendmsg(r->s, pe.m, 0);
		if (rv != 0) {
			nng_msg_free(pe.m);
			h_fatal("replier %d: sending an answer failed: %d", r->k, rv);
		}
		r->answered++;
		w->ans_count[pe.client][pe.serial]++;
		if (w->t_ans[pe.client][pe.serial] == 0) {
			w->t_ans[pe.client][pe.serial]  = sim_now_ns();
			w->ans_by[pe.client][pe.serial] = r->k;
			if (w->last_at[pe.client][pe.serial] != r->k)
				sim_probe("c12_slowrep_first_answer_not_from_holder_of_latest_copy");
		}
		sim_event("replier %d answers client %d request %u (its copy %d); latest copy was read by replier %d", r->k, pe.client,
		    pe.serial, pe.copy, w->last_at[pe.client][pe.serial]);
	}
}

static void
sr_replier(void *a)
{
	SrRep   *r = (SrRep *) a;
	SrWorld *w = r->w;
	while (!w->stop) {
		sr_send_due(r);
		uint64_t now  = sim_now_ns();
		uint64_t wait = 20;
		for (auto &pe : r->q) {
			uint64_t d = pe.due > now ? (pe.due - now + MS - 1) / MS : 1;
			if (d < 1)
				d = 1;
			wait = std::min(wait, d);
		}
		MUST(nng_socket_set_ms(r->s, NNG_OPT_RECVTIMEO, (nng_duration) wait));
		nng_msg *m = NULL;
		if (nng_recvmsg(r->s, &m, 0) != 0)
			continue;
		Tag t = tag_parse((const uint8_t *) nng_msg_body(m), nng_msg_len(m));
		if (!t.ok || t.origin < 1 || t.origin > (uint16_t) w->nclients || t.serial < 1 || t.serial >= SR_MAXR ||
		    t.serial > w->cl[t.origin - 1].serial) {
			nng_msg_free(m);
			VIOL("request_altered", "replier %d read something that is not one of the requests made", r->k);
		}
		int      c  = t.origin - 1;
		uint32_t sn = t.serial;
		int      n  = ++r->got[c][sn];
		if (w->copies[c][sn]++ == 0)
			w->first_at[c][sn] = r->k;
		w->last_at[c][sn] = r->k;
		sim_event("replier %d reads client %d request %u (copy %d here, %d in all)", r->k, c, sn, n, w->copies[c][sn]);
		if (w->force[c] && sn == w->cl[c].serial) {
			r->q.push_back(SrPending{ sim_now_ns(), m, c, sn, n });
			continue;
		}
		if (r->mode == SR_SILENT || n > r->nans) {
			nng_msg_free(m);
			continue;
		}
		r->q.push_back(SrPending{ sim_now_ns() + r->delay_ns, m, c, sn, n });
	}
	for (auto &pe : r->q)
		nng_msg_free(pe.m);
	r->q.clear();
}

static void
sr_cfg(sim_config *cfg, Params *p)
{
	static const uint64_t lats[] = { 0, 200000, 2000000 };
	cfg->stall_p                 = 0; // the bound below is in plain virtual time
	cfg->lat_min_ns              = 0;
	cfg->lat_max_ns              = lats[p->draw("lat", 0, 2)];
	p->set("lat_max_ns_", (long) cfg->lat_max_ns);
}

static void
sr_submit(SrWorld *w, SrClient *c)
{
	c->serial++;
	c->t_req = sim_now_ns();
	nng_aio_set_msg(c->snd->aio, tag_msg(40, (uint16_t) (c->idx + 1), 0, c->serial));
	nng_aio_set_timeout(c->snd->aio, 20000);
	c->snd->arm("slowrep_send");
	sim_event("client %d: request %u", c->idx, c->serial);
	if (c->is_sock)
		nng_socket_send(w->req, c->snd->aio);
	else
		nng_ctx_send(c->ctx, c->snd->aio);
	c->state = 1;
}

static void
sr_run(Params *p)
{
	static const nng_duration rss[]   = { 40, 100, 200 };
	static const nng_duration ticks[] = { 30, 10, 100, 400 };
	SrWorld                  *w       = new SrWorld();
	w->stop                           = 0;
	w->nclients                       = 0;
	memset(w->t_ans, 0, sizeof(w->t_ans));
	memset(w->ans_by, 0, sizeof(w->ans_by));
	memset(w->last_at, 0xff, sizeof(w->last_at));
	memset(w->first_at, 0xff, sizeof(w->first_at));
	memset(w->copies, 0, sizeof(w->copies));
	memset(w->ans_count, 0, sizeof(w->ans_count));
	memset(w->force, 0, sizeof(w->force));
	nng_duration rs   = rss[W(0, 2)];
	nng_duration tick = ticks[W(0, 3)];
	int          tr   = (int) p->draw("tr", 0, 2);
	bool         req_listens = p->draw("flip", 0, 1) != 0;
	uint64_t     lat_max     = (uint64_t) p->i("lat_max_ns_", 0);
	uint64_t     B           = 500 * MS + 4 * lat_max;

	MUST(nng_req0_open(&w->req));
	MUST(nng_socket_set_ms(w->req, NNG_OPT_REQ_RESENDTIME, rs));
	MUST(nng_socket_set_ms(w->req, NNG_OPT_REQ_RESENDTICK, tick));
	// the repliers: at least one of them answers
	int  slow       = (int) W(0, 1); // this one is slow for certain
	int  other_mode = (int) W(0, 2); // 0 silent, 1/2 slow as well
	bool any_long   = false;
	for (int k = 0; k < 2; k++) {
		SrRep *r = &w->rep[k];
		r->w     = w;
		r->k     = k;
		memset(r->got, 0, sizeof(r->got));
		r->answered = 0;
		r->mode     = (k == slow || other_mode != 0) ? SR_SLOW : SR_SILENT;
		long kind   = W(0, 3);
		long d_ms;
		if (kind == 3)
			d_ms = W(0, rs); // may answer before the resend time
		else if (kind == 2)
			d_ms = rs + W(3 * tick, 10 * tick); // much later
		else
			d_ms = rs + W(0, 3 * tick); // after the first timed retransmission(s)
		r->delay_ns = (uint64_t) d_ms * MS + (uint64_t) W(0, 999) * 1000;
		long na     = W(0, 2);
		r->nans     = na == 0 ? 1000 : (int) na; // every copy / the first / the first two
		if (r->mode == SR_SLOW && d_ms > rs)
			any_long = true;
		MUST(nng_rep0_open_raw(&r->s));
		MUST(nng_socket_set_ms(r->s, NNG_OPT_SENDTIMEO, 1000));
	}
	std::string url0 = h_url(tr, 64), url1 = h_url(tr, 65);
	int         first_dial = (int) W(0, 1); // which connection is made first
	if (req_listens) {
		MUST(nng_listen(w->req, url0.c_str(), NULL, 0));
		MUST(nng_dial(w->rep[first_dial].s, url0.c_str(), NULL, 0));
		MUST(nng_dial(w->rep[1 - first_dial].s, url0.c_str(), NULL, 0));
	} else {
		MUST(nng_listen(w->rep[0].s, url0.c_str(), NULL, 0));
		MUST(nng_listen(w->rep[1].s, url1.c_str(), NULL, 0));
		MUST(nng_dial(w->req, first_dial == 0 ? url0.c_str() : url1.c_str(), NULL, 0));
		MUST(nng_dial(w->req, first_dial == 0 ? url1.c_str() : url0.c_str(), NULL, 0));
	}
	sim_quiesce(20 * MS); // both connections are up before the first request
	w->nclients = 1 + (int) W(0, 2);
	for (int i = 0; i < w->nclients; i++) {
		SrClient *c = &w->cl[i];
		c->idx      = i;
		c->is_sock  = i == 0 && W(0, 1) == 0;
		c->rounds   = 1 + (int) W(0, 1);
		c->serial   = 0;
		c->state    = 0;
		if (!c->is_sock)
			MUST(nng_ctx_open(&c->ctx, w->req));
		c->snd = new UAio();
		c->rcv = new UAio();
	}
	sim_event("c12_slowrep tr=%s resend %d tick %d, %d client(s), %s; replier 0: %s %.1f ms x%d, replier 1: %s %.1f ms x%d",
	    h_tr_name(tr), rs, tick, w->nclients, req_listens ? "requester listens" : "requester dials",
	    w->rep[0].mode == SR_SLOW ? "slow" : "silent", (double) w->rep[0].delay_ns / 1e6, w->rep[0].nans,
	    w->rep[1].mode == SR_SLOW ? "slow" : "silent", (double) w->rep[1].delay_ns / 1e6, w->rep[1].nans);
	int rt[2];
	rt[0] = sim_spawn("replier0", sr_replier, &w->rep[0], 0);
	rt[1] = sim_spawn("replier1", sr_replier, &w->rep[1], 0);
	{
		uint64_t t = sim_now_ns();
		for (int i = 0; i < w->nclients; i++) {
			w->cl[i].t_start = t;
			if (W(0, 2) == 0)
				t += (uint64_t) W(0, 2 * tick) * MS;
		}
	}
	// a request nobody has answered after this long (every copy went to the
	// silent replier, or to one that had stopped answering copies) gets its
	// next copy answered at once, so that every request of the run is judged
	uint64_t rescue = (uint64_t) (rs + 10 * tick + 2 * rs + 300) * MS;
	int      live   = w->nclients;
	bool     late_answer_seen = false;
	while (live > 0) {
		sim_sleep_ns(2 * MS);
		uint64_t now = sim_now_ns();
		for (int i = 0; i < w->nclients; i++) {
			SrClient *c = &w->cl[i];
			if (c->state == 0 && now >= c->t_start)
				sr_submit(w, c);
			if (c->state == 1 && c->snd->poll()) {
				if (c->snd->result != 0) {
					nng_msg_free(nng_aio_get_msg(c->snd->aio));
					h_fatal("client %d: send of a request with two idle connections failed: %d", i, (int) c->snd->result);
				}
				nng_aio_set_timeout(c->rcv->aio, NNG_DURATION_INFINITE);
				c->rcv->arm("slowrep_recv");
				if (c->is_sock)
					nng_socket_recv(w->req, c->rcv->aio);
				else
					nng_ctx_recv(c->ctx, c->rcv->aio);
				c->t_recv = sim_now_ns();
				c->state  = 2;
			}
			if (c->state == 2 && c->rcv->poll()) {
				uint32_t sn = c->serial;
				if (c->rcv->result != 0)
					VIOL("recv_failed",
					    "client %d request %u: the receive (no time-out, nothing cancelled, resend time %d ms) failed with %d (%s)", i,
					    sn, rs, (int) c->rcv->result, nng_strerror(c->rcv->result));
				nng_msg *m = nng_aio_get_msg(c->rcv->aio);
				Tag      t = tag_parse((const uint8_t *) nng_msg_body(m), nng_msg_len(m));
				nng_msg_free(m);
				if (!t.ok || t.origin != (uint16_t) (i + 1) || t.serial != sn)
					VIOL("wrong_reply", "client %d request %u received a reply that is not the echo of that request (origin %u serial %u)",
					    i, sn, (unsigned) t.origin, (unsigned) t.serial);
				if (w->copies[i][sn] >= 2) {
					sim_probe("c12_slowrep_answered_after_retransmission");
					if (w->t_ans[i][sn] > c->t_req + (uint64_t) rs * MS)
						late_answer_seen = true;
				}
				if (w->copies[i][sn] >= 4)
					sim_probe("c12_slowrep_four_or_more_copies");
				if (w->first_at[i][sn] != w->ans_by[i][sn])
					sim_probe("c12_slowrep_answer_from_the_replier_of_a_later_copy");
				sim_event("client %d: reply to request %u after %.1f ms, %d copies", i, sn, (double) (now - c->t_req) / 1e6,
				    w->copies[i][sn]);
				w->force[i] = false;
				if ((int) c->serial < c->rounds) {
					c->state   = 0;
					c->t_start = now + (W(0, 1) ? (uint64_t) W(0, tick) * MS : 0);
				} else {
					c->state = 3;
					live--;
				}
				continue;
			}
			if (c->state == 1 || c->state == 2) {
				uint32_t sn = c->serial;
				uint64_t ta = w->t_ans[i][sn];
				// the bound runs from the answer, or from the receive if that was made later
				uint64_t t0 = c->state == 2 ? std::max(ta, c->t_recv) : 0;
				now         = sim_now_ns();
				if (ta != 0 && t0 != 0 && now > t0 && now - t0 > B) {
					VIOL("reply_never_arrived",
					    "client %d request %u: replier %d answered it %.1f ms ago and the receive was made %.1f ms ago (%d answer(s) sent so far, both connections up since "
					    "before the request, nothing dropped), yet the receive has not completed; %d copies were read, the first by "
					    "replier %d, the latest by replier %d (resend time %d ms, tick %d ms; replier 0 %s %.1f ms, replier 1 %s %.1f ms)",
					    i, sn, w->ans_by[i][sn], (double) (now - ta) / 1e6, (double) (now - c->t_recv) / 1e6, w->ans_count[i][sn], w->copies[i][sn], w->first_at[i][sn],
					    w->last_at[i][sn], rs, tick, w->rep[0].mode == SR_SLOW ? "slow" : "silent", (double) w->rep[0].delay_ns / 1e6,
					    w->rep[1].mode == SR_SLOW ? "slow" : "silent", (double) w->rep[1].delay_ns / 1e6);
				}
				if (ta == 0 && !w->force[i] && now - c->t_req > rescue) {
					w->force[i] = true;
					sim_probe("c12_slowrep_rescued");
					sim_event("client %d request %u: nobody has answered for %.0f ms, the next copy is answered at once", i, sn,
					    (double) (now - c->t_req) / 1e6);
				}
			}
		}
	}
	if (any_long && late_answer_seen)
		sim_stat("nontrivial", 1);
	w->stop = 1;
	sim_join(rt[0]);
	sim_join(rt[1]);
	for (int i = 0; i < w->nclients; i++) {
		SrClient *c = &w->cl[i];
		if (!c->is_sock)
			MUST(nng_ctx_close(c->ctx));
		delete c->snd;
		delete c->rcv;
	}
	MUST(nng_socket_close(w->req));
	MUST(nng_socket_close(w->rep[0].s));
	MUST(nng_socket_close(w->rep[1].s));
	delete w;
}
SCENARIO(c12_slowrep, "C12", sr_cfg, sr_run);

} // namespace
