// C08 PAIR: one peer at a time, ordered lossless exchange, hop limit.
//
// c08_fifo : PAIR0 / PAIR1 (cooked, non-poly) socket A against 1..4 candidate
//            peers.  Exactly one of them may be connected; with that one, both
//            directions must be exact FIFOs (no loss, no duplicate, no
//            reordering) for every send/receive style, buffer depth, resize
//            and reader stall.  The others must never exchange a message.
// c08_hops : PAIR1 (cooked or raw) socket against a raw wire peer that sends
//            crafted hop headers; model from the statement.
#include "../harness/util.h"

#include <arpa/inet.h>
#include <errno.h>
#include <netinet/in.h>
#include <sys/socket.h>
#include <sys/un.h>
#include <unistd.h>

#include <set>

namespace {

// --------------------------------------------------------------------------
// pipe monitor: "connected to at most one peer at a time"
struct PipeMon {
	const char             *name;
	bool                    enforce;
	int                     active, add_pre, add_post, rem_post, refused;
	std::map<uint32_t, int> last; // pipe id -> last event seen
};

static void
pipe_cb(nng_pipe p, nng_pipe_ev ev, void *arg)
{
	PipeMon *m  = (PipeMon *) arg;
	uint32_t id = (uint32_t) nng_pipe_id(p);
	switch (ev) {
	case NNG_PIPE_EV_ADD_PRE:
		m->add_pre++;
		m->last[id] = ev;
		break;
	case NNG_PIPE_EV_ADD_POST:
		m->add_post++;
		m->active++;
		m->last[id] = ev;
		sim_event("%s pipe %u connected (active=%d)", m->name, id, m->active);
		if (m->enforce && m->active > 1)
			VIOL("two_peers_connected",
			    "%s: pipe %u became connected while another pipe was still "
			    "connected (%d connected pipes)",
			    m->name, id, m->active);
		break;
	case NNG_PIPE_EV_REM_POST:
		m->rem_post++;
		if (m->last[id] == NNG_PIPE_EV_ADD_POST) {
			m->active--;
			sim_event("%s pipe %u disconnected (active=%d)", m->name, id, m->active);
		} else {
			m->refused++;
			sim_probe("c08_pipe_refused");
			sim_event("%s pipe %u refused", m->name, id);
		}
		m->last[id] = ev;
		break;
	default:
		break;
	}
}

static void
mon_attach(PipeMon *m, nng_socket s, const char *name, bool enforce)
{
	m->name    = name;
	m->enforce = enforce;
	m->active = m->add_pre = m->add_post = m->rem_post = m->refused = 0;
	MUST(nng_pipe_notify(s, NNG_PIPE_EV_ADD_PRE, pipe_cb, m));
	MUST(nng_pipe_notify(s, NNG_PIPE_EV_ADD_POST, pipe_cb, m));
	MUST(nng_pipe_notify(s, NNG_PIPE_EV_REM_POST, pipe_cb, m));
}

// virtual time since t0 not counting injected stalls
struct Stopwatch {
	uint64_t t0, s0;
	void
	start()
	{
		t0 = sim_now_ns();
		s0 = sim_stall_total_ns();
	}
	uint64_t
	ns() const
	{
		uint64_t dt = sim_now_ns() - t0, ds = sim_stall_total_ns() - s0;
		return dt > ds ? dt - ds : 0;
	}
};

static int
open_pair(int ver, nng_socket *s)
{
	return ver == 0 ? nng_pair0_open(s) : nng_pair1_open(s);
}

enum { ORG_A = 1, ORG_CAND = 10, ORG_WIRE = 40 };
enum { ST_DATA = 0, ST_HELLO = 9, ST_EXTRA = 7, ST_TAKEOVER = 8 };

// --------------------------------------------------------------------------
// c08_fifo
struct World;

struct Cand {
	World       *w;
	int          idx;
	nng_socket   s;
	bool         open;
	uint16_t     origin;
	std::string  url;   // its own listen url when A is the dialling side
	UAio        *guard; // pending receive that must never yield a message
	volatile int got;   // guard completed
	PipeMon      mon;
};

struct Dir {
	World      *w;
	const char *name;
	nng_socket  from, to;
	uint16_t    origin;     // tag origin of the sender
	int         n;          // messages to transfer
	int         smode;      // 0 blocking, 1 timed+retry, 2 nonblock+retry, 3 aio window
	int         rmode;      // 0 blocking(poll timeout), 1 nonblock poll, 2 aio
	int         window;
	int         stall_first_ms; // receiver sleeps before its first receive
	// state
	int               offered;  // serials 0..offered-1 have been passed to send at least once
	int               accepted; // sends that reported success
	bool              sender_done;
	std::vector<char> seen;
	int               received;
	int               max_seen;
	bool              gap;      // a serial arrived while a lower one was still missing
	// A buffer on this direction's path was shrunk: property C18 lets a shrink
	// discard whole queued messages, so serials offered before the (last)
	// shrink may be missing; everything else must still be in order, once.
	int               lossy_below;
	bool              grown;    // the sender's send buffer was enlarged
	volatile int      stop;
};

struct World {
	int               ver, tr, role, contend;
	nng_socket        A;
	std::string       urlA;
	PipeMon           monA;
	std::vector<Cand> cands;
	int               winner;
	Dir               d[2];
	int               buf[4]; // current depth: A.send A.recv W.send W.recv
	bool              allow_shrink;
	int               delivered;
	int               maxlen; // upper bound for the occasional large message
};

static void
guard_done(UAio *u)
{
	Cand *c = (Cand *) u->user;
	c->got  = 1;
}

static void
cand_post_guard(Cand &c)
{
	c.got   = 0;
	c.guard = new UAio();
	nng_aio_set_timeout(c.guard->aio, NNG_DURATION_INFINITE);
	c.guard->on_done = guard_done;
	c.guard->user    = &c;
	c.guard->arm("guard_recv");
	nng_socket_recv(c.s, c.guard->aio);
}

static void
cand_start(World &w, int i, bool sync)
{
	Cand &c = w.cands[(size_t) i];
	MUST(open_pair(w.ver, &c.s));
	c.open = true;
	MUST(nng_socket_set_int(c.s, NNG_OPT_SENDBUF, (int) W(0, 4)));
	MUST(nng_socket_set_int(c.s, NNG_OPT_RECVBUF, (int) W(0, 4)));
	if (W(0, 2) == 1) {
		MUST(nng_socket_set_ms(c.s, NNG_OPT_RECONNMINT, 25));
		MUST(nng_socket_set_ms(c.s, NNG_OPT_RECONNMAXT, 25));
	}
	char nm[16];
	snprintf(nm, sizeof(nm), "C%d", i);
	mon_attach(&c.mon, c.s, strdup(nm), true);
	cand_post_guard(c);
	int rv;
	if (w.role == 0) {
		rv = nng_dial(c.s, w.urlA.c_str(), NULL, sync ? 0 : NNG_FLAG_NONBLOCK);
	} else {
		MUST(nng_listen(c.s, c.url.c_str(), NULL, 0));
		rv = nng_dial(w.A, c.url.c_str(), NULL, sync ? 0 : NNG_FLAG_NONBLOCK);
	}
	sim_event("candidate %d starts (%s, %s dial) rv=%d", i, w.role == 0 ? "dials A" : "A dials it",
	    sync ? "sync" : "async", rv);
	if (rv != 0)
		sim_probe("c08_extra_dial_error");
}

// an unconnected / refused candidate also tries to talk
static void
cand_chatter(World &w, int i)
{
	Cand    &c = w.cands[(size_t) i];
	nng_msg *m = tag_msg((size_t) W(TAG_MIN, 40), c.origin, ST_EXTRA, 0);
	int      rv = nng_sendmsg(c.s, m, NNG_FLAG_NONBLOCK);
	if (rv != 0)
		nng_msg_free(m);
	sim_event("candidate %d (not the peer) sends: rv=%d", i, rv);
}

// the guard of a candidate that is not the peer must still be pending
static void
cand_check_silent(World &w, int i, const char *when)
{
	Cand &c = w.cands[(size_t) i];
	if (!c.open || c.guard == NULL)
		return;
	if (c.got && c.guard->result == 0) {
		nng_msg *m = nng_aio_get_msg(c.guard->aio);
		Tag      t = tag_parse((uint8_t *) nng_msg_body(m), nng_msg_len(m));
		nng_msg_free(m);
		VIOL("message_to_refused_peer",
		    "candidate %d is not A's peer (peer is %d) but received a message "
		    "(origin %u stream %u serial %u) %s",
		    i, w.winner, t.origin, t.stream, t.serial, when);
	}
}

static void
check_incoming(Dir *d, nng_msg *m)
{
	World &w = *d->w;
	Tag    t = tag_parse((uint8_t *) nng_msg_body(m), nng_msg_len(m));
	size_t len = nng_msg_len(m);
	std::string hx = t.ok ? "" : h_hex((uint8_t *) nng_msg_body(m), len, 24);
	nng_msg_free(m);
	if (!t.ok)
		VIOL("altered_message", "%s: received a %zu-byte message that was never sent (%s)", d->name, len,
		    hx.c_str());
	if (t.origin != d->origin) {
		if (t.origin >= ORG_CAND && t.origin < ORG_CAND + 8)
			VIOL("message_from_refused_peer",
			    "%s: received a message of candidate %d although the connected "
			    "peer is candidate %d",
			    d->name, t.origin - ORG_CAND, w.winner);
		VIOL("altered_message", "%s: message with origin %u", d->name, t.origin);
	}
	if (t.stream != ST_DATA || (int) t.serial >= d->n)
		VIOL("altered_message", "%s: unexpected stream %u serial %u", d->name, t.stream, t.serial);
	int s = (int) t.serial;
	sim_event("%s recv serial %d", d->name, s);
	if (s >= d->offered)
		VIOL("altered_message", "%s: serial %d received before it was sent", d->name, s);
	if (d->seen[(size_t) s])
		VIOL("duplicate_delivery", "%s: serial %d delivered twice", d->name, s);
	if (s < d->max_seen)
		VIOL("reordered", "%s: serial %d delivered after serial %d (send order was by serial%s)", d->name, s,
		    d->max_seen, d->grown ? "; the send buffer was enlarged while sends were outstanding" : "");
	if (s != d->max_seen + 1)
		d->gap = true; // decided at the end: lost (or, if it shows up, caught above)
	d->seen[(size_t) s] = 1;
	d->max_seen         = s;
	d->received++;
	w.delivered++;
	sim_stat("delivered", 1);
}

static void
sender_task(void *arg)
{
	Dir      *d = (Dir *) arg;
	Stopwatch sw;
	if (d->smode == 3) {
		std::vector<UAio *> win((size_t) d->window);
		std::vector<char>   busy((size_t) d->window, 0);
		for (auto &u : win)
			u = new UAio();
		auto reap = [&](size_t k) {
			UAio *u = win[k];
			if (!busy[k])
				return;
			if (u->wait((uint64_t) H_TMO_MS * 2000000ull) == (nng_err) -1)
				VIOL("send_stuck", "%s: asynchronous send never completed", d->name);
			if (u->result != 0) {
				nng_msg_free(nng_aio_get_msg(u->aio));
				VIOL(u->result == NNG_ETIMEDOUT ? "send_stuck" : "send_failed",
				    "%s: asynchronous send failed with %d (%s) while the "
				    "connection was up and the peer was reading",
				    d->name, u->result, nng_strerror(u->result));
			}
			busy[k] = 0;
			d->accepted++;
		};
		for (int i = 0; i < d->n; i++) {
			size_t k = (size_t) (i % d->window);
			UAio  *u = win[k];
			reap(k);
			nng_msg *m = tag_msg((size_t) W(TAG_MIN, W(0, 5) == 0 ? d->w->maxlen : 48), d->origin, ST_DATA, (uint32_t) i);
			nng_aio_set_msg(u->aio, m);
			nng_aio_set_timeout(u->aio, H_TMO_MS);
			d->offered = i + 1;
			sim_event("%s send serial %d (aio slot %zu)", d->name, i, k);
			u->arm("pair_send");
			busy[k] = 1;
			nng_socket_send(d->from, u->aio);
			if (W(0, 3) == 0)
				sim_sleep_ns((uint64_t) W(0, 3000) * 1000);
		}
		for (size_t k = 0; k < win.size(); k++)
			reap(k);
		for (auto u : win)
			delete u;
		d->sender_done = true;
		return;
	}
	for (int i = 0; i < d->n; i++) {
		size_t len = (size_t) W(TAG_MIN, W(0, 5) == 0 ? d->w->maxlen : 48);
		d->offered = i + 1;
		sw.start();
		for (int attempt = 0;; attempt++) {
			nng_msg *m  = tag_msg(len, d->origin, ST_DATA, (uint32_t) i);
			int      rv = nng_sendmsg(d->from, m, d->smode == 2 ? NNG_FLAG_NONBLOCK : 0);
			sim_event("%s send serial %d len %zu rv=%d", d->name, i, len, rv);
			if (rv == 0)
				break;
			nng_msg_free(m); // a failed send leaves the message with the caller
			if (d->smode == 1 && rv == NNG_ETIMEDOUT) {
				sim_probe("c08_send_timeout");
			} else if (d->smode == 2 && rv == NNG_EAGAIN) {
				sim_probe("c08_send_eagain");
				sim_sleep_ns((uint64_t) W(100, 3000) * 1000);
			} else {
				VIOL(rv == NNG_ETIMEDOUT ? "send_stuck" : "send_failed",
				    "%s: send of serial %d failed with %d (%s) while the "
				    "connection was up and the peer was reading",
				    d->name, i, rv, nng_strerror((nng_err) rv));
			}
			if (sw.ns() > 30000000000ull)
				VIOL("send_stuck",
				    "%s: serial %d not accepted after %d attempts over 30 s "
				    "although the peer is reading",
				    d->name, i, attempt + 1);
		}
		d->accepted++;
		if (W(0, 3) == 0)
			sim_sleep_ns((uint64_t) W(0, 3000) * 1000);
	}
	d->sender_done = true;
}

static void
receiver_task(void *arg)
{
	Dir *d = (Dir *) arg;
	if (d->stall_first_ms > 0) {
		sim_event("%s reader not reading for %d ms", d->name, d->stall_first_ms);
		sim_probe("c08_reader_stalled");
		sim_sleep_ms((uint64_t) d->stall_first_ms);
	}
	while (d->received < d->n && !d->stop) {
		if (W(0, 9) == 0) {
			long ms = W(1, 40);
			sim_event("%s reader pauses %ld ms", d->name, ms);
			sim_sleep_ms((uint64_t) ms);
		}
		nng_msg *m  = NULL;
		int      rv;
		if (d->rmode == 2) {
			// a fresh aio per receive: re-using one with short timeouts runs
			// into the known C02 stale-expiry race, which is not C08's business
			UAio u;
			nng_aio_set_timeout(u.aio, 50);
			u.arm("pair_recv");
			nng_socket_recv(d->to, u.aio);
			u.wait(0);
			rv = u.result;
			if (rv == 0)
				m = nng_aio_get_msg(u.aio);
		} else if (d->rmode == 1) {
			rv = nng_recvmsg(d->to, &m, NNG_FLAG_NONBLOCK);
			if (rv == NNG_EAGAIN)
				sim_sleep_ns((uint64_t) W(200, 2000) * 1000);
		} else {
			rv = nng_recvmsg(d->to, &m, 0); // RECVTIMEO 50 ms
		}
		if (rv == 0)
			check_incoming(d, m);
		else if (rv != NNG_ETIMEDOUT && rv != NNG_EAGAIN)
			h_fatal("%s: receive failed with %d", d->name, rv);
	}
}

static const char *OPTN[2] = { NNG_OPT_SENDBUF, NNG_OPT_RECVBUF };

static void
do_resize(World &w)
{
	int        which = (int) W(0, 3); // A.send A.recv W.send W.recv
	int        v     = (int) W(0, 6);
	int        cur   = w.buf[which];
	nng_socket s     = which < 2 ? w.A : w.cands[(size_t) w.winner].s;
	if (v == cur)
		return;
	if (v < cur && !w.allow_shrink)
		v = cur + 1;
	// direction 0 is A -> peer: path = A.send, W.recv; direction 1: W.send, A.recv
	Dir &d = (which == 0 || which == 3) ? w.d[0] : w.d[1];
	bool shrink = v < cur;
	if (shrink) {
		sim_probe("c08_resize_shrink");
	} else {
		if ((which & 1) == 0 && d.smode == 3)
			d.grown = true;
		sim_probe("c08_resize_grow");
	}
	sim_event("resize %s %s %d -> %d", which < 2 ? "A" : "peer", (which & 1) ? "recvbuf" : "sendbuf", cur, v);
	MUST(nng_socket_set_int(s, OPTN[which & 1], v));
	if (shrink && d.offered > d.lossy_below)
		d.lossy_below = d.offered; // whatever was sent so far may have been queued
	w.buf[which] = v;
}

static void
fifo_run(Params *p)
{
	World w;
	w.ver     = (int) p->draw("ver", 0, 1);
	w.tr      = (int) p->draw("tr", 0, 2); // inproc, tcp, ipc (tr=3 forces ws: diagnostic only)
	w.role    = (int) p->draw("role", 0, 2) == 2 ? 1 : 0; // 1: A is the dialling side
	int ncand = 1 + (int) p->draw("extras", 0, 3);
	w.contend = ncand > 1 && p->draw("contend", 0, 3) == 3;
	w.allow_shrink = p->draw("shrink", 0, 3) == 3;
	w.winner    = -1;
	w.delivered = 0;
	w.maxlen    = (int) p->i("c08_maxlen", 3000);
	w.urlA      = h_url(w.tr, 1);

	MUST(open_pair(w.ver, &w.A));
	w.buf[0] = (int) W(0, 4);
	w.buf[1] = (int) W(0, 4);
	MUST(nng_socket_set_int(w.A, NNG_OPT_SENDBUF, w.buf[0]));
	MUST(nng_socket_set_int(w.A, NNG_OPT_RECVBUF, w.buf[1]));
	if (w.role == 1 && W(0, 1) == 1) {
		MUST(nng_socket_set_ms(w.A, NNG_OPT_RECONNMINT, 25));
		MUST(nng_socket_set_ms(w.A, NNG_OPT_RECONNMAXT, 25));
	}
	mon_attach(&w.monA, w.A, "A", p->i("c08_nomon", 0) == 0); // c08_nomon=1: diagnostic only
	if (w.role == 0)
		MUST(nng_listen(w.A, w.urlA.c_str(), NULL, 0));
	w.cands.resize((size_t) ncand);
	for (int i = 0; i < ncand; i++) {
		Cand &c  = w.cands[(size_t) i];
		c.w      = &w;
		c.idx    = i;
		c.open   = false;
		c.origin = (uint16_t) (ORG_CAND + i);
		c.url    = h_url(w.tr, 2 + i);
		c.guard  = NULL;
		c.got    = 0;
	}
	sim_event("c08_fifo pair%d tr=%s %s candidates=%d %s sendbuf=%d recvbuf=%d", w.ver, h_tr_name(w.tr),
	    w.role ? "A dials" : "A listens", ncand, w.contend ? "contend" : "first-established", w.buf[0], w.buf[1]);

	int started = 0;
	Stopwatch sw;
	if (w.contend) {
		sim_probe("c08_contend");
		for (int i = 0; i < ncand; i++)
			cand_start(w, i, false);
		started = ncand;
		// whoever gets A's hello is the peer
		MUST(nng_socket_set_ms(w.A, NNG_OPT_SENDTIMEO, H_TMO_MS));
		nng_msg *m = tag_msg(TAG_MIN, ORG_A, ST_HELLO, 0);
		MUST(nng_sendmsg(w.A, m, 0));
		sw.start();
		while (w.winner < 0) {
			for (int i = 0; i < ncand; i++)
				if (w.cands[(size_t) i].got)
					w.winner = i;
			if (w.winner >= 0)
				break;
			if (sw.ns() > 10000000000ull)
				sim_inconclusive("no candidate connected within 10 s");
			sim_sleep_ms(1);
		}
		Cand &c = w.cands[(size_t) w.winner];
		if (c.guard->result != 0)
			h_fatal("winner guard result %d", c.guard->result);
		nng_msg *hm = nng_aio_get_msg(c.guard->aio);
		Tag      t  = tag_parse((uint8_t *) nng_msg_body(hm), nng_msg_len(hm));
		nng_msg_free(hm);
		if (!t.ok || t.origin != ORG_A || t.stream != ST_HELLO)
			VIOL("altered_message", "hello arrived altered");
		delete c.guard;
		c.guard = NULL;
		sim_event("candidate %d is A's peer", w.winner);
	} else {
		cand_start(w, 0, true);
		started = 1;
		Cand &c = w.cands[0];
		// the guard of the peer is not wanted: its receiver task reads
		nng_aio_cancel(c.guard->aio);
		c.guard->wait(0);
		if (c.guard->result == 0)
			h_fatal("guard of candidate 0 got a message before any was sent");
		delete c.guard;
		c.guard  = NULL;
		w.winner = 0;
		sw.start();
		while (w.monA.active < 1 || c.mon.active < 1) {
			if (sw.ns() > 10000000000ull)
				sim_inconclusive("first peer not connected within 10 s");
			sim_sleep_ms(1);
		}
		sim_event("candidate 0 is connected to A");
	}
	Cand &peer = w.cands[(size_t) w.winner];
	w.buf[2] = w.buf[3] = -1; // unknown until set below
	w.buf[2] = (int) W(0, 4);
	w.buf[3] = (int) W(0, 4);
	MUST(nng_socket_set_int(peer.s, NNG_OPT_SENDBUF, w.buf[2]));
	MUST(nng_socket_set_int(peer.s, NNG_OPT_RECVBUF, w.buf[3]));

	// directions
	for (int k = 0; k < 2; k++) {
		Dir &d   = w.d[k];
		d.w      = &w;
		d.name   = k == 0 ? "A>peer" : "peer>A";
		d.from   = k == 0 ? w.A : peer.s;
		d.to     = k == 0 ? peer.s : w.A;
		d.origin = k == 0 ? (uint16_t) ORG_A : peer.origin;
		d.n      = (int) W(k == 0 ? 1 : 0, 30);
		d.smode  = (int) W(0, 3);
		d.rmode  = (int) W(0, 2);
		d.window = (int) W(2, 4);
		d.stall_first_ms = W(0, 2) == 2 ? (int) W(20, 250) : 0;
		d.offered = d.accepted = d.received = 0;
		d.max_seen = -1;
		d.gap = d.grown = false;
		d.lossy_below = 0;
		d.sender_done = false;
		d.stop        = 0;
		d.seen.assign((size_t) d.n, 0);
		int tmo = d.smode == 1 ? (int) W(1, 30) : H_TMO_MS;
		MUST(nng_socket_set_ms(d.from, NNG_OPT_SENDTIMEO, tmo));
		MUST(nng_socket_set_ms(d.to, NNG_OPT_RECVTIMEO, 50));
		sim_event("%s: n=%d sender=%s(%d) receiver=%s first_stall=%dms", d.name, d.n,
		    d.smode == 0 ? "blocking" : d.smode == 1 ? "timed" : d.smode == 2 ? "nonblock" : "aio-window",
		    d.smode == 1 ? tmo : d.window, d.rmode == 0 ? "blocking" : d.rmode == 1 ? "nonblock" : "aio",
		    d.stall_first_ms);
	}
	// in window mode only growth before the window is in use is unambiguous;
	// "grown" is only meaningful for smode 3
	for (int k = 0; k < 2; k++) {
		sim_spawn(k == 0 ? "recvP" : "recvA", receiver_task, &w.d[k], 0);
		sim_spawn(k == 0 ? "sendA" : "sendP", sender_task, &w.d[k], 0);
	}

	// seeded interference while the exchange runs
	int nops = (int) W(0, 8);
	for (int op = 0; op < nops; op++) {
		if (W(0, 2) != 0)
			sim_sleep_ns((uint64_t) W(0, 20000) * 1000);
		int kind = (int) W(0, 3);
		if (kind <= 1 && started < ncand) {
			cand_start(w, started, W(0, 3) == 3);
			sim_probe("c08_extra_started_late");
			started++;
		} else if (kind == 2 || (kind <= 1 && ncand == 1)) {
			do_resize(w);
		} else if (started > 1 || (w.contend && ncand > 1)) {
			int i = (int) W(0, started - 1);
			if (i != w.winner && w.cands[(size_t) i].open)
				cand_chatter(w, i);
		}
	}
	while (started < ncand) {
		cand_start(w, started, false);
		started++;
	}

	// wait for the senders, then for the receivers to catch up
	sw.start();
	while (!(w.d[0].sender_done && w.d[1].sender_done)) {
		if (sw.ns() > 120000000000ull)
			VIOL("send_stuck", "senders did not finish within 120 s of virtual time");
		sim_sleep_ms(1);
	}
	// everything has been accepted; allow a generous time without any
	// progress before declaring the rest lost (shorter when a shrink may
	// legitimately have discarded messages)
	sw.start();
	int last = w.d[0].received + w.d[1].received;
	while (w.d[0].received < w.d[0].n || w.d[1].received < w.d[1].n) {
		int now = w.d[0].received + w.d[1].received;
		if (now != last) {
			last = now;
			sw.start();
		}
		bool lossy = (w.d[0].received < w.d[0].n ? w.d[0].lossy_below : 1) > 0 &&
		    (w.d[1].received < w.d[1].n ? w.d[1].lossy_below : 1) > 0;
		if (sw.ns() > (lossy ? 600000000ull : 2000000000ull))
			break;
		sim_sleep_ms(2);
	}
	w.d[0].stop = w.d[1].stop = 1;
	sim_join_all();
	for (int k = 0; k < 2; k++) {
		Dir &d = w.d[k];
		if (d.accepted != d.n)
			h_fatal("%s accepted %d of %d", d.name, d.accepted, d.n);
		for (int s = 0; s < d.n; s++) {
			if (d.seen[(size_t) s])
				continue;
			if (s < d.lossy_below) {
				sim_stat("dropped_by_shrink", 1);
				sim_probe("c08_dropped_by_shrink");
				continue;
			}
			VIOL("lost_message",
			    "%s: serial %d was accepted by send but never delivered "
			    "(%d of %d delivered, connection stayed up, no buffer was shrunk after it was sent)",
			    d.name, s, d.received, d.n);
		}
	}
	if (w.delivered > 0)
		sim_stat("nontrivial", 1);
	if (w.monA.refused > 0)
		sim_stat("refused_pipes", w.monA.refused);

	// nobody but the peer ever got anything
	for (int i = 0; i < ncand; i++)
		if (i != w.winner)
			cand_check_silent(w, i, "during the exchange");
	// nothing more must arrive at either end (duplicates, extras' chatter)
	sim_sleep_ms(W(0, 1) ? 20 : 1);
	for (int k = 0; k < 2; k++) {
		nng_msg *m = NULL;
		if (nng_recvmsg(w.d[k].to, &m, NNG_FLAG_NONBLOCK) == 0) {
			Tag t = tag_parse((uint8_t *) nng_msg_body(m), nng_msg_len(m));
			nng_msg_free(m);
			if (t.ok && t.origin >= ORG_CAND && t.origin != w.d[k].origin)
				VIOL("message_from_refused_peer", "%s: message of candidate %d delivered to A", w.d[k].name,
				    t.origin - ORG_CAND);
			VIOL("duplicate_delivery", "%s: an extra message (origin %u serial %u) after all %d were delivered",
			    w.d[k].name, t.origin, t.serial, w.d[k].n);
		}
	}

	// optional: the peer leaves; afterwards another candidate may take over
	bool takeover = ncand > 1 && W(0, 3) == 0;
	if (takeover) {
		sim_event("peer closes; takeover phase");
		MUST(nng_socket_close(peer.s));
		peer.open = false;
		MUST(nng_socket_set_ms(w.A, NNG_OPT_SENDTIMEO, 1200));
		nng_msg *m = tag_msg(TAG_MIN, ORG_A, ST_TAKEOVER, 0);
		if (nng_sendmsg(w.A, m, 0) != 0)
			nng_msg_free(m);
		sw.start();
		int who = -1;
		while (who < 0 && sw.ns() < 1200000000ull) {
			for (int i = 0; i < ncand; i++)
				if (i != w.winner && w.cands[(size_t) i].got && w.cands[(size_t) i].guard->result == 0)
					who = i;
			if (who < 0)
				sim_sleep_ms(3);
		}
		sim_event("takeover: candidate %d received A's message", who);
		sim_probe(who >= 0 ? "c08_takeover_ok" : "c08_takeover_none");
		// at most one of them
		int cnt = 0;
		sim_sleep_ms(5);
		for (int i = 0; i < ncand; i++)
			if (i != w.winner && w.cands[(size_t) i].got && w.cands[(size_t) i].guard->result == 0)
				cnt++;
		if (cnt > 1)
			VIOL("duplicate_delivery", "one message of A was delivered to %d different peers", cnt);
	}
	for (int i = 0; i < ncand; i++) {
		Cand &c = w.cands[(size_t) i];
		if (c.guard != NULL) {
			nng_aio_cancel(c.guard->aio);
			c.guard->wait(0);
			if (c.guard->result == 0)
				nng_msg_free(nng_aio_get_msg(c.guard->aio));
			delete c.guard;
			c.guard = NULL;
		}
	}
	// extras first so that none of them can pair up while we tear down
	for (int i = 0; i < ncand; i++) {
		Cand &c = w.cands[(size_t) i];
		if (i != w.winner && c.open) {
			MUST(nng_socket_close(c.s));
			c.open = false;
		}
	}
	if (peer.open)
		MUST(nng_socket_close(peer.s));
	MUST(nng_socket_close(w.A));
	for (auto &c : w.cands)
		free((void *) c.mon.name);
}

static void
fifo_cfg(sim_config *cfg, Params *p)
{
	long net = p->draw("net", 0, 4);
	if (net == 1) {
		cfg->seg_mode = 3;
	} else if (net == 2) {
		cfg->seg_mode   = 2;
		cfg->seg_k      = 7;
		cfg->lat_min_ns = 10000;
		cfg->lat_max_ns = 2000000;
	} else if (net == 3) {
		cfg->seg_mode = 1;
		cfg->eagain_p = 0.05;
		p->set("c08_maxlen", 64); // byte-at-a-time: keep the step count sane
	} else if (net == 4) {
		cfg->seg_mode   = 3;
		cfg->sndbuf_min = 256;
		cfg->sndbuf_max = 4096;
		cfg->lat_max_ns = 500000;
	}
}

SCENARIO(c08_fifo, "C08", fifo_cfg, fifo_run);

// --------------------------------------------------------------------------
// c08_hops: PAIR1 hop header, raw wire peer
struct Wire {
	int fd;
	int tr;
};

static void
put_be32(std::vector<uint8_t> &v, uint32_t x)
{
	v.push_back((uint8_t) (x >> 24));
	v.push_back((uint8_t) (x >> 16));
	v.push_back((uint8_t) (x >> 8));
	v.push_back((uint8_t) x);
}

static void
frame_append(std::vector<uint8_t> &out, int tr, const std::vector<uint8_t> &payload)
{
	if (tr == TR_IPC)
		out.push_back(1);
	put_be32(out, 0);
	put_be32(out, (uint32_t) payload.size());
	out.insert(out.end(), payload.begin(), payload.end());
}

// connect + SP handshake as a PAIR1 peer; returns fd
static int
wire_connect(int tr, int idx)
{
	int fd;
	int rv;
	if (tr == TR_IPC) {
		struct sockaddr_un un;
		memset(&un, 0, sizeof(un));
		un.sun_family = AF_UNIX;
		snprintf(un.sun_path, sizeof(un.sun_path), "/sim/sock%d", idx);
		fd = simnet_socket(AF_UNIX, SOCK_STREAM);
		rv = simnet_connect_blocking(fd, &un, sizeof(un), 5000000000ull);
	} else {
		struct sockaddr_in in;
		memset(&in, 0, sizeof(in));
		in.sin_family      = AF_INET;
		in.sin_port        = htons((uint16_t) (5000 + idx));
		in.sin_addr.s_addr = htonl(0x7f000001);
		fd                 = simnet_socket(AF_INET, SOCK_STREAM);
		rv                 = simnet_connect_blocking(fd, &in, sizeof(in), 5000000000ull);
	}
	if (fd < 0 || rv != 0)
		h_fatal("raw peer cannot connect (fd %d rv %d errno %d)", fd, rv, errno);
	static const uint8_t hello[8] = { 0, 'S', 'P', 0, 0, 0x11, 0, 0 };
	uint8_t              got[8];
	if (simnet_write_full(fd, hello, 8, 5000000000ull) != 8)
		h_fatal("raw peer handshake write failed");
	if (simnet_read_full(fd, got, 8, 5000000000ull) != 8 || memcmp(got, hello, 8) != 0)
		h_fatal("raw peer handshake read failed / unexpected greeting");
	return fd;
}

// 1 = frame read, 0 = orderly EOF / reset, -1 = timeout
static int
wire_read_frame(Wire &wr, std::vector<uint8_t> &payload, uint64_t tmo_ns)
{
	uint8_t hd[9];
	size_t  hl = wr.tr == TR_IPC ? 9 : 8;
	errno      = 0;
	long r     = simnet_read_full(wr.fd, hd, hl, tmo_ns);
	if (r != (long) hl)
		return errno == ETIMEDOUT ? -1 : 0;
	const uint8_t *lp = hd + (hl - 8);
	uint64_t       len = 0;
	for (int i = 0; i < 8; i++)
		len = (len << 8) | lp[i];
	if (len > (1u << 20))
		h_fatal("raw peer read an absurd frame length %llu", (unsigned long long) len);
	payload.resize((size_t) len);
	errno = 0;
	if (len > 0 && simnet_read_full(wr.fd, payload.data(), (size_t) len, tmo_ns) != (long) len)
		return errno == ETIMEDOUT ? -1 : 0;
	return 1;
}

// has nng hung up on us?  (EOF or reset; pending frames are skipped)
static bool
wire_wait_eof(Wire &wr, uint64_t tmo_ns)
{
	uint8_t   scratch[256];
	Stopwatch sw;
	sw.start();
	for (;;) {
		errno  = 0;
		long r = simnet_read_blocking(wr.fd, scratch, sizeof(scratch), 200000000ull);
		if (r == 0)
			return true;
		if (r < 0 && errno != ETIMEDOUT)
			return true; // ECONNRESET etc.
		if (sw.ns() > tmo_ns)
			return false;
	}
}

enum { K_DELIVER = 0, K_TTLDROP, K_MALFORMED, K_AFTER };

struct HSpec {
	uint32_t             serial;
	int                  kind;
	bool                 has_hdr;
	uint32_t             hdr;
	std::vector<uint8_t> body;
	std::vector<uint8_t> payload; // as written on the wire
	bool                 delivered;
};

struct HWorld {
	nng_socket         A;
	bool               rawmode;
	int                ttl;
	Wire               wire;
	PipeMon            mon;
	std::vector<HSpec> specs; // all messages ever written, by serial
};

struct WriterArg {
	HWorld              *w;
	std::vector<uint8_t> bytes;
	std::vector<size_t>  cuts; // write boundaries (with small pauses between)
};

static void
writer_task(void *a)
{
	WriterArg *wa  = (WriterArg *) a;
	size_t     off = 0;
	for (size_t i = 0; i <= wa->cuts.size(); i++) {
		size_t end = i < wa->cuts.size() ? wa->cuts[i] : wa->bytes.size();
		if (end > off) {
			// after a malformed message nng hangs up: write errors are expected then
			(void) simnet_write_full(wa->w->wire.fd, wa->bytes.data() + off, end - off, 5000000000ull);
			off = end;
		}
		if (i < wa->cuts.size())
			sim_sleep_ns((uint64_t) W(0, 2000) * 1000);
	}
}

static const char *
kind_name(int k)
{
	static const char *n[] = { "deliverable", "ttl-exceeding", "malformed", "after-malformed" };
	return n[k];
}

// classify a message that arrived at A's application
static HSpec *
hops_identify(HWorld &w, nng_msg *m)
{
	const uint8_t *b = (const uint8_t *) nng_msg_body(m);
	size_t         n = nng_msg_len(m);
	for (auto &sp : w.specs)
		if (sp.has_hdr && sp.body.size() == n && (n == 0 || memcmp(sp.body.data(), b, n) == 0) && !sp.delivered)
			return &sp;
	for (auto &sp : w.specs)
		if (sp.has_hdr && sp.body.size() == n && (n == 0 || memcmp(sp.body.data(), b, n) == 0))
			return &sp;
	return NULL;
}

static void
hops_unexpected(HWorld &w, nng_msg *m, const char *when)
{
	HSpec      *sp = hops_identify(w, m);
	std::string hx = h_hex((uint8_t *) nng_msg_body(m), nng_msg_len(m), 24);
	nng_msg_free(m);
	if (sp == NULL) {
		for (auto &x : w.specs)
			if (!x.has_hdr)
				VIOL("malformed_delivered",
				    "A received a message (%s) that matches no well-formed message of the "
				    "raw peer; message %u had no complete hop header (%zu bytes) and must "
				    "never be delivered (%s)",
				    hx.c_str(), x.serial, x.payload.size(), when);
		VIOL("altered_message", "A received a message that the raw peer never sent (%s) %s", hx.c_str(), when);
	}
	if (sp->delivered)
		VIOL("duplicate_delivery", "message %u delivered twice (%s)", sp->serial, when);
	switch (sp->kind) {
	case K_TTLDROP:
		VIOL("ttl_exceeded_delivered",
		    "message %u with hop count %u was delivered although NNG_OPT_MAXTTL is %d (%s)", sp->serial, sp->hdr,
		    w.ttl, when);
	case K_MALFORMED:
		VIOL("malformed_delivered", "message %u with malformed hop header 0x%08x was delivered (%s)",
		    sp->serial, sp->hdr, when);
	case K_AFTER:
		VIOL("delivered_after_disconnect",
		    "message %u was sent after a malformed message on the same "
		    "connection (sender must have been disconnected) but was delivered (%s)",
		    sp->serial, when);
	default:
		VIOL("reordered", "message %u (hop %u) delivered out of order (%s)", sp->serial, sp->hdr, when);
	}
}

static void
hops_wait_connected(HWorld &w, const char *what)
{
	Stopwatch sw;
	sw.start();
	while (w.mon.active < 1) {
		if (sw.ns() > 5000000000ull)
			sim_inconclusive("raw peer %s: A did not report a connected pipe within 5 s", what);
		sim_sleep_ms(1);
	}
}

static uint32_t
pick_hdr(int cls, int ttl)
{
	switch (cls) {
	case K_DELIVER: {
		long sel = W(0, 4);
		if (sel == 0)
			return 0;
		if (sel == 1)
			return (uint32_t) ttl;
		if (sel == 2)
			return (uint32_t) (ttl - 1);
		if (sel == 3)
			return 1;
		return (uint32_t) W(0, ttl);
	}
	case K_TTLDROP: {
		long sel = W(0, 4);
		if (sel == 0)
			return (uint32_t) ttl + 1;
		if (sel == 1)
			return 0xff;
		if (sel == 2)
			return 0xfe;
		if (sel == 3)
			return (uint32_t) ttl + 2;
		return (uint32_t) W(ttl + 1, 0xff);
	}
	default: {
		static const uint32_t bad[] = { 0x100, 0x101, 0xffffffffu, 0x80000000u, 0x7fffffff, 0x10000, 0xffff,
			0x01000000, 0x00010000, 0xff00, 0x1ff, 0x80000001u };
		long sel = W(0, 15);
		if (sel < 12)
			return bad[sel];
		if (sel == 12)
			return (uint32_t) ttl << 24; // byte-swapped valid value
		if (sel == 13)
			return ((uint32_t) ttl << 8) | 0x100;
		return (uint32_t) W(0x100, 0xffffffffl);
	}
	}
}

static void
hops_run(Params *p)
{
	HWorld w;
	w.wire.tr = p->draw("tr", 0, 1) ? TR_IPC : TR_TCP;
	w.rawmode = p->draw("rawsock", 0, 1) != 0;
	w.ttl     = 8;
	if (w.rawmode)
		MUST(nng_pair1_open_raw(&w.A));
	else
		MUST(nng_pair1_open(&w.A));
	long tsel = W(0, 5);
	if (tsel != 0) {
		static const int tv[] = { 1, 2, 3, 15 };
		w.ttl = tsel <= 4 ? tv[tsel - 1] : (int) W(1, 15);
		MUST(nng_socket_set_int(w.A, NNG_OPT_MAXTTL, w.ttl));
	}
	MUST(nng_socket_set_int(w.A, NNG_OPT_RECVBUF, (int) W(0, 4)));
	MUST(nng_socket_set_int(w.A, NNG_OPT_SENDBUF, (int) W(0, 4)));
	MUST(nng_socket_set_ms(w.A, NNG_OPT_RECVTIMEO, 5000));
	MUST(nng_socket_set_ms(w.A, NNG_OPT_SENDTIMEO, 5000));
	mon_attach(&w.mon, w.A, "A", true);
	std::string url = h_url(w.wire.tr, 1);
	MUST(nng_listen(w.A, url.c_str(), NULL, 0));
	sim_event("c08_hops %s socket tr=%s maxttl=%d", w.rawmode ? "raw" : "cooked", h_tr_name(w.wire.tr), w.ttl);
	w.wire.fd = wire_connect(w.wire.tr, 1);
	hops_wait_connected(w, "first connection");

	int      nb       = (int) W(1, 6);
	uint32_t serial   = 0;
	uint32_t fwd_ser  = 0;
	bool     any      = false;
	for (int b = 0; b < nb; b++) {
		if (W(0, 4) == 4) {
			w.ttl = (int) W(1, 15);
			MUST(nng_socket_set_int(w.A, NNG_OPT_MAXTTL, w.ttl));
			sim_event("maxttl := %d", w.ttl);
		}
		int                 k = (int) W(1, 5);
		WriterArg           wa;
		std::vector<size_t> expect; // indices into w.specs
		bool                alive = true, had_drop = false;
		wa.w = &w;
		for (int i = 0; i < k; i++) {
			HSpec sp;
			sp.serial    = serial++;
			sp.delivered = false;
			sp.has_hdr   = true;
			long sel     = W(0, 9);
			int  cls     = sel <= 4 ? K_DELIVER : sel <= 6 ? K_TTLDROP : K_MALFORMED;
			if (sel == 9) {
				// any 32-bit value: let the statement decide
				sp.hdr = (uint32_t) W(0, 0xffffffffl);
				cls    = sp.hdr > 0xff ? K_MALFORMED : (int) sp.hdr > w.ttl ? K_TTLDROP : K_DELIVER;
			} else if (sel == 8) {
				sp.has_hdr = false; // fewer than 4 bytes: no hop header at all
				sp.hdr     = 0;
			} else {
				sp.hdr = pick_hdr(cls, w.ttl);
			}
			if (sp.has_hdr) {
				size_t bl = W(0, 5) == 0 ? (size_t) W(0, TAG_MIN - 1) : (size_t) W(TAG_MIN, 60);
				if ((cls != K_DELIVER || !alive) && bl < TAG_MIN)
					bl = TAG_MIN; // must be identifiable if it shows up
				sp.body.resize(bl);
				tag_fill(sp.body.data(), bl, ORG_WIRE, ST_DATA, sp.serial);
				put_be32(sp.payload, sp.hdr);
				sp.payload.insert(sp.payload.end(), sp.body.begin(), sp.body.end());
			} else {
				// a truncated header: usually the leading bytes of a valid one
				size_t n    = (size_t) (3 - W(0, 3));
				bool   rnd  = W(0, 2) == 2;
				for (size_t j = 0; j < n; j++)
					sp.payload.push_back(rnd ? (uint8_t) W(0, 255) : 0);
			}
			sp.kind = !alive ? K_AFTER : cls;
			if (!sp.has_hdr)
				sim_event("wire sends #%u: %zu-byte message without hop header (%s)", sp.serial,
				    sp.payload.size(), kind_name(sp.kind));
			else
				sim_event("wire sends #%u: hop 0x%x body %zu (%s)", sp.serial, sp.hdr, sp.body.size(),
				    kind_name(sp.kind));
			if (sp.kind == K_MALFORMED) {
				alive = false;
				sim_probe("c08_malformed_sent");
			} else if (sp.kind == K_TTLDROP) {
				had_drop = true;
				sim_probe("c08_ttl_exceeded_sent");
			} else if (sp.kind == K_DELIVER) {
				expect.push_back(w.specs.size());
				if ((int) sp.hdr == w.ttl)
					sim_probe("c08_hop_equals_ttl");
			} else {
				sim_probe("c08_sent_after_malformed");
			}
			frame_append(wa.bytes, w.wire.tr, sp.payload);
			if (W(0, 2) == 0)
				wa.cuts.push_back(wa.bytes.size());
			w.specs.push_back(sp);
		}
		int rem_before = w.mon.rem_post;
		// optionally a receive is already waiting when the bytes arrive
		UAio *pre = NULL;
		if (W(0, 2) == 0) {
			pre = new UAio();
			nng_aio_set_timeout(pre->aio, 5000);
			pre->arm("pair1_recv_pre");
			nng_socket_recv(w.A, pre->aio);
			sim_event("receive posted before the batch");
		}
		sim_spawn("wire", writer_task, &wa, 0);
		for (size_t ei = 0; ei < expect.size(); ei++) {
			HSpec   &want = w.specs[expect[ei]];
			nng_msg *m    = NULL;
			int      rv;
			if (pre != NULL) {
				pre->wait(0);
				rv = pre->result;
				if (rv == 0)
					m = nng_aio_get_msg(pre->aio);
				delete pre;
				pre = NULL;
			} else {
				rv = nng_recvmsg(w.A, &m, 0);
			}
			if (rv != 0)
				VIOL("lost_message",
				    "message %u (hop %u <= maxttl %d, well-formed) was not "
				    "delivered within 5 s (rv %d)",
				    want.serial, want.hdr, w.ttl, rv);
			HSpec *got = hops_identify(w, m);
			if (got != &want)
				hops_unexpected(w, m, "while an earlier deliverable message was expected");
			want.delivered = true;
			any            = true;
			sim_stat("delivered", 1);
			uint32_t hop = 0xffffffffu;
			if (nng_msg_header_len(m) == 4) {
				const uint8_t *h = (const uint8_t *) nng_msg_header(m);
				hop = ((uint32_t) h[0] << 24) | ((uint32_t) h[1] << 16) | ((uint32_t) h[2] << 8) | h[3];
			}
			sim_event("A recv #%u (header hop %d)", want.serial, (int) hop);
			sim_probe(hop == want.hdr ? "c08_rx_header_is_wire_hop" : "c08_rx_header_differs");
			// traversal: what nng sends out carries the count plus one
			if (alive && w.rawmode && hop == want.hdr && W(0, 1) == 0) {
				int srv = nng_sendmsg(w.A, m, 0);
				sim_event("A forwards #%u: rv=%d", want.serial, srv);
				if (srv != 0) {
					nng_msg_free(m);
					sim_probe("c08_forward_refused");
				} else {
					std::vector<uint8_t> pl;
					int                  fr = wire_read_frame(w.wire, pl, 5000000000ull);
					if (fr != 1)
						VIOL("lost_message", "forwarded message %u never reached the wire (%d)",
						    want.serial, fr);
					if (pl.size() != 4 + want.body.size() ||
					    (want.body.size() && memcmp(pl.data() + 4, want.body.data(), want.body.size()) != 0))
						VIOL("altered_message", "forwarded message %u altered on the wire: %s",
						    want.serial, h_hex(pl.data(), pl.size(), 24).c_str());
					uint32_t wh = ((uint32_t) pl[0] << 24) | ((uint32_t) pl[1] << 16) |
					    ((uint32_t) pl[2] << 8) | pl[3];
					sim_event("wire reads forwarded #%u with hop %u", want.serial, wh);
					if (wh != want.hdr + 1)
						VIOL("hop_not_incremented",
						    "message %u arrived with hop count %u and was sent on "
						    "with %u (expected %u)",
						    want.serial, want.hdr, wh, want.hdr + 1);
					sim_probe("c08_forward_checked");
				}
			} else {
				nng_msg_free(m);
				if (alive && !w.rawmode && W(0, 2) == 0) {
					size_t   bl = (size_t) W(TAG_MIN, 50);
					nng_msg *fm = tag_msg(bl, ORG_A, ST_DATA, fwd_ser);
					int      srv = nng_sendmsg(w.A, fm, 0);
					sim_event("A sends fresh message %u: rv=%d", fwd_ser, srv);
					if (srv != 0) {
						nng_msg_free(fm);
						VIOL("send_failed", "send on a connected PAIR1 socket failed: %d", srv);
					}
					std::vector<uint8_t> pl;
					int                  fr = wire_read_frame(w.wire, pl, 5000000000ull);
					if (fr != 1)
						VIOL("lost_message", "message %u of A never reached the wire (%d)", fwd_ser, fr);
					Tag t = pl.size() >= 4 ? tag_parse(pl.data() + 4, pl.size() - 4) : Tag();
					if (pl.size() < 4 || !t.ok || t.origin != ORG_A || t.serial != fwd_ser)
						VIOL("altered_message", "A's message %u altered on the wire: %s", fwd_ser,
						    h_hex(pl.data(), pl.size(), 24).c_str());
					uint32_t wh = ((uint32_t) pl[0] << 24) | ((uint32_t) pl[1] << 16) |
					    ((uint32_t) pl[2] << 8) | pl[3];
					if (wh != 1)
						VIOL("hop_not_incremented",
						    "a fresh message (hop count 0) left A with hop count %u, expected 1", wh);
					sim_probe("c08_fresh_hop_checked");
					fwd_ser++;
				}
			}
		}
		sim_join_all();
		sim_quiesce(3000000);
		// nothing else may have been delivered
		if (pre != NULL) {
			if (pre->poll() && pre->result == 0)
				hops_unexpected(w, nng_aio_get_msg(pre->aio), "to a waiting receive");
			nng_aio_cancel(pre->aio);
			pre->wait(0);
			if (pre->result == 0)
				hops_unexpected(w, nng_aio_get_msg(pre->aio), "to a waiting receive");
			delete pre;
			pre = NULL;
		}
		{
			nng_msg *m = NULL;
			if (nng_recvmsg(w.A, &m, NNG_FLAG_NONBLOCK) == 0)
				hops_unexpected(w, m, "after the batch");
		}
		if (!alive) {
			if (!wire_wait_eof(w.wire, 5000000000ull))
				VIOL("malformed_not_disconnected",
				    "the raw peer sent a malformed hop header but its "
				    "connection was still open 5 s later");
			sim_event("wire: disconnected by A");
			close(w.wire.fd);
			sim_quiesce(3000000);
			w.wire.fd = wire_connect(w.wire.tr, 1);
			hops_wait_connected(w, "reconnect");
			sim_event("wire: reconnected");
		} else if (had_drop) {
			if (w.mon.rem_post != rem_before || w.mon.active != 1)
				VIOL("ttl_drop_disconnected",
				    "a message exceeding NNG_OPT_MAXTTL must be discarded "
				    "without disconnecting, but A's pipe was removed");
			sim_probe("c08_ttl_drop_kept_connection");
		}
	}
	// A burst of sends against a peer that is not reading: some go straight to
	// the connection, some wait in the send buffer, some stay parked with their
	// aio.  However a message got to the wire, it carries its count plus one.
	if (p->i("bp", 0) != 0 && w.mon.active == 1) {
		int                               K = (int) W(4, 12);
		std::vector<UAio *>               us;
		std::vector<uint32_t>             hops;
		std::vector<std::vector<uint8_t>> bodies;
		int                               parked = 0;
		for (int i = 0; i < K; i++) {
			size_t   bl = (size_t) W(400, 2500);
			nng_msg *m  = tag_msg(bl, ORG_A, ST_DATA, fwd_ser + (uint32_t) i);
			uint32_t h  = 0;
			if (w.rawmode) {
				h = (uint32_t) W(0, 0xfe);
				MUST(nng_msg_header_append_u32(m, h));
			}
			hops.push_back(h);
			bodies.push_back(std::vector<uint8_t>((uint8_t *) nng_msg_body(m), (uint8_t *) nng_msg_body(m) + bl));
			// attempts that fail leave the message as it was: try without blocking,
			// or with a time-out too short to get through, before the real send
			for (int att = (int) W(0, 3); att > 0 && parked > 0; att--) {
				int frv;
				if (W(0, 1)) {
					frv = nng_sendmsg(w.A, m, NNG_FLAG_NONBLOCK);
				} else {
					UAio f;
					nng_aio_set_msg(f.aio, m);
					nng_aio_set_timeout(f.aio, (nng_duration) W(1, 3));
					f.arm("pair1_bp_try");
					nng_socket_send(w.A, f.aio);
					f.wait(0);
					frv = f.result;
				}
				if (frv == 0) {
					m = NULL; // it went after all
					break;
				}
				sim_probe("c08_hops_failed_attempt");
			}
			if (m == NULL) {
				// keep the bookkeeping simple: this one is on its way, in order
				us.push_back(NULL);
				continue;
			}
			UAio *u = new UAio();
			nng_aio_set_msg(u->aio, m);
			nng_aio_set_timeout(u->aio, 20000);
			u->arm("pair1_bp_send");
			nng_socket_send(w.A, u->aio);
			if (W(0, 3) == 0)
				sim_quiesce(500000);
			if (!u->poll())
				parked++;
			us.push_back(u);
		}
		sim_quiesce(2000000);
		sim_event("bp burst: %d sends, %d parked at submission", K, parked);
		if (parked > 0)
			sim_probe("c08_hops_parked_sender");
		for (int i = 0; i < K; i++) {
			std::vector<uint8_t> pl;
			int                  fr = wire_read_frame(w.wire, pl, 10000000000ull);
			if (fr != 1)
				VIOL("lost_message", "message %d of a burst of %d never reached the wire (%d)", i, K, fr);
			if (pl.size() != 4 + bodies[(size_t) i].size() ||
			    memcmp(pl.data() + 4, bodies[(size_t) i].data(), bodies[(size_t) i].size()) != 0)
				VIOL("altered_message", "message %d of the burst altered or out of order on the wire: %s", i,
				    h_hex(pl.data(), pl.size(), 24).c_str());
			uint32_t wh = ((uint32_t) pl[0] << 24) | ((uint32_t) pl[1] << 16) | ((uint32_t) pl[2] << 8) | pl[3];
			if (wh != hops[(size_t) i] + 1)
				VIOL("hop_not_incremented",
				    "message %d of a burst (%d of them parked behind a busy connection, SENDBUF in use) was handed "
				    "over with hop count %u and reached the wire with %u (expected %u)",
				    i, parked, hops[(size_t) i], wh, hops[(size_t) i] + 1);
		}
		for (auto u : us) {
			if (u == NULL)
				continue;
			u->wait(0);
			if (u->result != 0) {
				nng_msg_free(nng_aio_get_msg(u->aio));
				VIOL("send_failed", "send on a connected PAIR1 socket failed: %d", (int) u->result);
			}
			delete u;
		}
		fwd_ser += (uint32_t) K;
		sim_probe("c08_hops_burst_checked");
	}
	if (any)
		sim_stat("nontrivial", 1);
	close(w.wire.fd);
	MUST(nng_socket_close(w.A));
}

static void
hops_cfg(sim_config *cfg, Params *p)
{
	long bp = p->draw("bp", 0, 1);
	p->set("bp", bp);
	if (bp != 0) {
		cfg->sndbuf_min = 1024;
		cfg->sndbuf_max = 6000;
	}
	long net = p->draw("net", 0, 3);
	if (net == 1) {
		cfg->seg_mode = 3;
	} else if (net == 2) {
		cfg->seg_mode   = 2;
		cfg->seg_k      = 7;
		cfg->lat_min_ns = 10000;
		cfg->lat_max_ns = 2000000;
	} else if (net == 3) {
		cfg->seg_mode = 1;
		cfg->eagain_p = 0.05;
	}
}

SCENARIO(c08_hops, "C08", hops_cfg, hops_run);

} // namespace
