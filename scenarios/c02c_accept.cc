// C02: "Each operation started on an nng_aio completes exactly once ... however completion, nng_aio_cancel/abort,
// timeout expiry, nng_aio_stop and closing of the underlying object interleave."
//
// The operation here is nng_stream_listener_accept on a tcp, ipc or ws stream listener with nobody connecting; it is
// ended by closing the listener (nng_stream_listener_close), by cancelling or aborting the aio, by its own time-out,
// or by a dialer that does connect - one of them, or two at nearly the same instant.  Oracle:
//   * exactly one completion (UAio counts callbacks per submission);
//   * once the listener has been closed (or the aio cancelled), the accept completes within a bounded virtual time
//     (`accept_pending_after_close` / `accept_pending_after_cancel`): "closing of the underlying object" is one of the
//     things an operation completes under, it does not stay pending for ever;
//   * the result is explained by what happened (0 only if a dialer connected; a time-out code only if the time-out
//     could have fired; NNG_ECANCELED only if a cancel was issued).
#include "../harness/util.h"

namespace {

static void
acc_run(Params *p)
{
	static const int TRS[] = { TR_TCP, TR_IPC, TR_WS };
	int              tr    = TRS[p->draw("tr", 0, 2)];
	int              rounds = 1 + (int) W(0, 2);
	for (int r = 0; r < rounds; r++) {
		std::string url = h_url(tr, 44 + r); // a fresh address per round: the previous listener may still be on its way out
		nng_stream_listener *l = NULL;
		MUST(nng_stream_listener_alloc(&l, url.c_str()));
		MUST(nng_stream_listener_listen(l));
		UAio ua;
		long tsel = W(0, 3);
		int  tmo  = tsel == 0 ? 30 : tsel == 1 ? 200 : -1;
		nng_aio_set_timeout(ua.aio, tmo < 0 ? NNG_DURATION_INFINITE : (nng_duration) tmo);
		uint64_t st0 = sim_stall_total_ns();
		ua.arm("accept");
		nng_stream_listener_accept(l, ua.aio);
		uint64_t t0 = ua.t_submit_ns; // the clock of the operation starts at arm()
		sim_sleep_ns((uint64_t) W(0, 40) * 1000000ull / 4);
		long how      = W(0, 4); // 0 close, 1 cancel, 2 dial, 3 close+cancel, 4 nothing (time-out, else close later)
		bool closed   = false, cancelled = false, dialed = false;
		nng_stream_dialer *d = NULL;
		UAio               ud;
		if (how == 2) {
			MUST(nng_stream_dialer_alloc(&d, url.c_str()));
			nng_aio_set_timeout(ud.aio, 2000);
			ud.arm("dial");
			nng_stream_dialer_dial(d, ud.aio);
			dialed = true;
		}
		if (how == 1 || how == 3) {
			nng_aio_cancel(ua.aio);
			cancelled = true;
		}
		if (how == 0 || how == 3) {
			nng_stream_listener_close(l);
			closed = true;
		}
		if (how == 4 && tmo < 0) {
			sim_sleep_ms(20);
			nng_stream_listener_close(l);
			closed = true;
		}
		sim_event("round %d: %s accept timeout %d: %s", r, h_tr_name(tr), tmo,
		    how == 0 ? "listener closed" : how == 1 ? "cancelled" : how == 2 ? "a dialer connects" : how == 3 ? "cancelled and closed" : "left alone");
		// bounded: 5 s of virtual time (stalls excluded) after the last thing that must end it
		uint64_t budget = 5000000000ull + (tmo > 0 ? (uint64_t) tmo * 1000000ull : 0);
		bool     done   = false;
		while (!done) {
			if (ua.wait(100000000ull) != (nng_err) -1) {
				done = true;
				break;
			}
			uint64_t used = sim_now_ns() - t0, stalled = sim_stall_total_ns() - st0;
			if (used > budget + stalled) {
				if (closed)
					VIOL("accept_pending_after_close",
					    "nng_stream_listener_accept on a %s listener is still pending %.0f ms after nng_stream_listener_close",
					    h_tr_name(tr), (double) used / 1e6);
				if (cancelled)
					VIOL("accept_pending_after_cancel", "accept on a %s listener still pending after nng_aio_cancel", h_tr_name(tr));
				if (tmo > 0)
					VIOL("never_completed", "accept with a %d ms time-out on a %s listener still pending after %.0f ms", tmo,
					    h_tr_name(tr), (double) used / 1e6);
				if (dialed)
					VIOL("never_completed", "accept on a %s listener still pending although a dialer connected", h_tr_name(tr));
				break;
			}
		}
		sim_stat("nontrivial", 1);
		if (done) {
			nng_err rv = ua.result;
			sim_event("round %d: accept -> %d", r, (int) rv);
			if (rv == 0) {
				nng_stream *s = (nng_stream *) nng_aio_get_output(ua.aio, 0);
				if (!dialed)
					VIOL("unexplained_result", "accept succeeded although nobody connected");
				nng_stream_close(s);
				nng_stream_stop(s);
				nng_stream_free(s);
			} else if (rv == NNG_ETIMEDOUT) {
				if (tmo < 0)
					VIOL("unexplained_result", "accept without a time-out completed with NNG_ETIMEDOUT");
				uint64_t el = (ua.t_done_ns - t0) / 1000000ull;
				if (el + 1 < (uint64_t) tmo)
					VIOL("early_timeout_user", "accept timed out after %llu ms with a time-out of %d ms", (unsigned long long) el, tmo);
			} else if (rv == NNG_ECANCELED) {
				if (!cancelled)
					VIOL("unexplained_result", "accept completed with NNG_ECANCELED, nobody cancelled it");
			} else if (rv == NNG_ECLOSED || rv == NNG_ESTOPPED) {
				if (!closed)
					VIOL("unexplained_result", "accept completed with %d although the listener was not closed", (int) rv);
			}
		}
		if (dialed) {
			if (ud.wait(3000000000ull) == 0) {
				nng_stream *s = (nng_stream *) nng_aio_get_output(ud.aio, 0);
				nng_stream_close(s);
				nng_stream_stop(s);
				nng_stream_free(s);
			} else if (ud.result == (nng_err) -1) {
				nng_aio_cancel(ud.aio);
				ud.wait(0);
			}
			nng_stream_dialer_close(d);
			nng_stream_dialer_stop(d);
			nng_stream_dialer_free(d);
		}
		if (!done) // unreachable: VIOL ends the run
			break;
		nng_stream_listener_close(l);
		nng_stream_listener_stop(l);
		nng_stream_listener_free(l);
		sim_quiesce(3000000);
	}
}
SCENARIO(c02_accept, "C02", NULL, acc_run);

} // namespace
