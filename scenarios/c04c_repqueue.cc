// C04 (third file): a REP context whose reply is QUEUED behind a busy connection, and which receives and
// answers a newer request while that reply is still queued (or after the queued reply was cancelled or
// ran into its time-out).
//
// Workload.  A cooked REP socket (the socket's own context or an explicit context is the target T, another
// context H is the helper) listens on tcp; 2-3 raw wire peers (plain simulated sockets that speak the SP
// framing and claim to be REQ) connect.  A peer reads only when the script tells it to, and the kernel
// buffers are small, so a large reply that H gives to a peer keeps that peer's connection busy ("pipe
// busy") for as long as the script wants.  One round:
//   1. H answers a request of peer A (and mostly also one of peer B) with a large reply: connections busy;
//   2. A sends a request, T receives it and answers: the reply has to queue behind the large one;
//      the queued send is mode 0 left alone, 1 given a short aio time-out, 2 cancelled with
//      nng_aio_cancel, 3 given a short NNG_OPT_SENDTIMEO;
//   3. B (another connection; now and then A again with another id/backtrace) sends a request and T
//      receives it - in most runs while the earlier reply is still queued, in some after it was ended;
//   4. the queued send is ended (modes 1-3), before or (sometimes) after step 5;
//   5. T answers the newer request (in mode 0 this supersedes the queued reply);
//   6. the peers read everything, in a drawn order and pace; every frame they get is checked.
// An epilogue lets every peer do one plain exchange more.
//
// Oracle -> phrase of the statement:
//  * reply_to_wrong_connection, wrong_backtrace: "A REP socket or context sends its reply only to the
//    connection, and with the routing backtrace, of the request it most recently received" - every reply
//    frame a peer reads must name that peer and a request that peer sent (the body of a reply is built from
//    the request the context received last, so it says whose reply it is), and the words in front of the
//    body must be exactly the backtrace that request was sent with;
//  * reply_twice: the same sentence ("its reply": one reply per request received; the script never
//    answers a request twice);
//  * send_before_recv_ok / send_before_recv_not_estate, second_reply_ok / second_reply_not_estate:
//    "the state machines reject out-of-order use: ... send before receive on REP ... fail with NNG_ESTATE"
//    (asserted only where the preceding send was accepted, result 0, and nothing was received since);
//  * second_recv_not_estate: "a second concurrent receive fail[s] with NNG_ESTATE".
// Not asserted, only counted (sim_probe): what the result of a superseded, cancelled or timed-out send is,
// whether a send after a FAILED send is refused, whether a reply is delivered at all.
#include "../harness/util.h"

#include <errno.h>
#include <netinet/in.h>
#include <sys/socket.h>
#include <unistd.h>

#include <set>

namespace {

static inline void
put32(uint8_t *p, uint32_t v)
{
	p[0] = (uint8_t) (v >> 24);
	p[1] = (uint8_t) (v >> 16);
	p[2] = (uint8_t) (v >> 8);
	p[3] = (uint8_t) v;
}
static inline uint32_t
get32(const uint8_t *p)
{
	return ((uint32_t) p[0] << 24) | ((uint32_t) p[1] << 16) | ((uint32_t) p[2] << 8) | p[3];
}

enum { QPORT = 61, TRAILER = 12 };
static const uint64_t MS = 1000000ull;

// ------------------------------------------------------------------ peers ---
// request on the wire : len(8) | hop words ... | id word (high bit) | 'Q' peer(1) serial(4)
// reply on the wire   : len(8) | backtrace ... | fill ... 'A' peer(1) serial(4) ctx(1) kind(1) bodylen(4)
struct QPeer {
	int                             idx;
	int                             fd;
	std::string                     acc;  // bytes read, not yet a whole frame
	std::map<uint32_t, std::string> sent; // serial -> backtrace bytes
	std::set<uint32_t>              answered;
	uint32_t                        next_serial;
	uint64_t                        pace_ns; // pause between reads
	volatile int                    reading, stop, exited;
	int                             frames;
};

static int
wire_connect_req(int idx)
{
	struct sockaddr_in in;
	memset(&in, 0, sizeof(in));
	in.sin_family      = AF_INET;
	in.sin_port        = htons((uint16_t) (5000 + idx));
	in.sin_addr.s_addr = htonl(0x7f000001);
	int fd             = simnet_socket(AF_INET, SOCK_STREAM);
	int rv             = simnet_connect_blocking(fd, &in, sizeof(in), 5000 * MS);
	if (fd < 0 || rv != 0)
		h_fatal("raw peer cannot connect (fd %d rv %d errno %d)", fd, rv, errno);
	static const uint8_t hello[8] = { 0, 'S', 'P', 0, 0, 0x30, 0, 0 }; // REQ
	static const uint8_t want[8]  = { 0, 'S', 'P', 0, 0, 0x31, 0, 0 }; // REP
	uint8_t              got[8];
	if (simnet_write_full(fd, hello, 8, 5000 * MS) != 8)
		h_fatal("raw peer handshake write failed");
	if (simnet_read_full(fd, got, 8, 5000 * MS) != 8 || memcmp(got, want, 8) != 0)
		h_fatal("raw peer handshake read failed / unexpected greeting");
	return fd;
}

static uint32_t
peer_request(QPeer *p)
{
	uint32_t    ser   = p->next_serial++;
	int         depth = (int) W(0, 3); // extra hop words in front of the request id
	std::string bt;
	for (int d = 0; d < depth; d++) {
		uint8_t wd[4];
		put32(wd, (uint32_t) W(1, 0x7ffffff));
		bt.append((char *) wd, 4);
	}
	uint8_t idw[4];
	put32(idw, 0x80000000u | ((uint32_t) W(0, 0x7fff) << 16) | ((uint32_t) p->idx << 8) | ser);
	bt.append((char *) idw, 4);
	std::string f(8, '\0');
	put32((uint8_t *) &f[4], (uint32_t) (bt.size() + 6));
	f += bt;
	uint8_t b[6] = { 'Q', (uint8_t) p->idx };
	put32(b + 2, ser);
	f.append((char *) b, 6);
	p->sent[ser] = bt;
	sim_event("peer%d: request #%u backtrace %s", p->idx, ser, h_hex((const uint8_t *) bt.data(), bt.size()).c_str());
	if (simnet_write_full(p->fd, f.data(), f.size(), 5000 * MS) != (long) f.size())
		h_fatal("peer%d cannot write its request (errno %d)", p->idx, errno);
	return ser;
}

static void
check_reply(QPeer *p, const uint8_t *f, size_t n)
{
	if (n < TRAILER + 4 || f[n - TRAILER] != 'A')
		VIOL("altered_message", "peer%d read a malformed reply frame (%zu bytes)", p->idx, n);
	uint32_t bodylen = get32(f + n - 4);
	if (bodylen < TRAILER || bodylen + 4 > n)
		VIOL("altered_message", "peer%d read a reply frame of %zu bytes whose body claims %u", p->idx, n, bodylen);
	size_t         hl  = n - bodylen;
	const uint8_t *t   = f + n - TRAILER;
	int            rp  = t[1];
	uint32_t       ser = get32(t + 2);
	sim_event("peer%d: read reply to peer%d#%u (ctx%d kind %c, %u bytes) backtrace %s", p->idx, rp, ser, t[6], t[7],
	    bodylen, h_hex(f, hl).c_str());
	if (rp != p->idx)
		VIOL("reply_to_wrong_connection",
		    "peer%d received the reply that context %d gave to peer%d's request #%u (backtrace on the wire %s)", p->idx,
		    t[6], rp, ser, h_hex(f, hl).c_str());
	auto it = p->sent.find(ser);
	if (it == p->sent.end())
		VIOL("reply_to_wrong_connection", "peer%d received a reply to a request #%u it never sent", p->idx, ser);
	if (std::string((const char *) f, hl) != it->second)
		VIOL("wrong_backtrace", "peer%d: the reply to its request #%u carries backtrace %s, the request had %s", p->idx,
		    ser, h_hex(f, hl).c_str(), h_hex((const uint8_t *) it->second.data(), it->second.size()).c_str());
	if (!p->answered.insert(ser).second)
		VIOL("reply_twice", "peer%d: request #%u answered twice", p->idx, ser);
	p->frames++;
	sim_stat("replies_delivered", 1);
}

static void
parse_frames(QPeer *p)
{
	for (;;) {
		if (p->acc.size() < 8)
			return;
		const uint8_t *a = (const uint8_t *) p->acc.data();
		if (get32(a) != 0 || get32(a + 4) > (1u << 20))
			VIOL("altered_message", "peer%d read a frame with an absurd length word", p->idx);
		size_t len = get32(a + 4);
		if (p->acc.size() < 8 + len)
			return;
		check_reply(p, a + 8, len);
		p->acc.erase(0, 8 + len);
	}
}

// reads only while `reading` is set; leaves when `stop` is set and the line has been silent for 30 ms
static void
peer_reader(void *a)
{
	QPeer  *p = (QPeer *) a;
	uint8_t buf[2048];
	for (;;) {
		sim_wait_flag(&p->reading, 0);
		long n = simnet_read_blocking(p->fd, buf, sizeof(buf), 30 * MS);
		if (n > 0) {
			p->acc.append((const char *) buf, (size_t) n);
			parse_frames(p);
			if (p->pace_ns)
				sim_sleep_ns(p->pace_ns);
			continue;
		}
		if (n == 0) {
			sim_probe("c04_rq_peer_eof");
			break;
		}
		if (errno != ETIMEDOUT) {
			sim_probe("c04_rq_peer_read_error");
			break;
		}
		if (p->stop)
			break;
	}
	p->exited = 1;
}

// --------------------------------------------------------------- contexts ---
struct QWorld;
struct QCtx {
	QWorld  *w;
	int      idx;
	bool     is_sock;
	nng_ctx  ctx;
	bool     have; // holds a request it has not answered yet
	int      cur_peer;
	uint32_t cur_serial;
	bool     last_send_ok; // the last thing this context did was a send that was accepted (result 0)
};
struct QWorld {
	nng_socket           rep;
	std::vector<QPeer *> peers;
	std::vector<UAio *>  aios;  // every aio of the run (each used once), freed at the end
	std::vector<UAio *>  sends; // sends not yet reaped
	int                  reached;
};

static UAio *
new_aio(QWorld *w)
{
	UAio *u = new UAio();
	if (u->aio == NULL)
		h_fatal("nng_aio_alloc failed");
	w->aios.push_back(u);
	return u;
}

static UAio *
recv_submit(QCtx *c, nng_duration tmo)
{
	UAio *u = new_aio(c->w);
	nng_aio_set_timeout(u->aio, tmo);
	u->arm("rep_recv");
	if (c->is_sock)
		nng_socket_recv(c->w->rep, u->aio);
	else
		nng_ctx_recv(c->ctx, u->aio);
	return u;
}

static void
recv_finish(QCtx *c, UAio *u)
{
	nng_err rv = u->wait(0);
	if (rv != 0)
		sim_inconclusive("rep ctx%d did not receive the request that was sent to it (%d)", c->idx, (int) rv);
	nng_msg       *m = nng_aio_get_msg(u->aio);
	const uint8_t *b = (const uint8_t *) nng_msg_body(m);
	if (nng_msg_len(m) != 6 || b[0] != 'Q')
		VIOL("altered_message", "rep ctx%d received a malformed request", c->idx);
	c->have         = true;
	c->cur_peer     = b[1];
	c->cur_serial   = get32(b + 2);
	c->last_send_ok = false;
	nng_msg_free(m);
	sim_event("rep ctx%d: received request peer%d#%u", c->idx, c->cur_peer, c->cur_serial);
}

// the reply's body names the request this context received last
static nng_msg *
make_reply(QCtx *c, size_t bodylen, char kind)
{
	nng_msg *m = NULL;
	if (bodylen < TRAILER)
		bodylen = TRAILER;
	MUST(nng_msg_alloc(&m, bodylen));
	uint8_t *b = (uint8_t *) nng_msg_body(m);
	for (size_t i = 0; i + TRAILER < bodylen; i++)
		b[i] = (uint8_t) (c->cur_serial * 31 + i);
	uint8_t *t = b + bodylen - TRAILER;
	t[0]       = 'A';
	t[1]       = (uint8_t) c->cur_peer;
	put32(t + 2, c->cur_serial);
	t[6] = (uint8_t) c->idx;
	t[7] = (uint8_t) kind;
	put32(t + 8, (uint32_t) bodylen);
	return m;
}

static UAio *
send_submit(QCtx *c, size_t bodylen, char kind, nng_duration tmo)
{
	UAio *u = new_aio(c->w);
	nng_aio_set_msg(u->aio, make_reply(c, bodylen, kind));
	nng_aio_set_timeout(u->aio, tmo);
	u->arm("rep_send");
	sim_event("rep ctx%d: reply (%c, %zu bytes, timeout %d) to peer%d#%u", c->idx, kind, bodylen, (int) tmo, c->cur_peer,
	    c->cur_serial);
	c->have = false;
	if (c->is_sock)
		nng_socket_send(c->w->rep, u->aio);
	else
		nng_ctx_send(c->ctx, u->aio);
	c->w->sends.push_back(u);
	return u;
}

// a completed send: give the message back if it was not taken
static void
reap_send(QWorld *w, UAio *u)
{
	if (u->result != 0) {
		nng_msg *m = nng_aio_get_msg(u->aio);
		if (m != NULL) {
			nng_aio_set_msg(u->aio, NULL);
			nng_msg_free(m);
		}
	}
	for (size_t i = 0; i < w->sends.size(); i++)
		if (w->sends[i] == u) {
			w->sends.erase(w->sends.begin() + (long) i);
			break;
		}
}

// a send without a receive before it must be refused with NNG_ESTATE
static void
expect_estate(QCtx *c, const char *cls_ok, const char *cls_other, const char *when)
{
	UAio *u = new_aio(c->w);
	c->cur_peer   = 0xee; // names nobody: if it is sent all the same, the peers complain too
	c->cur_serial = 0xeeeeeeee;
	nng_aio_set_msg(u->aio, make_reply(c, TRAILER, 'X'));
	nng_aio_set_timeout(u->aio, 200);
	u->arm("rep_send_out_of_order");
	if (c->is_sock)
		nng_socket_send(c->w->rep, u->aio);
	else
		nng_ctx_send(c->ctx, u->aio);
	nng_err rv = u->wait(0);
	sim_event("rep ctx%d: send %s -> %d", c->idx, when, (int) rv);
	if (rv != 0) {
		nng_msg_free(nng_aio_get_msg(u->aio));
		nng_aio_set_msg(u->aio, NULL);
	}
	if (rv == 0)
		VIOL(cls_ok, "rep ctx%d: a send %s was accepted; it must fail with NNG_ESTATE", c->idx, when);
	if (rv != NNG_ESTATE)
		VIOL(cls_other, "rep ctx%d: a send %s returned %d, expected NNG_ESTATE", c->idx, when, (int) rv);
}

// peer sends a request and context c receives it; now and then the receive is posted first, and a second
// concurrent receive is tried on top of it
static void
exchange_in(QCtx *c, QPeer *p)
{
	if (W(0, 3) == 0) {
		UAio *u = recv_submit(c, 3000);
		if (W(0, 1)) {
			UAio   *u2 = recv_submit(c, 200);
			nng_err rv = u2->wait(0);
			sim_event("rep ctx%d: second concurrent receive -> %d", c->idx, (int) rv);
			if (rv == 0) {
				nng_msg_free(nng_aio_get_msg(u2->aio));
				VIOL("second_recv_not_estate", "rep ctx%d: a second concurrent receive delivered a message", c->idx);
			}
			if (rv != NNG_ESTATE)
				VIOL("second_recv_not_estate", "rep ctx%d: a second concurrent receive returned %d, expected NNG_ESTATE",
				    c->idx, (int) rv);
		}
		uint32_t ser = peer_request(p);
		recv_finish(c, u);
		if (c->cur_peer != p->idx || c->cur_serial != ser)
			h_fatal("script out of step: ctx%d got peer%d#%u, expected peer%d#%u", c->idx, c->cur_peer, c->cur_serial,
			    p->idx, ser);
		return;
	}
	uint32_t ser = peer_request(p);
	if (W(0, 1))
		h_settle();
	UAio *u = recv_submit(c, 3000);
	recv_finish(c, u);
	if (c->cur_peer != p->idx || c->cur_serial != ser)
		h_fatal("script out of step: ctx%d got peer%d#%u, expected peer%d#%u", c->idx, c->cur_peer, c->cur_serial, p->idx,
		    ser);
}

// H answers a request of peer p with a reply far larger than the connection takes unread
static void
make_busy(QWorld *w, QCtx *h, QPeer *p)
{
	exchange_in(h, p);
	UAio *u = send_submit(h, (size_t) W(9000, 16000), 'L', 5000);
	h_settle();
	if (u->poll()) {
		reap_send(w, u);
		h->last_send_ok = u->result == 0;
	} else {
		sim_probe("c04_rq_large_reply_queued_itself");
	}
}

// let the peers read, in a drawn order and pace, until every send has completed and the line is silent
static void
drain(QWorld *w)
{
	size_t           n = w->peers.size();
	std::vector<int> order;
	for (size_t i = 0; i < n; i++)
		order.push_back((int) i);
	for (size_t i = 0; i + 1 < n; i++) {
		size_t j = i + (size_t) W(0, (long) (n - 1 - i));
		std::swap(order[i], order[j]);
	}
	for (size_t i = 0; i < n; i++) {
		QPeer *p   = w->peers[(size_t) order[i]];
		p->pace_ns = W(0, 2) == 0 ? (uint64_t) W(1, 800) * 1000 : 0;
		sim_event("peer%d: starts reading", p->idx);
		p->reading = 1;
		long g = W(0, 3);
		if (g == 1)
			sim_sleep_ns((uint64_t) W(1, 3000) * 1000);
		else if (g == 2)
			sim_sleep_ms(20);
		else if (g == 3)
			h_settle();
	}
	while (!w->sends.empty()) {
		UAio *u = w->sends[0];
		u->wait(0); // every send has a finite time-out
		sim_event("send %p -> %d", (void *) u, (int) u->result);
		reap_send(w, u);
	}
	sim_sleep_ms(40);
	h_settle();
	for (auto p : w->peers)
		p->reading = 0;
	sim_sleep_ms(35); // a reader still inside its read (30 ms) parks before the next round
}

static void
one_round(QWorld *w, QCtx *T, QCtx *H, int round)
{
	size_t np = w->peers.size();
	QPeer *A  = w->peers[(size_t) W(0, (long) np - 1)];
	QPeer *B  = A;
	if (W(0, 6) != 0) { // mostly another connection
		size_t k = (size_t) W(0, (long) np - 2);
		B        = w->peers[k >= (size_t) A->idx ? k + 1 : k];
	}
	bool busyA = W(0, 7) != 0;
	bool busyB = B != A && W(0, 2) != 0;
	int  mode  = (int) W(0, 3);
	sim_event("round %d: A=peer%d B=peer%d busyA=%d busyB=%d mode=%d T=ctx%d", round, A->idx, B->idx, (int) busyA,
	    (int) busyB, mode, T->idx);
	// 1. connections busy
	if (busyA)
		make_busy(w, H, A);
	if (busyB)
		make_busy(w, H, B);
	// 2. T's first reply, which has to queue
	exchange_in(T, A);
	nng_duration tmo = 5000;
	if (mode == 1)
		tmo = (nng_duration) W(10, 60);
	if (mode == 3) {
		nng_duration st = (nng_duration) W(10, 60);
		if (T->is_sock)
			MUST(nng_socket_set_ms(w->rep, NNG_OPT_SENDTIMEO, st));
		else
			MUST(nng_ctx_set_ms(T->ctx, NNG_OPT_SENDTIMEO, st));
		tmo = NNG_DURATION_DEFAULT;
	}
	UAio *old = send_submit(T, (size_t) W(TRAILER, 400), 'a', tmo);
	if (mode == 3) {
		if (T->is_sock)
			MUST(nng_socket_set_ms(w->rep, NNG_OPT_SENDTIMEO, 5000));
		else
			MUST(nng_ctx_set_ms(T->ctx, NNG_OPT_SENDTIMEO, 5000));
	}
	if (!busyA || W(0, 2) != 0) // without the settle: busy connection, so "not completed" means queued
		h_settle();
	bool queued  = !old->poll();
	bool old_end = false; // the queued send has been ended by the script
	if (!queued) {
		sim_probe("c04_rq_first_reply_not_queued");
		reap_send(w, old);
		T->last_send_ok = old->result == 0;
		if (T->last_send_ok && W(0, 1))
			expect_estate(T, "second_reply_ok", "second_reply_not_estate", "after an accepted reply, with no receive since");
	}
	auto end_old = [&]() {
		if (mode == 2) {
			sim_event("cancel of the queued reply");
			nng_aio_cancel(old->aio);
		}
		old->wait(0);
		sim_event("queued reply ended with %d", (int) old->result);
		if (old->result == 0)
			sim_probe("c04_rq_queued_reply_sent_before_end");
		reap_send(w, old);
		old_end = true;
	};
	// 2b. in some runs the queued send ends before anything newer is received
	if (queued && mode != 0 && W(0, 3) == 0) {
		end_old();
		sim_probe("c04_rq_ended_without_newer_request");
		if (old->result != 0 && W(0, 2) == 0) {
			// what a send after a FAILED send does is not the statement's business: counted only
			UAio *u = send_submit(T, TRAILER, 'r', 200);
			// (it names the request T received last, A's: correct if it goes out)
			h_settle();
			if (u->poll() && u->result == NNG_ESTATE)
				sim_probe("c04_rq_resend_after_failed_send_refused");
			else
				sim_probe("c04_rq_resend_after_failed_send_taken");
			if (u->poll())
				reap_send(w, u);
		}
	}
	// 3. the newer request
	exchange_in(T, B);
	bool interleaved = queued && !old_end && !old->poll();
	if (interleaved)
		sim_probe("c04_rq_newer_request_received_while_reply_queued");
	// 4. end the queued send now ... or only after the newer reply
	bool late = queued && !old_end && mode != 0 && W(0, 4) == 0;
	if (queued && !old_end && mode != 0 && !late) {
		end_old();
		if (interleaved)
			sim_probe("c04_rq_queued_reply_ended_after_newer_request");
	}
	// 5. the newer reply
	bool still_queued = queued && !old_end && !old->poll();
	UAio *nu          = send_submit(T, (size_t) W(TRAILER, 400), 'b', 5000);
	if (still_queued) {
		sim_probe("c04_rq_reply_supersedes_queued_reply");
		if (busyB)
			sim_probe("c04_rq_superseding_reply_queued_too");
	}
	if (interleaved) {
		w->reached++;
	}
	if (W(0, 2) != 0)
		h_settle();
	if (queued && !old_end) {
		if (late)
			end_old();
		else if (old->poll()) {
			sim_event("superseded reply ended with %d", (int) old->result);
			reap_send(w, old);
		}
	}
	(void) nu;
	// 6. everything is read
	drain(w);
	T->last_send_ok = nu->result == 0;
	if (T->last_send_ok && W(0, 1))
		expect_estate(T, "second_reply_ok", "second_reply_not_estate", "after an accepted reply, with no receive since");
}

static void
rq_run(Params *p)
{
	(void) p;
	QWorld w;
	w.reached = 0;
	MUST(nng_rep0_open(&w.rep));
	MUST(nng_socket_set_ms(w.rep, NNG_OPT_SENDTIMEO, 5000));
	MUST(nng_socket_set_ms(w.rep, NNG_OPT_RECVTIMEO, 3000));
	MUST(nng_listen(w.rep, h_url(TR_TCP, QPORT).c_str(), NULL, 0));
	int  np      = 2 + (int) W(0, 1);
	bool t_sock  = W(0, 2) == 0; // the target is the socket's own context
	int  rounds  = 1 + (int) W(0, 1);
	QCtx T, H;
	T.w = H.w = &w;
	T.idx     = t_sock ? 0 : 1;
	T.is_sock = t_sock;
	H.idx     = 2;
	H.is_sock = false;
	T.have = H.have = false;
	T.last_send_ok = H.last_send_ok = false;
	T.cur_peer = H.cur_peer = 0;
	T.cur_serial = H.cur_serial = 0;
	if (!t_sock)
		MUST(nng_ctx_open(&T.ctx, w.rep));
	MUST(nng_ctx_open(&H.ctx, w.rep));
	for (int i = 0; i < np; i++) {
		QPeer *pr       = new QPeer();
		pr->idx         = i;
		pr->fd          = wire_connect_req(QPORT);
		pr->next_serial = 1;
		pr->pace_ns     = 0;
		pr->reading = pr->stop = pr->exited = 0;
		pr->frames                          = 0;
		w.peers.push_back(pr);
	}
	h_settle();
	sim_event("c04_repqueue peers=%d target=%s rounds=%d", np, t_sock ? "socket" : "context", rounds);
	for (auto pr : w.peers)
		sim_spawn("rqpeer", peer_reader, pr, 0);

	// send before any receive
	if (W(0, 1))
		expect_estate(&T, "send_before_recv_ok", "send_before_recv_not_estate", "before any receive");

	for (int r = 0; r < rounds; r++)
		one_round(&w, &T, &H, r);

	// epilogue: one plain exchange per peer, served by T or H, with the peers reading
	for (auto pr : w.peers)
		pr->reading = 1;
	for (auto pr : w.peers) {
		QCtx *c = W(0, 1) ? &T : &H;
		exchange_in(c, pr);
		UAio *u = send_submit(c, (size_t) W(TRAILER, 200), 'e', 5000);
		u->wait(0);
		reap_send(&w, u);
	}
	sim_sleep_ms(40);
	h_settle();
	if (w.reached > 0)
		sim_stat("nontrivial", 1);
	for (auto pr : w.peers) {
		pr->stop    = 1;
		pr->reading = 1;
	}
	sim_join_all();
	for (auto pr : w.peers) {
		close(pr->fd);
		delete pr;
	}
	if (!t_sock)
		MUST(nng_ctx_close(T.ctx));
	MUST(nng_ctx_close(H.ctx));
	MUST(nng_socket_close(w.rep));
	for (auto u : w.aios)
		delete u;
}

static void
rq_cfg(sim_config *cfg, Params *p)
{
	cfg->sndbuf_min = 512;
	cfg->sndbuf_max = 4096;
	long net        = p->draw("net", 0, 3);
	if (net == 1) {
		cfg->seg_mode = 3;
	} else if (net == 2) {
		cfg->seg_mode   = 2;
		cfg->seg_k      = 700;
		cfg->lat_min_ns = 10000;
		cfg->lat_max_ns = 2000000;
	} else if (net == 3) {
		cfg->lat_min_ns = 200000;
		cfg->lat_max_ns = 3000000;
	}
}
SCENARIO(c04_repqueue, "C04", rq_cfg, rq_run);

} // namespace
