// C20, second file: an allocation failure while TWO connections are arriving
// at a stream listener (tcp, ipc) at nearly the same time.
//
// The programs of c20_alloc.cc connect one peer at a time, so whatever an
// allocation failure in the accept path does, no other connection is half-way
// through the listener when it happens.  Here two raw wire peers A and B
// connect back to back; B negotiates at once and sends a message, A is held in
// the SP negotiation (it sends its SP header `hold` ms later) and then sends a
// message too.  Enumerated over k (lib/plans.py, "enum_alloc"), the failing
// allocation lands - among all the other places - on the accept of B while A
// is still negotiating, and A finishes negotiating while the listener is
// still recovering from the failure.  Neither peer ever reconnects, and no
// further connection is made until the verdict: whatever the listener forgot
// stays forgotten.
// Variant nnga=1: A is an nng socket of the matching protocol (PUSH, REQ,
// PAIR) dialing through a network with 8..70 ms latency, which is what keeps
// its negotiation open while B (raw, as before) arrives; its dialer redials
// only if its connection is actually taken down.
//
// Oracle -> phrase of the statement (C20):
//   unclean_error       an API call returns something other than success or
//                       NNG_ENOMEM (a timeout where nothing had to be there is
//                       no error)      "the affected call fails cleanly with
//                                       NNG_ENOMEM"
//   connection_stuck    after ONE failed allocation neither A's nor B's
//                       message (each repeated on its connection) reaches the
//                       listening socket, although at most one of the two
//                       connections was taken down
//                                      "(or the documented best-effort loss of
//                                       one message or one connection)" - one,
//                                       not two; "does not ... hang"; "does not
//                                       leave the object in a state where later
//                                       calls misbehave"
//     (PAIR: the socket itself turns a second peer away, which the peer sees
//      as a closed connection; a run in which BOTH connections were closed by
//      the library is therefore not judged.)
//   stuck_after_enomem  a fresh connection made afterwards does not get a
//                       message through in three attempts
//                                      "does not leave the object in a state
//                                       where later calls misbehave"
//   corrupt_message     a delivered message fails its checksum   (as c20_alloc)
//   crash / deadlock / leak / nng_fini: framework (sanitizers, deadlock
//                       detector, allocator ledger after nng_fini)
// Only counted (sim_probe), never asserted: which of the two connections was
// lost, whether REP's reply made it back to the wire, whether the library's SP
// greeting was seen, how many repeats were needed.
#include "../harness/util.h"

#include <arpa/inet.h>
#include <errno.h>
#include <netinet/in.h>
#include <sys/socket.h>
#include <sys/un.h>
#include <unistd.h>

namespace {

const uint64_t MS = 1000000ull;

struct LProto {
	const char *name;
	int (*open)(nng_socket *);
	int (*open_peer)(nng_socket *);
	uint16_t peer; // protocol number the raw peer announces
	int      kind; // 0 one-way in, 1 request/reply, 2 pair (one peer at a time)
	int      hdr;  // 0 none, 1 request id, 2 hop count
};
const LProto LP[] = {
	{ "pull", nng_pull0_open, nng_push0_open, 0x50, 0, 0 },
	{ "rep", nng_rep0_open, nng_req0_open, 0x30, 1, 1 },
	{ "pair0", nng_pair0_open, nng_pair0_open, 0x10, 2, 0 },
	{ "pair1", nng_pair1_open, nng_pair1_open, 0x11, 2, 2 },
};

struct Peer {
	char                 name;
	bool                 nng; // an nng socket instead of a raw wire peer
	nng_socket           s;
	int                  fd;
	uint16_t             origin;
	bool                 open;      // the library has not hung up on us
	bool                 hello;     // our SP header is out
	int                  sent;      // messages written
	int                  delivered; // messages of ours the socket received
	int                  replies;   // frames that came back (REP)
	std::vector<uint8_t> in;        // everything the library wrote to us
};

struct World {
	const LProto *lp;
	int           tr;
	int           idx;
	nng_socket    L;
	Peer          P[2];
};

// a call on the listening socket: clean means success, NNG_ENOMEM once the
// fault has fired, or "nothing there" for a receive
int
chk2(int rv, const char *what, bool nothing_ok)
{
	if (rv == 0)
		return 0;
	if (nothing_ok && (rv == NNG_ETIMEDOUT || rv == NNG_EAGAIN))
		return rv;
	sim_event("%s -> %d (%s)", what, rv, nng_strerror((nng_err) rv));
	if (sim_alloc_fault_hit() == 0)
		h_fatal("%s failed with %d (%s) without any injected fault", what, rv, nng_strerror((nng_err) rv));
	if (rv == NNG_ENOMEM) {
		sim_probe("c20_enomem_returned");
		return rv;
	}
	VIOL("unclean_error", "%s returned %d (%s) after an allocation failure; expected success or NNG_ENOMEM", what, rv,
	    nng_strerror((nng_err) rv));
	return rv;
}

#define RETRY2(expr, what)                                                    \
	do {                                                                  \
		int tries_ = 0;                                               \
		while (chk2((expr), what, false) != 0) {                      \
			if (++tries_ > 3)                                     \
				VIOL("stuck_after_enomem", "%s keeps failing after a single allocation failure", what); \
		}                                                             \
	} while (0)

int
wire_open(int tr, int idx)
{
	int fd, rv;
	if (tr == TR_IPC) {
		struct sockaddr_un un;
		memset(&un, 0, sizeof(un));
		un.sun_family = AF_UNIX;
		snprintf(un.sun_path, sizeof(un.sun_path), "/sim/sock%d", idx);
		fd = simnet_socket(AF_UNIX, SOCK_STREAM);
		rv = simnet_connect_blocking(fd, &un, sizeof(un), 5000 * MS);
	} else {
		struct sockaddr_in in;
		memset(&in, 0, sizeof(in));
		in.sin_family      = AF_INET;
		in.sin_port        = htons((uint16_t) (5000 + idx));
		in.sin_addr.s_addr = htonl(0x7f000001);
		fd                 = simnet_socket(AF_INET, SOCK_STREAM);
		rv                 = simnet_connect_blocking(fd, &in, sizeof(in), 5000 * MS);
	}
	if (fd < 0 || rv != 0)
		h_fatal("raw peer cannot connect (fd %d rv %d errno %d)", fd, rv, errno);
	return fd;
}

void
peer_init(Peer &p, char name, uint16_t origin, int fd)
{
	p.name      = name;
	p.nng       = false;
	p.fd        = fd;
	p.origin    = origin;
	p.open      = true;
	p.hello     = false;
	p.sent      = 0;
	p.delivered = 0;
	p.replies   = 0;
	p.in.clear();
}

// take what the library wrote so far; notice that it hung up
void
pump(World &w, Peer &p)
{
	uint8_t buf[512];
	if (p.nng)
		return;
	while (p.open && simnet_poll_in(p.fd)) {
		errno  = 0;
		long r = simnet_read_blocking(p.fd, buf, sizeof(buf), 1 * MS);
		if (r > 0) {
			p.in.insert(p.in.end(), buf, buf + r);
			continue;
		}
		if (r < 0 && errno == ETIMEDOUT)
			break;
		p.open = false;
		sim_event("peer %c: the library closed the connection (%s)", p.name, r == 0 ? "eof" : strerror(errno));
	}
	// frames after the 8 byte greeting (REP's replies)
	size_t off = 8, hl = w.tr == TR_IPC ? 9 : 8;
	int    n   = 0;
	while (p.in.size() >= off + hl) {
		uint64_t len = 0;
		for (size_t i = hl - 8; i < hl; i++)
			len = (len << 8) | p.in[off + i];
		if (len > 4096 || p.in.size() < off + hl + len)
			break;
		off += hl + (size_t) len;
		n++;
	}
	p.replies = n;
}

void
wire_write(Peer &p, const std::vector<uint8_t> &b)
{
	if (!p.open)
		return;
	errno = 0;
	if (simnet_write_full(p.fd, b.data(), b.size(), 1000 * MS) != (long) b.size()) {
		p.open = false;
		sim_event("peer %c: write failed (%s): the library closed the connection", p.name, strerror(errno));
	}
}

void
peer_hello(World &w, Peer &p)
{
	std::vector<uint8_t> h = { 0, 'S', 'P', 0, (uint8_t) (w.lp->peer >> 8), (uint8_t) w.lp->peer, 0, 0 };
	if (p.nng)
		return;
	sim_event("peer %c: SP header", p.name);
	wire_write(p, h);
	p.hello = true;
}

void
peer_msg(World &w, Peer &p)
{
	std::vector<uint8_t> pay;
	if (p.nng) {
		// (waits up to the socket's 100 ms send timeout for a connection)
		nng_msg *m = tag_msg(40 + 8 * (size_t) (p.sent % 8), p.origin, 0, (uint32_t) p.sent);
		sim_event("peer %c: nng_sendmsg %d", p.name, p.sent);
		p.sent++;
		if (m == NULL) {
			sim_probe("c20_enomem_returned");
			return;
		}
		if (chk2(nng_sendmsg(p.s, m, 0), "nng_sendmsg(peer)", true) != 0)
			nng_msg_free(m);
		return;
	}
	if (w.lp->hdr == 1) {
		uint32_t id = 0x80000000u | ((uint32_t) p.origin << 8) | (uint32_t) p.sent;
		pay         = { (uint8_t) (id >> 24), (uint8_t) (id >> 16), (uint8_t) (id >> 8), (uint8_t) id };
	} else if (w.lp->hdr == 2) {
		pay = { 0, 0, 0, 1 };
	}
	size_t len = 40 + 8 * (size_t) p.sent;
	size_t h   = pay.size();
	pay.resize(h + len);
	tag_fill(pay.data() + h, len, p.origin, 0, (uint32_t) p.sent);
	std::vector<uint8_t> f;
	if (w.tr == TR_IPC)
		f.push_back(1);
	for (int i = 0; i < 4; i++)
		f.push_back(0);
	f.push_back((uint8_t) (pay.size() >> 24));
	f.push_back((uint8_t) (pay.size() >> 16));
	f.push_back((uint8_t) (pay.size() >> 8));
	f.push_back((uint8_t) pay.size());
	f.insert(f.end(), pay.begin(), pay.end());
	sim_event("peer %c: message %d", p.name, p.sent);
	wire_write(p, f);
	p.sent++;
}

Peer *
peer_of(World &w, std::vector<Peer *> &extra, uint16_t origin)
{
	for (Peer &p : w.P)
		if (p.origin == origin)
			return &p;
	for (Peer *p : extra)
		if (p->origin == origin)
			return p;
	return NULL;
}

// one blocking receive (the socket's 250 ms timeout) and whatever else is there
void
take(World &w, std::vector<Peer *> &extra, bool wait = true)
{
	for (int n = wait ? 0 : 1; n < 16; n++) {
		nng_msg *m  = NULL;
		int      rv = chk2(nng_recvmsg(w.L, &m, n == 0 ? 0 : NNG_FLAG_NONBLOCK), "nng_recvmsg", true);
		if (rv == NNG_ENOMEM)
			continue;
		if (rv != 0)
			return;
		Tag t = tag_parse((uint8_t *) nng_msg_body(m), nng_msg_len(m));
		nng_msg_free(m);
		if (!t.ok)
			VIOL("corrupt_message", "received message fails its checksum");
		Peer *p = peer_of(w, extra, t.origin);
		if (p == NULL)
			h_fatal("message of unknown origin %u", t.origin);
		sim_event("received message %u of peer %c", t.serial, p->name);
		p->delivered++;
		if (w.lp->kind == 1) {
			nng_msg *r = tag_msg(32, 1, 0, t.serial);
			if (r == NULL) {
				sim_probe("c20_enomem_returned");
				continue;
			}
			// no peer reads slowly here: a send that times out is not clean
			if (chk2(nng_sendmsg(w.L, r, 0), "nng_sendmsg(reply)", false) != 0)
				nng_msg_free(r);
		}
	}
}

void
accept2_cfg(sim_config *cfg, Params *p)
{
	static const uint64_t lat[][2] = { { 10, 20 }, { 8, 12 }, { 25, 40 }, { 40, 70 } };
	if (p->i("nnga", 0)) {
		// the latency is what holds A in the negotiation
		long i          = p->draw("lat", 0, 3);
		cfg->lat_min_ns = lat[i][0] * MS;
		cfg->lat_max_ns = lat[i][1] * MS;
	} else {
		// raw peers: mostly none, sometimes a little
		long i = p->draw("lat", 0, 3);
		if (i == 3) {
			cfg->lat_min_ns = 1 * MS;
			cfg->lat_max_ns = 15 * MS;
		}
	}
	// the SP header in one piece, or byte by byte / in random pieces
	long seg = p->draw("seg", 0, 3);
	if (seg == 2)
		cfg->seg_mode = 1;
	else if (seg == 3)
		cfg->seg_mode = 3;
}

void
accept2_run(Params *p)
{
	World w;
	w.lp  = &LP[p->i("lproto", 0) % (long) (sizeof(LP) / sizeof(LP[0]))];
	w.tr  = p->i("tr", TR_TCP) == TR_IPC ? TR_IPC : TR_TCP;
	w.idx = 91;
	static const int holds[] = { 20, 5, 45, 70, 0, 90 };
	int              hold    = holds[p->draw("hold", 0, 5)];
	if (p->has("hold_ms"))
		hold = (int) p->i("hold_ms", hold);
	const bool          nnga = p->i("nnga", 0) != 0;
	std::vector<Peer *> extra;

	sim_stat("init_allocs", sim_alloc_count());
	RETRY2(w.lp->open(&w.L), "nng_*_open");
	RETRY2(nng_socket_set_ms(w.L, NNG_OPT_RECVTIMEO, 250), "nng_socket_set_ms");
	RETRY2(nng_socket_set_ms(w.L, NNG_OPT_SENDTIMEO, 250), "nng_socket_set_ms");
	RETRY2(nng_listen(w.L, h_url(w.tr, w.idx).c_str(), NULL, 0), "nng_listen");
	sim_quiesce(2 * MS);

	// A and B connect back to back; B is through at once, A dawdles
	sim_event("%s listener on %s, hold %d ms", w.lp->name, h_tr_name(w.tr), hold);
	Peer &A = w.P[0], &B = w.P[1];
	if (nnga) {
		peer_init(A, 'A', 10, -1);
		A.nng = true;
		RETRY2(w.lp->open_peer(&A.s), "nng_*_open");
		RETRY2(nng_socket_set_ms(A.s, NNG_OPT_SENDTIMEO, 100), "nng_socket_set_ms");
		RETRY2(nng_socket_set_ms(A.s, NNG_OPT_RECONNMINT, 10), "nng_socket_set_ms");
		RETRY2(nng_socket_set_ms(A.s, NNG_OPT_RECONNMAXT, 20), "nng_socket_set_ms");
		if (w.lp->kind == 1)
			RETRY2(nng_socket_set_ms(A.s, NNG_OPT_REQ_RESENDTIME, 100), "nng_socket_set_ms");
		RETRY2(nng_dial(A.s, h_url(w.tr, w.idx).c_str(), NULL, NNG_FLAG_NONBLOCK), "nng_dial");
		// its connection is made; the SP headers are on their way (latency)
		sim_sleep_ms(2);
		peer_init(B, 'B', 11, wire_open(w.tr, w.idx));
		peer_hello(w, B);
		peer_msg(w, B);
		peer_msg(w, A);
	} else {
		peer_init(A, 'A', 10, wire_open(w.tr, w.idx));
		peer_init(B, 'B', 11, wire_open(w.tr, w.idx));
		peer_hello(w, B);
		peer_msg(w, B);
		if (hold > 0)
			sim_sleep_ms((uint64_t) hold);
		peer_hello(w, A);
		peer_msg(w, A);
	}

	// until every connection the library kept has got a message through
	// (PAIR: until one has); a message that went missing is repeated on the
	// same connection, nobody reconnects
	const bool pair = w.lp->kind == 2;
	for (int round = 0; round < 8; round++) {
		take(w, extra);
		pump(w, A);
		pump(w, B);
		bool done = pair ? (A.delivered + B.delivered > 0 || (!A.open && !B.open))
		                 : ((A.delivered > 0 || !A.open) && (B.delivered > 0 || !B.open));
		if (done)
			break;
		if (round % 2 == 1) {
			for (Peer &q : w.P)
				if (q.open && q.delivered == 0) {
					sim_probe("c20_message_repeated");
					peer_msg(w, q);
				}
		}
	}
	// REP: give the replies a moment to reach the wire
	if (w.lp->kind == 1) {
		sim_sleep_ms(80); // (more than the network's latency)
		sim_quiesce(2 * MS);
		pump(w, A);
		pump(w, B);
		for (Peer &q : w.P)
			if (!q.nng && q.delivered > 0 && q.replies == 0)
				sim_probe(q.open ? "c20_reply_missing" : "c20_reply_missing_conn_closed");
	}
	for (Peer &q : w.P)
		if (!q.nng && q.in.size() < 8)
			sim_probe("c20_no_greeting_seen");

	const bool hit   = sim_alloc_fault_hit() > 0;
	int        nodel = (A.delivered == 0) + (B.delivered == 0);
	sim_event("verdict: A %s delivered %d, B %s delivered %d, fault %s", A.open ? "open" : "closed", A.delivered,
	    B.open ? "open" : "closed", B.delivered, hit ? "fired" : "not fired");
	if (!hit) {
		if (nodel > (pair ? 1 : 0))
			h_fatal("without any injected fault: A delivered %d (open %d), B delivered %d (open %d)", A.delivered,
			    (int) A.open, B.delivered, (int) B.open);
	} else {
		if (A.delivered == 0 && !pair)
			sim_probe(A.open ? "c20_A_lost_conn_open" : "c20_A_lost_conn_closed");
		if (B.delivered == 0 && !pair)
			sim_probe(B.open ? "c20_B_lost_conn_open" : "c20_B_lost_conn_closed");
		if (nodel == 2) {
			if (pair && !A.open && !B.open) {
				// one turned away by the socket, one lost to the failure
				sim_probe("c20_pair_both_closed");
			} else {
				VIOL("connection_stuck",
				    "%s/%s: one failed allocation, and neither of two connections gets a message through: peer A "
				    "(connection %s, %d messages written) and peer B (connection %s, %d messages written) - only one "
				    "connection may be lost",
				    w.lp->name, h_tr_name(w.tr), A.open ? "still open" : "closed by the library", A.sent,
				    B.open ? "still open" : "closed by the library", B.sent);
			}
		}
	}
	if (A.nng)
		RETRY2(nng_socket_close(A.s), "nng_socket_close");
	else if (A.open)
		close(A.fd);
	if (B.open)
		close(B.fd);
	A.open = B.open = false;
	// (the hang-ups travel with the network's latency: a PAIR socket has to
	// see them before it takes a new peer)
	sim_sleep_ms(80);
	sim_quiesce(3 * MS);
	// (and a PAIR socket holding an unread message of a peer that is gone
	// does not notice the hang-up before the message is taken)
	take(w, extra, false);
	sim_quiesce(3 * MS);

	// afterwards the listener still serves a new connection
	std::vector<Peer> fresh(3);
	bool              served = false;
	for (int attempt = 0; attempt < 3 && !served; attempt++) {
		Peer &c = fresh[(size_t) attempt];
		peer_init(c, (char) ('C' + attempt), (uint16_t) (20 + attempt), wire_open(w.tr, w.idx));
		extra.push_back(&c);
		peer_hello(w, c);
		peer_msg(w, c);
		for (int round = 0; round < 4 && c.delivered == 0; round++) {
			take(w, extra);
			pump(w, c);
			if (!c.open)
				break;
			if (round == 1 && c.delivered == 0)
				peer_msg(w, c);
		}
		served = c.delivered > 0;
		if (!served) {
			if (sim_alloc_fault_hit() == 0)
				h_fatal("without any injected fault: fresh connection %c gets nothing through", c.name);
			sim_probe("c20_fresh_conn_lost");
		}
		if (c.open)
			close(c.fd);
		c.open = false;
		sim_sleep_ms(80);
		sim_quiesce(3 * MS);
		take(w, extra, false);
		sim_quiesce(3 * MS);
	}
	if (!served)
		VIOL("stuck_after_enomem",
		    "%s/%s: after a single allocation failure three fresh connections in a row get no message through",
		    w.lp->name, h_tr_name(w.tr));
	sim_stat("nontrivial", 1);
	RETRY2(nng_socket_close(w.L), "nng_socket_close");
}
SCENARIO(c20_accept2, "C20", accept2_cfg, accept2_run);

} // namespace
