// C02: every asynchronous operation completes exactly once -- disturbances
// that arrive WHILE the submitting call is still running.
//
// The scenarios of c02_aio.cc disturb an operation before the submitting call
// starts or after it has returned.  Here a submitter task and a disturber task
// are released at the same instant and the scheduler decides how the submitting
// call (nng_stream_recv/send, nng_socket_recv/send, nng_ctx_recv, nng_sleep_aio)
// and nng_aio_cancel / nng_aio_abort / nng_aio_stop interleave; in addition
// every operation carries a short time-out (1 ms upwards) and thread stalls are
// injected densely, so that the operation's own deadline passes while the
// submitting call is between "registered with the aio framework" and "queued
// with the provider".  The operations cannot complete by themselves (silent
// peer, full send buffer, socket without a peer), so whatever ends them is the
// disturbance or the time-out.
//
// Oracle clauses and the phrase of the statement each one asserts:
//
//   never_completed      "Each operation started on an nng_aio completes
//                        exactly once ... however completion, nng_aio_cancel/
//                        abort, timeout expiry, nng_aio_stop ... interleave":
//                        every operation here has a finite time-out T, so it
//                        must have completed T + 1 s (injected thread stalls
//                        not counted) after it was released, whatever the
//                        disturber did and whenever it did it (a cancel that
//                        lands before the operation exists is legitimately
//                        forgotten - then the time-out ends the operation).
//   stop_never_returns   same phrase: nng_aio_stop waits for the completion of
//                        the operation; if it has not returned after T + 5 s the
//                        operation never completed.
//   user_callback_twice  "its callback runs exactly once" (UAio, harness/util.cc)
//   early_timeout_user   "A timeout never fires before the configured duration"
//   unexplained_result   "with one final result" / "a cancel, stop or timeout
//                        code is reported only if the operation had not already
//                        completed": the result is NNG_ECANCELED only if
//                        nng_aio_cancel was called, the abort code only if
//                        nng_aio_abort was called with it, NNG_ESTOPPED only if
//                        nng_aio_stop was called, NNG_ETIMEDOUT only with a
//                        time-out; NNG_OK only where the operation can succeed.
//   busy_after_wait      "once nng_aio_stop ... has returned no callback for that
//                        aio is running": nng_aio_busy false after nng_aio_wait.
//
// Counted only (sim_probe), never asserted: which of the racing parties won
// (cancel_won, abort_won, stop_won, timeout_won, forgotten), a receive without
// a peer that reports success.
#include "../harness/util.h"

#include <functional>
#include <set>

namespace {

enum { R_NONE = 0, R_CANCEL, R_ABORT, R_STOP };
static const char *rname[] = { "none", "cancel", "abort", "stop" };

struct Race {
	UAio                 *u;
	const char           *what;
	std::function<void()> submit;
	int                   action;
	nng_err               abort_code;
	nng_duration          timeout;
	uint64_t              s_delay_ns, d_delay_ns;
	volatile int          go;
	volatile int          submitted;
	volatile int          acted;
	int                   tid_s, tid_d;
};

static void
race_submitter(void *a)
{
	Race *r = (Race *) a;
	sim_wait_flag(&r->go, 0);
	if (r->s_delay_ns)
		sim_sleep_ns(r->s_delay_ns);
	r->u->arm(r->what);
	r->submit();
	r->submitted = 1;
}

static void
race_disturber(void *a)
{
	Race *r = (Race *) a;
	sim_wait_flag(&r->go, 0);
	if (r->d_delay_ns)
		sim_sleep_ns(r->d_delay_ns);
	switch (r->action) {
	case R_CANCEL:
		nng_aio_cancel(r->u->aio);
		break;
	case R_ABORT:
		nng_aio_abort(r->u->aio, r->abort_code);
		break;
	case R_STOP: {
		Bounded b("C02", "stop_never_returns", (uint64_t) (r->timeout + 5000) * 1000000ull,
		    "nng_aio_stop racing the submission of %s (timeout %d ms)", r->what, (int) r->timeout);
		nng_aio_stop(r->u->aio);
		break;
	}
	default:
		break;
	}
	r->acted = 1;
}

// One raced operation.  `submit` starts it on r.u->aio; `natural`: results the
// operation may produce by itself.  Returns the result.
static nng_err
race_one(int idx, const char *what, std::function<void(nng_aio *)> submit, const std::set<int> &natural,
    std::function<void(nng_aio *, nng_err)> after = nullptr)
{
	Race r;
	r.u    = new UAio();
	r.what = what;
	r.go = r.submitted = r.acted = 0;
	nng_aio *aio                 = r.u->aio;
	r.submit                     = [&]() { submit(aio); };
	long a                       = W(0, 7);
	// 0 cancel, 1 abort, 2 stop, 3 none (time-out only), 4.. cancel/abort
	r.action = a == 0 ? R_CANCEL : a == 1 ? R_ABORT : a == 2 ? R_STOP : a == 3 ? R_NONE : (a & 1) ? R_ABORT : R_CANCEL;
	static const nng_err codes[] = { NNG_EPROTO, NNG_EAGAIN, NNG_ECONNSHUT, NNG_EINTR };
	r.abort_code                 = codes[W(0, 3)];
	static const nng_duration tmos[] = { 1, 1, 2, 3, 8, 30 };
	r.timeout                        = tmos[W(0, 5)];
	nng_aio_set_timeout(aio, r.timeout);
	// who leads, in units of one scheduling step (200 ns of virtual time)
	long lead    = W(0, 5);
	r.s_delay_ns = lead == 1 ? (uint64_t) W(1, 24) * 200 : 0;
	r.d_delay_ns = lead >= 2 ? (uint64_t) W(1, 24) * 200 : 0;
	sim_event("op %d: %s timeout %d ms, %s (submitter +%llu ns, disturber +%llu ns)", idx, what, (int) r.timeout,
	    rname[r.action], (unsigned long long) r.s_delay_ns, (unsigned long long) r.d_delay_ns);
	r.tid_s = sim_spawn("submit", race_submitter, &r, 0);
	r.tid_d = sim_spawn("disturb", race_disturber, &r, 0);
	uint64_t t0 = sim_now_ns(), st0 = sim_stall_total_ns();
	r.go        = 1;
	// must complete: by the disturbance or by its time-out
	uint64_t budget = (uint64_t) r.timeout * 1000000ull + 1000000000ull;
	while (!(r.submitted && r.u->poll())) {
		uint64_t stalled = sim_stall_total_ns() - st0;
		uint64_t used    = sim_now_ns() - t0;
		if (used > budget + stalled)
			sim_violation("C02", "never_completed",
			    "%s (timeout %d ms, concurrent %s%s) has not completed %.0f ms after it was submitted "
			    "(%.0f ms of them injected stalls)",
			    what, (int) r.timeout, rname[r.action], r.acted ? ", which has returned" : ", which has not returned",
			    (double) used / 1e6, (double) stalled / 1e6);
		if (!r.submitted) {
			sim_sleep_ns(100000);
			continue;
		}
		r.u->wait(50000000ull);
	}
	sim_join(r.tid_s);
	sim_join(r.tid_d);
	nng_aio_wait(aio);
	if (nng_aio_busy(aio))
		sim_violation("C02", "busy_after_wait", "nng_aio_busy true after nng_aio_wait (%s)", what);
	nng_err  res     = r.u->result;
	uint64_t elapsed = r.u->t_done_ns - r.u->t_submit_ns;
	sim_event("  -> %s result=%d after %.3f ms", what, (int) res, (double) elapsed / 1e6);
	bool ok = false;
	if (natural.count((int) res) != 0)
		ok = true;
	if (res == NNG_ETIMEDOUT) {
		ok = true;
		sim_probe(r.action == R_NONE ? "timeout_alone" : "timeout_won");
		if (elapsed + 1000000ull < (uint64_t) r.timeout * 1000000ull)
			sim_violation("C02", "early_timeout_user", "%s: NNG_ETIMEDOUT after %.3f ms with a timeout of %d ms", what,
			    (double) elapsed / 1e6, (int) r.timeout);
	}
	if (res == NNG_ECANCELED && r.action == R_CANCEL) {
		ok = true;
		sim_probe("cancel_won");
	}
	if (res == r.abort_code && r.action == R_ABORT) {
		ok = true;
		sim_probe("abort_won");
	}
	if (res == NNG_ESTOPPED && r.action == R_STOP) {
		ok = true;
		sim_probe("stop_won");
	}
	if (!ok)
		sim_violation("C02", "unexplained_result",
		    "%s completed with %d (%s) but nothing that could cause it happened (concurrent %s, timeout %d ms)", what,
		    (int) res, nng_strerror(res), rname[r.action], (int) r.timeout);
	if (r.u->cb_count != 1)
		sim_violation("C02", "user_callback_count", "%s: callback ran %d times for one submission", what,
		    r.u->cb_count);
	sim_stat("ops", 1);
	sim_stat("nontrivial", 1);
	if (after)
		after(aio, res);
	delete r.u; // nng_aio_free: a later callback would touch freed memory (ASan, aio monitor)
	return res;
}

// Wait for an undisturbed operation with time-out `ms`: it must have completed
// ms + 1 s after its submission (injected stalls not counted).
static void
wait_bounded(UAio *u, nng_duration ms)
{
	uint64_t st0    = sim_stall_total_ns();
	uint64_t budget = (uint64_t) ms * 1000000ull + 1000000000ull;
	while (!u->poll()) {
		uint64_t stalled = sim_stall_total_ns() - st0;
		uint64_t used    = sim_now_ns() - u->t_submit_ns;
		if (used > budget + stalled)
			sim_violation("C02", "never_completed",
			    "%s (timeout %d ms, undisturbed) has not completed %.0f ms after it was submitted "
			    "(%.0f ms of them injected stalls)",
			    u->what, (int) ms, (double) used / 1e6, (double) stalled / 1e6);
		u->wait(50000000ull);
	}
}

// ---------------------------------------------------------------- streams ---
// Byte streams against a silent peer: receives never get data, sends meet a
// full send buffer (the peer never reads).
static void
streams(int tr)
{
	char url[64];
	snprintf(url, sizeof(url), "%s", h_url(tr, 44).c_str());
	nng_stream_listener *l = NULL;
	nng_stream_dialer   *d = NULL;
	MUST(nng_stream_listener_alloc(&l, url));
	MUST(nng_stream_listener_listen(l));
	MUST(nng_stream_dialer_alloc(&d, url));
	UAio ua, ud;
	ua.arm("accept");
	nng_stream_listener_accept(l, ua.aio);
	ud.arm("dial");
	nng_stream_dialer_dial(d, ud.aio);
	if (ua.wait(30000000000ull) != 0 || ud.wait(30000000000ull) != 0)
		h_fatal("stream connect failed %d %d", (int) ua.result, (int) ud.result);
	nng_stream *cs = (nng_stream *) nng_aio_get_output(ud.aio, 0);
	nng_stream *ss = (nng_stream *) nng_aio_get_output(ua.aio, 0);
	// the active end is the dialed or the accepted connection; the other end stays silent
	nng_stream *act = W(0, 1) ? ss : cs;
	sim_event("c02_submitrace streams tr=%s active=%s", h_tr_name(tr), act == cs ? "dialed" : "accepted");
	// fill the send direction of the active end
	static uint8_t junk[4096];
	bool           full = false;
	for (int i = 0; i < 40 && !full; i++) {
		UAio    u;
		nng_iov iov = { junk, sizeof(junk) };
		nng_aio_set_iov(u.aio, 1, &iov);
		nng_aio_set_timeout(u.aio, 5);
		u.arm("fill");
		nng_stream_send(act, u.aio);
		wait_bounded(&u, 5);
		if (u.result == NNG_ETIMEDOUT)
			full = true;
		else if (u.result != NNG_OK)
			h_fatal("fill: stream send -> %d", (int) u.result);
	}
	if (!full)
		h_fatal("could not fill the send buffer");
	// sometimes an older receive is already queued, so that the raced one is not the head of the queue
	UAio                 bg;
	std::vector<uint8_t> bgbuf(64);
	bool                 have_bg = W(0, 2) == 1;
	if (have_bg) {
		nng_iov iov = { bgbuf.data(), bgbuf.size() };
		nng_aio_set_iov(bg.aio, 1, &iov);
		nng_aio_set_timeout(bg.aio, 120000);
		bg.arm("bg_recv");
		nng_stream_recv(act, bg.aio);
	}
	int n = (int) W(3, 40);
	for (int i = 0; i < n; i++) {
		bool                 do_send = W(0, 3) == 0;
		std::vector<uint8_t> buf((size_t) W(1, 200));
		nng_iov              iov = { buf.data(), buf.size() };
		race_one(
		    i, do_send ? "stream_send" : "stream_recv",
		    [&](nng_aio *aio) {
			    nng_aio_set_iov(aio, 1, &iov);
			    if (do_send)
				    nng_stream_send(act, aio);
			    else
				    nng_stream_recv(act, aio);
		    },
		    {});
	}
	if (have_bg) {
		nng_aio_cancel(bg.aio);
		if (bg.wait(5000000000ull) == (nng_err) -1)
			sim_violation("C02", "never_completed", "queued stream receive did not complete within 5 s of nng_aio_cancel");
		if (bg.result != NNG_ECANCELED)
			sim_violation("C02", "unexplained_result", "queued stream receive completed with %d", (int) bg.result);
	}
	nng_stream_close(cs);
	nng_stream_close(ss);
	nng_stream_stop(cs);
	nng_stream_stop(ss);
	nng_stream_free(cs);
	nng_stream_free(ss);
	nng_stream_listener_close(l);
	nng_stream_dialer_close(d);
	nng_stream_listener_free(l);
	nng_stream_dialer_free(d);
}

// ---------------------------------------------------------------- sockets ---
// Socket and context receives (and sends where a send blocks) without a peer,
// and nng_sleep_aio.
struct RProto {
	const char *name;
	int (*open)(nng_socket *);
	bool can_recv, send_blocks, has_ctx;
};
static const RProto rprotos[] = {
	{ "pair0", nng_pair0_open, true, true, false },
	{ "pair1", nng_pair1_open, true, true, false },
	{ "pull", nng_pull0_open, true, false, false },
	{ "push", nng_push0_open, false, true, false },
	{ "sub", nng_sub0_open, true, false, true },
	{ "rep", nng_rep0_open, true, false, true },
	{ "respondent", nng_respondent0_open, true, false, true },
	{ "bus", nng_bus0_open, true, false, false },
	{ "pair0raw", nng_pair0_open_raw, true, true, false },
	{ "repraw", nng_rep0_open_raw, true, false, false },
	{ "reqraw", nng_req0_open_raw, true, false, false },
	{ "busraw", nng_bus0_open_raw, true, false, false },
};

static void
sockets(void)
{
	const RProto &pr = rprotos[W(0, (long) (sizeof(rprotos) / sizeof(rprotos[0])) - 1)];
	nng_socket    s;
	MUST(pr.open(&s));
	nng_ctx ctx;
	bool    have_ctx = pr.has_ctx;
	if (have_ctx)
		MUST(nng_ctx_open(&ctx, s));
	sim_event("c02_submitrace sockets proto=%s", pr.name);
	int n = (int) W(3, 40);
	for (int i = 0; i < n; i++) {
		long k = W(0, 5); // 0 sleep, 1..2 send if it blocks, else receive
		if (k == 0) {
			// a sleep longer than the aio's time-out: ends by time-out or disturbance
			race_one(
			    i, "sleep", [&](nng_aio *aio) { nng_sleep_aio(60000, aio); }, {});
			continue;
		}
		bool do_send = pr.send_blocks && (k <= 2 || !pr.can_recv);
		if (do_send) {
			nng_msg *m = tag_msg(32, 1, 0, (uint32_t) i);
			// (a buffered send may legitimately complete without a peer)
			race_one(
			    i, "blocked_send",
			    [&](nng_aio *aio) {
				    nng_aio_set_msg(aio, m);
				    nng_socket_send(s, aio);
			    },
			    { NNG_OK, NNG_ESTATE, NNG_ENOTSUP },
			    [&](nng_aio *aio, nng_err res) {
				    if (res != NNG_OK) {
					    // failed send: the message is still ours
					    nng_aio_set_msg(aio, NULL);
					    nng_msg_free(m);
				    }
			    });
			continue;
		}
		bool use_ctx = have_ctx && W(0, 1) == 1;
		race_one(
		    i, use_ctx ? "ctx_recv" : "sock_recv",
		    [&](nng_aio *aio) {
			    if (use_ctx)
				    nng_ctx_recv(ctx, aio);
			    else
				    nng_socket_recv(s, aio);
		    },
		    { NNG_OK, NNG_ESTATE, NNG_ENOTSUP },
		    [&](nng_aio *aio, nng_err res) {
			    if (res == NNG_OK) {
				    sim_probe("recv_ok_without_peer");
				    nng_msg *m = nng_aio_get_msg(aio);
				    if (m != NULL)
					    nng_msg_free(m);
				    nng_aio_set_msg(aio, NULL);
			    }
		    });
	}
	if (have_ctx)
		nng_ctx_close(ctx);
	MUST(nng_socket_close(s));
}

static void
submitrace_run(Params *p)
{
	long mode = p->draw("mode", 0, 3); // 0 tcp stream, 1 ipc stream, 2 sockets, 3 tcp6 stream
	if (mode == 2)
		sockets();
	else
		streams(mode == 0 ? TR_TCP : mode == 1 ? TR_IPC : TR_TCP6);
}

static void
submitrace_cfg(sim_config *cfg, Params *p)
{
	// the interleaving of two runnable tasks is the point: random-walk scheduling
	long rs = p->draw("rs", 0, 3);
	if (rs != 3) {
		cfg->strategy = 0;
		cfg->switch_p = rs == 0 ? 0.1 : rs == 1 ? 0.25 : 0.45;
	}
	// dense short stalls: a 1..3 ms time-out passes inside the submitting call
	long st = p->draw("rstall", 0, 2);
	if (st == 1) {
		cfg->stall_p      = 1.0 / 40;
		cfg->stall_max_ns = 3000000;
	} else if (st == 2) {
		cfg->stall_p      = 1.0 / 12;
		cfg->stall_max_ns = 4000000;
	}
	// small send buffers: the silent peer's direction fills quickly
	cfg->sndbuf_min = 256;
	cfg->sndbuf_max = 6000;
}
SCENARIO(c02_submitrace, "C02", submitrace_cfg, submitrace_run);

} // namespace
