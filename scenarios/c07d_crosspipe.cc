// C07 (fourth file): c07_xpipe - a respondent between SEVERAL surveyors whose
// connections are all back-pressured.
//
// A cooked respondent socket is connected to two or three raw-mode surveyor
// sockets that do not read (tcp: the link toward the surveyor is stalled as
// well), so that after a few filler responses each connection's send is still
// in progress and every further response is parked inside the respondent
// socket, in the queue of the connection its survey came from.  "Mover"
// contexts (optionally the socket's own context) then receive a survey from
// one surveyor and answer it, receive a newer survey from ANOTHER surveyor and
// answer that one while their earlier response is still parked, and so on.
// Finally the connections are released and every surveyor reads everything
// that was routed to it.
//
// Oracle clauses -> phrases of the C07 statement:
//   misdirected_response   "A respondent's response is sent only to the
//                          surveyor whose survey it most recently received":
//                          every response a surveyor observes carries the id
//                          of a survey that THIS surveyor sent (ids are unique
//                          over all surveyors of the run).
//   response_wrong_id      same phrase: the response a surveyor observes under
//                          survey id X is the answer the context gave to the
//                          survey with id X (the body names the survey it was
//                          written for), i.e. a response is not re-labelled
//                          with another survey's id on its way out.
//   bogus_response         same phrase: the response carries an id no surveyor
//                          of the run ever sent, or a body nobody wrote.
//   resp_estate_with_survey "sending a response with no pending survey fails
//                          with NNG_ESTATE" (converse: a context that has
//                          received a survey and not answered it yet must not
//                          get NNG_ESTATE).
// Not asserted, only counted (sim_probe): whether a superseded send completes
// with NNG_ECANCELED or success, whether a response is delivered at all
// (best effort), duplicates, which of two responses of one context survives.
#include "../harness/util.h"

#include <map>

namespace {

enum { XP_MAXFILL = 7 };

struct XpSurvey {
	int      k;    // surveyor that sent it
	uint32_t id;   // survey id on the wire
	int      by;   // responder slot that answered it (-1 none)
	int      seen; // responses observed at a surveyor
};

struct XpSend {
	UAio *u;
	int   slot;   // responder slot
	int   survey; // index into surveys
};

struct XpWorld {
	nng_socket              resp;
	std::vector<nng_socket> xs;
	std::vector<bool>       busy; // a filler response was seen parked behind surveyor k
	std::vector<XpSurvey>   surveys;
	std::map<uint32_t, int> by_id;
	std::vector<XpSend>     sends;
	uint32_t                next_id;
	int                     checked;
	int                     tr;
};

// responder slot: slot 0 may be the socket's own context
struct XpSlot {
	bool    is_sock;
	nng_ctx ctx;
	int     last_send; // index into sends of the most recent send, -1 none
};

static const char *
xp_ename(int rv)
{
	return nng_strerror((nng_err) rv);
}

// surveyor k sends a fresh survey; returns its index
static int
xp_survey(XpWorld &w, int k)
{
	XpSurvey s;
	s.k    = k;
	s.id   = w.next_id++;
	s.by   = -1;
	s.seen = 0;
	int      xi = (int) w.surveys.size();
	nng_msg *m  = tag_msg(24, 1, (uint16_t) k, (uint32_t) xi);
	MUST(nng_msg_header_append_u32(m, s.id));
	sim_event("x%d sends survey s%d id %08x", k, xi, s.id);
	int rv = nng_sendmsg(w.xs[(size_t) k], m, 0);
	if (rv != 0)
		h_fatal("raw surveyor send: %s", xp_ename(rv));
	w.surveys.push_back(s);
	w.by_id[s.id] = xi;
	return xi;
}

// responder slot receives one survey; returns its index or -1
static int
xp_recv(XpWorld &w, XpSlot &c, int slot)
{
	nng_msg *m  = NULL;
	int      rv = c.is_sock ? nng_recvmsg(w.resp, &m, 0) : nng_ctx_recvmsg(c.ctx, &m, 0);
	if (rv != 0) {
		sim_event("slot %d recv -> %s", slot, xp_ename(rv));
		sim_probe("c07_xp_survey_not_received"); // delivery of surveys is not C07's business
		return -1;
	}
	Tag t = tag_parse((const uint8_t *) nng_msg_body(m), nng_msg_len(m));
	nng_msg_free(m);
	if (!t.ok || t.origin != 1 || t.serial >= w.surveys.size())
		h_fatal("respondent slot %d received something that is not a survey of this run", slot);
	sim_event("slot %d received survey s%u (from x%d)", slot, t.serial, w.surveys[t.serial].k);
	return (int) t.serial;
}

// responder slot answers survey xi (the one it most recently received)
static void
xp_send(XpWorld &w, XpSlot &c, int slot, int xi, size_t len)
{
	XpSend s;
	s.u      = new UAio();
	s.slot   = slot;
	s.survey = xi;
	nng_msg *m = tag_msg(len, 2, (uint16_t) slot, (uint32_t) xi);
	nng_aio_set_msg(s.u->aio, m);
	nng_aio_set_timeout(s.u->aio, 20000);
	s.u->arm("resp_send");
	if (c.is_sock)
		nng_socket_send(w.resp, s.u->aio);
	else
		nng_ctx_send(c.ctx, s.u->aio);
	w.surveys[(size_t) xi].by = slot;
	w.sends.push_back(s);
	c.last_send = (int) w.sends.size() - 1;
}

// judge one message that surveyor k took from its socket
static void
xp_judge(XpWorld &w, int k, nng_msg *m)
{
	size_t      hl = nng_msg_header_len(m);
	uint32_t    id = 0;
	const uint8_t *h = (const uint8_t *) nng_msg_header(m);
	if (hl >= 4)
		id = ((uint32_t) h[0] << 24) | ((uint32_t) h[1] << 16) | ((uint32_t) h[2] << 8) | (uint32_t) h[3];
	Tag         t  = tag_parse((const uint8_t *) nng_msg_body(m), nng_msg_len(m));
	std::string hx = h_hex((const uint8_t *) nng_msg_body(m), nng_msg_len(m));
	nng_msg_free(m);
	if (!t.ok || t.origin != 2 || t.serial >= w.surveys.size() || w.surveys[t.serial].by != (int) t.stream)
		VIOL("bogus_response", "surveyor x%d received %s which no respondent context sent", k, hx.c_str());
	auto it = w.by_id.find(id);
	if (hl != 4 || it == w.by_id.end())
		VIOL("bogus_response",
		    "surveyor x%d received a response (written for survey s%u) with a %zu-byte header, id %08x, which is "
		    "no survey of this run",
		    k, t.serial, hl, id);
	XpSurvey &x = w.surveys[(size_t) it->second];
	sim_event("x%d got response of slot %u written for s%u, id %08x (= s%d of x%d)", k, (unsigned) t.stream, t.serial,
	    id, it->second, x.k);
	if (x.k != k)
		VIOL("misdirected_response",
		    "surveyor x%d received a response carrying id %08x, the id of survey s%d which surveyor x%d sent: "
		    "respondent slot %u received s%u from x%d and answered it, but the response was sent to x%d",
		    k, id, it->second, x.k, (unsigned) t.stream, t.serial, w.surveys[t.serial].k, k);
	if ((int) t.serial != it->second)
		VIOL("response_wrong_id",
		    "surveyor x%d received under id %08x (its survey s%d) the answer respondent slot %u gave to survey s%u "
		    "(id %08x of x%d)",
		    k, id, it->second, (unsigned) t.stream, t.serial, w.surveys[t.serial].id, w.surveys[t.serial].k);
	if (++x.seen > 1)
		sim_probe("c07_xp_response_twice");
	w.checked++;
}

// surveyor k reads until nothing arrives for `idle_max` receive timeouts (50 ms each)
static int
xp_drain(XpWorld &w, int k, int max_msgs, int idle_max)
{
	int n = 0, idle = 0;
	while (idle < idle_max && n < max_msgs) {
		nng_msg *m = NULL;
		if (nng_recvmsg(w.xs[(size_t) k], &m, 0) != 0) {
			idle++;
			continue;
		}
		idle = 0;
		n++;
		xp_judge(w, k, m);
	}
	return n;
}

static void
xp_run(Params *p)
{
	XpWorld w;
	w.checked = 0;
	w.tr      = (int) p->draw("tr", 0, 1) == 0 ? TR_TCP : TR_INPROC;
	int ns    = 2 + (int) p->draw("nsurv", 0, 1);
	int nm    = 1 + (int) p->draw("movers", 0, 2);
	bool use_sock = p->draw("sockctx", 0, 3) == 3; // slot 0 is the socket's own context
	int  idle_mask = 0;                            // surveyors whose connection is left idle (control runs)
	for (int k = 0; k < ns; k++)
		if (Wp(0.12))
			idle_mask |= 1 << k;
	idle_mask = (int) p->i("idle_mask", idle_mask);

	MUST(nng_respondent0_open(&w.resp));
	MUST(nng_socket_set_ms(w.resp, NNG_OPT_RECVTIMEO, 2000));
	for (int k = 0; k < ns; k++) {
		nng_socket x;
		MUST(nng_surveyor0_open_raw(&x));
		MUST(nng_socket_set_int(x, NNG_OPT_RECVBUF, 1));
		MUST(nng_socket_set_ms(x, NNG_OPT_SENDTIMEO, 1000));
		MUST(nng_socket_set_ms(x, NNG_OPT_RECVTIMEO, 50));
		std::string url = h_url(w.tr, 20 + k);
		MUST(nng_listen(x, url.c_str(), NULL, 0));
		MUST(nng_dial(w.resp, url.c_str(), NULL, 0));
		w.xs.push_back(x);
		w.busy.push_back(false);
	}
	sim_quiesce(20000000);
	w.next_id = 0x80000000u | (uint32_t) W(1, 0xffff);
	sim_event("c07_xpipe tr=%s surveyors=%d movers=%d sockctx=%d idle_mask=%d", h_tr_name(w.tr), ns, nm, (int) use_sock,
	    idle_mask);

	// stop the drain toward every surveyor (inproc: the raw surveyors simply
	// do not read, their receive buffer holds one message)
	if (w.tr == TR_TCP)
		for (int k = 0; k < ns; k++)
			simnet_stall_port((uint16_t) (5000 + 20 + k), 1, 1);

	// filler contexts: answer surveys of surveyor k until a response is parked,
	// i.e. the connection to k is busy
	std::vector<XpSlot> slots;
	for (int i = 0; i < nm; i++) {
		XpSlot c;
		c.is_sock   = use_sock && i == 0;
		c.last_send = -1;
		if (!c.is_sock) {
			MUST(nng_ctx_open(&c.ctx, w.resp));
			MUST(nng_ctx_set_ms(c.ctx, NNG_OPT_RECVTIMEO, 2000));
		}
		slots.push_back(c);
	}
	for (int k = 0; k < ns; k++) {
		if (idle_mask & (1 << k))
			continue;
		for (int f = 0; f < XP_MAXFILL && !w.busy[(size_t) k]; f++) {
			XpSlot c;
			c.is_sock   = false;
			c.last_send = -1;
			MUST(nng_ctx_open(&c.ctx, w.resp));
			MUST(nng_ctx_set_ms(c.ctx, NNG_OPT_RECVTIMEO, 2000));
			slots.push_back(c);
			int slot = (int) slots.size() - 1;
			int xi   = xp_survey(w, k);
			h_settle();
			if (xp_recv(w, slots[(size_t) slot], slot) != xi)
				continue;
			xp_send(w, slots[(size_t) slot], slot, xi, (size_t) (600 + W(0, 3400)));
			h_settle();
			if (!w.sends.back().u->poll()) {
				w.busy[(size_t) k] = true;
				sim_event("connection to x%d is busy (filler slot %d parked)", k, slot);
			}
		}
	}

	// movers
	int nops = 2 + (int) W(0, 6);
	int cross = 0;
	for (int op = 0; op < nops; op++) {
		int kind = (int) W(0, 9);
		int slot = (int) W(0, nm - 1);
		int k    = (int) W(0, ns - 1);
		if (kind == 9 && w.tr == TR_INPROC) {
			// a surveyor reads one message in the middle of it all: its connection moves on by one
			sim_event("x%d reads one message", k);
			xp_drain(w, k, 1, 1);
			h_settle();
			continue;
		}
		XpSlot &c  = slots[(size_t) slot];
		int     xi = xp_survey(w, k);
		h_settle();
		if (xp_recv(w, c, slot) != xi)
			continue;
		int prev = c.last_send;
		bool prev_parked = prev >= 0 && !w.sends[(size_t) prev].u->poll();
		int  prev_k      = prev >= 0 ? w.surveys[(size_t) w.sends[(size_t) prev].survey].k : -1;
		xp_send(w, c, slot, xi, (size_t) (24 + W(0, 2000)));
		if (W(0, 1))
			sim_yield();
		else
			h_settle();
		UAio *u = w.sends.back().u;
		sim_event("slot %d answers s%d of x%d: %s%s", slot, xi, k, u->poll() ? "done" : "parked",
		    prev_parked ? " (its earlier response was still parked)" : "");
		if (u->poll() && u->result == NNG_ESTATE)
			VIOL("resp_estate_with_survey",
			    "respondent slot %d received survey s%d and has not answered it, yet send failed NNG_ESTATE", slot, xi);
		if (prev_parked) {
			sim_probe("c07_xp_answer_while_parked");
			if (prev_k != k && w.busy[(size_t) k] && w.busy[(size_t) prev_k]) {
				sim_probe("c07_xp_supersede_other_surveyor");
				cross++;
			}
			UAio *o = w.sends[(size_t) prev].u;
			if (o->poll() && o->result == NNG_ECANCELED)
				sim_probe("c07_xp_superseded_canceled");
		}
	}

	// release everything; every surveyor reads all that was routed to it
	if (w.tr == TR_TCP)
		for (int k = 0; k < ns; k++)
			simnet_stall_port((uint16_t) (5000 + 20 + k), 1, 0);
	int order = (int) W(0, 1);
	for (int round = 0; round < 2; round++)
		for (int i = 0; i < ns; i++) {
			int k = order ? ns - 1 - i : i;
			xp_drain(w, k, 1000, round == 0 ? 3 : 2);
		}
	for (auto &s : w.sends) {
		s.u->wait(0);
		if (s.u->result != 0) {
			nng_msg *m = nng_aio_get_msg(s.u->aio);
			if (m != NULL)
				nng_msg_free(m);
			if (s.u->result == NNG_ECANCELED)
				sim_probe("c07_xp_send_canceled");
			else
				sim_probe("c07_xp_send_failed");
		} else if (w.surveys[(size_t) s.survey].seen == 0)
			sim_probe("c07_xp_response_not_seen"); // best-effort delivery: not asserted
		delete s.u;
	}
	bool any_busy = false;
	for (int k = 0; k < ns; k++)
		any_busy = any_busy || w.busy[(size_t) k];
	if (w.checked > 0 && any_busy)
		sim_stat("nontrivial", 1);
	if (cross > 0)
		sim_stat("cross_supersede", cross);
	for (auto &c : slots)
		if (!c.is_sock)
			MUST(nng_ctx_close(c.ctx));
	MUST(nng_socket_close(w.resp));
	for (auto x : w.xs)
		MUST(nng_socket_close(x));
}

static void
xp_cfg(sim_config *cfg, Params *p)
{
	(void) p;
	cfg->sndbuf_min = 64;
	cfg->sndbuf_max = 512;
}
SCENARIO(c07_xpipe, "C07", xp_cfg, xp_run);

} // namespace
