// C03: message ownership, memory safety and no leaks for any API usage.
//
// The oracles are the framework's: ASan/UBSan (asan:* / ubsan:* classes), the
// allocator ledger installed through nng_init_params (free_unknown,
// sized_free_mismatch, leak after nng_fini) and the ownership rule, which is
// followed literally here: a message whose send failed is released by this
// file (for aio sends it must still be attached to the aio), a message whose
// send succeeded is never touched again, a received message is released by
// this file exactly once.  Everything else in this file is *workload*: random
// but precondition-respecting API programs.
//
//   c03_api     2-4 sockets of one protocol family (cooked, raw, poly) over
//               every transport, contexts, 1-3 concurrent tasks issuing
//               send/recv in every form, cancel/abort/stop, every option on
//               every object at every moment, pipe close, peer loss, socket
//               close/reopen, devices, statistics; explicit "exchange with an
//               interruption between its halves" op
//   c03_msg     nng_msg_* API against a byte-vector model (single task)
//   c03_stream  byte-stream API with scatter/gather vectors, stream
//               dialer/listener options, close/stop/free with operations
//               pending; HTTP server/client/handler objects alloc/free
#include "../harness/util.h"

#include <nng/http.h>

#include <arpa/inet.h>
#include <unistd.h>

#include <algorithm>

namespace {

// Workload steering around behaviours already reported (oracles unchanged):
// one bit per finding, set in the plan's "avoid" parameter.
enum {
	AV_BUS_REFUSED  = 1, // bus0_sock_send detaches the message before nni_aio_start can refuse
	AV_RESEND_FLIP  = 2, // REQ: resend time changed across 0 while a request is retained
	AV_URL_CLONE    = 4, // nni_url_clone_inline: NULL hostname arithmetic, long URLs copied into a 0-byte block
	AV_WS_PIPE_GET  = 8, // unknown option on a pipe of a closed ws listener: NULL http server dereferenced
	AV_PUB_DEVICE   = 16, // device_cb frees the message of a successful PUB send again when the device is ending
	AV_CTX_OPEN_RACE = 32, // nng_ctx_open refused by a closing socket leaves the context on the socket's list: close hangs (C10)
	AV_TWO_DEVICES   = 64, // two devices ending together occupy every task thread with their blocking socket closes (C10)
	AV_REPLY_QUEUED  = 128, // REP/RESPONDENT: a second reply on a context whose first reply is still queued behind a busy pipe: nni_list_append panics
	AV_UDP           = 256, // udp transport: a pipe is destroyed while nni_posix_udp_dorecv completes the receive aio inside it
};

// ---------------------------------------------------------------- tables ---
enum { F_PAIR0 = 0, F_PAIR1, F_REQREP, F_PUBSUB, F_PIPELINE, F_SURVEY, F_BUS, F_N };

struct SType {
	const char *name;
	int (*open)(nng_socket *);
	int  fam, side; // side 0 = A (initiator), 1 = B
	bool raw;
	bool is_bus, is_req, is_sub;
};

static const SType ST[] = {
	{ "pair0", nng_pair0_open, F_PAIR0, 0, false, false, false, false },
	{ "pair0raw", nng_pair0_open_raw, F_PAIR0, 0, true, false, false, false },
	{ "pair1", nng_pair1_open, F_PAIR1, 0, false, false, false, false },
	{ "pair1raw", nng_pair1_open_raw, F_PAIR1, 0, true, false, false, false },
	{ "pair1poly", nng_pair1_open_poly, F_PAIR1, 0, false, false, false, false },
	{ "req", nng_req0_open, F_REQREP, 0, false, false, true, false },
	{ "reqraw", nng_req0_open_raw, F_REQREP, 0, true, false, false, false },
	{ "rep", nng_rep0_open, F_REQREP, 1, false, false, false, false },
	{ "repraw", nng_rep0_open_raw, F_REQREP, 1, true, false, false, false },
	{ "pub", nng_pub0_open, F_PUBSUB, 0, false, false, false, false },
	{ "pubraw", nng_pub0_open_raw, F_PUBSUB, 0, true, false, false, false },
	{ "sub", nng_sub0_open, F_PUBSUB, 1, false, false, false, true },
	{ "subraw", nng_sub0_open_raw, F_PUBSUB, 1, true, false, false, true },
	{ "push", nng_push0_open, F_PIPELINE, 0, false, false, false, false },
	{ "pushraw", nng_push0_open_raw, F_PIPELINE, 0, true, false, false, false },
	{ "pull", nng_pull0_open, F_PIPELINE, 1, false, false, false, false },
	{ "pullraw", nng_pull0_open_raw, F_PIPELINE, 1, true, false, false, false },
	{ "surveyor", nng_surveyor0_open, F_SURVEY, 0, false, false, false, false },
	{ "surveyorraw", nng_surveyor0_open_raw, F_SURVEY, 0, true, false, false, false },
	{ "respondent", nng_respondent0_open, F_SURVEY, 1, false, false, false, false },
	{ "respondentraw", nng_respondent0_open_raw, F_SURVEY, 1, true, false, false, false },
	{ "bus", nng_bus0_open, F_BUS, 0, false, true, false, false },
	{ "busraw", nng_bus0_open_raw, F_BUS, 0, true, true, false, false },
};
#define NST ((int) (sizeof(ST) / sizeof(ST[0])))

static bool
symmetric(int fam)
{
	return fam == F_PAIR0 || fam == F_PAIR1 || fam == F_BUS;
}

// draw a socket type of the family for the wanted side; rawness 0 = cooked
// (simplest), 1 = raw, 2 = any
static const SType *
pick_type(int fam, int side, int rawness)
{
	const SType *cand[8];
	int          n = 0;
	for (int i = 0; i < NST; i++) {
		if (ST[i].fam != fam)
			continue;
		if (!symmetric(fam) && ST[i].side != side)
			continue;
		if (rawness == 0 && ST[i].raw)
			continue;
		if (rawness == 1 && !ST[i].raw)
			continue;
		cand[n++] = &ST[i];
	}
	return cand[W(0, n - 1)];
}

// transports of this file: the six of h_url plus udp and socket:// (fd pair)
enum { XT_UDP = TR_N, XT_SOCKFD, XT_N };

static std::string
x_url(int tr, int idx)
{
	char b[64];
	if (tr == XT_UDP) {
		snprintf(b, sizeof(b), "udp://127.0.0.1:%d", 7000 + idx);
		return b;
	}
	if (tr == XT_SOCKFD)
		return "socket://";
	return h_url(tr, idx);
}

// a URL that does not fit nng_url's inline buffer (128 bytes)
static std::string
long_url(int tr, int idx)
{
	std::string u = h_url(tr == TR_WS ? TR_WS : TR_INPROC, idx);
	u += "-";
	for (int i = 0; i < 130; i++)
		u += (char) ('a' + i % 26);
	return u;
}

// ---------------------------------------------------------------- options ---
struct Opt {
	const char *name;
	char        type; // i int, b bool, z size, m ms, s string, u uint64
	long        vals[9];
	int         nvals;
};
static const Opt OPTS[] = {
	{ NNG_OPT_RECVTIMEO, 'm', { 5, 0, 1, 3, 12, 40 }, 6 },
	{ NNG_OPT_SENDTIMEO, 'm', { 5, 0, 1, 3, 12, 40 }, 6 },
	{ NNG_OPT_RECVBUF, 'i', { 1, 0, 2, 3, 8, 64, 1024, -1, 100000 }, 9 },
	{ NNG_OPT_SENDBUF, 'i', { 1, 0, 2, 3, 8, 64, 1024, -1, 100000 }, 9 },
	{ NNG_OPT_MAXTTL, 'i', { 8, 1, 2, 3, 15, 0, 16, 255, -1 }, 9 },
	{ NNG_OPT_RECVMAXSZ, 'z', { 0, 1, 16, 64, 200, 4096, 1 << 20 }, 7 },
	{ NNG_OPT_RECONNMINT, 'm', { 10, 5, 20, 50, 200 }, 5 },
	{ NNG_OPT_RECONNMAXT, 'm', { 0, 5, 20, 100, 1000 }, 5 },
	{ NNG_OPT_REQ_RESENDTIME, 'm', { 20, 1, 5, 200, 60000, 0, -1 }, 7 },
	{ NNG_OPT_REQ_RESENDTICK, 'm', { 10, 1, 3, 100, 1000, 0, -1 }, 7 },
	{ NNG_OPT_SURVEYOR_SURVEYTIME, 'm', { 20, 1, 5, 100, 1000, 0, -1 }, 7 },
	{ NNG_OPT_SUB_PREFNEW, 'b', { 1, 0 }, 2 },
	{ NNG_OPT_PAIR1_POLY, 'b', { 1, 0 }, 2 },
	{ NNG_OPT_TCP_NODELAY, 'b', { 1, 0 }, 2 },
	{ NNG_OPT_TCP_KEEPALIVE, 'b', { 1, 0 }, 2 },
	{ NNG_OPT_IPC_PERMISSIONS, 'i', { 0600, 0666, 0, -1 }, 4 },
	{ NNG_OPT_WS_SENDMAXFRAME, 'z', { 0, 1, 16, 100, 65536 }, 5 },
	{ NNG_OPT_WS_RECVMAXFRAME, 'z', { 0, 1, 16, 100, 65536 }, 5 },
	{ NNG_OPT_WS_RECV_TEXT, 'b', { 1, 0 }, 2 },
	{ NNG_OPT_WS_SEND_TEXT, 'b', { 1, 0 }, 2 },
	{ NNG_OPT_WS_HEADER "X-Sim", 's', { 0, 1, 2 }, 3 },
	{ NNG_OPT_WS_HEADER "Connection", 's', { 0, 1, 2 }, 3 }, // a header the handshake itself sets (with static storage)
	{ NNG_OPT_WS_PROTOCOL, 's', { 0, 1, 2 }, 3 },
	{ NNG_OPT_WS_REQUEST_URI, 's', { 0, 1, 2 }, 3 },
	{ NNG_OPT_UDP_COPY_MAX, 'z', { 0, 1, 100, 2000, 70000 }, 5 },
	{ NNG_OPT_UDP_CONN_RETRY, 'm', { 10, 1, 100 }, 3 },
	{ NNG_OPT_UDP_CONN_EXPIRE, 'm', { 100, 10, 1000 }, 3 },
	{ NNG_OPT_UDP_MAX_PEERS, 'i', { 4, 1, 100, 0 }, 4 },
	{ NNG_OPT_BOUND_PORT, 'i', { 0, 5001 }, 2 },
	{ NNG_OPT_PEER_UID, 'i', { 0 }, 1 },
	{ NNG_OPT_PEER_PID, 'i', { 0 }, 1 },
	{ NNG_OPT_LOCADDR, 'i', { 0 }, 1 },
	{ "no-such-option", 'i', { 0, 1 }, 2 },
};
#define NOPTS ((int) (sizeof(OPTS) / sizeof(OPTS[0])))
// the first OPT_COMMON entries are the ones most objects understand
#define OPT_COMMON 12

static const char *const STRVALS[] = { "x", "", "a-rather-longer-value-0123456789-0123456789-0123456789" };

// ------------------------------------------------------------------ world ---
struct World;
struct Sock {
	World       *w;
	int          idx;
	const SType *t;
	nng_socket   s;
	bool         closed;       // hint only: a closed handle is still safe to use
	int          resend_sign;  // AV_RESEND_FLIP: +1 / -1, fixed per socket
	bool         reject_pipes; // close pipes in ADD_PRE
	bool         has_ws;       // a ws listener was ever made on this socket
	int          opening;      // nng_ctx_open calls in progress (AV_CTX_OPEN_RACE)
	std::map<uint32_t, int> replying; // sends in progress per context id (0 = the socket's own) on a cooked REP/RESPONDENT socket (AV_REPLY_QUEUED)
	std::vector<uint32_t>     pipes;
	std::vector<nng_ctx>      ctxs;
	std::vector<nng_dialer>   dialers;
	std::vector<nng_listener> listeners;
	long w_avoid() const;
};

struct UrlSlot {
	int         tr;
	std::string url;
	int         port;
};

struct Dev {
	UAio      *u;
	nng_socket s1, s2;
	bool       same;
	bool       cancelled;
};

struct AOp {
	UAio     u;
	int      kind; // 0 idle, 1 sock send, 2 sock recv, 3 ctx send, 4 ctx recv, 5 sleep, 6 dialer start
	nng_msg *msg;  // message submitted with a send
	bool     pending;
	bool     finite; // the operation has a finite deadline of its own
	bool     stopped;
	bool     used_after_stop;
	bool     skipped;
	Sock    *on;
};

struct Task {
	World *w;
	int    id;
	int    nops;
	bool   chaos;
	std::vector<AOp *>     aops;
	std::vector<nng_msg *> held;
	uint32_t               serial;
	volatile int           finished;
};

struct World {
	Params *p;
	long    avoid;
	int     fam;
	bool    slow_net;
	std::vector<Sock *>   socks;
	std::vector<UrlSlot>  urls;
	std::vector<Dev *>    devs;
	std::vector<Task *>   tasks;
	int  sent_ok, recv_ok, sends_failed;
	int  next_url_idx;
	int  exch_open; // exchanges between their halves right now
};

long
Sock::w_avoid() const
{
	return w->avoid;
}

static void
pipe_cb(nng_pipe p, nng_pipe_ev ev, void *arg)
{
	Sock    *s  = (Sock *) arg;
	uint32_t id = (uint32_t) nng_pipe_id(p);
	if (ev == NNG_PIPE_EV_ADD_PRE) {
		if (s->reject_pipes && (id % 3) == 0) {
			nng_pipe_close(p);
			sim_probe("c03_pipe_rejected_in_add_pre");
		}
	} else if (ev == NNG_PIPE_EV_ADD_POST) {
		s->pipes.push_back(id);
	} else {
		for (size_t i = 0; i < s->pipes.size(); i++) {
			if (s->pipes[i] == id) {
				s->pipes.erase(s->pipes.begin() + (long) i);
				break;
			}
		}
	}
}

template <class T>
static bool
pick(const std::vector<T> &v, T *out)
{
	size_t n = v.size();
	if (n == 0)
		return false;
	size_t k = (size_t) W(0, (long) n - 1);
	if (k >= v.size())
		return false;
	*out = v[k];
	return true;
}

static Sock *
pick_sock(World *w)
{
	Sock *s = NULL;
	pick(w->socks, &s);
	return s;
}

static Sock *
pick_sock_side(World *w, int side)
{
	// first try a few random ones of the wanted side
	for (int i = 0; i < 4; i++) {
		Sock *s = pick_sock(w);
		if (s != NULL && !s->closed && (symmetric(w->fam) || s->t->side == side))
			return s;
	}
	return pick_sock(w);
}

static int
ctx_open(Sock *s, nng_ctx *cx)
{
	bool guard = (s->w_avoid() & AV_CTX_OPEN_RACE) != 0;
	if (guard && s->closed)
		return NNG_ECLOSED;
	s->opening++;
	int rv = nng_ctx_open(cx, s->s);
	s->opening--;
	return rv;
}

static int
sock_close(Sock *s)
{
	s->closed = true;
	if (s->w_avoid() & AV_CTX_OPEN_RACE) {
		while (s->opening > 0)
			sim_sleep_ns(100000);
	}
	return nng_socket_close(s->s);
}

// open a socket of the world's family and make it safe to block on
static Sock *
open_sock(World *w, int side, int rawness)
{
	Sock *s        = new Sock();
	s->w           = w;
	s->t           = pick_type(w->fam, side, rawness);
	s->closed      = false;
	s->resend_sign = W(0, 3) == 3 ? -1 : 1;
	s->reject_pipes = W(0, 7) == 7;
	s->has_ws       = false;
	s->opening      = 0;
	int rv          = s->t->open(&s->s);
	if (rv != 0) {
		sim_event("open %s -> %d", s->t->name, rv);
		delete s;
		return NULL;
	}
	// every blocking call of this file is bounded by these (and by what the
	// option ops set later: always finite)
	MUST(nng_socket_set_ms(s->s, NNG_OPT_RECVTIMEO, (nng_duration) W(1, 30)));
	MUST(nng_socket_set_ms(s->s, NNG_OPT_SENDTIMEO, (nng_duration) W(1, 30)));
	(void) nng_socket_set_ms(s->s, NNG_OPT_RECONNMINT, 10);
	(void) nng_socket_set_ms(s->s, NNG_OPT_RECONNMAXT, 40);
	if (s->t->is_req) {
		(void) nng_socket_set_ms(s->s, NNG_OPT_REQ_RESENDTICK, (nng_duration) W(1, 20));
		(void) nng_socket_set_ms(s->s, NNG_OPT_REQ_RESENDTIME, s->resend_sign < 0 ? -1 : (nng_duration) W(2, 60));
	}
	if (s->t->is_sub && !s->t->raw && W(0, 3) != 3)
		(void) nng_sub0_socket_subscribe(s->s, "", 0);
	(void) nng_pipe_notify(s->s, NNG_PIPE_EV_ADD_PRE, pipe_cb, s);
	(void) nng_pipe_notify(s->s, NNG_PIPE_EV_ADD_POST, pipe_cb, s);
	(void) nng_pipe_notify(s->s, NNG_PIPE_EV_REM_POST, pipe_cb, s);
	s->idx = (int) w->socks.size();
	sim_event("open s%d %s id=%d", s->idx, s->t->name, nng_socket_id(s->s));
	w->socks.push_back(s);
	return s;
}

static int
new_url(World *w, int tr)
{
	UrlSlot u;
	u.tr   = tr;
	u.port = w->next_url_idx++;
	u.url  = x_url(tr, u.port);
	if ((tr == TR_WS || tr == TR_INPROC) && !(w->avoid & AV_URL_CLONE) && W(0, 7) == 7) {
		u.url = long_url(tr, u.port);
		sim_probe("c03_long_url");
	}
	w->urls.push_back(u);
	return (int) w->urls.size() - 1;
}

static int
draw_transport(World *w)
{
	// 0 = inproc (simplest)
	long c = W(0, 13);
	if (c == 13 && (w->avoid & AV_UDP))
		c = 4;
	switch (c) {
	case 0:
	case 1:
	case 2:
	case 3:
		return TR_INPROC;
	case 4:
	case 5:
	case 6:
		return TR_TCP;
	case 7:
	case 8:
		return TR_IPC;
	case 9:
	case 10:
		return TR_WS;
	case 11:
		return TR_ABSTRACT;
	case 12:
		return TR_TCP6;
	default:
		return XT_UDP;
	}
}

static void
do_listen(Sock *s, int slot, bool configure_first)
{
	World *w = s->w;
	if (slot < 0 || slot >= (int) w->urls.size())
		return;
	std::string  url = w->urls[(size_t) slot].url; // copy: the vector may grow
	nng_listener l;
	int          rv;
	if (w->urls[(size_t) slot].tr == TR_WS)
		s->has_ws = true;
	if (!(w->avoid & AV_URL_CLONE) && W(0, 4) == 4) {
		// the nng_url flavours of the same calls
		nng_url *u = NULL;
		rv         = nng_url_parse(&u, url.c_str());
		if (rv == 0) {
			if (configure_first) {
				rv = nng_listener_create_url(&l, s->s, u);
				if (rv == 0 && (rv = nng_listener_start(l, 0)) != 0)
					(void) nng_listener_close(l);
			} else {
				rv = nng_listen_url(s->s, u, &l, 0);
			}
			nng_url_free(u);
		}
		sim_probe("c03_url_object_api");
	} else if (configure_first) {
		rv = nng_listener_create(&l, s->s, url.c_str());
		if (rv == 0) {
			(void) nng_listener_set_size(l, NNG_OPT_RECVMAXSZ, (size_t) W(0, 1) * 4096);
			rv = nng_listener_start(l, 0);
			if (rv != 0)
				(void) nng_listener_close(l);
		}
	} else {
		rv = nng_listen(s->s, url.c_str(), &l, 0);
	}
	sim_event("listen s%d %s -> %d", s->idx, url.c_str(), rv);
	if (rv == 0)
		s->listeners.push_back(l);
}

static void
do_dial(Sock *s, int slot, int mode)
{
	World *w = s->w;
	if (slot < 0 || slot >= (int) w->urls.size())
		return;
	std::string url = w->urls[(size_t) slot].url;
	if (w->urls[(size_t) slot].tr == XT_SOCKFD)
		return;
	if (w->urls[(size_t) slot].tr == XT_UDP && mode == 1)
		mode = 0; // a synchronous udp dial may wait for ever (not C03's business)
	nng_dialer d;
	int        rv;
	if (!(w->avoid & AV_URL_CLONE) && W(0, 4) == 4) {
		nng_url *u = NULL;
		rv         = nng_url_parse(&u, url.c_str());
		if (rv == 0) {
			if (mode == 2) {
				rv = nng_dialer_create_url(&d, s->s, u);
				if (rv == 0 && (rv = nng_dialer_start(d, NNG_FLAG_NONBLOCK)) != 0)
					(void) nng_dialer_close(d);
			} else {
				rv = nng_dial_url(s->s, u, &d, NNG_FLAG_NONBLOCK);
			}
			nng_url_free(u);
		}
		sim_probe("c03_url_object_api");
	} else if (mode == 0) {
		rv = nng_dial(s->s, url.c_str(), &d, NNG_FLAG_NONBLOCK);
	} else if (mode == 1) {
		rv = nng_dial(s->s, url.c_str(), &d, 0); // synchronous first attempt
	} else {
		rv = nng_dialer_create(&d, s->s, url.c_str());
		if (rv == 0) {
			(void) nng_dialer_set_ms(d, NNG_OPT_RECONNMINT, (nng_duration) W(5, 30));
			(void) nng_dialer_set_ms(d, NNG_OPT_RECONNMAXT, (nng_duration) W(0, 60));
			if (url.compare(0, 5, "ws://") == 0 && W(0, 1) == 0) {
				// a header the websocket handshake sets itself, given again by the application with the value it
				// has anyway (the handshake still works), and one of its own
				(void) nng_dialer_set_string(d, NNG_OPT_WS_HEADER "Connection", "Upgrade");
				// ... and one of its own, given more than once with values of different lengths
				static const char *const HV[] = { "c03", "a-much-longer-value-for-the-same-header-0123456789", "", "mid-length-value" };
				int hn = 1 + (int) W(0, 2);
				for (int hi = 0; hi < hn; hi++)
					(void) nng_dialer_set_string(d, NNG_OPT_WS_HEADER "X-Sim-App", HV[W(0, 3)]);
				sim_probe("c03_ws_static_header_given");
			}
			rv = nng_dialer_start(d, NNG_FLAG_NONBLOCK);
			if (rv != 0)
				(void) nng_dialer_close(d);
		}
	}
	sim_event("dial s%d %s mode=%d -> %d", s->idx, url.c_str(), mode, rv);
	if (rv == 0)
		s->dialers.push_back(d);
}

// socket:// transport: a connected descriptor pair, one end per socket
static void
do_fdlink(Sock *a, Sock *b)
{
	int fds[2];
	if (nng_socket_pair(fds) != 0)
		return;
	Sock *ends[2] = { a, b };
	for (int i = 0; i < 2; i++) {
		nng_listener l;
		int          rv = nng_listener_create(&l, ends[i]->s, "socket://");
		if (rv == 0) {
			rv = nng_listener_start(l, 0);
			if (rv == 0) {
				rv = nng_listener_set_int(l, NNG_OPT_SOCKET_FD, fds[i]);
				if (rv == 0)
					fds[i] = -1; // the transport owns it now
			}
			if (rv != 0)
				(void) nng_listener_close(l);
			else
				ends[i]->listeners.push_back(l);
		}
		sim_event("fdlink s%d -> %d", ends[i]->idx, rv);
	}
	for (int i = 0; i < 2; i++)
		if (fds[i] >= 0)
			close(fds[i]);
	sim_probe("c03_fdlink");
}

// -------------------------------------------------------------- messages ---
static uint32_t
sum_bytes(const void *p, size_t n)
{
	const uint8_t *b = (const uint8_t *) p;
	uint32_t       s = 0;
	for (size_t i = 0; i < n; i++)
		s = s * 31 + b[i];
	return s;
}

static volatile uint32_t g_sink;

// read every byte the application may legitimately read
static void
read_msg(nng_msg *m)
{
	g_sink += sum_bytes(nng_msg_header(m), nng_msg_header_len(m));
	g_sink += sum_bytes(nng_msg_body(m), nng_msg_len(m));
	g_sink += (uint32_t) nng_msg_capacity(m);
	g_sink += (uint32_t) nng_pipe_id(nng_msg_get_pipe(m));
}

static void
fill(uint8_t *b, size_t n, uint32_t seed)
{
	for (size_t i = 0; i < n; i++)
		b[i] = (uint8_t) (seed + i * 7);
}

// one random nng_msg_* operation; *mp may be replaced (dup)
static void
mutate_once(nng_msg **mp)
{
	nng_msg *m = *mp;
	uint8_t  buf[96];
	fill(buf, sizeof(buf), (uint32_t) nng_msg_len(m));
	size_t   len  = nng_msg_len(m);
	size_t   hlen = nng_msg_header_len(m);
	uint16_t v16;
	uint32_t v32;
	uint64_t v64;
	long     k = W(0, 33);
	switch (k) {
	case 0:
		(void) nng_msg_append(m, buf, (size_t) W(0, 40));
		break;
	case 1:
		(void) nng_msg_insert(m, buf, (size_t) W(0, 40));
		break;
	case 2:
		(void) nng_msg_trim(m, (size_t) W(0, (long) len + 1)); // len+1: refused
		break;
	case 3:
		(void) nng_msg_chop(m, (size_t) W(0, (long) len + 1));
		break;
	case 4:
		(void) nng_msg_append_u16(m, 0xa55a);
		break;
	case 5:
		(void) nng_msg_append_u32(m, 0x80000001u);
		break;
	case 6:
		(void) nng_msg_append_u64(m, 0x0102030405060708ull);
		break;
	case 7:
		(void) nng_msg_insert_u16(m, 0x1234);
		break;
	case 8:
		(void) nng_msg_insert_u32(m, 0x80000002u);
		break;
	case 9:
		(void) nng_msg_insert_u64(m, 0x1112131415161718ull);
		break;
	case 10:
		(void) nng_msg_trim_u16(m, &v16);
		break;
	case 11:
		(void) nng_msg_trim_u32(m, &v32);
		break;
	case 12:
		(void) nng_msg_trim_u64(m, &v64);
		break;
	case 13:
		(void) nng_msg_chop_u16(m, &v16);
		break;
	case 14:
		(void) nng_msg_chop_u32(m, &v32);
		break;
	case 15:
		(void) nng_msg_chop_u64(m, &v64);
		break;
	case 16:
		(void) nng_msg_header_append(m, buf, (size_t) W(0, 20));
		break;
	case 17:
		(void) nng_msg_header_insert(m, buf, (size_t) W(0, 20));
		break;
	case 18:
		(void) nng_msg_header_trim(m, (size_t) W(0, (long) hlen + 1));
		break;
	case 19:
		(void) nng_msg_header_chop(m, (size_t) W(0, (long) hlen + 1));
		break;
	case 20:
		(void) nng_msg_header_append_u32(m, 0x80000003u);
		break;
	case 21:
		(void) nng_msg_header_insert_u32(m, 0x00000004u);
		break;
	case 22:
		(void) nng_msg_header_trim_u32(m, &v32);
		break;
	case 23:
		(void) nng_msg_header_chop_u32(m, &v32);
		break;
	case 24:
		nng_msg_header_clear(m);
		break;
	case 25:
		nng_msg_clear(m);
		break;
	case 26: // grow or shrink in place
		if (nng_msg_realloc(m, (size_t) W(0, 300)) == 0 && nng_msg_len(m) > len)
			fill((uint8_t *) nng_msg_body(m) + len, nng_msg_len(m) - len, 9);
		break;
	case 27:
		(void) nng_msg_reserve(m, (size_t) W(0, 2000));
		break;
	case 28: { // duplicate, keep one of the two
		nng_msg *d = NULL;
		if (nng_msg_dup(&d, m) == 0) {
			read_msg(d);
			if (W(0, 1)) {
				nng_msg_free(m);
				*mp = d;
			} else {
				nng_msg_free(d);
			}
		}
		break;
	}
	case 29: // a big append: forces a reallocation of the body
		if (len < 20000) {
			std::vector<uint8_t> big((size_t) W(200, 3000));
			fill(big.data(), big.size(), 3);
			(void) nng_msg_append(m, big.data(), big.size());
		}
		break;
	case 30: // a big insert: more than any headroom
		if (len < 20000) {
			std::vector<uint8_t> big((size_t) W(40, 600));
			fill(big.data(), big.size(), 4);
			(void) nng_msg_insert(m, big.data(), big.size());
		}
		break;
	case 31:
		(void) nng_msg_header_append_u16(m, 7);
		(void) nng_msg_header_chop_u16(m, &v16);
		break;
	case 32:
		(void) nng_msg_header_insert_u64(m, 0x2122232425262728ull);
		(void) nng_msg_header_trim_u64(m, &v64);
		break;
	default: {
		nng_pipe pp;
		pp.id = (uint32_t) W(0, 5);
		nng_msg_set_pipe(m, pp);
		break;
	}
	}
}

static nng_msg *
make_msg(Task *t, Sock *s)
{
	World  *w = t->w;
	size_t  n;
	long    c = W(0, 19);
	if (c < 12)
		n = (size_t) W(0, 48);
	else if (c < 17)
		n = (size_t) W(49, 600);
	else if (w->slow_net)
		n = (size_t) W(601, 1500);
	else if (c < 19)
		n = (size_t) W(601, 3000);
	else
		n = (size_t) W(3001, 70000);
	nng_msg *m = NULL;
	if (nng_msg_alloc(&m, n) != 0)
		return NULL;
	fill((uint8_t *) nng_msg_body(m), n, ++t->serial);
	int nm = (int) W(0, 3);
	if (nm == 3)
		nm = (int) W(3, 8);
	for (int i = 0; i < nm; i++)
		mutate_once(&m);
	if (s != NULL && s->t->raw && W(0, 3) != 0) {
		// something that looks like the protocol header the raw socket wants
		uint32_t pid = 0;
		pick(s->pipes, &pid);
		nng_msg_header_clear(m);
		switch (s->t->fam) {
		case F_REQREP:
		case F_SURVEY:
			if (s->t->side == 1)
				(void) nng_msg_header_append_u32(m, pid);
			for (long h = W(0, 2); h > 0; h--)
				(void) nng_msg_header_append_u32(m, (uint32_t) W(1, 5));
			(void) nng_msg_header_append_u32(m, 0x80000000u | (uint32_t) W(0, 6));
			break;
		case F_PAIR1:
			(void) nng_msg_header_append_u32(m, (uint32_t) W(0, 20));
			break;
		case F_BUS:
			if (W(0, 1))
				(void) nng_msg_header_append_u32(m, pid);
			break;
		default:
			break;
		}
	} else if (s != NULL && s->t->fam == F_PAIR1 && !s->t->raw && W(0, 2) == 0) {
		// poly mode: address a pipe
		nng_pipe pp;
		pp.id = 0;
		pick(s->pipes, &pp.id);
		nng_msg_set_pipe(m, pp);
	}
	return m;
}

// ------------------------------------------------------------------- aios ---
static AOp *
new_aop(void)
{
	AOp *a             = new AOp();
	a->kind            = 0;
	a->msg             = NULL;
	a->pending         = false;
	a->finite          = false;
	a->stopped         = false;
	a->used_after_stop = false;
	a->skipped         = false;
	a->on              = NULL;
	if (a->u.aio == NULL)
		h_fatal("nng_aio_alloc failed");
	return a;
}

static void consume(Task *t, Sock *from, nng_ctx *ctx, nng_msg *m);

// the operation of a has completed: apply the ownership rule
static void
harvest(Task *t, AOp *a)
{
	if (!a->pending || !a->u.poll())
		return;
	a->pending = false;
	int   rv   = a->u.result;
	World *w   = t->w;
	int   kind = a->kind;
	Sock *on   = a->on;
	a->kind    = 0; // consume() below may reuse this aio
	sim_event("t%d aio %s done rv=%d", t->id, a->u.what, rv);
	if (kind == 1 || kind == 3) {
		if (rv != 0) {
			// "by the application after a failed send (the message is
			// still attached to the aio)"
			nng_msg *att = nng_aio_get_msg(a->u.aio);
			if (att != a->msg) {
				VIOL("failed_send_msg_detached",
				    "%s on a %s socket failed with %d (%s) but nng_aio_get_msg returns %s instead of the "
				    "submitted message: the application cannot release it through the aio",
				    a->u.what, on ? on->t->name : "?", rv, nng_strerror((nng_err) rv),
				    att == NULL ? "NULL" : "another pointer");
			}
			read_msg(att);
			nng_msg_free(att);
			w->sends_failed++;
			sim_probe("c03_aio_send_failed_app_frees");
		} else {
			w->sent_ok++;
		}
		nng_aio_set_msg(a->u.aio, NULL);
		a->msg = NULL;
	} else if (kind == 2 || kind == 4) {
		if (rv == 0) {
			nng_msg *m = nng_aio_get_msg(a->u.aio);
			nng_aio_set_msg(a->u.aio, NULL);
			if (m == NULL) {
				sim_probe("c03_recv_ok_without_msg");
			} else {
				w->recv_ok++;
				consume(t, on, NULL, m);
			}
		}
	}
}

static void
harvest_all(Task *t)
{
	for (size_t i = 0; i < t->aops.size(); i++)
		harvest(t, t->aops[i]);
}

// make sure the operation of a is over (cancel it if it has no deadline)
static void
settle(Task *t, AOp *a, int how)
{
	if (a->pending && !a->u.poll()) {
		if (how == 0) {
			nng_aio_cancel(a->u.aio);
		} else if (how == 1) {
			nng_aio_abort(a->u.aio, NNG_EINTR);
		} else if (how == 2) {
			nng_aio_stop(a->u.aio);
			a->stopped = true;
		} else if (!a->finite) {
			nng_aio_cancel(a->u.aio);
		}
		if (how != 2)
			nng_aio_wait(a->u.aio);
		sim_probe("c03_aio_ended_while_pending");
	}
	if (a->pending) {
		// nng_aio_wait returned: the callback has run
		if (a->u.wait(60000000000ull) == (nng_err) -1)
			sim_violation("C02", "completion_lost", "nng_aio_wait/stop returned but the callback of %s never ran", a->u.what);
	}
	harvest(t, a);
}

// an aio of this task that can take a new operation
static AOp *
idle_aop(Task *t)
{
	harvest_all(t);
	for (size_t i = 0; i < t->aops.size(); i++) {
		AOp *a = t->aops[i];
		if (a->pending)
			continue;
		if (a->stopped && a->used_after_stop) {
			// a stopped aio refuses everything: replace it
			delete a;
			t->aops[i] = a = new_aop();
		}
		return a;
	}
	if (t->aops.size() < 3) {
		t->aops.push_back(new_aop());
		return t->aops.back();
	}
	return NULL;
}

// deadline for the next operation on a; returns true if the library will
// refuse the operation at once (zero / past deadline, stopped aio)
static bool
set_deadline(AOp *a, bool allow_refusal)
{
	long c = W(0, 7);
	if (!allow_refusal && (c == 2 || c == 5))
		c = 0; // no deadline that can already have passed when the operation starts
	bool refused = false;
	a->finite    = true;
	switch (c) {
	case 0:
	case 1:
		nng_aio_set_timeout(a->u.aio, (nng_duration) W(1, 25));
		break;
	case 2:
		nng_aio_set_timeout(a->u.aio, NNG_DURATION_DEFAULT); // the socket's (finite)
		break;
	case 3:
	case 4:
		nng_aio_set_timeout(a->u.aio, NNG_DURATION_INFINITE);
		a->finite = false;
		break;
	case 5:
		nng_aio_set_expire(a->u.aio, nng_clock() + (nng_time) W(1, 20));
		break;
	case 6:
		if (allow_refusal) {
			nng_aio_set_timeout(a->u.aio, NNG_DURATION_ZERO);
			refused = true;
		} else {
			nng_aio_set_timeout(a->u.aio, 2);
		}
		break;
	default:
		if (allow_refusal) {
			nng_aio_set_expire(a->u.aio, nng_clock() - 1);
			refused = true;
		} else {
			nng_aio_set_timeout(a->u.aio, 7);
		}
		break;
	}
	if (a->stopped)
		refused = true;
	return refused;
}

// ---------------------------------------------------------- send / receive ---
// forms: 0 blocking msg, 1 non-blocking msg, 2 blocking buffer, 3 non-blocking buffer, 4 aio
static void
send_msg(Task *t, Sock *s, nng_ctx *ctx, nng_msg *m, int form)
{
	World *w = t->w;
	if (m == NULL)
		return;
	bool reply_guard = (w->avoid & AV_REPLY_QUEUED) && !s->t->raw && s->t->side == 1 &&
	    (s->t->fam == F_REQREP || s->t->fam == F_SURVEY);
	uint32_t reply_key = ctx ? (uint32_t) nng_ctx_id(*ctx) : 0;
	if (reply_guard) {
		// one reply at a time per context, and the call returns only when it is over
		if (s->replying[reply_key] > 0) {
			nng_msg_free(m);
			return;
		}
		if (form == 4)
			form = 0;
		s->replying[reply_key]++;
	}
	struct Unreply {
		Sock    *s;
		bool     on;
		uint32_t key;
		~Unreply()
		{
			if (on)
				s->replying[key]--;
		}
	} unreply = { s, reply_guard, reply_key };
	if (form == 4) {
		AOp *a = idle_aop(t);
		bool bus_avoid = (w->avoid & AV_BUS_REFUSED) && s->t->is_bus && ctx == NULL;
		if (a != NULL && a->stopped && bus_avoid)
			a = NULL;
		if (a == NULL) {
			form = 0;
		} else {
			bool refused = set_deadline(a, !bus_avoid);
			a->skipped = false;
			bool want_skip = W(0, 5) == 0;
			nng_aio_set_msg(a->u.aio, m);
			a->msg     = m;
			a->on      = s;
			a->kind    = ctx ? 3 : 1;
			a->pending = true;
			if (a->stopped)
				a->used_after_stop = true;
			a->u.arm(ctx ? "nng_ctx_send" : "nng_socket_send");
			sim_event("t%d aio send s%d%s len=%zu%s", t->id, s->idx, ctx ? " ctx" : "", nng_msg_len(m),
			    refused ? " (to be refused)" : "");
			if (want_skip)
				nng_aio_skip_callback(a->u.aio, &a->skipped);
			if (ctx)
				nng_ctx_send(*ctx, a->u.aio);
			else
				nng_socket_send(s->s, a->u.aio);
			if (a->skipped) {
				// completed synchronously, no callback
				a->u.result = nng_aio_result(a->u.aio);
				a->u.done   = 1;
				sim_probe("c03_callback_skipped");
			}
			if (refused)
				sim_probe("c03_aio_send_refused_at_start");
			return;
		}
	}
	int rv;
	size_t len = nng_msg_len(m);
	if (form == 2 || form == 3) {
		// buffer form: the library copies; the message built above stays ours
		if (ctx != NULL) {
			form -= 2;
		} else {
			rv = nng_send(s->s, nng_msg_body(m), len, form == 3 ? NNG_FLAG_NONBLOCK : 0);
			sim_event("t%d nng_send s%d len=%zu flags=%d -> %d", t->id, s->idx, len, form == 3, rv);
			nng_msg_free(m);
			if (rv == 0)
				w->sent_ok++;
			return;
		}
	}
	int flags = form == 1 ? NNG_FLAG_NONBLOCK : 0;
	rv        = ctx ? nng_ctx_sendmsg(*ctx, m, flags) : nng_sendmsg(s->s, m, flags);
	sim_event("t%d sendmsg s%d%s len=%zu flags=%d -> %d", t->id, s->idx, ctx ? " ctx" : "", len, flags, rv);
	if (rv != 0) {
		// failed send: the message is still the caller's
		read_msg(m);
		nng_msg_free(m);
		w->sends_failed++;
		sim_probe("c03_send_failed_app_frees");
	} else {
		w->sent_ok++;
	}
}

static void
recv_msg(Task *t, Sock *s, nng_ctx *ctx, int form)
{
	World *w = t->w;
	if (form == 4) {
		AOp *a = idle_aop(t);
		if (a == NULL) {
			form = 1;
		} else {
			bool refused = set_deadline(a, true);
			nng_aio_set_msg(a->u.aio, NULL);
			a->msg     = NULL;
			a->on      = s;
			a->kind    = ctx ? 4 : 2;
			a->pending = true;
			if (a->stopped)
				a->used_after_stop = true;
			a->u.arm(ctx ? "nng_ctx_recv" : "nng_socket_recv");
			sim_event("t%d aio recv s%d%s%s", t->id, s->idx, ctx ? " ctx" : "", refused ? " (to be refused)" : "");
			if (ctx)
				nng_ctx_recv(*ctx, a->u.aio);
			else
				nng_socket_recv(s->s, a->u.aio);
			return;
		}
	}
	if ((form == 2 || form == 3) && ctx == NULL) {
		size_t               cap = (size_t) W(0, 2) == 0 ? (size_t) W(0, 16) : (size_t) W(17, 4000);
		std::vector<uint8_t> buf(cap ? cap : 1);
		size_t               sz = cap;
		int rv = nng_recv(s->s, buf.data(), &sz, form == 3 ? NNG_FLAG_NONBLOCK : 0);
		sim_event("t%d nng_recv s%d cap=%zu -> %d len=%zu", t->id, s->idx, cap, rv, rv == 0 ? sz : 0);
		if (rv == 0) {
			g_sink += sum_bytes(buf.data(), sz < cap ? sz : cap);
			w->recv_ok++;
			if (sz > cap)
				sim_probe("c03_recv_truncated");
		}
		return;
	}
	int      flags = (form & 1) ? NNG_FLAG_NONBLOCK : 0;
	nng_msg *m     = NULL;
	int      rv    = ctx ? nng_ctx_recvmsg(*ctx, &m, flags) : nng_recvmsg(s->s, &m, flags);
	sim_event("t%d recvmsg s%d%s flags=%d -> %d", t->id, s->idx, ctx ? " ctx" : "", flags, rv);
	if (rv == 0 && m != NULL) {
		w->recv_ok++;
		consume(t, s, ctx, m);
	}
}

// a received message: the application reads it, changes it, keeps it,
// answers with it, forwards it - and releases it exactly once
static void
consume(Task *t, Sock *from, nng_ctx *ctx, nng_msg *m)
{
	World *w = t->w;
	read_msg(m);
	long c = W(0, 9);
	if (c >= 8) {
		for (long i = W(1, 3); i > 0; i--)
			mutate_once(&m);
		read_msg(m);
		c = W(0, 7);
	}
	if (c <= 2) {
		nng_msg_free(m);
	} else if (c <= 4 && from != NULL) {
		// answer on the same socket (keeps a raw header intact)
		send_msg(t, from, ctx, m, (int) W(0, 1));
	} else if (c == 5 && t->held.size() < 4) {
		t->held.push_back(m);
		sim_probe("c03_received_msg_held");
	} else if (c == 6) {
		Sock *to = pick_sock(w);
		if (to != NULL)
			send_msg(t, to, NULL, m, (int) W(0, 4));
		else
			nng_msg_free(m);
	} else {
		nng_msg_free(m);
	}
}

// ------------------------------------------------------------ option ops ---
static void
typed_set(int target, Sock *s, nng_ctx cx, nng_dialer d, nng_listener l, const Opt &o, char type, long v, int *rvp)
{
	int         rv = NNG_ENOTSUP;
	const char *sv = STRVALS[(size_t) (v < 0 ? 0 : v) % 3];
	switch (target) {
	case 0: // socket
		switch (type) {
		case 'i': rv = nng_socket_set_int(s->s, o.name, (int) v); break;
		case 'b': rv = nng_socket_set_bool(s->s, o.name, v != 0); break;
		case 'z': rv = nng_socket_set_size(s->s, o.name, (size_t) v); break;
		case 'm': rv = nng_socket_set_ms(s->s, o.name, (nng_duration) v); break;
		default: break;
		}
		break;
	case 1: // context
		switch (type) {
		case 'i': rv = nng_ctx_set_int(cx, o.name, (int) v); break;
		case 'b': rv = nng_ctx_set_bool(cx, o.name, v != 0); break;
		case 'z': rv = nng_ctx_set_size(cx, o.name, (size_t) v); break;
		case 'm': rv = nng_ctx_set_ms(cx, o.name, (nng_duration) v); break;
		default: break;
		}
		break;
	case 2: // dialer
		switch (type) {
		case 'i': rv = nng_dialer_set_int(d, o.name, (int) v); break;
		case 'b': rv = nng_dialer_set_bool(d, o.name, v != 0); break;
		case 'z': rv = nng_dialer_set_size(d, o.name, (size_t) v); break;
		case 'm': rv = nng_dialer_set_ms(d, o.name, (nng_duration) v); break;
		case 's': rv = nng_dialer_set_string(d, o.name, sv); break;
		default: break;
		}
		break;
	default: // listener
		switch (type) {
		case 'i': rv = nng_listener_set_int(l, o.name, (int) v); break;
		case 'b': rv = nng_listener_set_bool(l, o.name, v != 0); break;
		case 'z': rv = nng_listener_set_size(l, o.name, (size_t) v); break;
		case 'm': rv = nng_listener_set_ms(l, o.name, (nng_duration) v); break;
		case 's': rv = nng_listener_set_string(l, o.name, sv); break;
		default: break;
		}
		break;
	}
	*rvp = rv;
}

static void
typed_get(int target, Sock *s, nng_ctx cx, nng_dialer d, nng_listener l, const Opt &o, char type, int *rvp)
{
	int          rv = NNG_ENOTSUP;
	int          vi = 0;
	bool         vb = false;
	size_t       vz = 0;
	nng_duration vm = 0;
	uint64_t     vu = 0;
	const char  *vs = NULL;
	switch (target) {
	case 0:
		switch (type) {
		case 'i': rv = nng_socket_get_int(s->s, o.name, &vi); break;
		case 'b': rv = nng_socket_get_bool(s->s, o.name, &vb); break;
		case 'z': rv = nng_socket_get_size(s->s, o.name, &vz); break;
		case 'm': rv = nng_socket_get_ms(s->s, o.name, &vm); break;
		default: break;
		}
		break;
	case 1:
		switch (type) {
		case 'i': rv = nng_ctx_get_int(cx, o.name, &vi); break;
		case 'b': rv = nng_ctx_get_bool(cx, o.name, &vb); break;
		case 'z': rv = nng_ctx_get_size(cx, o.name, &vz); break;
		case 'm': rv = nng_ctx_get_ms(cx, o.name, &vm); break;
		default: break;
		}
		break;
	case 2:
		switch (type) {
		case 'i': rv = nng_dialer_get_int(d, o.name, &vi); break;
		case 'b': rv = nng_dialer_get_bool(d, o.name, &vb); break;
		case 'z': rv = nng_dialer_get_size(d, o.name, &vz); break;
		case 'm': rv = nng_dialer_get_ms(d, o.name, &vm); break;
		case 's':
			rv = nng_dialer_get_string(d, o.name, &vs);
			if (rv == 0 && vs != NULL)
				g_sink += sum_bytes(vs, strlen(vs));
			break;
		default: break;
		}
		break;
	default:
		switch (type) {
		case 'i': rv = nng_listener_get_int(l, o.name, &vi); break;
		case 'b': rv = nng_listener_get_bool(l, o.name, &vb); break;
		case 'z': rv = nng_listener_get_size(l, o.name, &vz); break;
		case 'm': rv = nng_listener_get_ms(l, o.name, &vm); break;
		case 's':
			rv = nng_listener_get_string(l, o.name, &vs);
			if (rv == 0 && vs != NULL)
				g_sink += sum_bytes(vs, strlen(vs));
			break;
		default: break;
		}
		break;
	}
	g_sink += (uint32_t) (vi + (int) vb + (int) vz + (int) vm + (int) vu);
	*rvp = rv;
}

static const char TYPES[] = "ibzmsu";

// set or get a random option on a random object of s
static void
option_op(Task *t, Sock *s, bool set)
{
	World *w = t->w;
	// which option: the protocol's own, the common ones, sometimes anything
	int  oi;
	long oc = W(0, 19);
	if (oc < 8) {
		oi = (int) W(0, OPT_COMMON - 1);
	} else if (oc < 17) {
		static const char *const REL[F_N][2][4] = {
			{ { NNG_OPT_SENDBUF, NNG_OPT_RECVBUF, NNG_OPT_RECVMAXSZ, NNG_OPT_SENDBUF },
			    { NNG_OPT_SENDBUF, NNG_OPT_RECVBUF, NNG_OPT_RECVMAXSZ, NNG_OPT_RECVBUF } },
			{ { NNG_OPT_SENDBUF, NNG_OPT_RECVBUF, NNG_OPT_MAXTTL, NNG_OPT_PAIR1_POLY },
			    { NNG_OPT_SENDBUF, NNG_OPT_RECVBUF, NNG_OPT_MAXTTL, NNG_OPT_RECVMAXSZ } },
			{ { NNG_OPT_REQ_RESENDTIME, NNG_OPT_REQ_RESENDTIME, NNG_OPT_REQ_RESENDTICK, NNG_OPT_MAXTTL },
			    { NNG_OPT_MAXTTL, NNG_OPT_RECVMAXSZ, NNG_OPT_RECVBUF, NNG_OPT_SENDBUF } },
			{ { NNG_OPT_SENDBUF, NNG_OPT_SENDBUF, NNG_OPT_RECVMAXSZ, NNG_OPT_SENDTIMEO },
			    { NNG_OPT_RECVBUF, NNG_OPT_SUB_PREFNEW, NNG_OPT_RECVBUF, NNG_OPT_RECVMAXSZ } },
			{ { NNG_OPT_SENDBUF, NNG_OPT_SENDBUF, NNG_OPT_SENDTIMEO, NNG_OPT_RECVMAXSZ },
			    { NNG_OPT_RECVBUF, NNG_OPT_RECVMAXSZ, NNG_OPT_RECVTIMEO, NNG_OPT_RECVBUF } },
			{ { NNG_OPT_SURVEYOR_SURVEYTIME, NNG_OPT_SURVEYOR_SURVEYTIME, NNG_OPT_MAXTTL, NNG_OPT_RECVBUF },
			    { NNG_OPT_MAXTTL, NNG_OPT_RECVMAXSZ, NNG_OPT_RECVBUF, NNG_OPT_SENDBUF } },
			{ { NNG_OPT_SENDBUF, NNG_OPT_RECVBUF, NNG_OPT_RECVMAXSZ, NNG_OPT_SENDBUF },
			    { NNG_OPT_SENDBUF, NNG_OPT_RECVBUF, NNG_OPT_RECVMAXSZ, NNG_OPT_RECVBUF } },
		};
		const char *nm = REL[s->t->fam][s->t->side][W(0, 3)];
		oi             = 0;
		for (int i = 0; i < NOPTS; i++)
			if (!strcmp(OPTS[i].name, nm))
				oi = i;
	} else {
		oi = (int) W(0, NOPTS - 1);
	}
	const Opt &o  = OPTS[oi];
	long       v  = o.vals[W(0, o.nvals - 1)];
	char       ty = o.type;
	if (W(0, 9) == 9)
		ty = TYPES[W(0, 5)]; // wrong (or accidentally right) type
	nng_ctx      cx;
	nng_dialer   d;
	nng_listener l;
	memset(&cx, 0, sizeof(cx));
	memset(&d, 0, sizeof(d));
	memset(&l, 0, sizeof(l));
	int target = 0;
	long c     = W(0, 9);
	if (c >= 5 && c <= 6 && pick(s->ctxs, &cx))
		target = 1;
	else if (c == 7 && pick(s->dialers, &d))
		target = 2;
	else if (c == 8 && pick(s->listeners, &l))
		target = 3;
	if ((w->avoid & AV_RESEND_FLIP) && set && !strcmp(o.name, NNG_OPT_REQ_RESENDTIME)) {
		// keep the sign this socket was opened with
		if (s->resend_sign < 0)
			v = W(0, 1) ? -1 : 0;
		else if (v <= 0)
			v = 7;
	}
	int rv = 0;
	if (set)
		typed_set(target, s, cx, d, l, o, ty, v, &rv);
	else
		typed_get(target, s, cx, d, l, o, ty, &rv);
	sim_event("t%d %s s%d target=%d %s type=%c val=%ld -> %d", t->id, set ? "set" : "get", s->idx, target, o.name, ty, v, rv);
	if (set && rv == 0) {
		sim_probe("c03_option_set_ok");
		if (w->exch_open > 0)
			sim_probe("c03_option_set_mid_exchange");
		if (!strcmp(o.name, NNG_OPT_REQ_RESENDTIME))
			sim_probe(v > 0 ? "c03_resendtime_set_positive" : "c03_resendtime_set_nonpositive");
		if ((!strcmp(o.name, NNG_OPT_RECVBUF) || !strcmp(o.name, NNG_OPT_SENDBUF)) && v <= 1)
			sim_probe("c03_buffer_shrunk");
	}
}

static void
url_and_addr_queries(Sock *s)
{
	bool         no_clone = (s->w->avoid & AV_URL_CLONE) != 0;
	nng_dialer   d;
	nng_listener l;
	char         buf[200];
	if (W(0, 1) && pick(s->dialers, &d)) {
		const nng_url *u = NULL;
		if (nng_dialer_get_url(d, &u) == 0 && u != NULL) {
			nng_url_sprintf(buf, sizeof(buf), u);
			g_sink += sum_bytes(buf, strlen(buf)) + nng_url_port(u);
			nng_url *cl = NULL;
			if (!no_clone && nng_url_clone(&cl, u) == 0) {
				g_sink += sum_bytes(nng_url_scheme(cl), strlen(nng_url_scheme(cl)));
				nng_url_free(cl);
			}
		}
		nng_sockaddr sa;
		memset(&sa, 0, sizeof(sa));
		sa.s_in.sa_family = NNG_AF_INET;
		sa.s_in.sa_addr   = htonl(0x7f000001u);
		if (W(0, 3) == 0)
			(void) nng_dialer_set_addr(d, NNG_OPT_LOCADDR, &sa);
	} else if (pick(s->listeners, &l)) {
		const nng_url *u = NULL;
		if (nng_listener_get_url(l, &u) == 0 && u != NULL) {
			nng_url_sprintf(buf, sizeof(buf), u);
			g_sink += sum_bytes(buf, strlen(buf));
		}
		int port = 0;
		(void) nng_listener_get_int(l, NNG_OPT_BOUND_PORT, &port);
	}
}

static void
pipe_op(Task *t, Sock *s)
{
	uint32_t id;
	if (!pick(s->pipes, &id))
		return;
	nng_pipe p;
	p.id   = id;
	long c = W(0, 5);
	if (c <= 1) {
		int rv = nng_pipe_close(p);
		sim_event("t%d pipe_close s%d %x -> %d", t->id, s->idx, id, rv);
		sim_probe("c03_pipe_closed");
		return;
	}
	if ((s->w->avoid & AV_WS_PIPE_GET) && s->has_ws)
		return;
	// properties
	int          vi;
	bool         vb;
	size_t       vz;
	nng_duration vm;
	const char  *vs = NULL;
	char        *dup = NULL;
	char         cp[8];
	nng_sockaddr sa;
	const Opt   &o = OPTS[W(0, NOPTS - 1)];
	(void) nng_pipe_get_int(p, o.name, &vi);
	(void) nng_pipe_get_bool(p, o.name, &vb);
	(void) nng_pipe_get_size(p, o.name, &vz);
	(void) nng_pipe_get_ms(p, o.name, &vm);
	if (nng_pipe_get_string(p, o.name, &vs) == 0 && vs != NULL)
		g_sink += sum_bytes(vs, strlen(vs));
	if (nng_pipe_get_strdup(p, o.name, &dup) == 0 && dup != NULL) {
		g_sink += sum_bytes(dup, strlen(dup));
		nng_strfree(dup);
	}
	(void) nng_pipe_get_strcpy(p, o.name, cp, sizeof(cp));
	(void) nng_pipe_get_strlen(p, o.name, &vz);
	if (nng_pipe_get_scheme(p, &vs) == 0 && vs != NULL)
		g_sink += sum_bytes(vs, strlen(vs));
	if (nng_pipe_peer_addr(p, &sa) == 0) {
		char sb[NNG_MAXADDRSTRLEN];
		g_sink += sum_bytes(nng_str_sockaddr(&sa, sb, sizeof(sb)), 1);
	}
	(void) nng_pipe_self_addr(p, &sa);
	g_sink += (uint32_t) nng_socket_id(nng_pipe_socket(p));
	g_sink += (uint32_t) nng_dialer_id(nng_pipe_dialer(p));
	g_sink += (uint32_t) nng_listener_id(nng_pipe_listener(p));
}

static void
stats_op(void)
{
	nng_stat *st = NULL;
	if (nng_stats_get(&st) != 0)
		return;
	// walk the whole tree
	std::vector<const nng_stat *> stack;
	stack.push_back(st);
	int n = 0;
	while (!stack.empty() && n < 5000) {
		const nng_stat *x = stack.back();
		stack.pop_back();
		n++;
		g_sink += sum_bytes(nng_stat_name(x), strlen(nng_stat_name(x)));
		g_sink += (uint32_t) nng_stat_value(x) + (uint32_t) nng_stat_type(x);
		if (nng_stat_type(x) == NNG_STAT_STRING && nng_stat_string(x) != NULL)
			g_sink += sum_bytes(nng_stat_string(x), strlen(nng_stat_string(x)));
		const nng_stat *ch = nng_stat_child(x);
		const nng_stat *nx = nng_stat_next(x);
		if (nx != NULL)
			stack.push_back(nx);
		if (ch != NULL)
			stack.push_back(ch);
	}
	nng_stats_free(st);
	sim_probe("c03_stats_snapshot");
}

// ------------------------------------------------------------------ peers ---
static void
peer_loss(Task *t)
{
	World  *w = t->w;
	UrlSlot u;
	if (!pick(w->urls, &u))
		return;
	if (u.tr == TR_TCP)
		simnet_kill_conns_of(0x7f000001u, (uint16_t) (5000 + u.port));
	else if (u.tr == TR_WS)
		simnet_kill_conns_of(0x7f000001u, (uint16_t) (8000 + u.port));
	else
		return;
	sim_event("t%d peer loss on %s", t->id, u.url.c_str());
	sim_probe("c03_peer_loss_reset");
}

// ----------------------------------------------------------------- device ---
static void
device_start(Task *t)
{
	World *w = t->w;
	// AV_TWO_DEVICES: one device at a time.  Two devices ending together can
	// occupy every task thread with their (blocking) socket closes - a hang,
	// which is C10's business, not this property's
	if (w->devs.size() >= ((w->avoid & AV_TWO_DEVICES) ? 1u : 2u))
		return;
	if ((w->avoid & AV_PUB_DEVICE) && w->fam == F_PUBSUB)
		return;
	if ((w->avoid & AV_BUS_REFUSED) && w->fam == F_BUS)
		return; // the device's own (aborted) aio meets the same refusal: the message leaks
	Dev *dv       = new Dev();
	dv->cancelled = false;
	dv->same      = false;
	dv->u         = new UAio();
	if (dv->u->aio == NULL)
		h_fatal("nng_aio_alloc failed");
	long        kind = W(0, 9);
	const SType *ta  = pick_type(w->fam, 1, kind == 9 ? 0 : 1); // kind 9: a cooked socket (refused)
	const SType *tb  = pick_type(w->fam, 0, 1);
	int rv1 = ta->open(&dv->s1);
	int rv2 = 0;
	if (kind == 8 && symmetric(w->fam)) {
		dv->same = true; // reflector
		dv->s2   = NNG_SOCKET_INITIALIZER;
	} else {
		rv2 = tb->open(&dv->s2);
	}
	if (rv1 != 0 || rv2 != 0) {
		if (rv1 == 0)
			nng_socket_close(dv->s1);
		if (rv2 == 0 && !dv->same)
			nng_socket_close(dv->s2);
		delete dv->u;
		delete dv;
		return;
	}
	// endpoints of the device sockets: made before the device owns them
	int tr1 = draw_transport(w), tr2 = draw_transport(w);
	int u1 = new_url(w, tr1), u2 = new_url(w, tr2);
	(void) nng_listen(dv->s1, w->urls[(size_t) u1].url.c_str(), NULL, 0);
	if (!dv->same)
		(void) nng_listen(dv->s2, w->urls[(size_t) u2].url.c_str(), NULL, 0);
	// clients
	for (int i = 0; i < 2; i++) {
		Sock *c = pick_sock_side(w, i == 0 ? 0 : 1);
		if (c != NULL)
			do_dial(c, i == 0 ? u1 : u2, 0);
	}
	nng_aio_set_timeout(dv->u->aio, NNG_DURATION_INFINITE);
	dv->u->arm("nng_device_aio");
	sim_event("t%d device %s <-> %s", t->id, ta->name, dv->same ? "(same)" : tb->name);
	nng_device_aio(dv->u->aio, dv->s1, dv->s2);
	w->devs.push_back(dv);
	sim_probe("c03_device_started");
}

static void
device_finish(Dev *dv)
{
	if (!dv->u->poll()) {
		nng_aio_cancel(dv->u->aio);
		dv->cancelled = true;
	}
	if (dv->u->wait(60000000000ull) == (nng_err) -1)
		sim_violation("C10", "device_pending_after_cancel", "nng_device_aio did not complete within 60 s of nng_aio_cancel");
	// the device closes its sockets when it stops; if it never started they
	// are still ours.  Closing a closed socket only says NNG_ECLOSED.
	(void) nng_socket_close(dv->s1);
	if (!dv->same)
		(void) nng_socket_close(dv->s2);
	delete dv->u;
	delete dv;
}

// ------------------------------------------------------------- operations ---
static nng_ctx *
maybe_ctx(Sock *s, nng_ctx *store)
{
	if (W(0, 2) != 0 && pick(s->ctxs, store))
		return store;
	return NULL;
}

static int
draw_form(void)
{
	// 0 blocking msg (simplest) ... 4 aio
	static const int F5[] = { 0, 0, 1, 1, 2, 3, 4, 4, 4 };
	return F5[W(0, 8)];
}

// something disruptive placed between two halves of an exchange
static void
interrupt(Task *t, Sock *a, Sock *b)
{
	World *w = t->w;
	Sock  *s = W(0, 1) ? a : b;
	long   c = W(0, 12);
	switch (c) {
	case 0:
		break;
	case 12: {
		// end a device while this exchange may be crossing it
		Dev *dv = NULL;
		if (pick(w->devs, &dv) && !dv->cancelled) {
			nng_aio_cancel(dv->u->aio);
			dv->cancelled = true;
			sim_event("t%d device cancel (mid-exchange)", t->id);
			sim_probe("c03_device_cancelled_mid_run");
		} else {
			option_op(t, s, true);
		}
		break;
	}
	case 1:
	case 2:
	case 3:
	case 4:
		option_op(t, s, true);
		break;
	case 5:
		pipe_op(t, s);
		break;
	case 6:
		peer_loss(t);
		break;
	case 7: {
		nng_ctx cx;
		if (pick(s->ctxs, &cx)) {
			int rv = nng_ctx_close(cx);
			sim_event("t%d ctx_close s%d -> %d (mid-exchange)", t->id, s->idx, rv);
			sim_probe("c03_ctx_closed_mid_exchange");
		}
		break;
	}
	case 8:
		for (size_t i = 0; i < t->aops.size(); i++) {
			if (t->aops[i]->pending && !t->aops[i]->u.poll()) {
				nng_aio_cancel(t->aops[i]->u.aio);
				sim_probe("c03_cancel_mid_exchange");
				break;
			}
		}
		break;
	case 9:
		sim_sleep_ns((uint64_t) W(0, 30000) * 1000);
		break;
	case 10: {
		nng_dialer d;
		nng_listener l;
		if (W(0, 1) && pick(s->dialers, &d)) {
			sim_event("t%d dialer_close s%d -> %d (mid-exchange)", t->id, s->idx, nng_dialer_close(d));
		} else if (pick(s->listeners, &l)) {
			sim_event("t%d listener_close s%d -> %d (mid-exchange)", t->id, s->idx, nng_listener_close(l));
		}
		break;
	}
	default:
		if (s->t->is_sub) {
			nng_sub0_socket_unsubscribe(s->s, "", 0);
		} else {
			option_op(t, s, false);
		}
		break;
	}
	(void) w;
}

// request (or message) from a to b, b answers, a collects - with
// interruptions between the halves
static void
exchange(Task *t)
{
	World *w = t->w;
	Sock  *a = pick_sock_side(w, 0);
	Sock  *b = pick_sock_side(w, 1);
	if (a == NULL || b == NULL)
		return;
	nng_ctx  ca, cb;
	nng_ctx *pa = maybe_ctx(a, &ca);
	nng_ctx *pb = maybe_ctx(b, &cb);
	sim_event("t%d exchange s%d%s -> s%d%s", t->id, a->idx, pa ? "(ctx)" : "", b->idx, pb ? "(ctx)" : "");
	w->exch_open++;
	send_msg(t, a, pa, make_msg(t, a), draw_form());
	if (W(0, 1))
		interrupt(t, a, b);
	// b's half: receive and answer (consume() may answer by itself)
	{
		nng_msg *m  = NULL;
		int      rv = pb ? nng_ctx_recvmsg(*pb, &m, 0) : nng_recvmsg(b->s, &m, 0);
		sim_event("t%d exchange: s%d recv -> %d", t->id, b->idx, rv);
		if (rv == 0 && m != NULL) {
			w->recv_ok++;
			read_msg(m);
			if (W(0, 2) == 0)
				interrupt(t, a, b);
			if (W(0, 5) == 0)
				mutate_once(&m);
			send_msg(t, b, pb, m, (int) W(0, 1) * 4);
		}
	}
	if (W(0, 1))
		interrupt(t, a, b);
	recv_msg(t, a, pa, draw_form());
	w->exch_open--;
	sim_probe("c03_exchange");
}

static void
one_op(Task *t)
{
	World *w = t->w;
	harvest_all(t);
	Sock *s = pick_sock(w);
	if (s == NULL)
		return;
	nng_ctx cx;
	long    c = t->chaos ? W(0, 99) : W(0, 69);
	if (c < 14) {
		Sock *x = W(0, 2) ? pick_sock_side(w, 0) : s;
		send_msg(t, x, maybe_ctx(x, &cx), make_msg(t, x), draw_form());
	} else if (c < 28) {
		Sock *x = W(0, 2) ? pick_sock_side(w, 1) : s;
		recv_msg(t, x, maybe_ctx(x, &cx), draw_form());
	} else if (c < 38) {
		exchange(t);
	} else if (c < 44) {
		// pending operations of this task: cancel, abort, wait, stop
		AOp *a = NULL;
		if (pick(t->aops, &a) && a->pending) {
			long how = W(0, 3);
			sim_event("t%d settle %s how=%ld", t->id, a->u.what, how);
			settle(t, a, (int) how);
		} else if (a != NULL && !a->pending && W(0, 3) == 0) {
			// cancel with nothing in flight: no effect on the next operation
			nng_aio_cancel(a->u.aio);
			sim_probe("c03_cancel_idle_aio");
		}
	} else if (c < 49) {
		// messages this task kept: change, read, send, drop
		size_t n = t->held.size();
		if (n > 0) {
			size_t k = (size_t) W(0, (long) n - 1);
			long   h = W(0, 4);
			if (h <= 1) {
				mutate_once(&t->held[k]);
				read_msg(t->held[k]);
				sim_probe("c03_held_msg_changed");
			} else if (h == 2) {
				read_msg(t->held[k]);
			} else {
				nng_msg *m = t->held[k];
				t->held.erase(t->held.begin() + (long) k);
				if (h == 3)
					nng_msg_free(m);
				else
					send_msg(t, s, maybe_ctx(s, &cx), m, draw_form());
			}
		} else {
			nng_msg *m = make_msg(t, s);
			if (m != NULL)
				t->held.push_back(m);
		}
	} else if (c < 57) {
		option_op(t, s, true);
	} else if (c < 60) {
		option_op(t, s, false);
	} else if (c < 63) {
		// contexts
		if (W(0, 2) != 0 || s->ctxs.empty()) {
			int rv = ctx_open(s, &cx);
			sim_event("t%d ctx_open s%d -> %d", t->id, s->idx, rv);
			if (rv == 0) {
				if (s->ctxs.size() < 6) {
					s->ctxs.push_back(cx);
					if (s->t->is_sub && W(0, 1))
						(void) nng_sub0_ctx_subscribe(cx, "", 0);
				} else {
					nng_ctx_close(cx);
				}
			}
		} else if (pick(s->ctxs, &cx)) {
			int rv = nng_ctx_close(cx);
			sim_event("t%d ctx_close s%d -> %d", t->id, s->idx, rv);
			sim_probe("c03_ctx_closed");
		}
	} else if (c < 65) {
		if (s->t->is_sub) {
			uint8_t topic[3] = { (uint8_t) W(0, 255), 1, 2 };
			size_t  tl       = (size_t) W(0, 3);
			bool    on_ctx   = pick(s->ctxs, &cx) && W(0, 1);
			int     rv;
			if (W(0, 2))
				rv = on_ctx ? nng_sub0_ctx_subscribe(cx, topic, tl) : nng_sub0_socket_subscribe(s->s, topic, tl);
			else
				rv = on_ctx ? nng_sub0_ctx_unsubscribe(cx, topic, tl) : nng_sub0_socket_unsubscribe(s->s, topic, tl);
			sim_event("t%d (un)subscribe s%d len=%zu -> %d", t->id, s->idx, tl, rv);
		} else {
			pipe_op(t, s);
		}
	} else if (c < 67) {
		pipe_op(t, s);
	} else if (c < 68) {
		url_and_addr_queries(s);
	} else if (c < 70) {
		sim_sleep_ns((uint64_t) W(0, 20000) * 1000);
	}
	// ---- the rest only for the chaos task (or rarely)
	else if (c < 76) {
		// new endpoint
		long k = W(0, 5);
		if (k <= 2 && !w->urls.empty()) {
			do_dial(s, (int) W(0, (long) w->urls.size() - 1), (int) W(0, 2));
		} else if (k == 3) {
			do_listen(s, new_url(w, draw_transport(w)), W(0, 1) != 0);
		} else if (k == 4) {
			Sock *o = pick_sock(w);
			if (o != NULL && o != s)
				do_fdlink(s, o);
		} else if (!w->urls.empty()) {
			// a second listener on a used address: refused
			do_listen(s, (int) W(0, (long) w->urls.size() - 1), false);
		}
	} else if (c < 81) {
		// close an endpoint
		nng_dialer   d;
		nng_listener l;
		if (W(0, 1) && pick(s->dialers, &d)) {
			int rv = nng_dialer_close(d);
			sim_event("t%d dialer_close s%d -> %d", t->id, s->idx, rv);
			sim_probe("c03_endpoint_closed");
		} else if (pick(s->listeners, &l)) {
			int rv = nng_listener_close(l);
			sim_event("t%d listener_close s%d -> %d", t->id, s->idx, rv);
			sim_probe("c03_endpoint_closed");
		}
	} else if (c < 85) {
		peer_loss(t);
	} else if (c < 89) {
		// close a socket under everybody's feet, open a replacement
		if (!s->closed) {
			sim_event("t%d socket_close s%d ...", t->id, s->idx);
			int rv = sock_close(s);
			sim_event("t%d socket_close s%d -> %d", t->id, s->idx, rv);
			sim_probe("c03_socket_closed_mid_run");
			if (w->socks.size() < 8) {
				Sock *n = open_sock(w, s->t->side, 2);
				if (n != NULL && !w->urls.empty()) {
					if (W(0, 1))
						do_dial(n, (int) W(0, (long) w->urls.size() - 1), 0);
					else
						do_listen(n, new_url(w, draw_transport(w)), false);
				}
			}
		}
	} else if (c < 92) {
		device_start(t);
	} else if (c < 94) {
		Dev *dv = NULL;
		if (pick(w->devs, &dv) && !dv->cancelled) {
			nng_aio_cancel(dv->u->aio);
			dv->cancelled = true;
			sim_event("t%d device cancel", t->id);
			sim_probe("c03_device_cancelled_mid_run");
		}
	} else if (c < 96) {
		stats_op();
	} else {
		// sleep aio: timeouts racing cancel on an operation without a message
		AOp *a = idle_aop(t);
		if (a != NULL && !a->stopped) {
			a->kind    = 5;
			a->pending = true;
			a->finite  = true;
			a->on      = NULL;
			a->u.arm("nng_sleep_aio");
			nng_aio_set_timeout(a->u.aio, NNG_DURATION_INFINITE);
			nng_sleep_aio((nng_duration) W(0, 20), a->u.aio);
		}
	}
}

static void
task_main(void *arg)
{
	Task *t = (Task *) arg;
	for (int i = 0; i < t->nops; i++)
		one_op(t);
	t->finished = 1;
}

// end of a task's life: nothing pending, nothing owned
static void
task_cleanup(Task *t)
{
	for (size_t i = 0; i < t->aops.size(); i++) {
		settle(t, t->aops[i], 3);
		// settle() may have consumed a message by sending it with an aio of
		// this task: go round until everything is idle
	}
	for (int round = 0; round < 8; round++) {
		bool busy = false;
		for (size_t i = 0; i < t->aops.size(); i++) {
			if (t->aops[i]->pending) {
				busy = true;
				settle(t, t->aops[i], 3);
			}
		}
		if (!busy)
			break;
	}
	for (size_t i = 0; i < t->aops.size(); i++) {
		if (t->aops[i]->pending)
			h_fatal("aio of task %d still pending after cleanup", t->id);
		delete t->aops[i];
	}
	t->aops.clear();
	for (auto m : t->held) {
		read_msg(m);
		nng_msg_free(m);
	}
	t->held.clear();
}

static void
api_run(Params *p)
{
	World w;
	w.p        = p;
	w.avoid    = p->i("avoid", 0);
	w.slow_net = p->i("slow_net", 0) != 0;
	w.sent_ok = w.recv_ok = w.sends_failed = 0;
	w.next_url_idx = 10;
	w.exch_open    = 0;
	w.fam          = (int) p->draw("fam", 0, F_N - 1);
	int  nsock     = 2 + (int) W(0, 2);
	long rawness   = W(0, 3); // 0,1: all cooked; 2: mixed; 3: all raw
	for (int i = 0; i < nsock; i++) {
		int side = i < 2 ? i : (int) W(0, 1);
		int rw   = rawness <= 1 ? 0 : (rawness == 2 ? 2 : 1);
		if (open_sock(&w, side, rw) == NULL)
			h_fatal("cannot open socket");
	}
	// topology: socket 1 (side B) listens, the others dial; extras at random
	int nurl = 1 + (int) W(0, 1);
	for (int i = 0; i < nurl; i++) {
		int tr0 = (int) p->draw("tr", 0, XT_UDP);
		if (tr0 == XT_UDP && (w.avoid & AV_UDP))
			tr0 = TR_TCP;
		int slot = new_url(&w, i == 0 ? tr0 : draw_transport(&w));
		do_listen(w.socks[1], slot, W(0, 3) == 3);
	}
	for (int i = 0; i < nsock; i++) {
		if (i == 1)
			continue;
		do_dial(w.socks[(size_t) i], (int) W(0, nurl - 1), (int) W(0, 2));
		if (i >= 2 && W(0, 1)) {
			int slot = new_url(&w, draw_transport(&w));
			do_listen(w.socks[(size_t) i], slot, false);
			do_dial(w.socks[0], slot, 0);
		}
	}
	if (W(0, 5) == 5)
		do_fdlink(w.socks[0], w.socks[1]);
	// contexts up front on some sockets
	for (auto s : w.socks) {
		for (long k = W(0, 2); k > 0; k--) {
			nng_ctx cx;
			if (ctx_open(s, &cx) == 0)
				s->ctxs.push_back(cx);
		}
	}
	// let some (or none) of the connections come up first
	sim_sleep_ns((uint64_t) W(0, 3) * 3000000);
	sim_event("c03_api fam=%d socks=%d rawness=%ld urls=%d avoid=%ld", w.fam, nsock, rawness, nurl, w.avoid);

	int ntask = 1 + (int) W(0, 2);
	for (int i = 0; i < ntask; i++) {
		Task *t     = new Task();
		t->w        = &w;
		t->id       = i;
		t->chaos    = i == 0;
		t->nops     = (int) W(4, 36);
		t->serial   = (uint32_t) i * 1000;
		t->finished = 0;
		w.tasks.push_back(t);
	}
	for (size_t i = 1; i < w.tasks.size(); i++)
		sim_spawn("api", task_main, w.tasks[i], 0);
	task_main(w.tasks[0]);
	sim_join_all();

	// how the run ends: close sockets first (with operations pending) or
	// settle the operations first
	bool close_first = W(0, 1) != 0;
	if (!close_first)
		for (auto t : w.tasks)
			task_cleanup(t);
	for (auto dv : w.devs)
		device_finish(dv);
	w.devs.clear();
	for (size_t i = 0; i < w.socks.size(); i++) {
		Sock *s = w.socks[i];
		if (W(0, 3) == 0) {
			// orderly: contexts and endpoints first
			for (auto cx : s->ctxs)
				(void) nng_ctx_close(cx);
			for (auto d : s->dialers)
				(void) nng_dialer_close(d);
			for (auto l : s->listeners)
				(void) nng_listener_close(l);
		}
		int rv = nng_socket_close(s->s);
		if (!s->closed && rv != 0)
			sim_event("final close s%d -> %d", s->idx, rv);
		s->closed = true;
	}
	if (close_first) {
		sim_probe("c03_sockets_closed_with_ops_pending");
		for (auto t : w.tasks)
			task_cleanup(t);
	}
	if (w.sent_ok > 0 && w.recv_ok > 0)
		sim_stat("nontrivial", 1);
	sim_stat("sent_ok", w.sent_ok);
	sim_stat("recv_ok", w.recv_ok);
	sim_stat("sends_failed", w.sends_failed);
	for (auto t : w.tasks)
		delete t;
	for (auto s : w.socks)
		delete s;
}

static void
api_cfg(sim_config *cfg, Params *p)
{
	long net = p->draw("net", 0, 5);
	switch (net) {
	case 1:
		cfg->seg_mode = 3;
		break;
	case 2:
		cfg->seg_mode   = 2;
		cfg->seg_k      = 7;
		cfg->lat_min_ns = 10000;
		cfg->lat_max_ns = 2000000;
		p->set("slow_net", 1);
		break;
	case 3:
		cfg->seg_mode = 1;
		cfg->eagain_p = 0.05;
		p->set("slow_net", 1);
		break;
	case 4:
		cfg->sndbuf_min = 64;
		cfg->sndbuf_max = 600;
		cfg->seg_mode   = 3;
		p->set("slow_net", 1);
		break;
	case 5:
		cfg->lat_min_ns        = 100000;
		cfg->lat_max_ns        = 5000000;
		cfg->conn_delay_max_ns = 3000000;
		cfg->accept_err_p      = 0.05;
		break;
	default:
		break;
	}
}

SCENARIO(c03_api, "C03", api_cfg, api_run);

// ===========================================================================
// c03_msg: the nng_msg_* API against a byte-vector model, plus fan-out of one
// message to several SUB contexts (clone on fan-out / unique before hand-up).
// Memory faults are the oracle; content differences from the model are only
// counted (probe c03_msg_content_differs), they are not the property.
struct MM {
	nng_msg             *m;
	std::vector<uint8_t> h, b;
};

static void
mm_check(MM &x, const char *after)
{
	size_t hl = nng_msg_header_len(x.m), bl = nng_msg_len(x.m);
	const uint8_t *hp = (const uint8_t *) nng_msg_header(x.m);
	const uint8_t *bp = (const uint8_t *) nng_msg_body(x.m);
	g_sink += sum_bytes(hp, hl) + sum_bytes(bp, bl); // every byte is readable
	if (nng_msg_capacity(x.m) < bl)
		sim_probe("c03_msg_capacity_below_len");
	bool same = hl == x.h.size() && bl == x.b.size() && (hl == 0 || memcmp(hp, x.h.data(), hl) == 0) &&
	    (bl == 0 || memcmp(bp, x.b.data(), bl) == 0);
	if (!same) {
		sim_probe("c03_msg_content_differs");
		sim_event("content differs from the model after %s: header %zu/%zu body %zu/%zu", after, hl, x.h.size(), bl,
		    x.b.size());
		// resynchronise the model
		x.h.assign(hp, hp + hl);
		x.b.assign(bp, bp + bl);
	}
}

static void
put_be(std::vector<uint8_t> &v, bool front, uint64_t val, int n)
{
	uint8_t b[8];
	for (int i = 0; i < n; i++)
		b[i] = (uint8_t) (val >> (8 * (n - 1 - i)));
	if (front)
		v.insert(v.begin(), b, b + n);
	else
		v.insert(v.end(), b, b + n);
}

static void
mm_op(MM &x)
{
	uint8_t buf[4100];
	size_t  bl = x.b.size(), hl = x.h.size();
	long    k  = W(0, 27);
	size_t  n;
	uint16_t v16 = 0;
	uint32_t v32 = 0;
	uint64_t v64 = 0;
	const char *what = "?";
	fill(buf, sizeof(buf), (uint32_t) (bl * 3 + hl));
	switch (k) {
	case 0:
		what = "append";
		n    = W(0, 3) == 3 ? (size_t) W(100, 4096) : (size_t) W(0, 64);
		if (nng_msg_append(x.m, buf, n) == 0)
			x.b.insert(x.b.end(), buf, buf + n);
		break;
	case 1:
		what = "insert";
		n    = W(0, 3) == 3 ? (size_t) W(33, 1000) : (size_t) W(0, 64);
		if (nng_msg_insert(x.m, buf, n) == 0)
			x.b.insert(x.b.begin(), buf, buf + n);
		break;
	case 2:
		what = "trim";
		n    = (size_t) W(0, (long) bl + 1);
		if (nng_msg_trim(x.m, n) == 0) {
			if (n > bl)
				sim_probe("c03_msg_trim_beyond_len_accepted");
			else
				x.b.erase(x.b.begin(), x.b.begin() + (long) n);
		}
		break;
	case 3:
		what = "chop";
		n    = (size_t) W(0, (long) bl + 1);
		if (nng_msg_chop(x.m, n) == 0) {
			if (n > bl)
				sim_probe("c03_msg_trim_beyond_len_accepted");
			else
				x.b.resize(bl - n);
		}
		break;
	case 4:
		what = "append_u16";
		if (nng_msg_append_u16(x.m, 0xa1b2) == 0)
			put_be(x.b, false, 0xa1b2, 2);
		break;
	case 5:
		what = "append_u32";
		if (nng_msg_append_u32(x.m, 0xa1b2c3d4u) == 0)
			put_be(x.b, false, 0xa1b2c3d4u, 4);
		break;
	case 6:
		what = "append_u64";
		if (nng_msg_append_u64(x.m, 0x0102030405060708ull) == 0)
			put_be(x.b, false, 0x0102030405060708ull, 8);
		break;
	case 7:
		what = "insert_u16";
		if (nng_msg_insert_u16(x.m, 0x1122) == 0)
			put_be(x.b, true, 0x1122, 2);
		break;
	case 8:
		what = "insert_u32";
		if (nng_msg_insert_u32(x.m, 0x11223344u) == 0)
			put_be(x.b, true, 0x11223344u, 4);
		break;
	case 9:
		what = "insert_u64";
		if (nng_msg_insert_u64(x.m, 0x1122334455667788ull) == 0)
			put_be(x.b, true, 0x1122334455667788ull, 8);
		break;
	case 10:
		what = "trim_u16/32/64";
		n    = (size_t) 2 << W(0, 2);
		if ((n == 2 ? nng_msg_trim_u16(x.m, &v16) : n == 4 ? nng_msg_trim_u32(x.m, &v32) : nng_msg_trim_u64(x.m, &v64)) == 0 &&
		    bl >= n)
			x.b.erase(x.b.begin(), x.b.begin() + (long) n);
		break;
	case 11:
		what = "chop_u16/32/64";
		n    = (size_t) 2 << W(0, 2);
		if ((n == 2 ? nng_msg_chop_u16(x.m, &v16) : n == 4 ? nng_msg_chop_u32(x.m, &v32) : nng_msg_chop_u64(x.m, &v64)) == 0 &&
		    bl >= n)
			x.b.resize(bl - n);
		break;
	case 12:
		what = "header_append";
		n    = (size_t) W(0, 24);
		if (nng_msg_header_append(x.m, buf, n) == 0)
			x.h.insert(x.h.end(), buf, buf + n);
		break;
	case 13:
		what = "header_insert";
		n    = (size_t) W(0, 24);
		if (nng_msg_header_insert(x.m, buf, n) == 0)
			x.h.insert(x.h.begin(), buf, buf + n);
		break;
	case 14:
		what = "header_trim";
		n    = (size_t) W(0, (long) hl + 1);
		if (nng_msg_header_trim(x.m, n) == 0 && n <= hl)
			x.h.erase(x.h.begin(), x.h.begin() + (long) n);
		break;
	case 15:
		what = "header_chop";
		n    = (size_t) W(0, (long) hl + 1);
		if (nng_msg_header_chop(x.m, n) == 0 && n <= hl)
			x.h.resize(hl - n);
		break;
	case 16:
		what = "header_append_uNN";
		n    = (size_t) 2 << W(0, 2);
		if ((n == 2 ? nng_msg_header_append_u16(x.m, 0x5152) : n == 4 ? nng_msg_header_append_u32(x.m, 0x51525354u) :
		                                                                nng_msg_header_append_u64(x.m, 0x5152535455565758ull)) == 0)
			put_be(x.h, false, n == 2 ? 0x5152 : n == 4 ? 0x51525354u : 0x5152535455565758ull, (int) n);
		break;
	case 17:
		what = "header_insert_uNN";
		n    = (size_t) 2 << W(0, 2);
		if ((n == 2 ? nng_msg_header_insert_u16(x.m, 0x6162) : n == 4 ? nng_msg_header_insert_u32(x.m, 0x61626364u) :
		                                                                nng_msg_header_insert_u64(x.m, 0x6162636465666768ull)) == 0)
			put_be(x.h, true, n == 2 ? 0x6162 : n == 4 ? 0x61626364u : 0x6162636465666768ull, (int) n);
		break;
	case 18:
		what = "header_trim_uNN";
		n    = (size_t) 2 << W(0, 2);
		if ((n == 2 ? nng_msg_header_trim_u16(x.m, &v16) : n == 4 ? nng_msg_header_trim_u32(x.m, &v32) :
		                                                            nng_msg_header_trim_u64(x.m, &v64)) == 0 &&
		    hl >= n)
			x.h.erase(x.h.begin(), x.h.begin() + (long) n);
		break;
	case 19:
		what = "header_chop_uNN";
		n    = (size_t) 2 << W(0, 2);
		if ((n == 2 ? nng_msg_header_chop_u16(x.m, &v16) : n == 4 ? nng_msg_header_chop_u32(x.m, &v32) :
		                                                            nng_msg_header_chop_u64(x.m, &v64)) == 0 &&
		    hl >= n)
			x.h.resize(hl - n);
		break;
	case 20:
		what = "header_clear";
		nng_msg_header_clear(x.m);
		x.h.clear();
		break;
	case 21:
		what = "clear";
		nng_msg_clear(x.m);
		x.b.clear();
		break;
	case 22:
		what = "realloc";
		n    = W(0, 2) == 2 ? (size_t) W(0, 9000) : (size_t) W(0, 200);
		if (nng_msg_realloc(x.m, n) == 0) {
			if (n > bl) {
				// the new tail is unspecified: define it
				fill((uint8_t *) nng_msg_body(x.m) + bl, n - bl, 77);
				x.b.resize(n);
				fill(x.b.data() + bl, n - bl, 77);
			} else {
				x.b.resize(n);
			}
		}
		break;
	case 23:
		what = "reserve";
		(void) nng_msg_reserve(x.m, (size_t) W(0, 3) == 0 ? (size_t) W(0, 20000) : (size_t) W(0, 300));
		break;
	case 24: {
		what       = "dup";
		nng_msg *d = NULL;
		if (nng_msg_dup(&d, x.m) == 0) {
			if (W(0, 1)) {
				nng_msg_free(x.m);
				x.m = d;
			} else {
				// change the copy: the original must not notice
				(void) nng_msg_append(d, buf, 3000);
				(void) nng_msg_header_clear(d), (void) nng_msg_insert_u32(d, 1);
				nng_msg_free(d);
			}
		}
		break;
	}
	case 25: {
		what = "set_pipe";
		nng_pipe pp;
		pp.id = (uint32_t) W(0, 100);
		nng_msg_set_pipe(x.m, pp);
		if ((uint32_t) nng_pipe_id(nng_msg_get_pipe(x.m)) != pp.id && pp.id != 0)
			sim_probe("c03_msg_pipe_not_kept");
		break;
	}
	case 26:
		what = "trim+insert (headroom reuse)";
		n    = (size_t) W(0, (long) (bl < 40 ? bl : 40));
		if (nng_msg_trim(x.m, n) == 0 && n <= bl) {
			x.b.erase(x.b.begin(), x.b.begin() + (long) n);
			size_t k2 = (size_t) W(0, (long) n + 8);
			if (nng_msg_insert(x.m, buf, k2) == 0)
				x.b.insert(x.b.begin(), buf, buf + k2);
		}
		break;
	default:
		what = "chop+append (tailroom reuse)";
		n    = (size_t) W(0, (long) (bl < 40 ? bl : 40));
		if (nng_msg_chop(x.m, n) == 0 && n <= bl) {
			x.b.resize(bl - n);
			size_t k2 = (size_t) W(0, (long) n + 8);
			if (nng_msg_append(x.m, buf, k2) == 0)
				x.b.insert(x.b.end(), buf, buf + k2);
		}
		break;
	}
	sim_event("msg %s -> h=%zu b=%zu", what, x.h.size(), x.b.size());
	mm_check(x, what);
}

// one message published to a SUB socket with several contexts: every receiver
// owns what it gets; changing one copy must not reach into another
static void
msg_fanout(MM &x, int tr)
{
	nng_socket pub, sub;
	MUST(nng_pub0_open(&pub));
	MUST(nng_sub0_open(&sub));
	int                  nctx = (int) W(1, 4);
	std::vector<nng_ctx> cx((size_t) nctx);
	MUST(nng_sub0_socket_subscribe(sub, "", 0));
	MUST(nng_socket_set_ms(sub, NNG_OPT_RECVTIMEO, 100));
	for (auto &c : cx) {
		MUST(nng_ctx_open(&c, sub));
		MUST(nng_sub0_ctx_subscribe(c, "", 0));
		MUST(nng_ctx_set_ms(c, NNG_OPT_RECVTIMEO, 100));
	}
	static int url_no;
	std::string url = h_url(tr, 60 + url_no++);
	MUST(nng_listen(sub, url.c_str(), NULL, 0));
	MUST(nng_dial(pub, url.c_str(), NULL, 0));
	sim_quiesce(3000000);
	nng_msg *d = NULL;
	MUST(nng_msg_dup(&d, x.m));
	nng_msg_header_clear(d);
	if (nng_sendmsg(pub, d, 0) != 0)
		nng_msg_free(d);
	sim_quiesce(3000000);
	std::vector<nng_msg *> got;
	nng_msg               *r = NULL;
	if (nng_recvmsg(sub, &r, 0) == 0)
		got.push_back(r);
	for (auto &c : cx)
		if (nng_ctx_recvmsg(c, &r, 0) == 0)
			got.push_back(r);
	sim_event("fanout tr=%s ctxs=%d received=%zu", h_tr_name(tr), nctx, got.size());
	// take pointers first, then change the copies one by one
	std::vector<const uint8_t *> bp;
	std::vector<size_t>          bn;
	for (auto g : got) {
		bp.push_back((const uint8_t *) nng_msg_body(g));
		bn.push_back(nng_msg_len(g));
	}
	for (size_t i = 0; i < got.size(); i++) {
		std::vector<uint8_t> big((size_t) W(1, 5000));
		fill(big.data(), big.size(), (uint32_t) i);
		if (W(0, 1))
			(void) nng_msg_append(got[i], big.data(), big.size());
		else
			(void) nng_msg_insert(got[i], big.data(), big.size());
		memset(nng_msg_body(got[i]), 0xEE, nng_msg_len(got[i]));
		// the others are untouched and still where they were
		for (size_t j = i + 1; j < got.size(); j++) {
			g_sink += sum_bytes(bp[j], bn[j]);
			if (bn[j] != x.b.size() || (bn[j] != 0 && memcmp(bp[j], x.b.data(), bn[j]) != 0)) {
				VIOL("received_message_shared",
				    "a message received on one SUB context changed when the copy received on another "
				    "context was modified: two owners were handed the same memory");
			}
		}
	}
	if (got.size() > 1)
		sim_probe("c03_fanout_copies_independent");
	for (auto g : got)
		nng_msg_free(g);
	for (auto &c : cx)
		MUST(nng_ctx_close(c));
	MUST(nng_socket_close(pub));
	MUST(nng_socket_close(sub));
}

static void
msg_run(Params *p)
{
	MM x;
	x.m      = NULL;
	size_t n = W(0, 2) == 2 ? (size_t) W(0, 5000) : (size_t) W(0, 80);
	MUST(nng_msg_alloc(&x.m, n));
	x.b.resize(n);
	fill(x.b.data(), n, 5);
	if (n)
		memcpy(nng_msg_body(x.m), x.b.data(), n);
	mm_check(x, "alloc");
	int nops = (int) W(3, 80);
	for (int i = 0; i < nops; i++) {
		mm_op(x);
		if (W(0, 40) == 0)
			msg_fanout(x, (int) p->draw("tr", 0, 3));
	}
	if (W(0, 3) == 0)
		msg_fanout(x, (int) p->draw("tr2", 0, 3));
	sim_stat("nontrivial", 1);
	nng_msg_free(x.m);
}

SCENARIO(c03_msg, "C03", NULL, msg_run);

// ===========================================================================
// c03_stream: the byte-stream API (scatter/gather vectors, options,
// close/stop/free with operations pending) and the HTTP objects.
// workload steering for c03_stream (parameter "savoid"), same convention as "avoid"
enum {
	SA_WS_ZERO_IOV     = 1,  // ws_read_finish_str spins for ever on a zero-length iov entry
	SA_OP_AFTER_CLOSE  = 2,  // tcp/ipc streams queue an operation submitted after close/stop; free then leaves it dangling
	SA_FREE_PENDING    = 4,  // nng_stream_free only queues the connection for the reaper: operations are still pending when it returns
	SA_HTTP_RECONNECT  = 8,  // http client reuses its internal dial aio while the cancelled dial is still completing
	SA_HTTP_FINI_RACE  = 16, // http server teardown (reaper) still running when nng_fini frees the aio subsystem
	SA_HTTP_DEL_MID    = 32, // static handler removed and released mid-transaction: its data is freed under the response write
	SA_WS_DIAL_CANCEL  = 64, // same defect in the stream dialers (core/tcp.c resaio/conaio, ws dialer on an http client): double completion, nng_stream_dialer_free hangs
};
static long g_savoid;

struct SOp {
	UAio                              u;
	std::vector<std::vector<uint8_t>> bufs; // must stay valid while the operation is pending
	bool                              pending;
	bool                              is_send;
	int                               on; // stream index
};

struct Strm {
	nng_stream *st;
	bool        closed;
};

static void
sop_harvest(SOp *o)
{
	if (!o->pending || !o->u.poll())
		return;
	o->pending = false;
	if (o->u.result == 0 && !o->is_send) {
		// read exactly what was received
		size_t left = nng_aio_count(o->u.aio);
		for (auto &b : o->bufs) {
			size_t k = left < b.size() ? left : b.size();
			g_sink += sum_bytes(b.data(), k);
			left -= k;
		}
		if (left != 0)
			VIOL("recv_count_beyond_vector", "nng_stream_recv reports %zu bytes more than the vector holds", left);
	}
}

static void
sop_settle(SOp *o, int how)
{
	if (o->pending && !o->u.poll()) {
		if (how == 0)
			nng_aio_cancel(o->u.aio);
		else if (how == 1)
			nng_aio_abort(o->u.aio, NNG_EINTR);
		else
			nng_aio_stop(o->u.aio);
		if (how != 2)
			nng_aio_wait(o->u.aio);
	}
	if (o->pending && o->u.wait(60000000000ull) == (nng_err) -1)
		sim_violation("C02", "completion_lost", "nng_aio_wait/stop returned but the callback of %s never ran", o->u.what);
	sop_harvest(o);
}

static void
stream_opts(nng_stream_dialer *d, nng_stream_listener *l, nng_stream *st)
{
	static const char *const names[] = { NNG_OPT_TCP_NODELAY, NNG_OPT_TCP_KEEPALIVE, NNG_OPT_IPC_PERMISSIONS, NNG_OPT_BOUND_PORT,
		NNG_OPT_RECVMAXSZ, NNG_OPT_WS_SENDMAXFRAME, NNG_OPT_WS_RECVMAXFRAME, NNG_OPT_WS_PROTOCOL, NNG_OPT_WS_HEADER "X-Sim",
		NNG_OPT_WS_REQUEST_URI, NNG_OPT_PEER_UID, NNG_OPT_PEER_PID, NNG_OPT_LOCADDR, NNG_OPT_WS_RECV_TEXT, "no-such-option" };
	const char  *nm = names[W(0, 14)];
	bool         vb = W(0, 1) != 0;
	int          vi = (int) W(0, 2) * 0600;
	size_t       vz = (size_t) W(0, 3) * 100;
	nng_duration vm = 5;
	const char  *vs = NULL;
	long         ty = W(0, 4);
	bool         set = W(0, 1) != 0 && st == NULL;
	int          rv  = 0;
	if (d != NULL) {
		switch (ty) {
		case 0: rv = set ? nng_stream_dialer_set_bool(d, nm, vb) : nng_stream_dialer_get_bool(d, nm, &vb); break;
		case 1: rv = set ? nng_stream_dialer_set_int(d, nm, vi) : nng_stream_dialer_get_int(d, nm, &vi); break;
		case 2: rv = set ? nng_stream_dialer_set_size(d, nm, vz) : nng_stream_dialer_get_size(d, nm, &vz); break;
		case 3: rv = set ? nng_stream_dialer_set_ms(d, nm, vm) : nng_stream_dialer_get_ms(d, nm, &vm); break;
		default: rv = set ? nng_stream_dialer_set_string(d, nm, "sim") : nng_stream_dialer_get_string(d, nm, &vs); break;
		}
	} else if (l != NULL) {
		switch (ty) {
		case 0: rv = set ? nng_stream_listener_set_bool(l, nm, vb) : nng_stream_listener_get_bool(l, nm, &vb); break;
		case 1: rv = set ? nng_stream_listener_set_int(l, nm, vi) : nng_stream_listener_get_int(l, nm, &vi); break;
		case 2: rv = set ? nng_stream_listener_set_size(l, nm, vz) : nng_stream_listener_get_size(l, nm, &vz); break;
		case 3: rv = set ? nng_stream_listener_set_ms(l, nm, vm) : nng_stream_listener_get_ms(l, nm, &vm); break;
		default: rv = set ? nng_stream_listener_set_string(l, nm, "sim") : nng_stream_listener_get_string(l, nm, &vs); break;
		}
	} else if (st != NULL) {
		switch (ty) {
		case 0: rv = nng_stream_get_bool(st, nm, &vb); break;
		case 1: rv = nng_stream_get_int(st, nm, &vi); break;
		case 2: rv = nng_stream_get_size(st, nm, &vz); break;
		case 3: rv = nng_stream_get_ms(st, nm, &vm); break;
		default: rv = nng_stream_get_string(st, nm, &vs); break;
		}
		const nng_sockaddr *sa = W(0, 1) ? nng_stream_peer_addr(st) : nng_stream_self_addr(st);
		if (sa != NULL) {
			char sb[NNG_MAXADDRSTRLEN];
			g_sink += sum_bytes(nng_str_sockaddr(sa, sb, sizeof(sb)), 1) + nng_sockaddr_port(sa);
		}
	}
	if (rv == 0 && vs != NULL)
		g_sink += sum_bytes(vs, strlen(vs));
	sim_event("stream option %s %s type=%ld -> %d", set ? "set" : "get", nm, ty, rv);
}

static void
stream_part(Params *p)
{
	static const int TRS[] = { TR_TCP, TR_IPC, TR_ABSTRACT, TR_TCP6, TR_WS };
	int              tr    = TRS[p->draw("str", 0, 4)];
	std::string      url   = h_url(tr, 40);
	nng_stream_listener *l = NULL;
	nng_stream_dialer   *d = NULL;
	int rv = nng_stream_listener_alloc(&l, url.c_str());
	if (rv != 0)
		h_fatal("nng_stream_listener_alloc %s -> %d", url.c_str(), rv);
	for (long k = W(0, 3); k > 0; k--)
		stream_opts(NULL, l, NULL);
	rv = nng_stream_listener_listen(l);
	sim_event("stream listen %s -> %d", url.c_str(), rv);
	if (W(0, 3) == 0) {
		// url-object flavour
		nng_url *u = NULL;
		MUST(nng_url_parse(&u, url.c_str()));
		rv = nng_stream_dialer_alloc_url(&d, u);
		nng_url_free(u);
	} else {
		rv = nng_stream_dialer_alloc(&d, url.c_str());
	}
	if (rv != 0)
		h_fatal("nng_stream_dialer_alloc %s -> %d", url.c_str(), rv);
	for (long k = W(0, 3); k > 0; k--)
		stream_opts(d, NULL, NULL);

	std::vector<Strm> strms;
	int               nconn = (int) W(1, 3);
	for (int i = 0; i < nconn; i++) {
		UAio ua, ud;
		nng_aio_set_timeout(ua.aio, 200);
		nng_aio_set_timeout(ud.aio, 200);
		ua.arm("stream_accept");
		ud.arm("stream_dial");
		if (W(0, 1)) {
			nng_stream_listener_accept(l, ua.aio);
			nng_stream_dialer_dial(d, ud.aio);
		} else {
			nng_stream_dialer_dial(d, ud.aio);
			nng_stream_listener_accept(l, ua.aio);
		}
		long c = W(0, 7);
		if (c == 6) {
			nng_aio_cancel(ud.aio);
			sim_probe("c03_stream_dial_cancelled");
		} else if (c == 7) {
			nng_aio_cancel(ua.aio);
			sim_probe("c03_stream_accept_cancelled");
		}
		ua.wait(0);
		ud.wait(0);
		if (c == 6 && (g_savoid & SA_WS_DIAL_CANCEL))
			sim_sleep_ms(300); // tcp.c reuses resaio/conaio (and the ws dialer its http client) for the next dial
		sim_event("stream connect %d: accept=%d dial=%d", i, (int) ua.result, (int) ud.result);
		// a successful completion hands a stream to the application, cancelled or not
		if (ua.result == 0) {
			Strm x = { (nng_stream *) nng_aio_get_output(ua.aio, 0), false };
			if (x.st != NULL)
				strms.push_back(x);
		}
		if (ud.result == 0) {
			Strm x = { (nng_stream *) nng_aio_get_output(ud.aio, 0), false };
			if (x.st != NULL)
				strms.push_back(x);
		}
	}
	std::vector<SOp *> ops;
	int                nops = strms.empty() ? 0 : (int) W(2, 30);
	int                done_xfers = 0;
	for (int i = 0; i < nops; i++) {
		for (auto o : ops) {
			if (o->pending && o->u.poll()) {
				sop_harvest(o);
				if (o->u.result == 0)
					done_xfers++;
			}
		}
		size_t si = (size_t) W(0, (long) strms.size() - 1);
		Strm  &x  = strms[si];
		long   c  = W(0, 19);
		if (c < 12 && x.closed && (g_savoid & SA_OP_AFTER_CLOSE))
			c = 19;
		if (c < 12) {
			// transfer
			SOp *o = NULL;
			for (auto q : ops)
				if (!q->pending)
					o = q;
			if (o == NULL) {
				if (ops.size() >= 6)
					continue;
				o          = new SOp();
				o->pending = false;
				ops.push_back(o);
			}
			o->is_send = c < 6;
			o->on      = (int) si;
			o->bufs.clear();
			int     niov = (int) W(1, 4);
			nng_iov iov[9];
			if (W(0, 15) == 0)
				niov = (int) W(5, 8);
			for (int k = 0; k < niov; k++) {
				size_t n = W(0, 4) == 0 ? 0 : (W(0, 5) == 0 ? (size_t) W(100, 3000) : (size_t) W(1, 60));
				if (n == 0 && tr == TR_WS && (g_savoid & SA_WS_ZERO_IOV))
					n = 1;
				o->bufs.push_back(std::vector<uint8_t>(n ? n : 1));
				fill(o->bufs.back().data(), o->bufs.back().size(), (uint32_t) (i + k));
				if (n == 0)
					o->bufs.back().clear();
				iov[k].iov_buf = o->bufs.back().empty() ? NULL : o->bufs.back().data();
				iov[k].iov_len = o->bufs.back().size();
			}
			if (W(0, 19) == 0) {
				// more entries than an aio takes: refused, nothing changes
				nng_iov big[9];
				memset(big, 0, sizeof(big));
				if (nng_aio_set_iov(o->u.aio, 9, big) == 0)
					sim_probe("c03_iov_nine_entries_accepted");
			}
			if (nng_aio_set_iov(o->u.aio, (unsigned) niov, iov) != 0)
				continue;
			nng_aio_set_timeout(o->u.aio, W(0, 3) == 0 ? NNG_DURATION_INFINITE : (nng_duration) W(1, 30));
			o->pending = true;
			o->u.arm(o->is_send ? "nng_stream_send" : "nng_stream_recv");
			sim_event("stream %zu %s niov=%d", si, o->is_send ? "send" : "recv", niov);
			if (o->is_send)
				nng_stream_send(x.st, o->u.aio);
			else
				nng_stream_recv(x.st, o->u.aio);
		} else if (c < 15) {
			SOp *o = NULL;
			if (pick(ops, &o) && o->pending) {
				sim_event("stream settle %s", o->u.what);
				sop_settle(o, (int) W(0, 1));
				sim_probe("c03_stream_op_cancelled");
			}
		} else if (c < 17) {
			stream_opts(NULL, NULL, x.st);
		} else if (c == 17) {
			sim_event("stream %zu close", si);
			nng_stream_close(x.st);
			x.closed = true;
			sim_probe("c03_stream_closed_with_ops");
		} else if (c == 18) {
			sim_event("stream %zu stop", si);
			nng_stream_stop(x.st);
			x.closed = true;
		} else {
			sim_sleep_ns((uint64_t) W(0, 5000) * 1000);
		}
	}
	// teardown in one of the documented orders
	long how = W(0, 2);
	if (how == 2 && (g_savoid & SA_FREE_PENDING))
		how = 0;
	sim_event("stream teardown how=%ld streams=%zu", how, strms.size());
	if (how == 0) {
		// settle operations first, then stop and free
		for (auto o : ops)
			sop_settle(o, 0);
	}
	if (how == 1) {
		// close the factories first
		nng_stream_listener_close(l);
		nng_stream_dialer_close(d);
	}
	if (how == 1 && (g_savoid & SA_FREE_PENDING)) {
		// close + stop complete the operations; look before the streams go
		for (auto &x : strms) {
			nng_stream_close(x.st);
			nng_stream_stop(x.st);
		}
		for (auto o : ops)
			sop_settle(o, 0);
	}
	for (auto &x : strms) {
		if (how != 2) {
			nng_stream_close(x.st);
			nng_stream_stop(x.st);
		}
		// how == 2: free with operations pending: free stops the stream
		nng_stream_free(x.st);
	}
	for (auto o : ops) {
		sop_settle(o, 0);
		delete o;
	}
	if (W(0, 1)) {
		nng_stream_listener_stop(l);
		nng_stream_dialer_stop(d);
	}
	nng_stream_listener_free(l);
	nng_stream_dialer_free(d);
	if (done_xfers > 0)
		sim_stat("nontrivial", 1);
}

// ------------------------------------------------------------------- http ---
static int g_hdata_freed;
static void
hdata_free(void *p)
{
	g_hdata_freed++;
	nng_free(p, 24);
}

static void
c03_http_handler(nng_http *conn, void *arg, nng_aio *aio)
{
	// look at the request the way a handler does
	void  *body = NULL;
	size_t len  = 0;
	nng_http_get_body(conn, &body, &len);
	g_sink += sum_bytes(body, len);
	const char *m = nng_http_get_method(conn);
	const char *u = nng_http_get_uri(conn);
	if (m != NULL)
		g_sink += sum_bytes(m, strlen(m));
	if (u != NULL)
		g_sink += sum_bytes(u, strlen(u));
	const char *k = NULL, *v = NULL;
	void       *it = NULL;
	while (nng_http_next_header(conn, &k, &v, &it))
		g_sink += sum_bytes(k, strlen(k)) + sum_bytes(v, strlen(v));
	if (arg != NULL)
		g_sink += sum_bytes(arg, 24);
	long mode = (long) (g_sink % 4);
	if (mode == 3) {
		nng_aio_finish(aio, NNG_EINTERNAL);
		return;
	}
	(void) nng_http_set_header(conn, "X-Sim", "1");
	if (nng_http_copy_body(conn, "hello world", mode == 0 ? 0 : 11) != NNG_OK) {
		nng_aio_finish(aio, NNG_ENOMEM);
		return;
	}
	nng_http_set_status(conn, mode == 2 ? NNG_HTTP_STATUS_NOT_FOUND : NNG_HTTP_STATUS_OK, NULL);
	nng_aio_finish(aio, NNG_OK);
}

static void
http_part(Params *p)
{
	(void) p;
	char ub[64];
	snprintf(ub, sizeof(ub), "http://127.0.0.1:%d/a", 8300 + (int) W(0, 3));
	nng_url         *url = NULL;
	nng_http_server *srv = NULL, *srv2 = NULL;
	nng_http_client *cli = NULL;
	MUST(nng_url_parse(&url, ub));
	MUST(nng_http_server_hold(&srv, url));
	if (W(0, 2) == 0)
		MUST(nng_http_server_hold(&srv2, url)); // same instance, second hold
	std::vector<nng_http_handler *> reg; // registered: the server owns them
	int                             nh = (int) W(1, 5), ndata = 0;
	static const char *const        paths[] = { "/a", "/b", "/a/b", "/tree", "/a" };
	static uint8_t                  content[300];
	for (int i = 0; i < nh; i++) {
		nng_http_handler *h    = NULL;
		const char       *path = paths[W(0, 4)];
		long              kind = W(0, 3);
		int               rv;
		if (kind == 0)
			rv = nng_http_handler_alloc(&h, path, c03_http_handler);
		else if (kind == 1)
			rv = nng_http_handler_alloc_static(&h, path, content, (size_t) W(0, 300), W(0, 1) ? "text/plain" : NULL);
		else if (kind == 2)
			rv = nng_http_handler_alloc_redirect(&h, path, (nng_http_status) (W(0, 1) ? 0 : 302), "http://127.0.0.1:8300/b");
		else
			rv = nng_http_handler_alloc(&h, path, c03_http_handler);
		if (rv != 0)
			continue;
		if (W(0, 2) == 0)
			nng_http_handler_set_method(h, W(0, 1) ? "POST" : NULL);
		if (W(0, 3) == 0)
			nng_http_handler_set_host(h, W(0, 1) ? "127.0.0.1" : NULL);
		if (W(0, 2) == 0)
			nng_http_handler_collect_body(h, W(0, 1) != 0, (size_t) W(0, 2) * 64);
		if (W(0, 3) == 0)
			nng_http_handler_set_tree(h);
		if (kind == 3) {
			void *dat = nng_alloc(24);
			if (dat != NULL) {
				memset(dat, 7, 24);
				nng_http_handler_set_data(h, dat, hdata_free);
				ndata++;
			}
		}
		rv = nng_http_server_add_handler(srv, h);
		sim_event("http add_handler %s kind=%ld -> %d", path, kind, rv);
		if (rv != 0) {
			nng_http_handler_free(h); // a refused handler is still ours
			sim_probe("c03_http_handler_refused_app_frees");
		} else {
			reg.push_back(h);
		}
	}
	(void) nng_http_server_set_error_page(srv, NNG_HTTP_STATUS_NOT_FOUND, "<html>nope</html>");
	int rv = nng_http_server_start(srv);
	int port = 0;
	(void) nng_http_server_get_port(srv, &port);
	sim_event("http server start -> %d port %d", rv, port);
	MUST(nng_http_client_alloc(&cli, url));
	int ntx = (int) W(0, 4), ok_tx = 0;
	for (int i = 0; i < ntx && rv == 0; i++) {
		UAio u;
		nng_aio_set_timeout(u.aio, 300);
		u.arm("http_connect");
		nng_http_client_connect(cli, u.aio);
		bool cancelled = W(0, 7) == 0;
		if (cancelled)
			nng_aio_cancel(u.aio);
		u.wait(0);
		if (cancelled && (g_savoid & SA_HTTP_RECONNECT))
			sim_sleep_ms(300); // let the abandoned dial finish before the client is used again
		if (u.result != 0)
			continue;
		nng_http *conn = (nng_http *) nng_aio_get_output(u.aio, 0);
		int       nreq = (int) W(1, 2);
		for (int r = 0; r < nreq; r++) {
			static char bodybuf[64];
			(void) nng_http_set_uri(conn, paths[W(0, 4)], W(0, 2) == 0 ? "x=1" : NULL);
			if (W(0, 2) == 0)
				nng_http_set_method(conn, W(0, 1) ? "POST" : "HEAD");
			(void) nng_http_set_header(conn, "X-Req", "abc");
			(void) nng_http_add_header(conn, "X-Req", "def");
			// headers the library itself keeps with static storage are set and extended too
			if (W(0, 2) == 0)
				(void) nng_http_set_header(conn, "Host", W(0, 1) ? "sim.example" : "sim.example:8080");
			if (W(0, 3) == 0)
				(void) nng_http_add_header(conn, "Host", "other.example");
			if (W(0, 3) == 0)
				nng_http_del_header(conn, "X-Req");
			if (W(0, 2) == 0)
				(void) nng_http_copy_body(conn, "0123456789", (size_t) W(0, 10));
			else if (W(0, 2) == 0)
				nng_http_set_body(conn, bodybuf, (size_t) W(0, 64));
			u.arm("http_transact");
			nng_http_transact(conn, u.aio);
			long c = W(0, 9);
			if (c == 8)
				nng_aio_cancel(u.aio);
			else if (c == 9 && !reg.empty() && W(0, 1) && !(g_savoid & SA_HTTP_DEL_MID)) {
				// take a handler away while the transaction runs
				nng_http_handler *h = reg.back();
				if (nng_http_server_del_handler(srv, h) == 0) {
					reg.pop_back();
					nng_http_handler_free(h);
					sim_probe("c03_http_handler_removed_mid_transaction");
				}
			}
			u.wait(0);
			sim_event("http transact -> %d status %d", (int) u.result, u.result == 0 ? (int) nng_http_get_status(conn) : 0);
			if (u.result != 0)
				break; // "the caller should close conn"
			ok_tx++;
			void  *body = NULL;
			size_t len  = 0;
			nng_http_get_body(conn, &body, &len);
			g_sink += sum_bytes(body, len);
			const char *rs = nng_http_get_reason(conn);
			if (rs != NULL)
				g_sink += sum_bytes(rs, strlen(rs));
			const char *hv = nng_http_get_header(conn, "Content-Length");
			if (hv != NULL)
				g_sink += sum_bytes(hv, strlen(hv));
			nng_http_reset(conn);
		}
		nng_http_close(conn);
	}
	// teardown: stop before or after the client goes, second hold released at a random point
	if (srv2 != NULL && W(0, 1)) {
		nng_http_server_release(srv2);
		srv2 = NULL;
	}
	if (W(0, 1)) {
		nng_http_client_free(cli);
		cli = NULL;
	}
	if (!reg.empty() && W(0, 2) == 0) {
		nng_http_handler *h = reg.back();
		if (nng_http_server_del_handler(srv, h) == 0) {
			reg.pop_back();
			nng_http_handler_free(h);
		}
	}
	if (W(0, 1))
		nng_http_server_stop(srv);
	nng_http_server_release(srv);
	if (srv2 != NULL)
		nng_http_server_release(srv2);
	if (cli != NULL)
		nng_http_client_free(cli);
	nng_url_free(url);
	if (g_savoid & SA_HTTP_FINI_RACE)
		sim_sleep_ms(200); // connections and server are torn down by the reaper
	sim_stat("http_handler_data", ndata);
	if (ok_tx > 0)
		sim_stat("nontrivial", 1);
}

static void
stream_run(Params *p)
{
	long what = p->draw("what", 0, 2); // 0 streams, 1 http, 2 both
	g_savoid  = p->i("savoid", 0);
	if (what != 1)
		stream_part(p);
	if (what != 0)
		http_part(p);
}

static void
stream_cfg(sim_config *cfg, Params *p)
{
	long net = p->draw("net", 0, 3);
	if (net == 1) {
		cfg->seg_mode = 3;
	} else if (net == 2) {
		cfg->seg_mode   = 2;
		cfg->seg_k      = 40;
		cfg->lat_min_ns = 10000;
		cfg->lat_max_ns = 2000000;
	} else if (net == 3) {
		cfg->sndbuf_min = 64;
		cfg->sndbuf_max = 600;
		cfg->eagain_p   = 0.05;
	}
}

SCENARIO(c03_stream, "C03", stream_cfg, stream_run);

} // namespace
