// C03 (second file): SUB contexts with subscriptions are opened and closed
// while published traffic keeps arriving; the oracle is the memory checker
// (ASan/UBSan, allocator ledger) like everywhere in C03.
#include "../harness/util.h"

namespace {

struct SubFlood {
	nng_socket   pub;
	volatile int stop;
	int          idx;
};

static void
flood_task(void *a)
{
	SubFlood *f = (SubFlood *) a;
	uint32_t  n = 0;
	while (!f->stop) {
		nng_msg *m = NULL;
		if (nng_msg_alloc(&m, 0) != 0)
			break;
		char topic[24];
		snprintf(topic, sizeof(topic), "t%02u/", (unsigned) (n % 12));
		nng_msg_append(m, topic, strlen(topic));
		nng_msg_append_u32(m, n++);
		if (nng_sendmsg(f->pub, m, 0) != 0)
			nng_msg_free(m);
		if ((n & 3) == 0)
			sim_yield();
		if ((n & 63) == 0)
			sim_sleep_ns(20000);
	}
}

static void
subctx_run(Params *p)
{
	int        tr   = (int) p->draw("tr", 0, 2);
	int        npub = 1 + (int) W(0, 2);
	nng_socket sub;
	MUST(nng_sub0_open(&sub));
	MUST(nng_socket_set_int(sub, NNG_OPT_RECVBUF, (int) W(1, 16)));
	std::string url = h_url(tr, 63);
	MUST(nng_listen(sub, url.c_str(), NULL, 0));
	std::vector<SubFlood *> fl;
	std::vector<int>        tids;
	for (int i = 0; i < npub; i++) {
		SubFlood *f = new SubFlood();
		f->stop     = 0;
		f->idx      = i;
		MUST(nng_pub0_open(&f->pub));
		MUST(nng_dial(f->pub, url.c_str(), NULL, 0));
		fl.push_back(f);
	}
	sim_quiesce(10000000);
	for (auto f : fl)
		tids.push_back(sim_spawn("flood", flood_task, f, 0));
	int cycles = (int) W(3, 30);
	for (int c = 0; c < cycles; c++) {
		nng_ctx cx;
		MUST(nng_ctx_open(&cx, sub));
		int nt = (int) W(1, 24);
		for (int t = 0; t < nt; t++) {
			char topic[64];
			int  len = snprintf(topic, sizeof(topic), "t%02u/", (unsigned) W(0, 13));
			if (W(0, 3) == 0)
				len += snprintf(topic + len, sizeof(topic) - (size_t) len, "%0*d", (int) W(1, 40), 0);
			(void) nng_sub0_ctx_subscribe(cx, topic, (size_t) len);
		}
		long what = W(0, 3);
		if (what == 0) {
			nng_msg *m = NULL;
			MUST(nng_ctx_set_ms(cx, NNG_OPT_RECVTIMEO, 5));
			if (nng_ctx_recvmsg(cx, &m, 0) == 0)
				nng_msg_free(m);
		} else if (what == 1) {
			sim_sleep_ns((uint64_t) W(0, 300) * 1000);
		} else if (what == 2) {
			(void) nng_sub0_ctx_unsubscribe(cx, "t00/", 4);
		}
		MUST(nng_ctx_close(cx));
		sim_stat("nontrivial", 1);
	}
	for (auto f : fl)
		f->stop = 1;
	for (int t : tids)
		sim_join(t);
	for (auto f : fl) {
		MUST(nng_socket_close(f->pub));
		delete f;
	}
	MUST(nng_socket_close(sub));
}
SCENARIO(c03_subctx, "C03", NULL, subctx_run);

} // namespace
