// C02: "Each operation started on an nng_aio completes exactly once ... however completion, nng_aio_cancel/abort,
// timeout expiry ... interleave ... nothing stays pending" - for an operation that is made of several steps inside the
// library: nng_http_transact (write the request, read the response head, read the body) and the http read/write
// calls.  A cancel or the operation's own time-out may land between two steps (after the lower transfer has
// completed, before its callback has started the next one).
//
// A raw server (plain simulated socket) accepts the connection, reads the request slowly or at once and then stays
// silent, or answers a head and stalls before the body.  The client's transaction carries a time-out drawn around the
// moments the steps end (and in some runs a canceller task fires around them too).  Oracle: the transaction
// completes - with success only if the whole response was sent, otherwise with its time-out / cancel code - within
// its time-out plus a bounded slack (stalls subtracted); exactly once (UAio).
#include "../harness/util.h"
#include <nng/http.h>
#include <netinet/in.h>
#include <sys/socket.h>
#include <unistd.h>

namespace {

static const uint64_t MS = 1000000ull;

struct Srv {
	int          lfd;
	int          mode; // 0 silent, 1 head then stall, 2 full response after a delay
	uint64_t     delay_ns;
	volatile int stop;
};

static void
srv_task(void *a)
{
	Srv *s = (Srv *) a;
	for (;;) {
		int fd = simnet_accept_blocking(s->lfd, 20000 * MS);
		if (fd < 0)
			return;
		char buf[512];
		// read the request (whatever comes within a little while)
		(void) simnet_read_blocking(fd, buf, sizeof(buf), 50 * MS);
		if (s->delay_ns)
			sim_sleep_ns(s->delay_ns);
		if (s->mode == 1) {
			const char *h = "HTTP/1.1 200 OK\r\nContent-Length: 10\r\n\r\nabc";
			(void) simnet_write_full(fd, h, strlen(h), 1000 * MS);
		} else if (s->mode == 2) {
			const char *h = "HTTP/1.1 200 OK\r\nContent-Length: 5\r\n\r\nhello";
			(void) simnet_write_full(fd, h, strlen(h), 1000 * MS);
		}
		// stay connected and silent until told otherwise
		while (!s->stop)
			sim_sleep_ms(5);
		close(fd);
		return;
	}
}

struct Canc {
	nng_aio     *aio;
	uint64_t     at_ns;
	volatile int fired;
};

static void
canc_task(void *a)
{
	Canc *c = (Canc *) a;
	sim_sleep_ns(c->at_ns);
	nng_aio_cancel(c->aio);
	c->fired = 1;
}

static void
tx_run(Params *p)
{
	(void) p;
	struct sockaddr_in in;
	memset(&in, 0, sizeof(in));
	in.sin_family      = AF_INET;
	in.sin_port        = htons(8077);
	in.sin_addr.s_addr = htonl(0x7f000001);
	Srv sv;
	sv.lfd = simnet_socket(AF_INET, SOCK_STREAM);
	if (sv.lfd < 0 || bind(sv.lfd, (struct sockaddr *) &in, sizeof(in)) != 0 || listen(sv.lfd, 4) != 0)
		h_fatal("raw http server failed");
	sv.mode     = (int) W(0, 2);
	sv.delay_ns = (uint64_t) W(0, 20) * MS / 2;
	sv.stop     = 0;
	int st      = sim_spawn("rawsrv", srv_task, &sv, 0);

	nng_url         *url = NULL;
	nng_http_client *cli = NULL;
	MUST(nng_url_parse(&url, "http://127.0.0.1:8077/x"));
	MUST(nng_http_client_alloc(&cli, url));
	UAio uc;
	nng_aio_set_timeout(uc.aio, 2000);
	uc.arm("http_connect");
	nng_http_client_connect(cli, uc.aio);
	if (uc.wait(0) != 0)
		h_fatal("http connect failed %d", (int) uc.result);
	nng_http *conn = (nng_http *) nng_aio_get_output(uc.aio, 0);
	MUST(nng_http_set_uri(conn, "/x", NULL));
	// the time-out lands around the ends of the steps: request written (~0), server's answer (delay), body stall
	int  tmo = (int) W(1, 30);
	UAio ut;
	nng_aio_set_timeout(ut.aio, tmo);
	Canc cc;
	cc.aio = ut.aio, cc.fired = 0;
	bool with_cancel = W(0, 2) == 0;
	cc.at_ns         = (uint64_t) W(0, 30) * MS / 2 + (uint64_t) W(0, 200) * 1000;
	uint64_t st0     = sim_stall_total_ns();
	ut.arm("http_transact");
	nng_http_transact(conn, ut.aio);
	int ct = with_cancel ? sim_spawn("canceller", canc_task, &cc, 0) : -1;
	sim_event("transact: server mode %d delay %llu us, time-out %d ms%s", sv.mode, (unsigned long long) (sv.delay_ns / 1000), tmo,
	    with_cancel ? ", a cancel on its way" : "");
	uint64_t budget = ((uint64_t) tmo + 3000) * MS;
	for (;;) {
		if (ut.wait(100 * MS) != (nng_err) -1)
			break;
		uint64_t used = sim_now_ns() - ut.t_submit_ns, stalled = sim_stall_total_ns() - st0;
		if (used > budget + stalled)
			VIOL("never_completed",
			    "nng_http_transact with a %d ms time-out%s is still pending %.0f ms after it was submitted (server %s)", tmo,
			    cc.fired ? " (and cancelled)" : "", (double) used / 1e6,
			    sv.mode == 0 ? "never answers" : sv.mode == 1 ? "sends the head and part of the body" : "answers completely");
	}
	nng_err rv = ut.result;
	sim_event("transact -> %d after %.3f ms", (int) rv, (double) (ut.t_done_ns - ut.t_submit_ns) / 1e6);
	sim_stat("nontrivial", 1);
	if (rv == 0 && sv.mode != 2)
		VIOL("unexplained_result", "the transaction succeeded although the server never sent a whole response");
	if (rv == NNG_ETIMEDOUT && (ut.t_done_ns - ut.t_submit_ns) + MS < (uint64_t) tmo * MS)
		VIOL("early_timeout_user", "transaction timed out after %.3f ms with a time-out of %d ms",
		    (double) (ut.t_done_ns - ut.t_submit_ns) / 1e6, tmo);
	if (rv == NNG_ECANCELED && !with_cancel)
		VIOL("unexplained_result", "transaction completed with NNG_ECANCELED, nobody cancelled it");
	if (ct >= 0)
		sim_join(ct);
	sv.stop = 1;
	nng_http_close(conn);
	nng_http_client_free(cli);
	nng_url_free(url);
	sim_join(st);
	close(sv.lfd);
	sim_quiesce(5 * MS);
}
SCENARIO(c02_httptxn, "C02", NULL, tx_run);

} // namespace
