// C07 (fifth file): c07_sendrace - several application threads send a NEW
// survey on the SAME surveyor context (or on the surveyor socket itself) at the
// same instant.
//
// Every other C07 scenario issues the surveys of one context from one task, so
// "cancel the old survey, register the new one" inside the library is never
// entered by two threads at once.  Here two or three tasks per context are
// released by one flag and each calls nng_ctx_sendmsg / nng_sendmsg /
// nng_ctx_send / nng_socket_send with a survey of its own; the scheduler picks
// the interleaving.  Whatever the library makes of it, after all the sends have
// returned the context has exactly one most recent survey.
//
// The peers are raw-mode respondent sockets that never answer on their own.
// They record every survey id that reaches them.  Only after all racing sends
// have returned and the network is quiet do they answer - every id they have
// seen (this round's, optionally those of earlier rounds too), in the order
// seen (the superseded ones first, the most recent one last) or reversed; the
// body of a response names the survey (context, racer, round) whose id it
// answers.  Then the contexts receive until nothing more comes.
//
// Oracle clauses -> phrases of the C07 statement:
//   superseded_response  "receives only responses to its own most recent
//                        survey ... responses to earlier surveys ... are
//                        discarded": between two rounds of sends a context has
//                        ONE most recent survey (which of the racing ones is
//                        the library's choice: it is identified by the first
//                        response the context hands out).  All responses of a
//                        round are sent after every send of the round returned,
//                        so a response to a second survey id handed out in the
//                        same round answers a survey that had been superseded
//                        before the response was written.
//   stale_response       same phrase: the response answers a survey of an
//                        earlier round of this context (every send of that
//                        round had returned before the current round began).
//   foreign_response     "responses ... to other contexts' surveys ... are
//                        discarded": the response answers a survey another
//                        context sent.
//   bogus_response       "receives only responses to its own most recent
//                        survey": the body is not a response this run wrote.
// Not asserted, only counted (sim_probe / sim_stat): whether anything is
// delivered at all, which of the racing surveys wins (the one last on the wire
// or another), what a receive that is pending while the sends race completes
// with, error codes of receives that return nothing.
#include "../harness/util.h"

#include <algorithm>

namespace {

static const uint64_t MS = 1000000ull;
static const uint64_t QH = 3000000ull; // settle horizon: above the largest configured segment latency (2 ms)
#define RACE_STREAM 0x0c7e
#define RBODY 16

static inline uint32_t
rd32(const uint8_t *p)
{
	return ((uint32_t) p[0] << 24) | ((uint32_t) p[1] << 16) | ((uint32_t) p[2] << 8) | p[3];
}
static inline void
wr32(uint8_t *p, uint32_t v)
{
	p[0] = (uint8_t) (v >> 24);
	p[1] = (uint8_t) (v >> 16);
	p[2] = (uint8_t) (v >> 8);
	p[3] = (uint8_t) v;
}

static void
race_cfg(sim_config *cfg, Params *p)
{
	long net = p->draw("net", 0, 3);
	if (net == 1) {
		cfg->seg_mode = 3;
	} else if (net == 2) {
		cfg->seg_mode   = 2;
		cfg->seg_k      = 7;
		cfg->lat_min_ns = 10000;
		cfg->lat_max_ns = 2000000;
	} else if (net == 3) {
		cfg->seg_mode = 1;
		cfg->eagain_p = 0.05;
	}
}

// one survey id as a raw respondent saw it
struct RSeen {
	uint32_t pipe, id;
	int      slot, racer, round;
};

// raw-mode respondent: one receive kept outstanding and re-armed
struct RResp {
	int                idx;
	nng_socket         s;
	UAio              *u;
	bool               armed;
	std::vector<RSeen> seen;
	size_t             round_start; // index into seen where the current round begins
};

static void
rr_arm(RResp &r)
{
	nng_aio_set_timeout(r.u->aio, NNG_DURATION_INFINITE);
	r.u->arm("raw_recv");
	r.armed = true;
	nng_socket_recv(r.s, r.u->aio);
}

static nng_msg *
rr_take(RResp &r)
{
	if (!r.armed)
		rr_arm(r);
	if (!r.u->poll()) {
		sim_quiesce(100000);
		if (!r.u->poll())
			return NULL;
	}
	r.armed = false;
	if (r.u->result != 0)
		return NULL;
	nng_msg *m = nng_aio_get_msg(r.u->aio);
	rr_arm(r);
	return m;
}

static void
rr_stop(RResp &r)
{
	if (r.armed) {
		nng_aio_cancel(r.u->aio);
		r.u->wait(0);
		r.armed = false;
		if (r.u->result == 0)
			nng_msg_free(nng_aio_get_msg(r.u->aio));
	}
}

struct Slot {
	bool     is_sock;
	nng_ctx  ctx;
	int      cur_round;   // last round in which surveys were sent on it, -1 never
	uint32_t accepted_id; // id of the survey whose response was handed out since then, 0 none yet
	int      accepted_racer;
	int      nracers;     // of cur_round
	int      delivered;   // since cur_round began
};

struct RWorld {
	nng_socket        surv;
	std::vector<Slot> slots;
	volatile int      go;
	int               checked, raced_checked;
};

struct Racer {
	RWorld *w;
	int     slot, racer, round;
	int     how; // 0 blocking sendmsg, 1 aio send
	int     yields;
	int     rv;
};

static void
racer_task(void *a)
{
	Racer   *r = (Racer *) a;
	RWorld  *w = r->w;
	Slot    &c = w->slots[(size_t) r->slot];
	nng_msg *m = tag_msg(24, (uint16_t) r->slot, RACE_STREAM, ((uint32_t) r->round << 8) | (uint32_t) r->racer);
	if (m == NULL)
		h_fatal("tag_msg");
	sim_wait_flag(&w->go, 0);
	for (int i = 0; i < r->yields; i++)
		sim_yield();
	if (r->how == 0) {
		r->rv = c.is_sock ? nng_sendmsg(w->surv, m, 0) : nng_ctx_sendmsg(c.ctx, m, 0);
		if (r->rv != 0)
			nng_msg_free(m);
	} else {
		UAio u;
		nng_aio_set_timeout(u.aio, 5000);
		nng_aio_set_msg(u.aio, m);
		u.arm("survey_send");
		if (c.is_sock)
			nng_socket_send(w->surv, u.aio);
		else
			nng_ctx_send(c.ctx, u.aio);
		u.wait(0);
		r->rv = u.result;
		if (r->rv != 0)
			nng_msg_free(nng_aio_get_msg(u.aio));
	}
}

static nng_msg *
mk_rresp(const RSeen &s, int resp)
{
	nng_msg *m = NULL;
	MUST(nng_msg_alloc(&m, RBODY));
	uint8_t *b = (uint8_t *) nng_msg_body(m);
	b[0]       = 'R';
	b[1]       = 'E';
	b[2]       = (uint8_t) s.slot;
	b[3]       = (uint8_t) s.racer;
	b[4]       = (uint8_t) (s.round >> 8);
	b[5]       = (uint8_t) s.round;
	wr32(b + 6, s.id);
	b[10] = (uint8_t) resp;
	b[11] = 0xa5;
	wr32(b + 12, ~s.id);
	MUST(nng_msg_header_append_u32(m, s.pipe));
	MUST(nng_msg_header_append_u32(m, s.id));
	return m;
}

// judge one message a surveyor context handed out
static void
judge(RWorld &w, int si, nng_msg *rm, const char *via)
{
	Slot    &c = w.slots[(size_t) si];
	uint8_t *b = (uint8_t *) nng_msg_body(rm);
	size_t   n = nng_msg_len(rm);
	if (n != RBODY || b[0] != 'R' || b[1] != 'E' || b[11] != 0xa5 || rd32(b + 6) != ~rd32(b + 12)) {
		std::string hx = h_hex(b, n);
		nng_msg_free(rm);
		VIOL("bogus_response", "surveyor slot %d received %s which is not a response anybody sent", si, hx.c_str());
	}
	int      rslot = b[2], rracer = b[3], rround = (b[4] << 8) | b[5], rresp = b[10];
	uint32_t rid = rd32(b + 6);
	nng_msg_free(rm);
	sim_event("slot %d %s: response to survey (slot %d racer %d round %d id %08x) from r%d", si, via, rslot, rracer,
	    rround, rid, rresp);
	if (rslot != si)
		VIOL("foreign_response",
		    "surveyor slot %d received a response (from r%d) to survey id %08x, which slot %d sent in round %d", si,
		    rresp, rid, rslot, rround);
	if (rround != c.cur_round)
		VIOL("stale_response",
		    "surveyor slot %d received a response (from r%d) to its survey of round %d (racer %d, id %08x); every "
		    "send of that round had returned before the surveys of round %d were sent on it",
		    si, rresp, rround, rracer, rid, c.cur_round);
	if (c.accepted_id != 0 && c.accepted_id != rid)
		VIOL("superseded_response",
		    "surveyor slot %d, round %d: %d threads each sent a survey at the same time; after all sends had "
		    "returned the respondents answered, and the %s handed out responses to TWO different surveys: id %08x "
		    "(racer %d) and id %08x (racer %d, from r%d). Only one of them is its most recent survey",
		    si, c.cur_round, c.nracers, c.is_sock ? "socket" : "context", c.accepted_id, c.accepted_racer, rid,
		    rracer, rresp);
	c.accepted_id    = rid;
	c.accepted_racer = rracer;
	c.delivered++;
	w.checked++;
	if (c.nracers >= 2)
		w.raced_checked++;
	sim_stat("delivered", 1);
}

static void
sendrace_run(Params *p)
{
	RWorld w;
	w.go            = 0;
	w.checked       = 0;
	w.raced_checked = 0;
	int tr     = (int) p->draw("tr", 0, 2);
	int nslot  = 1 + (int) p->draw("xslot", 0, 1);
	int nresp  = 1 + (int) p->draw("xresp", 0, 1);
	int rounds = 2 + (int) p->draw("xrounds", 0, 4);
	MUST(nng_surveyor0_open(&w.surv));
	// deadlines are not this scenario's subject: far away
	MUST(nng_socket_set_ms(w.surv, NNG_OPT_SURVEYOR_SURVEYTIME, 20000));
	MUST(nng_socket_set_int(w.surv, NNG_OPT_SENDBUF, 32));
	bool first_is_sock = W(0, 1) != 0;
	w.slots.resize((size_t) nslot);
	for (int i = 0; i < nslot; i++) {
		Slot &c          = w.slots[(size_t) i];
		c.is_sock        = i == 0 && first_is_sock;
		c.cur_round      = -1;
		c.accepted_id    = 0;
		c.accepted_racer = -1;
		c.nracers        = 0;
		c.delivered      = 0;
		if (!c.is_sock)
			MUST(nng_ctx_open(&c.ctx, w.surv));
	}
	std::string url = h_url(tr, 79);
	MUST(nng_listen(w.surv, url.c_str(), NULL, 0));
	std::vector<RResp> rs((size_t) nresp);
	for (int i = 0; i < nresp; i++) {
		RResp &r = rs[(size_t) i];
		r.idx    = i;
		MUST(nng_respondent0_open_raw(&r.s));
		MUST(nng_socket_set_int(r.s, NNG_OPT_RECVBUF, 64));
		MUST(nng_socket_set_ms(r.s, NNG_OPT_SENDTIMEO, 500));
		MUST(nng_dial(r.s, url.c_str(), NULL, 0));
		r.u           = new UAio();
		r.armed       = false;
		r.round_start = 0;
	}
	sim_quiesce(20 * MS);
	for (auto &r : rs)
		rr_arm(r);
	sim_event("c07_sendrace tr=%s slots=%d (slot 0 is the %s) respondents=%d rounds=%d", h_tr_name(tr), nslot,
	    first_is_sock ? "socket" : "a context", nresp, rounds);

	for (int round = 0; round < rounds; round++) {
		// ---- the race: every racer of every slot is released by one flag
		std::vector<Racer> racers;
		for (int si = 0; si < nslot; si++) {
			long sel = W(0, 7);
			int  n   = sel <= 4 ? 2 : sel <= 6 ? 3 : 1;
			if (round > 0 && nslot > 1 && W(0, 5) == 5)
				n = 0; // this context keeps its survey of an earlier round
			for (int k = 0; k < n; k++) {
				Racer r;
				r.w      = &w;
				r.slot   = si;
				r.racer  = k;
				r.round  = round;
				r.how    = (int) W(0, 1);
				r.yields = W(0, 3) == 3 ? (int) W(1, 3) : 0;
				r.rv     = -1;
				racers.push_back(r);
			}
			if (n > 0) {
				Slot &c          = w.slots[(size_t) si];
				c.cur_round      = round;
				c.accepted_id    = 0;
				c.accepted_racer = -1;
				c.nracers        = n;
				c.delivered      = 0;
			}
		}
		// a receive that is pending on the context while the surveys race (what it completes with is
		// not asserted: its survey is superseded, or it never had one)
		std::vector<UAio *> pend((size_t) nslot, (UAio *) NULL);
		for (int si = 0; si < nslot; si++) {
			Slot &c = w.slots[(size_t) si];
			if (W(0, 3) != 3)
				continue;
			UAio *u = new UAio();
			nng_aio_set_timeout(u->aio, 300);
			u->arm("pending_recv");
			if (c.is_sock)
				nng_socket_recv(w.surv, u->aio);
			else
				nng_ctx_recv(c.ctx, u->aio);
			pend[(size_t) si] = u;
		}
		w.go = 0;
		std::vector<int> tids;
		for (auto &r : racers)
			tids.push_back(sim_spawn("racer", racer_task, &r, 0));
		sim_yield();
		sim_event("round %d: %zu survey sends released together", round, racers.size());
		w.go = 1;
		for (int t : tids)
			sim_join(t);
		for (auto &r : racers)
			if (r.rv != 0)
				h_fatal("survey send (slot %d racer %d round %d) failed: %s", r.slot, r.racer, r.round,
				    nng_strerror((nng_err) r.rv));
		sim_quiesce(QH);
		for (int si = 0; si < nslot; si++) {
			UAio *u = pend[(size_t) si];
			if (u == NULL)
				continue;
			if (!u->poll()) {
				// still pending: it belongs to the round that now begins (or to an untouched survey)
				nng_aio_cancel(u->aio);
				u->wait(0);
			}
			if (u->result == 0) {
				// nobody has answered a survey of this round yet, so this can only be an answer to an
				// earlier round that was waiting in the context; it was handed out before or while the
				// new surveys were sent, which the statement allows
				nng_msg_free(nng_aio_get_msg(u->aio));
				sim_probe("c07_race_pending_recv_got_old_response");
			} else if (u->result == NNG_ECANCELED) {
				sim_probe("c07_race_pending_recv_canceled");
			}
			delete u;
		}

		// ---- the respondents take note of every survey id that reached them
		for (auto &r : rs) {
			r.round_start = r.seen.size();
			nng_msg *m;
			while ((m = rr_take(r)) != NULL) {
				Tag t = tag_parse((const uint8_t *) nng_msg_body(m), nng_msg_len(m));
				if (!t.ok || t.stream != RACE_STREAM || nng_msg_header_len(m) != 8) {
					nng_msg_free(m);
					h_fatal("respondent %d received something that is not a survey of this run", r.idx);
				}
				const uint8_t *h = (const uint8_t *) nng_msg_header(m);
				RSeen          s;
				s.pipe  = rd32(h);
				s.id    = rd32(h + 4);
				s.slot  = (int) t.origin;
				s.racer = (int) (t.serial & 0xff);
				s.round = (int) (t.serial >> 8);
				nng_msg_free(m);
				sim_event("r%d saw survey id %08x (slot %d racer %d round %d)", r.idx, s.id, s.slot, s.racer,
				    s.round);
				r.seen.push_back(s);
			}
			for (int si = 0; si < nslot; si++) {
				int cnt = 0;
				for (size_t i = r.round_start; i < r.seen.size(); i++)
					cnt += r.seen[i].slot == si;
				if (cnt >= 2)
					sim_probe("c07_race_two_ids_of_one_context_seen");
			}
		}

		// ---- answer passes: all sends have returned, the network is quiet
		int passes = 1 + (W(0, 3) == 3);
		for (int pass = 0; pass < passes; pass++) {
			// optionally a receive is already waiting when the answers arrive
			std::vector<UAio *> pre((size_t) nslot, (UAio *) NULL);
			for (int si = 0; si < nslot; si++) {
				Slot &c = w.slots[(size_t) si];
				if (W(0, 2) != 2)
					continue;
				UAio *u = new UAio();
				nng_aio_set_timeout(u->aio, 2000);
				u->arm("waiting_recv");
				if (c.is_sock)
					nng_socket_recv(w.surv, u->aio);
				else
					nng_ctx_recv(c.ctx, u->aio);
				pre[(size_t) si] = u;
			}
			for (auto &r : rs) {
				long   scope = W(0, 2); // 0 this round's ids, 1 the last ids whatever their round, 2 all
				bool   rev   = W(0, 3) == 3;
				size_t from  = scope == 0 ? r.round_start : scope == 1 ? (r.seen.size() > 8 ? r.seen.size() - 8 : 0) : 0;
				if (r.seen.size() - from > 16)
					from = r.seen.size() - 16;
				std::vector<RSeen> ans(r.seen.begin() + (long) from, r.seen.end());
				if (rev)
					std::reverse(ans.begin(), ans.end());
				for (auto &s : ans) {
					nng_msg *rm = mk_rresp(s, r.idx);
					sim_event("r%d answers id %08x (slot %d racer %d round %d)", r.idx, s.id, s.slot, s.racer,
					    s.round);
					if (nng_sendmsg(r.s, rm, 0) != 0)
						nng_msg_free(rm);
					sim_stat("answered", 1);
					// a raw respondent drops what does not fit its two-deep send queue: one at a time
					sim_quiesce(QH);
				}
			}
			sim_quiesce(QH);
			for (int si = 0; si < nslot; si++) {
				Slot &c = w.slots[(size_t) si];
				UAio *u = pre[(size_t) si];
				if (u != NULL) {
					if (!u->poll()) {
						nng_aio_cancel(u->aio);
						u->wait(0);
					}
					if (u->result == 0)
						judge(w, si, nng_aio_get_msg(u->aio), "waiting receive");
					delete u;
				}
				nng_duration rtmo = W(0, 3) == 3 ? 2 : NNG_DURATION_ZERO;
				for (int k = 0; k < 64; k++) {
					UAio v;
					// mostly a non-blocking receive: one that fails on its own timeout may end the survey
					nng_aio_set_timeout(v.aio, rtmo);
					v.arm("surv_recv");
					if (c.is_sock)
						nng_socket_recv(w.surv, v.aio);
					else
						nng_ctx_recv(c.ctx, v.aio);
					v.wait(0);
					if (v.result != 0)
						break;
					judge(w, si, nng_aio_get_msg(v.aio), "receive");
				}
			}
		}
		for (int si = 0; si < nslot; si++) {
			Slot &c = w.slots[(size_t) si];
			if (c.cur_round != round)
				continue;
			if (c.delivered == 0) {
				sim_probe("c07_race_nothing_delivered");
				continue;
			}
			if (c.nracers < 2)
				continue;
			// which of the racing surveys did the library keep?  (observation only)
			bool last = false;
			for (auto &r : rs) {
				for (size_t i = r.seen.size(); i > r.round_start; i--)
					if (r.seen[i - 1].slot == si) {
						last = r.seen[i - 1].id == c.accepted_id;
						break;
					}
			}
			sim_probe(last ? "c07_race_last_on_wire_is_current" : "c07_race_other_than_last_on_wire_is_current");
		}
	}
	if (w.raced_checked > 0)
		sim_stat("nontrivial", 1);
	for (auto &r : rs)
		rr_stop(r);
	for (auto &c : w.slots)
		if (!c.is_sock)
			MUST(nng_ctx_close(c.ctx));
	for (auto &r : rs) {
		MUST(nng_socket_close(r.s));
		delete r.u;
	}
	MUST(nng_socket_close(w.surv));
}

SCENARIO(c07_sendrace, "C07", race_cfg, sendrace_run);

} // namespace
