// C07 SURVEY: a surveyor (socket or context) receives only responses to its own
// most recent survey and only until that survey's deadline; a respondent's
// response goes only to the surveyor whose survey it most recently received.
//
// Three scenarios:
//   c07_surv  sequential, reference model: cooked surveyor socket + contexts
//             against harness-driven respondents (raw-mode respondent sockets
//             that craft stale / foreign / bogus / malformed id streams, and
//             cooked respondents), responses placed around the deadline.
//   c07_resp  sequential: cooked respondent socket + contexts against several
//             raw-mode surveyor sockets that see every byte sent to them.
//   c07_conc  concurrent: one task per surveyor context, echoing respondents
//             with seeded delays and a replaying raw respondent; sound but
//             weaker oracle.
#include "../harness/util.h"

#include <algorithm>
#include <deque>
#include <set>

namespace {

static const uint64_t MS = 1000000ull;
static const uint64_t QH = 3000000ull; // settle horizon: above the largest configured segment latency (2 ms)
#define SURVEY_STREAM 0x0c07

static inline uint32_t
rd32(const uint8_t *p)
{
	return ((uint32_t) p[0] << 24) | ((uint32_t) p[1] << 16) | ((uint32_t) p[2] << 8) | p[3];
}
static inline void
wr32(uint8_t *p, uint32_t v)
{
	p[0] = (uint8_t) (v >> 24);
	p[1] = (uint8_t) (v >> 16);
	p[2] = (uint8_t) (v >> 8);
	p[3] = (uint8_t) v;
}

// response body: 'R' 'S' rid ~rid pad...  (pad bytes are a function of rid)
static nng_msg *
mk_resp(uint32_t rid, size_t pad)
{
	nng_msg *m = NULL;
	MUST(nng_msg_alloc(&m, 10 + pad));
	uint8_t *b = (uint8_t *) nng_msg_body(m);
	b[0]       = 'R';
	b[1]       = 'S';
	wr32(b + 2, rid);
	wr32(b + 6, ~rid);
	for (size_t i = 0; i < pad; i++)
		b[10 + i] = (uint8_t) (rid * 31 + i * 7);
	return m;
}

static bool
parse_resp(const uint8_t *b, size_t n, uint32_t *rid)
{
	if (n < 10 || b[0] != 'R' || b[1] != 'S')
		return false;
	uint32_t a = rd32(b + 2), c = rd32(b + 6);
	if (a != ~c)
		return false;
	for (size_t i = 10; i < n; i++)
		if (b[i] != (uint8_t) (a * 31 + (i - 10) * 7))
			return false;
	*rid = a;
	return true;
}

static const char *
ename(int rv)
{
	switch (rv) {
	case 0:
		return "OK";
	case NNG_ESTATE:
		return "ESTATE";
	case NNG_ETIMEDOUT:
		return "ETIMEDOUT";
	case NNG_ECANCELED:
		return "ECANCELED";
	case NNG_EAGAIN:
		return "EAGAIN";
	case NNG_ECLOSED:
		return "ECLOSED";
	default:
		return nng_strerror((nng_err) rv);
	}
}

// STALE_CANCEL (history).  A receive that carries its own timeout can be handed
// a response in the short interval between that timeout passing and the expiry
// thread acting on it; nni_aio_expire_loop then still calls surv0_ctx_cancel for
// the already completed aio.  surv0_ctx_cancel used to drop the context's survey
// id in that case, which ended the still-live survey (receives failed
// NNG_ESTATE before the deadline, later responses were discarded).  Found by
// c07_conc, fixed in /repo; the "live survey" clauses (estate_with_live_survey,
// missed_response) catch it.  The probe c07_recv_ok_after_own_timeout counts
// how often the triggering situation is reached.

static void
net_cfg(sim_config *cfg, Params *p)
{
	long net = p->draw("net", 0, 3);
	if (net == 1) {
		cfg->seg_mode = 3;
	} else if (net == 2) {
		cfg->seg_mode   = 2;
		cfg->seg_k      = 7;
		cfg->lat_min_ns = 10000;
		cfg->lat_max_ns = 2000000;
	} else if (net == 3) {
		cfg->seg_mode = 1;
		cfg->eagain_p = 0.05;
	}
}

// Receive pump for raw-mode sockets (a zero-timeout receive on a raw socket
// never returns data, so keep one receive outstanding and re-arm it).
struct RawRx {
	nng_socket s;
	UAio       u;
	bool       armed;
	explicit RawRx(nng_socket so) : s(so), armed(false) {}
	void
	arm()
	{
		nng_aio_set_timeout(u.aio, NNG_DURATION_INFINITE);
		u.arm("raw_recv");
		armed = true;
		nng_socket_recv(s, u.aio);
	}
	// next message that has arrived, NULL if none
	nng_msg *
	take()
	{
		if (!armed)
			arm();
		if (!u.poll()) {
			sim_quiesce(100000);
			if (!u.poll())
				return NULL;
		}
		armed = false;
		if (u.result != 0)
			return NULL;
		nng_msg *m = nng_aio_get_msg(u.aio);
		arm();
		return m;
	}
	void
	stop()
	{
		if (armed) {
			nng_aio_cancel(u.aio);
			u.wait(0);
			armed = false;
			if (u.result == 0)
				nng_msg_free(nng_aio_get_msg(u.aio));
		}
	}
};

// ===========================================================================
// c07_surv: surveyor side, sequential, reference model B.5
// ===========================================================================
struct Survey {
	int      ctx, serial;
	uint64_t d_lo_ms, d_hi_ms; // the deadline lies in [d_lo, d_hi] (nng clock)
	uint64_t stall0;           // injected stall total before the survey
	bool     cancelled;        // a receive on it failed early (own timeout / cancel)
	int      st_ms;
};

struct Rsp {
	int      r;        // respondent
	int      sv;       // survey whose id it carries, -1 = an id no survey had
	bool     empty;    // zero-length body
	uint64_t t_sent_ns, stall_sent;
	int      delivered;
	bool     must;     // valid, arrived in time, buffered: must be receivable
	bool     clean;    // nothing known that keeps it off the wire (see op_respond_raw)
	const char *how;
};

struct SCtx {
	bool     is_sock;
	nng_ctx  ctx;
	int      st_ms;
	int      cur; // index into surveys, -1 = never surveyed
	int      must;
	// at most one pending receive
	UAio    *w;
	UAio    *spare;     // the aio of the previous receive, reused (timeout set only when it changes)
	int      spare_tmo;
	uint64_t w_inv_ms;
	int      w_tmo;     // -1 infinite
	int      w_first_sv; // c.cur when invoked
	bool     w_cancel_req, w_superseded;
};

struct Seen {
	uint32_t pipe, id;
	int      sv;
	int      epoch;
};

struct Rd {
	int        kind; // 0 raw-mode nng respondent, 1 cooked nng respondent
	nng_socket s;
	std::vector<Seen> seen; // raw
	RawRx     *rx;         // raw
	int        epoch;       // raw: bumped when a malformed message was sent
	int        pend_sv;     // cooked: survey most recently received, -1 none
	bool       pend_any;    // cooked: a survey is pending (maybe unknown)
};

struct SWorld {
	nng_socket           sock;
	std::vector<SCtx>    ctxs;
	std::vector<Survey>  surveys;
	std::vector<Rsp>     rsps;
	std::vector<Rd>      rds;
	std::map<std::pair<int, int>, int> sv_by_tag;
	int                  recvs_done, rsps_sent;
};

static uint64_t
stall_since(const Survey &sv)
{
	return sim_stall_total_ns() - sv.stall0;
}

static void
on_delivery(SWorld &w, size_t ci, nng_msg *m, uint64_t inv_ms)
{
	SCtx    &c   = w.ctxs[ci];
	size_t   n   = nng_msg_len(m);
	uint8_t *b   = (uint8_t *) nng_msg_body(m);
	int      rid = -1;
	uint32_t x;
	if (n == 0) {
		// zero-length responses carry no tag: attribute to the best
		// candidate among the empty responses not yet accounted for.
		//  3: for this context's current survey and known to be buffered
		//     here (must); oldest first (buffer is FIFO)
		//  2: for the current survey and nothing known that kept it off
		//     the wire; newest first (a delivery that is not from the
		//     buffer completes a pending receive with the response that
		//     has just been sent)
		//  1: for the current survey but probably never transmitted (the
		//     raw respondent addressed a pipe that is gone, send failed)
		//  0: carries another survey's id (will be flagged)
		int best = -1;
		for (size_t i = 0; i < w.rsps.size(); i++) {
			const Rsp &e = w.rsps[i];
			if (!e.empty || e.delivered != 0)
				continue;
			int rank = e.sv != c.cur ? 0 : e.must ? 3 : e.clean ? 2 : 1;
			if (rank > best || (rank == best && rank != 3)) {
				best = rank;
				rid  = (int) i;
			}
		}
	} else if (parse_resp(b, n, &x) && x < w.rsps.size()) {
		rid = (int) x;
	}
	if (c.cur < 0)
		VIOL("recv_without_survey", "ctx %zu never sent a survey but a receive returned a message (%s)",
		    ci, h_hex(b, n).c_str());
	if (rid < 0)
		VIOL("bogus_response", "ctx %zu received %s which is not a response any respondent sent", ci,
		    h_hex(b, n).c_str());
	Rsp    &r  = w.rsps[(size_t) rid];
	Survey &sv = w.surveys[(size_t) c.cur];
	sim_event("deliver ctx%zu rsp%d (%s from r%d, id of survey %d)", ci, rid, r.how, r.r, r.sv);
	if (r.sv < 0)
		VIOL("bogus_response",
		    "ctx %zu received response %d (%s) whose id was never the id of any survey", ci, rid, r.how);
	const Survey &rs = w.surveys[(size_t) r.sv];
	if (rs.ctx != (int) ci)
		VIOL("foreign_response",
		    "ctx %zu received response %d which answers survey #%d of ctx %d", ci, rid, rs.serial, rs.ctx);
	if (r.sv != c.cur)
		VIOL("stale_response",
		    "ctx %zu received response %d to its earlier survey #%d; its most recent survey is #%d", ci,
		    rid, rs.serial, sv.serial);
	if (inv_ms > sv.d_hi_ms) // strictly after: the tie at the deadline itself is not judged
		VIOL("recv_after_deadline",
		    "ctx %zu: receive invoked at %llu ms, after the deadline (<= %llu ms) of survey #%d, "
		    "returned a response instead of NNG_ESTATE",
		    ci, (unsigned long long) inv_ms, (unsigned long long) sv.d_hi_ms, sv.serial);
	uint64_t limit = (sv.d_hi_ms + 1) * MS + 20 * MS + (r.stall_sent - sv.stall0);
	if (r.t_sent_ns > limit)
		VIOL("late_response",
		    "ctx %zu received response %d which its respondent only sent %.3f ms after the deadline of "
		    "survey #%d (stalls %.3f ms)",
		    ci, rid, (double) (r.t_sent_ns - sv.d_hi_ms * MS) / 1e6, sv.serial,
		    (double) (r.stall_sent - sv.stall0) / 1e6);
	if (r.t_sent_ns >= sv.d_lo_ms * MS)
		sim_probe("c07_delivered_in_deadline_window");
	r.delivered++;
	if (r.delivered > 1)
		sim_probe("c07_response_delivered_twice");
	sim_probe(r.must ? "c07_delivered_from_buffer" : "c07_delivered_to_waiter_or_window");
	if (r.must && r.delivered == 1 && c.must > 0)
		c.must--;
	sim_stat("delivered", 1);
}

// judge a completed receive on ctx ci
static void
judge_recv(SWorld &w, size_t ci, UAio *u, uint64_t inv_ms, int tmo, int first_sv, bool we_cancelled,
    bool superseded)
{
	SCtx    &c       = w.ctxs[ci];
	int      rv      = u->result;
	uint64_t done_ms = u->t_done_ns / MS;
	w.recvs_done++;
	sim_event("recv ctx%zu -> %s (invoked %llu ms, done %llu ms)", ci, ename(rv),
	    (unsigned long long) inv_ms, (unsigned long long) done_ms);
	if (rv == 0) {
		nng_msg *m = nng_aio_get_msg(u->aio);
		on_delivery(w, ci, m, inv_ms);
		nng_msg_free(m);
		if (tmo > 0 && done_ms >= inv_ms + (uint64_t) tmo)
			sim_probe("c07_recv_ok_after_own_timeout"); // see STALE_CANCEL
		return;
	}
	if (c.cur < 0) {
		if (rv != NNG_ESTATE && !we_cancelled)
			VIOL("no_survey_not_estate", "ctx %zu never sent a survey; receive failed with %s, not NNG_ESTATE",
			    ci, ename(rv));
		sim_probe("c07_estate_no_survey");
		return;
	}
	Survey &sv = w.surveys[(size_t) c.cur];
	// earliest deadline among the surveys this receive lived through
	uint64_t d_lo = sv.d_lo_ms;
	for (int i = std::max(first_sv, 0); i < (int) w.surveys.size(); i++)
		if (w.surveys[(size_t) i].ctx == (int) ci)
			d_lo = std::min(d_lo, w.surveys[(size_t) i].d_lo_ms);
	switch (rv) {
	case NNG_ESTATE:
		if (done_ms < sv.d_lo_ms && !sv.cancelled)
			VIOL("estate_with_live_survey",
			    "ctx %zu: receive failed NNG_ESTATE at %llu ms although survey #%d is live until >= %llu ms",
			    ci, (unsigned long long) done_ms, sv.serial, (unsigned long long) sv.d_lo_ms);
		if (done_ms < sv.d_lo_ms)
			sim_probe("c07_estate_after_failed_recv"); // nng: a failed receive ends the survey
		else
			sim_probe("c07_estate_expired");
		break;
	case NNG_ETIMEDOUT: {
		if (inv_ms > sv.d_hi_ms) // strictly after: the tie at the deadline itself is not judged
			VIOL("expired_survey_not_estate",
			    "ctx %zu: receive invoked at %llu ms after the deadline (<= %llu ms) failed with "
			    "NNG_ETIMEDOUT, not NNG_ESTATE",
			    ci, (unsigned long long) inv_ms, (unsigned long long) sv.d_hi_ms);
		uint64_t bound = d_lo;
		if (tmo >= 0)
			bound = std::min(bound, inv_ms + (uint64_t) tmo);
		if (done_ms < bound)
			VIOL("recv_timeout_before_deadline",
			    "ctx %zu: receive (timeout %d ms, invoked %llu ms) timed out at %llu ms, before the "
			    "deadline of survey #%d (>= %llu ms)",
			    ci, tmo, (unsigned long long) inv_ms, (unsigned long long) done_ms, sv.serial,
			    (unsigned long long) d_lo);
		uint64_t limit = (sv.d_hi_ms + 1) * MS + 50 * MS + stall_since(sv);
		if (u->t_done_ns > limit && (tmo < 0 || inv_ms + (uint64_t) tmo > sv.d_hi_ms))
			VIOL("deadline_no_timeout",
			    "ctx %zu: receive pending at the deadline of survey #%d completed only %.3f ms after it",
			    ci, sv.serial, (double) (u->t_done_ns - sv.d_hi_ms * MS) / 1e6);
		if (done_ms >= sv.d_lo_ms) {
			sim_probe("c07_timeout_at_deadline");
		} else {
			sim_probe("c07_timeout_own");
			sv.cancelled = true;
		}
		if (tmo == 0 && done_ms > inv_ms + 2)
			sim_probe("c07_zero_timeout_recv_waited"); // nng: clamps 0 to the deadline
		break;
	}
	case NNG_ECANCELED:
		if (!we_cancelled && !superseded)
			VIOL("recv_unexpected_error",
			    "ctx %zu: pending receive failed NNG_ECANCELED though nobody cancelled it and no new "
			    "survey was sent",
			    ci);
		if (superseded)
			sim_probe("c07_recv_aborted_by_new_survey");
		if (we_cancelled && !superseded)
			sv.cancelled = true;
		break;
	default:
		VIOL("recv_unexpected_error", "ctx %zu: receive on a live survey failed with %s", ci, ename(rv));
	}
}

static void
poll_ctx(SWorld &w, size_t ci)
{
	SCtx &c = w.ctxs[ci];
	if (c.w == NULL)
		return;
	if (c.w->poll()) {
		UAio *u = c.w;
		c.w     = NULL;
		judge_recv(w, ci, u, c.w_inv_ms, c.w_tmo, c.w_first_sv, c.w_cancel_req, c.w_superseded);
		delete c.spare;
		c.spare     = u;
		c.spare_tmo = c.w_tmo;
		return;
	}
	if (c.cur < 0) {
		// a receive without any survey must fail, not wait
		VIOL("no_survey_not_estate", "ctx %zu never sent a survey; receive is pending instead of failing NNG_ESTATE", ci);
	}
	Survey  &sv    = w.surveys[(size_t) c.cur];
	uint64_t limit = (sv.d_hi_ms + 1) * MS + 50 * MS + stall_since(sv);
	if (sim_now_ns() > limit)
		VIOL("deadline_no_timeout",
		    "ctx %zu: receive still pending %.3f ms after the deadline of survey #%d (stalls %.3f ms)", ci,
		    (double) (sim_now_ns() - sv.d_hi_ms * MS) / 1e6, sv.serial, (double) stall_since(sv) / 1e6);
}

static void
poll_all(SWorld &w)
{
	for (size_t i = 0; i < w.ctxs.size(); i++)
		poll_ctx(w, i);
}

static void
settle(SWorld &w)
{
	sim_quiesce(QH);
	poll_all(w);
}

static bool
sv_live_now(const SWorld &w, const SCtx &c)
{
	if (c.cur < 0)
		return false;
	const Survey &sv = w.surveys[(size_t) c.cur];
	return !sv.cancelled && sim_now_ms() < sv.d_lo_ms;
}

// raw respondents pick up every survey that reached them
static void
drain_raw(SWorld &w)
{
	for (size_t ri = 0; ri < w.rds.size(); ri++) {
		Rd &rd = w.rds[ri];
		if (rd.kind != 0)
			continue;
		nng_msg *m;
		while ((m = rd.rx->take()) != NULL) {
			Seen s;
			s.sv    = -1;
			s.epoch = rd.epoch;
			s.pipe = s.id = 0;
			if (nng_msg_header_len(m) >= 8) {
				const uint8_t *h = (const uint8_t *) nng_msg_header(m);
				s.pipe           = rd32(h);
				s.id             = rd32(h + 4);
				Tag t = tag_parse((const uint8_t *) nng_msg_body(m), nng_msg_len(m));
				if (t.ok && t.stream == SURVEY_STREAM) {
					auto it = w.sv_by_tag.find(std::make_pair((int) t.origin, (int) t.serial));
					if (it != w.sv_by_tag.end())
						s.sv = it->second;
				}
				if (s.sv >= 0) {
					rd.seen.push_back(s);
					sim_event("r%zu saw survey %d (ctx%d #%d) id %08x pipe %08x", ri, s.sv,
					    w.surveys[(size_t) s.sv].ctx, w.surveys[(size_t) s.sv].serial, s.id, s.pipe);
				}
			}
			nng_msg_free(m);
		}
	}
}

static void
op_survey(SWorld &w, size_t ci)
{
	SCtx  &c = w.ctxs[ci];
	Survey sv;
	sv.ctx       = (int) ci;
	sv.serial    = 0;
	for (auto &o : w.surveys)
		if (o.ctx == (int) ci)
			sv.serial++;
	sv.cancelled = false;
	sv.st_ms     = c.st_ms;
	nng_msg *m   = tag_msg((size_t) W(20, 60), (uint16_t) ci, SURVEY_STREAM, (uint32_t) sv.serial);
	if (m == NULL)
		h_fatal("tag_msg");
	sv.stall0       = sim_stall_total_ns();
	uint64_t t0     = sim_now_ms();
	int      rv     = c.is_sock ? nng_sendmsg(w.sock, m, 0) : nng_ctx_sendmsg(c.ctx, m, 0);
	uint64_t t1     = sim_now_ms();
	if (rv != 0)
		h_fatal("survey send failed: %s", nng_strerror((nng_err) rv));
	sv.d_lo_ms = t0 + (uint64_t) c.st_ms;
	sv.d_hi_ms = t1 + (uint64_t) c.st_ms;
	w.surveys.push_back(sv);
	c.cur  = (int) w.surveys.size() - 1;
	c.must = 0;
	if (c.w != NULL)
		c.w_superseded = true;
	w.sv_by_tag[std::make_pair((int) ci, sv.serial)] = c.cur;
	sim_event("survey ctx%zu #%d (survey %d) at %llu ms, surveytime %d", ci, sv.serial, c.cur,
	    (unsigned long long) t0, c.st_ms);
	settle(w);
	if (c.w != NULL)
		sim_probe("c07_recv_survived_new_survey");
	drain_raw(w);
}

static void
op_recv(SWorld &w, size_t ci, int tmo)
{
	SCtx &c = w.ctxs[ci];
	if (c.w != NULL)
		return;
	bool  live_before = sv_live_now(w, c);
	int   must_before = c.must;
	UAio *u;
	if (c.spare != NULL && W(0, 2) != 0) {
		// one aio used again and again, as applications do
		u       = c.spare;
		c.spare = NULL;
		if (W(0, 1) == 0)
			tmo = c.spare_tmo; // the timeout set once and left alone
		if (tmo != c.spare_tmo)
			nng_aio_set_timeout(u->aio, tmo < 0 ? NNG_DURATION_INFINITE : (nng_duration) tmo);
		sim_probe("c07_recv_aio_reused");
	} else {
		u = new UAio();
		nng_aio_set_timeout(u->aio, tmo < 0 ? NNG_DURATION_INFINITE : (nng_duration) tmo);
	}
	sim_event("recv ctx%zu timeout %d", ci, tmo);
	c.w            = u;
	c.w_inv_ms     = sim_now_ms();
	c.w_tmo        = tmo;
	c.w_first_sv   = c.cur;
	c.w_cancel_req = false;
	c.w_superseded = false;
	u->arm("surv_recv");
	if (c.is_sock)
		nng_socket_recv(w.sock, u->aio);
	else
		nng_ctx_recv(c.ctx, u->aio);
	// a buffered valid response must be handed to this receive
	sim_quiesce(200000);
	if (must_before > 0 && live_before) {
		bool got = c.w->poll() && c.w->result == 0;
		// only if the survey was still live when the call was over
		uint64_t done_ms = c.w->poll() ? c.w->t_done_ns / MS : sim_now_ms();
		if (!got && done_ms < w.surveys[(size_t) c.cur].d_lo_ms)
			VIOL("missed_response",
			    "ctx %zu: %d valid response(s) to the live survey #%d arrived before its deadline but a "
			    "receive %s",
			    ci, must_before, w.surveys[(size_t) c.cur].serial,
			    c.w->poll() ? ename(c.w->result) : "is left pending");
	}
	poll_all(w);
}

static void
op_cancel(SWorld &w, size_t ci)
{
	SCtx &c = w.ctxs[ci];
	if (c.w == NULL)
		return;
	sim_event("cancel recv ctx%zu", ci);
	c.w_cancel_req = true;
	nng_aio_cancel(c.w->aio);
	if (c.w->wait(10000 * MS) == (nng_err) -1)
		VIOL("cancel_hang", "cancelled receive on ctx %zu never completed", ci);
	settle(w);
}

// after a response was put on the wire and the world settled
static void
after_response(SWorld &w, int rid, bool clean)
{
	Rsp &r = w.rsps[(size_t) rid];
	w.rsps_sent++;
	sim_quiesce(QH);
	// were the conditions for mandatory delivery met when it had arrived?
	bool   elig = false;
	size_t ci   = 0;
	if (r.sv >= 0 && clean) {
		const Survey &rs = w.surveys[(size_t) r.sv];
		ci               = (size_t) rs.ctx;
		SCtx &c          = w.ctxs[ci];
		if (c.cur == r.sv && !rs.cancelled && sim_now_ms() < rs.d_lo_ms)
			elig = true;
	}
	bool had_waiter = elig && w.ctxs[ci].w != NULL && !w.ctxs[ci].w->poll();
	poll_all(w);
	if (!elig)
		return;
	SCtx &c = w.ctxs[ci];
	if (w.surveys[(size_t) r.sv].cancelled)
		return; // a receive with its own timeout gave up meanwhile
	if (r.delivered > 0)
		return;
	if (c.w != NULL && !had_waiter)
		return;
	if (c.w != NULL)
		VIOL("missed_response",
		    "ctx %zu has a receive pending on live survey #%d; valid response %d arrived %llu ms before "
		    "the deadline but was not delivered",
		    ci, w.surveys[(size_t) r.sv].serial, rid,
		    (unsigned long long) (w.surveys[(size_t) r.sv].d_lo_ms - sim_now_ms()));
	r.must = true;
	c.must++;
}

static void
op_respond_raw(SWorld &w, size_t ri, int variant, int pick)
{
	Rd &rd = w.rds[ri];
	if (rd.seen.empty())
		return;
	// pick: 0 = most recent survey seen, larger = further back
	size_t k = rd.seen.size() - 1 - (size_t) std::min<long>(pick, (long) rd.seen.size() - 1);
	Seen   s = rd.seen[k];
	Rsp    r;
	r.r         = (int) ri;
	r.sv        = s.sv;
	r.empty     = false;
	r.delivered = 0;
	r.must      = false;
	r.how       = "valid id";
	bool     clean = s.epoch == rd.epoch;
	uint32_t rid   = (uint32_t) w.rsps.size();
	nng_msg *m     = NULL;
	switch (variant) {
	default:
	case 0:
		m = mk_resp(rid, (size_t) W(0, 30));
		MUST(nng_msg_header_append_u32(m, s.pipe));
		MUST(nng_msg_header_append_u32(m, s.id));
		break;
	case 1: // an id that no survey ever had (far from the allocated range)
		m = mk_resp(rid, (size_t) W(0, 30));
		MUST(nng_msg_header_append_u32(m, s.pipe));
		MUST(nng_msg_header_append_u32(m, s.id ^ 0x40000000u));
		r.sv  = -1;
		r.how = "unissued id";
		sim_probe("c07_bogus_id_sent");
		break;
	case 2: // first word lacks the end-of-backtrace bit, real id follows
		m = mk_resp(rid, (size_t) W(0, 30));
		MUST(nng_msg_header_append_u32(m, s.pipe));
		MUST(nng_msg_header_append_u32(m, s.id & 0x7fffffffu));
		MUST(nng_msg_header_append_u32(m, s.id));
		r.sv  = -1;
		r.how = "id without high bit, then id";
		sim_probe("c07_bogus_id_sent");
		break;
	case 3: // valid id, zero-length body (exactly 4 bytes on the wire)
		MUST(nng_msg_alloc(&m, 0));
		MUST(nng_msg_header_append_u32(m, s.pipe));
		MUST(nng_msg_header_append_u32(m, s.id));
		r.empty = true;
		r.how   = "valid id, empty body";
		sim_probe("c07_empty_body_sent");
		break;
	case 4: { // malformed: fewer than 4 bytes on the wire
		size_t n = (size_t) W(0, 3);
		MUST(nng_msg_alloc(&m, n));
		memcpy(nng_msg_body(m), "\x80\x00\x00", n);
		MUST(nng_msg_header_append_u32(m, s.pipe));
		r.sv  = -1;
		r.how = "short message";
		rd.epoch++;
		clean = false;
		sim_probe("c07_malformed_sent");
		break;
	}
	}
	r.t_sent_ns  = sim_now_ns();
	r.stall_sent = sim_stall_total_ns();
	r.clean      = clean;
	w.rsps.push_back(r);
	if (r.sv >= 0) {
		const Survey &rs = w.surveys[(size_t) r.sv];
		const SCtx   &c  = w.ctxs[(size_t) rs.ctx];
		if (c.cur != r.sv)
			sim_probe("c07_stale_id_sent");
		else if (r.t_sent_ns > (rs.d_hi_ms + 21) * MS)
			sim_probe("c07_late_sent");
		else if (r.t_sent_ns + 2 * MS >= rs.d_lo_ms * MS)
			sim_probe("c07_sent_near_deadline");
		for (size_t j = 0; j < w.ctxs.size(); j++)
			if ((int) j != rs.ctx && w.ctxs[j].w != NULL) {
				sim_probe("c07_foreign_with_waiter");
				break;
			}
	}
	sim_event("respond r%zu(raw) rsp%u: %s of survey %d (ctx%d #%d) at %.3f ms", ri, rid, r.how, s.sv,
	    w.surveys[(size_t) s.sv].ctx, w.surveys[(size_t) s.sv].serial, (double) r.t_sent_ns / 1e6);
	int rv = nng_sendmsg(rd.s, m, 0);
	if (rv != 0) {
		nng_msg_free(m);
		clean = false;
		w.rsps[rid].clean = false;
	}
	after_response(w, (int) rid, clean);
}

static void
op_resp_recv_cooked(SWorld &w, size_t ri)
{
	Rd      &rd = w.rds[ri];
	nng_msg *m  = NULL;
	int      rv = nng_recvmsg(rd.s, &m, NNG_FLAG_NONBLOCK);
	if (rv != 0) {
		sim_event("r%zu(cooked) recv -> %s", ri, ename(rv));
		return;
	}
	Tag t       = tag_parse((const uint8_t *) nng_msg_body(m), nng_msg_len(m));
	rd.pend_sv  = -1;
	rd.pend_any = true;
	if (t.ok && t.stream == SURVEY_STREAM) {
		auto it = w.sv_by_tag.find(std::make_pair((int) t.origin, (int) t.serial));
		if (it != w.sv_by_tag.end())
			rd.pend_sv = it->second;
	}
	nng_msg_free(m);
	if (rd.pend_sv < 0)
		VIOL("altered_survey", "respondent %zu received a survey nobody sent", ri);
	sim_event("r%zu(cooked) received survey %d (ctx%d #%d)", ri, rd.pend_sv,
	    w.surveys[(size_t) rd.pend_sv].ctx, w.surveys[(size_t) rd.pend_sv].serial);
}

static void
op_respond_cooked(SWorld &w, size_t ri)
{
	Rd      &rd  = w.rds[ri];
	uint32_t rid = (uint32_t) w.rsps.size();
	nng_msg *m   = mk_resp(rid, (size_t) W(0, 30));
	Rsp      r;
	r.r          = (int) ri;
	r.sv         = rd.pend_sv;
	r.empty      = false;
	r.delivered  = 0;
	r.must       = false;
	r.how        = "cooked";
	r.t_sent_ns  = sim_now_ns();
	r.stall_sent = sim_stall_total_ns();
	sim_event("respond r%zu(cooked) rsp%u to survey %d at %.3f ms", ri, rid, rd.pend_sv,
	    (double) r.t_sent_ns / 1e6);
	int rv = nng_sendmsg(rd.s, m, 0);
	if (!rd.pend_any) {
		if (rv == 0)
			VIOL("resp_send_without_survey",
			    "respondent %zu has no pending survey but sending a response succeeded", ri);
		nng_msg_free(m);
		if (rv != NNG_ESTATE)
			VIOL("resp_send_without_survey",
			    "respondent %zu has no pending survey; send failed with %s, not NNG_ESTATE", ri, ename(rv));
		sim_probe("c07_resp_estate");
		return;
	}
	if (rv != 0) {
		nng_msg_free(m);
		if (rv == NNG_ESTATE)
			VIOL("resp_estate_with_survey",
			    "respondent %zu received survey %d and has not answered it, yet send failed NNG_ESTATE", ri,
			    rd.pend_sv);
		h_fatal("cooked respondent send: %s", nng_strerror((nng_err) rv));
	}
	rd.pend_any = false;
	rd.pend_sv  = -1;
	r.clean     = true;
	w.rsps.push_back(r);
	if (r.sv >= 0 && w.ctxs[(size_t) w.surveys[(size_t) r.sv].ctx].cur != r.sv)
		sim_probe("c07_stale_id_sent");
	after_response(w, (int) rid, true);
}

static void
sleep_to(uint64_t target_ns)
{
	uint64_t now = sim_now_ns();
	if (target_ns > now)
		sim_sleep_ns(target_ns - now);
}

static const long DELTA_US[] = { 0, -300, 300, -1000, 1000, -3000, 3000, -100, 100, -10000, 10000, -30000, 40000, 90000 };

static void
surv_run(Params *p)
{
	SWorld w;
	w.recvs_done = w.rsps_sent = 0;
	int tr   = (int) p->draw("tr", 0, 3);
	int nctx = (int) p->draw("nctx", 0, 3);
	int nrd  = (int) p->draw("nresp", 1, 3);
	static const int STS[] = { 100, 30, 300, 1000, 10 };
	int st0 = STS[W(0, 4)];
	MUST(nng_surveyor0_open(&w.sock));
	if (st0 != 1000)
		MUST(nng_socket_set_ms(w.sock, NNG_OPT_SURVEYOR_SURVEYTIME, st0));
	w.ctxs.resize((size_t) nctx + 1);
	for (size_t i = 0; i < w.ctxs.size(); i++) {
		SCtx &c   = w.ctxs[i];
		c.is_sock = i == 0;
		c.cur     = -1;
		c.must    = 0;
		c.w       = NULL;
		c.spare   = NULL;
		nng_duration d = 0;
		if (i > 0) {
			MUST(nng_ctx_open(&c.ctx, w.sock));
			if (W(0, 2) == 1)
				MUST(nng_ctx_set_ms(c.ctx, NNG_OPT_SURVEYOR_SURVEYTIME, STS[W(0, 4)]));
			MUST(nng_ctx_get_ms(c.ctx, NNG_OPT_SURVEYOR_SURVEYTIME, &d));
		} else {
			MUST(nng_socket_get_ms(w.sock, NNG_OPT_SURVEYOR_SURVEYTIME, &d));
		}
		c.st_ms = (int) d;
	}
	std::string url = h_url(tr, 7);
	MUST(nng_listen(w.sock, url.c_str(), NULL, 0));
	w.rds.resize((size_t) nrd);
	for (size_t i = 0; i < w.rds.size(); i++) {
		Rd &rd      = w.rds[i];
		rd.kind     = (int) W(0, 2) == 2 ? 1 : 0;
		rd.epoch    = 0;
		rd.pend_sv  = -1;
		rd.pend_any = false;
		rd.rx = NULL;
		if (rd.kind == 0) {
			MUST(nng_respondent0_open_raw(&rd.s));
			rd.rx = new RawRx(rd.s);
			rd.rx->arm();
		} else {
			MUST(nng_respondent0_open(&rd.s));
		}
		MUST(nng_socket_set_ms(rd.s, NNG_OPT_SENDTIMEO, 1000));
		MUST(nng_socket_set_ms(rd.s, NNG_OPT_RECONNMINT, 5));
		MUST(nng_socket_set_ms(rd.s, NNG_OPT_RECONNMAXT, 5));
		MUST(nng_dial(rd.s, url.c_str(), NULL, 0));
	}
	sim_quiesce(20 * MS);
	sim_event("c07_surv tr=%s ctxs=%d respondents=%d surveytime=%d", h_tr_name(tr), nctx + 1, nrd, st0);

	int nops = (int) W(6, 40);
	for (int op = 0; op < nops; op++) {
		int    kind = (int) W(0, 13);
		size_t ci   = (size_t) W(0, (long) w.ctxs.size() - 1);
		size_t ri   = (size_t) W(0, (long) w.rds.size() - 1);
		SCtx  &c    = w.ctxs[ci];
		Rd    &rd   = w.rds[ri];
		switch (kind) {
		case 0:
		case 1:
		case 2:
			op_survey(w, ci);
			break;
		case 3:
		case 4:
		case 5: {
			if (W(0, 3) != 0) { // prefer a context whose survey is live
				std::vector<size_t> live;
				for (size_t i = 0; i < w.ctxs.size(); i++)
					if (sv_live_now(w, w.ctxs[i]) && w.ctxs[i].w == NULL)
						live.push_back(i);
				if (!live.empty())
					ci = live[(size_t) W(0, (long) live.size() - 1)];
			}
			long t   = W(0, 5);
			int  tmo = t <= 2 ? -1 : t == 3 ? (int) W(1, 40) : t == 4 ? 0 : (int) W(100, 2000);
			op_recv(w, ci, tmo);
			break;
		}
		case 6:
		case 7:
		case 8:
			if (rd.kind == 0) {
				long v       = W(0, 9);
				int  variant = v <= 5 ? 0 : v == 6 ? 1 : v == 7 ? 2 : v == 8 ? 3 : 4;
				long pk      = W(0, 3);
				op_respond_raw(w, ri, variant, pk == 3 ? (int) W(0, 8) : (int) (pk == 2));
			} else {
				if (W(0, 3) != 3)
					op_resp_recv_cooked(w, ri);
				op_respond_cooked(w, ri);
			}
			break;
		case 9:
			if (rd.kind == 1)
				op_resp_recv_cooked(w, ri);
			else
				op_cancel(w, ci);
			break;
		case 10: // short sleep
			sim_event("sleep");
			sim_sleep_ns((uint64_t) W(0, 5000) * 1000);
			settle(w);
			break;
		default: { // move to the neighbourhood of ctx ci's deadline, maybe answer there
			if (c.cur < 0)
				break;
			const Survey &sv = w.surveys[(size_t) c.cur];
			long          d  = DELTA_US[W(0, 13)] + W(0, 200);
			uint64_t      tg = (uint64_t) ((long long) (sv.d_lo_ms * MS) + d * 1000);
			if (c.w != NULL && c.w_tmo > 0 && c.w_inv_ms + (uint64_t) c.w_tmo < sv.d_lo_ms) {
				// the pending receive gives up before the deadline: aim at that
				// moment instead (the expiry acts about 1 ms after it)
				tg = (uint64_t) ((long long) ((c.w_inv_ms + (uint64_t) c.w_tmo + 1) * MS) + d * 1000);
				sim_event("sleep to own timeout of ctx%zu %+ld us", ci, d);
			} else {
				sim_event("sleep to deadline of ctx%zu %+ld us", ci, d);
			}
			sleep_to(tg);
			if (kind == 11) {
				settle(w);
				break;
			}
			// answer from a respondent that knows the current id (no settle
			// first: the response races the expiry)
			for (size_t k = 0; k < w.rds.size(); k++) {
				Rd &r2 = w.rds[(ri + k) % w.rds.size()];
				if (r2.kind == 0 && !r2.seen.empty() && r2.seen.back().sv == c.cur) {
					op_respond_raw(w, (ri + k) % w.rds.size(), 0, 0);
					break;
				}
				if (r2.kind == 1 && r2.pend_any && r2.pend_sv == c.cur) {
					op_respond_cooked(w, (ri + k) % w.rds.size());
					break;
				}
			}
			settle(w);
			break;
		}
		}
	}
	// final: flush whatever is buffered on live surveys, let pending receives
	// run into their deadline (sometimes), cancel the rest
	for (size_t ci = 0; ci < w.ctxs.size(); ci++) {
		SCtx &c = w.ctxs[ci];
		for (int k = 0; k < 6 && c.w == NULL && sv_live_now(w, c); k++) {
			op_recv(w, ci, 1);
			if (c.w != NULL) {
				c.w->wait(0);
				settle(w);
			}
		}
	}
	if (W(0, 1) == 0) {
		uint64_t far = 0;
		for (auto &c : w.ctxs)
			if (c.w != NULL && c.cur >= 0)
				far = std::max(far, (w.surveys[(size_t) c.cur].d_hi_ms + 60) * MS);
		if (far) {
			sim_event("final: wait for deadlines");
			sleep_to(far);
			settle(w);
		}
	}
	for (size_t ci = 0; ci < w.ctxs.size(); ci++)
		op_cancel(w, ci);
	if (w.recvs_done > 0 && w.rsps_sent > 0)
		sim_stat("nontrivial", 1);
	for (size_t i = 1; i < w.ctxs.size(); i++)
		MUST(nng_ctx_close(w.ctxs[i].ctx));
	for (auto &rd : w.rds) {
		if (rd.rx != NULL) {
			rd.rx->stop();
			delete rd.rx;
		}
		MUST(nng_socket_close(rd.s));
	}
	MUST(nng_socket_close(w.sock));
	for (auto &c : w.ctxs)
		delete c.spare;
}

SCENARIO(c07_surv, "C07", net_cfg, surv_run);

// ===========================================================================
// c07_resp: respondent side, sequential.  Cooked respondent socket + contexts;
// raw-mode surveyor sockets see every message the respondent routes to them.
// ===========================================================================
struct XSurvey {
	int      k, serial; // raw surveyor, its serial
	uint32_t id;
	int      received_by; // respondent ctx that got it, -1 not yet
};

struct XRsp {
	int      j;       // respondent ctx that sent it
	int      xs;      // survey it should answer (index into xsurveys)
	int      arrived; // at its surveyor
};

struct RCtx {
	bool    is_sock;
	nng_ctx ctx;
	int     pend; // index into xsurveys of the survey most recently received, -1 none
	UAio   *w;    // pending receive
	bool    w_cancel_req;
};

struct RWorld {
	nng_socket              resp;
	std::vector<RCtx>       ctxs;
	std::vector<nng_socket> xs;
	std::vector<RawRx *>    rx;
	std::vector<XSurvey>    xsurveys;
	std::vector<XRsp>       rsps;
	std::map<std::pair<int, int>, int> by_tag;
	std::vector<int>        outstanding; // per surveyor: sent, not yet received
	int                     checked;
};

static void
r_got_survey(RWorld &w, size_t j, nng_msg *m)
{
	RCtx &c = w.ctxs[j];
	Tag   t = tag_parse((const uint8_t *) nng_msg_body(m), nng_msg_len(m));
	int   xi = -1;
	if (t.ok && t.stream == SURVEY_STREAM) {
		auto it = w.by_tag.find(std::make_pair((int) t.origin, (int) t.serial));
		if (it != w.by_tag.end())
			xi = it->second;
	}
	nng_msg_free(m);
	if (xi < 0)
		VIOL("altered_survey", "respondent ctx %zu received a survey nobody sent", j);
	XSurvey &x = w.xsurveys[(size_t) xi];
	if (x.received_by >= 0)
		sim_probe("c07_survey_received_twice");
	else
		w.outstanding[(size_t) x.k]--;
	x.received_by = (int) j;
	if (c.pend >= 0)
		sim_probe("c07_resp_survey_replaced");
	c.pend = xi;
	sim_event("rctx%zu received survey x%d #%d (id %08x)", j, x.k, x.serial, x.id);
}

static void
r_poll(RWorld &w)
{
	for (size_t j = 0; j < w.ctxs.size(); j++) {
		RCtx &c = w.ctxs[j];
		if (c.w == NULL || !c.w->poll())
			continue;
		UAio *u = c.w;
		c.w     = NULL;
		if (u->result == 0) {
			r_got_survey(w, j, nng_aio_get_msg(u->aio));
		} else {
			sim_event("rctx%zu recv -> %s", j, ename(u->result));
			if (u->result != NNG_ETIMEDOUT && !(u->result == NNG_ECANCELED && c.w_cancel_req))
				h_fatal("respondent recv failed: %s", nng_strerror(u->result));
		}
		delete u;
	}
}

// collect what reached the raw surveyors and compare with the routing model
static void
r_collect(RWorld &w)
{
	for (size_t k = 0; k < w.xs.size(); k++) {
		nng_msg *m;
		while ((m = w.rx[k]->take()) != NULL) {
			uint32_t rid = 0, id = 0;
			bool     ok  = parse_resp((const uint8_t *) nng_msg_body(m), nng_msg_len(m), &rid) &&
			    rid < w.rsps.size();
			size_t hl = nng_msg_header_len(m);
			if (hl >= 4)
				id = rd32((const uint8_t *) nng_msg_header(m));
			std::string hx = h_hex((const uint8_t *) nng_msg_body(m), nng_msg_len(m));
			nng_msg_free(m);
			if (!ok)
				VIOL("bogus_response", "surveyor x%zu received %s which no respondent context sent", k,
				    hx.c_str());
			XRsp    &r = w.rsps[rid];
			XSurvey &x = w.xsurveys[(size_t) r.xs];
			sim_event("x%zu got rsp%u (from rctx%d, answers x%d #%d) id %08x", k, rid, r.j, x.k, x.serial, id);
			if (x.k != (int) k)
				VIOL("misdirected_response",
				    "response %u of respondent ctx %d answers the survey it most recently received "
				    "(x%d #%d) but was sent to surveyor x%zu",
				    rid, r.j, x.k, x.serial, k);
			if (hl != 4 || id != x.id)
				VIOL("response_wrong_id",
				    "response %u answers survey x%d #%d (id %08x) but carries id %08x (header %zu bytes)",
				    rid, x.k, x.serial, x.id, id, hl);
			r.arrived++;
			if (r.arrived > 1)
				sim_probe("c07_response_arrived_twice");
			w.checked++;
		}
	}
}

static void
r_settle(RWorld &w)
{
	sim_quiesce(QH);
	r_poll(w);
	r_collect(w);
}

static void
resp_run(Params *p)
{
	RWorld w;
	w.checked = 0;
	int tr    = (int) p->draw("tr", 0, 3);
	int nctx  = (int) p->draw("nctx", 0, 2);
	int nx    = (int) p->draw("nsurv", 0, 2) + 1;
	bool resp_listens = W(0, 1) == 0;
	MUST(nng_respondent0_open(&w.resp));
	MUST(nng_socket_set_ms(w.resp, NNG_OPT_SENDTIMEO, 1000));
	w.ctxs.resize((size_t) nctx + 1);
	for (size_t j = 0; j < w.ctxs.size(); j++) {
		RCtx &c   = w.ctxs[j];
		c.is_sock = j == 0;
		c.pend    = -1;
		c.w       = NULL;
		if (j > 0)
			MUST(nng_ctx_open(&c.ctx, w.resp));
	}
	std::string url = h_url(tr, 8);
	if (resp_listens)
		MUST(nng_listen(w.resp, url.c_str(), NULL, 0));
	for (int k = 0; k < nx; k++) {
		nng_socket x;
		MUST(nng_surveyor0_open_raw(&x));
		MUST(nng_socket_set_ms(x, NNG_OPT_SENDTIMEO, 1000));
		if (resp_listens) {
			MUST(nng_dial(x, url.c_str(), NULL, 0));
		} else {
			std::string u2 = h_url(tr, 10 + k);
			MUST(nng_listen(x, u2.c_str(), NULL, 0));
			MUST(nng_dial(w.resp, u2.c_str(), NULL, 0));
		}
		w.xs.push_back(x);
		w.rx.push_back(new RawRx(x));
		w.rx.back()->arm();
		w.outstanding.push_back(0);
	}
	sim_quiesce(20 * MS);
	sim_event("c07_resp tr=%s rctxs=%d surveyors=%d resp_listens=%d", h_tr_name(tr), nctx + 1, nx,
	    (int) resp_listens);
	uint32_t next_id = 0x80000000u | (uint32_t) W(0, 0xffff);
	int      nops    = (int) W(6, 40);
	for (int op = 0; op < nops; op++) {
		int    kind = (int) W(0, 9);
		size_t j    = (size_t) W(0, (long) w.ctxs.size() - 1);
		size_t k    = (size_t) W(0, (long) w.xs.size() - 1);
		RCtx  &c    = w.ctxs[j];
		if (kind <= 2) { // a surveyor sends a survey
			if (w.outstanding[k] >= 4)
				continue;
			XSurvey x;
			x.k           = (int) k;
			x.serial      = 0;
			for (auto &o : w.xsurveys)
				if (o.k == (int) k)
					x.serial++;
			x.id          = next_id++;
			x.received_by = -1;
			nng_msg *m    = tag_msg((size_t) W(20, 60), (uint16_t) k, SURVEY_STREAM, (uint32_t) x.serial);
			MUST(nng_msg_header_append_u32(m, x.id));
			sim_event("x%zu sends survey #%d id %08x", k, x.serial, x.id);
			int rv = nng_sendmsg(w.xs[k], m, 0);
			if (rv != 0)
				h_fatal("raw surveyor send: %s", nng_strerror((nng_err) rv));
			w.xsurveys.push_back(x);
			w.by_tag[std::make_pair((int) k, x.serial)] = (int) w.xsurveys.size() - 1;
			w.outstanding[k]++;
			r_settle(w);
		} else if (kind <= 5) { // respondent context receives
			if (c.w != NULL)
				continue;
			UAio *u  = new UAio();
			bool  nb = W(0, 2) == 2;
			nng_aio_set_timeout(u->aio, nb ? NNG_DURATION_ZERO : NNG_DURATION_INFINITE);
			sim_event("rctx%zu recv%s", j, nb ? " (non-blocking)" : "");
			c.w            = u;
			c.w_cancel_req = false;
			u->arm("resp_recv");
			if (c.is_sock)
				nng_socket_recv(w.resp, u->aio);
			else
				nng_ctx_recv(c.ctx, u->aio);
			r_settle(w);
		} else if (kind <= 8) { // respondent context sends a response
			uint32_t rid = (uint32_t) w.rsps.size();
			nng_msg *m   = mk_resp(rid, (size_t) W(0, 30));
			sim_event("rctx%zu sends rsp%u (pending survey %d)", j, rid, c.pend);
			int rv = c.is_sock ? nng_sendmsg(w.resp, m, 0) : nng_ctx_sendmsg(c.ctx, m, 0);
			if (rv != 0)
				nng_msg_free(m);
			if (c.pend < 0) {
				if (rv == 0)
					VIOL("resp_send_without_survey",
					    "respondent ctx %zu has no pending survey but sending a response succeeded", j);
				if (rv != NNG_ESTATE)
					VIOL("resp_send_without_survey",
					    "respondent ctx %zu has no pending survey; send failed with %s, not NNG_ESTATE", j,
					    ename(rv));
				sim_probe("c07_resp_estate");
				r_settle(w);
				continue;
			}
			if (rv == NNG_ESTATE)
				VIOL("resp_estate_with_survey",
				    "respondent ctx %zu received survey %d and has not answered it, yet send failed NNG_ESTATE",
				    j, c.pend);
			if (rv != 0)
				h_fatal("respondent send: %s", nng_strerror((nng_err) rv));
			XRsp r;
			r.j       = (int) j;
			r.xs      = c.pend;
			r.arrived = 0;
			w.rsps.push_back(r);
			c.pend = -1;
			r_settle(w);
			if (w.rsps[rid].arrived == 0)
				VIOL("response_lost",
				    "response %u of respondent ctx %zu to the connected surveyor x%d never arrived", rid, j,
				    w.xsurveys[(size_t) r.xs].k);
			sim_stat("nontrivial", 1);
		} else { // cancel a pending receive
			if (c.w == NULL)
				continue;
			sim_event("rctx%zu cancel recv", j);
			c.w_cancel_req = true;
			nng_aio_cancel(c.w->aio);
			c.w->wait(0);
			r_settle(w);
		}
	}
	for (auto &c : w.ctxs)
		if (c.w != NULL) {
			c.w_cancel_req = true;
			nng_aio_cancel(c.w->aio);
			c.w->wait(0);
		}
	r_settle(w);
	for (size_t j = 1; j < w.ctxs.size(); j++)
		MUST(nng_ctx_close(w.ctxs[j].ctx));
	for (size_t k = 0; k < w.xs.size(); k++) {
		w.rx[k]->stop();
		delete w.rx[k];
		MUST(nng_socket_close(w.xs[k]));
	}
	MUST(nng_socket_close(w.resp));
}

SCENARIO(c07_resp, "C07", net_cfg, resp_run);

// ===========================================================================
// c07_conc: concurrent.  Every surveyor context is driven by its own task, so
// "its most recent survey" is well defined without a global order; responses
// carry their own label (context, serial, send time), so the oracle is local.
// ===========================================================================
struct CWorld {
	nng_socket   surv;
	volatile int stop;
	int          total_delivered;
	long         max_delay_us;
	bool         rapid; // many short rounds: receives with 1-3 ms timeouts race the responses
	std::vector<uint64_t> planned; // per respondent task: when its next response goes out (ns), 0 unknown
};

struct CSurv {
	CWorld *w;
	int     idx;
	bool    is_sock;
	nng_ctx ctx;
	int     st_ms;
	int     rounds;
};

struct CResp {
	CWorld    *w;
	int        r;
	int        kind; // 0 cooked socket, 1 cooked context, 2 raw replayer
	nng_socket s;
	nng_ctx    ctx;
};

#define CBODY 28
static nng_msg *
mk_cresp(int ctx, uint32_t serial, int r, int flag)
{
	nng_msg *m = NULL;
	MUST(nng_msg_alloc(&m, CBODY));
	uint8_t *b = (uint8_t *) nng_msg_body(m);
	b[0]       = 'R';
	b[1]       = 'C';
	b[2]       = (uint8_t) (ctx >> 8);
	b[3]       = (uint8_t) ctx;
	wr32(b + 4, serial);
	b[8]  = (uint8_t) (r >> 8);
	b[9]  = (uint8_t) r;
	b[10] = (uint8_t) flag;
	b[11] = 0x5a;
	uint64_t t = sim_now_ns(), st = sim_stall_total_ns();
	wr32(b + 12, (uint32_t) (t >> 32));
	wr32(b + 16, (uint32_t) t);
	wr32(b + 20, (uint32_t) (st >> 32));
	wr32(b + 24, (uint32_t) st);
	return m;
}

static void
csurv_task(void *a)
{
	CSurv  *c = (CSurv *) a;
	CWorld *w = c->w;
	for (int round = 0; round < c->rounds; round++) {
		nng_msg *m = tag_msg((size_t) W(20, 40), (uint16_t) c->idx, SURVEY_STREAM, (uint32_t) round);
		if (m == NULL)
			h_fatal("tag_msg");
		uint64_t stall0 = sim_stall_total_ns();
		uint64_t t0     = sim_now_ms();
		int      rv     = c->is_sock ? nng_sendmsg(w->surv, m, 0) : nng_ctx_sendmsg(c->ctx, m, 0);
		uint64_t t1     = sim_now_ms();
		if (rv != 0)
			h_fatal("survey send failed: %s", nng_strerror((nng_err) rv));
		uint64_t d_lo = t0 + (uint64_t) c->st_ms, d_hi = t1 + (uint64_t) c->st_ms;
		bool     cancelled = false;
		sim_event("ctx%d survey #%d at %llu ms", c->idx, round, (unsigned long long) t0);
		int nrecv = w->rapid ? (int) W(1, 2) : (int) W(1, 6);
		for (int i = 0; i < nrecv; i++) {
			long tsel = W(0, 5);
			int  tmo  = tsel <= 2 ? -1 : tsel == 3 ? (int) W(1, c->st_ms) : (int) W(c->st_ms, 3 * c->st_ms);
			if (w->rapid && tsel != 0)
				tmo = (int) W(1, 3);
			else if (tsel == 5) {
				// own timeout that passes just as some response is due
				tmo = (int) W(1, c->st_ms);
				uint64_t now = sim_now_ns();
				for (uint64_t pl : w->planned)
					if (pl > now + 2 * MS && pl < now + (uint64_t) c->st_ms * MS) {
						tmo = (int) ((pl - now) / MS) - (int) W(0, 2);
						if (tmo < 1)
							tmo = 1;
						break;
					}
			}
			UAio u;
			uint64_t abs_at = 0; // the receive's own limit as an absolute time, when it was given as one
			nng_aio_set_timeout(u.aio, tmo < 0 ? NNG_DURATION_INFINITE : (nng_duration) tmo);
			if (!w->rapid && W(0, 5) == 5) {
				// the receive's own limit given as an absolute expiration (nng_aio_set_expire) that lies
				// around or beyond the survey's deadline; a short relative timeout is left in place
				int abs_ms = (int) W(c->st_ms / 2, 4 * c->st_ms);
				nng_aio_set_timeout(u.aio, (nng_duration) W(1, 20));
				abs_at = (uint64_t) nng_clock() + (uint64_t) abs_ms;
				nng_aio_set_expire(u.aio, (nng_time) abs_at);
				tmo = abs_ms;
				sim_probe("c07_recv_absolute_expiration");
			}
			uint64_t inv_ms = sim_now_ms();
			u.arm("surv_recv");
			if (c->is_sock)
				nng_socket_recv(w->surv, u.aio);
			else
				nng_ctx_recv(c->ctx, u.aio);
			while (u.wait(50 * MS) == (nng_err) -1) {
				uint64_t limit = (d_hi + 1) * MS + 50 * MS + (sim_stall_total_ns() - stall0);
				if (sim_now_ns() > limit + 50 * MS)
					VIOL("deadline_no_timeout",
					    "ctx %d: receive still pending %.3f ms after the deadline of survey #%d", c->idx,
					    (double) (sim_now_ns() - d_hi * MS) / 1e6, round);
			}
			rv               = u.result;
			uint64_t done_ms = u.t_done_ns / MS;
			if (rv == 0) {
				nng_msg *rm = nng_aio_get_msg(u.aio);
				uint8_t *b  = (uint8_t *) nng_msg_body(rm);
				size_t   n  = nng_msg_len(rm);
				if (n != CBODY || b[0] != 'R' || b[1] != 'C' || b[11] != 0x5a) {
					std::string hx = h_hex(b, n);
					nng_msg_free(rm);
					VIOL("bogus_response", "ctx %d received %s which is not a response anybody sent",
					    c->idx, hx.c_str());
				}
				int      rctx = (b[2] << 8) | b[3];
				uint32_t rser = rd32(b + 4);
				int      rr   = (b[8] << 8) | b[9];
				int      flag = b[10];
				uint64_t ts   = ((uint64_t) rd32(b + 12) << 32) | rd32(b + 16);
				uint64_t rst  = ((uint64_t) rd32(b + 20) << 32) | rd32(b + 24);
				nng_msg_free(rm);
				sim_event("ctx%d got response (ctx%d #%u from r%d flag %d)", c->idx, rctx, rser, rr, flag);
				if (rctx == 0xffff)
					VIOL("bogus_response",
					    "ctx %d received a response from r%d whose id was never the id of any survey",
					    c->idx, rr);
				if (rctx != c->idx)
					VIOL("foreign_response", "ctx %d received a response to survey #%u of ctx %d (from r%d)",
					    c->idx, rser, rctx, rr);
				if (rser != (uint32_t) round)
					VIOL("stale_response",
					    "ctx %d received a response to its earlier survey #%u; its most recent survey is #%d",
					    c->idx, rser, round);
				if (inv_ms > d_hi) // strictly after: the tie at the deadline itself is not judged
					VIOL("recv_after_deadline",
					    "ctx %d: receive invoked at %llu ms, after the deadline (<= %llu ms) of survey #%d, "
					    "returned a response",
					    c->idx, (unsigned long long) inv_ms, (unsigned long long) d_hi, round);
				uint64_t limit = (d_hi + 1) * MS + 20 * MS + (rst > stall0 ? rst - stall0 : 0);
				if (ts > limit)
					VIOL("late_response",
					    "ctx %d received a response its respondent r%d only sent %.3f ms after the deadline "
					    "of survey #%d",
					    c->idx, rr, (double) (ts - d_hi * MS) / 1e6, round);
				if (ts >= d_lo * MS)
					sim_probe("c07_delivered_in_deadline_window");
				if (flag)
					sim_probe("c07_replayed_current_id_delivered");
				if (tmo > 0 && done_ms >= inv_ms + (uint64_t) tmo)
					sim_probe("c07_recv_ok_after_own_timeout"); // see STALE_CANCEL
				w->total_delivered++;
				sim_stat("delivered", 1);
				continue;
			}
			sim_event("ctx%d recv(%d) -> %s at %llu ms", c->idx, tmo, ename(rv), (unsigned long long) done_ms);
			if (rv == NNG_ETIMEDOUT) {
				if (inv_ms > d_hi) // strictly after: the tie at the deadline itself is not judged
					VIOL("expired_survey_not_estate",
					    "ctx %d: receive invoked after the deadline failed NNG_ETIMEDOUT, not NNG_ESTATE", c->idx);
				uint64_t bound = d_lo;
				if (tmo >= 0)
					bound = std::min(bound, abs_at != 0 ? abs_at : inv_ms + (uint64_t) tmo);
				if (done_ms < bound)
					VIOL("recv_timeout_before_deadline",
					    "ctx %d: receive (timeout %d, invoked %llu ms) timed out at %llu ms, before the deadline "
					    "of survey #%d (>= %llu ms)",
					    c->idx, tmo, (unsigned long long) inv_ms, (unsigned long long) done_ms, round,
					    (unsigned long long) d_lo);
				uint64_t limit = (d_hi + 1) * MS + 50 * MS + (sim_stall_total_ns() - stall0);
				if (u.t_done_ns > limit && (tmo < 0 || inv_ms + (uint64_t) tmo > d_hi))
					VIOL("deadline_no_timeout",
					    "ctx %d: receive pending at the deadline of survey #%d completed %.3f ms after it",
					    c->idx, round, (double) (u.t_done_ns - d_hi * MS) / 1e6);
				if (done_ms >= d_lo) {
					sim_probe("c07_timeout_at_deadline");
					break;
				}
				sim_probe("c07_timeout_own");
				cancelled = true;
				continue;
			}
			if (rv == NNG_ESTATE) {
				if (done_ms < d_lo && !cancelled)
					VIOL("estate_with_live_survey",
					    "ctx %d: receive failed NNG_ESTATE at %llu ms although survey #%d is live until >= %llu ms",
					    c->idx, (unsigned long long) done_ms, round, (unsigned long long) d_lo);
				sim_probe(done_ms < d_lo ? "c07_estate_after_failed_recv" : "c07_estate_expired");
				break;
			}
			VIOL("recv_unexpected_error", "ctx %d: receive on a live survey failed with %s", c->idx, ename(rv));
		}
		if (W(0, 2) == 2)
			sim_sleep_ns((uint64_t) W(0, 3000) * 1000);
	}
}

static void
cresp_task(void *a)
{
	CResp  *r = (CResp *) a;
	CWorld *w = r->w;
	while (!w->stop) {
		UAio u;
		nng_aio_set_timeout(u.aio, 20);
		u.arm("resp_recv");
		if (r->kind == 0)
			nng_socket_recv(r->s, u.aio);
		else
			nng_ctx_recv(r->ctx, u.aio);
		u.wait(0);
		if (u.result != 0)
			continue;
		nng_msg *m = nng_aio_get_msg(u.aio);
		Tag      t = tag_parse((const uint8_t *) nng_msg_body(m), nng_msg_len(m));
		nng_msg_free(m);
		if (!t.ok || t.stream != SURVEY_STREAM)
			VIOL("altered_survey", "respondent %d received a survey nobody sent", r->r);
		if (W(0, 3) != 0) {
			uint64_t d = (uint64_t) W(0, w->max_delay_us) * 1000;
			w->planned[(size_t) r->r] = sim_now_ns() + d;
			sim_sleep_ns(d);
			w->planned[(size_t) r->r] = 0;
		}
		nng_msg *rm = mk_cresp((int) t.origin, t.serial, r->r, 0);
		int      rv = r->kind == 0 ? nng_sendmsg(r->s, rm, 0) : nng_ctx_sendmsg(r->ctx, rm, 0);
		if (rv != 0) {
			nng_msg_free(rm);
			if (rv == NNG_ESTATE)
				VIOL("resp_estate_with_survey",
				    "respondent %d received a survey and has not answered it, yet send failed NNG_ESTATE", r->r);
		}
	}
}

struct CSeen {
	uint32_t pipe, id;
	int      ctx;
	uint32_t serial;
};

static void
creplay_task(void *a)
{
	CResp  *r = (CResp *) a;
	CWorld *w = r->w;
	std::vector<CSeen> seen;
	while (!w->stop) {
		{
			UAio u;
			nng_aio_set_timeout(u.aio, 20);
			u.arm("raw_recv");
			nng_socket_recv(r->s, u.aio);
			u.wait(0);
			if (u.result == 0) {
				nng_msg *m = nng_aio_get_msg(u.aio);
				Tag      t = tag_parse((const uint8_t *) nng_msg_body(m), nng_msg_len(m));
				if (t.ok && t.stream == SURVEY_STREAM && nng_msg_header_len(m) >= 8) {
					const uint8_t *h = (const uint8_t *) nng_msg_header(m);
					CSeen          s;
					s.pipe   = rd32(h);
					s.id     = rd32(h + 4);
					s.ctx    = (int) t.origin;
					s.serial = t.serial;
					seen.push_back(s);
				}
				nng_msg_free(m);
			}
		}
		if (seen.empty())
			continue;
		int burst = (int) W(0, 2);
		for (int i = 0; i < burst; i++) {
			// recent ids mostly, any id sometimes
			size_t back = W(0, 2) == 2 ? (size_t) W(0, (long) seen.size() - 1)
			                           : (size_t) W(0, std::min<long>(3, (long) seen.size() - 1));
			CSeen    s   = seen[seen.size() - 1 - back];
			bool     bog = W(0, 7) == 7;
			nng_msg *rm  = mk_cresp(bog ? 0xffff : s.ctx, s.serial, r->r, 1);
			MUST(nng_msg_header_append_u32(rm, s.pipe));
			MUST(nng_msg_header_append_u32(rm, bog ? (s.id ^ 0x40000000u) : s.id));
			if (nng_sendmsg(r->s, rm, 0) != 0)
				nng_msg_free(rm);
			sim_stat("replayed", 1);
			if (W(0, 1))
				sim_sleep_ns((uint64_t) W(0, w->max_delay_us / 4) * 1000);
		}
	}
}

static void
conc_run(Params *p)
{
	CWorld w;
	w.stop            = 0;
	w.total_delivered = 0;
	// inproc/tcp/ipc only: with ws, closing while surveys are still queued in
	// the transport trips the allocator ledger (a message-ownership matter of
	// the ws transport, C03's business, not this property's)
	int tr   = (int) p->draw("tr", 0, 2);
	int nctx = (int) p->draw("nctx", 0, 3);
	int nrd  = (int) p->draw("nresp", 0, 3) + 1;
	static const int STS[] = { 40, 15, 100, 250 };
	int st0 = STS[W(0, 3)];
	w.max_delay_us = (long) st0 * 1000 * 3 / 2;
	w.rapid        = p->draw("rapid", 0, 3) == 3;
	long net       = p->has("net") ? p->i("net", 0) : (p->drawn.count("net") ? p->drawn["net"] : 0);
	int  rapid_hi  = net == 3 && tr != TR_INPROC ? 8 : 20; // byte-at-a-time streams cost ~10x the steps
	if (w.rapid) {
		w.max_delay_us = 4000;
		nctx           = std::min(nctx, 1);
	}
	MUST(nng_surveyor0_open(&w.surv));
	MUST(nng_socket_set_ms(w.surv, NNG_OPT_SURVEYOR_SURVEYTIME, st0));
	std::vector<CSurv> sv((size_t) nctx + 1);
	for (size_t i = 0; i < sv.size(); i++) {
		sv[i].w       = &w;
		sv[i].idx     = (int) i;
		sv[i].is_sock = i == 0;
		sv[i].rounds  = w.rapid ? (int) W(6, rapid_hi) : (int) W(1, 6);
		nng_duration d = 0;
		if (i > 0) {
			MUST(nng_ctx_open(&sv[i].ctx, w.surv));
			if (W(0, 2) == 2)
				MUST(nng_ctx_set_ms(sv[i].ctx, NNG_OPT_SURVEYOR_SURVEYTIME, STS[W(0, 3)]));
			MUST(nng_ctx_get_ms(sv[i].ctx, NNG_OPT_SURVEYOR_SURVEYTIME, &d));
		} else {
			MUST(nng_socket_get_ms(w.surv, NNG_OPT_SURVEYOR_SURVEYTIME, &d));
		}
		sv[i].st_ms = (int) d;
	}
	std::string url = h_url(tr, 9);
	MUST(nng_listen(w.surv, url.c_str(), NULL, 0));
	std::vector<CResp>      rs;
	std::vector<nng_socket> socks;
	for (int i = 0; i < nrd; i++) {
		nng_socket s;
		long       k = W(0, 3);
		if (k == 3) {
			MUST(nng_respondent0_open_raw(&s));
		} else {
			MUST(nng_respondent0_open(&s));
		}
		MUST(nng_socket_set_ms(s, NNG_OPT_SENDTIMEO, 500));
		MUST(nng_dial(s, url.c_str(), NULL, 0));
		socks.push_back(s);
		CResp r;
		r.w    = &w;
		r.r    = (int) rs.size();
		r.s    = s;
		r.kind = k == 3 ? 2 : 0;
		rs.push_back(r);
		if (k == 1 || k == 2) { // extra contexts on a cooked respondent
			for (long j = 0; j < k; j++) {
				CResp rc = r;
				rc.r     = (int) rs.size();
				rc.kind  = 1;
				MUST(nng_ctx_open(&rc.ctx, s));
				rs.push_back(rc);
			}
		}
	}
	w.planned.assign(rs.size(), 0);
	sim_quiesce(20 * MS);
	sim_event("c07_conc tr=%s ctxs=%d respondent tasks=%zu surveytime=%d", h_tr_name(tr), nctx + 1, rs.size(),
	    st0);
	std::vector<int> tids;
	for (auto &r : rs)
		sim_spawn(r.kind == 2 ? "replay" : "resp", r.kind == 2 ? creplay_task : cresp_task, &r, 0);
	for (auto &c : sv)
		tids.push_back(sim_spawn("surv", csurv_task, &c, 0));
	for (int t : tids)
		sim_join(t);
	w.stop = 1;
	sim_join_all();
	if (w.total_delivered > 0)
		sim_stat("nontrivial", 1);
	for (auto &r : rs)
		if (r.kind == 1)
			MUST(nng_ctx_close(r.ctx));
	for (size_t i = 1; i < sv.size(); i++)
		MUST(nng_ctx_close(sv[i].ctx));
	for (auto s : socks)
		MUST(nng_socket_close(s));
	MUST(nng_socket_close(w.surv));
}

SCENARIO(c07_conc, "C07", net_cfg, conc_run);

} // namespace
