// C13 (second file): fan-out in front of / behind devices.
//
// The scenarios of c13_device.cc send every message down ONE path.  Here one
// sender is attached to two or more raw receivers at once -- the state in
// which a transport that hands the same message object to several receivers,
// or a raw socket that edits "its" message in place (raw BUS appends the pipe
// id to the header, raw RESPONDENT moves the backtrace from the body to the
// header), damages what the device behind it forwards.
//
//   c13_fansurv  one or two surveyors in front of 2..4 respondents:
//                directly, each respondent behind its own device
//                (raw RESPONDENT / raw SURVEYOR), all of them behind one
//                device, or a mix.  The surveyor is cooked, or raw with the
//                survey id (and optionally a few earlier hops of backtrace)
//                in the message header, at the front of the body with an
//                empty header (both are the same bytes on a wire), or split
//                between the two.  inproc, tcp, ipc, abstract.
//   c13_fanbus   cooked BUS nodes attached to two or three BUS devices at once
//                (reflector: one raw socket; bridge: two raw sockets), more
//                cooked nodes on single devices.
//
// Oracle -> phrase of the C13 statement
//   altered_body          "forwards each message it accepts with an unchanged
//                         body": every body a respondent / a surveyor / a bus
//                         node receives is compared byte for byte with the body
//                         that was sent under the identity it carries
//                         (direct links are judged the same way: the clause
//                         "returns to exactly the original ... surveyor" needs
//                         the survey to arrive as sent at the far end)
//   misrouted_reply       "every reply or response returns to exactly the
//                         original requester or surveyor"
//   backtrace_not_unwound "extends and unwinds the routing backtrace": a raw
//                         surveyor gets back exactly the backtrace it sent
//   response_lost         "every ... response returns to ... the original ...
//                         surveyor through any chain of devices": demanded
//                         only under the conditions c13_chain uses (one
//                         surveyor, at most 2 responses in flight on any raw
//                         RESPONDENT pipe, 3 s of stall-free virtual time)
// Counted only (sim_probe), never asserted: a BUS message that comes back to
// its sender (C09's clause, not C13's), duplicates over two paths, loss on
// BUS (best effort), stale and duplicate responses.
// No hop limit is reached here: at most 1 device + 3 words of backtrace,
// every MAXTTL is left at its default of 8.
#include "../harness/util.h"

#include <map>
#include <set>

namespace {

// ---------------------------------------------------------------- payloads ---
// body = pure function of (origin, stream, serial, len), len >= 6:
//   origin|flag  stream  serial  len_hi len_lo  check  filler...
// flag (0x80 of the first byte) is drawn by the sender: a receiver that
// wrongly takes payload for backtrace sees both kinds of first byte
struct Pay {
	bool     ok;
	int      origin, stream;
	uint32_t serial;
};

static std::string
pay_make(size_t len, int origin, int stream, uint32_t serial, bool flag)
{
	std::string b(len, '\0');
	uint8_t    *u = (uint8_t *) &b[0];
	u[0]          = (uint8_t) ((origin & 0x7f) | (flag ? 0x80 : 0));
	u[1]          = (uint8_t) stream;
	u[2]          = (uint8_t) serial;
	u[3]          = (uint8_t) (len >> 8);
	u[4]          = (uint8_t) len;
	u[5]          = (uint8_t) ((u[0] * 7 + u[1] * 13 + u[2] * 17 + u[3] * 19 + u[4] * 23) ^ 0xA5);
	uint32_t x    = ((uint32_t) u[0] << 24) ^ ((uint32_t) u[1] << 16) ^ ((uint32_t) u[2] << 8) ^ (uint32_t) len ^ 0x9E3779B9u;
	for (size_t i = 6; i < len; i++) {
		x    = x * 1664525u + 1013904223u;
		u[i] = (uint8_t) (x >> 24);
	}
	return b;
}

static Pay
pay_parse(const void *p, size_t len)
{
	Pay r;
	memset(&r, 0, sizeof(r));
	const uint8_t *u = (const uint8_t *) p;
	if (len < 6)
		return r;
	r.origin       = u[0] & 0x7f;
	r.stream       = u[1];
	r.serial       = u[2];
	std::string rf = pay_make(len, r.origin, r.stream, r.serial, (u[0] & 0x80) != 0);
	r.ok           = memcmp(rf.data(), u, len) == 0;
	return r;
}

static nng_msg *
msg_from(const std::string &body)
{
	nng_msg *m = NULL;
	MUST(nng_msg_alloc(&m, 0));
	if (!body.empty())
		MUST(nng_msg_append(m, body.data(), body.size()));
	return m;
}

static std::string
hexs(const void *p, size_t n)
{
	return h_hex((const uint8_t *) p, n, 96);
}
static std::string
hexs(const std::string &s)
{
	return h_hex((const uint8_t *) s.data(), s.size(), 96);
}

static std::string
be32(uint32_t v)
{
	std::string s(4, '\0');
	s[0] = (char) (v >> 24);
	s[1] = (char) (v >> 16);
	s[2] = (char) (v >> 8);
	s[3] = (char) v;
	return s;
}

// a harness task that sits in an infinite-timeout receive and is stopped by
// cancelling that receive (repeatedly, until the task says it is gone)
struct Stoppable {
	UAio         u;
	volatile int stop;
	volatile int done;
	Stoppable() : stop(0), done(0) {}
};
static void
stop_task(Stoppable *t)
{
	t->stop = 1;
	while (!t->done) {
		nng_aio_cancel(t->u.aio);
		sim_sleep_ms(1);
	}
}
static nng_msg *
stoppable_recv(Stoppable *t, nng_socket s, const char *what)
{
	for (;;) {
		if (t->stop)
			return NULL;
		nng_aio_set_timeout(t->u.aio, NNG_DURATION_INFINITE);
		t->u.arm(what);
		nng_socket_recv(s, t->u.aio);
		t->u.wait(0);
		if (t->u.result == 0)
			return nng_aio_get_msg(t->u.aio);
		if (t->stop || t->u.result == NNG_ECLOSED)
			return NULL;
		sim_sleep_ms(1);
	}
}

// ------------------------------------------------------------- transports ---
static int g_net_links_left;
static int g_net_tr; // trmode 3: the one network transport of this run

// trmode 0,1: inproc only; 2: mostly inproc, some links on a network
// transport; 3: every link on one network transport (while the budget lasts)
static int
pick_tr(long trmode)
{
	static const int some[] = { TR_TCP, TR_IPC, TR_ABSTRACT };
	int              tr     = TR_INPROC;
	if (trmode == 2)
		tr = W(0, 2) == 0 ? some[W(0, 2)] : TR_INPROC;
	else if (trmode == 3)
		tr = g_net_tr;
	if (tr != TR_INPROC) {
		if (g_net_links_left <= 0)
			return TR_INPROC;
		g_net_links_left--;
		sim_probe("c13_fan_net_link");
	}
	return tr;
}

struct Link {
	nng_socket up, down;
	int        tr;
	bool       down_listens;
};

static void
wire_links(std::vector<Link> &links, int url_base)
{
	for (size_t i = 0; i < links.size(); i++) {
		std::string url = h_url(links[i].tr, url_base + (int) i);
		MUST(nng_listen(links[i].down_listens ? links[i].down : links[i].up, url.c_str(), NULL, 0));
	}
	for (size_t i = 0; i < links.size(); i++) {
		std::string url = h_url(links[i].tr, url_base + (int) i);
		MUST(nng_dial(links[i].down_listens ? links[i].up : links[i].down, url.c_str(), NULL, 0));
	}
}

struct Dev {
	nng_socket front, back; // back == front: reflector
	bool       one;
	UAio      *aio;
};

static void
dev_start(Dev &d)
{
	d.aio = new UAio();
	d.aio->arm("device");
	if (d.one) {
		nng_socket none = NNG_SOCKET_INITIALIZER;
		long       how  = W(0, 2);
		if (how == 0)
			nng_device_aio(d.aio->aio, d.front, d.front);
		else if (how == 1)
			nng_device_aio(d.aio->aio, d.front, none);
		else
			nng_device_aio(d.aio->aio, none, d.front);
	} else if (W(0, 1)) {
		nng_device_aio(d.aio->aio, d.front, d.back);
	} else {
		nng_device_aio(d.aio->aio, d.back, d.front);
	}
}
static void
dev_check_running(Dev &d, int i)
{
	if (d.aio->poll())
		h_fatal("device %d stopped right after start: %d (%s)", i, d.aio->result, nng_strerror(d.aio->result));
}
static void
dev_stop(Dev &d)
{
	nng_aio_cancel(d.aio->aio);
	if (d.aio->wait(20000000000ull) == (nng_err) -1)
		h_fatal("device aio did not complete after cancel");
	delete d.aio;
	d.aio = NULL;
	// the device closes its sockets when it stops; be tolerant either way
	(void) nng_socket_close(d.front);
	if (!d.one)
		(void) nng_socket_close(d.back);
}

static void
fan_cfg(sim_config *cfg, Params *p)
{
	// as c13_device.cc: every byte on a network link costs scheduling points
	long net    = p->draw("net", 0, 3);
	long maxlen = 3000, maxnet = 1000;
	if (net == 1) {
		cfg->seg_mode = 3;
		maxlen        = 1200;
		maxnet        = 6;
	} else if (net == 2) {
		cfg->seg_mode   = 2;
		cfg->seg_k      = 7;
		cfg->lat_min_ns = 10000;
		cfg->lat_max_ns = 2000000;
		maxlen          = 200;
		maxnet          = 4;
	} else if (net == 3) {
		cfg->seg_mode = 1;
		cfg->eagain_p = 0.05;
		maxlen        = 64;
		maxnet        = 3;
	}
	p->set("c13_maxlen", maxlen);
	p->set("c13_maxnet", maxnet);
}

static size_t
draw_len(size_t maxlen)
{
	size_t len;
	long   lk = W(0, 7);
	if (lk <= 3)
		len = (size_t) W(20, 120);
	else if (lk <= 5)
		len = (size_t) W(6, 19);
	else if (lk == 6)
		len = (size_t) W(1000, 3000);
	else
		len = 20;
	return len > maxlen ? maxlen : len;
}

// ======================================================================
// c13_fansurv
// ======================================================================
#define FS_TMO_MS 3000

enum { SK_RAW_BODY = 0, SK_RAW_HDR = 1, SK_COOKED = 2, SK_RAW_SPLIT = 3 };

struct Fan;
struct Surveyor {
	Fan                     *f;
	int                      idx;
	int                      kind;
	int                      pre; // words of earlier hops in front of the survey id (raw only)
	nng_socket               s;
	int                      nmsg;
	int                      answers;
	std::vector<std::string> sent; // by serial
};
struct Respondent {
	Fan       *f;
	int        idx;
	bool       raw;
	nng_socket s;
	Stoppable  st;
	int        delivered;
	std::map<uint32_t, std::string> answered; // origin<<8|serial -> body of the (last) response
};
struct Fan {
	size_t                    maxlen;
	bool                      demand; // responses may be demanded
	std::vector<Dev>          devs;
	std::vector<Surveyor *>   survs;
	std::vector<Respondent *> resps;
};

static void
fan_respondent(void *a)
{
	Respondent *q = (Respondent *) a;
	Fan        *f = q->f;
	for (;;) {
		nng_msg *m = stoppable_recv(&q->st, q->s, "respondent_recv");
		if (m == NULL)
			break;
		size_t len = nng_msg_len(m);
		Pay    pl  = pay_parse(nng_msg_body(m), len);
		if (!pl.ok || pl.stream != 0 || pl.origin >= (int) f->survs.size() ||
		    pl.serial >= f->survs[(size_t) pl.origin]->sent.size() ||
		    f->survs[(size_t) pl.origin]->sent[pl.serial] != std::string((const char *) nng_msg_body(m), len))
			VIOL("altered_body", "respondent %d (%s) received a survey body nobody sent (%zu bytes): %s", q->idx,
			    q->raw ? "raw" : "cooked", len, hexs(nng_msg_body(m), len).c_str());
		sim_event("respondent %d got survey origin=%d serial=%u len=%zu", q->idx, pl.origin, pl.serial, len);
		q->delivered++;
		std::string rb = pay_make(draw_len(f->maxlen), pl.origin, 1 + q->idx, pl.serial, W(0, 1) != 0);
		q->answered[((uint32_t) pl.origin << 8) | pl.serial] = rb;
		nng_msg *rep;
		if (q->raw) {
			// answer in place: the header (pipe id + backtrace) stays, new body
			rep = m;
			nng_msg_clear(rep);
			MUST(nng_msg_append(rep, rb.data(), rb.size()));
		} else {
			nng_msg_free(m);
			rep = msg_from(rb);
		}
		int rv = nng_sendmsg(q->s, rep, 0);
		if (rv != 0) {
			nng_msg_free(rep);
			sim_event("respondent %d send failed %d", q->idx, rv);
			sim_probe("c13_fan_respondent_send_failed");
		}
	}
	q->st.done = 1;
}

// as c13_chain: wait until FS_TMO_MS of stall-free virtual time have passed
static int
surv_wait(nng_socket s, nng_msg **mp, bool *too_stalled)
{
	uint64_t eff = 0;
	int      rv  = 0;
	*too_stalled = false;
	for (int tries = 0; tries < 40; tries++) {
		uint64_t t0 = sim_now_ns(), s0 = sim_stall_total_ns();
		rv = nng_recvmsg(s, mp, 0);
		if (rv == 0)
			return 0;
		uint64_t dt = sim_now_ns() - t0, ds = sim_stall_total_ns() - s0;
		if (rv != NNG_ETIMEDOUT)
			return rv;
		eff += dt > ds ? dt - ds : 0;
		if (eff >= (uint64_t) FS_TMO_MS * 900000ull)
			return rv;
		sim_probe("c13_wait_extended_for_stalls");
	}
	*too_stalled = true;
	return rv;
}

static void
fan_surveyor(void *a)
{
	Surveyor *r    = (Surveyor *) a;
	Fan      *f    = r->f;
	size_t    nrep = f->resps.size();
	for (int i = 0; i < r->nmsg; i++) {
		std::string body = pay_make(draw_len(f->maxlen), r->idx, 0, (uint32_t) i, W(0, 1) != 0);
		r->sent.push_back(body);
		// backtrace: 'pre' words of earlier hops (high bit clear), then the id
		std::string bt;
		for (int k = 0; k < r->pre; k++)
			bt += be32(0x00100000u | ((uint32_t) (k + 1) << 8) | (uint32_t) W(0, 255));
		bt += be32(0x80000000u | ((uint32_t) r->idx << 20) | (uint32_t) i);
		nng_msg *m;
		switch (r->kind) {
		case SK_COOKED:
			m = msg_from(body);
			break;
		case SK_RAW_HDR:
			m = msg_from(body);
			MUST(nng_msg_header_append(m, bt.data(), bt.size()));
			break;
		case SK_RAW_SPLIT: // earlier hops in the header, the id at the front of the body
			m = msg_from(bt.substr(bt.size() - 4) + body);
			MUST(nng_msg_header_append(m, bt.data(), bt.size() - 4));
			break;
		default: // everything at the front of the body, no header
			m = msg_from(bt + body);
			break;
		}
		sim_event("surveyor %d (kind %d, %d earlier hops) send serial=%d len=%zu", r->idx, r->kind, r->pre, i,
		    body.size());
		MUST(nng_sendmsg(r->s, m, 0));
		std::set<int> from;
		bool          stalled_wait = false;
		while (from.size() < nrep) {
			nng_msg *rm          = NULL;
			bool     too_stalled = false;
			int      rv          = surv_wait(r->s, &rm, &too_stalled);
			if (rv != 0) {
				stalled_wait = too_stalled;
				break;
			}
			size_t rl = nng_msg_len(rm);
			Pay    pl = pay_parse(nng_msg_body(rm), rl);
			if (!pl.ok || pl.stream < 1 || pl.stream > (int) nrep)
				VIOL("altered_body", "surveyor %d received a body no respondent sent (%zu bytes): %s", r->idx,
				    rl, hexs(nng_msg_body(rm), rl).c_str());
			if (pl.origin != r->idx)
				VIOL("misrouted_reply", "surveyor %d received the response to surveyor %d's survey %u",
				    r->idx, pl.origin, pl.serial);
			Respondent *q  = f->resps[(size_t) pl.stream - 1];
			auto        it = q->answered.find(((uint32_t) pl.origin << 8) | pl.serial);
			if (it == q->answered.end() || it->second != std::string((const char *) nng_msg_body(rm), rl))
				VIOL("altered_body",
				    "surveyor %d received a response that respondent %d did not send (%zu bytes): %s", r->idx,
				    q->idx, rl, hexs(nng_msg_body(rm), rl).c_str());
			if (r->kind != SK_COOKED) {
				std::string h((const char *) nng_msg_header(rm), nng_msg_header_len(rm));
				// a response to an earlier survey carries that survey's id
				std::string want = bt.substr(0, bt.size() - 4) +
				    be32(0x80000000u | ((uint32_t) r->idx << 20) | pl.serial);
				if (h != want)
					VIOL("backtrace_not_unwound",
					    "raw surveyor %d received a response whose header is %s (it sent the "
					    "backtrace %s)",
					    r->idx, hexs(h).c_str(), hexs(want).c_str());
			}
			nng_msg_free(rm);
			if (pl.serial != (uint32_t) i) {
				sim_probe("c13_stale_reply");
				continue;
			}
			if (!from.insert(q->idx).second)
				sim_probe("c13_duplicate_answer");
			r->answers++;
			sim_event("surveyor %d got response serial=%d from respondent %d", r->idx, i, q->idx);
			sim_stat("nontrivial", 1);
		}
		if (from.size() < nrep && !f->demand) {
			sim_probe("c13_best_effort_response_drop");
			continue;
		}
		if (from.size() < nrep && stalled_wait)
			sim_inconclusive("surveyor wait dominated by injected stalls");
		if (from.size() < nrep)
			VIOL("response_lost",
			    "surveyor %d survey %d: %zu response(s) within %d ms, %zu respondents are connected (at most "
			    "one device on the way, no hop limit in reach)",
			    r->idx, i, from.size(), FS_TMO_MS, nrep);
	}
}

static void
fansurv_run(Params *p)
{
	Fan f;
	f.maxlen         = (size_t) p->i("c13_maxlen", 3000);
	g_net_links_left = (int) p->i("c13_maxnet", 1000);
	long kind        = p->draw("kind", 0, 3);
	long topo        = p->draw("topo", 0, 3);
	long trmode      = p->draw("trmode", 0, 3);
	{
		static const int nets[] = { TR_TCP, TR_IPC, TR_ABSTRACT };
		g_net_tr                = nets[W(0, 2)];
	}
	int nresp = 2 + (int) W(0, 2);
	int nsurv = W(0, 3) == 0 ? 2 : 1;

	// branches: a respondent the surveyors reach directly, or a device with
	// one or more respondents behind it
	struct Branch {
		bool             dev;
		std::vector<int> resp;
	};
	std::vector<Branch> br;
	if (topo == 0 || topo == 1) {
		for (int i = 0; i < nresp; i++)
			br.push_back(Branch{ topo == 1, { i } });
	} else if (topo == 2) {
		Branch b{ true, {} };
		for (int i = 0; i < nresp; i++)
			b.resp.push_back(i);
		br.push_back(b);
	} else {
		for (int i = 0; i < nresp;) {
			Branch b{ W(0, 1) != 0, { i++ } };
			if (b.dev && i < nresp && !br.empty() && W(0, 1))
				b.resp.push_back(i++);
			br.push_back(b);
		}
	}
	f.demand = nsurv == 1;
	for (auto &b : br)
		if (b.resp.size() > 2)
			f.demand = false; // 3+ responses in a burst on one raw RESPONDENT pipe (queue of 2)

	for (int i = 0; i < nresp; i++) {
		Respondent *q = new Respondent();
		q->f          = &f;
		q->idx        = i;
		q->raw        = W(0, 2) == 0;
		q->delivered  = 0;
		MUST(q->raw ? nng_respondent0_open_raw(&q->s) : nng_respondent0_open(&q->s));
		MUST(nng_socket_set_ms(q->s, NNG_OPT_SENDTIMEO, 5000));
		f.resps.push_back(q);
	}
	for (int i = 0; i < nsurv; i++) {
		Surveyor *r = new Surveyor();
		r->f        = &f;
		r->idx      = i;
		r->kind     = i == 0 ? (int) kind : (int) W(0, 3);
		r->pre      = r->kind != SK_COOKED && W(0, 2) == 0 ? 1 + (int) W(0, 1) : 0;
		if (r->kind == SK_RAW_SPLIT && r->pre == 0)
			r->pre = 1;
		if (r->kind == SK_COOKED)
			r->pre = 0;
		r->nmsg    = 1 + (int) W(0, 4);
		r->answers = 0;
		MUST(r->kind == SK_COOKED ? nng_surveyor0_open(&r->s) : nng_surveyor0_open_raw(&r->s));
		MUST(nng_socket_set_ms(r->s, NNG_OPT_RECVTIMEO, FS_TMO_MS));
		MUST(nng_socket_set_ms(r->s, NNG_OPT_SENDTIMEO, 5000));
		if (r->kind == SK_COOKED)
			MUST(nng_socket_set_ms(r->s, NNG_OPT_SURVEYOR_SURVEYTIME, 40 * FS_TMO_MS));
		f.survs.push_back(r);
	}
	std::vector<Link> links;
	auto add = [&](nng_socket up, nng_socket down) {
		Link l;
		l.up           = up;
		l.down         = down;
		l.tr           = pick_tr(trmode);
		l.down_listens = W(0, 1) == 0;
		links.push_back(l);
	};
	std::string shape;
	for (auto &b : br) {
		if (b.dev) {
			Dev d;
			d.one = false;
			d.aio = NULL;
			MUST(nng_respondent0_open_raw(&d.front));
			MUST(nng_surveyor0_open_raw(&d.back));
			for (auto r : f.survs)
				add(r->s, d.front);
			for (int i : b.resp)
				add(d.back, f.resps[(size_t) i]->s);
			f.devs.push_back(d);
			shape += " dev(" + std::to_string(b.resp.size()) + ")";
		} else {
			for (auto r : f.survs)
				add(r->s, f.resps[(size_t) b.resp[0]]->s);
			shape += " direct";
		}
	}
	int ninproc = 0;
	for (auto &l : links)
		if (l.tr == TR_INPROC)
			ninproc++;
	sim_event("c13_fansurv kind0=%ld surveyors=%d respondents=%d branches:%s links=%zu (inproc %d)", kind, nsurv,
	    nresp, shape.c_str(), links.size(), ninproc);
	if (br.size() >= 2 && kind == SK_RAW_BODY)
		sim_probe("c13_fan_headerless_survey_to_many");
	wire_links(links, 500);
	sim_quiesce(20000000);
	for (auto &d : f.devs)
		dev_start(d);
	sim_quiesce(2000000);
	for (size_t i = 0; i < f.devs.size(); i++)
		dev_check_running(f.devs[i], (int) i);

	std::vector<int> rt;
	for (auto q : f.resps)
		sim_spawn("respondent", fan_respondent, q, 0);
	for (auto r : f.survs)
		rt.push_back(sim_spawn("surveyor", fan_surveyor, r, 0));
	for (int t : rt)
		sim_join(t);
	for (auto q : f.resps)
		stop_task(&q->st);
	sim_join_all();
	int total = 0;
	for (auto r : f.survs)
		total += r->answers;
	sim_stat("answers", total);
	for (auto &d : f.devs)
		dev_stop(d);
	for (auto r : f.survs) {
		MUST(nng_socket_close(r->s));
		delete r;
	}
	for (auto q : f.resps) {
		MUST(nng_socket_close(q->s));
		delete q;
	}
}

SCENARIO(c13_fansurv, "C13", fan_cfg, fansurv_run);

// ======================================================================
// c13_fanbus
// ======================================================================
struct BusNet;
struct Node {
	BusNet                  *g;
	int                      idx;
	nng_socket               s;
	int                      nhubs; // devices it is attached to
	int                      nsend;
	std::vector<std::string> sent; // by serial
	int                      received, echoes;
	std::set<uint32_t>       got;
};
struct BusNet {
	size_t              maxlen;
	std::vector<Node *> nodes;
};

static void
bus_burst(void *a)
{
	Node *n = (Node *) a;
	for (int i = 0; i < n->nsend; i++) {
		uint32_t    serial = (uint32_t) n->sent.size();
		std::string body   = pay_make(draw_len(n->g->maxlen), n->idx, 9, serial, W(0, 1) != 0);
		n->sent.push_back(body);
		nng_msg *m  = msg_from(body);
		int      rv = nng_sendmsg(n->s, m, 0);
		if (rv != 0) {
			nng_msg_free(m);
			sim_probe("c13_fan_bus_send_failed");
		}
		if (W(0, 3) == 0)
			sim_sleep_ns((uint64_t) W(0, 400) * 1000);
	}
}

static int
bus_drain(Node *n)
{
	BusNet *g   = n->g;
	int     cnt = 0;
	for (;;) {
		nng_msg *m = NULL;
		if (nng_recvmsg(n->s, &m, NNG_FLAG_NONBLOCK) != 0)
			break;
		size_t len = nng_msg_len(m);
		Pay    pl  = pay_parse(nng_msg_body(m), len);
		if (!pl.ok || pl.stream != 9 || pl.origin >= (int) g->nodes.size() ||
		    pl.serial >= g->nodes[(size_t) pl.origin]->sent.size() ||
		    g->nodes[(size_t) pl.origin]->sent[pl.serial] != std::string((const char *) nng_msg_body(m), len))
			VIOL("altered_body", "bus node %d received through a device a body nobody sent (%zu bytes): %s",
			    n->idx, len, hexs(nng_msg_body(m), len).c_str());
		nng_msg_free(m);
		if (pl.origin == n->idx) {
			n->echoes++;
			sim_probe("c13_fan_bus_came_back_to_sender");
		}
		if (!n->got.insert(((uint32_t) pl.origin << 8) | pl.serial).second)
			sim_probe("c13_fan_bus_second_path");
		n->received++;
		cnt++;
	}
	return cnt;
}

static void
fanbus_run(Params *p)
{
	BusNet g;
	g.maxlen         = (size_t) p->i("c13_maxlen", 3000);
	g_net_links_left = (int) p->i("c13_maxnet", 1000);
	long trmode      = p->draw("trmode", 0, 3);
	long bridge      = p->draw("bridge", 0, 2); // 0 reflectors, 1 bridges, 2 mixed
	{
		static const int nets[] = { TR_TCP, TR_IPC, TR_ABSTRACT };
		g_net_tr                = nets[W(0, 2)];
	}
	int              nh = W(0, 3) == 0 ? 3 : 2;
	std::vector<Dev> hubs((size_t) nh);
	std::string      shape;
	for (auto &d : hubs) {
		d.one = bridge == 0 || (bridge == 2 && W(0, 1) == 0);
		d.aio = NULL;
		MUST(nng_bus0_open_raw(&d.front));
		MUST(nng_socket_set_int(d.front, NNG_OPT_RECVBUF, (int) W(8, 64)));
		MUST(nng_socket_set_int(d.front, NNG_OPT_SENDBUF, (int) W(8, 64)));
		if (d.one) {
			d.back = d.front;
		} else {
			MUST(nng_bus0_open_raw(&d.back));
			MUST(nng_socket_set_int(d.back, NNG_OPT_RECVBUF, (int) W(8, 64)));
			MUST(nng_socket_set_int(d.back, NNG_OPT_SENDBUF, (int) W(8, 64)));
		}
		shape += d.one ? " reflector" : " bridge";
	}
	std::vector<Link> links;
	auto add = [&](nng_socket up, nng_socket down) {
		Link l;
		l.up           = up;
		l.down         = down;
		l.tr           = pick_tr(trmode);
		l.down_listens = W(0, 1) == 0;
		links.push_back(l);
	};
	auto new_node = [&]() {
		Node *n     = new Node();
		n->g        = &g;
		n->idx      = (int) g.nodes.size();
		n->nhubs    = 0;
		n->nsend    = 0;
		n->received = n->echoes = 0;
		MUST(nng_bus0_open(&n->s));
		MUST(nng_socket_set_int(n->s, NNG_OPT_RECVBUF, 512));
		MUST(nng_socket_set_int(n->s, NNG_OPT_SENDBUF, 64));
		g.nodes.push_back(n);
		return n;
	};
	// core nodes: attached to every device (the front side of a bridge)
	int ncore = W(0, 2) == 0 ? 2 : 1;
	for (int i = 0; i < ncore; i++) {
		Node *n = new_node();
		for (auto &d : hubs) {
			add(n->s, d.front);
			n->nhubs++;
		}
	}
	// leaves: on one device each (the back side of a bridge)
	int nleaf = 0;
	for (auto &d : hubs) {
		int k = (int) W(0, 2);
		for (int i = 0; i < k; i++, nleaf++) {
			Node *n = new_node();
			add(n->s, d.back);
			n->nhubs = 1;
		}
	}
	if (ncore + nleaf < 2) { // somebody has to listen
		Node *n = new_node();
		add(n->s, hubs[0].back);
		n->nhubs = 1;
	}
	int ninproc = 0;
	for (auto &l : links)
		if (l.tr == TR_INPROC)
			ninproc++;
	sim_event("c13_fanbus devices:%s core=%d nodes=%zu links=%zu (inproc %d)", shape.c_str(), ncore, g.nodes.size(),
	    links.size(), ninproc);
	wire_links(links, 600);
	sim_quiesce(20000000);
	for (auto &d : hubs)
		dev_start(d);
	sim_quiesce(2000000);
	for (size_t i = 0; i < hubs.size(); i++)
		dev_check_running(hubs[i], (int) i);

	int rounds = 1 + (int) W(0, 2);
	for (int r = 0; r < rounds; r++) {
		// the core nodes always talk (they are the fan-out), leaves sometimes
		std::vector<Node *> talk;
		for (auto n : g.nodes)
			if (n->nhubs > 1 || W(0, 2) == 0)
				talk.push_back(n);
		for (auto n : talk)
			n->nsend = 1 + (int) W(0, 7);
		if (talk.size() == 1 || W(0, 3) == 0) {
			for (auto n : talk)
				bus_burst(n);
		} else {
			for (auto n : talk)
				sim_spawn("burst", bus_burst, n, 0);
			sim_join_all();
		}
		for (int idle = 0; idle < 3;) {
			sim_quiesce(5000000);
			int c = 0;
			for (auto n : g.nodes)
				c += bus_drain(n);
			idle = c ? 0 : idle + 1;
		}
	}
	int recvd = 0, sent = 0;
	for (auto n : g.nodes) {
		recvd += n->received;
		sent += (int) n->sent.size();
	}
	sim_stat("forwarded", recvd);
	if (recvd > 0)
		sim_stat("nontrivial", 1);
	else
		sim_event("nothing arrived out of %d sent", sent);
	for (auto &d : hubs)
		dev_stop(d);
	for (auto n : g.nodes) {
		MUST(nng_socket_close(n->s));
		delete n;
	}
}

SCENARIO(c13_fanbus, "C13", fan_cfg, fanbus_run);

} // namespace
