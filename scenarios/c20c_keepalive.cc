// C20, third file: an allocation failure on a KEEP-ALIVE HTTP connection that
// carries requests with bodies.
//
// c20_http (c20_alloc.cc) makes one transaction per connection, so whatever an
// allocation failure leaves behind on the server's side of a connection is
// thrown away with the connection.  Here one HTTP/1.1 connection carries four
// requests, one after the other (never pipelined: a request is written only
// after the response to the one before has been read completely):
//
//     0  POST /a   body B0      1  GET /a
//     2  PUT  /b   body B2      3  GET /b
//
// /a and /b are nng_http_handler_alloc handlers for every method; they collect
// the request body (the default) and answer 200 with a body that names the
// handler, the method, the number of body bytes they were given and the
// request's X-Seq header.  body=0: B0 and B2 are themselves the text of a
// request for the OTHER resource ("GET /b HTTP/1.1\r\nHost: x\r\n\r\n"), so
// that body bytes which the server takes for a request are served by a handler
// and show; body=1: B0 and B2 are letters without a line end.
// cli=0: the client is a raw wire peer (a simulated socket writing the bytes);
// cli=1: it is nng's own HTTP client, nng_http_transact four times on one
// nng_http connection (its allocations are enumerated as well).
// A connection that is lost is replaced, and the request that got no answer is
// made again on the new one.
// Enumerated over k (lib/plans.py, "enum_alloc"): among all the other places
// the failing allocation is the buffer for the body of request 0 or 2.
//
// Oracle -> phrase of the statement (C20):
//   wrong_request_served  a handler ran for something that is not the request
//                         the client has outstanding (other resource, other
//                         method, other body, no X-Seq), or ran twice for one
//                         request; a 200 response read on the connection is not
//                         the answer to the request it answers in order; bytes
//                         arrive that answer no request at all
//                                  "the affected call fails cleanly ... (or the
//                                   documented best-effort loss of one message or
//                                   one connection) ... does not leave the object
//                                   in a state where later calls misbehave"
//   unclean_error         a second request is answered with an error status
//                         after ONE failed allocation (the first one is the
//                         clean failure); an nng call of the client returns
//                         something other than success, NNG_ENOMEM or the loss
//                         of its connection
//                                  "the affected call fails cleanly with
//                                   NNG_ENOMEM (or the ... loss of one message or
//                                   one connection)"
//   stuck_after_enomem    a request is not answered on three connections in a
//                         row; a call keeps failing
//                                  "does not leave the object in a state where
//                                   later calls misbehave"; "does not ... hang"
//   crash / deadlock / leak / nng_fini: framework (sanitizers, deadlock
//                         detector, allocator ledger after nng_fini)
// Only counted (sim_probe), never asserted: which status the failed request
// got, whether the connection was closed or went silent, how many connections
// were needed, whether the error response announced "Connection: close".
#include "../harness/util.h"
#include <nng/http.h>

#include <arpa/inet.h>
#include <errno.h>
#include <netinet/in.h>
#include <sys/socket.h>
#include <unistd.h>

namespace {

const uint64_t MS   = 1000000ull;
const int      PORT = 8097;

struct KReq {
	const char *method, *path;
	std::string body;
};

struct KLog { // one handler invocation
	int         cur;     // request outstanding when it ran (-1: none)
	int         attempt; // which transmission of that request
	std::string handler, method, uri, seq, body;
};

struct KWorld {
	std::vector<KReq> reqs;
	std::vector<KLog> log;
	size_t            judged; // log entries already checked
	int               cur, attempt;
	int               err_statuses, conn_losses;
};

KWorld *g_k;

void
ka_handler(nng_http *conn, void *arg, nng_aio *aio)
{
	KWorld     *w = g_k;
	KLog        l;
	const char *v;
	void       *b = NULL;
	size_t      n = 0;
	l.cur         = w->cur;
	l.attempt     = w->attempt;
	l.handler     = (const char *) arg;
	l.method      = nng_http_get_method(conn);
	l.uri         = nng_http_get_uri(conn);
	l.seq         = (v = nng_http_get_header(conn, "X-Seq")) != NULL ? v : "-";
	nng_http_get_body(conn, &b, &n);
	l.body = n ? std::string((const char *) b, n) : std::string();
	w->log.push_back(l);
	char out[96];
	snprintf(out, sizeof(out), "%s %s %zu seq=%s", l.handler.c_str(), l.method.c_str(), n, l.seq.c_str());
	nng_err rv = nng_http_copy_body(conn, out, strlen(out));
	if (rv != NNG_OK) {
		// what a well-behaved handler does: report the failure
		nng_aio_finish(aio, rv);
		return;
	}
	nng_http_set_status(conn, NNG_HTTP_STATUS_OK, NULL);
	nng_aio_finish(aio, NNG_OK);
}

std::string
show(const std::string &s, size_t max = 48)
{
	std::string o;
	for (size_t i = 0; i < s.size() && i < max; i++) {
		char c = s[i];
		if (c == '\r')
			o += "\\r";
		else if (c == '\n')
			o += "\\n";
		else if (c < 32 || c > 126)
			o += '?';
		else
			o += c;
	}
	if (s.size() > max)
		o += "...";
	return o;
}

std::string
want_body(const KWorld &w, int i)
{
	char out[96];
	snprintf(out, sizeof(out), "%s %s %zu seq=%d", w.reqs[(size_t) i].path + 1, w.reqs[(size_t) i].method, w.reqs[(size_t) i].body.size(), i);
	return out;
}

// every handler invocation so far belongs to a request the client made
void
judge_log(KWorld &w)
{
	for (; w.judged < w.log.size(); w.judged++) {
		const KLog &l = w.log[w.judged];
		sim_event("handler /%s ran: %s %s seq=%s body=%zu (outstanding: request %d, transmission %d)", l.handler.c_str(), l.method.c_str(),
		    l.uri.c_str(), l.seq.c_str(), l.body.size(), l.cur, l.attempt);
		if (l.cur < 0)
			VIOL("wrong_request_served", "handler /%s ran for '%s %s' (X-Seq %s, %zu body bytes) while the client had no request outstanding",
			    l.handler.c_str(), l.method.c_str(), show(l.uri).c_str(), l.seq.c_str(), l.body.size());
		const KReq &r = w.reqs[(size_t) l.cur];
		if (l.handler != r.path + 1 || l.method != r.method || l.uri != r.path || l.seq != std::to_string(l.cur) || l.body != r.body)
			VIOL("wrong_request_served",
			    "handler /%s ran for '%s %s' (X-Seq %s, %zu body bytes '%s'): the client never made that request, its outstanding request "
			    "is number %d, '%s %s' with %zu body bytes%s",
			    l.handler.c_str(), l.method.c_str(), show(l.uri).c_str(), l.seq.c_str(), l.body.size(), show(l.body, 24).c_str(), l.cur,
			    r.method, r.path, r.body.size(), sim_alloc_fault_hit() ? " (an allocation failure was injected)" : "");
		for (size_t j = 0; j < w.judged; j++)
			if (w.log[j].cur == l.cur && w.log[j].attempt == l.attempt)
				VIOL("wrong_request_served", "a handler ran twice for one transmission of request %d ('%s %s')", l.cur, r.method, r.path);
	}
}

// what became of one transmission of a request
enum { K_OK = 0, K_ERRSTATUS, K_LOST };

// a response with a status: judge it.  Returns K_OK or K_ERRSTATUS.
int
judge_response(KWorld &w, int i, int status, const std::string &body)
{
	sim_event("response to request %d: %d, %zu bytes '%s'", i, status, body.size(), status == 200 ? show(body).c_str() : "");
	if (status == 200) {
		std::string want = want_body(w, i);
		if (body != want)
			VIOL("wrong_request_served",
			    "the response read as the answer to request %d ('%s %s', %zu body bytes) is 200 '%s', the answer to it would be '%s'%s", i,
			    w.reqs[(size_t) i].method, w.reqs[(size_t) i].path, w.reqs[(size_t) i].body.size(), show(body).c_str(), want.c_str(),
			    sim_alloc_fault_hit() ? " (an allocation failure was injected)" : "");
		return K_OK;
	}
	if (sim_alloc_fault_hit() == 0)
		h_fatal("request %d answered with status %d without any injected fault", i, status);
	if (status < 400)
		VIOL("unclean_error", "request %d ('%s %s') answered with status %d after an allocation failure", i, w.reqs[(size_t) i].method,
		    w.reqs[(size_t) i].path, status);
	char pb[48];
	snprintf(pb, sizeof(pb), "c20_ka_status_%d", status);
	sim_probe(pb);
	if (++w.err_statuses > 1)
		VIOL("unclean_error",
		    "one allocation failed, and a second request is answered with an error: request %d ('%s %s', %zu body bytes) got status %d", i,
		    w.reqs[(size_t) i].method, w.reqs[(size_t) i].path, w.reqs[(size_t) i].body.size(), status);
	return K_ERRSTATUS;
}

void
note_loss(KWorld &w, int i, const char *how)
{
	sim_event("request %d: connection lost (%s)", i, how);
	if (sim_alloc_fault_hit() == 0)
		h_fatal("request %d: connection lost (%s) without any injected fault", i, how);
	sim_probe("c20_best_effort_loss");
	if (++w.conn_losses > 1)
		sim_probe("c20_ka_second_conn_loss");
}

// ------------------------------------------------------------ raw client ---
struct RawC {
	int         fd;
	std::string in;
	bool        dead;
};

void
raw_open(RawC &c)
{
	struct sockaddr_in sin;
	memset(&sin, 0, sizeof(sin));
	sin.sin_family      = AF_INET;
	sin.sin_port        = htons((uint16_t) PORT);
	sin.sin_addr.s_addr = htonl(0x7f000001);
	c.fd                = simnet_socket(AF_INET, SOCK_STREAM);
	c.in.clear();
	c.dead = false;
	if (c.fd < 0 || simnet_connect_blocking(c.fd, &sin, sizeof(sin), 5000 * MS) != 0)
		h_fatal("raw http client cannot connect (fd %d errno %d)", c.fd, errno);
}

// read more; false when nothing came within tmo or the connection is gone
bool
raw_more(RawC &c, uint64_t tmo)
{
	char buf[2048];
	if (c.dead)
		return false;
	errno  = 0;
	long n = simnet_read_blocking(c.fd, buf, sizeof(buf), tmo);
	if (n > 0) {
		c.in.append(buf, (size_t) n);
		return true;
	}
	if (n < 0 && errno == ETIMEDOUT)
		return false;
	c.dead = true;
	return false;
}

// one complete response off the front of c.in; false if there is none yet
bool
raw_parse(RawC &c, int *status, std::string *body, bool *closing)
{
	size_t he = c.in.find("\r\n\r\n");
	if (he == std::string::npos)
		return false;
	std::string head = c.in.substr(0, he + 2);
	int         st   = 0;
	if (head.compare(0, 7, "HTTP/1.") != 0 || head.size() < 12 || sscanf(head.c_str() + 9, "%d", &st) != 1)
		VIOL("wrong_request_served", "the server sent something that is not a response: '%s'", show(head, 60).c_str());
	size_t clen = 0;
	*closing    = false;
	for (size_t p = head.find("\r\n") + 2; p < head.size();) {
		size_t      e    = head.find("\r\n", p);
		std::string line = head.substr(p, e - p);
		p                = e + 2;
		for (char &ch : line)
			if (ch >= 'A' && ch <= 'Z')
				ch = (char) (ch - 'A' + 'a');
		if (line.compare(0, 15, "content-length:") == 0)
			clen = (size_t) atol(line.c_str() + 15);
		if (line.compare(0, 11, "connection:") == 0 && line.find("close") != std::string::npos)
			*closing = true;
	}
	if (c.in.size() < he + 4 + clen)
		return false;
	*status = st;
	*body   = c.in.substr(he + 4, clen);
	c.in.erase(0, he + 4 + clen);
	return true;
}

int
raw_transmit(KWorld &w, RawC &c, int i, bool *closing)
{
	const KReq &r = w.reqs[(size_t) i];
	char        hd[160];
	if (r.body.empty() && strcmp(r.method, "GET") == 0)
		snprintf(hd, sizeof(hd), "%s %s HTTP/1.1\r\nHost: x\r\nX-Seq: %d\r\n\r\n", r.method, r.path, i);
	else
		snprintf(hd, sizeof(hd), "%s %s HTTP/1.1\r\nHost: x\r\nX-Seq: %d\r\nContent-Length: %zu\r\n\r\n", r.method, r.path, i, r.body.size());
	std::string wire = std::string(hd) + r.body;
	*closing         = false;
	sim_event("request %d: %s %s, %zu body bytes '%s' (raw client, transmission %d)", i, r.method, r.path, r.body.size(),
	    show(r.body, 24).c_str(), w.attempt);
	errno = 0;
	if (simnet_write_full(c.fd, wire.data(), wire.size(), 2000 * MS) != (long) wire.size()) {
		c.dead = true;
		note_loss(w, i, "write failed");
		return K_LOST;
	}
	int         status = 0;
	std::string body;
	uint64_t    t0 = sim_now_ns(), s0 = sim_stall_total_ns();
	while (!raw_parse(c, &status, &body, closing)) {
		if (raw_more(c, 50 * MS))
			continue;
		if (c.dead) {
			note_loss(w, i, c.in.empty() ? "closed by the server before any response" : "closed by the server inside a response");
			return K_LOST;
		}
		if ((sim_now_ns() - t0) - (sim_stall_total_ns() - s0) > 3000 * MS) {
			// (a server that goes silent: the client gives the connection up)
			sim_probe("c20_ka_no_response");
			note_loss(w, i, "no response for 3 s");
			return K_LOST;
		}
	}
	return judge_response(w, i, status, body);
}

// --------------------------------------------------------- nng http client ---
// a call of the client that allocates: clean is success or NNG_ENOMEM once
int
kchk(int rv, const char *what)
{
	if (rv == 0)
		return 0;
	sim_event("%s -> %d (%s)", what, rv, nng_strerror((nng_err) rv));
	if (sim_alloc_fault_hit() == 0)
		h_fatal("%s failed with %d (%s) without any injected fault", what, rv, nng_strerror((nng_err) rv));
	if (rv == NNG_ENOMEM) {
		sim_probe("c20_enomem_returned");
		return rv;
	}
	VIOL("unclean_error", "%s returned %d (%s) after an allocation failure; expected success or NNG_ENOMEM", what, rv,
	    nng_strerror((nng_err) rv));
	return rv;
}

#define KRETRY(expr, what)                                                    \
	do {                                                                  \
		int tries_ = 0;                                               \
		while (kchk((expr), what) != 0) {                             \
			if (++tries_ > 3)                                     \
				VIOL("stuck_after_enomem", "%s keeps failing after a single allocation failure", what); \
		}                                                             \
	} while (0)

nng_http *
nng_open(nng_http_client *cli)
{
	for (int attempt = 0;; attempt++) {
		if (attempt > 4)
			VIOL("stuck_after_enomem", "nng_http_client_connect keeps failing after a single allocation failure");
		UAio u;
		if (u.aio == NULL) {
			sim_probe("c20_enomem_returned");
			continue;
		}
		nng_aio_set_timeout(u.aio, 2000);
		u.arm("http_connect");
		nng_http_client_connect(cli, u.aio);
		u.wait(0);
		if (u.result == NNG_ETIMEDOUT && sim_alloc_fault_hit() > 0) {
			sim_probe("c20_best_effort_loss");
			continue;
		}
		if (kchk(u.result, "nng_http_client_connect") != 0)
			continue;
		return (nng_http *) nng_aio_get_output(u.aio, 0);
	}
}

int
nng_transmit(KWorld &w, nng_http *conn, int i, bool first_on_conn)
{
	const KReq &r = w.reqs[(size_t) i];
	if (!first_on_conn)
		nng_http_reset(conn);
	char seq[16];
	snprintf(seq, sizeof(seq), "%d", i);
	nng_http_set_method(conn, r.method);
	KRETRY(nng_http_set_uri(conn, r.path, NULL), "nng_http_set_uri");
	KRETRY(nng_http_set_header(conn, "X-Seq", seq), "nng_http_set_header");
	if (!r.body.empty()) {
		if (i == 0)
			KRETRY(nng_http_copy_body(conn, r.body.data(), r.body.size()), "nng_http_copy_body");
		else
			nng_http_set_body(conn, (void *) r.body.data(), r.body.size());
	}
	sim_event("request %d: %s %s, %zu body bytes '%s' (nng_http_transact, transmission %d)", i, r.method, r.path, r.body.size(),
	    show(r.body, 24).c_str(), w.attempt);
	int trv;
	{
		UAio u;
		if (u.aio == NULL) {
			// (the request was never sent: nothing is lost but the client's attempt)
			sim_probe("c20_enomem_returned");
			note_loss(w, i, "nng_aio_alloc failed, the client gives the connection up");
			return K_LOST;
		}
		nng_aio_set_timeout(u.aio, 3000);
		u.arm("http_transact");
		nng_http_transact(conn, u.aio);
		u.wait(0);
		trv = u.result;
	}
	if (trv == 0) {
		void  *b = NULL;
		size_t n = 0;
		nng_http_get_body(conn, &b, &n);
		return judge_response(w, i, (int) nng_http_get_status(conn), n ? std::string((const char *) b, n) : std::string());
	}
	if (sim_alloc_fault_hit() == 0)
		h_fatal("nng_http_transact for request %d failed with %d (%s) without any injected fault", i, trv, nng_strerror((nng_err) trv));
	if (trv == NNG_ECONNSHUT || trv == NNG_ECONNRESET || trv == NNG_ECLOSED || trv == NNG_ETIMEDOUT) {
		if (trv == NNG_ETIMEDOUT)
			sim_probe("c20_ka_no_response");
		note_loss(w, i, nng_strerror((nng_err) trv));
		return K_LOST;
	}
	// the client's own allocation: the transaction fails cleanly, the state of
	// the connection is anybody's guess and the client gives it up
	kchk(trv, "nng_http_transact");
	note_loss(w, i, "nng_http_transact failed with NNG_ENOMEM, the client gives the connection up");
	return K_LOST;
}

void
add_handler(nng_http_server *srv, const char *path, const char *name)
{
	nng_http_handler *h = NULL;
	KRETRY(nng_http_handler_alloc(&h, path, ka_handler), "nng_http_handler_alloc");
	nng_http_handler_set_method(h, NULL); // every method; the body is collected (the default)
	nng_http_handler_set_data(h, (void *) name, NULL);
	KRETRY(nng_http_server_add_handler(srv, h), "nng_http_server_add_handler");
}

void
ka_cfg(sim_config *cfg, Params *p)
{
	// the request head and its body in one piece, byte by byte, or in random pieces
	long seg = p->draw("seg", 0, 3);
	if (seg == 2)
		cfg->seg_mode = 1;
	else if (seg == 3)
		cfg->seg_mode = 3;
	// mostly no latency; sometimes the body is still under way when the head is judged
	if (p->draw("lat", 0, 2) == 2) {
		cfg->lat_min_ns = 1 * MS;
		cfg->lat_max_ns = 8 * MS;
	}
}

void
ka_run(Params *p)
{
	KWorld w;
	g_k              = &w;
	w.judged         = 0;
	w.cur            = -1;
	w.attempt        = 0;
	w.err_statuses   = 0;
	w.conn_losses    = 0;
	const bool nngc  = p->i("cli", 0) != 0;
	const long bkind = p->i("body", 0);
	std::string b0   = "GET /b HTTP/1.1\r\nHost: x\r\n\r\n";
	std::string b2   = "GET /a HTTP/1.1\r\nHost: x\r\n\r\n";
	if (bkind == 1) {
		b0 = std::string(37, 'q');
		b2 = std::string(300, 'z');
	}
	w.reqs.push_back({ "POST", "/a", b0 });
	w.reqs.push_back({ "GET", "/a", "" });
	w.reqs.push_back({ "PUT", "/b", b2 });
	w.reqs.push_back({ "GET", "/b", "" });

	sim_stat("init_allocs", sim_alloc_count());
	nng_url         *url = NULL;
	nng_http_server *srv = NULL;
	nng_http_client *cli = NULL;
	char             ub[64];
	snprintf(ub, sizeof(ub), "http://127.0.0.1:%d", PORT);
	KRETRY(nng_url_parse(&url, ub), "nng_url_parse");
	KRETRY(nng_http_server_hold(&srv, url), "nng_http_server_hold");
	add_handler(srv, "/a", "a");
	add_handler(srv, "/b", "b");
	KRETRY(nng_http_server_start(srv), "nng_http_server_start");
	if (nngc)
		KRETRY(nng_http_client_alloc(&cli, url), "nng_http_client_alloc");

	RawC      rc;
	nng_http *conn    = NULL;
	bool      have    = false, first = true;
	int       nconns  = 0;
	auto      drop_it = [&]() {
                if (!have)
                        return;
                if (nngc)
                        nng_http_close(conn);
                else
                        close(rc.fd);
                have = false;
	};
	for (int i = 0; i < (int) w.reqs.size(); i++) {
		int out = K_LOST;
		for (int t = 0; t < 3 && out == K_LOST; t++) {
			if (!have) {
				if (nngc)
					conn = nng_open(cli);
				else
					raw_open(rc);
				have  = true;
				first = true;
				nconns++;
				sim_event("connection %d", nconns);
			}
			w.cur     = i;
			w.attempt = t;
			bool closing = false;
			out = nngc ? nng_transmit(w, conn, i, first) : raw_transmit(w, rc, i, &closing);
			first = false;
			// (the handler of a request whose connection was lost may still be at work)
			if (out == K_LOST) {
				drop_it();
				sim_quiesce(3 * MS);
			}
			w.cur = -1;
			judge_log(w);
			if (closing && have) {
				// the server announced that it closes the connection: the client does too
				sim_probe("c20_ka_connection_close_announced");
				drop_it();
			}
		}
		if (out == K_LOST)
			VIOL("stuck_after_enomem",
			    "after a single allocation failure request %d ('%s %s') gets no response on three connections in a row", i,
			    w.reqs[(size_t) i].method, w.reqs[(size_t) i].path);
		if (out == K_OK && sim_alloc_fault_hit() > 0)
			sim_probe("c20_ka_served_after_fault");
	}
	// nothing else is under way: bytes that arrive now answer no request
	sim_quiesce(3 * MS);
	judge_log(w);
	if (have && !nngc) {
		while (simnet_poll_in(rc.fd) && raw_more(rc, 1 * MS))
			;
		if (!rc.in.empty())
			VIOL("wrong_request_served", "after the last response the server sent %zu more bytes that answer no request: '%s'", rc.in.size(),
			    show(rc.in, 60).c_str());
	}
	if (nconns > 1)
		sim_probe("c20_ka_reconnected");
	sim_stat("nontrivial", 1);
	drop_it();
	if (cli != NULL)
		nng_http_client_free(cli);
	nng_http_server_stop(srv);
	nng_http_server_release(srv);
	nng_url_free(url);
	// let the reaper finish with the server and its connections: nng_fini
	// racing that teardown is a known finding of its own (C03), not this
	// property's subject
	sim_quiesce(5 * MS);
	judge_log(w);
	g_k = NULL;
}
SCENARIO(c20_keepalive, "C20", ka_cfg, ka_run);

} // namespace
