// C07 (second file): the respondent's "one response per received survey"
// rule under back-pressure.  Several contexts answer surveys of the same
// surveyor while the connection to it is not draining, so that their sends
// are parked inside the socket; a second send on any of them has no survey
// to answer and must fail with NNG_ESTATE, and the surveyor sees exactly one
// response per survey.
#include "../harness/util.h"

#include <map>

namespace {

static void
bp_run(Params *p)
{
	nng_socket resp, x;
	int        tr   = (int) p->draw("tr", 0, 1) == 0 ? TR_TCP : TR_INPROC;
	int        n    = 2 + (int) W(0, 4);
	const int  port = 5000 + 9;
	MUST(nng_respondent0_open(&resp));
	MUST(nng_surveyor0_open_raw(&x));
	MUST(nng_socket_set_int(x, NNG_OPT_RECVBUF, 1));
	MUST(nng_socket_set_ms(x, NNG_OPT_SENDTIMEO, 1000));
	MUST(nng_socket_set_ms(x, NNG_OPT_RECVTIMEO, 50));
	std::string url = h_url(tr, 9);
	MUST(nng_listen(x, url.c_str(), NULL, 0));
	MUST(nng_dial(resp, url.c_str(), NULL, 0));
	sim_quiesce(20000000);
	std::vector<nng_ctx> ctx((size_t) n);
	for (int i = 0; i < n; i++)
		MUST(nng_ctx_open(&ctx[(size_t) i], resp));
	// one survey per context
	uint32_t id0 = 0x80000000u | (uint32_t) W(1, 0xffff);
	for (int i = 0; i < n; i++) {
		nng_msg *m = tag_msg(24, 1, 0, (uint32_t) i);
		MUST(nng_msg_header_append_u32(m, id0 + (uint32_t) i));
		MUST(nng_sendmsg(x, m, 0));
	}
	std::vector<uint32_t> got((size_t) n, 0xffffffffu); // which survey each ctx holds
	for (int i = 0; i < n; i++) {
		nng_msg *m = NULL;
		MUST(nng_ctx_set_ms(ctx[(size_t) i], NNG_OPT_RECVTIMEO, 2000));
		int rv = nng_ctx_recvmsg(ctx[(size_t) i], &m, 0);
		if (rv != 0)
			VIOL("survey_lost", "respondent ctx %d did not receive a survey (%d)", i, rv);
		Tag t = tag_parse((const uint8_t *) nng_msg_body(m), nng_msg_len(m));
		nng_msg_free(m);
		got[(size_t) i] = t.serial;
	}
	// stop the drain: tcp link stalled toward the surveyor (inproc: the raw
	// surveyor simply does not read and its receive buffer holds one message)
	if (tr == TR_TCP)
		simnet_stall_port((uint16_t) port, 1, 1);
	sim_event("c07_bp tr=%s contexts=%d", h_tr_name(tr), n);
	std::vector<UAio *> first((size_t) n);
	int                 parked = 0, accepted_second = 0;
	for (int i = 0; i < n; i++) {
		UAio *u = new UAio();
		nng_msg *m = tag_msg((size_t) W(24, 4000), 2, 0, got[(size_t) i]);
		nng_aio_set_msg(u->aio, m);
		nng_aio_set_timeout(u->aio, 5000);
		u->arm("resp_send");
		nng_ctx_send(ctx[(size_t) i], u->aio);
		first[(size_t) i] = u;
		if (W(0, 1))
			sim_yield();
		if (!u->poll())
			parked++;
		// a second response to the same survey
		UAio     u2;
		nng_msg *m2 = tag_msg(24, 3, 0, got[(size_t) i]);
		nng_aio_set_msg(u2.aio, m2);
		nng_aio_set_timeout(u2.aio, 200);
		u2.arm("resp_send_again");
		nng_ctx_send(ctx[(size_t) i], u2.aio);
		u2.wait(0);
		sim_event("ctx %d: first send %s, second send -> %d", i, u->poll() ? "done" : "pending", (int) u2.result);
		if (u2.result != 0)
			nng_msg_free(m2);
		if (u2.result == 0) {
			accepted_second++;
			VIOL("resp_send_without_survey",
			    "respondent ctx %d answered its survey (first send %s) and a second send was accepted", i,
			    u->poll() ? "completed" : "still parked behind a busy connection");
		}
		if (u2.result != NNG_ESTATE)
			VIOL("resp_send_without_survey", "respondent ctx %d: second send failed with %d, not NNG_ESTATE", i,
			    (int) u2.result);
	}
	if (parked > 0) {
		sim_probe("c07_bp_send_parked");
		sim_stat("nontrivial", 1);
	}
	if (tr == TR_TCP)
		simnet_stall_port((uint16_t) port, 1, 0);
	// drain: exactly one response per survey, each carrying its survey id
	std::map<uint32_t, int> seen;
	int                     idle = 0;
	while (idle < 4) {
		nng_msg *m = NULL;
		if (nng_recvmsg(x, &m, 0) != 0) {
			idle++;
			continue;
		}
		idle = 0;
		if (nng_msg_header_len(m) < 4) {
			nng_msg_free(m);
			VIOL("corrupt_message", "response without survey id header");
		}
		uint32_t id = 0;
		nng_msg_header_chop_u32(m, &id);
		Tag t = tag_parse((const uint8_t *) nng_msg_body(m), nng_msg_len(m));
		nng_msg_free(m);
		if (!t.ok || id != id0 + t.serial)
			VIOL("stale_response", "a response carries survey id %08x but answers survey #%u (id %08x)", id, t.serial,
			    id0 + t.serial);
		if (++seen[t.serial] > 1)
			VIOL("duplicate_response", "the surveyor received %d responses to survey #%u from one respondent context",
			    seen[t.serial], t.serial);
	}
	for (int i = 0; i < n; i++) {
		UAio *u = first[(size_t) i];
		u->wait(0);
		if (u->result != 0)
			nng_msg_free(nng_aio_get_msg(u->aio));
		else if (seen[got[(size_t) i]] == 0 && tr == TR_TCP)
			sim_probe("c07_bp_response_dropped"); // best-effort delivery: not asserted
		delete u;
	}
	for (int i = 0; i < n; i++)
		MUST(nng_ctx_close(ctx[(size_t) i]));
	MUST(nng_socket_close(resp));
	MUST(nng_socket_close(x));
}

static void
bp_cfg(sim_config *cfg, Params *p)
{
	(void) p;
	cfg->sndbuf_min = 64;
	cfg->sndbuf_max = 512;
}
SCENARIO(c07_bp, "C07", bp_cfg, bp_run);

} // namespace
