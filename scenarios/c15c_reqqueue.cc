// C15 (third file): a cooked REQ socket whose request is queued before any
// connection exists; the connection that comes up belongs to a raw wire peer
// that completes the SP handshake and then reads nothing.  At every quiescent
// point the send descriptor and the result of a non-blocking send must agree
// ("if it polls readable that operation does not return NNG_EAGAIN"; "polls
// readable if the non-blocking operation would succeed").
#include "../harness/util.h"

#include <netinet/in.h>
#include <sys/socket.h>
#include <unistd.h>

namespace {

static int
wire_connect_rep(int idx)
{
	struct sockaddr_in in;
	memset(&in, 0, sizeof(in));
	in.sin_family      = AF_INET;
	in.sin_port        = htons((uint16_t) (5000 + idx));
	in.sin_addr.s_addr = htonl(0x7f000001);
	int fd             = simnet_socket(AF_INET, SOCK_STREAM);
	int rv             = simnet_connect_blocking(fd, &in, sizeof(in), 5000000000ull);
	if (fd < 0 || rv != 0)
		h_fatal("raw peer cannot connect (fd %d rv %d errno %d)", fd, rv, errno);
	static const uint8_t hello[8] = { 0, 'S', 'P', 0, 0, 0x31, 0, 0 }; // REP
	static const uint8_t want[8]  = { 0, 'S', 'P', 0, 0, 0x30, 0, 0 }; // REQ
	uint8_t              got[8];
	if (simnet_write_full(fd, hello, 8, 5000000000ull) != 8)
		h_fatal("raw peer handshake write failed");
	if (simnet_read_full(fd, got, 8, 5000000000ull) != 8 || memcmp(got, want, 8) != 0)
		h_fatal("raw peer handshake read failed / unexpected greeting");
	return fd;
}

static void
check(nng_socket req, int sfd, const char *when, int *agree)
{
	sim_quiesce(3000000);
	uint64_t st0 = sim_stall_total_ns();
	int      wr = simnet_poll_in(sfd);
	nng_msg *m  = tag_msg(40, 1, 0, 77);
	int      sv = nng_sendmsg(req, m, NNG_FLAG_NONBLOCK);
	if (sim_stall_total_ns() != st0) {
		// stalled inside the call (possibly past the quiescence horizon): the premise is gone, nothing is judged
		sim_probe("c15_stalled_inside_call");
		wr = -1;
	}
	sim_event("%s: send fd=%d -> %d", when, wr, sv);
	if (sv != 0)
		nng_msg_free(m);
	if (wr == 1 && sv == NNG_EAGAIN)
		VIOL("fd_readable_but_eagain",
		    "REQ %s: the send descriptor polls readable but the non-blocking send returned NNG_EAGAIN", when);
	if (wr == 0 && sv == 0)
		VIOL("success_but_fd_not_readable", "REQ %s: the send descriptor is idle, yet the non-blocking send succeeded", when);
	if (sv != 0 && sv != NNG_EAGAIN)
		VIOL("nonblock_error", "REQ %s: non-blocking send returned %d", when, sv);
	(*agree)++;
}

static void
rq_run(Params *p)
{
	(void) p;
	nng_socket req;
	MUST(nng_req0_open(&req));
	MUST(nng_socket_set_ms(req, NNG_OPT_REQ_RESENDTIME, NNG_DURATION_INFINITE));
	MUST(nng_listen(req, h_url(TR_TCP, 15).c_str(), NULL, 0));
	int sfd = -1;
	bool fd_early = W(0, 1) != 0;
	if (fd_early)
		MUST(nng_socket_get_send_poll_fd(req, &sfd));
	int agree = 0;
	// a request (on a context, or on the socket) submitted with nobody there
	int  nq = (int) W(0, 2);
	UAio u[2];
	nng_ctx c[2];
	for (int i = 0; i < nq; i++) {
		// far larger than what the connection will take without being read
		nng_msg *m = tag_msg((size_t) W(20000, 60000), 1, 0, (uint32_t) i);
		nng_aio_set_msg(u[i].aio, m);
		nng_aio_set_timeout(u[i].aio, NNG_DURATION_INFINITE);
		u[i].arm("queued_request");
		MUST(nng_ctx_open(&c[i], req));
		nng_ctx_send(c[i], u[i].aio);
	}
	if (!fd_early)
		MUST(nng_socket_get_send_poll_fd(req, &sfd));
	if (W(0, 1))
		check(req, sfd, "before any connection", &agree);
	int nconn = 1 + (int) W(0, 1);
	int fds[2] = { -1, -1 };
	for (int k = 0; k < nconn; k++) {
		fds[k] = wire_connect_rep(15);
		char when[64];
		snprintf(when, sizeof(when), "after connection %d came up with %d request(s) queued", k + 1, nq);
		check(req, sfd, when, &agree);
		if (W(0, 1))
			check(req, sfd, "again", &agree);
	}
	sim_stat("nontrivial", 1);
	for (int i = 0; i < nq; i++) {
		nng_aio_cancel(u[i].aio);
		u[i].wait(0);
		if (u[i].result != 0)
			nng_msg_free(nng_aio_get_msg(u[i].aio));
		MUST(nng_ctx_close(c[i]));
	}
	for (int k = 0; k < nconn; k++)
		close(fds[k]);
	MUST(nng_socket_close(req));
}

static void
rq_cfg(sim_config *cfg, Params *p)
{
	(void) p;
	cfg->sndbuf_min = 512;
	cfg->sndbuf_max = 4096;
}
SCENARIO(c15_reqqueue, "C15", rq_cfg, rq_run);

} // namespace
