// C01  Whole-message integrity on every transport, under any segmentation.
//
// Three scenarios:
//   c01_link   nng <-> nng over one connection (inproc, tcp, ipc, ws, abstract,
//              tcp6, socket-fd); PAIR0, PAIR1, raw PAIR0/PAIR1, raw REQ <-> raw REP;
//              both directions at once; the simulated kernel cuts the streams.
//   c01_wire   nng <-> raw wire peer written here (SP/TCP, SP/IPC, socket-fd,
//              WebSocket as client and as server): the peer produces and sees the
//              exact bytes, chooses its own write chunking, batches frames,
//              fragments ws messages and interleaves control frames, and may
//              kill the connection in the middle of a frame.
//   c01_cuts   enumerated cut positions: for a small frame every single cut
//              position k in 0..L on nng's read side (and a sample of pairs)
//              and on nng's write side (cut armed in the simulated kernel).
//
// Oracle (only what the statement says):
//   * every message observed by a receiver equals, byte for byte, a message
//     that was sent on that stream (raw sockets: header bytes in front of the
//     body, the receiver-added prefix removed)      -> truncated / merged / altered
//   * no sent message is observed twice                                -> duplicated
//   * messages of one connection are observed in send order            -> reordered
//   * the raw peer also parses every byte nng emits with the transport's
//     framing grammar; bytes that do not parse are what an SP peer would
//     observe as an altered message                                    -> altered_framing
// Loss is NOT asserted ("or not at all"): it is counted (stat lost, probe
// c01_lost_no_fault).  Where the header/body split of a raw receive differs
// from the re-parse model this is a probe (c01_split_differs), not a violation.
#include "../harness/util.h"

#include <arpa/inet.h>
#include <errno.h>
#include <netinet/in.h>
#include <sys/socket.h>
#include <sys/un.h>
#include <unistd.h>

#include <algorithm>
#include <deque>
#include <set>

namespace {

typedef std::vector<uint8_t> Bytes;
static const uint64_t        MS  = 1000000ull;
static const uint64_t        SEC = 1000000000ull;

enum { TRX_SOCKFD = TR_N }; // socket:// (connected socketpair handed to listeners)

// role of an nng socket
enum { R_PAIR0 = 0, R_PAIR1, R_PAIR0RAW, R_PAIR1RAW, R_REQRAW, R_REPRAW, R_N };

static const char *
role_name(int r)
{
	static const char *n[] = { "pair0", "pair1", "pair0raw", "pair1raw", "reqraw", "repraw" };
	return n[r];
}
static uint16_t
role_proto(int r)
{
	switch (r) {
	case R_PAIR0:
	case R_PAIR0RAW:
		return 0x10;
	case R_PAIR1:
	case R_PAIR1RAW:
		return 0x11;
	case R_REQRAW:
		return 0x30;
	default:
		return 0x31;
	}
}
static uint16_t
role_peer_proto(int r)
{
	if (r == R_REQRAW)
		return 0x31;
	if (r == R_REPRAW)
		return 0x30;
	return role_proto(r);
}
static const char *
role_ws_name(int r) // protocol name of the nng socket (ws sub-protocol of its listener)
{
	switch (r) {
	case R_PAIR0:
	case R_PAIR0RAW:
		return "pair";
	case R_PAIR1:
	case R_PAIR1RAW:
		return "pair1";
	case R_REQRAW:
		return "req";
	default:
		return "rep";
	}
}
static const char *
role_ws_peer_name(int r)
{
	if (r == R_REQRAW)
		return "rep";
	if (r == R_REPRAW)
		return "req";
	return role_ws_name(r);
}
static void
role_open(nng_socket *s, int r)
{
	switch (r) {
	case R_PAIR0:
		MUST(nng_pair0_open(s));
		break;
	case R_PAIR1:
		MUST(nng_pair1_open(s));
		break;
	case R_PAIR0RAW:
		MUST(nng_pair0_open_raw(s));
		break;
	case R_PAIR1RAW:
		MUST(nng_pair1_open_raw(s));
		break;
	case R_REQRAW:
		MUST(nng_req0_open_raw(s));
		break;
	default:
		MUST(nng_rep0_open_raw(s));
		MUST(nng_socket_set_int(*s, NNG_OPT_MAXTTL, 15));
		break;
	}
}

static const char *
trx_name(int tr)
{
	return tr == TRX_SOCKFD ? "sockfd" : h_tr_name(tr);
}

// ------------------------------------------------------------------ prng ---
static uint64_t g_salt;
static inline uint64_t
mix64(uint64_t z)
{
	z = (z ^ (z >> 30)) * 0xbf58476d1ce4e5b9ull;
	z = (z ^ (z >> 27)) * 0x94d049bb133111ebull;
	return z ^ (z >> 31);
}
struct Prng {
	uint64_t s;
	explicit Prng(uint64_t seed) : s(mix64(seed ^ 0x1234567ull)) { }
	uint8_t
	byte()
	{
		s = mix64(s + 0x9e3779b97f4a7c15ull);
		return (uint8_t) s;
	}
};

static void
put_be32(Bytes &v, uint32_t x)
{
	v.push_back((uint8_t) (x >> 24));
	v.push_back((uint8_t) (x >> 16));
	v.push_back((uint8_t) (x >> 8));
	v.push_back((uint8_t) x);
}
static void
put_be64(Bytes &v, uint64_t x)
{
	for (int i = 7; i >= 0; i--)
		v.push_back((uint8_t) (x >> (8 * i)));
}
static uint32_t
get_be32(const uint8_t *p)
{
	return ((uint32_t) p[0] << 24) | ((uint32_t) p[1] << 16) | ((uint32_t) p[2] << 8) | p[3];
}

// ----------------------------------------------------------------- model ---
struct SentMsg {
	uint32_t serial;
	Bytes    flat;  // what the receiver must be able to put together again
	size_t   split; // header/body split the re-parse model predicts (SIZE_MAX: n/a)
	uint32_t aux;   // pair1: hop count expected at the receiver
	bool     accepted;
	int      got;
};

struct Stream {
	std::string              name;
	uint16_t                 origin;
	std::vector<SentMsg>     sent;
	std::map<uint64_t, long> last; // per connection: index of the last message observed
	int                      delivered;
	int                      skipped;
	Stream(const char *n, uint16_t o) : name(n), origin(o), delivered(0), skipped(0) { }
};

static bool
same(const Bytes &a, const uint8_t *p, size_t n)
{
	return a.size() == n && (n == 0 || memcmp(a.data(), p, n) == 0);
}

static std::string
describe(const uint8_t *p, size_t n)
{
	char b[160];
	Tag  t = tag_parse(p, n);
	if (t.ok)
		snprintf(b, sizeof(b), "len %zu [valid tag origin %u serial %u] %s", n, t.origin, t.serial,
		    h_hex(p, n, 12).c_str());
	else
		snprintf(b, sizeof(b), "len %zu %s", n, h_hex(p, n, 24).c_str());
	return b;
}

// A receiver observed the byte string p[0..n) on connection `conn`.
// Returns the index of the sent message it is.
static long
judge(Stream &st, const uint8_t *p, size_t n, uint64_t conn, const char *obs)
{
	long lastc = -1;
	auto it    = st.last.find(conn);
	if (it != st.last.end())
		lastc = it->second;
	long pick        = -1;
	long pick_unacc  = -1; // candidate whose send was refused / cut short (short messages can be byte-identical)
	bool eq_any      = false;
	long eq_ungot_lo = -1;
	long eq_got      = -1;
	for (size_t i = 0; i < st.sent.size(); i++) {
		const SentMsg &s = st.sent[i];
		if (!same(s.flat, p, n))
			continue;
		eq_any = true;
		if (s.got == 0) {
			if ((long) i > lastc) {
				if (s.accepted) {
					pick = (long) i;
					break;
				}
				if (pick_unacc < 0)
					pick_unacc = (long) i;
				continue;
			}
			eq_ungot_lo = (long) i;
		} else {
			eq_got = (long) i;
		}
	}
	// (a send call may not have returned yet when its message arrives)
	if (pick < 0 || (pick_unacc >= 0 && pick_unacc < pick && n >= 20))
		if (pick_unacc >= 0)
			pick = pick_unacc;
	if (pick >= 0) {
		SentMsg &s = st.sent[(size_t) pick];
		s.got++;
		for (long j = lastc + 1; j < pick; j++)
			if (st.sent[(size_t) j].got == 0)
				st.skipped++;
		st.last[conn] = pick;
		st.delivered++;
		sim_event("%s: %s got #%u len=%zu conn=%llu", st.name.c_str(), obs, s.serial, n,
		    (unsigned long long) conn);
		return pick;
	}
	if (eq_any) {
		if (eq_ungot_lo >= 0)
			VIOL("reordered",
			    "%s: %s observed message #%u (%s) on connection %llu after message #%u of the "
			    "same connection, although it was sent before it",
			    st.name.c_str(), obs, st.sent[(size_t) eq_ungot_lo].serial, describe(p, n).c_str(),
			    (unsigned long long) conn, st.sent[(size_t) lastc].serial);
		VIOL("duplicated", "%s: %s observed message #%u (%s) a second time (connection %llu)",
		    st.name.c_str(), obs, st.sent[(size_t) eq_got].serial, describe(p, n).c_str(),
		    (unsigned long long) conn);
	}
	// not equal to anything that was sent: classify the damage
	for (size_t i = 0; i < st.sent.size(); i++) {
		const Bytes &f = st.sent[i].flat;
		if (n < f.size() && (n == 0 || memcmp(f.data(), p, n) == 0))
			VIOL("truncated",
			    "%s: %s observed %s = the first %zu of the %zu bytes of message #%u (tail missing)",
			    st.name.c_str(), obs, describe(p, n).c_str(), n, f.size(), st.sent[i].serial);
	}
	for (size_t i = 0; i < st.sent.size(); i++) {
		const Bytes &f = st.sent[i].flat;
		if (n > 0 && n < f.size() && memcmp(f.data() + (f.size() - n), p, n) == 0)
			VIOL("truncated",
			    "%s: %s observed %s = the last %zu of the %zu bytes of message #%u (head missing)",
			    st.name.c_str(), obs, describe(p, n).c_str(), n, f.size(), st.sent[i].serial);
	}
	for (size_t i = 0; i < st.sent.size(); i++) {
		const Bytes &f = st.sent[i].flat;
		if (f.size() >= 4 && n > f.size() && memcmp(f.data(), p, f.size()) == 0)
			VIOL("merged",
			    "%s: %s observed %s = the whole of message #%u (%zu bytes) followed by %zu bytes "
			    "of something else",
			    st.name.c_str(), obs, describe(p, n).c_str(), st.sent[i].serial, f.size(),
			    n - f.size());
		if (f.size() >= 4 && n > f.size() && memcmp(f.data(), p + (n - f.size()), f.size()) == 0)
			VIOL("merged",
			    "%s: %s observed %s = %zu foreign bytes followed by the whole of message #%u "
			    "(%zu bytes)",
			    st.name.c_str(), obs, describe(p, n).c_str(), n - f.size(), st.sent[i].serial,
			    f.size());
	}
	long   best = -1;
	size_t bestd = 0, bestoff = 0;
	for (size_t i = 0; i < st.sent.size(); i++) {
		const Bytes &f = st.sent[i].flat;
		if (f.size() != n)
			continue;
		size_t d = 0, off = 0;
		for (size_t k = 0; k < n; k++)
			if (f[k] != p[k]) {
				if (d == 0)
					off = k;
				d++;
			}
		if (best < 0 || d < bestd) {
			best    = (long) i;
			bestd   = d;
			bestoff = off;
		}
	}
	if (best >= 0)
		VIOL("altered",
		    "%s: %s observed %s: same length as message #%u but %zu bytes differ, first at offset %zu",
		    st.name.c_str(), obs, describe(p, n).c_str(), st.sent[(size_t) best].serial, bestd, bestoff);
	VIOL("altered", "%s: %s observed %s which is not any message that was sent on this stream",
	    st.name.c_str(), obs, describe(p, n).c_str());
	return -1;
}

// ---------------------------------------------------------------- sizes ---
static size_t
draw_size(size_t cap)
{
	static const size_t special[] = { 0, 1, 3, 4, 7, 8, 9, 19, 20, 21, 60, 64, 125, 126, 127, 128 };
	static const size_t big[]     = { 4096, 65535, 65536, 65537, 16384, 131072 };
	long                cls       = W(0, 11);
	size_t              n;
	if (cls <= 3)
		n = (size_t) W(0, 40);
	else if (cls <= 6)
		n = special[W(0, 15)];
	else if (cls <= 9)
		n = (size_t) W(41, 3000);
	else if (cls == 10)
		n = big[W(0, 5)];
	else
		n = (size_t) W(3001, 262144);
	if (n > cap)
		n = cap ? n % (cap + 1) : 0;
	return n;
}

// backtrace: j words without the end bit, one word with it
static void
put_backtrace(Bytes &c, int j, Prng &r)
{
	for (int w = 0; w <= j; w++) {
		uint8_t b0 = r.byte();
		b0         = w == j ? (uint8_t) (b0 | 0x80) : (uint8_t) (b0 & 0x7f);
		c.push_back(b0);
		c.push_back(r.byte());
		c.push_back(r.byte());
		c.push_back(r.byte());
	}
}

// Payload: tagged (origin, serial, length, PRNG fill, checksum; for < 20 bytes a
// pure function of the identity).  One message in four gets 1..16 leading zero
// bytes instead: a length prefix or protocol word parsed at the wrong offset
// then yields a small, plausible number rather than one the library refuses.
static void
put_payload(Bytes &c, size_t len, uint16_t origin, uint32_t serial)
{
	size_t o = c.size();
	c.resize(o + len);
	if (len)
		tag_fill(c.data() + o, len, origin, (uint16_t) g_salt, serial);
	long z = W(0, 3) == 3 ? W(1, 16) : 0;
	for (size_t i = 0; i < (size_t) z && i < len; i++)
		c[o + i] = 0;
	if (z > 0 && len > 0)
		sim_probe("c01_zero_led_payload");
}

// message an nng socket of role `role` sends
struct Out {
	nng_msg *m;
	Bytes    flat;
	size_t   split;
	uint32_t aux;
	size_t   hdr_len;
};

// sel < 0: header length / hop count / backtrace depth are drawn; otherwise derived from sel
static long
pick(long sel, long hi)
{
	return sel < 0 ? W(0, hi) : sel % (hi + 1);
}

static Out
build_out(int role, size_t paylen, uint16_t origin, uint32_t serial, uint32_t dest_pipe, bool free_hdr,
    long sel = -1)
{
	Out o;
	o.m       = NULL;
	o.split   = SIZE_MAX;
	o.aux     = 0;
	o.hdr_len = 0;
	Prng  r(g_salt * 1315423911ull + ((uint64_t) origin << 32) + serial);
	Bytes hdr, body;
	switch (role) {
	case R_PAIR0:
	case R_PAIR1:
		put_payload(body, paylen, origin, serial);
		o.flat = body;
		break;
	case R_PAIR0RAW: {
		// PAIR0 does not interpret headers: whatever header the application
		// sets travels in front of the body and lands in the peer's body
		size_t hl = (size_t) pick(sel, 64);
		for (size_t i = 0; i < hl; i++)
			hdr.push_back(r.byte());
		put_payload(body, paylen, origin, serial);
		o.flat = hdr;
		o.flat.insert(o.flat.end(), body.begin(), body.end());
		break;
	}
	case R_PAIR1RAW: {
		uint32_t hop = (uint32_t) pick(sel, 6);
		put_be32(hdr, hop);
		o.aux = hop + 1;
		put_payload(body, paylen, origin, serial);
		o.flat = body;
		break;
	}
	case R_REQRAW:
	case R_REPRAW: {
		Bytes c;
		if (free_hdr) {
			// the peer is the raw wire: header bytes are arbitrary
			size_t hl = (size_t) pick(sel, role == R_REPRAW ? 60 : 64);
			for (size_t i = 0; i < hl; i++)
				c.push_back(r.byte());
			put_payload(c, paylen, origin, serial);
			if (role == R_REPRAW)
				put_be32(hdr, dest_pipe);
			hdr.insert(hdr.end(), c.begin(), c.begin() + (long) hl);
			body.assign(c.begin() + (long) hl, c.end());
		} else {
			int j = (int) pick(sel, role == R_REQRAW ? 14 : 15);
			put_backtrace(c, j, r);
			o.split = c.size();
			put_payload(c, paylen, origin, serial);
			size_t lim = role == R_REPRAW ? 60 : 64;
			if (lim > c.size())
				lim = c.size();
			size_t hl = (size_t) pick(sel < 0 ? sel : sel / 16, (long) lim);
			if (role == R_REPRAW)
				put_be32(hdr, dest_pipe);
			hdr.insert(hdr.end(), c.begin(), c.begin() + (long) hl);
			body.assign(c.begin() + (long) hl, c.end());
		}
		o.flat = c;
		break;
	}
	}
	MUST(nng_msg_alloc(&o.m, 0));
	if (!body.empty())
		MUST(nng_msg_append(o.m, body.data(), body.size()));
	if (!hdr.empty())
		MUST(nng_msg_header_append(o.m, hdr.data(), hdr.size()));
	o.hdr_len = hdr.size();
	return o;
}

// what an nng socket of role `role` received, with the receiver-added prefix removed
static Bytes
msg_flat(nng_msg *m, int role, size_t *hdr_part, uint32_t *hop)
{
	Bytes          f;
	const uint8_t *h  = (const uint8_t *) nng_msg_header(m);
	size_t         hl = nng_msg_header_len(m);
	const uint8_t *b  = (const uint8_t *) nng_msg_body(m);
	size_t         bl = nng_msg_len(m);
	*hdr_part         = 0;
	*hop              = 0;
	switch (role) {
	case R_PAIR1:
	case R_PAIR1RAW:
		if (hl >= 4)
			*hop = get_be32(h);
		break;
	case R_REQRAW:
		f.assign(h, h + hl);
		*hdr_part = hl;
		break;
	case R_REPRAW: {
		size_t skip = hl < 4 ? hl : 4;
		f.assign(h + skip, h + hl);
		*hdr_part = hl - skip;
		break;
	}
	default:
		break;
	}
	f.insert(f.end(), b, b + bl);
	return f;
}

// ------------------------------------------------------------- nng side ---
struct Side {
	const char  *nm;
	nng_socket   s;
	int          role;
	Stream      *out; // what this socket sends
	Stream      *in;  // what this socket should receive
	volatile uint32_t cur_pipe;
	nng_pipe     pipe;
	int          adds, rems;
	int          nsend;
	size_t       maxsz;
	long        *budget;
	bool         free_hdr;
	int          pace;
	volatile int send_done;
	volatile int stop;
	volatile int recv_done;
	int          send_tmo_ms;
	UAio        *rx; // owned by the scenario's main task
};

static void
side_init(Side *sd, const char *nm, int role, Stream *out, Stream *in)
{
	sd->nm       = nm;
	sd->role     = role;
	sd->out      = out;
	sd->in       = in;
	sd->cur_pipe = 0;
	sd->adds = sd->rems = 0;
	sd->nsend    = 0;
	sd->maxsz    = 0;
	sd->budget   = NULL;
	sd->free_hdr = false;
	sd->pace     = 0;
	sd->send_done = sd->stop = sd->recv_done = 0;
	sd->send_tmo_ms = 10000;
	sd->rx          = new UAio();
	memset(&sd->pipe, 0, sizeof(sd->pipe));
}

static void
pipe_cb(nng_pipe p, nng_pipe_ev ev, void *arg)
{
	Side *sd = (Side *) arg;
	if (ev == NNG_PIPE_EV_ADD_POST) {
		sd->pipe     = p;
		sd->cur_pipe = (uint32_t) nng_pipe_id(p);
		sd->adds++;
	} else if (ev == NNG_PIPE_EV_REM_POST) {
		sd->rems++;
		if (sd->cur_pipe == (uint32_t) nng_pipe_id(p))
			sd->cur_pipe = 0;
	}
}

static void
side_sender(void *arg)
{
	Side *sd = (Side *) arg;
	for (int i = 0; i < sd->nsend; i++) {
		size_t n = draw_size(sd->maxsz);
		if (sd->budget != NULL) {
			if ((long) n > *sd->budget)
				n = n % 41; // byte budget of the run used up: small messages only
			*sd->budget -= (long) n + 16;
		}
		uint32_t pipe = sd->cur_pipe;
		if (sd->role == R_REPRAW && pipe == 0) {
			for (int k = 0; k < 3000 && (pipe = sd->cur_pipe) == 0; k++)
				sim_sleep_ms(1);
			if (pipe == 0)
				break;
		}
		uint32_t serial = (uint32_t) sd->out->sent.size();
		Out      o      = build_out(sd->role, n, sd->out->origin, serial, pipe, sd->free_hdr);
		SentMsg  rec;
		rec.serial   = serial;
		rec.flat     = o.flat;
		rec.split    = o.split;
		rec.aux      = o.aux;
		rec.accepted = false;
		rec.got      = 0;
		sd->out->sent.push_back(rec);
		if (n == 0)
			sim_probe("c01_zero_len_msg");
		sim_event("%s: %s send #%u paylen=%zu hdr=%zu flat=%zu", sd->out->name.c_str(), sd->nm, serial, n,
		    o.hdr_len, o.flat.size());
		int rv = nng_sendmsg(sd->s, o.m, 0);
		if (rv != 0) {
			nng_msg_free(o.m);
			sim_event("%s: send #%u not accepted: %s", sd->out->name.c_str(), serial,
			    nng_strerror((nng_err) rv));
			sim_stat("send_refused", 1);
			if (rv == NNG_ECLOSED)
				break;
			continue;
		}
		sd->out->sent[serial].accepted = true;
		if (sd->pace == 1 || (sd->pace == 2 && W(0, 2) == 0))
			sim_sleep_ns((uint64_t) W(0, 3000) * 1000);
	}
	sd->send_done = 1;
}

static void
side_handle(Side *sd, nng_msg *m)
{
	size_t   hdr_part;
	uint32_t hop;
	Bytes    f    = msg_flat(m, sd->role, &hdr_part, &hop);
	uint64_t conn = (uint64_t) nng_pipe_id(nng_msg_get_pipe(m));
	long     idx  = judge(*sd->in, f.data(), f.size(), conn, sd->nm);
	const SentMsg &s = sd->in->sent[(size_t) idx];
	if ((sd->role == R_REQRAW || sd->role == R_REPRAW) && s.split != SIZE_MAX && s.split != hdr_part)
		sim_probe("c01_split_differs");
	if ((sd->role == R_PAIR1RAW || sd->role == R_PAIR1) && s.aux != 0 && s.aux != hop && f.size() >= 8)
		sim_probe("c01_hop_differs");
	if (nng_msg_header_len(m) > 0)
		sim_probe("c01_raw_header_seen");
}

static void
side_receiver(void *arg)
{
	Side *sd = (Side *) arg;
	UAio &u  = *sd->rx;
	while (!sd->stop) {
		nng_aio_set_timeout(u.aio, NNG_DURATION_INFINITE);
		u.arm("c01_recv");
		nng_socket_recv(sd->s, u.aio);
		u.wait(0);
		if (u.result != 0) {
			if (u.result == NNG_ECLOSED)
				break;
			continue;
		}
		nng_msg *m = nng_aio_get_msg(u.aio);
		side_handle(sd, m);
		nng_msg_free(m);
	}
	sd->recv_done = 1;
}

// stop the receiver task of a side (its receive has no timeout) and release its aio
static void
side_stop_receiver(Side *sd)
{
	sd->stop = 1;
	if (!sd->recv_done)
		nng_aio_cancel(sd->rx->aio);
}

static void
account(Stream &st, bool loss_excused)
{
	int accepted = 0, lost = 0, unacc_delivered = 0;
	for (auto &s : st.sent) {
		if (s.accepted)
			accepted++;
		if (s.accepted && s.got == 0)
			lost++;
		if (!s.accepted && s.got > 0)
			unacc_delivered++;
	}
	sim_stat("accepted", accepted);
	sim_stat("delivered", st.delivered);
	sim_stat("lost", lost);
	if (lost > 0 && !loss_excused)
		sim_probe("c01_lost_no_fault");
	if (lost > 0 && loss_excused)
		sim_probe("c01_lost_excused");
	if (unacc_delivered)
		sim_probe("c01_refused_send_delivered");
	if (st.skipped)
		sim_probe("c01_gap_in_order");
	if (st.delivered > 0)
		sim_stat("nontrivial", 1);
}

// -------------------------------------------------------------- c01_link ---
static void
net_cfg(sim_config *cfg, Params *p, bool wire)
{
	long   net    = p->draw("net", 0, 6);
	size_t maxsz  = 262144;
	long   budget = 600000;
	switch (net) {
	case 0: // whole segments
		break;
	case 1: // each transfer: whole, one byte, or 1..16 bytes
		cfg->seg_mode = 3;
		maxsz         = 3000;
		budget        = 9000;
		break;
	case 2: // random 1..k bytes, with latency between segments
		cfg->seg_mode   = 2;
		cfg->seg_k      = (int) (1 + p->draw("segk", 0, 11));
		cfg->lat_min_ns = 10000;
		cfg->lat_max_ns = 2000000;
		maxsz           = (size_t) (40 * cfg->seg_k);
		budget          = 400 * cfg->seg_k;
		break;
	case 3: // one byte at a time, EAGAIN between partial transfers
		cfg->seg_mode = 1;
		cfg->eagain_p = 0.05;
		maxsz         = 160;
		budget        = 900;
		break;
	case 4: { // small kernel buffers: partial writes wherever the space ends
		// (never below 8: both ends write their 8-byte SP greeting before they read)
		static const uint32_t lo[] = { 8, 9, 13, 24, 64, 1000 };
		long                  k    = p->draw("sndbuf", 0, 5);
		cfg->sndbuf_min            = lo[k];
		cfg->sndbuf_max            = lo[k] * 3;
		maxsz                      = lo[k] * 60;
		budget                     = (long) lo[k] * 400;
		if (maxsz > 65537)
			maxsz = 65537;
		break;
	}
	case 5: // big random pieces, EAGAIN, latency
		cfg->seg_mode   = 2;
		cfg->seg_k      = 1500;
		cfg->eagain_p   = 0.1;
		cfg->lat_min_ns = 1000;
		cfg->lat_max_ns = 500000;
		maxsz           = 70000;
		budget          = 300000;
		break;
	default: // medium pieces crossing every boundary of small frames
		cfg->seg_mode   = 2;
		cfg->seg_k      = 40;
		cfg->sndbuf_min = 30;
		cfg->sndbuf_max = 3000;
		cfg->eagain_p   = 0.02;
		maxsz           = 2500;
		budget          = 20000;
		break;
	}
	(void) wire;
	p->set("maxsz", (long) maxsz);
	p->set("budget", budget);
}

static void
link_cfg(sim_config *cfg, Params *p)
{
	net_cfg(cfg, p, false);
}

// ws: draw the largest frame nng may send, so that continuation frames occur;
// returns the message size cap that keeps the frame count of a run bounded
static size_t
ws_frag_draw(size_t *v)
{
	static const size_t fs[] = { 0, 1, 2, 7, 125, 126, 127, 1000, 65535, 65536 };
	long                k    = W(0, 10);
	if (k == 0)
		return SIZE_MAX; // library default
	*v = fs[k - 1];
	return *v == 0 ? SIZE_MAX : *v * 150;
}
static size_t
ws_frame_opts_listener(nng_listener l)
{
	size_t v   = 0;
	size_t cap = ws_frag_draw(&v);
	if (cap == SIZE_MAX && v == 0 && W(0, 1) == 0)
		return cap;
	if (nng_listener_set_size(l, NNG_OPT_WS_SENDMAXFRAME, v) != 0)
		sim_probe("c01_ws_opt_refused");
	else
		sim_event("ws listener txframe-max=%zu", v);
	return cap;
}
static size_t
ws_frame_opts_dialer(nng_dialer d)
{
	size_t v   = 0;
	size_t cap = ws_frag_draw(&v);
	if (cap == SIZE_MAX && v == 0 && W(0, 1) == 0)
		return cap;
	if (nng_dialer_set_size(d, NNG_OPT_WS_SENDMAXFRAME, v) != 0)
		sim_probe("c01_ws_opt_refused");
	else
		sim_event("ws dialer txframe-max=%zu", v);
	return cap;
}

static bool
wait_pipes(Side *a, Side *b, int ms)
{
	for (int i = 0; i < ms; i++) {
		if (a->cur_pipe != 0 && (b == NULL || b->cur_pipe != 0))
			return true;
		sim_sleep_ms(1);
	}
	return a->cur_pipe != 0 && (b == NULL || b->cur_pipe != 0);
}

static void
common_sockopts(Side *sd)
{
	MUST(nng_socket_set_ms(sd->s, NNG_OPT_SENDTIMEO, sd->send_tmo_ms));
	MUST(nng_socket_set_ms(sd->s, NNG_OPT_RECONNMINT, 5));
	MUST(nng_socket_set_ms(sd->s, NNG_OPT_RECONNMAXT, 20));
	MUST(nng_socket_set_size(sd->s, NNG_OPT_RECVMAXSZ, W(0, 1) ? (size_t) 1 << 20 : 0));
	long sb = W(0, 4);
	if (sb > 0)
		MUST(nng_socket_set_int(sd->s, NNG_OPT_SENDBUF, (int) (sb - 1)));
	long rb = W(0, 4);
	if (rb > 0)
		MUST(nng_socket_set_int(sd->s, NNG_OPT_RECVBUF, (int) (rb - 1)));
	MUST(nng_pipe_notify(sd->s, NNG_PIPE_EV_ADD_POST, pipe_cb, sd));
	MUST(nng_pipe_notify(sd->s, NNG_PIPE_EV_REM_POST, pipe_cb, sd));
}

static void
link_run(Params *p)
{
	g_salt   = (uint64_t) W(0, 1 << 30);
	int tr   = (int) p->draw("tr", 0, 6);
	int kind = (int) p->draw("kind", 0, 4);
	int ra, rb;
	switch (kind) {
	case 0:
		ra = rb = R_PAIR0;
		break;
	case 1:
		ra = rb = R_PAIR1;
		break;
	case 2:
		ra = R_REQRAW;
		rb = R_REPRAW;
		break;
	case 3:
		ra = rb = R_PAIR1RAW;
		break;
	default:
		ra = R_PAIR0RAW;
		rb = W(0, 1) ? R_PAIR0RAW : R_PAIR0;
		break;
	}
	Stream ab("A>B", 1), ba("B>A", 2);
	Side   A, B;
	side_init(&A, "A", ra, &ab, &ba);
	side_init(&B, "B", rb, &ba, &ab);
	long budget = p->i("budget", 600000);
	A.budget = B.budget = &budget;
	A.maxsz = B.maxsz = (size_t) p->i("maxsz", 262144);
	int chaos         = tr == TRX_SOCKFD ? 0 : (int) F(0, 3);
	if (chaos == 3)
		chaos = 0;
	if (chaos)
		A.send_tmo_ms = B.send_tmo_ms = 1500;
	role_open(&A.s, ra);
	role_open(&B.s, rb);
	common_sockopts(&A);
	common_sockopts(&B);

	bool a_listens = W(0, 1) == 0;
	Side *lst = a_listens ? &A : &B, *dl = a_listens ? &B : &A;
	sim_event("c01_link tr=%s A=%s B=%s listener=%s maxsz=%zu chaos=%d", trx_name(tr), role_name(ra),
	    role_name(rb), lst->nm, A.maxsz, chaos);
	if (tr == TRX_SOCKFD) {
		int fds[2];
		if (socketpair(AF_UNIX, SOCK_STREAM, 0, fds) != 0)
			h_fatal("socketpair failed: %d", errno);
		nng_listener la, lb;
		MUST(nng_listener_create(&la, A.s, "socket://"));
		MUST(nng_listener_create(&lb, B.s, "socket://"));
		MUST(nng_listener_start(la, 0));
		MUST(nng_listener_start(lb, 0));
		MUST(nng_listener_set_int(la, NNG_OPT_SOCKET_FD, fds[0]));
		MUST(nng_listener_set_int(lb, NNG_OPT_SOCKET_FD, fds[1]));
	} else {
		std::string  url = h_url(tr, 1);
		nng_listener l;
		nng_dialer   d;
		MUST(nng_listener_create(&l, lst->s, url.c_str()));
		if (tr == TR_WS)
			lst->maxsz = std::min(lst->maxsz, ws_frame_opts_listener(l));
		MUST(nng_listener_start(l, 0));
		MUST(nng_dialer_create(&d, dl->s, url.c_str()));
		if (tr == TR_WS)
			dl->maxsz = std::min(dl->maxsz, ws_frame_opts_dialer(d));
		MUST(nng_dialer_start(d, NNG_FLAG_NONBLOCK));
	}
	if (!wait_pipes(&A, &B, 5000))
		sim_inconclusive("link did not come up");

	int total = (int) W(1, 36);
	A.nsend   = (int) W(0, total);
	B.nsend   = total - A.nsend;
	A.pace    = (int) W(0, 2);
	B.pace    = (int) W(0, 2);
	sim_spawn("rxA", side_receiver, &A, 0);
	sim_spawn("rxB", side_receiver, &B, 0);
	sim_spawn("txA", side_sender, &A, 0);
	sim_spawn("txB", side_sender, &B, 0);
	for (int c = 0; c < chaos; c++) {
		sim_sleep_ns((uint64_t) F(0, 20000) * 1000);
		if (A.send_done && B.send_done)
			break;
		Side *v = F(0, 1) ? &A : &B;
		if (v->cur_pipe == 0)
			continue;
		if (tr == TR_TCP && F(0, 1)) {
			sim_event("chaos: reset every tcp connection of the link");
			simnet_kill_conns_of(0x7f000001, 5001);
		} else {
			sim_event("chaos: %s closes its pipe %u", v->nm, v->cur_pipe);
			nng_pipe_close(v->pipe);
		}
		sim_probe("c01_conn_killed");
	}
	sim_wait_flag(&A.send_done, 0);
	sim_wait_flag(&B.send_done, 0);
	sim_quiesce(4 * MS);
	sim_quiesce(4 * MS);
	side_stop_receiver(&A);
	side_stop_receiver(&B);
	sim_join_all();
	delete A.rx;
	delete B.rx;
	bool excused = chaos != 0;
	account(ab, excused);
	account(ba, excused || rb == R_REPRAW); // raw REP drops when the pipe's queue is full
	MUST(nng_socket_close(A.s));
	MUST(nng_socket_close(B.s));
}

SCENARIO(c01_link, "C01", link_cfg, link_run);


// ======================================================================
// Raw wire peer
// ======================================================================
static void
sha1(const uint8_t *d, size_t n, uint8_t out[20])
{
	uint32_t h[5] = { 0x67452301u, 0xEFCDAB89u, 0x98BADCFEu, 0x10325476u, 0xC3D2E1F0u };
	Bytes    m(d, d + n);
	m.push_back(0x80);
	while (m.size() % 64 != 56)
		m.push_back(0);
	put_be64(m, (uint64_t) n * 8);
	for (size_t off = 0; off < m.size(); off += 64) {
		uint32_t w[80];
		for (int i = 0; i < 16; i++)
			w[i] = get_be32(&m[off + 4 * (size_t) i]);
		for (int i = 16; i < 80; i++) {
			uint32_t x = w[i - 3] ^ w[i - 8] ^ w[i - 14] ^ w[i - 16];
			w[i]       = (x << 1) | (x >> 31);
		}
		uint32_t a = h[0], b = h[1], c = h[2], dd = h[3], e = h[4];
		for (int i = 0; i < 80; i++) {
			uint32_t f, k;
			if (i < 20) {
				f = (b & c) | (~b & dd);
				k = 0x5A827999u;
			} else if (i < 40) {
				f = b ^ c ^ dd;
				k = 0x6ED9EBA1u;
			} else if (i < 60) {
				f = (b & c) | (b & dd) | (c & dd);
				k = 0x8F1BBCDCu;
			} else {
				f = b ^ c ^ dd;
				k = 0xCA62C1D6u;
			}
			uint32_t t = ((a << 5) | (a >> 27)) + f + e + k + w[i];
			e          = dd;
			dd         = c;
			c          = (b << 30) | (b >> 2);
			b          = a;
			a          = t;
		}
		h[0] += a;
		h[1] += b;
		h[2] += c;
		h[3] += dd;
		h[4] += e;
	}
	for (int i = 0; i < 5; i++) {
		out[4 * i]     = (uint8_t) (h[i] >> 24);
		out[4 * i + 1] = (uint8_t) (h[i] >> 16);
		out[4 * i + 2] = (uint8_t) (h[i] >> 8);
		out[4 * i + 3] = (uint8_t) h[i];
	}
}

static std::string
b64(const uint8_t *d, size_t n)
{
	static const char *T = "ABCDEFGHIJKLMNOPQRSTUVWXYZabcdefghijklmnopqrstuvwxyz0123456789+/";
	std::string        o;
	for (size_t i = 0; i < n; i += 3) {
		uint32_t v = (uint32_t) d[i] << 16;
		if (i + 1 < n)
			v |= (uint32_t) d[i + 1] << 8;
		if (i + 2 < n)
			v |= d[i + 2];
		o += T[(v >> 18) & 63];
		o += T[(v >> 12) & 63];
		o += i + 1 < n ? T[(v >> 6) & 63] : '=';
		o += i + 2 < n ? T[v & 63] : '=';
	}
	return o;
}

struct Wire {
	int      tr;
	bool     nng_listens;
	int      nng_role;
	int      idx;
	int      lfd, fd;
	bool     ws;
	bool     we_are_client; // ws: the client masks
	int      gen;
	volatile int up, ready, stop, reader_parked, reader_running, writer_done;
	uint64_t nrd, nwr;
	size_t   fr_pos; // bytes of an incomplete frame/message read so far
	std::deque<Bytes> pings;
	Stream  *to_nng, *from_nng;
	Side    *N;
	int      nsend;
	size_t   maxsz;
	long    *budget;
	int      kills_left, kills_done, hangups;
	int      wpace, rpace;
	Prng     rng;
	Wire() : rng(0) { }
};

static void
wire_init(Wire &w, int tr, bool nng_listens, int role, int idx)
{
	w.tr            = tr;
	w.nng_listens   = nng_listens;
	w.nng_role      = role;
	w.idx           = idx;
	w.lfd = w.fd    = -1;
	w.ws            = tr == TR_WS;
	w.we_are_client = nng_listens;
	w.gen           = 0;
	w.up = w.ready = w.stop = w.reader_parked = w.reader_running = w.writer_done = 0;
	w.nrd = w.nwr = 0;
	w.fr_pos      = 0;
	w.to_nng = w.from_nng = NULL;
	w.N           = NULL;
	w.nsend       = 0;
	w.maxsz       = 0;
	w.budget      = NULL;
	w.kills_left = w.kills_done = w.hangups = 0;
	w.wpace = w.rpace = 0;
	w.rng             = Prng(g_salt ^ 0x77697265ull);
}

static socklen_t
wire_addr(const Wire &w, struct sockaddr_storage *ss)
{
	memset(ss, 0, sizeof(*ss));
	if (w.tr == TR_IPC || w.tr == TR_ABSTRACT) {
		struct sockaddr_un *un = (struct sockaddr_un *) ss;
		un->sun_family         = AF_UNIX;
		if (w.tr == TR_IPC) {
			snprintf(un->sun_path, sizeof(un->sun_path), "/sim/sock%d", w.idx);
			return (socklen_t) sizeof(*un);
		}
		char nm[32];
		int  k = snprintf(nm, sizeof(nm), "sim%d", w.idx);
		memcpy(un->sun_path + 1, nm, (size_t) k);
		return (socklen_t) (offsetof(struct sockaddr_un, sun_path) + 1 + (size_t) k);
	}
	struct sockaddr_in *in = (struct sockaddr_in *) ss;
	in->sin_family         = AF_INET;
	in->sin_port           = htons((uint16_t) ((w.tr == TR_WS ? 8000 : 5000) + w.idx));
	in->sin_addr.s_addr    = htonl(0x7f000001);
	return (socklen_t) sizeof(*in);
}

// read exactly n bytes of connection generation g.
// 1 ok, 0 EOF/error, -1 given up (stop, connection being replaced, idle too long)
static int
wr_read(Wire &w, int g, uint8_t *buf, size_t n, int max_idle_ms)
{
	size_t off  = 0;
	int    idle = 0;
	while (off < n) {
		if (w.stop || !w.up || w.gen != g)
			return -1;
		errno  = 0;
		long r = simnet_read_blocking(w.fd, buf + off, n - off, 20 * MS);
		if (r > 0) {
			off += (size_t) r;
			w.nrd += (uint64_t) r;
			w.fr_pos += (size_t) r;
			idle = 0;
			continue;
		}
		if (r == 0)
			return 0;
		if (errno == ETIMEDOUT) {
			idle += 20;
			if (max_idle_ms > 0 && idle >= max_idle_ms)
				return -1;
			continue;
		}
		return 0;
	}
	return 1;
}

static bool
wr_write(Wire &w, const uint8_t *p, size_t n)
{
	if (n == 0)
		return true;
	long r = simnet_write_full(w.fd, p, n, 20 * SEC);
	if (r > 0)
		w.nwr += (uint64_t) r;
	return r == (long) n;
}

// read up to and including CRLFCRLF, one byte at a time (never past the end)
static bool
wr_read_http_head(Wire &w, std::string &head)
{
	head.clear();
	while (head.size() < 4096) {
		uint8_t c;
		if (wr_read(w, w.gen, &c, 1, 5000) != 1)
			return false;
		head += (char) c;
		size_t k = head.size();
		if (k >= 4 && head.compare(k - 4, 4, "\r\n\r\n") == 0)
			return true;
	}
	return false;
}

static std::string
http_header_value(const std::string &head, const char *name)
{
	std::string low = head, nm = name;
	for (auto &c : low)
		c = (char) tolower((unsigned char) c);
	for (auto &c : nm)
		c = (char) tolower((unsigned char) c);
	size_t pos = low.find("\r\n" + nm + ":");
	if (pos == std::string::npos)
		return "";
	pos += 2 + nm.size() + 1;
	size_t e = head.find("\r\n", pos);
	std::string v = head.substr(pos, e - pos);
	while (!v.empty() && v[0] == ' ')
		v.erase(0, 1);
	while (!v.empty() && v.back() == ' ')
		v.pop_back();
	return v;
}

// write a small byte string in 1..3 pieces
static bool
wr_write_pieces(Wire &w, const uint8_t *p, size_t n)
{
	size_t off = 0;
	int    k   = (int) W(0, 2);
	for (int i = 0; i < k && off < n; i++) {
		size_t c = (size_t) W(0, (long) (n - off));
		if (!wr_write(w, p + off, c))
			return false;
		off += c;
		if (W(0, 1))
			sim_sleep_ns((uint64_t) W(0, 500) * 1000);
	}
	return wr_write(w, p + off, n - off);
}

// bring up one connection between the raw peer and nng (the nng endpoint exists)
static bool
wire_establish(Wire &w, int fd_given)
{
	w.nrd = w.nwr = 0;
	w.fr_pos      = 0;
	w.pings.clear();
	if (w.tr == TRX_SOCKFD) {
		w.fd = fd_given;
	} else if (w.nng_listens) {
		struct sockaddr_storage ss;
		socklen_t               sl = wire_addr(w, &ss);
		int                     fd = -1;
		for (int tries = 0; tries < 200; tries++) {
			fd = simnet_socket(ss.ss_family, SOCK_STREAM);
			if (fd < 0)
				h_fatal("raw peer: socket() failed %d", errno);
			if (simnet_connect_blocking(fd, &ss, sl, 5 * SEC) == 0)
				break;
			close(fd);
			fd = -1;
			sim_sleep_ms(5);
		}
		if (fd < 0)
			return false;
		w.fd = fd;
	} else {
		int fd = simnet_accept_blocking(w.lfd, 5 * SEC);
		if (fd < 0)
			return false;
		w.fd = fd;
	}
	w.gen++;
	w.up = 1; // wr_read/wr_write need it
	int g = w.gen;
	if (!w.ws) {
		uint8_t hello[8] = { 0, 'S', 'P', 0, 0, 0, 0, 0 };
		hello[4]         = (uint8_t) (role_peer_proto(w.nng_role) >> 8);
		hello[5]         = (uint8_t) role_peer_proto(w.nng_role);
		uint8_t got[8];
		if (!wr_write_pieces(w, hello, 8) || wr_read(w, g, got, 8, 5000) != 1) {
			w.up = 0;
			return false;
		}
		uint8_t want[8] = { 0, 'S', 'P', 0, 0, 0, 0, 0 };
		want[4]         = (uint8_t) (role_proto(w.nng_role) >> 8);
		want[5]         = (uint8_t) role_proto(w.nng_role);
		if (memcmp(got, want, 8) != 0)
			VIOL("altered_framing", "SP greeting from nng is %s, expected %s", h_hex(got, 8).c_str(),
			    h_hex(want, 8).c_str());
	} else if (w.we_are_client) {
		char req[512];
		int  k = snprintf(req, sizeof(req),
		     "GET /p%d HTTP/1.1\r\nHost: 127.0.0.1:%d\r\nUpgrade: websocket\r\n"
		     "Connection: Upgrade\r\nSec-WebSocket-Key: dGhlIHNhbXBsZSBub25jZQ==\r\n"
		     "Sec-WebSocket-Version: 13\r\nSec-WebSocket-Protocol: %s.sp.nanomsg.org\r\n\r\n",
		     w.idx, 8000 + w.idx, role_ws_name(w.nng_role));
		std::string head;
		if (!wr_write_pieces(w, (const uint8_t *) req, (size_t) k) || !wr_read_http_head(w, head)) {
			w.up = 0;
			return false;
		}
		if (head.compare(0, 12, "HTTP/1.1 101") != 0)
			h_fatal("raw ws client: upgrade refused: %.80s", head.c_str());
		if (http_header_value(head, "Sec-WebSocket-Accept") != "s3pPLMBiTxaQ9kYGzzhZRbK+xOo=")
			sim_probe("c01_ws_accept_unexpected");
	} else {
		std::string head;
		if (!wr_read_http_head(w, head)) {
			w.up = 0;
			return false;
		}
		std::string key   = http_header_value(head, "Sec-WebSocket-Key");
		std::string proto = http_header_value(head, "Sec-WebSocket-Protocol");
		std::string cat   = key + "258EAFA5-E914-47DA-95CA-C5AB0DC85B11";
		uint8_t     dg[20];
		sha1((const uint8_t *) cat.data(), cat.size(), dg);
		std::string want = std::string(role_ws_peer_name(w.nng_role)) + ".sp.nanomsg.org";
		if (proto != want)
			sim_probe("c01_ws_proto_unexpected");
		std::string res = "HTTP/1.1 101 Switching Protocols\r\nUpgrade: websocket\r\nConnection: Upgrade\r\n"
		                  "Sec-WebSocket-Accept: " +
		    b64(dg, 20) + "\r\nSec-WebSocket-Protocol: " + proto + "\r\n\r\n";
		if (!wr_write_pieces(w, (const uint8_t *) res.data(), res.size())) {
			w.up = 0;
			return false;
		}
	}
	w.fr_pos = 0;
	w.ready  = 1; // the reader task may take over the receive direction
	sim_event("wire: connection %d established (%s, nng %s)", w.gen, trx_name(w.tr),
	    w.nng_listens ? "listens" : "dials");
	return true;
}

static void
wire_listen(Wire &w)
{
	struct sockaddr_storage ss;
	socklen_t               sl = wire_addr(w, &ss);
	w.lfd                      = simnet_socket(ss.ss_family, SOCK_STREAM);
	if (w.lfd < 0 || bind(w.lfd, (struct sockaddr *) &ss, sl) != 0 || listen(w.lfd, 8) != 0)
		h_fatal("raw peer: cannot listen (errno %d)", errno);
}

// ---- encoding -----------------------------------------------------------
static void
ws_put_frame(Bytes &out, uint8_t op, bool fin, const uint8_t *p, size_t n, bool mask, Prng &r)
{
	out.push_back((uint8_t) ((fin ? 0x80 : 0) | op));
	uint8_t mb = mask ? 0x80 : 0;
	if (n < 126) {
		out.push_back((uint8_t) (mb | n));
	} else if (n < 65536) {
		out.push_back((uint8_t) (mb | 126));
		out.push_back((uint8_t) (n >> 8));
		out.push_back((uint8_t) n);
	} else {
		out.push_back((uint8_t) (mb | 127));
		put_be64(out, (uint64_t) n);
	}
	uint8_t key[4] = { 0, 0, 0, 0 };
	if (mask) {
		for (int i = 0; i < 4; i++)
			key[i] = r.byte();
		out.insert(out.end(), key, key + 4);
	}
	size_t o = out.size();
	out.insert(out.end(), p, p + n);
	if (mask)
		for (size_t i = 0; i < n; i++)
			out[o + i] ^= key[i & 3];
}

// append the frame(s) of one message; marks = offsets worth cutting around
// fragspec: -1 draw the ws fragmentation, 0 one frame, 1 two fragments with a PING between
static void
wire_encode(Wire &w, Bytes &out, const Bytes &payload, std::vector<size_t> &marks, int fragspec)
{
	marks.push_back(out.size());
	if (!w.ws) {
		if (w.tr == TR_IPC || w.tr == TR_ABSTRACT)
			out.push_back(1);
		put_be64(out, (uint64_t) payload.size());
		marks.push_back(out.size());
		out.insert(out.end(), payload.begin(), payload.end());
		return;
	}
	int nfr = 1;
	if (fragspec < 0 && W(0, 2) == 0)
		nfr += (int) W(0, 3);
	if (fragspec == 1)
		nfr = 2;
	std::vector<size_t> cuts;
	for (int i = 1; i < nfr; i++)
		cuts.push_back(fragspec == 1 ? payload.size() / 2 : (size_t) W(0, (long) payload.size()));
	std::sort(cuts.begin(), cuts.end());
	cuts.push_back(payload.size());
	size_t off = 0;
	for (int i = 0; i < nfr; i++) {
		size_t end = cuts[(size_t) i];
		marks.push_back(out.size());
		ws_put_frame(out, i == 0 ? 2 : 0, i == nfr - 1, payload.data() + off, end - off, w.we_are_client,
		    w.rng);
		if (i > 0)
			sim_probe("c01_ws_cont_frame_to_nng");
		off = end;
		if (i < nfr - 1 && (fragspec == 1 || W(0, 2) == 0)) {
			// control frame between the fragments of a message
			Bytes  cp;
			size_t cl = fragspec == 1 ? 3 : (size_t) W(0, 12);
			for (size_t k = 0; k < cl; k++)
				cp.push_back(w.rng.byte());
			bool ping = fragspec == 1 || W(0, 1) == 0;
			marks.push_back(out.size());
			ws_put_frame(out, ping ? 9 : 10, true, cp.data(), cp.size(), w.we_are_client, w.rng);
			if (ping)
				w.pings.push_back(cp);
			sim_probe("c01_ws_control_inside_fragment");
		}
	}
}

// 1 message read, 0 EOF / connection error / CLOSE frame, -1 given up
static int
wire_read_msg(Wire &w, int g, Bytes &payload, int max_idle_ms)
{
	payload.clear();
	int r;
	if (!w.ws) {
		uint8_t hd[9];
		size_t  hl = (w.tr == TR_IPC || w.tr == TR_ABSTRACT) ? 9 : 8;
		if ((r = wr_read(w, g, hd, hl, max_idle_ms)) != 1)
			return r;
		if (hl == 9 && hd[0] != 1)
			VIOL("altered_framing",
			    "wire: nng emitted message type octet 0x%02x at stream offset %llu (SP/IPC frames "
			    "start with 0x01)",
			    hd[0], (unsigned long long) (w.nrd - hl));
		uint64_t len = 0;
		for (size_t i = hl - 8; i < hl; i++)
			len = (len << 8) | hd[i];
		if (len > (4u << 20))
			VIOL("altered_framing",
			    "wire: nng emitted a length prefix of %llu bytes at stream offset %llu; no message of "
			    "that size was sent",
			    (unsigned long long) len, (unsigned long long) (w.nrd - hl));
		payload.resize((size_t) len);
		size_t off = 0;
		while (off < len) {
			size_t c = (size_t) len - off;
			if (w.rpace == 2 && c > 1) {
				c = 1 + (size_t) (w.rng.byte() | ((size_t) w.rng.byte() << 8)) % c;
				if ((w.rng.byte() & 3) == 0)
					sim_sleep_ns((uint64_t) w.rng.byte() * 4000);
			}
			if ((r = wr_read(w, g, payload.data() + off, c, max_idle_ms)) != 1)
				return r;
			off += c;
		}
		w.fr_pos = 0;
		return 1;
	}
	bool in_msg = false;
	for (;;) {
		uint8_t h[2];
		if ((r = wr_read(w, g, h, 2, max_idle_ms)) != 1)
			return r;
		uint64_t at = w.nrd - 2;
		if (h[0] & 0x70)
			VIOL("altered_framing", "wire: ws frame at stream offset %llu has reserved bits set (%02x %02x)",
			    (unsigned long long) at, h[0], h[1]);
		uint8_t  op     = h[0] & 0x0f;
		bool     fin    = (h[0] & 0x80) != 0;
		bool     masked = (h[1] & 0x80) != 0;
		uint64_t len    = h[1] & 0x7f;
		if (masked != !w.we_are_client)
			VIOL("altered_framing", "wire: ws frame at stream offset %llu is %smasked but nng is the %s",
			    (unsigned long long) at, masked ? "" : "not ", w.we_are_client ? "server" : "client");
		if (len == 126) {
			uint8_t e[2];
			if ((r = wr_read(w, g, e, 2, max_idle_ms)) != 1)
				return r;
			len = ((uint64_t) e[0] << 8) | e[1];
		} else if (len == 127) {
			uint8_t e[8];
			if ((r = wr_read(w, g, e, 8, max_idle_ms)) != 1)
				return r;
			len = 0;
			for (int i = 0; i < 8; i++)
				len = (len << 8) | e[i];
		}
		if (len > (4u << 20))
			VIOL("altered_framing", "wire: ws frame at stream offset %llu announces %llu bytes",
			    (unsigned long long) at, (unsigned long long) len);
		uint8_t key[4] = { 0, 0, 0, 0 };
		if (masked && (r = wr_read(w, g, key, 4, max_idle_ms)) != 1)
			return r;
		Bytes data((size_t) len);
		if (len > 0 && (r = wr_read(w, g, data.data(), (size_t) len, max_idle_ms)) != 1)
			return r;
		if (masked)
			for (size_t i = 0; i < data.size(); i++)
				data[i] ^= key[i & 3];
		switch (op) {
		case 2:
			if (in_msg)
				VIOL("altered_framing",
				    "wire: ws BINARY frame at stream offset %llu starts a message inside an "
				    "unfinished fragmented message",
				    (unsigned long long) at);
			payload = data;
			in_msg  = !fin;
			if (fin) {
				w.fr_pos = 0;
				return 1;
			}
			break;
		case 0:
			if (!in_msg)
				VIOL("altered_framing",
				    "wire: ws continuation frame at stream offset %llu without a message to continue",
				    (unsigned long long) at);
			payload.insert(payload.end(), data.begin(), data.end());
			sim_probe("c01_ws_cont_frame_from_nng");
			if (fin) {
				w.fr_pos = 0;
				return 1;
			}
			break;
		case 9:
			sim_probe("c01_ws_ping_from_nng");
			if (!in_msg)
				w.fr_pos = 0;
			break;
		case 10:
		{
			// nng answers a PING with a PONG carrying the same bytes (not
			// necessarily in PING order: it queues control frames at the head)
			auto it = std::find(w.pings.begin(), w.pings.end(), data);
			if (it != w.pings.end()) {
				w.pings.erase(it);
				sim_probe("c01_ws_pong_ok");
			} else {
				sim_probe("c01_ws_pong_unexpected");
			}
		}
			if (!in_msg)
				w.fr_pos = 0;
			break;
		case 8:
			w.fr_pos = 0;
			return 0;
		default:
			VIOL("altered_framing", "wire: ws frame at stream offset %llu has opcode %u", (unsigned long long) at,
			    op);
		}
	}
}

// message the raw peer sends to an nng socket of role `role`
struct WIn {
	Bytes    payload, flat;
	size_t   split;
	uint32_t aux;
};
static WIn
build_wire_in(int role, size_t paylen, uint16_t origin, uint32_t serial, long sel = -1)
{
	WIn wi;
	wi.split = SIZE_MAX;
	wi.aux   = 0;
	Prng r(g_salt * 2654435761ull + ((uint64_t) origin << 32) + serial);
	switch (role) {
	case R_PAIR0:
	case R_PAIR0RAW:
		put_payload(wi.payload, paylen, origin, serial);
		wi.flat = wi.payload;
		break;
	case R_PAIR1:
	case R_PAIR1RAW:
		wi.aux = (uint32_t) pick(sel, 7) + 1;
		put_be32(wi.payload, wi.aux);
		put_payload(wi.payload, paylen, origin, serial);
		wi.flat.assign(wi.payload.begin() + 4, wi.payload.end());
		break;
	default: {
		int j = (int) pick(sel, role == R_REPRAW ? 14 : 15);
		put_backtrace(wi.payload, j, r);
		wi.split = wi.payload.size();
		put_payload(wi.payload, paylen, origin, serial);
		wi.flat = wi.payload;
		break;
	}
	}
	return wi;
}

// what the raw peer read from an nng socket of role `role`, protocol prefix removed
static Bytes
wire_flat(int role, const Bytes &payload, uint32_t *hop)
{
	*hop = 0;
	if ((role == R_PAIR1 || role == R_PAIR1RAW) && payload.size() >= 4) {
		*hop = get_be32(payload.data());
		return Bytes(payload.begin() + 4, payload.end());
	}
	return payload;
}

static void
wire_judge_from_nng(Wire &w, const Bytes &payload)
{
	uint32_t hop;
	Bytes    f   = wire_flat(w.nng_role, payload, &hop);
	long     idx = judge(*w.from_nng, f.data(), f.size(), (uint64_t) w.gen, "wire");
	const SentMsg &s = w.from_nng->sent[(size_t) idx];
	if (s.aux != 0 && s.aux != hop && f.size() >= 8)
		sim_probe("c01_hop_differs");
	if (w.nng_role == R_PAIR1 && hop != 1)
		sim_probe("c01_hop_differs");
}

// write S[0..limit) in pieces
static size_t
wire_write_cut(Wire &w, const Bytes &S, const std::vector<size_t> &marks, size_t limit)
{
	std::set<size_t> cuts;
	long             mode = W(0, 5);
	switch (mode) {
	case 0:
		break;
	case 1:
		for (long i = W(0, 3); i >= 0; i--)
			cuts.insert((size_t) W(0, (long) S.size()));
		break;
	case 2:
		for (size_t m : marks) {
			long d = W(0, 3);
			if (d == 3)
				continue;
			size_t c = m + (size_t) d; // m, m+1, m+2 ...
			if (c >= 1)
				cuts.insert(c - 1); // ... i.e. m-1, m, m+1
		}
		break;
	case 3: {
		size_t step = S.size() <= 96 ? 1 : 1 + S.size() / 96 + (size_t) W(0, 64);
		for (size_t c = step; c < S.size(); c += step)
			cuts.insert(c);
		break;
	}
	case 4:
		cuts.insert((size_t) W(0, 10));
		break;
	default:
		for (size_t m : marks)
			cuts.insert(m);
		break;
	}
	long   pause = W(0, 3);
	size_t off   = 0;
	cuts.insert(limit);
	for (size_t c : cuts) {
		if (c > limit)
			break;
		if (c <= off)
			continue;
		if (!wr_write(w, S.data() + off, c - off))
			return off;
		off = c;
		if (off >= limit)
			break;
		sim_probe("c01_wire_write_cut");
		switch (pause) {
		case 1:
			sim_yield();
			break;
		case 2:
			sim_sleep_ns((uint64_t) W(0, 1500) * 1000);
			break;
		case 3:
			sim_quiesce(200000);
			break;
		default:
			break;
		}
	}
	return off;
}

static void
wire_drop_conn(Wire &w, bool reset)
{
	w.ready = 0;
	w.up    = 0;
	for (int i = 0; i < 5000 && w.reader_running && !w.reader_parked; i++)
		sim_sleep_ms(1);
	if (w.fd >= 0) {
		if (reset)
			simnet_reset(w.fd);
		else
			close(w.fd);
		w.fd = -1;
	}
}

static void
wire_reader(void *arg)
{
	Wire &w          = *(Wire *) arg;
	w.reader_running = 1;
	Bytes payload;
	while (!w.stop) {
		if (!w.up || !w.ready) {
			w.reader_parked = 1;
			sim_wait_flag(&w.ready, 20 * MS);
			continue;
		}
		w.reader_parked = 0;
		int g           = w.gen;
		if (w.rpace == 1 && (w.rng.byte() & 1))
			sim_sleep_ns((uint64_t) w.rng.byte() * 12000);
		int r = wire_read_msg(w, g, payload, 0);
		if (r == 1) {
			wire_judge_from_nng(w, payload);
		} else if (r == 0 && w.up && w.gen == g && !w.stop) {
			// nng ended the connection although the peer did nothing wrong
			sim_event("wire: nng hung up on connection %d", g);
			sim_probe("c01_nng_hung_up");
			w.hangups++;
			w.ready = 0;
			w.up    = 0;
		}
	}
	w.reader_parked  = 1;
	w.reader_running = 0;
}

static void
wire_writer(void *arg)
{
	Wire &w         = *(Wire *) arg;
	int   remaining = w.nsend;
	while (remaining > 0 && !w.stop) {
		if (!w.up) {
			if (w.tr == TRX_SOCKFD)
				break;
			wire_drop_conn(w, false);
			if (!wire_establish(w, -1)) {
				sim_event("wire: could not re-establish the connection");
				break;
			}
		}
		int nb = 1;
		if (W(0, 3) == 0)
			nb += (int) W(0, 2);
		if (nb > remaining)
			nb = remaining;
		Bytes               S;
		std::vector<size_t> marks, ends;
		size_t              first = w.to_nng->sent.size();
		for (int b = 0; b < nb; b++) {
			size_t n = draw_size(w.maxsz);
			if (w.budget != NULL) {
				if ((long) n > *w.budget)
					n = n % 41;
				*w.budget -= (long) n + 16;
			}
			uint32_t serial = (uint32_t) w.to_nng->sent.size();
			WIn      wi     = build_wire_in(w.nng_role, n, w.to_nng->origin, serial);
			SentMsg  rec;
			rec.serial   = serial;
			rec.flat     = wi.flat;
			rec.split    = wi.split;
			rec.aux      = wi.aux;
			rec.accepted = false;
			rec.got      = 0;
			w.to_nng->sent.push_back(rec);
			if (n == 0)
				sim_probe("c01_zero_len_msg");
			wire_encode(w, S, wi.payload, marks, -1);
			ends.push_back(S.size());
			sim_event("%s: wire send #%u paylen=%zu wire=%zu", w.to_nng->name.c_str(), serial, n,
			    wi.payload.size());
		}
		if (nb > 1)
			sim_probe("c01_wire_batched_frames");
		bool   kill  = w.kills_left > 0 && F(0, 4) == 0;
		size_t limit = kill ? (size_t) F(0, (long) S.size()) : S.size();
		size_t wrote = wire_write_cut(w, S, marks, limit);
		for (int b = 0; b < nb; b++)
			if (ends[(size_t) b] <= wrote)
				w.to_nng->sent[first + (size_t) b].accepted = true;
		remaining -= nb;
		if (kill) {
			bool rst = F(0, 1) != 0;
			sim_event("wire: peer %s connection %d after %zu of %zu bytes of the batch", rst ? "resets" : "closes",
			    w.gen, wrote, S.size());
			w.kills_left--;
			w.kills_done++;
			sim_probe("c01_conn_killed");
			if (wrote > 0 && wrote < S.size())
				sim_probe("c01_conn_killed_mid_frame");
			wire_drop_conn(w, rst);
		} else if (wrote < limit) {
			sim_event("wire: write failed after %zu of %zu bytes (connection %d)", wrote, S.size(), w.gen);
			sim_probe("c01_wire_write_failed");
			w.hangups++;
			w.ready = 0;
			w.up    = 0;
		}
		if (w.wpace == 1 || (w.wpace == 2 && W(0, 2) == 0))
			sim_sleep_ns((uint64_t) W(0, 3000) * 1000);
	}
	w.writer_done = 1;
}

// set up the nng endpoint (and the first connection) for a raw-peer scenario
static void
wire_setup(Wire &w, Side &N)
{
	if (w.tr == TRX_SOCKFD) {
		int fds[2];
		if (socketpair(AF_UNIX, SOCK_STREAM, 0, fds) != 0)
			h_fatal("socketpair failed: %d", errno);
		nng_listener l;
		MUST(nng_listener_create(&l, N.s, "socket://"));
		MUST(nng_listener_start(l, 0));
		MUST(nng_listener_set_int(l, NNG_OPT_SOCKET_FD, fds[0]));
		if (!wire_establish(w, fds[1]))
			sim_inconclusive("raw peer: socket-fd greeting failed");
		return;
	}
	std::string url = h_url(w.tr, w.idx);
	if (w.nng_listens) {
		nng_listener l;
		MUST(nng_listener_create(&l, N.s, url.c_str()));
		if (w.tr == TR_WS)
			N.maxsz = std::min(N.maxsz, ws_frame_opts_listener(l));
		MUST(nng_listener_start(l, 0));
	} else {
		wire_listen(w);
		nng_dialer d;
		MUST(nng_dialer_create(&d, N.s, url.c_str()));
		if (w.tr == TR_WS)
			N.maxsz = std::min(N.maxsz, ws_frame_opts_dialer(d));
		MUST(nng_dialer_start(d, NNG_FLAG_NONBLOCK));
	}
	if (!wire_establish(w, -1))
		sim_inconclusive("raw peer: first connection failed");
}

static void
wire_teardown(Wire &w)
{
	if (w.fd >= 0)
		close(w.fd);
	if (w.lfd >= 0)
		close(w.lfd);
	w.fd = w.lfd = -1;
}

static const int WIRE_TR[] = { TR_TCP, TR_IPC, TR_WS, TRX_SOCKFD, TR_ABSTRACT };

static void
wire_cfg(sim_config *cfg, Params *p)
{
	net_cfg(cfg, p, true);
}

static void
wire_run(Params *p)
{
	g_salt    = (uint64_t) W(0, 1 << 30);
	int  tr   = WIRE_TR[p->draw("tr", 0, 4)];
	int  role = (int) p->draw("role", 0, R_N - 1);
	bool nng_listens = tr == TRX_SOCKFD || W(0, 1) == 0;
	Stream in("W>N", 3), out("N>W", 4);
	Side   N;
	side_init(&N, "N", role, &out, &in);
	N.free_hdr  = true;
	long budget = p->i("budget", 600000);
	N.budget    = &budget;
	N.maxsz     = (size_t) p->i("maxsz", 262144);
	Wire w;
	wire_init(w, tr, nng_listens, role, 2);
	w.to_nng     = &in;
	w.from_nng   = &out;
	w.N          = &N;
	w.budget     = &budget;
	w.maxsz      = N.maxsz;
	w.kills_left = tr == TRX_SOCKFD ? 0 : (int) F(0, 3);
	if (w.kills_left == 3)
		w.kills_left = 0;
	int kills_planned = w.kills_left;
	if (kills_planned)
		N.send_tmo_ms = 1500;
	role_open(&N.s, role);
	common_sockopts(&N);
	sim_event("c01_wire tr=%s nng=%s nng_%s maxsz=%zu kills=%d", trx_name(tr), role_name(role),
	    nng_listens ? "listens" : "dials", N.maxsz, kills_planned);
	wire_setup(w, N);
	if (!wait_pipes(&N, NULL, 5000))
		sim_inconclusive("nng side did not see the connection");
	int total = (int) W(1, 36);
	N.nsend   = (int) W(0, total);
	w.nsend   = total - N.nsend;
	N.pace    = (int) W(0, 2);
	w.wpace   = (int) W(0, 2);
	w.rpace   = (int) W(0, 2);
	sim_spawn("rxN", side_receiver, &N, 0);
	sim_spawn("wrd", wire_reader, &w, 0);
	sim_spawn("txN", side_sender, &N, 0);
	sim_spawn("wwr", wire_writer, &w, 0);
	sim_wait_flag(&N.send_done, 0);
	sim_wait_flag(&w.writer_done, 0);
	sim_quiesce(4 * MS);
	sim_quiesce(4 * MS);
	if (w.up && w.fr_pos > 0)
		VIOL("truncated",
		    "wire: nng went idle after emitting %zu bytes of a frame and the rest never came "
		    "(connection %d, stream offset %llu)",
		    w.fr_pos, w.gen, (unsigned long long) w.nrd);
	w.stop = 1;
	side_stop_receiver(&N);
	sim_join_all();
	delete N.rx;
	bool excused = w.kills_done > 0 || w.hangups > 0;
	account(in, excused);
	account(out, excused || role == R_REPRAW);
	wire_teardown(w);
	MUST(nng_socket_close(N.s));
}

SCENARIO(c01_wire, "C01", wire_cfg, wire_run);


// ======================================================================
// c01_cuts: enumerated cut positions of small frames
// ======================================================================
struct Cuts {
	Wire *w;
	Side *N;
	int   lost_in, lost_out, done_in, done_out;
	bool  dead;    // the connection is gone or a message was lost: nothing more is claimed
	bool  base_ok; // the frame being enumerated got through when it was not split
	bool
	over() const
	{
		return dead;
	}
};

// A message of the enumeration did not get through (`why`).  Nothing in this
// scenario disturbs the connection, and the same frame (same length, same
// header layout) was delivered on this connection when its bytes were not
// split: the outcome depends on how the byte stream was split, which the
// statement excludes ("however the underlying byte stream is split into
// partial reads and partial writes").  Without that reference point nothing
// is claimed ("or not at all").
static void
cuts_failed(Cuts &c, bool baseline, const char *dir, uint32_t serial, const std::string &cut, const char *why)
{
	sim_event("%s: #%u did not get through (%s)", dir, serial, why);
	sim_probe("c01_cut_msg_lost");
	c.dead = true;
	if (!baseline && c.base_ok)
		VIOL("split_dependent",
		    "%s: message #%u did not get through (%s) when its frame was split at %s, although the same "
		    "frame was delivered on this undisturbed connection when it was not split",
		    dir, serial, why, cut.c_str());
}

// one message from the raw peer to nng, written in the pieces given by ks
// (each piece is handed over only after nng has consumed the previous one)
static void
cuts_in(Cuts &c, size_t paylen, long sel, int fragspec, const std::vector<size_t> &ks, size_t *Lp)
{
	bool     baseline = ks.empty();
	Wire    &w      = *c.w;
	Side    &N      = *c.N;
	if (c.over())
		return;
	uint32_t serial = (uint32_t) w.to_nng->sent.size();
	WIn      wi     = build_wire_in(w.nng_role, paylen, w.to_nng->origin, serial, sel);
	SentMsg  rec;
	rec.serial   = serial;
	rec.flat     = wi.flat;
	rec.split    = wi.split;
	rec.aux      = wi.aux;
	rec.accepted = false;
	rec.got      = 0;
	w.to_nng->sent.push_back(rec);
	Bytes               S;
	std::vector<size_t> marks;
	wire_encode(w, S, wi.payload, marks, fragspec);
	if (Lp)
		*Lp = S.size();
	std::string kd;
	for (size_t k : ks)
		kd += (kd.empty() ? "" : ",") + std::to_string(k);
	sim_event("%s: wire send #%u paylen=%zu frame=%zu read cuts at {%s}", w.to_nng->name.c_str(), serial, paylen,
	    S.size(), kd.c_str());
	size_t off = 0;
	for (size_t k : ks) {
		if (k > S.size())
			k = S.size();
		if (k > off) {
			if (!wr_write(w, S.data() + off, k - off))
				return cuts_failed(c, baseline, "W>N", serial, "read offsets {" + kd + "}",
				    "nng hung up while the frame was being written");
			off = k;
		}
		sim_quiesce(300000); // nng has taken everything it can get
		sim_probe("c01_cut_rd_enumerated");
	}
	if (off < S.size() && !wr_write(w, S.data() + off, S.size() - off))
		return cuts_failed(c, baseline, "W>N", serial, "read offsets {" + kd + "}",
		    "nng hung up while the frame was being written");
	w.to_nng->sent[serial].accepted = true;
	nng_msg *m  = NULL;
	int      rv = nng_recvmsg(N.s, &m, 0);
	if (rv != 0) {
		c.lost_in++;
		return cuts_failed(c, baseline, "W>N", serial, "read offsets {" + kd + "}",
		    "nng_recvmsg gave nothing for 5 s after the last byte was written");
	}
	side_handle(&N, m);
	nng_msg_free(m);
	c.done_in++;
	if (baseline)
		c.base_ok = true;
}

// one message from nng to the raw peer; nng's write is cut at stream offset base+k
static void
cuts_out(Cuts &c, size_t paylen, long sel, long k, size_t *Lp)
{
	Wire    &w        = *c.w;
	Side    &N        = *c.N;
	bool     baseline = k < 0;
	if (c.over())
		return;
	uint32_t serial = (uint32_t) N.out->sent.size();
	Out      o      = build_out(N.role, paylen, N.out->origin, serial, N.cur_pipe, true, sel);
	SentMsg  rec;
	rec.serial   = serial;
	rec.flat     = o.flat;
	rec.split    = o.split;
	rec.aux      = o.aux;
	rec.accepted = false;
	rec.got      = 0;
	N.out->sent.push_back(rec);
	uint64_t base = w.nrd;
	if (k >= 0) {
		simnet_set_cut_peer(w.fd, 1, (long) (base + (uint64_t) k));
		sim_probe("c01_cut_wr_enumerated");
	}
	sim_event("%s: N send #%u paylen=%zu hdr=%zu write cut at %ld (stream offset %llu)", N.out->name.c_str(), serial,
	    paylen, o.hdr_len, k, (unsigned long long) (base + (uint64_t) (k < 0 ? 0 : k)));
	int rv = nng_sendmsg(N.s, o.m, 0);
	if (rv != 0) {
		nng_msg_free(o.m);
		sim_event("send refused: %s", nng_strerror((nng_err) rv));
		sim_stat("send_refused", 1);
		return;
	}
	N.out->sent[serial].accepted = true;
	Bytes payload;
	int   r = wire_read_msg(w, w.gen, payload, 5000);
	if (r != 1) {
		if (r == -1 && w.fr_pos > 0)
			VIOL("truncated",
			    "wire: nng emitted %zu bytes of the frame of message #%u and nothing more for 5 s "
			    "(write cut at frame offset %ld)",
			    w.fr_pos, serial, k);
		c.lost_out++;
		return cuts_failed(c, baseline, "N>W", serial, "write offset " + std::to_string(k),
		    r == 0 ? "nng hung up" : "no byte of it reached the raw peer for 5 s");
	}
	if (Lp)
		*Lp = (size_t) (w.nrd - base);
	wire_judge_from_nng(w, payload);
	c.done_out++;
	if (baseline)
		c.base_ok = true;
}

static void
cuts_cfg(sim_config *cfg, Params *p)
{
	(void) p;
	cfg->seg_mode = 0; // the only cuts are the enumerated ones
}

static void
cuts_run(Params *p)
{
	g_salt           = (uint64_t) W(0, 1 << 30);
	int  tr          = WIRE_TR[p->draw("tr", 0, 4)];
	int  role        = (int) p->draw("role", 0, R_N - 1);
	bool nng_listens = tr == TRX_SOCKFD || W(0, 1) == 0;
	Stream in("W>N", 3), out("N>W", 4);
	Side   N;
	side_init(&N, "N", role, &out, &in);
	N.maxsz = 64;
	Wire w;
	wire_init(w, tr, nng_listens, role, 3);
	w.to_nng   = &in;
	w.from_nng = &out;
	w.N        = &N;
	role_open(&N.s, role);
	common_sockopts(&N);
	MUST(nng_socket_set_ms(N.s, NNG_OPT_RECVTIMEO, 5000));
	sim_event("c01_cuts tr=%s nng=%s nng_%s", trx_name(tr), role_name(role), nng_listens ? "listens" : "dials");
	wire_setup(w, N);
	if (!wait_pipes(&N, NULL, 5000))
		sim_inconclusive("nng side did not see the connection");
	Cuts c;
	c.w = &w;
	c.N = &N;
	c.lost_in = c.lost_out = c.done_in = c.done_out = 0;
	c.dead = c.base_ok = false;
	int nlen = 1 + (int) W(0, 1);
	for (int li = 0; li < nlen; li++) {
		size_t paylen   = (size_t) p->draw(li == 0 ? "len" : "len2", 0, 56);
		long   sel      = W(0, 1023);
		int    fragspec = (w.ws && W(0, 2) == 0) ? 1 : 0;
		long   what     = W(0, 3); // 0 both directions, 1 read side only, 2 write side only, 3 read-side pairs
		// ---- nng's read side: every single cut position
		size_t L = 0;
		if (what != 2) {
			std::vector<size_t> none;
			c.base_ok = false;
			cuts_in(c, paylen, sel, fragspec, none, &L);
			for (size_t k = 0; k <= L; k++) {
				std::vector<size_t> ks(1, k);
				cuts_in(c, paylen, sel, fragspec, ks, NULL);
			}
			sim_event("read side: frame of %zu bytes, cut positions 0..%zu done", L, L);
		}
		if (what == 3 && L <= 24) {
			for (size_t k1 = 0; k1 <= L; k1++)
				for (size_t k2 = k1 + 1; k2 <= L; k2++) {
					std::vector<size_t> ks;
					ks.push_back(k1);
					ks.push_back(k2);
					cuts_in(c, paylen, sel, fragspec, ks, NULL);
					sim_probe("c01_cut_rd_pair");
				}
		} else if (what == 3) {
			for (int i = 0; i < 40; i++) {
				std::vector<size_t> ks;
				ks.push_back((size_t) W(0, (long) L));
				ks.push_back((size_t) W(0, (long) L));
				ks.push_back((size_t) W(0, (long) L));
				std::sort(ks.begin(), ks.end());
				cuts_in(c, paylen, sel, fragspec, ks, NULL);
			}
		}
		// ---- nng's write side
		if (what == 0 || what == 2) {
			size_t Lo = 0;
			c.base_ok = false;
			cuts_out(c, paylen, sel, -1, &Lo);
			// every position for frames up to 130 bytes; longer byte strings (ws
			// with tiny fragments) are sampled with a stride
			size_t step = Lo <= 130 ? 1 : Lo / 130 + 1;
			for (size_t k = 0; k <= Lo; k += step)
				cuts_out(c, paylen, sel, (long) k, NULL);
			sim_event("write side: %zu bytes on the wire, cut positions 0..%zu step %zu done", Lo, Lo, step);
		}
	}
	sim_quiesce(2 * MS);
	sim_stat("cut_msgs_lost", c.lost_in + c.lost_out);
	account(in, false);
	account(out, role == R_REPRAW);
	delete N.rx;
	wire_teardown(w);
	MUST(nng_socket_close(N.s));
}

SCENARIO(c01_cuts, "C01", cuts_cfg, cuts_run);

} // namespace
