// C16: HTTP and WebSocket codecs -- same decode under every segmentation,
// framing rules enforced, emissions well-formed.  A raw TCP peer (this file)
// talks to nng's ws stream layer / SP ws transport / http server / http client.
#include "../harness/util.h"

#include <nng/http.h>

#include <arpa/inet.h>
#include <ctype.h>
#include <errno.h>
#include <netinet/in.h>
#include <sys/socket.h>
#include <unistd.h>

#include <algorithm>
#include <functional>

namespace {

typedef std::string Bytes;
static const uint64_t MS = 1000000ull;

static uint64_t g_hz    = 300000; // quiesce horizon between written pieces
static long     g_net   = 0;      // drawn network flavour (see c16_cfg)
static long     g_avoid = 0;
static bool     g_small = false; // keep streams short (sessions that are replayed many times)      // bit mask: steer the workload around known findings

// bits of "avoid"
enum {
	// (1, 2 and 16 were websocket findings that have been repaired in the library: 32e7430, 407445a, 237b5ed)
	AV_STATUS_JUNK   = 8,  // status code with trailing garbage accepted
	AV_HTTP_PIPELINE = 32, // server formats the response head into the buffer that holds the next pipelined request
	AV_HTTP_HEAD_ERR = 128, // error responses to HEAD requests carry a body
	AV_HTTP_ISERR    = 64, // after one error response every later response on the connection becomes an error page
};

static uint64_t
vnow(void)
{
	return sim_now_ns() - sim_stall_total_ns();
}

static std::string
show(const Bytes &b, size_t max = 24)
{
	return h_hex((const uint8_t *) b.data(), b.size(), max);
}

static std::string
showtxt(const Bytes &b, size_t max = 120)
{
	std::string o;
	for (size_t i = 0; i < b.size() && i < max; i++) {
		unsigned char c = (unsigned char) b[i];
		if (c == '\r')
			o += "\\r";
		else if (c == '\n')
			o += "\\n";
		else if (c < 0x20 || c >= 0x7f) {
			char t[8];
			snprintf(t, sizeof(t), "\\x%02x", c);
			o += t;
		} else
			o += (char) c;
	}
	if (b.size() > max)
		o += "...";
	return o;
}

// deterministic payload bytes with all the awkward values in them
static Bytes
payload_gen(uint32_t id, size_t n)
{
	Bytes    b(n, '\0');
	uint32_t x = id * 2654435761u + 0x9e3779b9u;
	for (size_t i = 0; i < n; i++) {
		x    = x * 1664525u + 1013904223u;
		b[i] = (char) (x >> 24);
		if ((x & 0x1f00) == 0x100)
			b[i] = "\r\n\0\xff\x80 :"[(x >> 16) % 7];
	}
	return b;
}

// ------------------------------------------------------------ SHA-1/base64 ---
static void
ref_sha1(const Bytes &msg, uint8_t out[20])
{
	uint32_t h[5] = { 0x67452301u, 0xEFCDAB89u, 0x98BADCFEu, 0x10325476u, 0xC3D2E1F0u };
	Bytes    m    = msg;
	m.push_back((char) 0x80);
	while (m.size() % 64 != 56)
		m.push_back('\0');
	uint64_t bits = (uint64_t) msg.size() * 8;
	for (int i = 7; i >= 0; i--)
		m.push_back((char) (bits >> (i * 8)));
	for (size_t off = 0; off < m.size(); off += 64) {
		uint32_t w[80];
		for (int i = 0; i < 16; i++)
			w[i] = ((uint32_t) (uint8_t) m[off + 4 * i] << 24) | ((uint32_t) (uint8_t) m[off + 4 * i + 1] << 16) |
			    ((uint32_t) (uint8_t) m[off + 4 * i + 2] << 8) | (uint32_t) (uint8_t) m[off + 4 * i + 3];
		for (int i = 16; i < 80; i++) {
			uint32_t x = w[i - 3] ^ w[i - 8] ^ w[i - 14] ^ w[i - 16];
			w[i]       = (x << 1) | (x >> 31);
		}
		uint32_t a = h[0], b = h[1], c = h[2], d = h[3], e = h[4];
		for (int i = 0; i < 80; i++) {
			uint32_t f, k;
			if (i < 20) {
				f = (b & c) | (~b & d);
				k = 0x5A827999u;
			} else if (i < 40) {
				f = b ^ c ^ d;
				k = 0x6ED9EBA1u;
			} else if (i < 60) {
				f = (b & c) | (b & d) | (c & d);
				k = 0x8F1BBCDCu;
			} else {
				f = b ^ c ^ d;
				k = 0xCA62C1D6u;
			}
			uint32_t t = ((a << 5) | (a >> 27)) + f + e + k + w[i];
			e          = d;
			d          = c;
			c          = (b << 30) | (b >> 2);
			b          = a;
			a          = t;
		}
		h[0] += a;
		h[1] += b;
		h[2] += c;
		h[3] += d;
		h[4] += e;
	}
	for (int i = 0; i < 5; i++) {
		out[4 * i]     = (uint8_t) (h[i] >> 24);
		out[4 * i + 1] = (uint8_t) (h[i] >> 16);
		out[4 * i + 2] = (uint8_t) (h[i] >> 8);
		out[4 * i + 3] = (uint8_t) h[i];
	}
}

static const char B64[] = "ABCDEFGHIJKLMNOPQRSTUVWXYZabcdefghijklmnopqrstuvwxyz0123456789+/";

static Bytes
ref_b64enc(const uint8_t *p, size_t n)
{
	Bytes o;
	for (size_t i = 0; i < n; i += 3) {
		uint32_t v = (uint32_t) p[i] << 16;
		if (i + 1 < n)
			v |= (uint32_t) p[i + 1] << 8;
		if (i + 2 < n)
			v |= p[i + 2];
		o += B64[(v >> 18) & 63];
		o += B64[(v >> 12) & 63];
		o += i + 1 < n ? B64[(v >> 6) & 63] : '=';
		o += i + 2 < n ? B64[v & 63] : '=';
	}
	return o;
}

// strict decode; false on any irregularity
static bool
ref_b64dec(const Bytes &s, Bytes &out)
{
	out.clear();
	if (s.size() % 4 != 0)
		return false;
	for (size_t i = 0; i < s.size(); i += 4) {
		uint32_t v   = 0;
		int      pad = 0;
		for (int j = 0; j < 4; j++) {
			char c = s[i + (size_t) j];
			if (c == '=') {
				if (i + 4 != s.size() || j < 2)
					return false;
				pad++;
				v <<= 6;
				continue;
			}
			if (pad)
				return false;
			const char *q = (const char *) memchr(B64, c, 64);
			if (q == NULL)
				return false;
			v = (v << 6) | (uint32_t) (q - B64);
		}
		out += (char) (v >> 16);
		if (pad < 2)
			out += (char) (v >> 8);
		if (pad < 1)
			out += (char) v;
	}
	return true;
}

static Bytes
ref_ws_accept(const Bytes &key)
{
	uint8_t d[20];
	ref_sha1(key + "258EAFA5-E914-47DA-95CA-C5AB0DC85B11", d);
	return ref_b64enc(d, 20);
}

// ----------------------------------------------------------- raw TCP peer ---
struct Raw {
	int    fd;
	Bytes  in;  // everything nng sent so far
	size_t pos; // parser position
	bool   eof, rst, wr_failed;
	size_t written;
	Raw() : fd(-1), pos(0), eof(false), rst(false), wr_failed(false), written(0) {}
};

static void
raw_close(Raw &r)
{
	if (r.fd >= 0) {
		close(r.fd);
		r.fd = -1;
	}
}

static void
mk_addr(struct sockaddr_in *sin, int port)
{
	memset(sin, 0, sizeof(*sin));
	sin->sin_family      = AF_INET;
	sin->sin_addr.s_addr = htonl(0x7f000001u);
	sin->sin_port        = htons((uint16_t) port);
}

static int
raw_listen(int port)
{
	int fd = simnet_socket(AF_INET, SOCK_STREAM);
	if (fd < 0)
		h_fatal("raw socket: %d", errno);
	struct sockaddr_in sin;
	mk_addr(&sin, port);
	if (bind(fd, (struct sockaddr *) &sin, sizeof(sin)) != 0 || listen(fd, 8) != 0)
		h_fatal("raw listen on %d: errno %d", port, errno);
	return fd;
}

static void
raw_connect(Raw &r, int port)
{
	r.fd = simnet_socket(AF_INET, SOCK_STREAM);
	if (r.fd < 0)
		h_fatal("raw socket: %d", errno);
	struct sockaddr_in sin;
	mk_addr(&sin, port);
	if (simnet_connect_blocking(r.fd, &sin, sizeof(sin), 5000 * MS) != 0)
		h_fatal("raw connect to %d failed: errno %d", port, errno);
	simnet_set_seg(r.fd, 0, 0); // our own reads/writes are never cut by the kernel: we cut ourselves
}

// wait up to tmo for something to read; true if the state changed
static bool
raw_fill(Raw &r, uint64_t tmo)
{
	if (r.eof || r.rst || r.fd < 0)
		return false;
	char buf[16384];
	long n = simnet_read_blocking(r.fd, buf, sizeof(buf), tmo ? tmo : 1);
	if (n > 0) {
		r.in.append(buf, (size_t) n);
		return true;
	}
	if (n == 0) {
		r.eof = true;
		return true;
	}
	if (errno == ETIMEDOUT || errno == EAGAIN)
		return false;
	r.rst = true;
	return true;
}

static void
raw_drain_nb(Raw &r)
{
	int guard = 0;
	while (!r.eof && !r.rst && r.fd >= 0 && simnet_poll_in(r.fd) && guard++ < 64)
		if (!raw_fill(r, 2 * MS))
			break;
}

static bool
raw_dead(const Raw &r)
{
	return r.eof || r.rst || r.fd < 0;
}

// Wait (virtual time, injected stalls not counted) until cond() holds.
static bool
wait_until(Raw *r, const std::function<bool()> &cond, const std::function<void()> &pump, uint64_t limit_ns)
{
	uint64_t t0 = vnow();
	for (;;) {
		if (pump)
			pump();
		if (cond())
			return true;
		if (vnow() - t0 > limit_ns)
			return false;
		if (r == NULL || raw_dead(*r))
			sim_sleep_ns(1 * MS);
		else
			raw_fill(*r, 1 * MS);
	}
}

// ------------------------------------------------------- segmentation plan ---
struct SegPlan {
	int                 kind; // 0 whole, 1 byte-at-a-time, 2 random pieces 1..k, 3 explicit cuts
	size_t              k;
	std::vector<size_t> cuts; // kind 3: offsets into the stream, ascending
	SegPlan() : kind(0), k(1) {}
};

static SegPlan
draw_plan(size_t len)
{
	SegPlan p;
	long    sel = W(0, 9);
	if (sel == 0) {
		p.kind = 0;
	} else if (sel <= 3) { // one cut anywhere: over the seeds this enumerates every cut position
		p.kind = 3;
		if (len > 1)
			p.cuts.push_back((size_t) W(1, (long) len - 1));
	} else if (sel == 4) {
		p.kind = 3;
		for (int i = 0; i < 2 && len > 1; i++)
			p.cuts.push_back((size_t) W(1, (long) len - 1));
		std::sort(p.cuts.begin(), p.cuts.end());
	} else if (sel <= 6) {
		p.kind = 1;
	} else {
		p.kind = 2;
		static const size_t ks[] = { 2, 3, 7, 16, 64, 300 };
		p.k = ks[W(0, 5)];
	}
	return p;
}

static std::string
plan_str(const SegPlan &p)
{
	char b[96];
	if (p.kind == 3) {
		std::string s = "cuts";
		for (size_t c : p.cuts)
			s += " " + std::to_string(c);
		return s;
	}
	snprintf(b, sizeof(b), "%s k=%zu", p.kind == 0 ? "whole" : p.kind == 1 ? "bytewise" : "random", p.k);
	return b;
}

// Split a stream of `len` bytes into piece lengths.  `fine` marks the
// offsets where byte-at-a-time delivery matters (header bytes); long
// payload stretches are sent in bigger pieces to keep the runs short.
static std::vector<size_t>
plan_pieces(const SegPlan &p, size_t len, const std::vector<std::pair<size_t, size_t>> *fine)
{
	std::vector<size_t> out;
	if (len == 0)
		return out;
	if (p.kind == 0) {
		out.push_back(len);
	} else if (p.kind == 3) {
		size_t last = 0;
		for (size_t c : p.cuts) {
			if (c > last && c < len) {
				out.push_back(c - last);
				last = c;
			}
		}
		out.push_back(len - last);
	} else if (p.kind == 1) {
		if (len <= 400 || fine == NULL) {
			size_t n = len <= 400 ? len : 400;
			out.assign(n, 1);
			if (len > n)
				out.push_back(len - n);
		} else {
			std::vector<char> isfine(len + 1, 0);
			for (auto &r : *fine)
				for (size_t i = r.first; i < r.first + r.second + 2 && i < len; i++)
					isfine[i] = 1;
			size_t i = 0, nfine = 0;
			while (i < len) {
				if (isfine[i] && nfine < 300) {
					out.push_back(1);
					i++;
					nfine++;
				} else {
					size_t j = i;
					while (j < len && (!isfine[j] || nfine >= 300) && j - i < 211)
						j++;
					out.push_back(j - i);
					i = j;
				}
			}
		}
	} else {
		size_t off = 0;
		int    np  = 0;
		while (off < len) {
			size_t n = (size_t) W(1, (long) p.k);
			if (np++ > 250)
				n = len - off;
			if (n > len - off)
				n = len - off;
			out.push_back(n);
			off += n;
		}
	}
	return out;
}

// write S to the raw connection in the planned pieces; after every piece the
// system is quiesced (nng has consumed the piece) and pump() runs.
static void
plan_send(Raw &r, const Bytes &S, const SegPlan &p, const std::vector<std::pair<size_t, size_t>> *fine,
    const std::function<void()> &pump)
{
	std::vector<size_t> pieces = plan_pieces(p, S.size(), fine);
	size_t              off    = 0;
	for (size_t n : pieces) {
		if (r.fd < 0 || r.wr_failed)
			break;
		// never block for long inside the kernel: nng only reads while the application has a
		// receive posted, so the application side must be pumped while a big piece drains
		size_t   done = 0;
		uint64_t t0   = vnow();
		while (done < n) {
			long w = simnet_write_blocking(r.fd, S.data() + off + done, n - done, 2 * MS);
			if (w > 0) {
				done += (size_t) w;
				continue;
			}
			if (w < 0 && errno == ETIMEDOUT && vnow() - t0 < 3000 * MS) {
				if (pump)
					pump();
				continue;
			}
			r.wr_failed = true; // nng has gone away (expected after a rule violation)
			sim_event("raw write of %zu bytes at offset %zu stopped after %zu (errno %d)", n, off, done, errno);
			break;
		}
		if (r.wr_failed)
			break;
		off += n;
		r.written += n;
		if (off < S.size() || true) {
			sim_quiesce(g_hz);
			if (pump)
				pump();
		}
	}
}

// --------------------------------------------- strict HTTP/1.1 head parser ---
struct Head {
	Bytes                                start;
	std::vector<std::pair<Bytes, Bytes>> h;
	size_t                               end; // offset just past CRLFCRLF
	Head() : end(0) {}
};

static bool
is_tchar(unsigned char c)
{
	return c != 0 && (isalnum(c) || strchr("!#$%&'*+-.^_`|~", c) != NULL);
}

static bool
ieq(const Bytes &a, const char *b)
{
	return strcasecmp(a.c_str(), b) == 0;
}

// Parse the message head that starts at in[from]; returns false if it is not
// complete yet.  Any deviation from RFC 7230 framing is a violation: this
// parser is only ever applied to bytes emitted by nng.
static bool
strict_head(const Bytes &in, size_t from, Head &hd, const char *who)
{
	size_t e = in.find("\r\n\r\n", from);
	if (e == Bytes::npos) {
		// a bare LF LF or stray control byte would never terminate: check what we have
		for (size_t i = from; i < in.size(); i++) {
			unsigned char c = (unsigned char) in[i];
			if (c == '\n' && (i == from || in[i - 1] != '\r'))
				VIOL("emit_bad_line_ending", "%s: bare LF at offset %zu of the emitted head: %s", who, i - from,
				    showtxt(in.substr(from, 200)).c_str());
		}
		return false;
	}
	hd.end = e + 4;
	hd.h.clear();
	size_t ls    = from;
	bool   first = true;
	while (ls < e + 2) {
		size_t le = in.find("\r\n", ls);
		Bytes  line = in.substr(ls, le - ls);
		for (size_t i = 0; i < line.size(); i++) {
			unsigned char c = (unsigned char) line[i];
			if ((c < 0x20 && c != '\t') || c == 0x7f)
				VIOL("emit_bad_header", "%s: control byte 0x%02x inside emitted line '%s'", who, c,
				    showtxt(line).c_str());
		}
		if (first) {
			hd.start = line;
			first    = false;
		} else {
			size_t colon = line.find(':');
			if (colon == Bytes::npos || colon == 0)
				VIOL("emit_bad_header", "%s: emitted header line without a field name/colon: '%s'", who,
				    showtxt(line).c_str());
			for (size_t i = 0; i < colon; i++)
				if (!is_tchar((unsigned char) line[i]))
					VIOL("emit_bad_header", "%s: emitted header name is not a token: '%s'", who,
					    showtxt(line).c_str());
			size_t vs = colon + 1, ve = line.size();
			while (vs < ve && (line[vs] == ' ' || line[vs] == '\t'))
				vs++;
			while (ve > vs && (line[ve - 1] == ' ' || line[ve - 1] == '\t'))
				ve--;
			hd.h.push_back(std::make_pair(line.substr(0, colon), line.substr(vs, ve - vs)));
		}
		ls = le + 2;
	}
	if (hd.start.empty())
		VIOL("emit_bad_start_line", "%s: emitted message starts with an empty line", who);
	return true;
}

static const Bytes *
hget(const Head &hd, const char *name)
{
	for (auto &kv : hd.h)
		if (ieq(kv.first, name))
			return &kv.second;
	return NULL;
}

static int
hcount(const Head &hd, const char *name)
{
	int n = 0;
	for (auto &kv : hd.h)
		if (ieq(kv.first, name))
			n++;
	return n;
}

static bool
has_word(const Bytes &v, const char *word)
{
	// comma separated list, case-insensitive
	size_t i = 0;
	while (i <= v.size()) {
		size_t j = v.find(',', i);
		if (j == Bytes::npos)
			j = v.size();
		size_t a = i, b = j;
		while (a < b && (v[a] == ' ' || v[a] == '\t'))
			a++;
		while (b > a && (v[b - 1] == ' ' || v[b - 1] == '\t'))
			b--;
		if (ieq(v.substr(a, b - a), word))
			return true;
		i = j + 1;
	}
	return false;
}

struct StatusLine {
	Bytes version, reason;
	int   code;
};

static void
strict_status_line(const Bytes &l, StatusLine &s, const char *who)
{
	// HTTP-version SP 3DIGIT SP reason-phrase
	if (l.size() < 13 || l.compare(0, 7, "HTTP/1.") != 0 || !isdigit((unsigned char) l[7]) || l[8] != ' ' ||
	    !isdigit((unsigned char) l[9]) || !isdigit((unsigned char) l[10]) || !isdigit((unsigned char) l[11]) || l[12] != ' ')
		VIOL("emit_bad_status_line", "%s: emitted status line is malformed: '%s'", who, showtxt(l).c_str());
	s.version = l.substr(0, 8);
	s.code    = atoi(l.substr(9, 3).c_str());
	s.reason  = l.substr(13);
}

struct RequestLine {
	Bytes method, target, version;
};

static void
strict_request_line(const Bytes &l, RequestLine &r, const char *who)
{
	size_t a = l.find(' ');
	size_t b = a == Bytes::npos ? Bytes::npos : l.find(' ', a + 1);
	if (a == Bytes::npos || b == Bytes::npos || a == 0 || b == a + 1 || l.find(' ', b + 1) != Bytes::npos)
		VIOL("emit_bad_request_line", "%s: emitted request line is malformed: '%s'", who, showtxt(l).c_str());
	r.method  = l.substr(0, a);
	r.target  = l.substr(a + 1, b - a - 1);
	r.version = l.substr(b + 1);
	for (char c : r.method)
		if (!is_tchar((unsigned char) c))
			VIOL("emit_bad_request_line", "%s: emitted method is not a token: '%s'", who, showtxt(l).c_str());
	for (char c : r.target)
		if ((unsigned char) c <= 0x20 || (unsigned char) c >= 0x7f)
			VIOL("emit_bad_request_line", "%s: emitted request target has an illegal byte: '%s'", who,
			    showtxt(l).c_str());
	if (r.version != "HTTP/1.1" && r.version != "HTTP/1.0")
		VIOL("emit_bad_request_line", "%s: emitted HTTP version is malformed: '%s'", who, showtxt(l).c_str());
}

static bool
all_digits(const Bytes &s)
{
	if (s.empty())
		return false;
	for (char c : s)
		if (!isdigit((unsigned char) c))
			return false;
	return true;
}

// =====================================================================
// WebSocket
// =====================================================================
enum { OP_CONT = 0, OP_TEXT = 1, OP_BIN = 2, OP_CLOSE = 8, OP_PING = 9, OP_PONG = 10 };
enum { API_STREAM = 0, API_MSG = 1, API_SP = 2 };

// rule-breaking mutations of the stream the raw peer sends (exactly one per session)
enum {
	MU_NONE = 0,
	MU_MASKDIR,      // unmasked client frame / masked server frame
	MU_RSV,          // reserved bit set
	MU_OPCODE,       // reserved opcode
	MU_NONMIN,       // non-minimal length encoding
	MU_CTLBIG,       // control frame longer than 125 bytes
	MU_CONT_NOSTART, // continuation without a start
	MU_FRAMEBIG,     // frame above NNG_OPT_WS_RECVMAXFRAME
	MU_MSGBIG,       // message above NNG_OPT_RECVMAXSZ
	MU_ASSERTED_MAX = MU_MSGBIG,
	// stricter than the statement: recorded, never asserted
	MU_CTLFRAG,     // fragmented control frame
	MU_DATA_IN_MSG, // new data frame inside a fragmented message
	MU_N
};
static const char *MU_NAME[] = { "none", "mask_direction", "rsv_bit", "reserved_opcode", "nonminimal_length",
	"control_over_125", "continuation_without_start", "frame_above_maxframe", "message_above_recvmax",
	"fragmented_control", "data_frame_inside_message" };

struct TxFrame { // a frame the raw peer puts on the wire
	uint8_t  b0;   // FIN | RSV | opcode
	bool     mask;
	uint8_t  key[4];
	int      lenform;  // 0 minimal, else 7 / 16 / 64 forced
	Bytes    payload;
	bool     huge;     // declare `declared` instead of payload.size() and send no payload
	uint64_t declared;
	const char *what;
	TxFrame() : b0(0x82), mask(false), lenform(0), huge(false), declared(0), what("data") { memset(key, 0, 4); }
};

static void
enc_frame(const TxFrame &f, Bytes &out, std::vector<std::pair<size_t, size_t>> *fine)
{
	size_t   start = out.size();
	uint64_t len   = f.huge ? f.declared : f.payload.size();
	int      form  = f.lenform ? f.lenform : (len < 126 ? 7 : len < 65536 ? 16 : 64);
	out += (char) f.b0;
	uint8_t m = f.mask ? 0x80 : 0;
	if (form == 7) {
		out += (char) (m | (uint8_t) len);
	} else if (form == 16) {
		out += (char) (m | 126);
		out += (char) (len >> 8);
		out += (char) len;
	} else {
		out += (char) (m | 127);
		for (int i = 7; i >= 0; i--)
			out += (char) (len >> (8 * i));
	}
	if (f.mask)
		out.append((const char *) f.key, 4);
	if (fine)
		fine->push_back(std::make_pair(start, out.size() - start));
	if (!f.huge) {
		size_t p0 = out.size();
		out += f.payload;
		if (f.mask)
			for (size_t i = 0; i < f.payload.size(); i++)
				out[p0 + i] = (char) ((uint8_t) out[p0 + i] ^ f.key[i & 3]);
	}
}

// ---- strict parser for frames emitted by nng
struct RxFrame {
	uint8_t op;
	bool    fin;
	Bytes   payload;
};

// returns false when the frame at r.pos is not complete yet
static bool
strict_frame(Raw &r, bool nng_is_client, RxFrame &f, const char *who)
{
	const Bytes &in  = r.in;
	size_t       off = r.pos;
	if (in.size() - off < 2)
		return false;
	uint8_t b0 = (uint8_t) in[off], b1 = (uint8_t) in[off + 1];
	if (b0 & 0x70)
		VIOL("emit_rsv_bits", "%s: emitted frame has reserved bits set (first byte 0x%02x)", who, b0);
	uint8_t op = b0 & 0x0f;
	if (!(op == OP_CONT || op == OP_TEXT || op == OP_BIN || op == OP_CLOSE || op == OP_PING || op == OP_PONG))
		VIOL("emit_reserved_opcode", "%s: emitted frame has reserved opcode 0x%x", who, op);
	bool masked = (b1 & 0x80) != 0;
	if (masked != nng_is_client)
		VIOL("emit_mask_direction", "%s: nng as %s emitted a %s frame (opcode 0x%x)", who,
		    nng_is_client ? "client" : "server", masked ? "masked" : "unmasked", op);
	uint64_t len  = b1 & 0x7f;
	size_t   hlen = 2;
	if (len == 126) {
		if (in.size() - off < 4)
			return false;
		len  = ((uint64_t) (uint8_t) in[off + 2] << 8) | (uint8_t) in[off + 3];
		hlen = 4;
		if (len < 126)
			VIOL("emit_nonminimal_length", "%s: emitted frame uses the 16-bit length form for %llu bytes", who,
			    (unsigned long long) len);
	} else if (len == 127) {
		if (in.size() - off < 10)
			return false;
		len = 0;
		for (int i = 0; i < 8; i++)
			len = (len << 8) | (uint8_t) in[off + 2 + (size_t) i];
		hlen = 10;
		if (len < 65536)
			VIOL("emit_nonminimal_length", "%s: emitted frame uses the 64-bit length form for %llu bytes", who,
			    (unsigned long long) len);
		if (len >> 63)
			VIOL("emit_nonminimal_length", "%s: emitted 64-bit length has the top bit set", who);
	}
	if (op >= 8) {
		if (len > 125)
			VIOL("emit_control_too_long", "%s: emitted control frame 0x%x carries %llu bytes", who, op,
			    (unsigned long long) len);
		if (!(b0 & 0x80))
			VIOL("emit_control_fragmented", "%s: emitted control frame 0x%x without FIN", who, op);
	}
	uint8_t key[4] = { 0, 0, 0, 0 };
	if (masked) {
		if (in.size() - off < hlen + 4)
			return false;
		memcpy(key, in.data() + off + hlen, 4);
		hlen += 4;
	}
	if (len > (64u << 20))
		VIOL("emit_absurd_length", "%s: emitted frame declares %llu bytes", who, (unsigned long long) len);
	if (in.size() - off < hlen + len)
		return false;
	f.op      = op;
	f.fin     = (b0 & 0x80) != 0;
	f.payload = in.substr(off + hlen, (size_t) len);
	if (masked)
		for (size_t i = 0; i < f.payload.size(); i++)
			f.payload[i] = (char) ((uint8_t) f.payload[i] ^ key[i & 3]);
	r.pos = off + hlen + (size_t) len;
	return true;
}

struct WsOpts {
	int    api;
	bool   nng_server;
	bool   set_maxframe, set_recvmax, set_fragsize;
	size_t maxframe, recvmax, fragsize;
	bool   recv_text, send_text;
	size_t eff_maxframe(void) const { return set_maxframe ? maxframe : (1u << 20); }
	size_t eff_recvmax(void) const
	{
		if (api == API_STREAM)
			return 0;
		return set_recvmax ? recvmax : 0; // the defaults are far above anything sent here
	}
	size_t eff_fragsize(void) const { return set_fragsize ? fragsize : (1u << 16); }
};

// what the raw peer sends after the handshake, and what a conforming
// receiver has to hand to the application
struct RxSpec {
	std::vector<TxFrame> frames;
	std::vector<Bytes>   msgs;     // message apis: complete messages before the mutation
	Bytes                stream;   // stream api: payload bytes of the data frames before the mutation
	std::vector<Bytes>   pings;    // payloads of the PINGs sent before the mutation
	int                  mutant;
	bool                 raw_close; // valid session ends with a CLOSE from the raw peer
	bool                 ping_inside_limit_msg;
	RxSpec() : mutant(MU_NONE), raw_close(false), ping_inside_limit_msg(false) {}
};

static void
frame_key(TxFrame &f, bool raw_is_client)
{
	f.mask = raw_is_client;
	if (f.mask) {
		long sel = W(0, 5);
		uint32_t k = sel == 0 ? 0x01020304u : sel == 1 ? 0 : sel == 2 ? 0xffffffffu : (uint32_t) W(0, 0x7fffffff) * 2u + 1u;
		f.key[0] = (uint8_t) (k >> 24);
		f.key[1] = (uint8_t) (k >> 16);
		f.key[2] = (uint8_t) (k >> 8);
		f.key[3] = (uint8_t) k;
	}
}

static TxFrame
mk_frame(uint8_t op, bool fin, const Bytes &pl, bool raw_is_client, const char *what)
{
	TxFrame f;
	f.b0      = (uint8_t) ((fin ? 0x80 : 0) | op);
	f.payload = pl;
	f.what    = what;
	frame_key(f, raw_is_client);
	return f;
}

static size_t
draw_size(size_t cap)
{
	static const size_t cls[] = { 5, 0, 1, 125, 126, 127, 300, 1000, 4000, 65535, 65536, 70000 };
	long                sel   = W(0, 39);
	size_t              n;
	if (sel < 12)
		n = cls[sel];
	else
		n = (size_t) W(0, 600);
	if (g_small && n > (g_net == 3 ? 300u : 2000u))
		n = g_net == 3 ? 300 : 2000;
	return n > cap ? cap : n;
}

static void
maybe_control(RxSpec &sp, bool raw_is_client, uint32_t &serial, size_t maxframe)
{
	long sel = W(0, 5);
	if (sel > 2)
		return;
	static const size_t ls[] = { 0, 4, 125, 17 };
	size_t              n    = ls[W(0, 3)];
	if (n > maxframe)
		n = maxframe; // a control frame is a frame: keep valid sessions below the configured frame limit
	Bytes pl = payload_gen(0x70000000u + serial++, n);
	if (sel == 2) {
		sp.frames.push_back(mk_frame(OP_PONG, true, pl, raw_is_client, "pong"));
	} else {
		sp.frames.push_back(mk_frame(OP_PING, true, pl, raw_is_client, "ping"));
		sp.pings.push_back(pl);
	}
}

// append one valid message (possibly fragmented, possibly with control frames between the fragments)
static void
add_message(RxSpec &sp, const WsOpts &o, const Bytes &body, int nfrag, bool interleave, bool text, uint32_t &serial,
    bool count)
{
	bool   rc = o.nng_server;
	size_t mf = o.eff_maxframe();
	if (mf == 0)
		mf = SIZE_MAX;

	// fragment boundaries
	std::vector<size_t> cuts;
	for (int i = 1; i < nfrag; i++)
		cuts.push_back((size_t) W(0, (long) body.size()));
	std::sort(cuts.begin(), cuts.end());
	cuts.push_back(body.size());
	std::vector<Bytes> parts;
	size_t             last = 0;
	for (size_t c : cuts) {
		size_t a = last;
		// respect the frame limit
		while (c - a > mf) {
			parts.push_back(body.substr(a, mf));
			a += mf;
		}
		parts.push_back(body.substr(a, c - a));
		last = c;
	}
	for (size_t i = 0; i < parts.size(); i++) {
		bool    fin = i + 1 == parts.size();
		uint8_t op  = i == 0 ? (text ? OP_TEXT : OP_BIN) : OP_CONT;
		sp.frames.push_back(mk_frame(op, fin, parts[i], rc, i == 0 ? (fin ? "msg" : "msg-first") : (fin ? "msg-last" : "msg-cont")));
		if (!fin && interleave)
			maybe_control(sp, rc, serial, mf);
		if (count && o.api == API_STREAM)
			sp.stream += parts[i];
	}
	if (count && o.api != API_STREAM)
		sp.msgs.push_back(body);
}

static RxSpec
gen_rxspec(const WsOpts &o, int mutant, uint32_t tag)
{
	RxSpec   sp;
	bool     rc     = o.nng_server; // the raw peer is the client when nng is the server
	uint32_t serial = tag * 100;
	size_t   mf     = o.eff_maxframe();
	size_t   rm     = o.eff_recvmax();
	sp.mutant       = mutant;
	int    nmsg     = (int) W(0, 3);
	size_t cap0     = g_net == 3 ? 3000 : g_net != 0 ? 20000 : 80000; // nng reads in tiny pieces there
	size_t cap      = cap0;

	if (rm > 0 && rm < cap)
		cap = rm;
	if (mf > 0 && mf * 6 < cap)
		cap = mf * 6;
	for (int m = 0; m < nmsg; m++) {
		size_t n = draw_size(cap);
		long   limit = W(0, 7);
		if (limit == 1 && o.set_maxframe && mf <= cap)
			n = mf; // exactly the frame limit
		if (limit == 2 && rm > 0 && rm <= cap)
			n = rm; // exactly the message limit
		int  nfrag = 1 + (int) (W(0, 2) ? 0 : W(1, 3));
		bool inter = W(0, 1) != 0;
		if (inter && nfrag > 1 && rm > 0 && n + 125 > rm)
			sp.ping_inside_limit_msg = true;
		bool text = o.recv_text && W(0, 2) == 0;
		Bytes body = payload_gen(serial++, n);
		if (text) // a text message has to be valid UTF-8
			for (size_t i = 0; i < body.size(); i++)
				body[i] = (char) ('a' + ((uint8_t) body[i] & 15));
		add_message(sp, o, body, nfrag, inter, text, serial, true);
		maybe_control(sp, rc, serial, mf ? mf : SIZE_MAX);
	}
	if (mutant == MU_NONE) {
		// (not with SP sockets: a message the protocol has taken off the pipe but not yet handed to
		// the application may be dropped when the pipe closes, which is not the codec's doing)
		sp.raw_close = W(0, 3) == 1 && o.api != API_SP;
		if (sp.raw_close) {
			Bytes pl;
			if (W(0, 1)) {
				pl += (char) 0x03;
				pl += (char) 0xe8; // 1000
				pl += "bye";
			}
			sp.frames.push_back(mk_frame(OP_CLOSE, true, pl, rc, "close"));
		}
		return sp;
	}
	// ---- the mutation; an unfinished message may precede it
	bool   in_msg  = false;
	Bytes  marker  = payload_gen(0x66000000u + tag, (size_t) W(1, 40));
	Bytes  canary  = "CANARY-" + payload_gen(0x67000000u + tag, 9);
	bool   midmsg  = W(0, 2) == 1 && mutant != MU_CONT_NOSTART && mutant != MU_MSGBIG;
	if (mutant == MU_DATA_IN_MSG)
		midmsg = true;
	if (midmsg) {
		Bytes part = payload_gen(serial++, (size_t) W(0, 60 < mf ? 60 : (long) mf));
		sp.frames.push_back(mk_frame(OP_BIN, false, part, rc, "msg-first(unfinished)"));
		if (o.api == API_STREAM)
			sp.stream += part;
		in_msg = true;
	}
	uint8_t dop = in_msg ? OP_CONT : OP_BIN;
	TxFrame f;
	switch (mutant) {
	case MU_MASKDIR: {
		long k = W(0, 2);
		f      = mk_frame(k == 0 ? dop : k == 1 ? OP_PING : OP_PONG, true, marker, rc, "MUTANT wrong mask direction");
		f.mask = !rc;
		if (f.mask) {
			f.key[0] = 0x5a;
			f.key[1] = 0xa5;
			f.key[2] = 0x01;
			f.key[3] = 0xfe;
		}
		break;
	}
	case MU_RSV: {
		long k = W(0, 2);
		f      = mk_frame(k == 0 ? dop : k == 1 ? OP_PING : OP_PONG, true, marker, rc, "MUTANT reserved bit");
		f.b0 |= (uint8_t) (0x10 << W(0, 2));
		break;
	}
	case MU_OPCODE: {
		static const uint8_t ops[] = { 3, 4, 5, 6, 7, 0xb, 0xc, 0xd, 0xe, 0xf };
		f = mk_frame(ops[W(0, 9)], W(0, 3) != 1, marker, rc, "MUTANT reserved opcode");
		break;
	}
	case MU_NONMIN: {
		long k = W(0, 2);
		if (k == 0) {
			f         = mk_frame(dop, true, payload_gen(serial++, (size_t) W(0, 125)), rc, "MUTANT 16-bit length form for <126");
			f.lenform = 16;
		} else if (k == 1) {
			f         = mk_frame(dop, true, payload_gen(serial++, (size_t) W(0, 125)), rc, "MUTANT 64-bit length form for <126");
			f.lenform = 64;
		} else {
			size_t n = (size_t) W(126, 2000);
			if (mf > 0 && n > mf)
				n = mf; // keep it below the frame limit so that only the encoding is wrong
			f         = mk_frame(dop, true, payload_gen(serial++, n), rc, "MUTANT 64-bit length form for <65536");
			f.lenform = 64;
		}
		break;
	}
	case MU_CTLBIG: {
		size_t n = (size_t) W(126, 300);
		if (mf > 0 && n > mf) // must stay below the frame limit: the rule under test is the 125 byte one
			n = mf;
		if (n < 126) { // frame limit below 126: cannot build this mutant, fall back to a reserved opcode
			f          = mk_frame(0xb, true, marker, rc, "MUTANT reserved opcode");
			sp.mutant = MU_OPCODE;
			break;
		}
		f = mk_frame(W(0, 1) ? OP_PING : OP_PONG, true, payload_gen(serial++, n), rc, "MUTANT control frame over 125 bytes");
		break;
	}
	case MU_CONT_NOSTART:
		f = mk_frame(OP_CONT, W(0, 1) != 0, marker, rc, "MUTANT continuation without start");
		break;
	case MU_FRAMEBIG: {
		if (W(0, 2) == 0 || mf == 0 || mf > cap0) {
			if (mf == 0) { // unlimited: cannot build, fall back
				f          = mk_frame(0x3, true, marker, rc, "MUTANT reserved opcode");
				sp.mutant = MU_OPCODE;
				break;
			}
			f          = mk_frame(dop, true, Bytes(), rc, "MUTANT frame declares a length above the limit");
			f.huge     = true;
			static const uint64_t hs[] = { 1, 2, 1000, 1ull << 32, 1ull << 40, (1ull << 63) - 1 };
			f.declared = (uint64_t) mf + hs[W(0, 5)];
			if (f.declared < mf)
				f.declared = (1ull << 63) - 1;
		} else {
			f = mk_frame(dop, true, payload_gen(serial++, mf + (size_t) W(1, 3)), rc, "MUTANT frame above the limit");
		}
		break;
	}
	case MU_MSGBIG: {
		if (rm == 0) {
			f          = mk_frame(0x3, true, marker, rc, "MUTANT reserved opcode");
			sp.mutant = MU_OPCODE;
			break;
		}
		// fragments each within the frame limit, total above the message limit
		size_t total = rm + (size_t) W(1, 3);
		size_t lim   = mf > 0 ? mf : SIZE_MAX;
		int    want  = 1 + (int) W(0, 2);
		size_t per   = total / (size_t) want + 1;
		if (per > lim)
			per = lim;
		Bytes  body = payload_gen(serial++, total);
		size_t off  = 0;
		while (total - off > per) {
			sp.frames.push_back(mk_frame(off == 0 ? OP_BIN : OP_CONT, false, body.substr(off, per), rc,
			    "MUTANT part of a message above the limit"));
			off += per;
		}
		f = mk_frame(off == 0 ? OP_BIN : OP_CONT, true, body.substr(off), rc, "MUTANT last part of a message above the limit");
		break;
	}
	case MU_CTLFRAG:
		f = mk_frame(OP_PING, false, marker, rc, "MUTANT(unasserted) control frame without FIN");
		break;
	case MU_DATA_IN_MSG:
		f = mk_frame(OP_BIN, true, marker, rc, "MUTANT(unasserted) new data frame inside a message");
		break;
	default:
		h_fatal("bad mutant %d", mutant);
	}
	sp.frames.push_back(f);
	if (in_msg && W(0, 1))
		sp.frames.push_back(mk_frame(OP_CONT, true, canary, rc, "canary-cont"));
	sp.frames.push_back(mk_frame(OP_BIN, true, canary, rc, "canary"));
	return sp;
}

// ---------------------------------------------------------------- session ---
struct TxOp {
	Bytes  data;
	size_t off;
	UAio  *u;
	bool   submitted, done;
	int    err;
	TxOp() : off(0), u(NULL), submitted(false), done(false), err(0) {}
};

enum { HS_OK = 0, HS_BAD_START, HS_UNASSERTED };

struct WsSess {
	int     idx, port;
	WsOpts  o;
	RxSpec  rx;
	std::vector<TxOp *> tx;
	int     order;   // 0 receive phase then send phase, 1 send then receive, 2 sends in flight during receive
	int     rx_mode; // 0 a receive is always pending, 1 receives only at the end, 2 random
	size_t  rxbufsz;
	int     conc_tx;
	int     hs_mut;
	int     hs_variant;
	SegPlan plan, hs_plan;
	bool    plan_set;
	std::string path;
	// raw side
	Raw raw;
	int lfd;
	// nng side
	nng_stream_listener *sl;
	nng_stream_dialer   *sd;
	nng_stream          *st;
	nng_socket           sock;
	bool                 sock_open;
	nng_listener         lis;
	nng_dialer           dial;
	volatile int         pipes_added;
	UAio                *conn;
	bool                 conn_done;
	int                  conn_err;
	UAio                *rxa;
	bool                 rx_pending, rx_dead;
	int                  rx_err;
	std::vector<uint8_t> rxbuf;
	std::vector<Bytes>   got_msgs;
	Bytes                got_stream;
	size_t               tx_next;
	// wire (what nng emitted) bookkeeping
	bool   w_inmsg;
	Bytes  w_cur;
	size_t w_msgs;
	Bytes  w_stream;
	bool   w_close_seen, w_skip_data;
	int    w_close_code;
	int    w_pongs, w_pongs_matched, w_frames;
	size_t w_maxframe_seen;
	Bytes  key;
	WsSess()
	    : plan_set(false), lfd(-1), sl(NULL), sd(NULL), st(NULL), sock_open(false), pipes_added(0), conn(NULL), conn_done(false), conn_err(0),
	      rxa(NULL), rx_pending(false), rx_dead(false), rx_err(0), tx_next(0), w_inmsg(false), w_msgs(0),
	      w_close_seen(false), w_skip_data(false), w_close_code(-1), w_pongs(0), w_pongs_matched(0), w_frames(0), w_maxframe_seen(0)
	{
	}
};

static const char *
api_name(int a)
{
	return a == API_STREAM ? "stream" : a == API_MSG ? "msgmode" : "sp-pair0";
}

static std::string
ws_ctx(const WsSess &s)
{
	char b[200];
	snprintf(b, sizeof(b), "[nng=%s api=%s seg=%s net=%ld%s%s]", s.o.nng_server ? "server" : "client", api_name(s.o.api),
	    plan_str(s.plan).c_str(), g_net, s.w_close_seen ? " nng-sent-CLOSE=" : "",
	    s.w_close_seen ? std::to_string(s.w_close_code).c_str() : "");
	return b;
}

static void
ws_pipe_cb(nng_pipe p, nng_pipe_ev ev, void *arg)
{
	(void) p;
	WsSess *s = (WsSess *) arg;
	if (ev == NNG_PIPE_EV_ADD_POST)
		s->pipes_added++;
}

static bool
ws_app_ready(const WsSess &s)
{
	return s.o.api == API_SP ? s.sock_open : s.st != NULL;
}

static void
ws_setup(WsSess &s)
{
	const WsOpts &o = s.o;
	char          url[128];
	snprintf(url, sizeof(url), "ws://127.0.0.1:%d%s", s.port, s.path.c_str());
	if (o.api == API_SP) {
		MUST(nng_pair0_open(&s.sock));
		s.sock_open = true;
		MUST(nng_socket_set_ms(s.sock, NNG_OPT_RECONNMINT, 20000));
		MUST(nng_socket_set_ms(s.sock, NNG_OPT_RECONNMAXT, 20000));
		MUST(nng_pipe_notify(s.sock, NNG_PIPE_EV_ADD_POST, ws_pipe_cb, &s));
		if (o.nng_server) {
			MUST(nng_listener_create(&s.lis, s.sock, url));
			if (o.set_maxframe)
				MUST(nng_listener_set_size(s.lis, NNG_OPT_WS_RECVMAXFRAME, o.maxframe));
			if (o.set_recvmax)
				MUST(nng_listener_set_size(s.lis, NNG_OPT_RECVMAXSZ, o.recvmax));
			if (o.set_fragsize)
				MUST(nng_listener_set_size(s.lis, NNG_OPT_WS_SENDMAXFRAME, o.fragsize));
			MUST(nng_listener_start(s.lis, 0));
		} else {
			MUST(nng_dialer_create(&s.dial, s.sock, url));
			if (o.set_maxframe)
				MUST(nng_dialer_set_size(s.dial, NNG_OPT_WS_RECVMAXFRAME, o.maxframe));
			if (o.set_recvmax)
				MUST(nng_dialer_set_size(s.dial, NNG_OPT_RECVMAXSZ, o.recvmax));
			if (o.set_fragsize)
				MUST(nng_dialer_set_size(s.dial, NNG_OPT_WS_SENDMAXFRAME, o.fragsize));
			MUST(nng_dialer_start(s.dial, NNG_FLAG_NONBLOCK));
		}
		return;
	}
	s.conn = new UAio();
	nng_aio_set_timeout(s.conn->aio, 8000);
	if (o.nng_server) {
		MUST(nng_stream_listener_alloc(&s.sl, url));
		if (o.api == API_MSG)
			MUST(nng_stream_listener_set_bool(s.sl, "ws:msgmode", true));
		if (o.set_maxframe)
			MUST(nng_stream_listener_set_size(s.sl, NNG_OPT_WS_RECVMAXFRAME, o.maxframe));
		if (o.set_recvmax)
			MUST(nng_stream_listener_set_size(s.sl, NNG_OPT_RECVMAXSZ, o.recvmax));
		if (o.set_fragsize)
			MUST(nng_stream_listener_set_size(s.sl, NNG_OPT_WS_SENDMAXFRAME, o.fragsize));
		if (o.recv_text)
			MUST(nng_stream_listener_set_bool(s.sl, NNG_OPT_WS_RECV_TEXT, true));
		if (o.send_text)
			MUST(nng_stream_listener_set_bool(s.sl, NNG_OPT_WS_SEND_TEXT, true));
		MUST(nng_stream_listener_listen(s.sl));
		s.conn->arm("ws_accept");
		nng_stream_listener_accept(s.sl, s.conn->aio);
	} else {
		MUST(nng_stream_dialer_alloc(&s.sd, url));
		if (o.api == API_MSG)
			MUST(nng_stream_dialer_set_bool(s.sd, "ws:msgmode", true));
		if (o.set_maxframe)
			MUST(nng_stream_dialer_set_size(s.sd, NNG_OPT_WS_RECVMAXFRAME, o.maxframe));
		if (o.set_recvmax)
			MUST(nng_stream_dialer_set_size(s.sd, NNG_OPT_RECVMAXSZ, o.recvmax));
		if (o.set_fragsize)
			MUST(nng_stream_dialer_set_size(s.sd, NNG_OPT_WS_SENDMAXFRAME, o.fragsize));
		if (o.recv_text)
			MUST(nng_stream_dialer_set_bool(s.sd, NNG_OPT_WS_RECV_TEXT, true));
		if (o.send_text)
			MUST(nng_stream_dialer_set_bool(s.sd, NNG_OPT_WS_SEND_TEXT, true));
		s.conn->arm("ws_dial");
		nng_stream_dialer_dial(s.sd, s.conn->aio);
	}
}

static void
ws_rx_submit(WsSess &s, nng_duration tmo)
{
	s.rxa->arm("ws_recv");
	nng_aio_set_timeout(s.rxa->aio, tmo);
	if (s.o.api == API_STREAM) {
		s.rxbuf.assign(s.rxbufsz, 0xEE);
		nng_iov iov;
		iov.iov_buf = s.rxbuf.data();
		iov.iov_len = s.rxbufsz;
		MUST(nng_aio_set_iov(s.rxa->aio, 1, &iov));
		nng_stream_recv(s.st, s.rxa->aio);
	} else if (s.o.api == API_MSG) {
		nng_stream_recv(s.st, s.rxa->aio);
	} else {
		nng_socket_recv(s.sock, s.rxa->aio);
	}
	s.rx_pending = true;
}

static const char *
rule_of(const WsSess &s)
{
	return MU_NAME[s.rx.mutant];
}

// a completed receive: compare with the reference decode at once
static void
ws_rx_collect(WsSess &s)
{
	s.rx_pending = false;
	int rv       = s.rxa->result;
	if (rv != 0) {
		s.rx_err = rv;
		if (rv != NNG_ETIMEDOUT && rv != NNG_ECANCELED)
			s.rx_dead = true;
		return;
	}
	bool asserted = s.rx.mutant == MU_NONE || s.rx.mutant <= MU_ASSERTED_MAX;
	if (s.o.api == API_STREAM) {
		size_t n = nng_aio_count(s.rxa->aio);
		if (n == 0 || n > s.rxbufsz)
			VIOL("ws_bad_recv_count", "stream receive completed with %zu bytes for a %zu byte buffer %s", n, s.rxbufsz,
			    ws_ctx(s).c_str());
		Bytes got((const char *) s.rxbuf.data(), n);
		sim_event("app recv %zu bytes %s", n, show(got, 8).c_str());
		size_t at = s.got_stream.size();
		s.got_stream += got;
		if (!asserted)
			return;
		if (s.got_stream.size() > s.rx.stream.size() || s.rx.stream.compare(at, n, got) != 0) {
			size_t i = 0;
			while (at + i < s.rx.stream.size() && i < n && s.rx.stream[at + i] == got[i])
				i++;
			if (s.rx.mutant != MU_NONE && at + i >= s.rx.stream.size())
				VIOL("ws_rule_not_enforced_delivered",
				    "rule '%s': the application received %zu bytes beyond the last valid frame (%s) %s",
				    rule_of(s), at + n - s.rx.stream.size(), show(got.substr(i), 12).c_str(), ws_ctx(s).c_str());
			VIOL(at + i >= s.rx.stream.size() ? "ws_spurious_data" : "ws_data_altered",
			    "stream offset %zu: received %s, the frames carry %s %s", at + i, show(got.substr(i), 12).c_str(),
			    show(s.rx.stream.substr(at + i), 12).c_str(), ws_ctx(s).c_str());
		}
		return;
	}
	nng_msg *m = nng_aio_get_msg(s.rxa->aio);
	if (m == NULL)
		VIOL("ws_bad_recv_count", "message receive completed without a message %s", ws_ctx(s).c_str());
	Bytes got((const char *) nng_msg_body(m), nng_msg_len(m));
	if (nng_msg_header_len(m) != 0)
		got = Bytes((const char *) nng_msg_header(m), nng_msg_header_len(m)) + got;
	nng_msg_free(m);
	nng_aio_set_msg(s.rxa->aio, NULL);
	size_t i = s.got_msgs.size();
	s.got_msgs.push_back(got);
	sim_event("app recv msg #%zu len %zu %s", i, got.size(), show(got, 8).c_str());
	if (!asserted)
		return;
	if (i >= s.rx.msgs.size()) {
		if (s.rx.mutant != MU_NONE)
			VIOL("ws_rule_not_enforced_delivered",
			    "rule '%s': the application received a message (%zu bytes, %s) made of frames at or after the "
			    "violation %s",
			    rule_of(s), got.size(), show(got, 12).c_str(), ws_ctx(s).c_str());
		VIOL("ws_spurious_data", "message #%zu (%zu bytes %s) was never sent %s", i, got.size(), show(got, 12).c_str(),
		    ws_ctx(s).c_str());
	}
	if (got != s.rx.msgs[i]) {
		size_t k = 0;
		while (k < got.size() && k < s.rx.msgs[i].size() && got[k] == s.rx.msgs[i][k])
			k++;
		VIOL("ws_data_altered", "message #%zu: received %zu bytes, sent %zu bytes, first difference at %zu (got %s want %s) %s",
		    i, got.size(), s.rx.msgs[i].size(), k, show(got.substr(k), 8).c_str(), show(s.rx.msgs[i].substr(k), 8).c_str(),
		    ws_ctx(s).c_str());
	}
}

static void
ws_tx_submit(WsSess &s, TxOp *op)
{
	op->u->arm("ws_send");
	nng_aio_set_timeout(op->u->aio, 8000);
	if (s.o.api == API_STREAM) {
		nng_iov iov;
		iov.iov_buf = (void *) (op->data.data() + op->off);
		iov.iov_len = op->data.size() - op->off;
		MUST(nng_aio_set_iov(op->u->aio, 1, &iov));
		nng_stream_send(s.st, op->u->aio);
	} else {
		nng_msg *m = NULL;
		MUST(nng_msg_alloc(&m, 0));
		MUST(nng_msg_append(m, op->data.data(), op->data.size()));
		nng_aio_set_msg(op->u->aio, m);
		if (s.o.api == API_MSG)
			nng_stream_send(s.st, op->u->aio);
		else
			nng_socket_send(s.sock, op->u->aio);
	}
	op->submitted = true;
}

static bool g_tx_enabled;

static void
ws_tx_advance(WsSess &s)
{
	if (!g_tx_enabled)
		return;
	int inflight = 0;
	for (size_t i = 0; i < s.tx_next; i++) {
		TxOp *op = s.tx[i];
		if (op->done)
			continue;
		if (!op->u->poll()) {
			inflight++;
			continue;
		}
		int rv = op->u->result;
		if (rv != 0) {
			op->err  = rv;
			op->done = true;
			if (s.o.api != API_STREAM) {
				nng_msg *m = nng_aio_get_msg(op->u->aio);
				if (m != NULL) {
					nng_msg_free(m);
					nng_aio_set_msg(op->u->aio, NULL);
				}
			}
			sim_event("app send #%zu failed: %s", i, nng_strerror((nng_err) rv));
			continue;
		}
		if (s.o.api == API_STREAM) {
			size_t n = nng_aio_count(op->u->aio);
			if (n == 0 || n > op->data.size() - op->off)
				VIOL("ws_bad_send_count", "stream send of %zu bytes completed with count %zu %s",
				    op->data.size() - op->off, n, ws_ctx(s).c_str());
			op->off += n;
			if (op->off < op->data.size()) {
				ws_tx_submit(s, op);
				inflight++;
				continue;
			}
		}
		op->done = true;
		sim_event("app send #%zu done (%zu bytes)", i, op->data.size());
	}
	while (s.tx_next < s.tx.size() && inflight < s.conc_tx) {
		TxOp *op = s.tx[s.tx_next++];
		sim_event("app send #%zu %zu bytes %s", s.tx_next - 1, op->data.size(), show(op->data, 8).c_str());
		ws_tx_submit(s, op);
		inflight++;
	}
}

static bool
ws_tx_all_done(const WsSess &s)
{
	if (s.tx_next < s.tx.size())
		return false;
	for (TxOp *op : s.tx)
		if (!op->done)
			return false;
	return true;
}

static void
ws_pump(WsSess &s)
{
	if (s.conn != NULL && !s.conn_done && s.conn->poll()) {
		s.conn_done = true;
		s.conn_err  = s.conn->result;
		if (s.conn_err == 0)
			s.st = (nng_stream *) nng_aio_get_output(s.conn->aio, 0);
		sim_event("app %s completed: %s", s.o.nng_server ? "accept" : "dial",
		    s.conn_err ? nng_strerror((nng_err) s.conn_err) : "ok");
	}
	if (ws_app_ready(s) && s.rxa != NULL) {
		while (s.rx_pending && s.rxa->poll()) {
			ws_rx_collect(s);
			if (!s.rx_dead && s.rx_mode == 0)
				ws_rx_submit(s, 300);
		}
		if (!s.rx_pending && !s.rx_dead) {
			if (s.rx_mode == 0 || (s.rx_mode == 2 && W(0, 1)))
				ws_rx_submit(s, 300);
		}
		ws_tx_advance(s);
	}
	raw_drain_nb(s.raw);
}

// parse and check every complete frame nng has emitted so far
static void
ws_wire_check(WsSess &s)
{
	RxFrame f;
	char    who[64];
	snprintf(who, sizeof(who), "nng %s (%s)", s.o.nng_server ? "server" : "client", api_name(s.o.api));
	while (strict_frame(s.raw, !s.o.nng_server, f, who)) {
		s.w_frames++;
		if (f.payload.size() > s.w_maxframe_seen)
			s.w_maxframe_seen = f.payload.size();
		if (f.op == OP_PING)
			continue;
		if (f.op == OP_PONG) {
			s.w_pongs++;
			for (auto &p : s.rx.pings)
				if (p == f.payload) {
					s.w_pongs_matched++;
					break;
				}
			continue;
		}
		if (f.op == OP_CLOSE) {
			if (f.payload.size() == 1)
				VIOL("emit_bad_close", "%s: emitted CLOSE frame with a 1 byte payload", who);
			s.w_close_code = 0;
			if (f.payload.size() >= 2) {
				int code = ((uint8_t) f.payload[0] << 8) | (uint8_t) f.payload[1];
				s.w_close_code = code;
				bool ok = (code >= 1000 && code <= 1014 && code != 1004 && code != 1005 && code != 1006) ||
				    (code >= 3000 && code <= 4999);
				if (!ok)
					VIOL("emit_bad_close", "%s: emitted CLOSE frame with status code %d, which must not appear on the wire", who,
					    code);
			}
			s.w_close_seen = true;
			sim_event("wire: nng sent CLOSE %d", s.w_close_code);
			continue;
		}
		// data frames
		if (s.w_skip_data)
			continue;
		if (s.conc_tx > 1 && ((f.op == OP_CONT) != s.w_inmsg)) {
			// Two message-mode sends in flight at once: nng interleaves their fragments.  This needs
			// the private "ws:msgmode" stream option (SP sockets serialise their sends), so it is
			// recorded, not asserted.
			sim_probe("c16_conc_tx_fragments_interleaved");
			s.w_skip_data = true;
			continue;
		}
		if (s.w_close_seen)
			VIOL("emit_data_after_close", "%s: emitted a data frame (opcode %d) after its CLOSE frame", who, f.op);
		if (f.op == OP_CONT) {
			if (!s.w_inmsg)
				VIOL("emit_bad_continuation", "%s: emitted a continuation frame although no message is in progress", who);
		} else {
			if (s.w_inmsg)
				VIOL("emit_bad_continuation",
				    "%s: emitted a new data frame (opcode %d, %zu bytes) while a fragmented message is still unfinished", who,
				    f.op, f.payload.size());
		}
		if (s.o.eff_fragsize() > 0 && f.payload.size() > s.o.eff_fragsize())
			sim_probe(s.o.nng_server ? "c16_tx_frame_above_sendmax_server" : "c16_tx_frame_above_sendmax_client");
		s.w_cur += f.payload;
		s.w_inmsg = !f.fin;
		if (s.o.api == API_STREAM) {
			// every send is its own message; the byte stream is what counts
			size_t at = s.w_stream.size();
			s.w_stream += f.payload;
			Bytes all;
			for (TxOp *op : s.tx)
				all += op->data;
			if (s.w_stream.size() > all.size() || all.compare(at, f.payload.size(), f.payload) != 0)
				VIOL("emit_payload_mismatch", "%s: emitted stream bytes at offset %zu (%s) differ from what the application sent",
				    who, at, show(f.payload, 12).c_str());
			s.w_cur.clear();
			continue;
		}
		if (!f.fin)
			continue;
		size_t i = s.w_msgs++;
		if (s.conc_tx > 1) {
			// concurrent sends: order is not defined, any unsent message may match
			bool found = false;
			for (TxOp *op : s.tx)
				if (op->data == s.w_cur)
					found = true;
			if (!found)
				VIOL("emit_payload_mismatch", "%s: emitted message #%zu (%zu bytes %s) is none of the messages the application sent",
				    who, i, s.w_cur.size(), show(s.w_cur, 12).c_str());
		} else if (i >= s.tx.size() || s.tx[i]->data != s.w_cur) {
			VIOL("emit_payload_mismatch", "%s: emitted message #%zu (%zu bytes %s) differs from what the application sent (%zu bytes)",
			    who, i, s.w_cur.size(), show(s.w_cur, 12).c_str(), i < s.tx.size() ? s.tx[i]->data.size() : (size_t) 0);
		}
		sim_stat("ws_tx_msgs_verified", 1);
		s.w_cur.clear();
	}
}

// ---- malformed start lines, shared by the websocket and plain HTTP scenarios
static const int N_BAD_REQ_LINE = 10;
static Bytes
bad_request_line(int k, const Bytes &method, const Bytes &target, const char **what)
{
	switch (k) {
	case 0:
		*what = "no HTTP version";
		return method + " " + target;
	case 1:
		*what = "method only";
		return method;
	case 2: {
		static const char *v[] = { "HTTP/1.1x", "HTTX/1.1", "HTTP/11", "http/1.1" };
		*what = "malformed HTTP version";
		return method + " " + target + " " + v[W(0, 3)];
	}
	case 3:
		*what = "two spaces after the method";
		return method + "  " + target + " HTTP/1.1";
	case 4:
		*what = "TAB instead of SP";
		return method + "\t" + target + " HTTP/1.1";
	case 5:
		*what = "leading space";
		return " " + method + " " + target + " HTTP/1.1";
	case 6:
		*what = "junk after the version";
		return method + " " + target + " HTTP/1.1 junk";
	case 7:
		*what = "bad percent-encoding in the target";
		return method + " " + target + "%zz HTTP/1.1";
	case 8:
		*what = "control byte in the line";
		return method + " \x01" + target + " HTTP/1.1";
	default:
		*what = "bare CR in the line";
		return method.substr(0, 1) + "\r" + method.substr(1) + " " + target + " HTTP/1.1";
	}
}

static const int N_BAD_STATUS_LINE = 10;
static Bytes
bad_status_line(int k, int code, const char **what)
{
	char c[16];
	snprintf(c, sizeof(c), "%03d", code);
	Bytes cs = c;
	switch (k) {
	case 0:
		*what = "no SP after the status code";
		return "HTTP/1.1 " + cs;
	case 1:
		*what = "two digit status code";
		return "HTTP/1.1 " + cs.substr(0, 2) + " OK";
	case 2:
		*what = "non-numeric status code";
		return "HTTP/1.1 abc OK";
	case 3:
		*what = "four digit status code";
		return "HTTP/1.1 " + cs + "0 OK";
	case 4:
		*what = "malformed HTTP version";
		return "HTTX/1.1 " + cs + " OK";
	case 5:
		*what = "two spaces before the status code";
		return "HTTP/1.1  " + cs + " OK";
	case 6:
		*what = "no HTTP version";
		return cs + " OK";
	case 7:
		*what = "TAB instead of SP";
		return "HTTP/1.1\t" + cs + " OK";
	case 8:
		if (g_avoid & AV_STATUS_JUNK) {
			*what = "non-numeric status code";
			return "HTTP/1.1 2x0 OK";
		}
		*what = "status code followed by junk";
		return "HTTP/1.1 " + cs + "x OK";
	default:
		*what = "control byte in the line";
		return "HTTP/1.1 " + cs.substr(0, 1) + "\x01" + cs.substr(1) + " OK";
	}
}

static Bytes
hdr_line(const char *name, const Bytes &val, int variant)
{
	Bytes n = name;
	if (variant & 1)
		for (auto &c : n)
			c = (char) tolower((unsigned char) c);
	if (variant & 16)
		for (auto &c : n)
			c = (char) toupper((unsigned char) c);
	const char *pre = ": ", *post = "";
	if (variant & 2) {
		pre  = ":";
		post = "";
	}
	if (variant & 4) {
		// (HTAB is legal optional whitespace too, but nng's line scanner treats it as a control
		// byte and drops the connection; that is outside the C16 statement, so only SP is used)
		pre  = ":   ";
		post = "  ";
	}
	return n + pre + val + post + "\r\n";
}

static Bytes
gen_ws_key(void)
{
	uint8_t raw[16];
	for (int i = 0; i < 16; i++)
		raw[i] = (uint8_t) W(0, 255);
	return ref_b64enc(raw, 16);
}

// websocket upgrade request sent by the raw client
static Bytes
ws_request(WsSess &s, const char **mutwhat)
{
	int   v = s.hs_variant;
	Bytes start = "GET " + s.path + " HTTP/1.1";
	if (s.hs_mut == HS_BAD_START)
		start = bad_request_line((int) W(0, N_BAD_REQ_LINE - 1), "GET", s.path, mutwhat);
	s.key = gen_ws_key();
	char host[64];
	snprintf(host, sizeof(host), "127.0.0.1:%d", s.port);
	std::vector<Bytes> h;
	h.push_back(hdr_line("Host", host, v));
	h.push_back(hdr_line("Upgrade", "websocket", v));
	h.push_back(hdr_line("Connection", (v & 8) ? "keep-alive, Upgrade" : "Upgrade", v));
	h.push_back(hdr_line("Sec-WebSocket-Key", s.key, v));
	h.push_back(hdr_line("Sec-WebSocket-Version", "13", v));
	if (s.o.api == API_SP)
		h.push_back(hdr_line("Sec-WebSocket-Protocol", "pair.sp.nanomsg.org", v));
	if (v & 32)
		h.push_back(hdr_line("User-Agent", "c16/1.0 (raw peer)", v));
	if (v & 64)
		h.push_back(hdr_line("X-Padding", Bytes((size_t) W(1, 900), 'p'), v));
	if (s.hs_mut == HS_UNASSERTED) {
		*mutwhat = "upgrade request without Upgrade header";
		h.erase(h.begin() + 1);
	}
	if (v & 128) // Host stays first, rotate the rest
		std::rotate(h.begin() + 1, h.begin() + 1 + (long) W(1, (long) h.size() - 2), h.end());
	Bytes out = start + "\r\n";
	for (auto &l : h)
		out += l;
	return out + "\r\n";
}

// 101 response sent by the raw server
static Bytes
ws_response(WsSess &s, const char **mutwhat)
{
	int   v = s.hs_variant;
	Bytes start = (v & 8) ? "HTTP/1.1 101 Web Socket Protocol Handshake" : (v & 32) ? "HTTP/1.1 101 " : "HTTP/1.1 101 Switching Protocols";
	if (s.hs_mut == HS_BAD_START)
		start = bad_status_line((int) W(0, N_BAD_STATUS_LINE - 1), 101, mutwhat);
	std::vector<Bytes> h;
	h.push_back(hdr_line("Upgrade", "websocket", v));
	h.push_back(hdr_line("Connection", "Upgrade", v));
	Bytes acc = ref_ws_accept(s.key);
	if (s.hs_mut == HS_UNASSERTED) {
		*mutwhat = "wrong Sec-WebSocket-Accept";
		acc[3]   = acc[3] == 'A' ? 'B' : 'A';
	}
	h.push_back(hdr_line("Sec-WebSocket-Accept", acc, v));
	if (s.o.api == API_SP)
		h.push_back(hdr_line("Sec-WebSocket-Protocol", "pair.sp.nanomsg.org", v));
	if (v & 64)
		h.push_back(hdr_line("Server", Bytes((size_t) W(1, 900), 's'), v));
	if (v & 128)
		std::rotate(h.begin(), h.begin() + (long) W(1, (long) h.size() - 1), h.end());
	Bytes out = start + "\r\n";
	for (auto &l : h)
		out += l;
	return out + "\r\n";
}

// check the upgrade request nng's dialer emitted
static void
ws_check_emitted_request(WsSess &s, const Head &hd)
{
	const char *who = "nng ws dialer";
	RequestLine rl;
	strict_request_line(hd.start, rl, who);
	char host[64];
	snprintf(host, sizeof(host), "127.0.0.1:%d", s.port);
	if (rl.method != "GET" || rl.version != "HTTP/1.1" || rl.target != s.path)
		VIOL("emit_bad_handshake", "%s: upgrade request line '%s' (expected GET %s HTTP/1.1)", who, showtxt(hd.start).c_str(),
		    s.path.c_str());
	const Bytes *v;
	if (hcount(hd, "Host") != 1 || *(v = hget(hd, "Host")) != host)
		VIOL("emit_bad_handshake", "%s: Host header missing, repeated or wrong (expected %s)", who, host);
	if ((v = hget(hd, "Upgrade")) == NULL || !has_word(*v, "websocket"))
		VIOL("emit_bad_handshake", "%s: no 'Upgrade: websocket' in the upgrade request", who);
	if ((v = hget(hd, "Connection")) == NULL || !has_word(*v, "upgrade"))
		VIOL("emit_bad_handshake", "%s: no 'Connection: Upgrade' in the upgrade request", who);
	if (hcount(hd, "Sec-WebSocket-Version") != 1 || *hget(hd, "Sec-WebSocket-Version") != "13")
		VIOL("emit_bad_handshake", "%s: Sec-WebSocket-Version is not exactly one '13'", who);
	Bytes raw16;
	if (hcount(hd, "Sec-WebSocket-Key") != 1 || !ref_b64dec(*hget(hd, "Sec-WebSocket-Key"), raw16) || raw16.size() != 16)
		VIOL("emit_bad_handshake", "%s: Sec-WebSocket-Key is not the base64 of 16 bytes: '%s'", who,
		    hget(hd, "Sec-WebSocket-Key") ? showtxt(*hget(hd, "Sec-WebSocket-Key")).c_str() : "(absent)");
	s.key = *hget(hd, "Sec-WebSocket-Key");
	if (s.o.api == API_SP) {
		if ((v = hget(hd, "Sec-WebSocket-Protocol")) == NULL || *v != "pair.sp.nanomsg.org")
			VIOL("emit_bad_handshake", "%s: Sec-WebSocket-Protocol is '%s'", who, v ? showtxt(*v).c_str() : "(absent)");
	}
	if (hget(hd, "Content-Length") != NULL && *hget(hd, "Content-Length") != "0")
		VIOL("emit_bad_handshake", "%s: upgrade request announces a body", who);
}

// check the 101 response nng's listener emitted
static void
ws_check_emitted_response(WsSess &s, const Head &hd, const StatusLine &sl)
{
	const char *who = "nng ws listener";
	(void) sl;
	const Bytes *v;
	if ((v = hget(hd, "Upgrade")) == NULL || !has_word(*v, "websocket"))
		VIOL("emit_bad_handshake", "%s: 101 response without 'Upgrade: websocket'", who);
	if ((v = hget(hd, "Connection")) == NULL || !has_word(*v, "upgrade"))
		VIOL("emit_bad_handshake", "%s: 101 response without 'Connection: Upgrade'", who);
	Bytes want = ref_ws_accept(s.key);
	if (hcount(hd, "Sec-WebSocket-Accept") != 1 || *hget(hd, "Sec-WebSocket-Accept") != want)
		VIOL("emit_bad_handshake", "%s: Sec-WebSocket-Accept is '%s', SHA-1/base64 of the key gives '%s'", who,
		    hget(hd, "Sec-WebSocket-Accept") ? showtxt(*hget(hd, "Sec-WebSocket-Accept")).c_str() : "(absent)", want.c_str());
	if (s.o.api == API_SP) {
		if ((v = hget(hd, "Sec-WebSocket-Protocol")) == NULL || *v != "pair.sp.nanomsg.org")
			VIOL("emit_bad_handshake", "%s: Sec-WebSocket-Protocol is '%s'", who, v ? showtxt(*v).c_str() : "(absent)");
	}
	if (hget(hd, "Transfer-Encoding") != NULL)
		VIOL("emit_bad_handshake", "%s: 101 response with Transfer-Encoding", who);
	if ((v = hget(hd, "Content-Length")) != NULL && *v != "0")
		VIOL("emit_bad_handshake", "%s: 101 response announces a body", who);
}

struct WsOutcome {
	size_t             slen;
	bool               established;
	std::vector<Bytes> msgs;
	Bytes              stream;
	bool               failed;
};

static void
ws_teardown(WsSess &s)
{
	// aios first: stopping them calls into the stream
	if (s.rxa != NULL) {
		nng_aio_stop(s.rxa->aio);
		if (s.rxa->result == 0 && s.o.api != API_STREAM && s.rx_pending) {
			nng_msg *m = nng_aio_get_msg(s.rxa->aio);
			if (m != NULL)
				nng_msg_free(m);
		}
		delete s.rxa;
		s.rxa = NULL;
	}
	for (TxOp *op : s.tx) {
		if (op->u != NULL) {
			nng_aio_stop(op->u->aio);
			if (s.o.api != API_STREAM && op->submitted && op->u->result != 0) {
				nng_msg *m = nng_aio_get_msg(op->u->aio);
				if (m != NULL) {
					nng_msg_free(m);
					nng_aio_set_msg(op->u->aio, NULL);
				}
			}
			delete op->u;
		}
		delete op;
	}
	s.tx.clear();
	if (s.conn != NULL) {
		nng_aio_stop(s.conn->aio);
		if (!s.conn_done && s.conn->result == 0 && s.conn->poll()) {
			// completed while we were not looking: take the stream so that it is released
			s.st = (nng_stream *) nng_aio_get_output(s.conn->aio, 0);
		}
		delete s.conn;
		s.conn = NULL;
	}
	if (s.st != NULL) {
		nng_stream_free(s.st);
		s.st = NULL;
	}
	if (s.sl != NULL) {
		nng_stream_listener_free(s.sl);
		s.sl = NULL;
	}
	if (s.sd != NULL) {
		nng_stream_dialer_free(s.sd);
		s.sd = NULL;
	}
	if (s.sock_open) {
		MUST(nng_socket_close(s.sock));
		s.sock_open = false;
	}
	raw_close(s.raw);
	if (s.lfd >= 0) {
		close(s.lfd);
		s.lfd = -1;
	}
}

// One websocket session: handshake, frames from the raw peer, messages from
// the application, close.  Oracles run as the data arrives.
static WsOutcome
ws_session(WsSess &s)
{
	WsOutcome   out;
	const char *mutwhat = "";
	bool        nsrv    = s.o.nng_server;
	auto        pump    = [&s]() { ws_pump(s); };
	out.established = false;
	out.failed      = false;
	out.slen        = 0;
	g_tx_enabled    = false;
	sim_event("ws session %d: nng=%s api=%s port=%d mutant=%s hs_mut=%d order=%d rxmode=%d rxbuf=%zu conc=%d maxframe=%s%zu recvmax=%s%zu "
	          "fragsize=%s%zu seg=%s hs_seg=%s",
	    s.idx, nsrv ? "server" : "client", api_name(s.o.api), s.port, MU_NAME[s.rx.mutant], s.hs_mut, s.order, s.rx_mode,
	    s.rxbufsz, s.conc_tx, s.o.set_maxframe ? "" : "default:", s.o.maxframe, s.o.set_recvmax ? "" : "default:", s.o.recvmax,
	    s.o.set_fragsize ? "" : "default:", s.o.fragsize, plan_str(s.plan).c_str(), plan_str(s.hs_plan).c_str());

	// ---- connection + handshake
	Bytes                                  S; // what the raw peer sends once it may send frames
	std::vector<std::pair<size_t, size_t>> fine;
	if (nsrv) {
		ws_setup(s);
		raw_connect(s.raw, s.port);
		Bytes req = ws_request(s, &mutwhat);
		sim_event("raw client: upgrade request (%zu bytes) %s", req.size(), s.hs_mut ? mutwhat : "");
		plan_send(s.raw, req, s.hs_plan, NULL, pump);
		Head hd;
		bool got = wait_until(&s.raw, [&]() { return strict_head(s.raw.in, 0, hd, "nng ws listener") || raw_dead(s.raw); }, pump,
		    4000 * MS);
		bool have_head = got && strict_head(s.raw.in, 0, hd, "nng ws listener");
		StatusLine sl;
		sl.code = 0;
		if (have_head) {
			strict_status_line(hd.start, sl, "nng ws listener");
			sim_event("raw client: response '%s'", showtxt(hd.start).c_str());
		} else {
			sim_event("raw client: no response (eof=%d rst=%d)", s.raw.eof, s.raw.rst);
		}
		if (s.hs_mut == HS_BAD_START) {
			// well-formed request lines: HTTP error status or a failed connection, never an upgrade
			sim_quiesce(g_hz);
			ws_pump(s);
			bool app_got = s.o.api == API_SP ? s.pipes_added > 0 : (s.conn_done && s.conn_err == 0);
			if ((have_head && sl.code < 400) || app_got)
				VIOL("http_bad_request_line_accepted",
				    "upgrade request with a malformed request line (%s) was answered with status %d%s %s", mutwhat, sl.code,
				    app_got ? " and handed to the application as a websocket" : "", ws_ctx(s).c_str());
			if (!have_head && !raw_dead(s.raw))
				VIOL("http_bad_request_line_ignored",
				    "upgrade request with a malformed request line (%s): neither an error status nor a closed connection after 4 s %s",
				    mutwhat, ws_ctx(s).c_str());
			sim_probe(have_head ? "c16_ws_badreq_error_status" : "c16_ws_badreq_conn_failed");
			sim_stat("nontrivial", 1);
			out.failed = true;
			ws_teardown(s);
			return out;
		}
		if (s.hs_mut == HS_UNASSERTED) {
			sim_probe(have_head && sl.code == 101 ? "c16_ws_unasserted_hs_accepted" : "c16_ws_unasserted_hs_refused");
			ws_teardown(s);
			return out;
		}
		if (!have_head || sl.code != 101)
			VIOL("ws_valid_handshake_rejected", "valid upgrade request (variant %d) got %s %s; request was: %s", s.hs_variant,
			    have_head ? showtxt(hd.start).c_str() : "no response", ws_ctx(s).c_str(), showtxt(req, 400).c_str());
		ws_check_emitted_response(s, hd, sl);
		s.raw.pos = hd.end;
		// frames only
		for (auto &f : s.rx.frames)
			enc_frame(f, S, &fine);
	} else {
		s.lfd = raw_listen(s.port);
		ws_setup(s);
		s.raw.fd = simnet_accept_blocking(s.lfd, 5000 * MS);
		if (s.raw.fd < 0)
			h_fatal("raw accept: nng never connected (errno %d)", errno);
		simnet_set_seg(s.raw.fd, 0, 0);
		Head hd;
		bool got = wait_until(&s.raw, [&]() { return strict_head(s.raw.in, 0, hd, "nng ws dialer") || raw_dead(s.raw); }, pump,
		    4000 * MS);
		if (!got || !strict_head(s.raw.in, 0, hd, "nng ws dialer"))
			h_fatal("nng dialer sent no upgrade request (eof=%d, %zu bytes)", s.raw.eof, s.raw.in.size());
		sim_event("raw server: request '%s'", showtxt(hd.start).c_str());
		ws_check_emitted_request(s, hd);
		if (s.raw.in.size() != hd.end)
			VIOL("emit_data_before_handshake", "nng dialer sent %zu bytes after its upgrade request before any response",
			    s.raw.in.size() - hd.end);
		s.raw.pos = hd.end;
		Bytes resp = ws_response(s, &mutwhat);
		sim_event("raw server: 101 response (%zu bytes) %s", resp.size(), s.hs_mut ? mutwhat : "");
		S = resp;
		fine.push_back(std::make_pair((size_t) 0, resp.size()));
		if (s.hs_mut == HS_OK) {
			// frames follow the response without a pause: they land in the HTTP read buffer
			Bytes F;
			std::vector<std::pair<size_t, size_t>> f2;
			for (auto &f : s.rx.frames)
				enc_frame(f, F, &f2);
			for (auto &r : f2)
				fine.push_back(std::make_pair(r.first + resp.size(), r.second));
			S += F;
		}
	}
	out.slen = S.size();
	if (S.size() > 40000 && s.rx_mode != 0) {
		s.rx_mode = 0; // more than a socket buffer full: nng must be kept reading
		sim_event("stream longer than the socket buffer: a receive is kept posted");
	}
	if (!s.plan_set)
		s.plan = draw_plan(S.size());
	sim_event("raw %s: %zu frames, %zu bytes, segmentation %s", nsrv ? "client" : "server", s.rx.frames.size(), S.size(),
	    plan_str(s.plan).c_str());
	for (size_t i = 0; i < s.rx.frames.size() && i < 40; i++) {
		const TxFrame &f = s.rx.frames[i];
		sim_event("  frame %zu: %s b0=0x%02x len=%llu%s %s", i, f.what, f.b0,
		    (unsigned long long) (f.huge ? f.declared : f.payload.size()), f.mask ? " masked" : "", show(f.payload, 6).c_str());
	}
	s.rxa = new UAio();
	for (TxOp *op : s.tx)
		op->u = new UAio();

	if (s.hs_mut != HS_OK && !nsrv) {
		plan_send(s.raw, S, s.plan, &fine, pump);
		bool done = wait_until(&s.raw, [&]() { return s.o.api == API_SP ? raw_dead(s.raw) || s.pipes_added > 0 : s.conn_done; },
		    pump, 4000 * MS);
		bool app_got = s.o.api == API_SP ? s.pipes_added > 0 : (s.conn_done && s.conn_err == 0);
		if (s.hs_mut == HS_BAD_START) {
			if (app_got)
				VIOL("http_bad_status_line_accepted",
				    "101 response with a malformed status line (%s) was accepted: the dial completed successfully %s", mutwhat,
				    ws_ctx(s).c_str());
			if (!done)
				VIOL("http_bad_status_line_ignored",
				    "101 response with a malformed status line (%s): dial neither failed nor closed the connection within 4 s %s",
				    mutwhat, ws_ctx(s).c_str());
			sim_probe("c16_ws_badstatus_dial_failed");
			sim_stat("nontrivial", 1);
			out.failed = true;
		} else {
			sim_probe(app_got ? "c16_ws_unasserted_hs_accepted" : "c16_ws_unasserted_hs_refused");
		}
		ws_teardown(s);
		return out;
	}

	// ---- data phases
	bool tx_first = s.order != 0 && !s.tx.empty();
	if (nsrv) {
		// the application end exists once accept completes
		bool ok = wait_until(&s.raw, [&]() { return s.o.api == API_SP ? s.pipes_added > 0 : s.conn_done; }, pump, 4000 * MS);
		if (!ok || (s.o.api != API_SP && s.conn_err != 0))
			VIOL("ws_valid_handshake_rejected", "the listener answered 101 but the application got no connection (%s) %s",
			    ok ? nng_strerror((nng_err) s.conn_err) : "accept still pending after 4 s", ws_ctx(s).c_str());
		out.established = true;
	}
	if (tx_first) {
		g_tx_enabled = true;
		if (s.order == 1 && nsrv) {
			wait_until(&s.raw, [&]() { ws_wire_check(s); return ws_tx_all_done(s) || raw_dead(s.raw); }, pump, 10000 * MS);
		}
	}
	plan_send(s.raw, S, s.plan, &fine, pump);
	if (!nsrv) {
		// (SP socket: a pipe that dies during its start-up is never announced, which is what happens
		// when a rule-breaking frame follows the handshake at once)
		bool ok = wait_until(&s.raw, [&]() {
			if (s.o.api != API_SP)
				return s.conn_done;
			ws_wire_check(s);
			return s.pipes_added > 0 || (s.rx.mutant != MU_NONE && (s.w_close_seen || raw_dead(s.raw)));
		}, pump, 4000 * MS);
		if (!ok || (s.o.api != API_SP && s.conn_err != 0))
			VIOL("ws_valid_handshake_rejected", "valid 101 response (variant %d) but the dial failed: %s %s", s.hs_variant,
			    ok ? nng_strerror((nng_err) s.conn_err) : "still pending after 4 s", ws_ctx(s).c_str());
		out.established = true;
	}
	g_tx_enabled = true;
	ws_pump(s);

	// final drain of the receive side: everything has been written; pull until nothing more comes
	for (int guard = 0; guard < 100000; guard++) {
		if (!s.rx_pending) {
			if (s.rx_dead)
				break;
			ws_rx_submit(s, 5000);
		}
		sim_quiesce(g_hz); // nng has processed everything that is in its socket buffer
		raw_drain_nb(s.raw);
		ws_tx_advance(s);
		if (!s.rxa->poll()) {
			// (a thread held up by an injected stall looks idle to sim_quiesce:
			// let any such stall run out before concluding)
			sim_sleep_ms(150);
			sim_quiesce(g_hz);
			raw_drain_nb(s.raw);
			ws_tx_advance(s);
		}
		bool cancelled = false;
		if (!s.rxa->poll()) {
			// the library is idle and the receive is still waiting: nothing more will be delivered
			nng_aio_cancel(s.rxa->aio);
			cancelled = true;
			if (s.rxa->wait(20000 * MS) == (nng_err) -1)
				VIOL("ws_recv_hang", "cancelled receive did not complete in 20 s %s", ws_ctx(s).c_str());
		}
		int rv = s.rxa->result;
		ws_rx_collect(s);
		if (rv == NNG_ETIMEDOUT && !cancelled)
			continue; // an earlier receive ran into its own short time-out (threads may be stalled): ask again
		if (rv != 0)
			break; // cancelled (nothing more to come) or the connection is gone
	}
	ws_wire_check(s);

	bool asserted = s.rx.mutant == MU_NONE || s.rx.mutant <= MU_ASSERTED_MAX;
	if (s.rx.mutant == MU_NONE) {
		// a valid stream must be decoded completely and exactly
		if (s.o.api == API_STREAM) {
			if (s.got_stream.size() != s.rx.stream.size())
				VIOL("ws_data_lost", "valid frames carried %zu bytes, the application received %zu (recv error %s) %s",
				    s.rx.stream.size(), s.got_stream.size(), s.rx_err ? nng_strerror((nng_err) s.rx_err) : "none",
				    ws_ctx(s).c_str());
		} else if (s.got_msgs.size() != s.rx.msgs.size()) {
			VIOL("ws_data_lost", "valid frames carried %zu messages, the application received %zu (recv error %s)%s %s",
			    s.rx.msgs.size(), s.got_msgs.size(), s.rx_err ? nng_strerror((nng_err) s.rx_err) : "none",
			    s.rx.ping_inside_limit_msg ? "; a PING sat between the fragments of a message close to RECVMAXSZ" : "",
			    ws_ctx(s).c_str());
		}
		if (!s.rx.raw_close && (s.w_close_seen || (raw_dead(s.raw) && !s.raw.wr_failed)))
			VIOL("ws_valid_stream_rejected", "all frames were valid, yet nng %s %s",
			    s.w_close_seen ? "sent a CLOSE frame" : "dropped the connection", ws_ctx(s).c_str());
		if (!s.rx.msgs.empty() || !s.rx.stream.empty())
			sim_stat("nontrivial", 1);
		if (s.plan.kind != 0)
			sim_stat("ws_rx_cut_sessions", 1);
	} else {
		// the connection has to fail: CLOSE frame, EOF or reset seen by the raw peer
		bool failed = wait_until(&s.raw, [&]() { ws_wire_check(s); return s.w_close_seen || raw_dead(s.raw); }, pump, 3000 * MS);
		out.failed = failed;
		if (asserted) {
			if (!failed)
				VIOL("ws_rule_not_enforced_alive",
				    "rule '%s' (%s): 3 s after the offending frame nng has neither sent CLOSE nor dropped the connection; "
				    "application receive state: %s %s",
				    rule_of(s), s.rx.frames.empty() ? "" : "see events", s.rx_err ? nng_strerror((nng_err) s.rx_err) : "ok",
				    ws_ctx(s).c_str());
			size_t want = s.o.api == API_STREAM ? s.rx.stream.size() : s.rx.msgs.size();
			size_t have = s.o.api == API_STREAM ? s.got_stream.size() : s.got_msgs.size();
			if (have < want)
				sim_probe("c16_ws_mutant_valid_prefix_short");
			char pb[64];
			snprintf(pb, sizeof(pb), "c16_ws_rule_%s", rule_of(s));
			sim_probe(pb);
			sim_stat("nontrivial", 1);
		} else {
			char pb[80];
			snprintf(pb, sizeof(pb), "c16_ws_unasserted_%s_%s", rule_of(s), failed ? "failed" : "tolerated");
			sim_probe(pb);
		}
	}

	// ---- send phase (if it has not happened yet) and its wire check
	if (s.rx.mutant == MU_NONE && !s.tx.empty() && !(s.rx.raw_close)) {
		bool done = wait_until(&s.raw, [&]() { ws_wire_check(s); return ws_tx_all_done(s) || raw_dead(s.raw); }, pump, 10000 * MS);
		ws_wire_check(s);
		(void) done;
		size_t okmsgs = 0;
		for (TxOp *op : s.tx)
			if (op->done && op->err == 0)
				okmsgs++;
		if (okmsgs > 0 && s.w_frames > 0)
			sim_stat("nontrivial", 1);
		if (s.o.set_fragsize && s.o.fragsize > 0 && s.w_maxframe_seen == s.o.fragsize)
			sim_probe("c16_tx_fragment_at_limit");
		if (s.w_msgs > 0 && s.w_frames > (int) s.w_msgs + s.w_pongs)
			sim_probe("c16_tx_fragmented_message");
	}
	if (s.w_pongs_matched > 0)
		sim_probe("c16_pong_echoed");
	if (s.w_pongs > s.w_pongs_matched)
		sim_probe("c16_pong_unmatched");

	// ---- close
	if (s.rx.mutant == MU_NONE && ws_app_ready(s)) {
		if (s.o.api != API_SP && s.st != NULL) {
			sim_event("app closes the stream");
			nng_stream_close(s.st);
		}
		if (s.o.api == API_SP) {
			sim_event("app closes the socket");
			MUST(nng_socket_close(s.sock));
			s.sock_open = false;
		}
		wait_until(&s.raw, [&]() { ws_wire_check(s); return raw_dead(s.raw); }, std::function<void()>(), 1500 * MS);
		ws_wire_check(s);
		if (s.w_close_seen)
			sim_probe("c16_close_frame_emitted");
		if (raw_dead(s.raw) && s.raw.pos < s.raw.in.size())
			sim_probe("c16_truncated_frame_at_eof");
	}
	out.msgs   = s.got_msgs;
	out.stream = s.got_stream;
	ws_teardown(s);
	return out;
}

static WsSess *
ws_new_session(const WsSess *proto, int idx)
{
	WsSess *s = new WsSess();
	s->idx    = idx;
	s->port   = 9000 + idx;
	if (proto != NULL) {
		s->o          = proto->o;
		s->rx         = proto->rx;
		s->order      = proto->order;
		s->rx_mode    = proto->rx_mode;
		s->rxbufsz    = proto->rxbufsz;
		s->conc_tx    = proto->conc_tx;
		s->hs_mut     = proto->hs_mut;
		s->hs_variant = proto->hs_variant;
		s->path       = proto->path;
		s->hs_plan    = proto->hs_plan;
		for (TxOp *op : proto->tx) {
			TxOp *n = new TxOp();
			n->data = op->data;
			s->tx.push_back(n);
		}
	}
	return s;
}

static void
ws_draw_session(WsSess *s, Params *p, bool nng_server, bool first)
{
	WsOpts &o     = s->o;
	o.nng_server  = nng_server;
	o.api         = first ? (int) p->draw("api", 0, 2) : (int) W(0, 2);
	long m        = first ? p->draw("mut", 0, 19) : W(0, 19);
	int  mutant   = m < MU_N ? (int) m : MU_NONE;
	long hs       = first ? p->draw("hs", 0, 11) : W(0, 11);
	s->hs_mut     = hs == 1 ? HS_BAD_START : hs == 2 ? HS_UNASSERTED : HS_OK;
	s->hs_variant = (int) W(0, 255);
	static const size_t mfs[] = { 200, 125, 126, 1, 1000, 70000, 0 };
	static const size_t rms[] = { 300, 1, 100, 2000, 66000 };
	static const size_t fss[] = { 100, 1, 2, 125, 126, 300, 70000, 0 };
	o.set_maxframe = W(0, 3) == 1 || (mutant == MU_FRAMEBIG && W(0, 1));
	o.maxframe     = mfs[W(0, 6)];
	if (!o.set_maxframe)
		o.maxframe = 1u << 20;
	o.set_recvmax = o.api != API_STREAM && (W(0, 3) == 1 || mutant == MU_MSGBIG);
	o.recvmax     = rms[W(0, 4)];
	if (!o.set_recvmax)
		o.recvmax = 0;
	if (mutant == MU_FRAMEBIG && o.set_maxframe && o.maxframe == 0)
		o.maxframe = 200;
	o.set_fragsize = W(0, 2) == 1;
	o.fragsize     = fss[W(0, 7)];
	if (!o.set_fragsize)
		o.fragsize = 1u << 16;
	o.recv_text = o.api != API_SP && W(0, 5) == 1;
	o.send_text = o.api != API_SP && W(0, 5) == 1;
	// (a query string is only used with the dialer: nng's HTTP server does not route a request
	// target with a query to the websocket handler, which is not C16's business)
	s->path     = W(0, 2) == 1 ? (nng_server ? "/c16/ws" : "/c16/ws?x=1&y=2") : "/c16";
	s->rx       = gen_rxspec(o, mutant, (uint32_t) s->idx + 1);
	s->order    = (int) W(0, 2);
	s->rx_mode  = (int) W(0, 2);
	static const size_t bs[] = { 4096, 1, 7, 100, 65536 };
	s->rxbufsz  = bs[W(0, 4)];
	{
		size_t total = 0;
		for (auto &f : s->rx.frames)
			total += f.payload.size();
		if (total / s->rxbufsz > 400)
			s->rxbufsz = 4096; // keep the number of receive calls bounded
	}
	s->conc_tx  = 1;
	if (o.api == API_MSG && W(0, 5) == 1)
		s->conc_tx = 2;
	int    ntx = (int) W(0, 3);
	size_t cap0 = g_net == 3 ? 3000 : g_net != 0 ? 20000 : 80000;
	size_t cap  = o.fragsize > 0 && o.set_fragsize && o.fragsize * 40 < cap0 ? o.fragsize * 40 : cap0;
	for (int i = 0; i < ntx; i++) {
		TxOp  *op = new TxOp();
		size_t n  = draw_size(cap);
		long   lim = W(0, 5);
		if (o.set_fragsize && o.fragsize > 0) {
			if (lim == 1)
				n = o.fragsize;
			else if (lim == 2)
				n = o.fragsize + 1;
			else if (lim == 3)
				n = o.fragsize * 2;
		}
		if (n > cap0)
			n = cap0;
		if (o.api == API_STREAM && n == 0)
			n = 1;
		op->data = payload_gen(0x50000000u + (uint32_t) (s->idx * 16 + i), n);
		s->tx.push_back(op);
	}
	s->hs_plan = draw_plan(300);
}

static void
c16_globals(Params *p)
{
	g_net   = p->has("net") ? p->i("net", 0) : (p->drawn.count("net") ? p->drawn["net"] : 0);
	g_avoid = p->i("avoid", 0);
	g_hz    = g_net == 2 ? 600000 : g_net == 3 ? 1300000 : 300000; // above the largest latency / EAGAIN pause
}

static void
ws_run(Params *p, bool nng_server)
{
	c16_globals(p);
	long mode = p->draw("mode", 0, 7); // 7: one session replayed under every single cut
	int  idx  = 0;
	g_small = mode == 7;
	if (mode == 7) {
		WsSess *proto = ws_new_session(NULL, 1000);
		ws_draw_session(proto, p, nng_server, true);
		// keep the replayed stream short
		proto->hs_plan.kind = 0; // the handshake is not what is replayed here
		proto->hs_variant &= ~64;
		WsSess *s0     = ws_new_session(proto, idx++);
		s0->plan_set   = true;
		s0->plan.kind  = 0;
		WsOutcome base = ws_session(*s0);
		delete s0;
		size_t n = base.slen;
		std::vector<size_t> cuts;
		if (n > 1) {
			if (n - 1 <= 30) {
				for (size_t c = 1; c < n; c++)
					cuts.push_back(c);
			} else {
				// the first 24 offsets (all header bytes of the first frames) and a sample of the rest
				for (size_t c = 1; c <= 16; c++)
					cuts.push_back(c);
				for (int i = 0; i < 12; i++)
					cuts.push_back((size_t) W(17, (long) n - 1));
			}
		}
		if (g_net == 3 && cuts.size() > 14)
			cuts.resize(14);
		for (size_t c : cuts) {
			WsSess *s   = ws_new_session(proto, idx++);
			s->plan_set = true;
			s->plan.kind = 3;
			s->plan.cuts.push_back(c);
			WsOutcome o2 = ws_session(*s);
			delete s;
			if (proto->rx.mutant == MU_NONE && proto->hs_mut == HS_OK) {
				if (o2.msgs != base.msgs || o2.stream != base.stream)
					VIOL("ws_segmentation_dependent", "cut at %zu of %zu changes what the application receives", c, n);
			} else if (o2.failed != base.failed || o2.msgs.size() != base.msgs.size() || o2.stream.size() != base.stream.size()) {
				sim_probe("c16_meta_mutant_outcome_differs");
			}
			sim_stat("ws_single_cut_sessions", 1);
		}
		for (TxOp *op : proto->tx)
			delete op;
		delete proto;
		return;
	}
	int nsess = 1 + (int) W(0, 2);
	for (int i = 0; i < nsess; i++) {
		WsSess *s = ws_new_session(NULL, idx++);
		ws_draw_session(s, p, nng_server, i == 0);
		(void) ws_session(*s);
		delete s;
	}
}

static void
c16_cfg(sim_config *cfg, Params *p)
{
	long net = p->draw("net", 0, 3);
	if (net == 1) {
		cfg->seg_mode = 3;
	} else if (net == 2) {
		cfg->seg_mode   = 2;
		cfg->seg_k      = 7;
		cfg->lat_min_ns = 10000;
		cfg->lat_max_ns = 300000;
	} else if (net == 3) {
		cfg->seg_mode = 1;
		cfg->eagain_p = 0.03;
	}
	cfg->max_steps = 1500000; // byte-at-a-time sessions are long
	// the websocket handshake has a fixed 2 s timer inside nng: keep injected stalls far below it
	if (cfg->stall_max_ns > 5000000)
		cfg->stall_max_ns = 5000000;
}

static void
ws_srv_run(Params *p)
{
	ws_run(p, true);
}
static void
ws_cli_run(Params *p)
{
	ws_run(p, false);
}

SCENARIO(c16_ws_srv, "C16", c16_cfg, ws_srv_run);
SCENARIO(c16_ws_cli, "C16", c16_cfg, ws_cli_run);

// =====================================================================
// HTTP server: raw client -> nng_http_server
// =====================================================================
struct HLog {
	int   id;
	Bytes method, uri, tag, body, version;
};

struct HReq {
	int         id, kind; // 0 GET static, 1 HEAD static, 2 POST echo, 3 GET dyn, 4 GET missing
	Bytes       method, target, version, tag, body, wire;
	bool        mutant, asserted, head;
	const char *mutwhat;
	HReq() : id(0), kind(0), mutant(false), asserted(false), head(false), mutwhat("") {}
};

struct HSrvWorld {
	std::vector<HLog> log;
	Bytes             static_data;
	int               port;
};

static HSrvWorld *g_hs;

static void
hs_record(nng_http *conn, HLog &l)
{
	const char *v;
	l.id      = (v = nng_http_get_header(conn, "X-Id")) != NULL ? atoi(v) : -1;
	l.method  = nng_http_get_method(conn);
	l.uri     = nng_http_get_uri(conn);
	l.version = nng_http_get_version(conn);
	l.tag     = (v = nng_http_get_header(conn, "X-Tag")) != NULL ? v : "(absent)";
	void  *b  = NULL;
	size_t n  = 0;
	nng_http_get_body(conn, &b, &n);
	l.body = n ? Bytes((const char *) b, n) : Bytes();
}

static void
hs_echo_cb(nng_http *conn, void *arg, nng_aio *aio)
{
	HSrvWorld *w = (HSrvWorld *) arg;
	HLog       l;
	hs_record(conn, l);
	w->log.push_back(l);
	char idb[16];
	snprintf(idb, sizeof(idb), "%d", l.id);
	nng_err rv;
	if ((rv = nng_http_set_header(conn, "X-Echo-Id", idb)) != NNG_OK || (rv = nng_http_copy_body(conn, l.body.data(), l.body.size())) != NNG_OK) {
		nng_aio_finish(aio, rv);
		return;
	}
	nng_http_set_status(conn, NNG_HTTP_STATUS_OK, NULL);
	nng_aio_finish(aio, NNG_OK);
}

static void
hs_dyn_cb(nng_http *conn, void *arg, nng_aio *aio)
{
	HSrvWorld *w = (HSrvWorld *) arg;
	HLog       l;
	hs_record(conn, l);
	w->log.push_back(l);
	char idb[16];
	snprintf(idb, sizeof(idb), "%d", l.id);
	nng_err rv;
	Bytes   body = "uri=" + l.uri;
	if ((rv = nng_http_set_header(conn, "X-Echo-Id", idb)) != NNG_OK || (rv = nng_http_copy_body(conn, body.data(), body.size())) != NNG_OK) {
		nng_aio_finish(aio, rv);
		return;
	}
	nng_http_set_status(conn, NNG_HTTP_STATUS_OK, NULL);
	nng_aio_finish(aio, NNG_OK);
}

static HReq
hs_gen_req(int id, int port, bool last, bool make_mutant)
{
	HReq r;
	r.id      = id;
	r.kind    = (int) W(0, 5);
	if (r.kind == 5 && (g_avoid & AV_HTTP_HEAD_ERR))
		r.kind = 4;
	int v     = (int) W(0, 255);
	r.version = "HTTP/1.1";
	bool http10 = last && W(0, 5) == 1;
	if (http10)
		r.version = "HTTP/1.0";
	switch (r.kind) {
	case 0:
		r.method = "GET";
		r.target = "/static";
		break;
	case 1:
		r.method = "HEAD";
		r.target = "/static";
		r.head   = true;
		break;
	case 2: {
		r.method = "POST";
		r.target = "/echo";
		static const size_t ns[] = { 11, 0, 1, 2, 300, 4000, 7800 };
		long                sel  = W(0, 8);
		size_t              n    = sel < 7 ? ns[sel] : (size_t) W(0, 900);
		if (g_net == 3 && n > 1500)
			n = 1500;
		r.body = payload_gen(0x30000000u + (uint32_t) id, n);
		if (n >= 8 && W(0, 2) == 0) // make the body look like the start of another request
			r.body.replace(0, 8, "\r\n\r\nGET ");
		break;
	}
	case 3: {
		r.method = "GET";
		static const char *ts[] = { "/dyn", "/dyn/a", "/dyn/a/b.txt?x=1&y=%20z", "/dyn/?q", "/dyn/~user/-_.!*'()" };
		r.target = ts[W(0, 4)];
		break;
	}
	case 5:
		r.method = "HEAD";
		r.target = "/missing/page";
		r.head   = true;
		r.kind   = 4;
		break;
	default:
		r.method = "GET";
		r.target = "/missing/page";
		if (W(0, 2) == 0) {
			// ... with a body that no handler will collect: the server has to
			// skip it and go on with whatever follows on the connection
			static const size_t ns[] = { 5, 300, 2000 };
			r.method = W(0, 1) ? "POST" : "PUT";
			r.body   = payload_gen(0x32000000u + (uint32_t) id, ns[W(0, 2)]);
		}
		break;
	}
	r.tag = W(0, 3) == 1 ? Bytes() : "t" + std::to_string(id) + " with  inner spaces; =,\"q\"";
	Bytes start = r.method + " " + r.target + " " + r.version;
	if (make_mutant) {
		long k = W(0, N_BAD_REQ_LINE + 1);
		r.mutant = true;
		r.head   = false; // a malformed request line gives the server no method to go by
		if (k < N_BAD_REQ_LINE) {
			r.asserted = true;
			start      = bad_request_line((int) k, r.method, r.target, &r.mutwhat);
		} else {
			r.asserted = false; // stricter than the statement: recorded only
		}
	}
	char host[64], idb[16];
	snprintf(host, sizeof(host), "127.0.0.1:%d", port);
	snprintf(idb, sizeof(idb), "%d", id);
	std::vector<Bytes> h;
	if (!http10 || W(0, 1))
		h.push_back(hdr_line("Host", host, v));
	h.push_back(hdr_line("X-Id", idb, v & ~4)); // the id must stay parseable whatever the server does
	h.push_back(hdr_line("X-Tag", r.tag, v));
	if (r.kind == 2 || (!r.body.empty()))
		h.push_back(hdr_line("Content-Length", std::to_string(r.body.size()), v));
	if (v & 32)
		h.push_back(hdr_line("Accept", "*/*", v));
	if (v & 64)
		h.push_back(hdr_line("X-Padding", Bytes((size_t) W(1, 3000), 'p'), v));
	if (last && !http10 && W(0, 2) == 1)
		h.push_back(hdr_line("Connection", "close", v));
	if (r.mutant && !r.asserted) {
		if (W(0, 1)) {
			r.mutwhat = "header line without a colon";
			h.insert(h.begin() + 1, Bytes("X-Broken header line\r\n"));
		} else {
			r.mutwhat = "bare LF line endings";
		}
	}
	if (v & 128)
		std::rotate(h.begin() + 1, h.begin() + 1 + (long) W(0, (long) h.size() - 2), h.end());
	r.wire = start + "\r\n";
	for (auto &l : h)
		r.wire += l;
	r.wire += "\r\n";
	if (r.mutant && !r.asserted && strcmp(r.mutwhat, "bare LF line endings") == 0) {
		Bytes o;
		for (size_t i = 0; i < r.wire.size(); i++)
			if (r.wire[i] != '\r')
				o += r.wire[i];
		r.wire = o;
	}
	r.wire += r.body;
	return r;
}

struct HResp {
	StatusLine sl;
	Head       hd;
	Bytes      body;
};

// parse the next response nng emitted; false if incomplete
static bool
hs_next_response(Raw &r, bool head_req, HResp &out)
{
	const char *who = "nng http server";
	Head        hd;
	if (!strict_head(r.in, r.pos, hd, who))
		return false;
	strict_status_line(hd.start, out.sl, who);
	size_t blen = 0;
	int    ncl  = hcount(hd, "Content-Length");
	if (ncl > 1)
		VIOL("emit_bad_framing", "%s: response carries %d Content-Length headers", who, ncl);
	if (hget(hd, "Transfer-Encoding") != NULL)
		VIOL("emit_bad_framing", "%s: unexpected Transfer-Encoding '%s' in a response", who,
		    showtxt(*hget(hd, "Transfer-Encoding")).c_str());
	if (ncl == 1) {
		const Bytes &cl = *hget(hd, "Content-Length");
		if (!all_digits(cl) || cl.size() > 9)
			VIOL("emit_bad_framing", "%s: Content-Length '%s' is not a number", who, showtxt(cl).c_str());
		blen = (size_t) atol(cl.c_str());
	}
	bool nobody = head_req || out.sl.code / 100 == 1 || out.sl.code == 204 || out.sl.code == 304;
	if (!nobody && ncl == 0) {
		// without a length the body would run to the end of the connection; nng always sends one
		const Bytes *c = hget(hd, "Connection");
		if (c == NULL || !has_word(*c, "close"))
			VIOL("emit_bad_framing", "%s: response %d on a persistent connection has no Content-Length", who, out.sl.code);
	}
	if (head_req && blen > 0 && r.in.size() > hd.end && r.in.compare(hd.end, std::min((size_t) 5, r.in.size() - hd.end), Bytes("HTTP/").substr(0, std::min((size_t) 5, r.in.size() - hd.end))) != 0)
		VIOL("emit_body_after_head_request", "%s: the response '%s' to a HEAD request is followed by a message body (%s...)", who,
		    showtxt(hd.start).c_str(), showtxt(r.in.substr(hd.end, 40)).c_str());
	if (nobody)
		blen = 0;
	if (r.in.size() - hd.end < blen)
		return false;
	out.hd   = hd;
	out.body = r.in.substr(hd.end, blen);
	r.pos    = hd.end + blen;
	return true;
}

static void
http_srv_run(Params *p)
{
	c16_globals(p);
	HSrvWorld w;
	g_hs   = &w;
	w.port = 9400;
	w.static_data = payload_gen(0x31000000u, (size_t) W(0, 5) == 0 ? 0 : (size_t) W(1, 3000));
	nng_url          *url = NULL;
	nng_http_server  *srv = NULL;
	nng_http_handler *h1 = NULL, *h2 = NULL, *h3 = NULL;
	char              ub[64];
	snprintf(ub, sizeof(ub), "http://127.0.0.1:%d", w.port);
	MUST(nng_url_parse(&url, ub));
	MUST(nng_http_server_hold(&srv, url));
	MUST(nng_http_handler_alloc_static(&h1, "/static", w.static_data.data(), w.static_data.size(), "text/plain"));
	MUST(nng_http_handler_alloc(&h2, "/echo", hs_echo_cb));
	nng_http_handler_set_method(h2, "POST");
	nng_http_handler_collect_body(h2, true, 8192);
	nng_http_handler_set_data(h2, &w, NULL);
	MUST(nng_http_handler_alloc(&h3, "/dyn", hs_dyn_cb));
	nng_http_handler_set_tree(h3);
	nng_http_handler_set_data(h3, &w, NULL);
	MUST(nng_http_server_add_handler(srv, h1));
	MUST(nng_http_server_add_handler(srv, h2));
	MUST(nng_http_server_add_handler(srv, h3));
	MUST(nng_http_server_start(srv));

	int nconn = 1 + (int) W(0, 2);
	int id    = 1;
	for (int ci = 0; ci < nconn; ci++) {
		Raw raw;
		raw_connect(raw, w.port);
		int  nreq   = 1 + (int) W(0, 4);
		long mutsel = p->draw(ci == 0 ? "mut" : "mut2", 0, 2);
		bool pipelined = !(g_avoid & AV_HTTP_PIPELINE) && W(0, 3) != 1;
		if (pipelined && mutsel != 1 && g_net == 0 && W(0, 5) == 0) {
			// a long train of requests: more bytes than the server's read buffer
			// holds arrive at once, with complete requests in front of a cut one
			nreq = (int) W(30, 80);
			sim_probe("c16_http_srv_long_train");
		}
		int  mutat  = mutsel == 1 ? (int) W(0, nreq - 1) : -1;
		if ((g_avoid & AV_HTTP_ISERR) && mutat >= 0)
			mutat = nreq - 1;
		std::vector<HReq> reqs;
		Bytes             S;
		std::vector<std::pair<size_t, size_t>> fine;
		for (int i = 0; i < nreq; i++) {
			HReq r = hs_gen_req(id++, w.port, i == nreq - 1, i == mutat);
			if ((g_avoid & AV_HTTP_ISERR) && r.kind == 4 && !r.mutant && i != nreq - 1) {
				id--;
				i--;
				continue; // an error response must be the last thing on the connection
			}
			fine.push_back(std::make_pair(S.size(), r.wire.size() - r.body.size()));
			S += r.wire;
			reqs.push_back(r);
		}
		SegPlan plan = draw_plan(pipelined ? S.size() : reqs[0].wire.size());
		sim_event("http conn %d: %d %s requests, %zu bytes, segmentation %s net=%ld", ci, nreq, pipelined ? "pipelined" : "sequential", S.size(),
		    plan_str(plan).c_str(), g_net);
		for (auto &r : reqs)
			sim_event("  req %d: %s %s %s body=%zu%s%s", r.id, r.method.c_str(), r.target.c_str(), r.version.c_str(), r.body.size(),
			    r.mutant ? (r.asserted ? " MUTANT " : " MUTANT(unasserted) ") : "", r.mutwhat);
		auto pump = [&raw]() { raw_drain_nb(raw); };
		if (pipelined) {
			plan_send(raw, S, plan, &fine, pump);
			if (nreq > 1)
				sim_stat("http_srv_pipelined_conns", 1);
		}
		char ctx[160];
		snprintf(ctx, sizeof(ctx), "[%s seg=%s net=%ld conn=%d]", pipelined ? "pipelined" : "sequential", plan_str(plan).c_str(), g_net, ci);

		bool after_mutant = false;
		for (size_t i = 0; i < reqs.size(); i++) {
			HReq &r = reqs[i];
			HResp resp;
			if (!pipelined) {
				if (i > 0)
					plan = draw_plan(r.wire.size());
				std::vector<std::pair<size_t, size_t>> f1;
				f1.push_back(std::make_pair((size_t) 0, r.wire.size() - r.body.size()));
				sim_event("  sending req %d, segmentation %s", r.id, plan_str(plan).c_str());
				plan_send(raw, r.wire, plan, &f1, pump);
			}
			bool  got = wait_until(&raw, [&]() { return hs_next_response(raw, r.head, resp) || raw_dead(raw); }, std::function<void()>(), 5000 * MS);
			bool  have = got && (resp.hd.end != 0 || hs_next_response(raw, r.head, resp));
			if (have && resp.hd.end == 0)
				have = false;
			size_t nlog = 0;
			HLog  *lg   = NULL;
			for (auto &l : w.log)
				if (l.id == r.id) {
					nlog++;
					lg = &l;
				}
			if (have)
				sim_event("  resp to %d: '%s' body=%zu", r.id, showtxt(resp.hd.start).c_str(), resp.body.size());
			else
				sim_event("  no response to %d (eof=%d rst=%d)", r.id, raw.eof, raw.rst);
			if (r.mutant) {
				if (r.asserted) {
					if (nlog > 0)
						VIOL("http_bad_request_line_accepted", "request %d with a malformed request line (%s) reached the handler %s",
						    r.id, r.mutwhat, ctx);
					if (have && resp.sl.code < 400)
						VIOL("http_bad_request_line_accepted", "request %d with a malformed request line (%s) was answered with status %d %s",
						    r.id, r.mutwhat, resp.sl.code, ctx);
					if (!have && !raw_dead(raw))
						VIOL("http_bad_request_line_ignored",
						    "request %d with a malformed request line (%s): neither an error status nor a closed connection after 5 s %s",
						    r.id, r.mutwhat, ctx);
					sim_probe(have ? "c16_http_badreq_error_status" : "c16_http_badreq_conn_failed");
					sim_stat("nontrivial", 1);
				} else {
					sim_probe(have ? (resp.sl.code < 400 ? "c16_http_unasserted_accepted" : "c16_http_unasserted_error_status")
					               : "c16_http_unasserted_conn_failed");
				}
				// What follows a malformed request on the same connection is undefined (its body, for
				// one, is read as further requests), so responses can no longer be paired with requests.
				after_mutant = true;
				break;
			}
			if (!have)
				VIOL("http_valid_request_rejected", "no response to valid request %d (%s %s): connection %s %s; request bytes: %s", r.id,
				    r.method.c_str(), r.target.c_str(), raw_dead(raw) ? "dropped" : "silent for 5 s", ctx, showtxt(r.wire, 200).c_str());
			bool handler = r.kind == 2 || r.kind == 3;
			if (r.kind == 4) {
				if (resp.sl.code < 400)
					VIOL("http_response_mismatch", "request %d for an unknown path got status %d %s", r.id, resp.sl.code, ctx);
				continue;
			}
			if (resp.sl.code != 200)
				VIOL("http_valid_request_rejected", "valid request %d (%s %s %s) got '%s' %s; request bytes: %s", r.id, r.method.c_str(),
				    r.target.c_str(), r.version.c_str(), showtxt(resp.hd.start).c_str(), ctx, showtxt(r.wire, 300).c_str());
			if (handler) {
				if (nlog != 1)
					VIOL("http_request_altered", "request %d reached its handler %zu times %s", r.id, nlog, ctx);
				if (lg->method != r.method || lg->uri != r.target || lg->tag != r.tag || lg->body != r.body) {
					size_t k = 0;
					while (k < lg->body.size() && k < r.body.size() && lg->body[k] == r.body[k])
						k++;
					VIOL("http_request_altered",
					    "request %d as seen by the handler: %s '%s' %s tag '%s' body %zu bytes; as sent: %s '%s' %s tag '%s' body %zu bytes "
					    "(bodies differ from offset %zu) %s",
					    r.id, lg->method.c_str(), showtxt(lg->uri).c_str(), lg->version.c_str(), showtxt(lg->tag).c_str(), lg->body.size(),
					    r.method.c_str(), showtxt(r.target).c_str(), r.version.c_str(), showtxt(r.tag).c_str(), r.body.size(), k, ctx);
				}
				const Bytes *e = hget(resp.hd, "X-Echo-Id");
				if (e == NULL || atoi(e->c_str()) != r.id)
					VIOL("http_response_mismatch", "response %zu on the connection answers request %s, expected %d %s", i,
					    e ? e->c_str() : "(no X-Echo-Id)", r.id, ctx);
			}
			Bytes want = r.kind <= 1 ? w.static_data : r.kind == 2 ? r.body : "uri=" + r.target;
			if (r.head) {
				const Bytes *cl = hget(resp.hd, "Content-Length");
				if (cl != NULL && (size_t) atol(cl->c_str()) != want.size())
					VIOL("http_response_mismatch", "HEAD response announces %s bytes, the resource has %zu %s", cl->c_str(), want.size(), ctx);
			} else if (resp.body != want) {
				VIOL("http_response_mismatch", "response body to request %d has %zu bytes (%s), expected %zu (%s) %s", r.id, resp.body.size(),
				    show(resp.body, 10).c_str(), want.size(), show(want, 10).c_str(), ctx);
			}
			sim_stat("http_srv_requests_verified", 1);
			sim_stat("nontrivial", 1);
			if (plan.kind != 0)
				sim_stat("http_srv_cut_requests", 1);
		}
		// whatever else nng sent must still be well-formed responses
		if (!after_mutant) {
			sim_quiesce(g_hz);
			raw_drain_nb(raw);
			HResp extra;
			int   guard = 0;
			while (raw.pos < raw.in.size() && guard++ < 8 && hs_next_response(raw, false, extra))
				sim_probe("c16_http_extra_response");
		}
		raw_close(raw);
		sim_quiesce(g_hz);
	}
	nng_http_server_stop(srv);
	nng_http_server_release(srv);
	nng_url_free(url);
	g_hs = NULL;
}

SCENARIO(c16_http_srv, "C16", c16_cfg, http_srv_run);

// =====================================================================
// HTTP client: nng_http_client / nng_http_transact -> raw server
// =====================================================================
enum { CM_NONE = 0, CM_STATUS, CM_CHUNK_NONHEX, CM_CHUNK_EMPTY, CM_CHUNK_OVERFLOW, CM_CHUNK_BARE_LF, CM_ASSERTED_MAX = CM_CHUNK_BARE_LF,
	CM_CHUNK_NO_CRLF_AFTER_DATA, CM_N };

static Bytes
hex_size(size_t n, int style)
{
	char b[40];
	snprintf(b, sizeof(b), (style & 1) ? "%zX" : "%zx", n);
	Bytes s = b;
	if (style & 2)
		s = Bytes((size_t) 1 + (size_t) (style >> 3) % 3, '0') + s;
	if (style & 4) // mixed case
		for (size_t i = 0; i < s.size(); i += 2)
			s[i] = (char) toupper((unsigned char) s[i]);
	return s;
}

// chunked encoding of body, optionally with exactly one malformed element
static Bytes
chunk_encode(const Bytes &body, int mutant, const char **mutwhat, std::vector<std::pair<size_t, size_t>> *fine, size_t base)
{
	Bytes  out;
	size_t off     = 0;
	int    nchunks = 0;
	int    total   = 1 + (int) W(0, 4);
	int    mut_at  = mutant != CM_NONE ? (int) W(0, total - 1) : -1;
	std::vector<size_t> sizes;
	for (int i = 0; i < total - 1 && off < body.size(); i++) {
		size_t n = (size_t) W(1, (long) (body.size() - off));
		sizes.push_back(n);
		off += n;
	}
	if (off < body.size())
		sizes.push_back(body.size() - off);
	if (mut_at >= (int) sizes.size())
		mut_at = (int) sizes.size(); // the terminating chunk line (or a data chunk made up for the purpose)
	off = 0;
	for (size_t i = 0; i <= sizes.size(); i++) {
		bool   lastline = i == sizes.size();
		size_t n        = lastline ? 0 : sizes[i];
		size_t l0       = out.size();
		Bytes  sz       = hex_size(n, (int) W(0, 31));
		Bytes  eol      = "\r\n";
		Bytes  data     = lastline ? Bytes() : body.substr(off, n);
		Bytes  dataeol  = lastline ? Bytes() : Bytes("\r\n");
		if ((int) i == mut_at) {
			switch (mutant) {
			case CM_CHUNK_NONHEX: {
				static const char *bad[] = { "1g", "xyz", "-5", "+5", " 5", "5 ", "0x10", "5,", "5.0", "\"5\"" };
				sz       = bad[W(0, 9)];
				*mutwhat = "chunk size is not a hex number";
				break;
			}
			case CM_CHUNK_EMPTY:
				sz       = "";
				*mutwhat = "empty chunk size line";
				break;
			case CM_CHUNK_OVERFLOW: {
				static const int lens[] = { 17, 16, 18, 24, 40 };
				sz       = Bytes((size_t) lens[W(0, 4)], W(0, 1) ? 'F' : 'f');
				long how = W(0, 3);
				if (how == 1) {
					sz = "1" + Bytes(16, '0'); // 2^64
				} else if (how >= 2) {
					char hb[40];
					snprintf(hb, sizeof(hb), "%s%016zx", how == 2 ? "1" : "f0", n); // 2^64 * k + the real size
					sz = hb;
				}
				*mutwhat = "chunk size overflows 64 bits";
				break;
			}
			case CM_CHUNK_BARE_LF:
				if (lastline) { // needs data after it to be unambiguous: use a made-up chunk
					sz   = "3";
					data = "abc";
					dataeol = "\r\n";
				}
				eol      = "\n";
				*mutwhat = "chunk size line ends with a bare LF";
				break;
			case CM_CHUNK_NO_CRLF_AFTER_DATA:
				if (lastline) {
					sz   = "3";
					data = "abc";
				}
				dataeol  = "XY";
				*mutwhat = "chunk data not followed by CRLF";
				break;
			}
		} else if (W(0, 3) == 1) {
			static const char *ext[] = { ";x", ";name=value", ";a=1;b=\"q\"", ";  sp" };
			sz += ext[W(0, 3)];
		}
		out += sz + eol;
		if (fine)
			fine->push_back(std::make_pair(base + l0, out.size() - l0));
		out += data + dataeol;
		off += n;
		nchunks++;
	}
	// trailer section
	size_t t0 = out.size();
	int    nt = (int) W(0, 3) == 1 ? (int) W(1, 2) : 0;
	for (int i = 0; i < nt; i++)
		out += "X-Trailer-" + std::to_string(i) + ": tv" + std::to_string(i) + "\r\n";
	out += "\r\n";
	if (fine)
		fine->push_back(std::make_pair(base + t0, out.size() - t0));
	return out;
}

struct CTxn {
	Bytes method, path, query, xreq, body;
	int   mode; // 0 nng_http_transact, 1 write_request + read_response + read_all
	// response
	int   code;
	Bytes reason, xresp, rbody;
	int   bodykind; // 0 none, 1 content-length, 2 chunked
	int   mutant;
	const char *mutwhat;
	CTxn() : mode(0), code(200), bodykind(0), mutant(CM_NONE), mutwhat("") {}
};

static void
http_cli_run(Params *p)
{
	c16_globals(p);
	int port = 9500;
	int lfd  = raw_listen(port);
	nng_url         *url = NULL;
	nng_http_client *cli = NULL;
	MUST(nng_url_parse(&url, "http://127.0.0.1:9500/base"));
	MUST(nng_http_client_alloc(&cli, url));
	int  nconn = 1 + (int) W(0, 1);
	int  serial = 0;
	for (int ci = 0; ci < nconn; ci++) {
		UAio cu;
		nng_aio_set_timeout(cu.aio, 8000);
		cu.arm("http_connect");
		nng_http_client_connect(cli, cu.aio);
		Raw raw;
		raw.fd = simnet_accept_blocking(lfd, 5000 * MS);
		if (raw.fd < 0)
			h_fatal("raw accept: nng http client never connected");
		simnet_set_seg(raw.fd, 0, 0);
		if (cu.wait(10000 * MS) != 0)
			h_fatal("nng_http_client_connect failed: %d", (int) cu.result);
		nng_http *conn = (nng_http *) nng_aio_get_output(cu.aio, 0);
		int       ntx  = 1 + (int) W(0, 2);
		for (int ti = 0; ti < ntx; ti++) {
			CTxn t;
			serial++;
			static const char *ms[] = { "GET", "POST", "PUT", "HEAD", "DELETE" };
			t.method = ms[W(0, 4)];
			static const char *ps[] = { "/base", "/base/a/b", "/", "/base/x.y-z_~" };
			t.path   = ps[W(0, 3)];
			t.query  = W(0, 2) == 1 ? "k=v&n=" + std::to_string(serial) : "";
			t.xreq   = "req-" + std::to_string(serial) + " a  b;c=\"d\"";
			if (t.method == "POST" || t.method == "PUT") {
				static const size_t ns[] = { 7, 0, 1, 300, 5000 };
				size_t n = ns[W(0, 4)];
				if (g_net == 3 && n > 1000)
					n = 1000;
				t.body = payload_gen(0x40000000u + (uint32_t) serial, n);
			}
			long msel = (ti == 0 && ci == 0) ? p->draw("mut", 0, 11) : W(0, 11);
			t.mutant  = msel < CM_N ? (int) msel : CM_NONE;
			bool head = t.method == "HEAD";
			static const int codes[] = { 200, 201, 404, 500, 204, 302 };
			t.code     = codes[W(0, 5)];
			t.bodykind = t.code == 204 ? 0 : (int) W(0, 2);
			if (t.mutant >= CM_CHUNK_NONHEX)
				t.bodykind = 2;
			if (head && t.bodykind == 2) {
				if (t.mutant >= CM_CHUNK_NONHEX)
					t.method = "GET"; // a HEAD response has no chunks to get wrong
				else
					t.bodykind = 1;
			}
			head   = t.method == "HEAD";
			t.mode = (t.bodykind == 2 || W(0, 2) != 1) ? 0 : 1;
			if (t.bodykind != 0) {
				static const size_t ns[] = { 13, 0, 1, 255, 256, 4096, 9000, 20000 };
				size_t n = ns[W(0, 7)];
				if (g_net != 0 && n > 4096)
					n = 4096;
				if (g_net == 3 && n > 1000)
					n = 1000;
				t.rbody = payload_gen(0x41000000u + (uint32_t) serial, n);
				if (n >= 12 && W(0, 2) == 0)
					t.rbody.replace(n / 2, 7, "\r\n0\r\n\r\n");
			}
			static const char *rs[] = { "OK", "", "Reason With Spaces", "Not Found", "x" };
			t.reason = rs[W(0, 4)];
			t.xresp  = "resp-" + std::to_string(serial) + "  v;w";
			int v    = (int) W(0, 255);

			// ---- nng side: prepare and submit the request
			if (ti > 0)
				nng_http_reset(conn);
			nng_http_set_method(conn, t.method.c_str());
			MUST(nng_http_set_uri(conn, t.path.c_str(), t.query.empty() ? NULL : t.query.c_str()));
			MUST(nng_http_set_header(conn, "X-Req", t.xreq.c_str()));
			if (!t.body.empty() || t.method == "POST" || t.method == "PUT") {
				if (W(0, 1))
					MUST(nng_http_copy_body(conn, t.body.data(), t.body.size()));
				else
					nng_http_set_body(conn, (void *) t.body.data(), t.body.size());
			}
			UAio u;
			nng_aio_set_timeout(u.aio, 8000);
			sim_event("txn %d: %s %s%s%s body=%zu via %s; response %d '%s' bodykind=%d rbody=%zu mutant=%d", serial, t.method.c_str(),
			    t.path.c_str(), t.query.empty() ? "" : "?", t.query.c_str(), t.body.size(), t.mode ? "write/read" : "transact", t.code,
			    t.reason.c_str(), t.bodykind, t.rbody.size(), t.mutant);
			u.arm(t.mode ? "http_write_request" : "http_transact");
			if (t.mode == 0)
				nng_http_transact(conn, u.aio);
			else
				nng_http_write_request(conn, u.aio);

			// ---- raw side: read and check the request nng emitted
			const char *who = "nng http client";
			Head        hd;
			size_t      start = raw.pos;
			bool got = wait_until(&raw, [&]() { return strict_head(raw.in, start, hd, who) || raw_dead(raw); }, std::function<void()>(),
			    5000 * MS);
			if (!got || !strict_head(raw.in, start, hd, who))
				h_fatal("nng http client sent no complete request head (%zu bytes, eof=%d)", raw.in.size() - start, raw.eof);
			RequestLine rl;
			strict_request_line(hd.start, rl, who);
			Bytes want_target = t.path + (t.query.empty() ? "" : "?" + t.query);
			if (rl.method != t.method || rl.target != want_target || rl.version != "HTTP/1.1")
				VIOL("emit_request_mismatch", "%s: request line '%s', the application asked for %s %s", who, showtxt(hd.start).c_str(),
				    t.method.c_str(), want_target.c_str());
			if (hcount(hd, "Host") != 1 || *hget(hd, "Host") != "127.0.0.1:9500")
				VIOL("emit_request_mismatch", "%s: Host header missing, repeated or wrong ('%s')", who,
				    hget(hd, "Host") ? showtxt(*hget(hd, "Host")).c_str() : "(absent)");
			if (hcount(hd, "X-Req") != 1 || *hget(hd, "X-Req") != t.xreq)
				VIOL("emit_request_mismatch", "%s: header X-Req is '%s', the application set '%s'", who,
				    hget(hd, "X-Req") ? showtxt(*hget(hd, "X-Req")).c_str() : "(absent)", showtxt(t.xreq).c_str());
			size_t blen = 0;
			if (hcount(hd, "Content-Length") > 1)
				VIOL("emit_bad_framing", "%s: request carries %d Content-Length headers", who, hcount(hd, "Content-Length"));
			if (hget(hd, "Content-Length") != NULL) {
				if (!all_digits(*hget(hd, "Content-Length")))
					VIOL("emit_bad_framing", "%s: Content-Length '%s' is not a number", who, showtxt(*hget(hd, "Content-Length")).c_str());
				blen = (size_t) atol(hget(hd, "Content-Length")->c_str());
			}
			if (hget(hd, "Transfer-Encoding") != NULL)
				VIOL("emit_bad_framing", "%s: request carries Transfer-Encoding", who);
			if (blen != t.body.size())
				VIOL("emit_bad_framing", "%s: request announces %zu body bytes, the application attached %zu", who, blen, t.body.size());
			wait_until(&raw, [&]() { return raw.in.size() - hd.end >= blen || raw_dead(raw); }, std::function<void()>(), 5000 * MS);
			sim_quiesce(g_hz);
			raw_drain_nb(raw);
			if (raw.in.size() - hd.end != blen || raw.in.compare(hd.end, blen, t.body) != 0)
				VIOL("emit_bad_framing", "%s: %zu bytes follow the request head, body of %zu bytes expected%s", who, raw.in.size() - hd.end, blen,
				    raw.in.size() - hd.end == blen ? " (content differs)" : "");
			raw.pos = hd.end + blen;
			sim_stat("http_cli_requests_verified", 1);
			if (t.mode == 1) {
				if (u.wait(10000 * MS) != 0)
					VIOL("http_valid_exchange_failed", "nng_http_write_request failed: %s", nng_strerror(u.result));
				u.arm("http_read_response");
				nng_http_read_response(conn, u.aio);
			}

			// ---- raw side: the response
			bool  head_resp = t.method == "HEAD";
			Bytes start_line = "HTTP/1.1 " + std::to_string(t.code) + " " + t.reason;
			if (t.mutant == CM_STATUS)
				start_line = bad_status_line((int) W(0, N_BAD_STATUS_LINE - 1), t.code, &t.mutwhat);
			Bytes R = start_line + "\r\n";
			std::vector<Bytes> h;
			h.push_back(hdr_line("X-Resp", t.xresp, v));
			if (v & 32)
				h.push_back(hdr_line("Server", "raw/0.1", v));
			if (v & 64)
				h.push_back(hdr_line("X-Padding", Bytes((size_t) W(1, 2000), 'q'), v));
			if (t.bodykind == 1)
				h.push_back(hdr_line("Content-Length", std::to_string(t.rbody.size()), v));
			else if (t.bodykind == 2)
				h.push_back(hdr_line("Transfer-Encoding", "chunked", v));
			else if (W(0, 1) && t.code != 204)
				h.push_back(hdr_line("Content-Length", "0", v));
			if (v & 128)
				std::rotate(h.begin(), h.begin() + (long) W(0, (long) h.size() - 1), h.end());
			for (auto &l : h)
				R += l;
			R += "\r\n";
			std::vector<std::pair<size_t, size_t>> fine;
			fine.push_back(std::make_pair((size_t) 0, R.size()));
			if (!head_resp) {
				if (t.bodykind == 1)
					R += t.rbody;
				else if (t.bodykind == 2)
					R += chunk_encode(t.rbody, t.mutant >= CM_CHUNK_NONHEX ? t.mutant : CM_NONE, &t.mutwhat, &fine, R.size());
			}
			SegPlan plan = draw_plan(R.size());
			char    ctx[200];
			snprintf(ctx, sizeof(ctx), "[txn %d %s via %s, seg=%s net=%ld]", serial, t.method.c_str(), t.mode ? "write/read" : "transact",
			    plan_str(plan).c_str(), g_net);
			sim_event("raw server: response %zu bytes, segmentation %s %s", R.size(), plan_str(plan).c_str(), t.mutwhat);
			plan_send(raw, R, plan, &fine, [&raw]() { raw_drain_nb(raw); });
			if (u.wait(20000 * MS) == (nng_err) -1)
				VIOL("http_client_hang", "HTTP exchange with an 8 s timeout did not complete in 20 s %s", ctx);
			int  rv       = u.result;
			bool asserted = t.mutant != CM_NONE && t.mutant <= CM_ASSERTED_MAX;
			sim_event("exchange result: %s status=%d", rv ? nng_strerror((nng_err) rv) : "ok", rv ? 0 : (int) nng_http_get_status(conn));
			if (t.mutant != CM_NONE) {
				if (asserted) {
					if (rv == 0)
						VIOL(t.mutant == CM_STATUS ? "http_bad_status_line_accepted" : "http_bad_chunk_size_accepted",
						    "response with a malformed %s (%s) was delivered to the application as status %d with %s %s",
						    t.mutant == CM_STATUS ? "status line" : "chunk size", t.mutwhat, (int) nng_http_get_status(conn),
						    t.mutant == CM_STATUS ? "no error" : "a decoded body", ctx);
					char pb[64];
					snprintf(pb, sizeof(pb), "c16_http_cli_mutant_%d_failed", t.mutant);
					sim_probe(pb);
					sim_stat("nontrivial", 1);
				} else {
					sim_probe(rv == 0 ? "c16_http_cli_unasserted_accepted" : "c16_http_cli_unasserted_failed");
				}
				break; // the connection is finished
			}
			if (rv != 0)
				VIOL("http_valid_exchange_failed", "valid response ('%s', body kind %d, %zu bytes) made the exchange fail: %s %s; head: %s",
				    showtxt(start_line).c_str(), t.bodykind, t.rbody.size(), nng_strerror((nng_err) rv), ctx, showtxt(R, 300).c_str());
			if ((int) nng_http_get_status(conn) != t.code)
				VIOL("http_response_altered", "status %d delivered, %d sent %s", (int) nng_http_get_status(conn), t.code, ctx);
			const char *xr = nng_http_get_header(conn, "X-Resp");
			if (xr == NULL || t.xresp != xr)
				VIOL("http_response_altered", "header X-Resp delivered as '%s', sent '%s' %s", xr ? xr : "(absent)", t.xresp.c_str(), ctx);
			const char *rsn = nng_http_get_reason(conn);
			if (rsn == NULL || t.reason != rsn)
				sim_probe("c16_http_cli_reason_differs");
			Bytes want = head_resp ? Bytes() : t.rbody;
			Bytes gotb;
			if (t.mode == 0) {
				void  *b = NULL;
				size_t n = 0;
				nng_http_get_body(conn, &b, &n);
				gotb = n ? Bytes((const char *) b, n) : Bytes();
			} else if (!head_resp && t.bodykind == 1 && !t.rbody.empty()) {
				const char *cl = nng_http_get_header(conn, "Content-Length");
				if (cl == NULL || (size_t) atol(cl) != t.rbody.size())
					VIOL("http_response_altered", "Content-Length delivered as '%s', sent %zu %s", cl ? cl : "(absent)", t.rbody.size(), ctx);
				std::vector<uint8_t> buf(t.rbody.size(), 0xEE);
				nng_iov              iov;
				iov.iov_buf = buf.data();
				iov.iov_len = buf.size();
				MUST(nng_aio_set_iov(u.aio, 1, &iov));
				u.arm("http_read_all");
				nng_http_read_all(conn, u.aio);
				if (u.wait(20000 * MS) != 0)
					VIOL("http_valid_exchange_failed", "nng_http_read_all of the %zu body bytes failed: %s %s", buf.size(),
					    u.result == (nng_err) -1 ? "hang" : nng_strerror(u.result), ctx);
				gotb = Bytes((const char *) buf.data(), buf.size());
			}
			if (gotb != want) {
				size_t k = 0;
				while (k < gotb.size() && k < want.size() && gotb[k] == want[k])
					k++;
				VIOL("http_response_altered", "body delivered: %zu bytes, sent (decoded): %zu bytes, first difference at %zu (got %s want %s) %s",
				    gotb.size(), want.size(), k, show(gotb.substr(k), 8).c_str(), show(want.substr(k), 8).c_str(), ctx);
			}
			sim_stat("nontrivial", 1);
			sim_stat("http_cli_responses_verified", 1);
			if (t.bodykind == 2)
				sim_probe("c16_http_cli_chunked_ok");
			if (plan.kind != 0)
				sim_stat("http_cli_cut_responses", 1);
		}
		nng_http_close(conn);
		raw_close(raw);
		sim_quiesce(g_hz);
	}
	nng_http_client_free(cli);
	nng_url_free(url);
	close(lfd);
}

SCENARIO(c16_http_cli, "C16", c16_cfg, http_cli_run);

// ---------------------------------------------------------------------
// debugging aid: send the bytes of file= to the HTTP server of c16_http_srv
// and print what comes back (not part of any plan)
static void
http_dbg_run(Params *p)
{
	c16_globals(p);
	HSrvWorld w;
	w.port        = 9400;
	w.static_data = "STATIC-DATA";
	nng_url          *url = NULL;
	nng_http_server  *srv = NULL;
	nng_http_handler *h1 = NULL, *h2 = NULL, *h3 = NULL;
	MUST(nng_url_parse(&url, "http://127.0.0.1:9400"));
	MUST(nng_http_server_hold(&srv, url));
	MUST(nng_http_handler_alloc_static(&h1, "/static", w.static_data.data(), w.static_data.size(), "text/plain"));
	MUST(nng_http_handler_alloc(&h2, "/echo", hs_echo_cb));
	nng_http_handler_set_method(h2, "POST");
	nng_http_handler_collect_body(h2, true, 8192);
	nng_http_handler_set_data(h2, &w, NULL);
	MUST(nng_http_handler_alloc(&h3, "/dyn", hs_dyn_cb));
	nng_http_handler_set_tree(h3);
	nng_http_handler_set_data(h3, &w, NULL);
	MUST(nng_http_server_add_handler(srv, h1));
	MUST(nng_http_server_add_handler(srv, h2));
	MUST(nng_http_server_add_handler(srv, h3));
	MUST(nng_http_server_start(srv));
	Bytes S;
	FILE *f = fopen(p->s("file", "/tmp/c16req.bin").c_str(), "rb");
	if (f != NULL) {
		char b[4096];
		size_t n;
		while ((n = fread(b, 1, sizeof(b), f)) > 0)
			S.append(b, n);
		fclose(f);
	}
	Raw raw;
	raw_connect(raw, 9400);
	SegPlan plan;
	plan.kind = (int) p->i("kind", 0);
	plan.k    = (size_t) p->i("k", 3);
	if (p->has("cut")) {
		plan.kind = 3;
		plan.cuts.push_back((size_t) p->i("cut", 1));
	}
	plan_send(raw, S, plan, NULL, [&raw]() { raw_drain_nb(raw); });
	wait_until(&raw, [&]() { return raw_dead(raw); }, std::function<void()>(), 500 * MS);
	{
		Bytes t = raw.in;
		for (;;) { // drop the HTML error pages
			size_t a = t.find("<!DOCTYPE"), b = t.find("</html>");
			if (a == Bytes::npos || b == Bytes::npos || b < a)
				break;
			t.replace(a, b + 7 - a, "<ERRPAGE>");
		}
		for (size_t o = 0; o < t.size(); o += 150)
			sim_event("response bytes: %s", showtxt(t.substr(o, 150), 400).c_str());
	}
	for (auto &l : w.log)
		sim_event("handler saw: id=%d %s %s tag=%s body=%zu", l.id, l.method.c_str(), l.uri.c_str(), l.tag.c_str(), l.body.size());
	raw_close(raw);
	nng_http_server_stop(srv);
	nng_http_server_release(srv);
	nng_url_free(url);
}
SCENARIO(c16_dbg_http, "C16", c16_cfg, http_dbg_run);
} // namespace
