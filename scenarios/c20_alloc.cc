// C20: a failed allocation yields a clean error, never a crash, hang or leak.
// Fixed API programs; the driver runs each once to count allocations and
// then once per k with allocation k failing (same seed => same run up to k).
#include "../harness/util.h"
#include <nng/http.h>

namespace {

static int g_enomem_seen;

// An API call in a C20 program: before the fault has fired every call must
// succeed (else the harness is wrong); afterwards NNG_ENOMEM is the clean
// failure, anything else is reported.  Returns the code.
static int
chk(int rv, const char *what, bool allow_timeout = false)
{
	if (rv == 0)
		return 0;
	bool hit = sim_alloc_fault_hit() > 0;
	sim_event("%s -> %d (%s)", what, rv, nng_strerror((nng_err) rv));
	if (!hit)
		h_fatal("%s failed with %d (%s) without any injected fault", what, rv, nng_strerror((nng_err) rv));
	if (rv == NNG_ENOMEM) {
		g_enomem_seen++;
		sim_probe("c20_enomem_returned");
		return rv;
	}
	if (allow_timeout && (rv == NNG_ETIMEDOUT || rv == NNG_EAGAIN)) {
		sim_probe("c20_best_effort_loss");
		return rv;
	}
	VIOL("unclean_error", "%s returned %d (%s) after an allocation failure; expected success or NNG_ENOMEM", what, rv,
	    nng_strerror((nng_err) rv));
	return rv;
}

// retry a call that may fail once with ENOMEM
#define RETRY(expr, what)                                                     \
	do {                                                                  \
		int tries_ = 0;                                               \
		while (chk((expr), what) != 0) {                              \
			if (++tries_ > 3)                                     \
				VIOL("stuck_after_enomem", "%s keeps failing after a single allocation failure", what); \
		}                                                             \
	} while (0)

struct Proto {
	const char *name;
	int (*open_a)(nng_socket *);
	int (*open_b)(nng_socket *);
	int style; // 0 a->b one way, 1 request/reply (a asks), 2 both ways
};
static const Proto PR[] = {
	{ "reqrep", nng_req0_open, nng_rep0_open, 1 },
	{ "pair0", nng_pair0_open, nng_pair0_open, 2 },
	{ "pair1", nng_pair1_open, nng_pair1_open, 2 },
	{ "pushpull", nng_push0_open, nng_pull0_open, 0 },
	{ "pubsub", nng_pub0_open, nng_sub0_open, 0 },
	{ "survey", nng_surveyor0_open, nng_respondent0_open, 1 },
	{ "bus", nng_bus0_open, nng_bus0_open, 2 },
};

static size_t g_tag_len = 48;
static int
send_tag(nng_socket s, uint32_t serial)
{
	nng_msg *m = tag_msg(g_tag_len, 1, 0, serial);
	if (m == NULL)
		return NNG_ENOMEM;
	int rv = nng_sendmsg(s, m, 0);
	if (rv != 0)
		nng_msg_free(m);
	return rv;
}

static int
recv_tag(nng_socket s, uint32_t *serial)
{
	nng_msg *m = NULL;
	int      rv = nng_recvmsg(s, &m, 0);
	if (rv != 0)
		return rv;
	Tag t = tag_parse((uint8_t *) nng_msg_body(m), nng_msg_len(m));
	nng_msg_free(m);
	if (!t.ok)
		VIOL("corrupt_message", "received message fails its checksum");
	*serial = t.serial;
	return 0;
}

// one message a -> b (and back for style 1), retried until it works
static void
exchange(const Proto &pr, nng_socket a, nng_socket b, uint32_t serial)
{
	for (int attempt = 0;; attempt++) {
		if (attempt > 12)
			VIOL("stuck_after_enomem", "%s exchange %u does not complete after a single allocation failure", pr.name,
			    serial);
		uint32_t got;
		uint32_t want = serial + (uint32_t) attempt * 1000;
		// (later attempts are longer: a buffer that a failure left short shows)
		g_tag_len = 48 + (size_t) attempt * 40 + (size_t) (serial % 3) * 24;
		if (chk(send_tag(a, want), "nng_sendmsg", true) != 0)
			continue;
		int rv;
		// earlier attempts (or their retransmissions) may still be queued
		for (int drain = 0; drain < 40; drain++) {
			rv = chk(recv_tag(b, &got), "nng_recvmsg", true);
			if (rv != 0 || got == want)
				break;
			sim_probe("c20_stale_message_skipped");
		}
		if (rv != 0 || got != want)
			continue;
		if (pr.style == 1) {
			if (chk(send_tag(b, got), "nng_sendmsg(reply)", true) != 0)
				continue;
			uint32_t back;
			rv = chk(recv_tag(a, &back), "nng_recvmsg(reply)", true);
			if (rv != 0)
				continue;
		} else if (pr.style == 2) {
			if (chk(send_tag(b, got), "nng_sendmsg(back)", true) != 0)
				continue;
			uint32_t back = ~0u;
			for (int drain = 0; drain < 40; drain++) {
				rv = chk(recv_tag(a, &back), "nng_recvmsg(back)", true);
				if (rv != 0 || back == want)
					break;
			}
			if (rv != 0 || back != want)
				continue;
		}
		return;
	}
}

static void
sp_run(Params *p)
{
	const Proto &pr = PR[p->i("proto", 0) % (long) (sizeof(PR) / sizeof(PR[0]))];
	int          tr = (int) p->i("tr", 0);
	sim_stat("init_allocs", sim_alloc_count());
	nng_socket a, b;
	RETRY(pr.open_a(&a), "nng_*_open");
	RETRY(pr.open_b(&b), "nng_*_open");
	RETRY(nng_socket_set_ms(a, NNG_OPT_SENDTIMEO, 300), "nng_socket_set_ms");
	RETRY(nng_socket_set_ms(a, NNG_OPT_RECVTIMEO, 300), "nng_socket_set_ms");
	RETRY(nng_socket_set_ms(b, NNG_OPT_SENDTIMEO, 300), "nng_socket_set_ms");
	RETRY(nng_socket_set_ms(b, NNG_OPT_RECVTIMEO, 300), "nng_socket_set_ms");
	RETRY(nng_socket_set_ms(a, NNG_OPT_RECONNMINT, 10), "nng_socket_set_ms");
	RETRY(nng_socket_set_ms(a, NNG_OPT_RECONNMAXT, 20), "nng_socket_set_ms");
	if (pr.open_b == nng_sub0_open)
		RETRY(nng_sub0_socket_subscribe(b, "", 0), "nng_sub0_socket_subscribe");
	if (pr.open_a == nng_req0_open)
		RETRY(nng_socket_set_ms(a, NNG_OPT_REQ_RESENDTIME, 100), "nng_socket_set_ms");
	std::string  url = h_url(tr, 90);
	if (p->i("udp", 0))
		url = "udp://127.0.0.1:5990";
	if (p->i("longurl", 0) && (tr == TR_INPROC || tr == TR_WS || tr == TR_IPC)) {
		// a URL that does not fit the parser's inline buffer
		url += std::string(150, 'u');
	}
	nng_listener l;
	nng_dialer   d;
	std::string durl = url;
	if (p->i("wshdr", 0) && tr == TR_WS) {
		url += "/" + std::string(230, 'p'); // longer than the connection's inline URI buffer
		durl = url;
	}
	RETRY(nng_listen(b, url.c_str(), &l, 0), "nng_listen");
	if (p->i("wshdr", 0) && tr == TR_WS) {
		// a websocket dialer with request headers of its own, dialed synchronously;
		// when the dial fails the dialer is closed at once and another one made
		for (int attempt = 0;; attempt++) {
			if (attempt > 4)
				VIOL("stuck_after_enomem", "a websocket dial keeps failing after a single allocation failure");
			if (chk(nng_dialer_create(&d, a, durl.c_str()), "nng_dialer_create") != 0)
				continue;
			int hrv = chk(nng_dialer_set_string(d, NNG_OPT_WS_HEADER "X-Verif-One", "alpha"), "nng_dialer_set_string");
			if (hrv == 0)
				hrv = chk(nng_dialer_set_string(d, NNG_OPT_WS_HEADER "X-Verif-Two", "beta"), "nng_dialer_set_string");
			int drv = hrv;
			if (hrv == 0) {
				drv = nng_dialer_start(d, 0);
				sim_event("nng_dialer_start -> %d", drv);
				if (drv != 0 && sim_alloc_fault_hit() == 0)
					h_fatal("nng_dialer_start failed with %d (%s) without any injected fault", drv, nng_strerror((nng_err) drv));
				// the failed allocation may have been the listening side's: then the
				// dial ends the way it does when a peer drops the connection
				if (drv != 0 && drv != NNG_ENOMEM && drv != NNG_ETIMEDOUT && drv != NNG_ECONNSHUT && drv != NNG_ECONNRESET &&
				    drv != NNG_ECONNREFUSED && drv != NNG_EPROTO && drv != NNG_ECLOSED)
					VIOL("unclean_error", "nng_dialer_start returned %d (%s) after an allocation failure", drv,
					    nng_strerror((nng_err) drv));
			}
			if (drv == 0)
				break;
			int crv;
			{
				Bounded g("C20", "hang", 10000000000ull, "nng_dialer_close right after a websocket dial failed with %d", drv);
				crv = nng_dialer_close(d);
			}
			if (crv != 0)
				VIOL("unclean_error", "nng_dialer_close returned %d", crv);
		}
	} else {
		RETRY(nng_dial(a, url.c_str(), &d, NNG_FLAG_NONBLOCK), "nng_dial");
	}
	sim_quiesce(3000000);
	for (uint32_t i = 0; i < 2; i++)
		exchange(pr, a, b, i);
	// a burst without the receiver reading in between: whatever the queues
	// hold afterwards comes out once (a queue that survived a failed
	// allocation in a half-made state shows here)
	if (pr.style != 1) {
		uint32_t base = 5000;
		for (uint32_t i = 0; i < 6; i++)
		{
			int brv = send_tag(a, base + i); // may time out: nobody is reading
			sim_event("burst send %u -> %d", base + i, brv);
		}
		sim_quiesce(3000000);
		uint32_t last = 0;
		for (int n = 0; n < 12; n++) {
			nng_msg *m = NULL;
			if (nng_recvmsg(b, &m, NNG_FLAG_NONBLOCK) != 0)
				break;
			Tag t = tag_parse((uint8_t *) nng_msg_body(m), nng_msg_len(m));
			nng_msg_free(m);
			if (!t.ok)
				VIOL("corrupt_message", "burst: received message fails its checksum");
			sim_event("burst recv %u", t.serial);
			if (t.serial < base)
				continue; // a leftover of the exchanges above
			// (no order is asserted: the failed allocation may have cost a
			// connection, and messages of different connections are unordered)
			if (t.serial - base < 32 && (last & (1u << (t.serial - base))))
				VIOL("duplicate_delivery", "%s burst: message %u delivered twice", pr.name, t.serial);
			if (t.serial - base < 32)
				last |= 1u << (t.serial - base);
			sim_quiesce(1000000);
		}
	}
	// contexts where the protocol has them
	if (pr.open_a == nng_req0_open) {
		nng_ctx ca, cb;
		RETRY(nng_ctx_open(&ca, a), "nng_ctx_open");
		RETRY(nng_ctx_open(&cb, b), "nng_ctx_open");
		for (int attempt = 0;; attempt++) {
			if (attempt > 12)
				VIOL("stuck_after_enomem", "context exchange does not complete after a single allocation failure");
			nng_msg *m = tag_msg(40, 1, 1, (uint32_t) attempt);
			if (m == NULL)
				continue;
			nng_ctx_set_ms(ca, NNG_OPT_SENDTIMEO, 300);
			nng_ctx_set_ms(ca, NNG_OPT_RECVTIMEO, 300);
			nng_ctx_set_ms(cb, NNG_OPT_RECVTIMEO, 300);
			nng_ctx_set_ms(cb, NNG_OPT_SENDTIMEO, 300);
			int rv = chk(nng_ctx_sendmsg(ca, m, 0), "nng_ctx_sendmsg", true);
			if (rv != 0) {
				nng_msg_free(m);
				continue;
			}
			nng_msg *q = NULL;
			bool     fresh = false;
			for (int drain = 0; drain < 40 && !fresh; drain++) {
				if (chk(nng_ctx_recvmsg(cb, &q, 0), "nng_ctx_recvmsg", true) != 0)
					break;
				Tag t = tag_parse((uint8_t *) nng_msg_body(q), nng_msg_len(q));
				if (t.ok && t.stream == 1 && t.serial == (uint32_t) attempt) {
					fresh = true;
				} else {
					nng_msg_free(q);
					q = NULL;
				}
			}
			if (!fresh)
				continue;
			rv = chk(nng_ctx_sendmsg(cb, q, 0), "nng_ctx_sendmsg(reply)", true);
			if (rv != 0) {
				nng_msg_free(q);
				continue;
			}
			nng_msg *r = NULL;
			if (chk(nng_ctx_recvmsg(ca, &r, 0), "nng_ctx_recvmsg(reply)", true) != 0)
				continue;
			nng_msg_free(r);
			break;
		}
		RETRY(nng_ctx_close(ca), "nng_ctx_close");
		RETRY(nng_ctx_close(cb), "nng_ctx_close");
	}
	// statistics snapshot
	{
		nng_stat *st = NULL;
		int       rv = chk(nng_stats_get(&st), "nng_stats_get");
		if (rv == 0) {
			(void) nng_stat_find(st, "socket");
			nng_stats_free(st);
		}
	}
	sim_stat("nontrivial", 1);
	RETRY(nng_socket_close(a), "nng_socket_close");
	RETRY(nng_socket_close(b), "nng_socket_close");
}
SCENARIO(c20_sp, "C20", NULL, sp_run);

// nng_init itself
static void
init_run(Params *p)
{
	(void) p;
	nng_init_params ip;
	memset(&ip, 0, sizeof(ip));
	ip.num_task_threads = ip.max_task_threads = 2;
	ip.num_expire_threads = ip.max_expire_threads = (int16_t) p->i("expires", 1);
	ip.num_poller_threads = ip.max_poller_threads = (int16_t) p->i("pollers_n", 1);
	ip.num_resolver_threads = 1;
	ip.malloc_fn = sim_malloc;
	ip.calloc_fn = sim_calloc;
	ip.free_fn   = sim_free;
	sim_stat("init_allocs", sim_alloc_count());
	// the library may be initialised and finalised any number of times
	int cycles = 1 + (int) p->draw("cycles", 0, 2);
	for (int cycle = 0; cycle < cycles; cycle++) {
	int rv = nng_init(&ip);
	if (rv != 0) {
		if (sim_alloc_fault_hit() == 0)
			h_fatal("nng_init failed %d without a fault", rv);
		if (rv != NNG_ENOMEM)
			VIOL("unclean_error", "nng_init returned %d (%s) after an allocation failure", rv, nng_strerror((nng_err) rv));
		sim_probe("c20_init_enomem");
		sim_alloc_check_balance("C20");
		rv = nng_init(&ip);
		if (rv != 0)
			VIOL("stuck_after_enomem", "second nng_init after a failed one returned %d", rv);
	}
	nng_socket a, b;
	RETRY(nng_pair0_open(&a), "nng_pair0_open");
	RETRY(nng_pair0_open(&b), "nng_pair0_open");
	RETRY(nng_socket_set_ms(a, NNG_OPT_SENDTIMEO, 300), "set");
	RETRY(nng_socket_set_ms(b, NNG_OPT_RECVTIMEO, 300), "set");
	RETRY(nng_listen(b, "inproc://c20init", NULL, 0), "nng_listen");
	RETRY(nng_dial(a, "inproc://c20init", NULL, 0), "nng_dial");
	static const Proto pr = { "pair0", nng_pair0_open, nng_pair0_open, 0 };
	exchange(pr, a, b, 1);
	sim_stat("nontrivial", 1);
	RETRY(nng_socket_close(a), "close");
	RETRY(nng_socket_close(b), "close");
	nng_fini();
	sim_alloc_check_balance("C20");
	}
}
SCENARIO(c20_init, "C20", NULL, init_run);

// device between raw sockets
static void
dev_run(Params *p)
{
	(void) p;
	sim_stat("init_allocs", sim_alloc_count());
	nng_socket s1, s2, c1, c2;
	RETRY(nng_rep0_open_raw(&s1), "open");
	RETRY(nng_req0_open_raw(&s2), "open");
	RETRY(nng_req0_open(&c1), "open");
	RETRY(nng_rep0_open(&c2), "open");
	RETRY(nng_listen(s1, "inproc://c20d1", NULL, 0), "listen");
	RETRY(nng_listen(s2, "inproc://c20d2", NULL, 0), "listen");
	RETRY(nng_dial(c1, "inproc://c20d1", NULL, 0), "dial");
	RETRY(nng_dial(c2, "inproc://c20d2", NULL, 0), "dial");
	for (nng_socket s : { c1, c2 }) {
		RETRY(nng_socket_set_ms(s, NNG_OPT_SENDTIMEO, 300), "set");
		RETRY(nng_socket_set_ms(s, NNG_OPT_RECVTIMEO, 300), "set");
	}
	RETRY(nng_socket_set_ms(c1, NNG_OPT_REQ_RESENDTIME, 100), "set");
	UAio *dev = new UAio();
	if (dev->aio == NULL) {
		delete dev;
		dev = new UAio();
	}
	if (dev->aio == NULL)
		VIOL("stuck_after_enomem", "nng_aio_alloc keeps failing");
	dev->arm("device");
	nng_device_aio(dev->aio, s1, s2);
	sim_quiesce(1000000);
	if (dev->poll()) {
		// the device could not start
		if (chk(dev->result, "nng_device_aio") == 0)
			VIOL("unclean_error", "nng_device_aio completed with success");
		dev->arm("device");
		nng_device_aio(dev->aio, s1, s2);
		sim_quiesce(1000000);
		if (dev->poll())
			VIOL("stuck_after_enomem", "nng_device_aio fails again (%d)", (int) dev->result);
	}
	static const Proto pr = { "reqrep-dev", nng_req0_open, nng_rep0_open, 1 };
	exchange(pr, c1, c2, 1);
	sim_stat("nontrivial", 1);
	nng_aio_cancel(dev->aio);
	if (dev->wait(20000000000ull) == (nng_err) -1)
		VIOL("hang", "device did not end after cancel");
	delete dev;
	nng_socket_close(s1);
	nng_socket_close(s2);
	RETRY(nng_socket_close(c1), "close");
	RETRY(nng_socket_close(c2), "close");
}
SCENARIO(c20_device, "C20", NULL, dev_run);

// HTTP server + client transaction
static void
http_handler_fn(nng_http *conn, void *arg, nng_aio *aio)
{
	(void) arg;
	nng_err rv = nng_http_copy_body(conn, "hello", 5);
	if (rv != NNG_OK) {
		// what a well-behaved handler does: report the failure
		nng_aio_finish(aio, rv);
		return;
	}
	nng_http_set_status(conn, NNG_HTTP_STATUS_OK, NULL);
	nng_aio_finish(aio, NNG_OK);
}

// the document root: nobody asks for it in this program, so a response from it is a response to a
// request that was never made
static void
http_root_fn(nng_http *conn, void *arg, nng_aio *aio)
{
	(void) arg;
	nng_err rv = nng_http_copy_body(conn, "root", 4);
	if (rv != NNG_OK) {
		nng_aio_finish(aio, rv);
		return;
	}
	nng_http_set_status(conn, NNG_HTTP_STATUS_OK, NULL);
	nng_aio_finish(aio, NNG_OK);
}

static void
http_run(Params *p)
{
	(void) p;
	sim_stat("init_allocs", sim_alloc_count());
	nng_url          *url = NULL;
	nng_http_server  *srv = NULL;
	nng_http_handler *h   = NULL;
	nng_http_client  *cli = NULL;
	RETRY(nng_url_parse(&url, "http://127.0.0.1:8099/x"), "nng_url_parse");
	RETRY(nng_http_server_hold(&srv, url), "nng_http_server_hold");
	RETRY(nng_http_handler_alloc(&h, "/x", http_handler_fn), "nng_http_handler_alloc");
	int rv = chk(nng_http_server_add_handler(srv, h), "nng_http_server_add_handler");
	if (rv != 0) {
		rv = chk(nng_http_server_add_handler(srv, h), "nng_http_server_add_handler");
		if (rv != 0)
			VIOL("stuck_after_enomem", "add_handler keeps failing");
	}
	nng_http_handler *hroot = NULL;
	RETRY(nng_http_handler_alloc(&hroot, "/", http_root_fn), "nng_http_handler_alloc");
	rv = chk(nng_http_server_add_handler(srv, hroot), "nng_http_server_add_handler");
	if (rv != 0) {
		rv = chk(nng_http_server_add_handler(srv, hroot), "nng_http_server_add_handler");
		if (rv != 0)
			VIOL("stuck_after_enomem", "add_handler keeps failing");
	}
	const bool  errpage = p->draw("errpage", 0, 1) != 0;
	const char *page    = "<html>nothing of that name here</html>";
	if (errpage)
		RETRY(nng_http_server_set_error_page(srv, NNG_HTTP_STATUS_NOT_FOUND, page), "nng_http_server_set_error_page");
	RETRY(nng_http_server_start(srv), "nng_http_server_start");
	RETRY(nng_http_client_alloc(&cli, url), "nng_http_client_alloc");
	for (int attempt = 0;; attempt++) {
		if (attempt > 6)
			VIOL("stuck_after_enomem", "http transaction does not complete after a single allocation failure");
		UAio u;
		if (u.aio == NULL)
			continue;
		nng_aio_set_timeout(u.aio, 500);
		u.arm("http_connect");
		nng_http_client_connect(cli, u.aio);
		u.wait(0);
		if (chk(u.result, "nng_http_client_connect", true) != 0)
			continue;
		nng_http *conn = (nng_http *) nng_aio_get_output(u.aio, 0);
		nng_http_set_uri(conn, "/x", NULL);
		u.arm("http_transact");
		nng_http_transact(conn, u.aio);
		u.wait(0);
		int trv = u.result;
		if (trv == 0) {
			if (nng_http_get_status(conn) != NNG_HTTP_STATUS_OK) {
				if (sim_alloc_fault_hit() == 0)
					h_fatal("http status %d", (int) nng_http_get_status(conn));
				sim_probe("c20_http_error_status");
				nng_http_close(conn);
				continue;
			}
			void  *body;
			size_t len;
			nng_http_get_body(conn, &body, &len);
			if (len == 4 && memcmp(body, "root", 4) == 0)
				VIOL("wrong_request_served",
				    "the request for /x was answered 200 with the document root's body: the server served a request nobody made");
			if (len != 5 || memcmp(body, "hello", 5) != 0)
				VIOL("corrupt_message", "http body wrong (%zu bytes)", len);
			nng_http_close(conn);
			break;
		}
		nng_http_close(conn);
		if (trv == NNG_ECONNSHUT || trv == NNG_ECONNRESET || trv == NNG_ECLOSED) {
			// the server side lost this one connection
			if (sim_alloc_fault_hit() == 0)
				h_fatal("transact failed %d", trv);
			sim_probe("c20_best_effort_loss");
			continue;
		}
		chk(trv, "nng_http_transact", true);
	}
	// a request for something that is not there, with URIs too long for the
	// connection's built-in buffer, answered with the custom error page
	for (int attempt = 0; errpage; attempt++) {
		if (attempt > 6)
			VIOL("stuck_after_enomem", "http transaction does not complete after a single allocation failure");
		UAio u, u2;
		if (u.aio == NULL || u2.aio == NULL)
			continue;
		// two connects outstanding on one client: the second is dialed when the
		// first is done, however the first ended (a connect has no business
		// timing out: the listener is there)
		nng_aio_set_timeout(u.aio, 500);
		nng_aio_set_timeout(u2.aio, 500);
		u.arm("http_connect");
		u2.arm("http_connect2");
		nng_http_client_connect(cli, u.aio);
		nng_http_client_connect(cli, u2.aio);
		u.wait(0);
		u2.wait(0);
		int r1 = chk(u.result, "nng_http_client_connect");
		int r2 = chk(u2.result, "nng_http_client_connect (queued behind another)");
		if (r2 == 0)
			nng_http_close((nng_http *) nng_aio_get_output(u2.aio, 0));
		if (r1 != 0)
			continue;
		nng_http   *conn = (nng_http *) nng_aio_get_output(u.aio, 0);
		std::string l1   = "/nope/" + std::string(230, 'a');
		std::string l2   = "/nope/" + std::string(250, 'b');
		RETRY(nng_http_set_uri(conn, l1.c_str(), NULL), "nng_http_set_uri");
		RETRY(nng_http_set_uri(conn, l2.c_str(), "q=1"), "nng_http_set_uri");
		if (strcmp(nng_http_get_uri(conn), (l2 + "?q=1").c_str()) != 0)
			VIOL("unclean_error", "nng_http_set_uri succeeded but the URI is '%.40s...'", nng_http_get_uri(conn));
		u.arm("http_transact");
		nng_http_transact(conn, u.aio);
		u.wait(0);
		int trv = u.result;
		if (trv == 0) {
			void  *body;
			size_t len;
			nng_http_get_body(conn, &body, &len);
			bool good = nng_http_get_status(conn) == NNG_HTTP_STATUS_NOT_FOUND && len == strlen(page) &&
			    memcmp(body, page, len) == 0;
			if (!good && sim_alloc_fault_hit() == 0)
				h_fatal("http status %d, %zu bytes", (int) nng_http_get_status(conn), len);
			if (nng_http_get_status(conn) == NNG_HTTP_STATUS_OK)
				VIOL("wrong_request_served",
				    "the request for a long URI that does not exist was answered 200 (%zu bytes '%.*s'): an allocation "
				    "failure made the server serve a different request than the one it was sent, instead of failing cleanly",
				    len, (int) (len < 8 ? len : 8), len ? (const char *) body : "");
			nng_http_close(conn);
			if (good)
				break;
			sim_probe("c20_http_error_status");
			continue;
		}
		nng_http_close(conn);
		if (trv == NNG_ECONNSHUT || trv == NNG_ECONNRESET || trv == NNG_ECLOSED) {
			if (sim_alloc_fault_hit() == 0)
				h_fatal("transact failed %d", trv);
			sim_probe("c20_best_effort_loss");
			continue;
		}
		chk(trv, "nng_http_transact", true);
	}
	sim_stat("nontrivial", 1);
	nng_http_client_free(cli);
	nng_http_server_stop(srv);
	nng_http_server_release(srv);
	nng_url_free(url);
	// let the reaper finish with the server and its connections: nng_fini
	// racing that teardown is a known finding of its own (C03), not this
	// property's subject
	sim_quiesce(5000000);
}
SCENARIO(c20_http, "C20", NULL, http_run);

} // namespace
