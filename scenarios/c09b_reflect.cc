// C09 (second file): bursts through a raw BUS hub run by nng_device -- one raw
// socket as a reflector, or two raw sockets -- "messages from one peer arrive
// in that peer's send order", "never echoed to the origin", "at most once".
// BUS is best effort: loss is counted, never judged.
#include "../harness/util.h"

#include <map>
#include <set>

namespace {

struct Peer {
	nng_socket s;
	int        idx;
	std::map<uint32_t, uint32_t> last; // origin -> last serial seen
	std::set<uint64_t>           got;
	int                          nsend;
	int                          received;
};

static void
burst_task(void *a)
{
	Peer *p = (Peer *) a;
	for (int i = 0; i < p->nsend; i++) {
		nng_msg *m = tag_msg((size_t) W(24, 200), (uint16_t) p->idx, 9, (uint32_t) i);
		int      rv = nng_sendmsg(p->s, m, 0);
		if (rv != 0) {
			nng_msg_free(m);
			VIOL("send_failed", "BUS send returned %d (%s)", rv, nng_strerror((nng_err) rv));
		}
		if (W(0, 5) == 0)
			sim_sleep_ns((uint64_t) W(0, 400) * 1000);
	}
}

static int
drain(Peer *p)
{
	int n = 0;
	for (;;) {
		nng_msg *m = NULL;
		if (nng_recvmsg(p->s, &m, NNG_FLAG_NONBLOCK) != 0)
			break;
		Tag t = tag_parse((const uint8_t *) nng_msg_body(m), nng_msg_len(m));
		nng_msg_free(m);
		if (!t.ok)
			VIOL("corrupt_message", "peer%d received a damaged message", p->idx);
		if ((int) t.origin == p->idx)
			VIOL("echoed_to_sender", "peer%d received its own message #%u back through the device", p->idx,
			    t.serial);
		uint64_t key = ((uint64_t) t.origin << 32) | t.serial;
		if (!p->got.insert(key).second)
			VIOL("duplicate_delivery", "peer%d received message #%u of peer%u twice", p->idx, t.serial, t.origin);
		auto it = p->last.find(t.origin);
		if (it != p->last.end() && t.serial < it->second)
			VIOL("reordered",
			    "peer%d: message #%u of peer%u arrived after #%u of the same peer (burst through a raw BUS hub "
			    "under nng_device)",
			    p->idx, t.serial, t.origin, it->second);
		p->last[t.origin] = t.serial;
		p->received++;
		n++;
	}
	return n;
}

static void
reflect_run(Params *p)
{
	int        tr    = (int) p->draw("tr", 0, 2);
	int        nhubs = 1 + (int) p->draw("two", 0, 1);
	nng_socket hub[2];
	for (int i = 0; i < nhubs; i++) {
		MUST(nng_bus0_open_raw(&hub[i]));
		MUST(nng_socket_set_int(hub[i], NNG_OPT_RECVBUF, (int) W(8, 64)));
		MUST(nng_socket_set_int(hub[i], NNG_OPT_SENDBUF, (int) W(8, 64)));
		MUST(nng_listen(hub[i], h_url(tr, 90 + i).c_str(), NULL, 0));
	}
	int               npeers = 2 + (int) W(0, 2);
	std::vector<Peer> peers((size_t) npeers);
	for (int i = 0; i < npeers; i++) {
		Peer &q    = peers[(size_t) i];
		q.idx      = i;
		q.received = 0;
		q.nsend    = 0;
		MUST(nng_bus0_open(&q.s));
		MUST(nng_socket_set_int(q.s, NNG_OPT_RECVBUF, 256));
		MUST(nng_socket_set_int(q.s, NNG_OPT_SENDBUF, 64));
		MUST(nng_dial(q.s, h_url(tr, 90 + (nhubs == 2 ? i % 2 : 0)).c_str(), NULL, 0));
	}
	sim_quiesce(20000000);
	UAio dev;
	dev.arm("device");
	nng_socket s2 = NNG_SOCKET_INITIALIZER;
	if (nhubs == 2)
		s2 = hub[1];
	nng_device_aio(dev.aio, hub[0], s2);
	sim_quiesce(1000000);
	if (dev.poll())
		h_fatal("nng_device_aio ended at once: %d", dev.result);
	sim_event("c09_reflect tr=%s hubs=%d peers=%d", h_tr_name(tr), nhubs, npeers);
	int rounds = 1 + (int) W(0, 2);
	int sent   = 0;
	for (int r = 0; r < rounds; r++) {
		int nsenders = 1 + (int) W(0, 1);
		for (int i = 0; i < nsenders; i++) {
			peers[(size_t) i].nsend = (int) W(3, 24);
			sent += peers[(size_t) i].nsend;
		}
		// serials restart per round: forget what was seen (everything in flight
		// has been drained at the end of the previous round)
		for (auto &q : peers) {
			q.last.clear();
			q.got.clear();
		}
		if (nsenders == 1) {
			burst_task(&peers[0]);
		} else {
			for (int i = 0; i < nsenders; i++)
				sim_spawn("burst", burst_task, &peers[(size_t) i], 0);
			sim_join_all();
		}
		for (int idle = 0; idle < 3;) {
			sim_quiesce(5000000);
			int n = 0;
			for (auto &q : peers)
				n += drain(&q);
			idle = n ? 0 : idle + 1;
		}
	}
	int recvd = 0;
	for (auto &q : peers)
		recvd += q.received;
	sim_stat("delivered", recvd);
	if (recvd > sent / 2)
		sim_stat("nontrivial", 1);
	nng_aio_cancel(dev.aio);
	if (dev.wait(20000000000ull) == (nng_err) -1)
		VIOL("cancel_hang", "cancelled device never completed");
	for (auto &q : peers)
		MUST(nng_socket_close(q.s));
	for (int i = 0; i < nhubs; i++)
		(void) nng_socket_close(hub[i]);
}
SCENARIO(c09_reflect, "C09", NULL, reflect_run);

} // namespace
