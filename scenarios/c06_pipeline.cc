// C06 PUSH/PULL: every accepted message reaches at most one puller, never
// twice; none is lost while connections stay up and sockets stay open;
// per-connection send order; back-pressure instead of silent discard.
//
// Oracle clauses (each maps to a phrase of the statement):
//   altered_message          "the multiset received equals the multiset sent" (a body that was never sent)
//   duplicate_delivery       "delivered to at most one PULL peer and never duplicated"
//   lost_message             "while connections stay up and sockets stay open none is lost"
//   reordered                "messages carried by the same connection arrive in send order"
//   accepted_without_space   "with no peer ready and the send buffer full it blocks, or fails ..."
//   delivered_after_failure  "fails with NNG_EAGAIN or NNG_ETIMEDOUT leaving the message with the caller"
//   message_not_retained     same phrase (the caller's message is gone or damaged after a failed send)
//   unexpected_send_error    "fails with NNG_EAGAIN or NNG_ETIMEDOUT" (any other code on an open socket)
// What is NOT asserted: which puller gets a message, round-robin fairness, how
// many messages a lost connection or a shrunk buffer takes with it, timing.
#include "../harness/util.h"

#include <algorithm>
#include <deque>
#include <set>

namespace {

enum { M_NEW = 0, M_INFLIGHT, M_ACCEPTED, M_FAILED, M_ABANDONED };
enum { SM_BLOCK = 0, SM_NONBLOCK, SM_AIO, SM_COPY, SM_AIO_CANCEL, SM_N };
static const char *SM_NAME[] = { "block", "nonblock", "aio", "copy", "aio_cancel" };
enum { OP_SEND = 0, OP_BATCH, OP_SLEEP, OP_RESIZE };

struct Rec {
	int      origin;
	size_t   len;
	int      state;
	int      attempts;
	int      mode;
	uint64_t inv, ret; // logical clock around the accepted attempt
	uint64_t sub_ret;  // logical clock when the submitting call of that attempt returned
	                   // (== ret for the synchronous calls, earlier for aio sends)
	uint64_t last_inv; // logical clock at the start of the latest attempt
	int      last_err;
	int      nrecv;
	int      puller;
	uint32_t pipe;
	uint64_t rinv, rret; // logical clock around the receive call that returned it
};

struct World;
struct PipeCbArg {
	World *w;
	bool   is_push;
	int    idx;
};

struct Op {
	int    kind;
	int    mode;
	size_t len;
	int    tmo_ms;
	int    aux;
	bool   abandon;
	int    grow_at, grow_by; // OP_BATCH: enlarge SENDBUF before submission #grow_at (0 = never)
};

struct World {
	int                     tr;
	std::vector<nng_socket> push, pull;
	std::vector<bool>       push_open, pull_open;
	std::deque<Rec>         recs;
	uint64_t                clock;
	int                     n_accepted, n_received;
	// model of a pusher's send buffer while it never had a peer
	std::vector<int>  cap, capmax, occ; // occ: lower bound of the fill (for accepted_without_space)
	std::vector<int>  occ_hi;           // upper bound of the fill (for what a shrink may discard)
	std::vector<bool> peer_started;
	// loss_clock[i]: logical time of the latest event after which messages
	// of origin i may legitimately be missing (connection lost, socket
	// closed, buffer shrunk below what it may hold).  0 = never.
	std::vector<uint64_t> loss_clock;
	bool                  close_ok; // sockets get closed under senders (churn)
	int                   pipes_removed, pipes_added;
	std::vector<nng_pipe> live_pipes;
	std::deque<PipeCbArg> cbargs;
	std::vector<nng_dialer>   dialers;
	std::vector<nng_listener> listeners;
	std::vector<std::pair<bool, int>> listener_of; // parallel to listeners: (is_push, idx)
	std::vector<int>          push_npipes;          // live pipes per pusher
	std::vector<std::vector<uint64_t>> grow_clock;  // per pusher: logical times of SENDBUF enlargements
	std::vector<std::vector<uint64_t>> resize_clock; // per pusher: [begin,end] of every SENDBUF change
	std::vector<int>          inflight;             // send calls in progress per pusher
	std::vector<bool>         push_closing;         // pusher about to be closed: senders wind down
	std::map<int, std::string> push_url, pull_url;
	int max_block_tries, max_nb_tries;
	int lost_allowed;
	World()
	{
		tr = 0;
		clock = 0;
		n_accepted = n_received = 0;
		close_ok = false;
		pipes_removed = pipes_added = 0;
		max_block_tries = 30;
		max_nb_tries = 200;
		lost_allowed = 0;
	}
};

static void
loss_event_all(World *w)
{
	uint64_t c = ++w->clock;
	for (size_t i = 0; i < w->loss_clock.size(); i++)
		w->loss_clock[i] = c;
}

static void
pipe_cb(nng_pipe p, nng_pipe_ev ev, void *arg)
{
	PipeCbArg *a = (PipeCbArg *) arg;
	World     *w = a->w;
	if (ev == NNG_PIPE_EV_ADD_POST) {
		w->pipes_added++;
		w->live_pipes.push_back(p);
		if (a->is_push)
			w->push_npipes[(size_t) a->idx]++;
	} else if (ev == NNG_PIPE_EV_REM_POST) {
		w->pipes_removed++;
		if (a->is_push)
			w->push_npipes[(size_t) a->idx]--;
		for (size_t i = 0; i < w->live_pipes.size(); i++)
			if (nng_pipe_id(w->live_pipes[i]) == nng_pipe_id(p)) {
				w->live_pipes.erase(w->live_pipes.begin() + (long) i);
				break;
			}
		loss_event_all(w);
	}
}

static int
add_pusher(World &w, int sendbuf)
{
	nng_socket s;
	MUST(nng_push0_open(&s));
	int i = (int) w.push.size();
	w.push.push_back(s);
	w.push_open.push_back(true);
	w.cap.push_back(0);
	w.capmax.push_back(0);
	w.occ.push_back(0);
	w.occ_hi.push_back(0);
	w.peer_started.push_back(false);
	w.loss_clock.push_back(0);
	w.push_npipes.push_back(0);
	w.grow_clock.push_back(std::vector<uint64_t>());
	w.resize_clock.push_back(std::vector<uint64_t>());
	w.inflight.push_back(0);
	w.push_closing.push_back(false);
	if (sendbuf > 0) {
		MUST(nng_socket_set_int(s, NNG_OPT_SENDBUF, sendbuf));
		w.cap[(size_t) i] = w.capmax[(size_t) i] = sendbuf;
	}
	MUST(nng_socket_set_ms(s, NNG_OPT_RECONNMINT, 10));
	MUST(nng_socket_set_ms(s, NNG_OPT_RECONNMAXT, 40));
	w.cbargs.push_back(PipeCbArg{ &w, true, i });
	MUST(nng_pipe_notify(s, NNG_PIPE_EV_ADD_POST, pipe_cb, &w.cbargs.back()));
	MUST(nng_pipe_notify(s, NNG_PIPE_EV_REM_POST, pipe_cb, &w.cbargs.back()));
	return i;
}

static int
add_puller(World &w)
{
	nng_socket s;
	MUST(nng_pull0_open(&s));
	int j = (int) w.pull.size();
	w.pull.push_back(s);
	w.pull_open.push_back(true);
	MUST(nng_socket_set_ms(s, NNG_OPT_RECVTIMEO, 50));
	MUST(nng_socket_set_ms(s, NNG_OPT_RECONNMINT, 10));
	MUST(nng_socket_set_ms(s, NNG_OPT_RECONNMAXT, 40));
	w.cbargs.push_back(PipeCbArg{ &w, false, j });
	MUST(nng_pipe_notify(s, NNG_PIPE_EV_ADD_POST, pipe_cb, &w.cbargs.back()));
	MUST(nng_pipe_notify(s, NNG_PIPE_EV_REM_POST, pipe_cb, &w.cbargs.back()));
	return j;
}

static std::string
ensure_listen(World &w, bool is_push, int idx, int tr)
{
	auto &m  = is_push ? w.push_url : w.pull_url;
	auto  it = m.find(idx);
	if (it != m.end())
		return it->second;
	std::string  url = h_url(tr, (is_push ? 40 : 10) + idx);
	nng_listener l;
	int rv = nng_listen(is_push ? w.push[(size_t) idx] : w.pull[(size_t) idx], url.c_str(), &l, 0);
	if (rv != 0) {
		if (!w.close_ok)
			h_fatal("listen %s -> %d (%s)", url.c_str(), rv, nng_strerror((nng_err) rv));
		sim_event("listen %s failed: %d", url.c_str(), rv);
		return "";
	}
	w.listeners.push_back(l);
	w.listener_of.push_back(std::make_pair(is_push, idx));
	m[idx] = url;
	sim_event("listen %s%d %s", is_push ? "push" : "pull", idx, url.c_str());
	return url;
}

// connect pusher i and puller j; the dialing side and its flags are drawn by
// the caller
static void
make_link(World &w, int i, int j, bool pusher_dials, bool nonblock, int tr)
{
	w.peer_started[(size_t) i] = true; // before a pipe can possibly exist
	nng_dialer d;
	if (pusher_dials) {
		std::string url = ensure_listen(w, false, j, tr);
		if (url.empty())
			return;
		sim_event("link: push%d dials pull%d %s%s", i, j, url.c_str(), nonblock ? " (nonblock)" : "");
		int rv = nng_dial(w.push[(size_t) i], url.c_str(), &d, nonblock ? NNG_FLAG_NONBLOCK : 0);
		if (rv != 0 && !nonblock && !w.close_ok) {
			// a synchronous dial can time out under heavy injected stalls:
			// let a background dialer keep trying instead
			sim_event("dial failed: %d, retrying in the background", rv);
			sim_probe("c06_dial_retry");
			rv = nng_dial(w.push[(size_t) i], url.c_str(), &d, NNG_FLAG_NONBLOCK);
		}
		if (rv != 0) {
			if (!w.close_ok)
				h_fatal("dial %s -> %d (%s)", url.c_str(), rv, nng_strerror((nng_err) rv));
			sim_event("dial failed: %d", rv);
			return;
		}
	} else {
		std::string url = ensure_listen(w, true, i, tr);
		if (url.empty())
			return;
		sim_event("link: pull%d dials push%d %s%s", j, i, url.c_str(), nonblock ? " (nonblock)" : "");
		int rv = nng_dial(w.pull[(size_t) j], url.c_str(), &d, nonblock ? NNG_FLAG_NONBLOCK : 0);
		if (rv != 0 && !nonblock && !w.close_ok) {
			sim_event("dial failed: %d, retrying in the background", rv);
			sim_probe("c06_dial_retry");
			rv = nng_dial(w.pull[(size_t) j], url.c_str(), &d, NNG_FLAG_NONBLOCK);
		}
		if (rv != 0) {
			if (!w.close_ok)
				h_fatal("dial %s -> %d (%s)", url.c_str(), rv, nng_strerror((nng_err) rv));
			sim_event("dial failed: %d", rv);
			return;
		}
	}
	w.dialers.push_back(d);
}

// ------------------------------------------------------------------ send ---
static int
new_rec(World &w, int origin, size_t len)
{
	Rec r;
	memset(&r, 0, sizeof(r));
	r.origin = origin;
	r.len    = len < TAG_MIN ? TAG_MIN : len;
	r.state  = M_NEW;
	r.puller = -1;
	w.recs.push_back(r);
	return (int) w.recs.size() - 1;
}

static void
check_retained(World &w, int rid, nng_msg *m, int rv)
{
	Rec &r = w.recs[(size_t) rid];
	if (m == NULL)
		VIOL("message_not_retained", "send of #%d failed with %d (%s) but the message was taken from the caller",
		    rid, rv, nng_strerror((nng_err) rv));
	Tag t = tag_parse((const uint8_t *) nng_msg_body(m), nng_msg_len(m));
	if (!t.ok || t.serial != (uint32_t) rid || t.origin != (uint16_t) (r.origin + 1) ||
	    nng_msg_header_len(m) != 0)
		VIOL("message_not_retained",
		    "send of #%d failed with %d (%s) and handed back a damaged message (len %zu, header %zu)", rid, rv,
		    nng_strerror((nng_err) rv), nng_msg_len(m), nng_msg_header_len(m));
}

// A send was accepted by a pusher that never had a peer: only the buffer can
// have taken it.  [inv,ret] is the logical-clock window of the call.
static void
accepted_without_peer(World &w, int i, int rid, uint64_t inv, uint64_t ret)
{
	size_t ii = (size_t) i;
	auto  &rc = w.resize_clock[ii];
	w.occ_hi[ii]++;
	for (size_t k = 0; k + 1 < rc.size(); k += 2)
		if (rc[k] <= ret && rc[k + 1] >= inv) {
			// another task changed SENDBUF during the call: the depth at the
			// moment of acceptance is not known, and a shrink may already
			// have discarded this message again.  occ stays a lower bound
			// of the fill.
			sim_probe("c06_resize_overlaps_send");
			return;
		}
	if (w.occ[ii] >= w.capmax[ii])
		VIOL("accepted_without_space",
		    "send of #%d on push%d returned 0 although no peer was ever connected and %d accepted messages "
		    "already fill a send buffer of depth %d",
		    rid, i, w.occ[ii], w.capmax[ii]);
	w.occ[ii]++;
	sim_probe("c06_buffered_without_peer");
}

// one send attempt of message rid; returns the result code
static int
attempt(World &w, int rid, int mode, int tmo_ms)
{
	Rec       &r = w.recs[(size_t) rid];
	int        i = r.origin;
	nng_socket s = w.push[(size_t) i];
	w.inflight[(size_t) i]++;
	if (w.push_closing[(size_t) i]) {
		// the pusher is about to be closed by the fault task: stay out
		w.inflight[(size_t) i]--;
		r.state    = M_FAILED;
		r.last_err = NNG_ECLOSED;
		return NNG_ECLOSED;
	}
	long long  a0 = (long long) sim_alloc_count();
	nng_msg   *m = tag_msg(r.len, (uint16_t) (i + 1), 0, (uint32_t) rid);
	if (m == NULL)
		h_fatal("tag_msg failed");
	if (w.close_ok && tmo_ms > 200)
		tmo_ms = 200; // pushers can lose every connection for good: keep runs short
	r.state = M_INFLIGHT;
	r.mode  = mode;
	r.attempts++;
	sim_event("send push%d #%d len=%zu %s tmo=%d try=%d (alloc #%lld)", i, rid, r.len, SM_NAME[mode], tmo_ms,
	    r.attempts, a0 + 1);
	uint64_t t0 = sim_now_ns(), st0 = sim_stall_total_ns();
	uint64_t inv = ++w.clock;
	uint64_t sub_ret = 0;
	r.last_inv   = inv;
	int rv;
	switch (mode) {
	case SM_BLOCK:
		(void) nng_socket_set_ms(s, NNG_OPT_SENDTIMEO, tmo_ms);
		rv = nng_sendmsg(s, m, 0);
		break;
	case SM_NONBLOCK:
		rv = nng_sendmsg(s, m, NNG_FLAG_NONBLOCK);
		break;
	case SM_COPY:
		rv = nng_send(s, nng_msg_body(m), nng_msg_len(m), NNG_FLAG_NONBLOCK);
		nng_msg_free(m);
		m = NULL;
		break;
	case SM_AIO:
	case SM_AIO_CANCEL: {
		UAio u;
		nng_aio_set_timeout(u.aio, mode == SM_AIO ? tmo_ms : NNG_DURATION_INFINITE);
		nng_aio_set_msg(u.aio, m);
		u.arm("push_send");
		nng_socket_send(s, u.aio);
		sub_ret = ++w.clock;
		if (mode == SM_AIO_CANCEL) {
			if (tmo_ms > 0)
				sim_sleep_ns((uint64_t) tmo_ms * 100000ull);
			nng_aio_cancel(u.aio);
		}
		u.wait(0);
		rv = u.result;
		if (rv != 0) {
			nng_msg *back = nng_aio_get_msg(u.aio);
			if (back != m)
				VIOL("message_not_retained",
				    "asynchronous send of #%d failed with %d (%s) but the aio no longer "
				    "holds the caller's message",
				    rid, rv, nng_strerror((nng_err) rv));
		}
		break;
	}
	default:
		h_fatal("bad mode");
	}
	uint64_t ret = ++w.clock;
	w.inflight[(size_t) i]--;
	uint64_t dt  = sim_now_ns() - t0 - (sim_stall_total_ns() - st0);
	if (dt > 1000000ull) {
		sim_probe("c06_send_waited");
		if (w.cap[(size_t) i] > 0 && rv == 0)
			sim_probe("c06_waiter_accepted_with_buffer");
	}
	if (rv == 0) {
		r.state   = M_ACCEPTED;
		r.inv     = inv;
		r.ret     = ret;
		r.sub_ret = sub_ret ? sub_ret : ret;
		w.n_accepted++;
		sim_stat("accepted", 1);
		if (!w.peer_started[(size_t) i]) // back-pressure: no peer exists, the only room is the buffer
			accepted_without_peer(w, i, rid, inv, ret);
	} else {
		sim_stat("refused", 1);
		r.last_err = rv;
		bool expected = rv == NNG_EAGAIN || rv == NNG_ETIMEDOUT || (mode == SM_AIO_CANCEL && rv == NNG_ECANCELED) ||
		    (w.close_ok && rv == NNG_ECLOSED);
		if (!expected)
			VIOL("unexpected_send_error", "send of #%d on push%d (%s) failed with %d (%s)", rid, i,
			    SM_NAME[mode], rv, nng_strerror((nng_err) rv));
		if (mode != SM_COPY)
			check_retained(w, rid, m, rv);
		if (m != NULL)
			nng_msg_free(m);
		r.state = M_FAILED;
		if (rv == NNG_EAGAIN)
			sim_probe("c06_eagain");
		else if (rv == NNG_ETIMEDOUT)
			sim_probe("c06_etimedout");
		else if (rv == NNG_ECANCELED)
			sim_probe("c06_ecanceled");
		if (!w.peer_started[(size_t) i]) {
			if (w.occ[(size_t) i] >= w.cap[(size_t) i])
				sim_probe("c06_backpressure_no_peer");
			else
				sim_probe("c06_refused_with_space"); // not asserted (C15's business)
		}
	}
	sim_event("send push%d #%d -> %d", i, rid, rv);
	return rv;
}

static void
do_resize(World &w, int i, int newcap)
{
	size_t ii  = (size_t) i;
	int    old = w.cap[ii];
	w.capmax[ii] = std::max(old, newcap); // a concurrent send may see either depth
	sim_event("resize push%d sendbuf %d -> %d", i, old, newcap);
	uint64_t g0 = ++w.clock;
	w.resize_clock[ii].push_back(g0);
	w.resize_clock[ii].push_back(UINT64_MAX);
	int rv = nng_socket_set_int(w.push[ii], NNG_OPT_SENDBUF, newcap);
	w.resize_clock[ii].back() = ++w.clock;
	if (newcap > old) {
		w.grow_clock[ii].push_back(g0);
		w.grow_clock[ii].push_back(++w.clock);
	}
	if (rv != 0) {
		if (w.close_ok && rv == NNG_ECLOSED) {
			w.capmax[ii] = old;
			return;
		}
		h_fatal("set SENDBUF %d -> %d", newcap, rv);
	}
	w.cap[ii] = w.capmax[ii] = newcap;
	if (newcap > old)
		sim_probe("c06_resize_grow");
	if (newcap < old) {
		if (!w.peer_started[ii]) {
			if (w.occ_hi[ii] > newcap || w.inflight[ii] > 0) {
				// the excess is discarded by the resize (C18 describes it); a
				// send of another task in progress may have been buffered
				// just before the shrink
				w.lost_allowed += std::max(0, w.occ_hi[ii] - newcap);
				w.occ[ii]        = std::min(w.occ[ii], newcap);
				w.occ_hi[ii]     = std::min(w.occ_hi[ii], newcap);
				w.loss_clock[ii] = ++w.clock;
				sim_probe("c06_shrink_below_occupancy");
			} else {
				sim_probe("c06_shrink_safe");
			}
		} else {
			// occupancy unknown: messages sent before this point may go
			w.loss_clock[ii] = ++w.clock;
			sim_probe("c06_shrink_connected");
		}
	}
}

// run one SEND op to its end (accepted or abandoned); returns false when the
// socket was closed under us
static bool
do_send_op(World &w, int i, const Op &op)
{
	int rid   = new_rec(w, i, op.len);
	int tries = 0;
	for (;;) {
		int rv = attempt(w, rid, op.mode, op.tmo_ms);
		if (rv == 0)
			return true;
		tries++;
		bool nb  = op.mode == SM_NONBLOCK || op.mode == SM_COPY;
		int  max = nb ? w.max_nb_tries : w.max_block_tries;
		if (rv == NNG_ECLOSED || op.abandon || tries >= max || w.push_closing[(size_t) i]) {
			w.recs[(size_t) rid].state = M_ABANDONED;
			sim_event("abandon #%d after %d tries", rid, tries);
			if (rv != NNG_ECLOSED)
				sim_probe("c06_abandoned");
			return rv != NNG_ECLOSED;
		}
		if (nb || op.mode == SM_AIO_CANCEL || op.tmo_ms < 2)
			sim_sleep_ms((uint64_t) std::min(20, 1 + tries / 4));
	}
}

struct SenderArg {
	World          *w;
	int             pusher;
	std::vector<Op> ops;
	int             tid;
};

static void
sender_task(void *a)
{
	SenderArg *sa = (SenderArg *) a;
	World     &w  = *sa->w;
	int        i  = sa->pusher;
	for (const Op &op : sa->ops) {
		if (!w.push_open[(size_t) i] || w.push_closing[(size_t) i])
			break;
		switch (op.kind) {
		case OP_SEND:
			if (!do_send_op(w, i, op))
				return;
			break;
		case OP_BATCH: {
			// several asynchronous sends outstanding at once
			int               k = op.aux;
			std::vector<UAio *> us;
			std::vector<int>    ids;
			std::vector<nng_msg *> ms;
			std::vector<uint64_t> invs, subs;
			int btmo = w.close_ok && op.tmo_ms > 200 ? 200 : op.tmo_ms;
			w.inflight[(size_t) i]++;
			for (int b = 0; b < k; b++) {
				if (w.push_closing[(size_t) i] || !w.push_open[(size_t) i]) {
					k = b;
					break;
				}
				if (op.grow_at == b && b > 0) {
					// enlarge the buffer while earlier sends of this task may
					// still be waiting
					do_resize(w, i, w.cap[(size_t) i] + op.grow_by);
					sim_probe("c06_grow_inside_batch");
				}
				int      rid = new_rec(w, i, op.len + (size_t) b);
				Rec     &r   = w.recs[(size_t) rid];
				nng_msg *m   = tag_msg(r.len, (uint16_t) (i + 1), 0, (uint32_t) rid);
				if (m == NULL)
					h_fatal("tag_msg failed");
				UAio *u = new UAio();
				nng_aio_set_timeout(u->aio, btmo);
				nng_aio_set_msg(u->aio, m);
				r.state = M_INFLIGHT;
				r.mode  = SM_AIO;
				r.attempts++;
				sim_event("send push%d #%d len=%zu aio-batch tmo=%d", i, rid, r.len, btmo);
				uint64_t inv = ++w.clock;
				r.last_inv   = inv;
				u->arm("push_send_batch");
				nng_socket_send(w.push[(size_t) i], u->aio);
				subs.push_back(++w.clock);
				us.push_back(u);
				ids.push_back(rid);
				ms.push_back(m);
				invs.push_back(inv);
			}
			sim_probe("c06_batch");
			bool closed = false;
			for (int b = 0; b < k; b++) {
				UAio *u = us[(size_t) b];
				u->wait(0);
				uint64_t ret = ++w.clock;
				int      rid = ids[(size_t) b];
				Rec     &r   = w.recs[(size_t) rid];
				int      rv  = u->result;
				if (rv == 0) {
					r.state   = M_ACCEPTED;
					r.inv     = invs[(size_t) b];
					r.ret     = ret;
					r.sub_ret = subs[(size_t) b];
					w.n_accepted++;
					sim_stat("accepted", 1);
					if (!w.peer_started[(size_t) i])
						accepted_without_peer(w, i, rid, invs[(size_t) b], ret);
				} else {
					bool expected = rv == NNG_ETIMEDOUT || (w.close_ok && rv == NNG_ECLOSED);
					if (!expected)
						VIOL("unexpected_send_error", "batched send of #%d failed with %d (%s)", rid, rv,
						    nng_strerror((nng_err) rv));
					nng_msg *back = nng_aio_get_msg(u->aio);
					if (back != ms[(size_t) b])
						VIOL("message_not_retained",
						    "asynchronous send of #%d failed with %d (%s) but the aio no longer "
						    "holds the caller's message",
						    rid, rv, nng_strerror((nng_err) rv));
					check_retained(w, rid, back, rv);
					nng_msg_free(back);
					r.last_err = rv;
					r.state    = M_ABANDONED;
					sim_stat("refused", 1);
					if (rv == NNG_ETIMEDOUT)
						sim_probe("c06_etimedout");
					if (rv == NNG_ECLOSED)
						closed = true;
				}
				sim_event("send push%d #%d -> %d", i, rid, rv);
				delete u;
			}
			w.inflight[(size_t) i]--;
			if (closed)
				return;
			break;
		}
		case OP_SLEEP:
			sim_sleep_ns((uint64_t) op.aux * 1000ull);
			break;
		case OP_RESIZE:
			do_resize(w, i, op.aux);
			break;
		}
	}
}

// --------------------------------------------------------------- receive ---
static void
on_receive(World &w, int j, nng_msg *m, uint64_t rinv, uint64_t rret)
{
	const uint8_t *b = (const uint8_t *) nng_msg_body(m);
	size_t         n = nng_msg_len(m);
	Tag            t = tag_parse(b, n);
	uint32_t pipe = (uint32_t) nng_pipe_id(nng_msg_get_pipe(m));
	if (!t.ok || t.serial >= w.recs.size() || nng_msg_header_len(m) != 0)
		VIOL("altered_message", "pull%d received a body that no pusher sent: len %zu header %zu %s", j, n,
		    nng_msg_header_len(m), h_hex(b, n, 24).c_str());
	Rec &r = w.recs[t.serial];
	if (t.origin != (uint16_t) (r.origin + 1) || t.len != r.len)
		VIOL("altered_message", "pull%d received #%u with origin %u len %u, sent as origin %d len %zu", j,
		    t.serial, t.origin, t.len, r.origin + 1, r.len);
	sim_event("recv pull%d #%u from push%d pipe %u", j, t.serial, r.origin, pipe);
	if (r.nrecv > 0)
		VIOL("duplicate_delivery",
		    "message #%u of push%d was delivered twice: first to pull%d (pipe %u), again to pull%d (pipe %u)",
		    t.serial, r.origin, r.puller, r.pipe, j, pipe);
	if (r.state == M_FAILED || r.state == M_ABANDONED) {
		if (r.last_err == NNG_EAGAIN || r.last_err == NNG_ETIMEDOUT)
			VIOL("delivered_after_failure",
			    "message #%u of push%d was delivered to pull%d although its send failed with %d (%s) and "
			    "the message was left with the caller",
			    t.serial, r.origin, j, r.last_err, nng_strerror((nng_err) r.last_err));
		sim_probe("c06_delivered_after_other_error");
	}
	if (r.state == M_NEW)
		VIOL("altered_message", "pull%d received #%u before it was ever sent", j, t.serial);
	r.nrecv++;
	r.puller = j;
	r.pipe   = pipe;
	r.rinv   = rinv;
	r.rret   = rret;
	w.n_received++;
	sim_stat("delivered", 1);
}

struct RecvArg {
	World       *w;
	int          puller;
	int          mode;           // 0 blocking w/ timeout, 1 non-blocking poll, 2 aio
	int          start_delay_ms; // reader stalled at first
	int          slow_us;        // pause after each message
	volatile int stop;
	int          tid;
	int          got;
};

static void
receiver_task(void *a)
{
	RecvArg   *ra = (RecvArg *) a;
	World     &w  = *ra->w;
	int        j  = ra->puller;
	nng_socket s  = w.pull[(size_t) j];
	UAio      *u  = ra->mode == 2 ? new UAio() : NULL;
	for (int d = 0; d < ra->start_delay_ms && !ra->stop; d += 5)
		sim_sleep_ms(5);
	while (!ra->stop) {
		nng_msg *m = NULL;
		int      rv;
		uint64_t rinv = ++w.clock;
		if (ra->mode == 0) {
			rv = nng_recvmsg(s, &m, 0);
		} else if (ra->mode == 1) {
			rv = nng_recvmsg(s, &m, NNG_FLAG_NONBLOCK);
		} else {
			nng_aio_set_timeout(u->aio, 50);
			u->arm("pull_recv");
			nng_socket_recv(s, u->aio);
			u->wait(0);
			rv = u->result;
			if (rv == 0)
				m = nng_aio_get_msg(u->aio);
		}
		uint64_t rret = ++w.clock;
		if (rv == 0) {
			on_receive(w, j, m, rinv, rret);
			nng_msg_free(m);
			ra->got++;
			if (ra->slow_us)
				sim_sleep_ns((uint64_t) ra->slow_us * 1000ull);
		} else if (rv == NNG_ECLOSED) {
			break;
		} else if (rv == NNG_EAGAIN || rv == NNG_ETIMEDOUT) {
			if (ra->mode == 1)
				sim_sleep_ms(2);
		} else {
			h_fatal("pull%d receive returned %d (%s)", j, rv, nng_strerror((nng_err) rv));
		}
	}
	delete u;
}

static RecvArg *
spawn_receiver(World &w, std::vector<RecvArg *> &rs, int j, int mode, int delay_ms, int slow_us)
{
	RecvArg *ra        = new RecvArg();
	ra->w              = &w;
	ra->puller         = j;
	ra->mode           = mode;
	ra->start_delay_ms = delay_ms;
	ra->slow_us        = slow_us;
	ra->stop           = 0;
	ra->got            = 0;
	sim_event("receiver pull%d mode=%d delay=%dms slow=%dus", j, mode, delay_ms, slow_us);
	ra->tid = sim_spawn("pull_recv", receiver_task, ra, 0);
	rs.push_back(ra);
	return ra;
}

// ---------------------------------------------------------------- oracle ---
static int
missing_required(World &w)
{
	int n = 0;
	for (auto &r : w.recs)
		if (r.state == M_ACCEPTED && r.nrecv == 0 && r.inv > w.loss_clock[(size_t) r.origin] &&
		    !(w.close_ok && w.push_open[(size_t) r.origin] && w.push_npipes[(size_t) r.origin] <= 0))
			n++;
	return n;
}

// wait until everything that must arrive has arrived, or nothing has moved
// for a long (virtual, stall-free) time
static void
drain(World &w)
{
	uint64_t t0 = sim_now_ns(), s0 = sim_stall_total_ns();
	int      last = w.n_received;
	for (;;) {
		int  need    = missing_required(w);
		bool all_in  = w.n_received >= w.n_accepted;
		if (all_in)
			break;
		sim_sleep_ms(5);
		if (w.n_received != last) {
			last = w.n_received;
			t0   = sim_now_ns();
			s0   = sim_stall_total_ns();
			continue;
		}
		uint64_t idle = sim_now_ns() - t0 - (sim_stall_total_ns() - s0);
		if (idle > (need > 0 ? 5000000000ull : 300000000ull))
			break;
	}
}

static void
final_checks(World &w)
{
	int lost = 0;
	for (size_t id = 0; id < w.recs.size(); id++) {
		Rec &r = w.recs[id];
		if (r.state == M_INFLIGHT || r.state == M_NEW)
			h_fatal("message #%zu still in state %d at the end", id, r.state);
		if ((r.state == M_FAILED || r.state == M_ABANDONED) && r.nrecv > 0 &&
		    (r.last_err == NNG_EAGAIN || r.last_err == NNG_ETIMEDOUT))
			VIOL("delivered_after_failure",
			    "message #%zu of push%d was delivered to pull%d although its last send failed with %d (%s) "
			    "and the message was left with the caller",
			    id, r.origin, r.puller, r.last_err, nng_strerror((nng_err) r.last_err));
		if (r.state == M_ACCEPTED && r.nrecv == 0) {
			if (w.close_ok && w.push_npipes[(size_t) r.origin] <= 0 && w.push_open[(size_t) r.origin]) {
				// not lost: the pusher has no connection left, the message
				// may still sit in its send buffer
				sim_probe("c06_stranded_without_connection");
			} else if (r.inv > w.loss_clock[(size_t) r.origin]) {
				int acc = 0, got = 0;
				for (auto &q : w.recs)
					if (q.origin == r.origin && q.state == M_ACCEPTED) {
						acc++;
						got += q.nrecv;
					}
				VIOL("lost_message",
				    "message #%zu (len %zu, %s send, try %d) was accepted by push%d and never reached "
				    "any puller although no connection was lost, no socket closed and no buffer shrunk "
				    "since (push%d: %d accepted, %d delivered; sendbuf %d; %d pipes removed in the run)",
				    id, r.len, SM_NAME[r.mode], r.attempts, r.origin, r.origin, acc, got,
				    w.cap[(size_t) r.origin], w.pipes_removed);
			}
			lost++;
		}
	}
	if (lost) {
		sim_probe("c06_permitted_loss");
		sim_stat("lost_permitted", lost);
	}
	// per-connection order: X sent strictly before Y (the call that submitted
	// X - nng_sendmsg, nng_send or nng_socket_send - had returned before the
	// call for Y was made), same origin, same receiving pipe => Y is not
	// received strictly before X
	std::map<std::pair<int, uint32_t>, std::vector<size_t>> conn;
	for (size_t id = 0; id < w.recs.size(); id++) {
		Rec &r = w.recs[id];
		if (r.state == M_ACCEPTED && r.nrecv == 1)
			conn[std::make_pair(r.origin, r.pipe)].push_back(id);
	}
	int ordered_pairs = 0;
	for (auto &kv : conn) {
		auto &v = kv.second;
		for (size_t a = 0; a < v.size(); a++)
			for (size_t b = 0; b < v.size(); b++) {
				Rec &x = w.recs[v[a]], &y = w.recs[v[b]];
				if (x.sub_ret < y.inv) {
					ordered_pairs++;
					if (y.rret < x.rinv) {
						// narrower history worth naming in the report: X was still
						// waiting to be accepted when SENDBUF was enlarged
						bool after_grow = false;
						// (the enlargement took effect somewhere in [g0,g1]; X was
						// submitted before g1 and not yet accepted at g0; Y was
						// accepted after g0)
						auto &gc = w.grow_clock[(size_t) x.origin];
						for (size_t gi = 0; gi + 1 < gc.size(); gi += 2)
							if (x.sub_ret < gc[gi + 1] && gc[gi] < x.ret && gc[gi] < y.ret)
								after_grow = true;
						VIOL("reordered",
						    "push%d sent #%zu and then #%zu, both travelled on connection (pipe %u) "
						    "to pull%d, but #%zu was received first%s",
						    x.origin, v[a], v[b], kv.first.second, x.puller, v[b],
						    after_grow ? " (the first send was still waiting for room when SENDBUF was "
						                 "enlarged, the second was accepted after the enlargement)"
						               : "");
					}
				}
			}
		if (v.size() > 1)
			sim_probe("c06_conn_multi_msg");
	}
	if (conn.size() > 1)
		sim_probe("c06_multi_conn");
	std::set<int> used;
	for (auto &r : w.recs)
		if (r.nrecv)
			used.insert(r.puller);
	if (used.size() > 1)
		sim_probe("c06_multi_puller_used");
	if (w.n_received > 0 && ordered_pairs >= 0)
		sim_stat("nontrivial", 1);
}

static void
close_world(World &w)
{
	for (size_t i = 0; i < w.push.size(); i++)
		(void) nng_pipe_notify(w.push[i], NNG_PIPE_EV_REM_POST, NULL, NULL);
	for (size_t j = 0; j < w.pull.size(); j++)
		(void) nng_pipe_notify(w.pull[j], NNG_PIPE_EV_REM_POST, NULL, NULL);
	for (size_t i = 0; i < w.push.size(); i++)
		if (w.push_open[i]) {
			MUST(nng_socket_close(w.push[i]));
			w.push_open[i] = false;
		}
	for (size_t j = 0; j < w.pull.size(); j++)
		if (w.pull_open[j]) {
			MUST(nng_socket_close(w.pull[j]));
			w.pull_open[j] = false;
		}
}

// ------------------------------------------------------------ draw plans ---
static size_t
draw_len(void)
{
	long k = W(0, 9);
	if (k <= 6)
		return (size_t) (TAG_MIN + W(0, 60));
	if (k <= 8)
		return (size_t) (TAG_MIN + W(0, 600));
	return (size_t) W(1000, 4000);
}

static const int BLOCK_TMO[] = { 1000, 200, 20, 5 };

static Op
draw_send(bool peerless)
{
	Op op;
	memset(&op, 0, sizeof(op));
	op.kind = OP_SEND;
	op.len  = draw_len();
	long m  = W(0, 9);
	if (peerless) {
		// nothing can take the message: never wait long
		static const int modes[] = { SM_NONBLOCK, SM_BLOCK, SM_AIO, SM_AIO_CANCEL, SM_COPY };
		op.mode    = modes[W(0, 4)];
		op.tmo_ms  = (int) W(1, 20);
		op.abandon = true;
		return op;
	}
	if (m <= 4) {
		op.mode   = SM_BLOCK;
		op.tmo_ms = BLOCK_TMO[W(0, 3)];
	} else if (m <= 6) {
		op.mode = SM_NONBLOCK;
	} else if (m == 7) {
		op.mode   = SM_AIO;
		op.tmo_ms = BLOCK_TMO[W(0, 3)];
	} else if (m == 8) {
		op.mode   = SM_AIO_CANCEL;
		op.tmo_ms = (int) W(0, 30); // x 0.1 ms before the cancel
	} else {
		op.mode = SM_COPY;
	}
	op.abandon = W(0, 5) == 5;
	return op;
}

static void
draw_plan(std::vector<Op> &ops, int nops, int curcap, bool allow_resize)
{
	int cap = curcap;
	for (int k = 0; k < nops; k++) {
		long kind = W(0, 19);
		Op   op;
		memset(&op, 0, sizeof(op));
		if (kind <= 13) {
			op = draw_send(false);
		} else if (kind <= 15) {
			op.kind   = OP_BATCH;
			op.aux    = (int) W(2, 4);
			op.len    = draw_len();
			op.tmo_ms = BLOCK_TMO[W(0, 2)];
			if (allow_resize && W(0, 3) == 3) {
				op.grow_at = (int) W(1, op.aux - 1);
				op.grow_by = (int) W(1, 2);
				cap += op.grow_by;
			}
		} else if (kind <= 17) {
			op.kind = OP_SLEEP;
			op.aux  = (int) W(0, 3000);
		} else if (allow_resize) {
			op.kind = OP_RESIZE;
			// mostly grow; a shrink makes earlier messages of this pusher
			// exempt from the loss check
			if (W(0, 4) == 4 && cap > 0)
				op.aux = (int) W(0, cap - 1);
			else
				op.aux = cap + (int) W(1, 3);
			cap = op.aux;
		} else {
			op = draw_send(false);
		}
		ops.push_back(op);
	}
}

static void
net_cfg(sim_config *cfg, Params *p)
{
	long net = p->draw("net", 0, 4);
	if (net == 1) {
		cfg->seg_mode = 3;
	} else if (net == 2) {
		cfg->seg_mode   = 2;
		cfg->seg_k      = 7;
		cfg->lat_min_ns = 10000;
		cfg->lat_max_ns = 2000000;
	} else if (net == 3) {
		cfg->seg_mode = 2;
		cfg->seg_k    = 40;
		cfg->eagain_p = 0.05;
	} else if (net == 4) {
		// small kernel buffers: the transport itself pushes back
		cfg->seg_mode   = 3;
		cfg->sndbuf_min = 64;
		cfg->sndbuf_max = 512;
		cfg->lat_min_ns = 100000;
		cfg->lat_max_ns = 5000000;
	}
}

// churn: a task that keeps closing connections under traffic
struct FlapArg {
	World *w;
	int    count, period_us, salt;
	int    tid;
};

static void
flapper_task(void *a)
{
	FlapArg *fa = (FlapArg *) a;
	World   &w  = *fa->w;
	for (int k = 0; k < fa->count; k++) {
		sim_sleep_ns((uint64_t) fa->period_us * 1000ull);
		if (w.live_pipes.empty())
			continue;
		nng_pipe pp = w.live_pipes[(size_t) (fa->salt + k * 7) % w.live_pipes.size()];
		sim_event("fault: flap closes pipe %d", nng_pipe_id(pp));
		loss_event_all(&w);
		(void) nng_pipe_close(pp);
		sim_fault_fired("pipe_close", w.n_accepted > w.n_received);
	}
}

struct Timed {
	int when_ms;
	int kind; // 0 late link, 1.. faults
	int a, b, c;
};

// ---------------------------------------------------------------------------
// c06_mesh: fault-free meshes, concurrent senders and receivers.  Nothing may
// be lost (except what a buffer shrink may discard), nothing duplicated,
// per-connection order.  c06_churn: same, plus connections and sockets going
// away; only messages sent after the last such event must all arrive.
static void
mesh_common(Params *p, bool churn)
{
	World w;
	int   np = 1 + (int) p->draw("xpush", 0, 2);
	int   nq = 1 + (int) p->draw("xpull", 0, 2);
	w.tr     = (int) p->draw("tr", 0, 5);
	w.close_ok = churn;
	if (churn)
		w.max_block_tries = 4, w.max_nb_tries = 40;
	for (int i = 0; i < np; i++)
		add_pusher(w, (int) W(0, 4));
	for (int j = 0; j < nq; j++)
		add_puller(w);
	sim_event("%s tr=%s pushers=%d pullers=%d", churn ? "c06_churn" : "c06_mesh", h_tr_name(w.tr), np, nq);

	std::vector<Timed> timeline;
	// links
	for (int i = 0; i < np; i++) {
		bool any = false;
		for (int j = 0; j < nq; j++) {
			long c  = W(0, 6);
			int  tr = W(0, 4) == 4 ? (int) W(0, 5) : w.tr;
			if (c == 6 && nq > 1)
				continue; // not connected
			any = true;
			if (c <= 2 || c == 6) {
				make_link(w, i, j, c != 2, W(0, 3) == 3, tr);
			} else {
				Timed t = { (int) W(1, 60), 0, i, j, (c == 3 ? 1 : 0) | (tr << 4) };
				timeline.push_back(t);
			}
			if (W(0, 7) == 7) {
				// a second, parallel connection between the same pair
				make_link(w, i, j, W(0, 1) == 0, false, w.tr);
				sim_probe("c06_parallel_link");
			}
		}
		if (!any)
			make_link(w, i, (int) W(0, nq - 1), true, false, w.tr);
	}
	// receivers
	std::vector<RecvArg *> rs;
	static const int SLOW[] = { 0, 0, 200, 2000, 8000 };
	for (int j = 0; j < nq; j++) {
		int nr = 1 + (W(0, 4) == 4 ? 1 : 0);
		for (int k = 0; k < nr; k++)
			spawn_receiver(w, rs, j, (int) W(0, 2), W(0, 3) == 3 ? (int) W(5, 80) : 0, SLOW[W(0, 4)]);
	}
	// senders
	std::vector<SenderArg *> ss;
	for (int i = 0; i < np; i++) {
		int ns = 1 + (W(0, 3) == 3 ? 1 : 0);
		for (int k = 0; k < ns; k++) {
			SenderArg *sa = new SenderArg();
			sa->w         = &w;
			sa->pusher    = i;
			draw_plan(sa->ops, (int) W(1, 24), w.cap[(size_t) i], k == 0);
			ss.push_back(sa);
		}
	}
	if (churn) {
		// mostly single connections going away under traffic (0-3), now and
		// then an endpoint or a whole socket
		static const int FKIND[] = { 1, 1, 1, 7, 3, 4, 5, 6 };
		int nf = (int) W(1, 6);
		for (int k = 0; k < nf; k++) {
			Timed t = { (int) W(0, 80), FKIND[F(0, 7)], (int) F(0, 1000), (int) F(0, 1000), (int) F(0, 1000) };
			timeline.push_back(t);
		}
	}
	std::stable_sort(timeline.begin(), timeline.end(),
	    [](const Timed &a, const Timed &b) { return a.when_ms < b.when_ms; });
	for (auto sa : ss)
		sa->tid = sim_spawn("push_send", sender_task, sa, 0);

	std::vector<FlapArg *> flaps;
	int now_ms = 0;
	for (auto &t : timeline) {
		if (t.when_ms > now_ms) {
			sim_sleep_ms((uint64_t) (t.when_ms - now_ms));
			now_ms = t.when_ms;
		}
		switch (t.kind) {
		case 0:
			if (!w.push_open[(size_t) t.a] || !w.pull_open[(size_t) t.b])
				break;
			sim_probe("c06_late_link");
			make_link(w, t.a, t.b, (t.c & 1) != 0, false, t.c >> 4);
			break;
		case 1:
		case 2: // close one live pipe
			if (!w.live_pipes.empty()) {
				nng_pipe pp = w.live_pipes[(size_t) t.a % w.live_pipes.size()];
				sim_event("fault: close pipe %d", nng_pipe_id(pp));
				loss_event_all(&w);
				(void) nng_pipe_close(pp);
				sim_fault_fired("pipe_close", w.n_accepted > w.n_received);
			}
			break;
		case 3: // close a dialer
			if (!w.dialers.empty()) {
				size_t k = (size_t) t.a % w.dialers.size();
				sim_event("fault: close dialer %zu", k);
				loss_event_all(&w);
				(void) nng_dialer_close(w.dialers[k]);
				w.dialers.erase(w.dialers.begin() + (long) k);
				sim_fault_fired("dialer_close", w.n_accepted > w.n_received);
			}
			break;
		case 4: // close a listener
			if (!w.listeners.empty()) {
				size_t k = (size_t) t.a % w.listeners.size();
				sim_event("fault: close listener %zu", k);
				loss_event_all(&w);
				(void) nng_listener_close(w.listeners[k]);
				w.listeners.erase(w.listeners.begin() + (long) k);
				(w.listener_of[k].first ? w.push_url : w.pull_url).erase(w.listener_of[k].second);
				w.listener_of.erase(w.listener_of.begin() + (long) k);
				sim_fault_fired("listener_close", w.n_accepted > w.n_received);
			}
			break;
		case 7: { // connections keep dropping for a while
			FlapArg *fa   = new FlapArg();
			fa->w         = &w;
			fa->count     = 3 + t.a % 20;
			fa->period_us = 300 + t.b % 3000;
			fa->salt      = t.c;
			sim_event("fault: flapper x%d every %d us", fa->count, fa->period_us);
			fa->tid = sim_spawn("flapper", flapper_task, fa, 0);
			flaps.push_back(fa);
			break;
		}
		case 5: { // close a puller; a fresh one takes over
			size_t j = (size_t) t.a % w.pull.size();
			if (!w.pull_open[j])
				break;
			sim_event("fault: close pull%zu", j);
			// its readers leave first: a receive whose timeout fires while the
			// socket is being closed is a known nng race (not C06's subject)
			for (auto ra : rs)
				if (ra->puller == (int) j && !ra->stop) {
					ra->stop = 1;
					sim_join(ra->tid);
				}
			loss_event_all(&w);
			w.pull_open[j] = false;
			(void) nng_pipe_notify(w.pull[j], NNG_PIPE_EV_REM_POST, NULL, NULL);
			MUST(nng_socket_close(w.pull[j]));
			loss_event_all(&w);
			sim_fault_fired("pull_close", w.n_accepted > w.n_received);
			int nj = add_puller(w);
			spawn_receiver(w, rs, nj, (int) (t.b % 3), 0, 0);
			for (int i = 0; i < (int) w.push.size(); i++)
				if (w.push_open[(size_t) i] && (i == (int) (t.c % (int) w.push.size()) || (t.b & 8)))
					make_link(w, i, nj, (t.c & 16) != 0, false, w.tr);
			break;
		}
		case 6: { // close a pusher with messages possibly still buffered or in flight
			size_t i = (size_t) t.a % w.push.size();
			if (!w.push_open[i])
				break;
			sim_event("fault: close push%zu", i);
			// no send call in progress at the close (same known race as above)
			w.push_closing[i] = true;
			for (int k = 0; k < 2000 && w.inflight[i] > 0; k++)
				sim_sleep_ms(1);
			loss_event_all(&w);
			w.push_open[i] = false;
			(void) nng_pipe_notify(w.push[i], NNG_PIPE_EV_REM_POST, NULL, NULL);
			MUST(nng_socket_close(w.push[i]));
			loss_event_all(&w);
			sim_fault_fired("push_close", w.n_accepted > w.n_received);
			break;
		}
		}
	}
	for (auto sa : ss)
		sim_join(sa->tid);
	for (auto fa : flaps)
		sim_join(fa->tid);
	sim_event("senders done: accepted=%d received=%d", w.n_accepted, w.n_received);
	drain(w);
	for (auto ra : rs)
		ra->stop = 1;
	sim_join_all();
	sim_event("drained: accepted=%d received=%d pipes +%d -%d", w.n_accepted, w.n_received, w.pipes_added,
	    w.pipes_removed);
	for (auto fa : flaps)
		delete fa;
	if (!churn && w.pipes_removed > 0)
		sim_probe("c06_unexpected_pipe_loss");
	final_checks(w);
	// let connection set-up that is still under way finish: closing a socket
	// in the middle of a transport handshake is C03/C10's subject, not ours
	h_settle();
	close_world(w);
	for (auto ra : rs)
		delete ra;
	for (auto sa : ss)
		delete sa;
}

static void
mesh_run(Params *p)
{
	mesh_common(p, false);
}
static void
churn_run(Params *p)
{
	mesh_common(p, true);
}

SCENARIO(c06_mesh, "C06", net_cfg, mesh_run);
SCENARIO(c06_churn, "C06", net_cfg, churn_run);

// ---------------------------------------------------------------------------
// c06_bp: back-pressure, exact.  One pusher; phase A with no peer at all
// (only the buffer can take messages), phase B senders blocked behind a full
// buffer, phase C the puller arrives (possibly not reading yet), phase D
// normal flow.  Every accepted message must come out, in order.
static void
bp_run(Params *p)
{
	World w;
	w.tr   = (int) p->draw("tr", 0, 5);
	int ep = (int) W(0, 2); // 0 decide at link time, 1 push listens early, 2 push dials early
	int i  = add_pusher(w, (int) W(0, 4));
	int j  = add_puller(w);
	std::string url = h_url(w.tr, 30);
	sim_event("c06_bp tr=%s ep=%d sendbuf=%d", h_tr_name(w.tr), ep, w.cap[0]);
	if (ep == 1) {
		nng_listener l;
		MUST(nng_listen(w.push[0], url.c_str(), &l, 0));
	} else if (ep == 2) {
		nng_dialer d;
		MUST(nng_dial(w.push[0], url.c_str(), &d, NNG_FLAG_NONBLOCK));
	}
	// phase A: nobody there
	int nA = (int) W(0, 10);
	for (int k = 0; k < nA; k++) {
		if (W(0, 5) == 5) {
			do_resize(w, i, (int) W(0, 5));
		} else {
			Op op = draw_send(true);
			do_send_op(w, i, op);
		}
	}
	// phase B: senders that block until the peer shows up
	std::vector<SenderArg *> ss;
	int nb = (int) W(0, 2);
	for (int k = 0; k < nb; k++) {
		SenderArg *sa = new SenderArg();
		sa->w         = &w;
		sa->pusher    = i;
		int n         = (int) W(1, 3);
		for (int q = 0; q < n; q++) {
			Op op;
			memset(&op, 0, sizeof(op));
			op.kind   = OP_SEND;
			op.mode   = W(0, 2) == 2 ? SM_AIO : SM_BLOCK;
			op.tmo_ms = 20000;
			op.len    = draw_len();
			sa->ops.push_back(op);
		}
		sa->tid = sim_spawn("push_blocked", sender_task, sa, 0);
		ss.push_back(sa);
	}
	if (nb) {
		sim_sleep_ms((uint64_t) W(0, 3));
		if (W(0, 1)) {
			Op op = draw_send(true);
			do_send_op(w, i, op);
		}
		if (W(0, 3) == 3)
			do_resize(w, i, w.cap[0] + (int) W(1, 2)); // waiters stay waiting or not: either is fine
	}
	// phase C: the puller arrives
	int stall_ms = (int) W(0, 3) * 15;
	w.peer_started[0] = true;
	sim_event("puller arrives (reader stalled for %d ms)", stall_ms);
	if (ep == 1) {
		nng_dialer d;
		int fl = W(0, 1) ? NNG_FLAG_NONBLOCK : 0;
		int rv = nng_dial(w.pull[0], url.c_str(), &d, fl);
		if (rv != 0 && fl == 0) {
			sim_event("dial failed: %d, retrying in the background", rv);
			sim_probe("c06_dial_retry");
			rv = nng_dial(w.pull[0], url.c_str(), &d, NNG_FLAG_NONBLOCK);
		}
		MUST(rv);
	} else if (ep == 2) {
		nng_listener l;
		MUST(nng_listen(w.pull[0], url.c_str(), &l, 0));
	} else {
		make_link(w, i, j, W(0, 1) == 0, false, w.tr);
	}
	std::vector<RecvArg *> rs;
	static const int SLOW[] = { 0, 200, 3000 };
	int nr = 1 + (W(0, 5) == 5 ? 1 : 0);
	for (int k = 0; k < nr; k++)
		spawn_receiver(w, rs, j, (int) W(0, 2), stall_ms, SLOW[W(0, 2)]);
	if (stall_ms) {
		// reader not reading: how much gets accepted is the transport's
		// business; whatever is accepted must come out later
		int nS = (int) W(0, 8);
		int a0 = w.n_accepted;
		for (int k = 0; k < nS; k++) {
			Op op     = draw_send(true);
			op.tmo_ms = (int) W(1, 5);
			do_send_op(w, i, op);
		}
		sim_stat("accepted_during_stall", w.n_accepted - a0);
		if (nS && w.n_accepted - a0 < nS)
			sim_probe("c06_backpressure_stalled_reader");
	}
	// phase D: normal flow
	std::vector<Op> ops;
	draw_plan(ops, (int) W(0, 14), w.cap[0], true);
	SenderArg main_sa;
	main_sa.w      = &w;
	main_sa.pusher = i;
	main_sa.ops    = ops;
	sender_task(&main_sa);
	for (auto sa : ss)
		sim_join(sa->tid);
	sim_event("senders done: accepted=%d received=%d", w.n_accepted, w.n_received);
	drain(w);
	for (auto ra : rs)
		ra->stop = 1;
	sim_join_all();
	sim_event("drained: accepted=%d received=%d pipes +%d -%d", w.n_accepted, w.n_received, w.pipes_added,
	    w.pipes_removed);
	if (w.pipes_removed > 0)
		sim_probe("c06_unexpected_pipe_loss");
	final_checks(w);
	// let connection set-up that is still under way finish: closing a socket
	// in the middle of a transport handshake is C03/C10's subject, not ours
	h_settle();
	close_world(w);
	for (auto ra : rs)
		delete ra;
	for (auto sa : ss)
		delete sa;
}

SCENARIO(c06_bp, "C06", net_cfg, bp_run);

} // namespace
