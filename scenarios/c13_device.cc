// C13 devices: bodies unchanged, replies routed back through any chain of
// devices, hop limit (MAXTTL) discards, loops die out, crafted backtraces
// from raw peers are dropped / disconnect without corruption.
//
// Three scenarios:
//   c13_chain  requester(s) -> dev_1 .. dev_k -> replier(s) for REQ/REP,
//              SURVEYOR/RESPONDENT and PAIR1, k = 0..17, TTL drawn per socket
//   c13_raw    a raw peer (raw nng socket whose *body* carries a crafted
//              backtrace) against cooked / raw / device-fronted sockets, in
//              both directions
//   c13_loop   rings of devices, optionally with a harness-run hop that can
//              see every lap
//
// Hop model (the convention pinned by the existing suite, test_xrep_ttl_drop):
// a request that crossed j devices is accepted by a socket with MAXTTL T iff
// j + 1 <= T.
#include "../harness/util.h"

#include <set>

namespace {

enum { FAM_REQ = 0, FAM_SURV = 1, FAM_PAIR = 2 };

static const char *
fam_name(int f)
{
	return f == FAM_REQ ? "reqrep" : f == FAM_SURV ? "survey" : "pair1";
}

// device side that faces the requesters (receives requests, hop-limited)
static int
open_front_raw(int fam, nng_socket *s)
{
	switch (fam) {
	case FAM_REQ:
		return nng_rep0_open_raw(s);
	case FAM_SURV:
		return nng_respondent0_open_raw(s);
	default:
		return nng_pair1_open_raw(s);
	}
}
// device side that faces the repliers
static int
open_back_raw(int fam, nng_socket *s)
{
	switch (fam) {
	case FAM_REQ:
		return nng_req0_open_raw(s);
	case FAM_SURV:
		return nng_surveyor0_open_raw(s);
	default:
		return nng_pair1_open_raw(s);
	}
}
static int
open_requester(int fam, bool raw, nng_socket *s)
{
	if (raw)
		return open_back_raw(fam, s);
	switch (fam) {
	case FAM_REQ:
		return nng_req0_open(s);
	case FAM_SURV:
		return nng_surveyor0_open(s);
	default:
		return nng_pair1_open(s);
	}
}
static int
open_replier(int fam, bool raw, nng_socket *s)
{
	if (raw)
		return open_front_raw(fam, s);
	switch (fam) {
	case FAM_REQ:
		return nng_rep0_open(s);
	case FAM_SURV:
		return nng_respondent0_open(s);
	default:
		return nng_pair1_open(s);
	}
}

// ---------------------------------------------------------------- payloads ---
// len >= 20: harness tag; 5..19: mini (origin, stream, serial16, check,
// filler); 0..4: anonymous pattern that depends on the length only.
struct Pay {
	bool     ok;
	bool     anon;
	int      origin, stream;
	uint32_t serial;
};

static std::string
pay_make(size_t len, int origin, int stream, uint32_t serial)
{
	std::string b(len, '\0');
	if (len >= TAG_MIN) {
		tag_fill((uint8_t *) &b[0], len, (uint16_t) origin, (uint16_t) stream, serial);
	} else if (len >= 5) {
		uint8_t *u = (uint8_t *) &b[0];
		u[0]       = (uint8_t) origin;
		u[1]       = (uint8_t) stream;
		u[2]       = (uint8_t) (serial >> 8);
		u[3]       = (uint8_t) serial;
		u[4]       = (uint8_t) ((u[0] * 7 + u[1] * 13 + u[2] * 17 + u[3] * 19 + len) ^ 0xA5);
		for (size_t i = 5; i < len; i++)
			u[i] = (uint8_t) ((u[4] + i * 31) ^ u[i - 5]);
	} else {
		for (size_t i = 0; i < len; i++)
			b[i] = (char) (0x30 + len * 4 + i);
	}
	return b;
}

static Pay
pay_parse(const void *p, size_t len)
{
	Pay r;
	memset(&r, 0, sizeof(r));
	const uint8_t *u = (const uint8_t *) p;
	if (len >= TAG_MIN) {
		Tag t    = tag_parse(u, len);
		r.ok     = t.ok;
		r.origin = t.origin;
		r.stream = t.stream;
		r.serial = t.serial;
	} else if (len >= 5) {
		r.origin       = u[0];
		r.stream       = u[1];
		r.serial       = ((uint32_t) u[2] << 8) | u[3];
		std::string rf = pay_make(len, r.origin, r.stream, r.serial);
		r.ok           = memcmp(rf.data(), u, len) == 0;
	} else {
		r.anon         = true;
		std::string rf = pay_make(len, 0, 0, 0);
		r.ok           = len == 0 || memcmp(rf.data(), u, len) == 0;
	}
	return r;
}

static nng_msg *
msg_from(const std::string &body)
{
	nng_msg *m = NULL;
	MUST(nng_msg_alloc(&m, 0));
	if (!body.empty())
		MUST(nng_msg_append(m, body.data(), body.size()));
	return m;
}

static std::string
hexs(const void *p, size_t n)
{
	return h_hex((const uint8_t *) p, n, 96);
}
static std::string
hexs(const std::string &s)
{
	return h_hex((const uint8_t *) s.data(), s.size(), 96);
}

static std::string
be32(uint32_t v)
{
	std::string s(4, '\0');
	s[0] = (char) (v >> 24);
	s[1] = (char) (v >> 16);
	s[2] = (char) (v >> 8);
	s[3] = (char) v;
	return s;
}

// a harness task that sits in an infinite-timeout receive and is stopped by
// cancelling that receive (repeatedly, until the task says it is gone)
struct Stoppable {
	UAio         u;
	volatile int stop;
	volatile int done;
	Stoppable() : stop(0), done(0) {}
};
static void
stop_task(Stoppable *t)
{
	t->stop = 1;
	while (!t->done) {
		nng_aio_cancel(t->u.aio);
		sim_sleep_ms(1);
	}
}
// returns NULL when the task must exit
static nng_msg *
stoppable_recv(Stoppable *t, nng_socket s, const char *what)
{
	for (;;) {
		if (t->stop)
			return NULL;
		nng_aio_set_timeout(t->u.aio, NNG_DURATION_INFINITE);
		t->u.arm(what);
		nng_socket_recv(s, t->u.aio);
		t->u.wait(0);
		if (t->u.result == 0)
			return nng_aio_get_msg(t->u.aio);
		if (t->stop || t->u.result == NNG_ECLOSED)
			return NULL;
		sim_sleep_ms(1);
	}
}

static int g_net_links_left; // set per run; limits non-inproc links

static int pick_tr_raw(long mode);
static int
pick_tr(long mode)
{
	int tr = pick_tr_raw(mode);
	if (tr != TR_INPROC) {
		if (g_net_links_left <= 0)
			return TR_INPROC;
		g_net_links_left--;
	}
	return tr;
}

static int
pick_tr_raw(long mode)
{
	static const int some[] = { TR_INPROC, TR_TCP, TR_IPC, TR_ABSTRACT };
	switch (mode) {
	case 0:
		return TR_INPROC;
	case 1:
		return W(0, 3) == 0 ? some[W(1, 3)] : TR_INPROC;
	case 2:
		return TR_TCP;
	default:
		return some[W(0, 3)];
	}
}

struct Link {
	nng_socket up, down; // up = nearer to the requester
	int        tr;
	bool       down_listens;
};

static void
wire_links(std::vector<Link> &links, int url_base)
{
	for (size_t i = 0; i < links.size(); i++) {
		std::string url = h_url(links[i].tr, url_base + (int) i);
		MUST(nng_listen(links[i].down_listens ? links[i].down : links[i].up, url.c_str(), NULL, 0));
	}
	for (size_t i = 0; i < links.size(); i++) {
		std::string url = h_url(links[i].tr, url_base + (int) i);
		MUST(nng_dial(links[i].down_listens ? links[i].up : links[i].down, url.c_str(), NULL, 0));
	}
}

static int
get_ttl(nng_socket s)
{
	int v = 0;
	MUST(nng_socket_get_int(s, NNG_OPT_MAXTTL, &v));
	return v;
}

struct Dev {
	nng_socket front, back;
	int        tf, tb;
	UAio      *aio;
};

static void
dev_start(Dev &d)
{
	d.aio = new UAio();
	d.aio->arm("device");
	if (W(0, 1))
		nng_device_aio(d.aio->aio, d.front, d.back);
	else
		nng_device_aio(d.aio->aio, d.back, d.front);
}
static void
dev_check_running(Dev &d, int i)
{
	if (d.aio->poll())
		h_fatal("device %d stopped right after start: %d (%s)", i, d.aio->result,
		    nng_strerror(d.aio->result));
}
static void
dev_stop(Dev &d)
{
	nng_aio_cancel(d.aio->aio);
	if (d.aio->wait(20000000000ull) == (nng_err) -1)
		h_fatal("device aio did not complete after cancel");
	delete d.aio;
	d.aio = NULL;
	// the device closes its sockets when it stops; be tolerant either way
	(void) nng_socket_close(d.front);
	(void) nng_socket_close(d.back);
}

// ======================================================================
// c13_chain
// ======================================================================
#define CH_TMO_MS 3000

struct Chain;
struct Requester {
	Chain     *c;
	int        idx;
	bool       raw;
	int        attach; // first device crossed (0-based); meaningless if k == 0
	nng_socket s;
	int        nmsg;
	int        ttl; // PAIR1 only (receives the echo)
	int        replies, drops_ok;
};
struct Replier {
	Chain     *c;
	int        idx;
	nng_socket s;
	int        ttl;
	Stoppable  st;
	int        delivered;
};
struct Chain {
	int                      fam, k;
	size_t                   maxlen;
	std::vector<Dev>         devs;
	std::vector<Requester *> reqs;
	std::vector<Replier *>   reps;
};

// devices crossed before front[i] sees a request that entered at 'attach'
static bool
fwd_chain_ok(Chain *c, int attach)
{
	for (int i = attach; i < c->k; i++)
		if ((i - attach) + 1 > c->devs[(size_t) i].tf)
			return false;
	return true;
}
static bool
fwd_end_ok(Chain *c, int attach, int q)
{
	int crossed = c->k == 0 ? 0 : c->k - attach;
	return crossed + 1 <= c->reps[(size_t) q]->ttl;
}
// PAIR1 only: the way back is hop limited as well
static bool
back_ok(Chain *c, Requester *r)
{
	if (c->fam != FAM_PAIR)
		return true;
	for (int i = c->k - 1; i >= 0; i--)
		if ((c->k - 1 - i) + 1 > c->devs[(size_t) i].tb)
			return false;
	return c->k + 1 <= r->ttl;
}

static void
chain_replier(void *a)
{
	Replier *q = (Replier *) a;
	Chain   *c = q->c;
	for (;;) {
		nng_msg *m = stoppable_recv(&q->st, q->s, "replier_recv");
		if (m == NULL)
			break;
		size_t len = nng_msg_len(m);
		Pay    pl  = pay_parse(nng_msg_body(m), len);
		if (!pl.ok || (!pl.anon && (pl.stream != 0 || pl.origin >= (int) c->reqs.size())))
			VIOL("altered_body", "replier %d received a body nobody sent: %s", q->idx,
			    hexs(nng_msg_body(m), len).c_str());
		int origin = pl.anon ? 0 : pl.origin;
		Requester *r = c->reqs[(size_t) origin];
		sim_event("replier %d got req origin=%d serial=%u len=%zu", q->idx, origin, pl.serial, len);
		if (!fwd_chain_ok(c, r->attach) || !fwd_end_ok(c, r->attach, q->idx))
			VIOL("over_ttl_delivered",
			    "replier %d (MAXTTL %d) received request %d/%u that crossed %d devices "
			    "(attach %d of %d; the hop model says it must have been discarded)",
			    q->idx, q->ttl, origin, pl.serial, c->k == 0 ? 0 : c->k - r->attach, r->attach, c->k);
		q->delivered++;
		nng_msg_free(m);
		nng_msg *rep = msg_from(pay_make(len, origin, 1 + q->idx, pl.serial));
		int rv = nng_sendmsg(q->s, rep, 0);
		if (rv != 0) {
			nng_msg_free(rep);
			sim_event("replier %d send failed %d", q->idx, rv);
			sim_probe("c13_replier_send_failed");
		}
	}
	q->st.done = 1;
}

// wait for one message on the requester until CH_TMO_MS of *stall-free*
// virtual time have passed without one (injected thread stalls do not count
// against the library).  returns 0 and *mp, or the last error
static int
req_wait(nng_socket s, nng_msg **mp, bool *too_stalled)
{
	uint64_t eff = 0;
	int      rv  = 0;
	*too_stalled = false;
	for (int tries = 0; tries < 40; tries++) {
		uint64_t t0 = sim_now_ns(), s0 = sim_stall_total_ns();
		rv = nng_recvmsg(s, mp, 0);
		if (rv == 0)
			return 0;
		uint64_t dt = sim_now_ns() - t0, ds = sim_stall_total_ns() - s0;
		if (rv != NNG_ETIMEDOUT)
			return rv; // e.g. ESTATE: the survey is over
		eff += dt > ds ? dt - ds : 0;
		if (eff >= (uint64_t) CH_TMO_MS * 900000ull)
			return rv;
		sim_probe("c13_wait_extended_for_stalls");
	}
	*too_stalled = true;
	return rv;
}

static void
chain_requester(void *a)
{
	Requester *r = (Requester *) a;
	Chain     *c = r->c;
	size_t     nrep = c->reps.size();
	bool       chain_ok = fwd_chain_ok(c, r->attach) && back_ok(c, r);
	int        n_ok = 0;
	for (size_t q = 0; q < nrep; q++)
		if (chain_ok && fwd_end_ok(c, r->attach, (int) q))
			n_ok++;
	for (int i = 0; i < r->nmsg; i++) {
		size_t len;
		long   lk = W(0, 7);
		if (lk <= 3)
			len = (size_t) W(20, 120);
		else if (lk == 4)
			len = (size_t) W(5, 19);
		else if (lk == 5) // anonymous bodies identify nobody: 1:1 only
			len = c->reqs.size() == 1 && nrep == 1 ? (size_t) W(0, 4) : (size_t) W(5, 19);
		else if (lk == 6)
			len = (size_t) W(1000, 6000);
		else
			len = 20;
		if (len > c->maxlen)
			len = c->maxlen;
		std::string body = pay_make(len, r->idx, 0, (uint32_t) i);
		nng_msg    *m    = msg_from(body);
		uint32_t    rid  = 0x80000000u | ((uint32_t) r->idx << 20) | (uint32_t) i;
		if (r->raw) {
			if (c->fam == FAM_PAIR)
				MUST(nng_msg_header_append_u32(m, 0));
			else
				MUST(nng_msg_header_append_u32(m, rid));
		}
		sim_event("requester %d send serial=%d len=%zu (expect %d of %zu repliers reachable)", r->idx, i,
		    len, n_ok, nrep);
		MUST(nng_sendmsg(r->s, m, 0));
		// REQ/PAIR: at most one answer; SURVEY: one per respondent
		size_t           want_max = c->fam == FAM_SURV ? nrep : 1;
		std::set<int>    from;
		bool             timed_out = false, stalled_wait = false;
		while (from.size() < want_max) {
			nng_msg *rm = NULL;
			bool     too_stalled = false;
			int      rv = req_wait(r->s, &rm, &too_stalled);
			if (rv != 0) {
				stalled_wait = too_stalled;
				timed_out    = true;
				break;
			}
			size_t rl = nng_msg_len(rm);
			Pay    pl = pay_parse(nng_msg_body(rm), rl);
			if (!pl.ok || (!pl.anon && (pl.stream < 1 || pl.stream > (int) nrep)))
				VIOL("altered_body", "requester %d received a body no replier sent: %s", r->idx,
				    hexs(nng_msg_body(rm), rl).c_str());
			if (!pl.anon && pl.origin != r->idx)
				VIOL("misrouted_reply",
				    "requester %d received the reply to requester %d's request %u", r->idx, pl.origin,
				    pl.serial);
			if (r->raw && c->fam != FAM_PAIR) {
				// fully unwound: exactly our own id is left
				size_t      hl = nng_msg_header_len(rm);
				std::string h((const char *) nng_msg_header(rm), hl);
				if (hl != 4 || ((uint8_t) h[0] & 0x80) == 0 ||
				    (((uint8_t) h[0] & 0x7f) << 4 | ((uint8_t) h[1] >> 4)) != r->idx)
					VIOL("backtrace_not_unwound",
					    "raw requester %d received a reply whose header is %s (expected only "
					    "its own request id %08x)",
					    r->idx, hexs(h).c_str(), rid);
			}
			nng_msg_free(rm);
			if (!pl.anon && pl.serial != (uint32_t) i) {
				// an answer to an earlier (given up) request: routing was right
				sim_probe("c13_stale_reply");
				continue;
			}
			if (rl != len)
				VIOL("altered_body", "requester %d: reply length %zu for a request of %zu", r->idx,
				    rl, len);
			int q = pl.anon ? 0 : pl.stream - 1;
			if (!chain_ok || !fwd_end_ok(c, r->attach, q))
				VIOL("over_ttl_delivered",
				    "requester %d got an answer from replier %d although the hop model says "
				    "request or answer must have been discarded (k=%d attach=%d)",
				    r->idx, q, c->k, r->attach);
			if (!from.insert(q).second)
				sim_probe("c13_duplicate_answer");
			r->replies++;
			sim_event("requester %d got answer serial=%d from replier %d", r->idx, i, q);
			if (c->k > 0)
				sim_stat("nontrivial", 1);
			if (c->fam == FAM_SURV && (int) from.size() >= n_ok && n_ok < (int) nrep) {
				// nobody else can answer; do not sit out the survey time
				// for every single survey
				if (W(0, 1))
					break;
			}
		}
		int need = c->fam == FAM_SURV ? n_ok : (n_ok == (int) nrep ? 1 : 0);
		// Responses travel back through each raw RESPONDENT's per-pipe send
		// queue, which holds 2 messages and drops (best effort, by design)
		// when full; the slot of the message being sent stays occupied until
		// the send *callback* has run, which a scheduler may delay long after
		// that message was delivered.  So only 2 responses in flight are
		// guaranteed room; with more (surveyors x respondents > 2) a missing
		// response is an observation, not a violation.  Routing and body
		// checks above apply to everything that does arrive.
		if (c->fam == FAM_SURV && (int) from.size() < need && c->reqs.size() * nrep > 2) {
			sim_probe("c13_best_effort_response_drop");
			need = (int) from.size();
		}
		if ((int) from.size() < need && stalled_wait)
			sim_inconclusive("requester wait dominated by injected stalls");
		if ((int) from.size() < need)
			VIOL(c->fam == FAM_SURV ? "response_lost" : "reply_lost",
			    "requester %d serial %d: %zu answer(s) within %d ms, the hop model promises %d "
			    "(k=%d attach=%d, no hop limit exceeded on the way)",
			    r->idx, i, from.size(), CH_TMO_MS, need, c->k, r->attach);
		if (timed_out && n_ok == 0) {
			r->drops_ok++;
			sim_probe("c13_ttl_drop_seen");
			if (c->k > 0)
				sim_stat("nontrivial", 1);
		}
	}
}

// pos = hops the request will have made when it arrives at this socket
// (devices crossed + 1) if it entered at the head of the chain
static int
draw_ttl(long mode, int T, bool special, int pos = 0)
{
	switch (mode) {
	case 5: { // everything wide open except one socket exactly at its limit
		if (!special)
			return 15;
		int t = pos - (int) W(0, 1); // == pos: last one that passes; pos-1: first that does not
		return t < 1 ? 1 : t > 15 ? 15 : t;
	}
	case 0:
		return 0; // leave the default
	case 1:
		return T;
	case 2:
		return W(0, 1) ? (int) W(1, 15) : 0;
	case 3:
		return 15;
	default:
		return special ? T : 15;
	}
}

static void
chain_run(Params *p)
{
	Chain c;
	c.maxlen         = (size_t) p->i("c13_maxlen", 6000);
	g_net_links_left = (int) p->i("c13_maxnet", 1000);
	c.fam        = (int) p->draw("fam", 0, 2);
	long ttlmode = p->draw("ttlmode", 0, 5);
	int  T       = (int) W(1, 15);
	long ksel    = p->draw("ksel", 0, 5);
	int  Tref    = ttlmode == 1 ? T : ttlmode >= 3 ? 15 : 8;
	switch (ksel) {
	case 0:
		c.k = 1;
		break;
	case 1:
		c.k = (int) W(0, 3);
		break;
	case 2:
		c.k = (int) W(0, 9);
		break;
	case 3:
		c.k = (int) W(0, 17);
		break;
	default:
		c.k = Tref - 2 + (int) W(0, 3);
		break;
	}
	if (c.k < 0)
		c.k = 0;
	if (c.k > 17)
		c.k = 17;
	long trmode = p->draw("trmode", 0, 3);
	int  nreq   = c.fam == FAM_PAIR ? 1 : 1 + (int) W(0, 2);
	int  nrep   = c.fam == FAM_PAIR ? 1 : (W(0, 3) == 0 ? 2 : 1);
	if (c.fam == FAM_SURV && nreq * nrep > 3)
		nrep = 1; // keep the burst of responses on one pipe small (see chain_requester)
	// number of receiving sockets, for ttlmode 4's single low one
	int nrecv   = c.k + nrep;
	int special = (int) W(0, nrecv - 1);
	int seen    = 0;

	c.devs.resize((size_t) c.k);
	for (int i = 0; i < c.k; i++) {
		Dev &d = c.devs[(size_t) i];
		MUST(open_front_raw(c.fam, &d.front));
		MUST(open_back_raw(c.fam, &d.back));
		int t = draw_ttl(ttlmode, T, seen++ == special, i + 1);
		if (t)
			MUST(nng_socket_set_int(d.front, NNG_OPT_MAXTTL, t));
		// the back side's MAXTTL matters for PAIR1 only; for the others the
		// option exists and is set, the model ignores it
		int tb = c.fam == FAM_PAIR ? draw_ttl(ttlmode >= 4 ? 3 : ttlmode, T, false)
		                           : (W(0, 2) == 0 ? (int) W(1, 15) : 0);
		if (tb)
			MUST(nng_socket_set_int(d.back, NNG_OPT_MAXTTL, tb));
		d.tf = get_ttl(d.front);
		d.tb = get_ttl(d.back);
		if (t && d.tf != t)
			VIOL("ttl_option", "MAXTTL set to %d reads back %d", t, d.tf);
	}
	for (int q = 0; q < nrep; q++) {
		Replier *r = new Replier();
		r->c       = &c;
		r->idx     = q;
		r->delivered = 0;
		MUST(open_replier(c.fam, false, &r->s));
		int t = draw_ttl(ttlmode, T, seen++ == special, c.k + 1);
		if (t)
			MUST(nng_socket_set_int(r->s, NNG_OPT_MAXTTL, t));
		r->ttl = get_ttl(r->s);
		MUST(nng_socket_set_ms(r->s, NNG_OPT_SENDTIMEO, 5000));
		c.reps.push_back(r);
	}
	for (int i = 0; i < nreq; i++) {
		Requester *r = new Requester();
		r->c         = &c;
		r->idx       = i;
		r->raw       = W(0, 2) == 0;
		r->attach    = (c.k > 1 && c.fam != FAM_PAIR && W(0, 3) == 0) ? (int) W(0, c.k - 1) : 0;
		r->nmsg      = 1 + (int) W(0, 5);
		r->replies = r->drops_ok = 0;
		r->ttl       = 0;
		MUST(open_requester(c.fam, r->raw, &r->s));
		if (c.fam == FAM_PAIR) {
			int t = draw_ttl(ttlmode >= 4 ? 3 : ttlmode, T, false);
			if (t)
				MUST(nng_socket_set_int(r->s, NNG_OPT_MAXTTL, t));
			r->ttl = get_ttl(r->s);
		}
		MUST(nng_socket_set_ms(r->s, NNG_OPT_RECVTIMEO, CH_TMO_MS));
		MUST(nng_socket_set_ms(r->s, NNG_OPT_SENDTIMEO, 5000));
		if (c.fam == FAM_SURV && !r->raw)
			MUST(nng_socket_set_ms(r->s, NNG_OPT_SURVEYOR_SURVEYTIME, 40 * CH_TMO_MS));
		if (r->raw)
			sim_probe("c13_raw_requester");
		if (r->attach > 0)
			sim_probe("c13_midchain_attach");
		c.reqs.push_back(r);
	}
	std::string ttls;
	for (int i = 0; i < c.k; i++)
		ttls += " " + std::to_string(c.devs[(size_t) i].tf) + "/" + std::to_string(c.devs[(size_t) i].tb);
	for (auto q : c.reps)
		ttls += " R" + std::to_string(q->ttl);
	sim_event("c13_chain fam=%s k=%d nreq=%d nrep=%d ttl(front/back..):%s", fam_name(c.fam), c.k, nreq, nrep,
	    ttls.c_str());

	// links
	std::vector<Link> links;
	auto add = [&](nng_socket up, nng_socket down) {
		Link l;
		l.up           = up;
		l.down         = down;
		l.tr           = pick_tr(trmode);
		l.down_listens = W(0, 1) == 0;
		if (l.tr != TR_INPROC)
			sim_probe("c13_net_hop");
		links.push_back(l);
	};
	for (auto r : c.reqs) {
		if (c.k == 0) {
			for (auto q : c.reps)
				add(r->s, q->s);
		} else {
			add(r->s, c.devs[(size_t) r->attach].front);
		}
	}
	for (int i = 0; i + 1 < c.k; i++)
		add(c.devs[(size_t) i].back, c.devs[(size_t) i + 1].front);
	if (c.k > 0)
		for (auto q : c.reps)
			add(c.devs[(size_t) c.k - 1].back, q->s);
	wire_links(links, 100);
	sim_quiesce(20000000);
	// the hop limit is an option of the socket, not of a connection: changing it
	// once the peers are connected applies to what arrives from then on
	if (W(0, 1) == 1) {
		auto reset_ttl = [&](nng_socket s, int *model) {
			if (W(0, 1) == 0)
				return;
			int t = (int) W(1, 15);
			MUST(nng_socket_set_int(s, NNG_OPT_MAXTTL, t));
			*model = get_ttl(s);
			if (*model != t)
				VIOL("ttl_option", "MAXTTL set to %d reads back %d", t, *model);
			sim_probe("c13_ttl_changed_after_connect");
		};
		for (auto &d : c.devs) {
			reset_ttl(d.front, &d.tf);
			if (c.fam == FAM_PAIR)
				reset_ttl(d.back, &d.tb);
		}
		for (auto q : c.reps)
			reset_ttl(q->s, &q->ttl);
		if (c.fam == FAM_PAIR)
			for (auto r : c.reqs)
				reset_ttl(r->s, &r->ttl);
	}
	for (auto &d : c.devs)
		dev_start(d);
	sim_quiesce(2000000);
	for (int i = 0; i < c.k; i++)
		dev_check_running(c.devs[(size_t) i], i);
	if (c.k >= 9)
		sim_probe("c13_chain_ge_9");
	if (c.k >= 15)
		sim_probe("c13_chain_ge_15");

	std::vector<int> rt;
	for (auto q : c.reps)
		sim_spawn("replier", chain_replier, q, 0);
	for (auto r : c.reqs)
		rt.push_back(sim_spawn("requester", chain_requester, r, 0));
	for (int t : rt)
		sim_join(t);
	for (auto q : c.reps)
		stop_task(&q->st);
	sim_join_all();
	int total = 0;
	for (auto r : c.reqs)
		total += r->replies;
	if (total > 0)
		sim_probe("c13_answers");
	if (total > 0 && c.k == 0)
		sim_stat("direct_only", 1);
	// boundary evidence: some hop accepted a request with crossed+1 == ttl
	for (auto r : c.reqs) {
		if (r->replies == 0)
			continue;
		for (int i = r->attach; i < c.k; i++)
			if ((i - r->attach) + 1 == c.devs[(size_t) i].tf)
				sim_probe("c13_boundary_pass");
		for (auto q : c.reps)
			if ((c.k == 0 ? 0 : c.k - r->attach) + 1 == q->ttl)
				sim_probe("c13_boundary_pass");
	}
	for (auto &d : c.devs)
		dev_stop(d);
	for (auto r : c.reqs) {
		MUST(nng_socket_close(r->s));
		delete r;
	}
	for (auto q : c.reps) {
		MUST(nng_socket_close(q->s));
		delete q;
	}
}

static void
net_cfg(sim_config *cfg, Params *p)
{
	// Every byte on every network hop costs scheduling points, much more so
	// when the stream is cut into tiny segments; the scenarios keep payloads
	// and the number of network hops within what the step budget allows.
	long net    = p->draw("net", 0, 3);
	long maxlen = 6000, maxnet = 1000;
	if (net == 1) {
		cfg->seg_mode = 3;
		maxlen        = 1200;
		maxnet        = 6;
	} else if (net == 2) {
		cfg->seg_mode   = 2;
		cfg->seg_k      = 7;
		cfg->lat_min_ns = 10000;
		cfg->lat_max_ns = 2000000;
		maxlen          = 200;
		maxnet          = 4;
	} else if (net == 3) {
		cfg->seg_mode = 1;
		cfg->eagain_p = 0.05;
		maxlen        = 64;
		maxnet        = 3;
	}
	p->set("c13_maxlen", maxlen);
	p->set("c13_maxnet", maxnet);
}

SCENARIO(c13_chain, "C13", net_cfg, chain_run);

// ======================================================================
// c13_raw: crafted backtraces
// ======================================================================
// SP backtrace syntax: 4-byte words, the first one whose first byte has the
// high bit set terminates it.
struct BtParse {
	bool   terminated;
	int    words; // words consumed (including the terminator if any)
	size_t pos;
};
static BtParse
bt_parse(const std::string &b)
{
	BtParse r = { false, 0, 0 };
	while (b.size() - r.pos >= 4) {
		bool end = ((uint8_t) b[r.pos] & 0x80) != 0;
		r.pos += 4;
		r.words++;
		if (end) {
			r.terminated = true;
			break;
		}
	}
	return r;
}

// "is there a message right now": called after sim_quiesce, so anything that
// was going to arrive has arrived.  A short timed receive rather than
// NNG_FLAG_NONBLOCK: a zero-timeout receive on a msgq-backed (raw) socket
// fails before it looks at the queue, which is not C13's business.
static bool
recv_nb(nng_socket s, nng_msg **mp)
{
	UAio u;
	*mp = NULL;
	nng_aio_set_timeout(u.aio, 2);
	u.arm("recv_poll");
	nng_socket_recv(s, u.aio);
	u.wait(0);
	if (u.result != 0)
		return false;
	*mp = nng_aio_get_msg(u.aio);
	return true;
}

static std::string
rand_word(bool high)
{
	std::string w(4, '\0');
	for (int i = 0; i < 4; i++)
		w[(size_t) i] = (char) W(0, 255);
	if (high)
		w[0] = (char) ((uint8_t) w[0] | 0x80);
	else
		w[0] = (char) ((uint8_t) w[0] & 0x7f);
	return w;
}

static void
set_reconn(nng_socket s)
{
	MUST(nng_socket_set_ms(s, NNG_OPT_RECONNMINT, 1));
	MUST(nng_socket_set_ms(s, NNG_OPT_RECONNMAXT, 1));
}

#define RAW_SETTLE 30000000ull

static void
raw_forward(Params *p, int fam, bool has_dev, long trmode)
{
	bool       end_raw = p->draw("end_raw", 0, 1) != 0;
	nng_socket evil, end;
	Dev        d;
	MUST(open_back_raw(fam, &evil));
	MUST(open_replier(fam, end_raw, &end));
	set_reconn(evil);
	MUST(nng_socket_set_ms(evil, NNG_OPT_SENDTIMEO, 5000));
	MUST(nng_socket_set_ms(end, NNG_OPT_SENDTIMEO, 5000));
	int t = (int) W(0, 15);
	if (t)
		MUST(nng_socket_set_int(end, NNG_OPT_MAXTTL, t));
	int T_end = get_ttl(end), T_front = 0;
	std::vector<Link> links;
	Link              l;
	if (has_dev) {
		MUST(open_front_raw(fam, &d.front));
		MUST(open_back_raw(fam, &d.back));
		set_reconn(d.back);
		t = (int) W(0, 15);
		if (t)
			MUST(nng_socket_set_int(d.front, NNG_OPT_MAXTTL, t));
		T_front = get_ttl(d.front);
		l.up = evil, l.down = d.front, l.tr = pick_tr(trmode), l.down_listens = true;
		links.push_back(l);
		l.up = d.back, l.down = end, l.tr = pick_tr(trmode), l.down_listens = true;
		links.push_back(l);
	} else {
		l.up = evil, l.down = end, l.tr = pick_tr(trmode), l.down_listens = true;
		links.push_back(l);
	}
	wire_links(links, 200);
	sim_quiesce(RAW_SETTLE);
	if (has_dev) {
		dev_start(d);
		sim_quiesce(2000000);
		dev_check_running(d, 0);
	}
	sim_event("c13_raw forward fam=%s dev=%d end=%s T_front=%d T_end=%d", fam_name(fam), (int) has_dev,
	    end_raw ? "raw" : "cooked", T_front, T_end);

	int n = 3 + (int) W(0, 17);
	for (int it = 0; it < n; it++) {
		// shape
		int  nw;
		long ws = W(0, 5);
		if (ws == 0)
			nw = (int) W(0, 3);
		else if (ws == 1) // around the hop limit of the first receiver
			nw = (has_dev ? T_front : T_end) - 2 + (int) W(0, 3);
		else if (ws == 2) // around the header capacity
			nw = 13 + (int) W(0, 5);
		else if (ws == 3 && has_dev)
			nw = T_end - 3 + (int) W(0, 3);
		else
			nw = (int) W(0, 20);
		if (nw < 0)
			nw = 0;
		if (nw > 20)
			nw = 20;
		bool        term = W(0, 3) != 0;
		std::string bt;
		for (int i = 0; i < nw; i++)
			bt += rand_word(false);
		if (term)
			bt += rand_word(true);
		size_t plen;
		long   pk = W(0, 4);
		if (pk <= 1)
			plen = (size_t) W(20, 60);
		else if (pk == 2)
			plen = 0;
		else if (pk == 3)
			plen = (size_t) W(5, 19);
		else
			plen = (size_t) W(1, 4);
		std::string pay = pay_make(plen, 5, 0, (uint32_t) it);
		if (!term && W(0, 1)) {
			// keep an unterminated backtrace unterminated: a payload
			// whose first byte has the high bit clear (or none at all)
			if (!pay.empty())
				pay[0] = (char) ((uint8_t) pay[0] & 0x7f);
			for (size_t i = 4; i < pay.size(); i += 4)
				pay[i] = (char) ((uint8_t) pay[i] & 0x7f);
		}
		std::string body = bt + pay;
		BtParse     bp   = bt_parse(body);
		std::string rest = body.substr(bp.pos);
		bool        deliver;
		if (has_dev)
			deliver = bp.terminated && bp.words <= T_front && bp.words + 1 <= T_end;
		else
			deliver = bp.terminated && bp.words <= T_end;
		sim_event("inject #%d words=%d term=%d payload=%zu -> parse: terminated=%d at word %d, expect %s", it,
		    nw, (int) term, pay.size(), (int) bp.terminated, bp.words, deliver ? "delivery" : "discard");
		if (!bp.terminated)
			sim_probe("c13_unterminated");
		if (bp.words > 16)
			sim_probe("c13_over_capacity");
		if (bp.terminated && !deliver)
			sim_probe("c13_raw_over_ttl");
		MUST(nng_sendmsg(evil, msg_from(body), 0));
		sim_quiesce(RAW_SETTLE);
		nng_msg *m   = NULL;
		bool     got = recv_nb(end, &m);
		if (got && !deliver)
			VIOL(bp.terminated ? "over_ttl_delivered" : "malformed_delivered",
			    "backtrace of %d words (%s) was delivered (T_front=%d T_end=%d dev=%d): body %s",
			    bp.words, bp.terminated ? "terminated" : "unterminated", T_front, T_end, (int) has_dev,
			    hexs(nng_msg_body(m), nng_msg_len(m)).c_str());
		if (!got && deliver)
			VIOL("request_lost",
			    "well-formed backtrace of %d words within the hop limits (T_front=%d T_end=%d dev=%d) "
			    "was not delivered",
			    bp.words, T_front, T_end, (int) has_dev);
		if (!got) {
			// nothing may come back either
			if (recv_nb(evil, &m))
				VIOL("spurious_reply", "raw peer received %zu bytes although nothing was delivered",
				    nng_msg_len(m));
			continue;
		}
		sim_stat("nontrivial", 1);
		sim_probe("c13_raw_delivered");
		std::string gb((const char *) nng_msg_body(m), nng_msg_len(m));
		if (gb != rest)
			VIOL("altered_body", "delivered body %s, sent %s", hexs(gb).c_str(), hexs(rest).c_str());
		std::string hdr((const char *) nng_msg_header(m), nng_msg_header_len(m));
		nng_msg_free(m);
		std::string want_bt = body.substr(0, bp.pos);
		if (end_raw) {
			// extended by exactly one entry (ours), the rest as sent
			size_t extra = has_dev ? 8 : 4;
			if (hdr.size() != want_bt.size() + extra || hdr.substr(extra) != want_bt ||
			    ((uint8_t) hdr[0] & 0x80) != 0)
				VIOL("backtrace_altered", "raw end sees header %s for injected backtrace %s",
				    hexs(hdr).c_str(), hexs(want_bt).c_str());
		}
		std::string rp  = pay_make((size_t) W(0, 40), 6, 1, (uint32_t) it);
		nng_msg    *rep = msg_from(rp);
		if (end_raw)
			MUST(nng_msg_header_append(rep, hdr.data(), hdr.size()));
		MUST(nng_sendmsg(end, rep, 0));
		sim_quiesce(RAW_SETTLE);
		if (!recv_nb(evil, &m))
			VIOL("reply_lost", "reply to a delivered request (backtrace %d words) did not come back",
			    bp.words);
		std::string rh((const char *) nng_msg_header(m), nng_msg_header_len(m));
		std::string rb((const char *) nng_msg_body(m), nng_msg_len(m));
		nng_msg_free(m);
		if (rh != want_bt)
			VIOL("backtrace_altered", "reply carries backtrace %s, request carried %s", hexs(rh).c_str(),
			    hexs(want_bt).c_str());
		if (rb != rp)
			VIOL("altered_body", "reply body %s, sent %s", hexs(rb).c_str(), hexs(rp).c_str());
		if (recv_nb(evil, &m))
			VIOL("spurious_reply", "second reply of %zu bytes", nng_msg_len(m));
	}
	// the redialling side first: a dialer that keeps knocking (every ms) on a
	// listener that is going away can starve the closing thread under PCT
	MUST(nng_socket_close(evil));
	if (has_dev)
		dev_stop(d);
	MUST(nng_socket_close(end));
}

static void
raw_reverse(Params *p, int fam, bool has_dev, long trmode)
{
	// the requester is cooked, or raw (then the harness sees every message
	// that gets through, whatever its id)
	bool       vraw = p->draw("victim_raw", 0, 2) == 2;
	nng_socket victim, evil;
	Dev        d;
	MUST(open_requester(fam, vraw, &victim));
	MUST(open_front_raw(fam, &evil));
	MUST(nng_socket_set_int(evil, NNG_OPT_MAXTTL, 15));
	set_reconn(victim);
	MUST(nng_socket_set_ms(victim, NNG_OPT_SENDTIMEO, 5000));
	MUST(nng_socket_set_ms(evil, NNG_OPT_SENDTIMEO, 5000));
	if (fam == FAM_SURV && !vraw)
		MUST(nng_socket_set_ms(victim, NNG_OPT_SURVEYOR_SURVEYTIME, 10000));
	std::vector<Link> links;
	Link              l;
	if (has_dev) {
		MUST(open_front_raw(fam, &d.front));
		MUST(open_back_raw(fam, &d.back));
		set_reconn(d.back);
		if (W(0, 1))
			MUST(nng_socket_set_int(d.back, NNG_OPT_MAXTTL, (int) W(1, 15)));
		l.up = victim, l.down = d.front, l.tr = pick_tr(trmode), l.down_listens = true;
		links.push_back(l);
		l.up = d.back, l.down = evil, l.tr = pick_tr(trmode), l.down_listens = true;
		links.push_back(l);
	} else {
		l.up = victim, l.down = evil, l.tr = pick_tr(trmode), l.down_listens = true;
		links.push_back(l);
	}
	wire_links(links, 300);
	sim_quiesce(RAW_SETTLE);
	if (has_dev) {
		dev_start(d);
		sim_quiesce(2000000);
		dev_check_running(d, 0);
	}
	sim_event("c13_raw reverse fam=%s dev=%d victim=%s", fam_name(fam), (int) has_dev, vraw ? "raw" : "cooked");
	int n = 3 + (int) W(0, 12);
	for (int it = 0; it < n; it++) {
		std::string p1  = pay_make((size_t) W(5, 60), 3, 0, (uint32_t) it);
		std::string rid = be32(0x80000000u | 0x00300000u | (uint32_t) it);
		nng_msg    *rq  = msg_from(p1);
		if (vraw)
			MUST(nng_msg_header_append(rq, rid.data(), 4));
		MUST(nng_sendmsg(victim, rq, 0));
		sim_quiesce(RAW_SETTLE);
		// find this round's request at the raw replier (a cooked REQ may have
		// re-sent an earlier one after we made its connection drop)
		std::string H;
		nng_msg    *m;
		while (recv_nb(evil, &m)) {
			Pay pl = pay_parse(nng_msg_body(m), nng_msg_len(m));
			if (!pl.ok || pl.origin != 3 || pl.stream != 0 || pl.serial > (uint32_t) it)
				VIOL("altered_body", "raw replier received a body nobody sent: %s",
				    hexs(nng_msg_body(m), nng_msg_len(m)).c_str());
			if (pl.serial == (uint32_t) it) {
				if (std::string((const char *) nng_msg_body(m), nng_msg_len(m)) != p1)
					VIOL("altered_body", "request body changed on the way");
				H.assign((const char *) nng_msg_header(m), nng_msg_header_len(m));
			} else {
				sim_probe("c13_req_resent_after_drop");
			}
			nng_msg_free(m);
		}
		if (H.empty())
			VIOL("request_lost", "request %d did not reach the raw replier (dev=%d)", it, (int) has_dev);
		size_t want_words = has_dev ? 3 : 2;
		if (H.size() != want_words * 4 || ((uint8_t) H[H.size() - 4] & 0x80) == 0)
			VIOL("backtrace_not_extended",
			    "request through %d device(s) arrives with header %s (expected %zu words ending in "
			    "the request id)",
			    (int) has_dev, hexs(H).c_str(), want_words);
		for (size_t i = 0; i + 4 < H.size(); i += 4)
			if (((uint8_t) H[i] & 0x80) != 0)
				VIOL("backtrace_not_extended", "hop entry with the high bit set in header %s",
				    hexs(H).c_str());
		std::string p2 = pay_make((size_t) W(0, 60), 4, 1, (uint32_t) it);
		std::string first = H.substr(0, 4), rest = H.substr(4);
		long        v     = W(0, 6);
		std::string body;
		switch (v) {
		case 0:
			body = rest + p2;
			break;
		case 1:
			body = "";
			break;
		case 2: {
			int nj = (int) W(1, 20);
			for (int i = 0; i < nj; i++)
				body += rand_word(false);
			if (nj > 16)
				sim_probe("c13_over_capacity");
			sim_probe("c13_unterminated");
			break;
		}
		case 3: {
			// an extra hop entry that names no pipe
			std::string junk = rest.substr(0, 4);
			junk[0]          = (char) (((uint8_t) junk[0] ^ 0x55) & 0x7f);
			junk[3]          = (char) ((uint8_t) junk[3] ^ 0xff);
			body             = junk + rest + p2;
			break;
		}
		case 4: {
			int nj = 13 + (int) W(0, 7);
			for (int i = 0; i < nj; i++)
				body += rand_word(false);
			body += rest + p2;
			if (nj + rest.size() / 4 > 16)
				sim_probe("c13_over_capacity");
			break;
		}
		case 5:
			// fewer than four bytes, with or without the "last entry" bit
			body = rest.substr(0, (size_t) W(1, 3));
			if (W(0, 1))
				body[0] = (char) ((uint8_t) body[0] & 0x7f);
			else
				body[0] = (char) ((uint8_t) body[0] | 0x80);
			sim_probe("c13_unterminated");
			break;
		default: {
			// longer than the header capacity, but every hop entry that a
			// device on the way looks at is the right one: the proper
			// entries first, then filler, then the id
			size_t have = rest.size() / 4; // proper entries incl. the id
			int    nj   = (int) (17 - have) + (int) W(0, 3);
			body        = rest.substr(0, rest.size() - 4);
			for (int i = 0; i < nj; i++)
				body += rand_word(false);
			body += rest.substr(rest.size() - 4) + p2;
			sim_probe("c13_over_capacity");
			break;
		}
		}
		sim_event("round %d: reply variant %ld (%zu bytes after the first hop entry)", it, v, body.size());
		nng_msg *rep = msg_from(body);
		MUST(nng_msg_header_append(rep, first.data(), 4));
		MUST(nng_sendmsg(evil, rep, 0));
		sim_quiesce(RAW_SETTLE);
		bool got = recv_nb(victim, &m);
		if (v == 0) {
			if (!got)
				VIOL("reply_lost", "well-formed reply did not reach the requester (dev=%d)", (int) has_dev);
			if (std::string((const char *) nng_msg_body(m), nng_msg_len(m)) != p2)
				VIOL("altered_body", "reply body %s, sent %s", hexs(nng_msg_body(m), nng_msg_len(m)).c_str(),
				    hexs(p2).c_str());
			if (vraw && std::string((const char *) nng_msg_header(m), nng_msg_header_len(m)) != rid)
				VIOL("backtrace_not_unwound", "raw requester sees reply header %s, its id is %s",
				    hexs(nng_msg_header(m), nng_msg_header_len(m)).c_str(), hexs(rid).c_str());
			nng_msg_free(m);
			sim_stat("nontrivial", 1);
			sim_probe("c13_raw_delivered");
		} else if (got && vraw && !has_dev && bt_parse(body).terminated && bt_parse(body).words <= 16) {
			// a raw requester with nothing in between takes any well-formed
			// backtrace that fits the header; ours was (variants 3, 4)
			BtParse bp = bt_parse(body);
			if (std::string((const char *) nng_msg_body(m), nng_msg_len(m)) != body.substr(bp.pos) ||
			    std::string((const char *) nng_msg_header(m), nng_msg_header_len(m)) != body.substr(0, bp.pos))
				VIOL("altered_body", "raw requester: header %s body %s for wire bytes %s",
				    hexs(nng_msg_header(m), nng_msg_header_len(m)).c_str(),
				    hexs(nng_msg_body(m), nng_msg_len(m)).c_str(), hexs(body).c_str());
			nng_msg_free(m);
			sim_probe("c13_raw_requester_takes_foreign_id");
		} else if (got) {
			VIOL("malformed_delivered", "reply variant %ld was delivered to the requester: header %s body %s",
			    v, hexs(nng_msg_header(m), nng_msg_header_len(m)).c_str(),
			    hexs(nng_msg_body(m), nng_msg_len(m)).c_str());
		} else {
			sim_stat("nontrivial", 1);
		}
	}
	MUST(nng_socket_close(victim));
	if (has_dev)
		dev_stop(d);
	MUST(nng_socket_close(evil));
}

static void
raw_run(Params *p)
{
	int  fam     = (int) p->draw("fam", 0, 1);
	bool reverse = p->draw("reverse", 0, 2) == 2;
	bool has_dev = p->draw("dev", 0, 2) != 0;
	long trmode  = p->draw("trmode", 0, 3);
	g_net_links_left = 1000;
	if (reverse)
		raw_reverse(p, fam, has_dev, trmode);
	else
		raw_forward(p, fam, has_dev, trmode);
}

SCENARIO(c13_raw, "C13", net_cfg, raw_run);

// ======================================================================
// c13_loop: rings of devices
// ======================================================================
struct Ring;
struct Hop { // harness-run forwarder or raw end replier
	Ring      *g;
	nng_socket from, to;
	bool       fwd; // request direction (hop-limited receive on 'from')
	int        ttl;
	Stoppable  st;
};
struct RingReq {
	Ring      *g;
	int        idx;
	bool       raw;
	nng_socket s;
	int        nmsg;
	int        replies;
};
struct Ring {
	int                    fam;
	size_t                 maxlen;
	int                    nreq;
	std::vector<Dev>       devs;
	std::map<uint32_t, int> last_words; // (origin<<16|serial) -> words at last lap
	std::map<uint32_t, int> laps;
	long                   passes;
	long                   end_deliveries;
};

static void
check_depth(const char *who, nng_msg *m, int ttl)
{
	size_t hl = nng_msg_header_len(m);
	// header = our pipe id + the words that were on the wire
	if (hl < 8 || hl % 4 != 0 || (int) (hl / 4) - 1 > ttl)
		VIOL("over_ttl_delivered", "%s (MAXTTL %d) received a request with a %zu-word header: %s", who, ttl,
		    hl / 4, hexs(nng_msg_header(m), hl).c_str());
}

static void
ring_hop(void *a)
{
	Hop  *h = (Hop *) a;
	Ring *g = h->g;
	for (;;) {
		nng_msg *m = stoppable_recv(&h->st, h->from, h->fwd ? "hop_fwd_recv" : "hop_back_recv");
		if (m == NULL)
			break;
		Pay pl = pay_parse(nng_msg_body(m), nng_msg_len(m));
		if (!pl.ok || pl.anon || pl.origin >= g->nreq)
			VIOL("altered_body", "harness hop received a body nobody sent: %s",
			    hexs(nng_msg_body(m), nng_msg_len(m)).c_str());
		if (h->fwd) {
			check_depth("harness hop", m, h->ttl);
			int      words = (int) (nng_msg_header_len(m) / 4);
			uint32_t key   = ((uint32_t) pl.origin << 16) | (pl.serial & 0xffff);
			g->passes++;
			int laps = ++g->laps[key];
			sim_event("hop: request %d/%u lap %d header words %d", pl.origin, pl.serial, laps, words);
			auto it = g->last_words.find(key);
			if (it != g->last_words.end() && words <= it->second)
				VIOL("loop_not_decaying",
				    "request %d/%u came round again with %d header words after %d: the backtrace "
				    "did not grow",
				    pl.origin, pl.serial, words, it->second);
			g->last_words[key] = words;
			if (laps > 1)
				sim_probe("c13_second_lap");
			if (laps > 16)
				VIOL("loop_alive", "request %d/%u passed the hop %d times", pl.origin, pl.serial, laps);
			sim_stat("nontrivial", 1);
		}
		int rv = nng_sendmsg(h->to, m, 0);
		if (rv != 0) {
			nng_msg_free(m);
			sim_probe("c13_hop_send_failed");
		}
	}
	h->st.done = 1;
}

static void
ring_end(void *a)
{
	Hop  *h = (Hop *) a;
	Ring *g = h->g;
	for (;;) {
		nng_msg *m = stoppable_recv(&h->st, h->from, "end_recv");
		if (m == NULL)
			break;
		size_t len = nng_msg_len(m);
		Pay    pl  = pay_parse(nng_msg_body(m), len);
		if (!pl.ok || pl.anon || pl.origin >= g->nreq || pl.stream != 0)
			VIOL("altered_body", "raw end received a body nobody sent: %s",
			    hexs(nng_msg_body(m), len).c_str());
		check_depth("raw end", m, h->ttl);
		g->end_deliveries++;
		sim_event("end: request %d/%u header words %zu", pl.origin, pl.serial, nng_msg_header_len(m) / 4);
		if (nng_msg_header_len(m) / 4 > 3)
			sim_probe("c13_end_after_lap");
		// answer in place: same header, new body
		std::string rb = pay_make(len, pl.origin, 1, pl.serial);
		nng_msg_clear(m);
		MUST(nng_msg_append(m, rb.data(), rb.size()));
		int rv = nng_sendmsg(h->from, m, 0);
		if (rv != 0) {
			nng_msg_free(m);
			sim_probe("c13_hop_send_failed");
		}
		sim_stat("nontrivial", 1);
	}
	h->st.done = 1;
}

static void
ring_requester(void *a)
{
	RingReq *r = (RingReq *) a;
	Ring    *g = r->g;
	for (int i = 0; i < r->nmsg; i++) {
		size_t      len  = W(0, 3) == 0 ? (size_t) W(5, 19) : (size_t) W(20, 200);
		if (len > g->maxlen)
			len = g->maxlen;
		nng_msg    *m    = msg_from(pay_make(len, r->idx, 0, (uint32_t) i));
		uint32_t    rid  = 0x80000000u | ((uint32_t) r->idx << 20) | (uint32_t) i;
		if (r->raw)
			MUST(nng_msg_header_append_u32(m, rid));
		sim_event("ring requester %d send serial=%d", r->idx, i);
		int srv = nng_sendmsg(r->s, m, 0);
		if (srv != 0) {
			// a congested ring may push back on the injector; not C13's business
			nng_msg_free(m);
			sim_probe("c13_ring_send_failed");
			continue;
		}
		// collect whatever comes back for a while
		int rounds = r->raw || g->fam == FAM_SURV ? 1 + (int) W(0, 3) : 1;
		for (int k = 0; k < rounds; k++) {
			nng_msg *rm = NULL;
			if (nng_recvmsg(r->s, &rm, 0) != 0)
				break;
			Pay pl = pay_parse(nng_msg_body(rm), nng_msg_len(rm));
			if (!pl.ok || pl.anon || pl.stream != 1)
				VIOL("altered_body", "ring requester %d received a body no replier sent: %s", r->idx,
				    hexs(nng_msg_body(rm), nng_msg_len(rm)).c_str());
			if (pl.origin != r->idx)
				VIOL("misrouted_reply", "ring requester %d received the reply to requester %d's %u",
				    r->idx, pl.origin, pl.serial);
			if (r->raw) {
				size_t      hl = nng_msg_header_len(rm);
				std::string h((const char *) nng_msg_header(rm), hl);
				if (hl != 4 || ((uint8_t) h[0] & 0x80) == 0 ||
				    (((uint8_t) h[0] & 0x7f) << 4 | ((uint8_t) h[1] >> 4)) != r->idx)
					VIOL("backtrace_not_unwound", "raw ring requester %d: reply header %s", r->idx,
					    hexs(h).c_str());
			}
			nng_msg_free(rm);
			r->replies++;
			sim_probe("c13_ring_reply");
		}
	}
}

static void
loop_run(Params *p)
{
	Ring g;
	g.maxlen         = (size_t) p->i("c13_maxlen", 6000);
	// a message laps a ring up to 15 times with a growing header: at most
	// one link of the ring on a finely segmented network
	g_net_links_left = (int) p->i("c13_maxnet", 1000);
	if (g_net_links_left <= 4)
		g_net_links_left = 1;
	if (g.maxlen > 200)
		g.maxlen = 200;
	g.fam            = (int) p->draw("fam", 0, 1);
	int  m           = 1 + (int) W(0, 2);
	bool has_hop     = p->draw("hop", 0, 2) != 2;
	bool has_end     = W(0, 2) != 0;
	long trmode      = p->draw("trmode", 0, 1);
	g.nreq           = 1 + (int) W(0, 1);
	g.passes         = 0;
	g.end_deliveries = 0;
	g.devs.resize((size_t) m);
	std::string ttls;
	for (auto &d : g.devs) {
		MUST(open_front_raw(g.fam, &d.front));
		MUST(open_back_raw(g.fam, &d.back));
		if (W(0, 1))
			MUST(nng_socket_set_int(d.front, NNG_OPT_MAXTTL, (int) W(1, 15)));
		d.tf = get_ttl(d.front);
		ttls += " " + std::to_string(d.tf);
	}
	Hop hf, hb, he;
	hf.g = hb.g = he.g = &g;
	if (has_hop) {
		MUST(open_front_raw(g.fam, &hf.from));
		MUST(open_back_raw(g.fam, &hf.to));
		if (W(0, 1))
			MUST(nng_socket_set_int(hf.from, NNG_OPT_MAXTTL, (int) W(1, 15)));
		hf.ttl = get_ttl(hf.from);
		hf.fwd = true;
		hb.from = hf.to;
		hb.to   = hf.from;
		hb.fwd  = false;
		hb.ttl  = 0;
		MUST(nng_socket_set_ms(hf.from, NNG_OPT_SENDTIMEO, 1000));
		MUST(nng_socket_set_ms(hf.to, NNG_OPT_SENDTIMEO, 1000));
		ttls += " H" + std::to_string(hf.ttl);
	}
	if (has_end) {
		MUST(open_front_raw(g.fam, &he.from));
		if (W(0, 1))
			MUST(nng_socket_set_int(he.from, NNG_OPT_MAXTTL, (int) W(1, 15)));
		he.ttl = get_ttl(he.from);
		MUST(nng_socket_set_ms(he.from, NNG_OPT_SENDTIMEO, 1000));
		ttls += " E" + std::to_string(he.ttl);
	}
	std::vector<RingReq *> reqs;
	for (int i = 0; i < g.nreq; i++) {
		RingReq *r = new RingReq();
		r->g       = &g;
		r->idx     = i;
		r->raw     = W(0, 1) != 0;
		r->nmsg    = 1 + (int) W(0, 4);
		r->replies = 0;
		MUST(open_requester(g.fam, r->raw, &r->s));
		MUST(nng_socket_set_ms(r->s, NNG_OPT_RECVTIMEO, 100 + (int) W(0, 400)));
		MUST(nng_socket_set_ms(r->s, NNG_OPT_SENDTIMEO, 5000));
		reqs.push_back(r);
	}
	sim_event("c13_loop fam=%s devices=%d hop=%d end=%d nreq=%d ttl:%s", fam_name(g.fam), m, (int) has_hop,
	    (int) has_end, g.nreq, ttls.c_str());
	std::vector<Link> links;
	auto add = [&](nng_socket up, nng_socket down) {
		Link l;
		l.up = up, l.down = down, l.tr = pick_tr(trmode), l.down_listens = W(0, 1) == 0;
		links.push_back(l);
	};
	for (int i = 0; i + 1 < m; i++)
		add(g.devs[(size_t) i].back, g.devs[(size_t) i + 1].front);
	if (has_hop) {
		add(g.devs[(size_t) m - 1].back, hf.from);
		add(hf.to, g.devs[0].front);
	} else {
		add(g.devs[(size_t) m - 1].back, g.devs[0].front);
	}
	for (auto r : reqs)
		add(r->s, g.devs[(size_t) W(0, m - 1)].front);
	if (has_end) {
		long where = W(0, m - (has_hop ? 0 : 1));
		add(where == m ? hf.to : g.devs[(size_t) where].back, he.from);
	}
	wire_links(links, 400);
	sim_quiesce(20000000);
	for (auto &d : g.devs)
		dev_start(d);
	sim_quiesce(2000000);
	for (int i = 0; i < m; i++)
		dev_check_running(g.devs[(size_t) i], i);
	if (has_hop) {
		sim_spawn("hop_fwd", ring_hop, &hf, 0);
		sim_spawn("hop_back", ring_hop, &hb, 0);
	}
	if (has_end)
		sim_spawn("end", ring_end, &he, 0);
	std::vector<int> rt;
	for (auto r : reqs)
		rt.push_back(sim_spawn("ring_req", ring_requester, r, 0));
	for (int t : rt)
		sim_join(t);
	// "forwarding loops always die out": with injection stopped the ring
	// falls silent, and stays silent
	uint64_t t0 = sim_now_ns(), s0 = sim_stall_total_ns();
	sim_quiesce(50000000);
	uint64_t dt = sim_now_ns() - t0, ds = sim_stall_total_ns() - s0;
	if (dt > ds && dt - ds > 20000000000ull)
		VIOL("loop_alive", "ring still busy %llu ms after the last request was injected",
		    (unsigned long long) ((dt - ds) / 1000000));
	long p0 = g.passes, e0 = g.end_deliveries;
	sim_sleep_ms(300);
	sim_quiesce(50000000);
	if (g.passes != p0 || g.end_deliveries != e0)
		VIOL("loop_alive", "traffic resumed in a quiet ring (%ld more laps, %ld more deliveries)",
		    g.passes - p0, g.end_deliveries - e0);
	if (!has_hop && !has_end)
		sim_stat("nontrivial", 1); // termination of a blind ring is the whole check
	if (has_hop) {
		stop_task(&hf.st);
		stop_task(&hb.st);
	}
	if (has_end)
		stop_task(&he.st);
	sim_join_all();
	for (auto &d : g.devs)
		dev_stop(d);
	if (has_hop) {
		MUST(nng_socket_close(hf.from));
		MUST(nng_socket_close(hf.to));
	}
	if (has_end)
		MUST(nng_socket_close(he.from));
	for (auto r : reqs) {
		MUST(nng_socket_close(r->s));
		delete r;
	}
}

SCENARIO(c13_loop, "C13", net_cfg, loop_run);

} // namespace
