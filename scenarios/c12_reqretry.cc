// C12 REQ keeps retrying until answered; no hang when retry is disabled.
//
// Three scenarios share one world (a REQ socket with 1..4 clients, 1..2
// repliers that are nng REP sockets or raw TCP peers, a generated fault
// sequence, then a fault-free tail):
//   c12_connloss  resend enabled and long; only connection losses the REQ can
//                 see.  "retransmitted whenever the connection is lost": the
//                 reply must arrive without waiting for the resend time.
//   c12_resend    resend enabled and short; requests/replies also vanish or
//                 are delayed silently.  "retransmitted whenever RESENDTIME
//                 elapses ... the receive eventually succeeds".
//   c12_noretry   resend disabled: at most once on the wire, ECONNRESET
//                 instead of waiting forever.
// c12_nettest is a self test of the simnet connection-fault controls.
#include "../harness/util.h"

#include <arpa/inet.h>
#include <errno.h>
#include <netinet/in.h>
#include <sys/socket.h>
#include <unistd.h>

#include <set>

namespace {

enum { MODE_CONNLOSS = 0, MODE_RESEND = 1, MODE_NORETRY = 2 };
enum { K_NNG = 0, K_RAW = 1 };

#define IP10(x) ((uint32_t) ((10u << 24) | (uint32_t) (x)))
#define IP_DIALER IP10(250) // simnet: unbound sockets connecting to 10.x live here
#define HOLE_CONNECT_NS (127ull * 1000000000ull)
#define MS 1000000ull

static inline uint32_t
be32(const uint8_t *p)
{
	return ((uint32_t) p[0] << 24) | ((uint32_t) p[1] << 16) | ((uint32_t) p[2] << 8) | p[3];
}
static inline void
put_be64(uint8_t *p, uint64_t v)
{
	for (int i = 7; i >= 0; i--) {
		p[i] = (uint8_t) v;
		v >>= 8;
	}
}
static inline uint64_t
get_be64(const uint8_t *p)
{
	uint64_t v = 0;
	for (int i = 0; i < 8; i++)
		v = (v << 8) | p[i];
	return v;
}

// replier behaviour on one received request (0 = answer normally)
enum {
	RA_ANSWER = 0,
	RA_DROP,          // read it, never answer (silent)
	RA_DELAY,         // answer late
	RA_CLOSE_NOREPLY, // lose the connection instead of answering
	RA_REPLY_CLOSE,   // answer, then lose the connection at once
	RA_MIDREAD_RESET, // raw only: reset after reading part of the request
	RA_PARTIAL_REPLY, // raw only: write part of the reply, then reset
	RA_WRONG_ID,      // raw only: answer with a stale request id (discarded by REQ)
	RA_FIN_NOREPLY,   // raw only: orderly close instead of answering
	RA_N
};

struct World;
struct Replier;

struct RawConn {
	Replier *r;
	int      fd;
	int      cid;
	bool     dead; // set by the owning task once it gave up the fd, or by
	               // raw_down() to tell the owner to do so (only the owner
	               // touches the fd: descriptors are reused)
};

struct Replier {
	World      *w;
	int         idx;
	int         kind;
	int         tr;
	uint32_t    ip;
	uint16_t    port;
	std::string url;
	// nng
	nng_socket   rep;
	bool         rep_open;
	int          gen;
	// raw
	int                     lfd;
	std::vector<RawConn *>  conns;
	bool                    raw_up;
	int                     raw_gen;
	// behaviour budget
	int  behav_left;
	bool part_on, hole_on;
};

struct Client {
	World       *w;
	int          idx;
	bool         is_sock;
	nng_ctx      ctx;
	nng_duration resend; // effective (ms) or NNG_DURATION_INFINITE
	int          nreq;
	uint32_t     next_serial;
	volatile int finished;
	// request being waited for
	bool     active, tracked;
	bool     sending; // its send has not completed yet (no pipe took it)
	uint32_t cur_serial;
	uint64_t t_ref, stall_ref; // submit time / stall total at submit
	uint64_t loss_ref;         // connection-loss counter at submit
};

struct WireRec {
	uint32_t id;       // request id it travelled with (raw repliers only)
	int      count;    // times a replier received / read it completely
	int      partial;  // raw: times the id was read and the rest cut short
	bool     doomed;   // its only transmission was killed unanswered
	bool     answered; // some replier wrote a complete answer
};

struct World {
	int          mode;
	nng_socket   req;
	int          dir; // 0 REQ dials, 1 REQ listens
	nng_duration resend, tick;
	nng_duration reconn_min, reconn_max;
	std::vector<Replier *> reps;
	std::vector<Client *>  clients;
	std::vector<nng_dialer> dialers;
	nng_listener req_lst;
	std::string  req_url;
	std::set<uint32_t> pipes; // live REQ pipes
	std::map<std::pair<int, uint32_t>, WireRec> wire;
	std::vector<uint32_t> stale_ids; // ids of requests that are over
	volatile int faults_over;
	uint64_t     t_over, stall_over;
	uint64_t     hole_hit_at; // last connect() swallowed by a partition/black hole
	uint64_t     loss_events; // injected connection losses so far
	uint64_t     bound_ns;
	uint64_t     max_delay_ms;
	size_t       max_len;
	int          inflight_faults;
	bool         hole_ok;
	bool         silent_only; // c12_resend: no fault the REQ could notice
};

static World *g_w;

static WireRec &
wire_of(World *w, int origin, uint32_t serial)
{
	return w->wire[std::make_pair(origin, serial)];
}

static int
outstanding_tracked(World *w)
{
	int n = 0;
	for (auto c : w->clients)
		if (c->active && c->tracked)
			n++;
	return n;
}

static void
note_fault(World *w, const char *what, bool loss)
{
	if (loss)
		w->loss_events++;
	if (outstanding_tracked(w) > 0) {
		w->inflight_faults++;
		sim_fault_fired(what, 1);
	} else {
		sim_fault_fired(what, 0);
	}
}

// a request was seen by a replier
static void
wire_seen(World *w, const Tag &t, bool complete)
{
	WireRec &wr = wire_of(w, t.origin, t.serial);
	if (complete)
		wr.count++;
	else
		wr.partial++;
	int n = wr.count + wr.partial;
	if (n > 1) {
		sim_stat("retransmissions_seen", 1);
		int ci = (int) t.origin - 1;
		if (ci >= 0 && ci < (int) w->clients.size() &&
		    w->clients[(size_t) ci]->resend == NNG_DURATION_INFINITE)
			VIOL("noretry_sent_twice",
			    "resending disabled, but request c%d/#%u reached the repliers %d times", ci, t.serial, n);
	}
}

// ------------------------------------------------------------------------
// raw replier (TCP, SP framing: 8 byte hello, then u64 length + payload)
static int
raw_listen(Replier *r)
{
	int fd = simnet_socket(AF_INET, SOCK_STREAM);
	if (fd < 0)
		return -1;
	struct sockaddr_in sin;
	memset(&sin, 0, sizeof(sin));
	sin.sin_family      = AF_INET;
	sin.sin_addr.s_addr = htonl(r->ip);
	sin.sin_port        = htons(r->port);
	if (bind(fd, (struct sockaddr *) &sin, sizeof(sin)) != 0 || listen(fd, 16) != 0) {
		close(fd);
		return -1;
	}
	return fd;
}

static int
draw_behaviour(Replier *r)
{
	World *w = r->w;
	if (w->faults_over || r->behav_left <= 0)
		return RA_ANSWER;
	if (F(0, 2) != 0)
		return RA_ANSWER;
	int a;
	if (w->mode == MODE_CONNLOSS) {
		static const int m[] = { RA_CLOSE_NOREPLY, RA_REPLY_CLOSE, RA_MIDREAD_RESET, RA_PARTIAL_REPLY,
			RA_FIN_NOREPLY };
		a = m[F(0, 4)];
	} else if (w->mode == MODE_RESEND && w->silent_only) {
		static const int m[] = { RA_DROP, RA_DELAY, RA_WRONG_ID, RA_DROP };
		a = m[F(0, 3)];
	} else if (w->mode == MODE_RESEND) {
		static const int m[] = { RA_DROP, RA_DELAY, RA_CLOSE_NOREPLY, RA_REPLY_CLOSE, RA_WRONG_ID,
			RA_MIDREAD_RESET, RA_PARTIAL_REPLY, RA_FIN_NOREPLY, RA_DROP };
		a = m[F(0, 8)];
	} else {
		static const int m[] = { RA_CLOSE_NOREPLY, RA_DELAY, RA_REPLY_CLOSE, RA_MIDREAD_RESET, RA_PARTIAL_REPLY,
			RA_FIN_NOREPLY };
		a = m[F(0, 5)];
	}
	if (r->kind == K_NNG && a >= RA_MIDREAD_RESET)
		a = a == RA_WRONG_ID ? RA_DROP : RA_CLOSE_NOREPLY;
	r->behav_left--;
	return a;
}

static const char *
ra_name(int a)
{
	static const char *n[] = { "answer", "drop", "delay", "close_noreply", "reply_close", "midread_reset",
		"partial_reply", "wrong_id", "fin_noreply" };
	return a >= 0 && a < RA_N ? n[a] : "?";
}

static void
raw_conn_end(RawConn *rc, bool reset)
{
	if (rc->fd < 0)
		return;
	rc->dead = true;
	if (reset)
		simnet_reset(rc->fd);
	else
		close(rc->fd);
	rc->fd = -1;
}
// owner noticed that raw_down() wants the connection gone
#define RAW_CHECK_KILLED()                    \
	do {                                  \
		if (rc->dead) {               \
			raw_conn_end(rc, true); \
			return;               \
		}                             \
	} while (0)

static void
raw_conn_task(void *a)
{
	RawConn *rc = (RawConn *) a;
	Replier *r  = rc->r;
	World   *w  = r->w;
	int      fd = rc->fd;
	uint8_t  hello[8] = { 0, 'S', 'P', 0, 0, 0x31, 0, 0 };
	uint8_t  peer[8];
	if (simnet_write_full(fd, hello, 8, 0) != 8 || simnet_read_full(fd, peer, 8, 0) != 8 || rc->dead) {
		raw_conn_end(rc, rc->dead);
		return;
	}
	sim_event("raw%d conn%d up", r->idx, rc->cid);
	for (;;) {
		uint8_t lenb[8];
		long    n = simnet_read_full(fd, lenb, 8, 0);
		RAW_CHECK_KILLED();
		if (n != 8) {
			sim_event("raw%d conn%d closed by peer", r->idx, rc->cid);
			raw_conn_end(rc, false);
			return;
		}
		uint64_t len = get_be64(lenb);
		if (len < 4 || len > (1u << 22))
			h_fatal("raw replier: implausible frame length %llu", (unsigned long long) len);
		int act = draw_behaviour(r);
		std::vector<uint8_t> buf((size_t) len);
		if (act == RA_MIDREAD_RESET) {
			size_t k = (size_t) F(0, (long) len - 1);
			long   g = k ? simnet_read_full(fd, buf.data(), k, 0) : 0;
			RAW_CHECK_KILLED();
			if (g >= 4 + TAG_MIN) {
				// enough to know who it is (header is at the front of the tag)
				Tag t;
				t.origin = (uint16_t) ((buf[8] << 8) | buf[9]);
				t.serial = be32(buf.data() + 12);
				if (t.origin < 1 || t.origin > w->clients.size())
					VIOL("request_altered", "raw replier %d read a request from unknown client %d",
					    r->idx, (int) t.origin - 1);
				wire_seen(w, t, false);
				WireRec &wr = wire_of(w, t.origin, t.serial);
				if (w->clients[(size_t) t.origin - 1]->resend == NNG_DURATION_INFINITE && !wr.answered)
					wr.doomed = true;
			}
			sim_event("raw%d conn%d: reset after %ld of %llu request bytes", r->idx, rc->cid, g,
			    (unsigned long long) len);
			sim_probe("c12_midread_reset");
			note_fault(w, "raw_midread_reset", true);
			raw_conn_end(rc, true);
			return;
		}
		n = simnet_read_full(fd, buf.data(), (size_t) len, 0);
		RAW_CHECK_KILLED();
		if (n != (long) len) {
			sim_event("raw%d conn%d closed by peer inside a frame", r->idx, rc->cid);
			raw_conn_end(rc, false);
			return;
		}
		uint32_t id = be32(buf.data());
		Tag      t  = tag_parse(buf.data() + 4, (size_t) len - 4);
		if (!(id & 0x80000000u) || !t.ok || t.origin < 1 || t.origin > w->clients.size())
			VIOL("request_altered", "raw replier %d read a malformed request (id %08x len %llu)", r->idx, id,
			    (unsigned long long) len);
		wire_seen(w, t, true);
		WireRec &wr      = wire_of(w, t.origin, t.serial);
		bool     noretry = w->clients[(size_t) t.origin - 1]->resend == NNG_DURATION_INFINITE;
		wr.id            = id;
		sim_event("raw%d conn%d: request c%d/#%u id %08x -> %s", r->idx, rc->cid, t.origin - 1, t.serial, id,
		    ra_name(act));
		std::vector<uint8_t> out(8 + (size_t) len);
		put_be64(out.data(), len);
		memcpy(out.data() + 8, buf.data(), (size_t) len);
		switch (act) {
		case RA_DROP:
			note_fault(w, "raw_drop", false);
			sim_probe("c12_request_dropped");
			break;
		case RA_WRONG_ID: {
			// an id nobody is waiting for: that of a finished request, or
			// one far away from the sequentially allocated live ones
			uint32_t bad = (id + 0x20000000u) | 0x80000000u;
			if (!w->stale_ids.empty() && F(0, 1))
				bad = w->stale_ids[(size_t) F(0, (long) w->stale_ids.size() - 1)];
			out[8]  = (uint8_t) (bad >> 24);
			out[9]  = (uint8_t) (bad >> 16);
			out[10] = (uint8_t) (bad >> 8);
			out[11] = (uint8_t) bad;
			note_fault(w, "raw_wrong_id_reply", false);
			sim_probe("c12_stale_id_reply");
			if (simnet_write_full(fd, out.data(), out.size(), 0) != (long) out.size()) {
				raw_conn_end(rc, rc->dead);
				return;
			}
			RAW_CHECK_KILLED();
			break;
		}
		case RA_CLOSE_NOREPLY:
		case RA_FIN_NOREPLY:
			if (noretry && !wr.answered)
				wr.doomed = true;
			note_fault(w, act == RA_FIN_NOREPLY ? "raw_fin_noreply" : "raw_reset_noreply", true);
			sim_probe("c12_lost_after_read");
			raw_conn_end(rc, act == RA_CLOSE_NOREPLY);
			return;
		case RA_PARTIAL_REPLY: {
			size_t k = (size_t) F(1, (long) out.size() - 1);
			(void) simnet_write_full(fd, out.data(), k, 0);
			RAW_CHECK_KILLED();
			note_fault(w, "raw_partial_reply_reset", true);
			sim_probe("c12_partial_reply");
			// part of a reply is not a reply
			if (noretry && !wr.answered)
				wr.doomed = true;
			raw_conn_end(rc, true);
			return;
		}
		case RA_DELAY: {
			uint64_t d = (uint64_t) F(1, (long) w->max_delay_ms);
			note_fault(w, "raw_delay", false);
			sim_probe("c12_reply_delayed");
			sim_sleep_ms(d);
			RAW_CHECK_KILLED();
		}
			// fallthrough
		default:
			wr.answered = true;
			if (simnet_write_full(fd, out.data(), out.size(), 0) != (long) out.size()) {
				raw_conn_end(rc, rc->dead);
				return;
			}
			RAW_CHECK_KILLED();
			if (act == RA_REPLY_CLOSE) {
				note_fault(w, "raw_reply_then_reset", true);
				sim_probe("c12_lost_after_reply");
				raw_conn_end(rc, true);
				return;
			}
			break;
		}
	}
}

struct RawAcc {
	Replier *r;
	int      gen, lfd;
};

static void
raw_accept_task(void *a)
{
	RawAcc  *ra  = (RawAcc *) a;
	Replier *r   = ra->r;
	int      gen = ra->gen;
	int      lfd = ra->lfd; // ours from now on
	delete ra;
	for (;;) {
		int fd = r->raw_gen == gen ? simnet_accept_blocking(lfd, 0) : -1;
		if (r->raw_gen != gen || !r->raw_up) {
			// raw_down() shut the listener down; we own the descriptor
			if (fd >= 0)
				simnet_reset(fd);
			close(lfd);
			return;
		}
		if (fd < 0) {
			sim_sleep_ms(1);
			continue;
		}
		RawConn *rc = new RawConn();
		rc->r       = r;
		rc->fd      = fd;
		rc->cid     = (int) r->conns.size();
		rc->dead    = false;
		r->conns.push_back(rc);
		sim_spawn("rawconn", raw_conn_task, rc, SIM_TASK_DAEMON);
	}
}

static void
raw_up(Replier *r)
{
	if (r->raw_up)
		return;
	// the previous accept task may not have released the address yet
	for (int i = 0; i < 200 && (r->lfd = raw_listen(r)) < 0; i++)
		sim_sleep_ns(200000);
	if (r->lfd < 0)
		h_fatal("raw replier %d cannot listen: errno %d", r->idx, errno);
	r->raw_up = true;
	r->raw_gen++;
	RawAcc *ra = new RawAcc();
	ra->r      = r;
	ra->gen    = r->raw_gen;
	ra->lfd    = r->lfd;
	sim_spawn("rawacc", raw_accept_task, ra, SIM_TASK_DAEMON);
}

static void
raw_down(Replier *r)
{
	if (!r->raw_up)
		return;
	// Wake the owners: accept() fails on a shut-down listener, connections
	// see a reset.  The shutdown comes first: it is the only call here that
	// can yield, and the accept task must not see the new generation (and
	// close the descriptor) while we are still inside it.
	if (r->lfd >= 0)
		shutdown(r->lfd, SHUT_RD);
	r->lfd    = -1;
	r->raw_up = false;
	r->raw_gen++;
	for (auto rc : r->conns)
		rc->dead = true;
	simnet_kill_conns_of(r->ip, r->port);
}

// ------------------------------------------------------------------------
// nng REP replier
struct RepInst {
	Replier   *r;
	nng_socket s;
};

static void
rep_app_task(void *a)
{
	RepInst *ri = (RepInst *) a;
	Replier *r  = ri->r;
	World   *w  = r->w;
	for (;;) {
		nng_msg *m  = NULL;
		int      rv = nng_recvmsg(ri->s, &m, 0);
		if (rv == NNG_ECLOSED)
			break;
		if (rv != 0)
			h_fatal("REP replier recv: %d", rv);
		Tag t = tag_parse((uint8_t *) nng_msg_body(m), nng_msg_len(m));
		if (!t.ok || t.origin < 1 || t.origin > w->clients.size())
			VIOL("request_altered", "REP replier %d received a corrupt request body", r->idx);
		wire_seen(w, t, true);
		WireRec &wr      = wire_of(w, t.origin, t.serial);
		bool     noretry = w->clients[(size_t) t.origin - 1]->resend == NNG_DURATION_INFINITE;
		int      act     = draw_behaviour(r);
		nng_pipe p       = nng_msg_get_pipe(m);
		sim_event("rep%d: request c%d/#%u on pipe %d -> %s", r->idx, t.origin - 1, t.serial, nng_pipe_id(p),
		    ra_name(act));
		if (act == RA_DROP) {
			note_fault(w, "rep_drop", false);
			sim_probe("c12_request_dropped");
			nng_msg_free(m);
			continue;
		}
		if (act == RA_CLOSE_NOREPLY) {
			if (noretry && !wr.answered)
				wr.doomed = true;
			note_fault(w, "rep_pipe_close_noreply", true);
			sim_probe("c12_lost_after_read");
			nng_pipe_close(p);
			nng_msg_free(m);
			continue;
		}
		if (act == RA_DELAY) {
			note_fault(w, "rep_delay", false);
			sim_probe("c12_reply_delayed");
			sim_sleep_ms((uint64_t) F(1, (long) w->max_delay_ms));
		}
		wr.answered = true;
		rv          = nng_sendmsg(ri->s, m, 0);
		if (rv != 0) {
			nng_msg_free(m);
			if (rv == NNG_ECLOSED)
				break;
			continue;
		}
		if (act == RA_REPLY_CLOSE) {
			note_fault(w, "rep_reply_then_pipe_close", true);
			sim_probe("c12_lost_after_reply");
			nng_pipe_close(p);
		}
	}
	delete ri;
}

static void
rep_up(Replier *r)
{
	World *w = r->w;
	if (r->rep_open)
		return;
	MUST(nng_rep0_open(&r->rep));
	MUST(nng_socket_set_ms(r->rep, NNG_OPT_RECONNMINT, w->reconn_min));
	MUST(nng_socket_set_ms(r->rep, NNG_OPT_RECONNMAXT, w->reconn_max));
	if (w->dir == 0) {
		int rv = -1;
		for (int i = 0; i < 50; i++) {
			rv = nng_listen(r->rep, r->url.c_str(), NULL, 0);
			if (rv != NNG_EADDRINUSE)
				break;
			sim_sleep_ms(1);
		}
		MUST(rv);
	} else {
		MUST(nng_dial(r->rep, w->req_url.c_str(), NULL, NNG_FLAG_NONBLOCK));
	}
	r->rep_open = true;
	RepInst *ri = new RepInst();
	ri->r       = r;
	ri->s       = r->rep;
	sim_spawn("repapp", rep_app_task, ri, 0);
}

static void
rep_down(Replier *r)
{
	if (!r->rep_open)
		return;
	r->rep_open = false;
	MUST(nng_socket_close(r->rep));
}

// ------------------------------------------------------------------------
static void
req_pipe_cb(nng_pipe p, nng_pipe_ev ev, void *arg)
{
	World *w = (World *) arg;
	if (ev == NNG_PIPE_EV_ADD_POST)
		w->pipes.insert((uint32_t) nng_pipe_id(p));
	else if (ev == NNG_PIPE_EV_REM_POST)
		w->pipes.erase((uint32_t) nng_pipe_id(p));
}

static void
connect_hook(const void *sa, unsigned salen, uint64_t now)
{
	World *w = g_w;
	if (w == NULL || salen < sizeof(struct sockaddr_in))
		return;
	const struct sockaddr_in *sin = (const struct sockaddr_in *) sa;
	if (sin->sin_family != AF_INET)
		return;
	uint32_t ip   = ntohl(sin->sin_addr.s_addr);
	uint16_t port = ntohs(sin->sin_port);
	for (auto r : w->reps) {
		if (r->ip == ip && r->port == port && (r->part_on || r->hole_on)) {
			w->hole_hit_at = now;
			sim_probe("c12_connect_into_hole");
		}
	}
}

// virtual time by which the current request of a client must be complete,
// counted from the later of its submission and the end of the fault phase
static bool
overdue(World *w, Client *c, uint64_t now, uint64_t *late_by)
{
	if (!w->faults_over)
		return false;
	uint64_t ref = c->t_ref, st = c->stall_ref;
	if (w->t_over > ref) {
		ref = w->t_over;
		st  = w->stall_over;
	}
	uint64_t dl = ref + w->bound_ns;
	if (w->hole_hit_at != 0 && w->hole_hit_at + HOLE_CONNECT_NS + w->bound_ns > dl)
		dl = w->hole_hit_at + HOLE_CONNECT_NS + w->bound_ns;
	dl += sim_stall_total_ns() - st;
	if (now > dl) {
		*late_by = now - dl;
		return true;
	}
	return false;
}

static void
submit_send(Client *c, UAio *u, nng_msg *m)
{
	nng_aio_set_msg(u->aio, m);
	nng_aio_set_timeout(u->aio, NNG_DURATION_INFINITE);
	u->arm("req_send");
	if (c->is_sock)
		nng_socket_send(c->w->req, u->aio);
	else
		nng_ctx_send(c->ctx, u->aio);
}

static void
submit_recv(Client *c, UAio *u, nng_duration tmo)
{
	nng_aio_set_timeout(u->aio, tmo);
	u->arm("req_recv");
	if (c->is_sock)
		nng_socket_recv(c->w->req, u->aio);
	else
		nng_ctx_recv(c->ctx, u->aio);
}

// returns true if the aio carries a reply to (client, serial); violation if
// it carries anything else
static void
check_reply(Client *c, UAio *u, uint32_t serial)
{
	nng_msg *m = nng_aio_get_msg(u->aio);
	if (m == NULL)
		VIOL("wrong_reply", "client %d: receive succeeded without a message", c->idx);
	Tag t = tag_parse((uint8_t *) nng_msg_body(m), nng_msg_len(m));
	bool ok = t.ok && t.origin == (uint16_t) (c->idx + 1) && t.serial == serial;
	uint32_t gs = t.serial;
	int      go = t.origin;
	nng_msg_free(m);
	if (!ok)
		VIOL("wrong_reply",
		    "client %d: receive for request #%u returned a message that is not a reply to it "
		    "(valid=%d origin=%d serial=%u)",
		    c->idx, serial, (int) t.ok, go - 1, gs);
}

enum { OP_NORMAL = 0, OP_EARLY_RECV, OP_REPLACE, OP_CANCEL, OP_TIMEOUT };

static void
client_task(void *a)
{
	Client *c = (Client *) a;
	World  *w = c->w;
	for (int k = 0; k < c->nreq; k++) {
		int  op;
		long sel = W(0, 11);
		if (sel <= 6)
			op = OP_NORMAL;
		else if (sel <= 8)
			op = OP_EARLY_RECV;
		else if (w->mode == MODE_NORETRY)
			op = OP_NORMAL;
		else
			op = sel == 9 ? OP_REPLACE : sel == 10 ? OP_CANCEL : OP_TIMEOUT;
		if (W(0, 2) == 0)
			sim_sleep_ns((uint64_t) W(0, 3000) * 1000);
		uint32_t serial = c->next_serial++;
		size_t   len    = (size_t) W(TAG_MIN, 120);
		if (W(0, 5) == 0)
			len = (size_t) W(TAG_MIN, (long) w->max_len);
		nng_msg *m = tag_msg(len, (uint16_t) (c->idx + 1), 0, serial);
		if (m == NULL)
			h_fatal("tag_msg");
		UAio *su = new UAio(), *ru = new UAio();
		sim_event("c%d: request #%u len %zu op %d", c->idx, serial, len, op);
		c->cur_serial = serial;
		c->t_ref      = sim_now_ns();
		c->stall_ref  = sim_stall_total_ns();
		c->loss_ref   = w->loss_events;
		c->tracked    = op == OP_NORMAL || op == OP_EARLY_RECV;
		c->sending    = true;
		c->active     = true;
		submit_send(c, su, m);
		if (op == OP_EARLY_RECV)
			submit_recv(c, ru, NNG_DURATION_INFINITE);
		su->wait(0);
		c->sending = false;
		if (su->result != 0)
			h_fatal("client %d: send of request #%u failed: %d", c->idx, serial, su->result);
		if (op == OP_REPLACE) {
			submit_recv(c, ru, NNG_DURATION_INFINITE);
			sim_sleep_ns((uint64_t) W(0, 2000) * 1000);
			// a new request replaces the outstanding one
			uint32_t s2 = c->next_serial++;
			nng_msg *m2 = tag_msg(len, (uint16_t) (c->idx + 1), 0, s2);
			UAio    *s2u = new UAio();
			sim_event("c%d: request #%u replaces #%u", c->idx, s2, serial);
			c->cur_serial = s2;
			c->t_ref      = sim_now_ns();
			c->stall_ref  = sim_stall_total_ns();
			c->sending    = true;
			submit_send(c, s2u, m2);
			ru->wait(0); // old receive: reply (if it won the race) or ECANCELED
			if (ru->result == 0)
				check_reply(c, ru, serial);
			else if (ru->result != NNG_ECANCELED)
				VIOL("recv_failed", "client %d: replaced receive ended with %d (%s)", c->idx, ru->result,
				    nng_strerror(ru->result));
			s2u->wait(0);
			c->sending = false;
			if (s2u->result != 0)
				h_fatal("client %d: send of request #%u failed: %d", c->idx, s2, s2u->result);
			delete s2u;
			delete ru;
			ru            = new UAio();
			serial        = s2;
			c->cur_serial = s2;
			c->t_ref      = sim_now_ns();
			c->stall_ref  = sim_stall_total_ns();
			c->loss_ref   = w->loss_events;
			c->tracked    = true;
			sim_probe("c12_replaced");
			submit_recv(c, ru, NNG_DURATION_INFINITE);
		} else if (op == OP_CANCEL) {
			submit_recv(c, ru, NNG_DURATION_INFINITE);
			sim_sleep_ns((uint64_t) W(0, 3000) * 1000);
			nng_aio_cancel(ru->aio);
			sim_probe("c12_cancelled");
		} else if (op == OP_TIMEOUT) {
			submit_recv(c, ru, (nng_duration) W(1, 30));
			sim_probe("c12_recv_timeout_op");
		} else if (op == OP_NORMAL) {
			submit_recv(c, ru, NNG_DURATION_INFINITE);
		}
		ru->wait(0);
		uint64_t now = ru->t_done_ns;
		int      rv  = ru->result;
		sim_event("c%d: receive for #%u -> %d after %llu us", c->idx, serial, rv,
		    (unsigned long long) ((now - c->t_ref) / 1000));
		if (rv == 0) {
			check_reply(c, ru, serial);
			sim_stat("replies", 1);
		} else if (op == OP_CANCEL && rv == NNG_ECANCELED) {
		} else if (op == OP_TIMEOUT && rv == NNG_ETIMEDOUT) {
		} else if (c->resend == NNG_DURATION_INFINITE && rv == NNG_ECONNRESET) {
			sim_probe("c12_noretry_econnreset");
			if (w->loss_events == c->loss_ref)
				sim_probe("c12_noretry_reset_without_injected_loss");
		} else {
			VIOL("recv_failed",
			    "client %d: receive for request #%u failed with %d (%s); resend %s, no cancel, no "
			    "replacement, no receive timeout",
			    c->idx, serial, rv, nng_strerror((nng_err) rv),
			    c->resend == NNG_DURATION_INFINITE ? "disabled" : "enabled");
		}
		if (c->resend == NNG_DURATION_INFINITE && c->tracked) {
			WireRec &wr = wire_of(w, c->idx + 1, serial);
			if (wr.doomed) {
				sim_probe("c12_noretry_doomed");
				if (rv != NNG_ECONNRESET)
					VIOL("noretry_no_econnreset",
					    "client %d: request #%u went out once, its connection was lost "
					    "unanswered, but the receive returned %d instead of NNG_ECONNRESET",
					    c->idx, serial, rv);
			}
		}
		uint64_t late;
		if (c->tracked && overdue(w, c, now, &late))
			VIOL("reply_overdue",
			    "client %d: request #%u completed (%d) %llu ms after the bound (%llu ms past the "
			    "later of its submission and the last fault)",
			    c->idx, serial, rv, (unsigned long long) (late / MS),
			    (unsigned long long) (w->bound_ns / MS));
		c->active = false;
		{
			WireRec &wr = wire_of(w, c->idx + 1, serial);
			if (wr.id != 0)
				w->stale_ids.push_back(wr.id);
		}
		delete su;
		delete ru;
	}
	c->finished = 1;
}

// ------------------------------------------------------------------------
static void
heal_all(World *w)
{
	for (auto r : w->reps) {
		if (r->part_on) {
			simnet_partition(IP_DIALER, r->ip, 0);
			r->part_on = false;
		}
		if (r->hole_on) {
			simnet_blackhole(r->ip, r->port, 0);
			r->hole_on = false;
		}
		if (r->kind == K_RAW && !r->raw_up)
			raw_up(r);
		if (r->kind == K_NNG && !r->rep_open)
			rep_up(r);
	}
}

static bool
all_finished(World *w)
{
	for (auto c : w->clients)
		if (!c->finished)
			return false;
	return true;
}

static void
fault_sleep(World *w, uint64_t ns)
{
	// sleep, but give up early when there is nobody left to disturb
	uint64_t end = sim_now_ns() + ns;
	while (!all_finished(w)) {
		uint64_t now = sim_now_ns();
		if (now >= end)
			break;
		uint64_t d = end - now;
		if (d > 20 * MS)
			d = 20 * MS;
		sim_sleep_ns(d);
	}
}

static uint64_t
draw_gap(World *w)
{
	long sel = F(0, 3);
	if (sel <= 1)
		return (uint64_t) F(0, 3000) * 1000;
	if (sel == 2)
		return (uint64_t) F(0, 30000) * 1000;
	uint64_t span = w->mode == MODE_RESEND ? (uint64_t) w->resend + (uint64_t) w->tick : 100;
	if (span > 1500)
		span = 1500;
	return (uint64_t) F(0, (long) span) * MS;
}

enum { FA_PAUSE = 0, FA_REQ_PIPE_CLOSE, FA_KILL, FA_RESTART, FA_REDIAL, FA_PARTITION, FA_CRASH_HOLE, FA_N };

static void
run_faults(World *w)
{
	int nf = (int) F(0, 6);
	for (int i = 0; i < nf && !all_finished(w); i++) {
		fault_sleep(w, draw_gap(w));
		if (all_finished(w))
			break;
		int      act = (int) F(0, FA_N - 1);
		Replier *r   = w->reps[(size_t) F(0, (long) w->reps.size() - 1)];
		bool     tcp = r->tr == TR_TCP;
		if (w->silent_only)
			act = act == FA_PARTITION || act == FA_CRASH_HOLE ? FA_PARTITION : FA_PAUSE;
		if ((act == FA_PARTITION || act == FA_CRASH_HOLE) && (!w->hole_ok || !tcp || w->dir != 0))
			act = w->silent_only ? FA_PAUSE : FA_RESTART;
		if (act == FA_KILL && !tcp)
			act = FA_REQ_PIPE_CLOSE;
		if (act == FA_REDIAL && w->dir != 0)
			act = FA_REQ_PIPE_CLOSE;
		switch (act) {
		case FA_PAUSE:
			break;
		case FA_REQ_PIPE_CLOSE: {
			if (w->pipes.empty())
				break;
			size_t k  = (size_t) F(0, (long) w->pipes.size() - 1);
			auto   it = w->pipes.begin();
			std::advance(it, (long) k);
			nng_pipe p;
			p.id = *it;
			sim_event("fault: REQ closes pipe %u", p.id);
			note_fault(w, "req_pipe_close", true);
			nng_pipe_close(p);
			break;
		}
		case FA_KILL:
			sim_event("fault: all connections of replier %d reset", r->idx);
			note_fault(w, "kill_conns", true);
			if (w->dir == 0)
				simnet_kill_conns_of(r->ip, r->port);
			else
				simnet_kill_conns_of(IP10(1), 5000);
			break;
		case FA_RESTART: {
			uint64_t d = draw_gap(w);
			sim_event("fault: replier %d down for %llu us", r->idx, (unsigned long long) (d / 1000));
			note_fault(w, "replier_restart", true);
			if (r->kind == K_RAW)
				raw_down(r);
			else
				rep_down(r);
			fault_sleep(w, d);
			if (r->kind == K_RAW)
				raw_up(r);
			else
				rep_up(r);
			sim_event("fault: replier %d up again", r->idx);
			break;
		}
		case FA_REDIAL: {
			size_t k = (size_t) r->idx;
			sim_event("fault: REQ closes dialer %zu and dials again", k);
			note_fault(w, "req_redial", true);
			MUST(nng_dialer_close(w->dialers[k]));
			if (F(0, 1))
				fault_sleep(w, draw_gap(w));
			MUST(nng_dial(w->req, r->url.c_str(), &w->dialers[k], NNG_FLAG_NONBLOCK));
			break;
		}
		case FA_PARTITION: {
			uint64_t d = draw_gap(w);
			sim_event("fault: partition REQ | replier %d for %llu us", r->idx, (unsigned long long) (d / 1000));
			note_fault(w, "partition", false);
			r->part_on = true;
			simnet_partition(IP_DIALER, r->ip, 1);
			fault_sleep(w, d);
			simnet_partition(IP_DIALER, r->ip, 0);
			r->part_on = false;
			sim_event("fault: partition healed");
			break;
		}
		case FA_CRASH_HOLE: {
			uint64_t d = draw_gap(w);
			sim_event("fault: replier %d crashes (resets, address black-holed) for %llu us", r->idx,
			    (unsigned long long) (d / 1000));
			note_fault(w, "crash_blackhole", true);
			r->hole_on = true;
			simnet_blackhole(r->ip, r->port, 1);
			simnet_kill_conns_of(r->ip, r->port);
			fault_sleep(w, d);
			simnet_blackhole(r->ip, r->port, 0);
			r->hole_on = false;
			sim_event("fault: replier %d reachable again", r->idx);
			break;
		}
		}
	}
	heal_all(w);
	w->t_over      = sim_now_ns();
	w->stall_over  = sim_stall_total_ns();
	w->faults_over = 1;
	sim_event("faults over; bound %llu ms%s", (unsigned long long) (w->bound_ns / MS),
	    w->hole_hit_at ? " (+127 s connect timeout)" : "");
}

static void
world_run(Params *p, int mode)
{
	World w;
	g_w               = &w;
	w.mode            = mode;
	w.faults_over     = 0;
	w.t_over          = 0;
	w.stall_over      = 0;
	w.hole_hit_at     = 0;
	w.loss_events     = 0;
	w.inflight_faults = 0;
	w.req_lst.id      = 0;

	// ---- swarm
	static const nng_duration ticks[] = { 1000, 500, 100, 20, 10 };
	long  ticksel = p->draw("tick", 0, 4);
	w.tick        = ticks[ticksel];
	if (mode == MODE_CONNLOSS) {
		static const nng_duration rs[] = { 60000, 30000, 15000 };
		w.resend = rs[p->draw("resend", 0, 2)];
		if (w.tick < 100)
			w.tick = 100; // 15 s of 10 ms ticks would only burn steps
	} else if (mode == MODE_RESEND) {
		static const nng_duration rs[] = { 200, 50, 100, 500, 1000, 3000 };
		w.resend = rs[p->draw("resend", 0, 5)];
		if (w.resend >= 1000 && w.tick < 100)
			w.tick = 100;
	} else {
		(void) p->draw("resend", 0, 0);
		w.resend = NNG_DURATION_INFINITE;
	}
	w.hole_ok     = w.tick >= 100;
	w.silent_only = mode == MODE_RESEND && p->draw("silent", 0, 1) != 0;
	static const nng_duration rmin[] = { 10, 50, 100 };
	w.reconn_min = rmin[p->draw("rcmin", 0, 2)];
	w.reconn_max = p->draw("rcmax", 0, 1) ? 4 * w.reconn_min : 0;
	w.dir        = p->draw("dir", 0, 3) == 3 ? 1 : 0;
	int nrep     = (int) p->draw("nrep", 0, 1) + 1;
	int nctx     = (int) p->draw("nctx", 0, 3);
	bool use_sock = nctx == 0 || p->draw("sock", 0, 1) != 0;
	w.max_delay_ms = mode == MODE_CONNLOSS ? 0 : mode == MODE_RESEND ? (uint64_t) (2 * w.resend) : 60;
	w.max_len = (size_t) p->i("_max_len", 6000);

	MUST(nng_req0_open(&w.req));
	MUST(nng_socket_set_ms(w.req, NNG_OPT_RECONNMINT, w.reconn_min));
	MUST(nng_socket_set_ms(w.req, NNG_OPT_RECONNMAXT, w.reconn_max));
	if (w.tick != 1000)
		MUST(nng_socket_set_ms(w.req, NNG_OPT_REQ_RESENDTICK, w.tick));
	bool per_ctx_opt = W(0, 1) != 0;
	if (!(w.resend == 60000 && W(0, 1)) && !(per_ctx_opt && !use_sock))
		MUST(nng_socket_set_ms(w.req, NNG_OPT_REQ_RESENDTIME, w.resend));
	else if (w.resend != 60000)
		per_ctx_opt = true; // the socket keeps its default; every context sets its own
	MUST(nng_pipe_notify(w.req, NNG_PIPE_EV_ADD_POST, req_pipe_cb, &w));
	MUST(nng_pipe_notify(w.req, NNG_PIPE_EV_REM_POST, req_pipe_cb, &w));
	simnet_set_connect_hook(connect_hook);

	for (int i = 0; i <= nctx; i++) {
		if (i == 0 && !use_sock)
			continue;
		Client *c      = new Client();
		c->w           = &w;
		c->idx         = (int) w.clients.size();
		c->is_sock     = i == 0;
		c->resend      = w.resend;
		c->nreq        = (int) W(1, 6);
		c->next_serial = 0;
		c->finished    = 0;
		c->active      = false;
		c->tracked     = false;
		c->sending     = false;
		if (i > 0) {
			MUST(nng_ctx_open(&c->ctx, w.req));
			if (per_ctx_opt)
				MUST(nng_ctx_set_ms(c->ctx, NNG_OPT_REQ_RESENDTIME, w.resend));
		}
		w.clients.push_back(c);
	}
	{
		// what every client really runs with
		nng_duration d = 0;
		MUST(nng_socket_get_ms(w.req, NNG_OPT_REQ_RESENDTIME, &d));
		for (auto c : w.clients) {
			nng_duration e = d;
			if (!c->is_sock)
				MUST(nng_ctx_get_ms(c->ctx, NNG_OPT_REQ_RESENDTIME, &e));
			if (e != w.resend) {
				// not asserted (the statement does not cover option read-back);
				// the behaviour is judged against the configured value below
				sim_probe("c12_resend_time_readback_differs");
				sim_event("client %d reports resend time %d, configured %d", c->idx, e, w.resend);
			}
		}
	}

	int trsel = (int) p->draw("tr", 0, 3);
	// ipc is not combined with a delayed connect completion: the ipc dialer
	// of the tree under test never finishes an asynchronous connect
	// (posix_ipcdial.c clears dial_aio before queueing the aio; reported; the
	// pinned ipc_stream_test relies on it).  simnet completes AF_UNIX
	// connects synchronously anyway, so this only guards against a simnet
	// that does not.  ipc_async=1 puts the combination back.
	bool      ipc_ok = p->i("_conn_delay_ns", 0) == 0 || p->i("ipc_async", 0) != 0;
	const int trs[]  = { TR_TCP, TR_INPROC, ipc_ok ? TR_IPC : TR_INPROC, TR_TCP };
	if (w.dir == 1) {
		int tr    = trs[trsel];
		w.req_url = tr == TR_TCP ? std::string("tcp://10.0.0.1:5000") : h_url(tr, 120);
		MUST(nng_listen(w.req, w.req_url.c_str(), &w.req_lst, 0));
	}
	for (int i = 0; i < nrep; i++) {
		Replier *r  = new Replier();
		r->w        = &w;
		r->idx      = i;
		r->kind     = w.dir == 0 && W(0, mode == MODE_NORETRY ? 1 : 2) == 1 ? K_RAW : K_NNG;
		r->tr       = r->kind == K_RAW ? TR_TCP : trs[(trsel + i) & 3];
		r->ip       = IP10(2 + i);
		r->port     = (uint16_t) (5001 + i);
		r->rep_open = false;
		r->raw_up   = false;
		r->raw_gen  = 0;
		r->lfd      = -1;
		r->part_on = r->hole_on = false;
		r->behav_left = (int) F(0, 3) + (w.silent_only ? 1 : 0);
		char b[64];
		snprintf(b, sizeof(b), "tcp://10.0.0.%d:%d", 2 + i, 5001 + i);
		r->url = r->tr == TR_TCP ? std::string(b) : h_url(r->tr, 121 + i);
		if (w.dir == 1) {
			r->ip   = IP10(1);
			r->port = 5000;
			r->tr   = trs[trsel];
		}
		w.reps.push_back(r);
	}
	sim_event("c12 mode=%d resend=%d tick=%d reconn=%d/%d dir=%d clients=%zu repliers=%d", mode, w.resend, w.tick,
	    w.reconn_min, w.reconn_max, w.dir, w.clients.size(), nrep);
	// a replier may be down at the start
	for (auto r : w.reps) {
		bool late = !w.silent_only && F(0, 5) == 0;
		sim_event("replier %d: %s %s%s", r->idx, r->kind == K_RAW ? "raw" : "nng", r->url.c_str(),
		    late ? " (starts late)" : "");
		if (late)
			continue;
		if (r->kind == K_RAW)
			raw_up(r);
		else
			rep_up(r);
	}
	if (w.dir == 0) {
		for (auto r : w.reps) {
			nng_dialer d;
			MUST(nng_dial(w.req, r->url.c_str(), &d, NNG_FLAG_NONBLOCK));
			w.dialers.push_back(d);
		}
	}
	// ---- bound (see DESIGN 7/C12): reconnect back-off + connect completion +
	// handshake and the exchange itself + slack; plus, where the statement
	// lets a request wait for the resend timer, resend time + tick (twice)
	uint64_t lat    = (uint64_t) p->i("_lat_max_ns", 0);
	uint64_t cdelay = (uint64_t) p->i("_conn_delay_ns", 0);
	uint64_t sndbuf = (uint64_t) p->i("_sndbuf_min", 65536);
	uint64_t rtts   = 40 + 2 * (w.max_len / (sndbuf ? sndbuf : 1) + 2) * w.clients.size();
	uint64_t rc     = (uint64_t) (w.reconn_max > w.reconn_min ? w.reconn_max : w.reconn_min);
	w.bound_ns      = 2 * rc * MS + 2 * cdelay + rtts * lat + 500 * MS + w.max_delay_ms * MS;
	if (mode == MODE_RESEND)
		w.bound_ns += 2 * ((uint64_t) w.resend + (uint64_t) w.tick) * MS;

	std::vector<int> tids;
	for (auto c : w.clients)
		tids.push_back(sim_spawn("client", client_task, c, 0));
	run_faults(&w);
	// watchdog: after the last fault every tracked request has a deadline
	uint64_t poll = w.bound_ns / 6;
	if (poll > 1000 * MS)
		poll = 1000 * MS;
	uint64_t guard = 0;
	while (!all_finished(&w)) {
		sim_sleep_ns(poll);
		uint64_t now = sim_now_ns();
		for (auto c : w.clients) {
			uint64_t late;
			if (c->active && (c->tracked || c->sending) && overdue(&w, c, now, &late)) {
				WireRec &wr = wire_of(&w, c->idx + 1, c->cur_serial);
				VIOL("reply_never_arrived",
				    "client %d: request #%u %s %llu ms after the bound of %llu ms "
				    "past the later of its submission and the last fault (all repliers up and "
				    "answering; repliers saw it %d times, answered=%d, resend %s)",
				    c->idx, c->cur_serial,
				    c->sending ? "has not even been accepted by a connection" : "still has no result",
				    (unsigned long long) (late / MS),
				    (unsigned long long) (w.bound_ns / MS), wr.count + wr.partial, (int) wr.answered,
				    c->resend == NNG_DURATION_INFINITE ? "disabled" : "enabled");
			}
		}
		if (++guard > 4000)
			h_fatal("watchdog did not terminate");
	}
	for (int t : tids)
		sim_join(t);
	if (w.inflight_faults > 0)
		sim_stat("nontrivial", 1);
	sim_stat("faults_inflight_c12", w.inflight_faults);

	// ---- teardown
	// The raw repliers are daemon tasks that use `w`, the Replier objects and
	// the clients: freeze them before anything is taken apart (the REQ
	// socket does not need its peers in order to close).
	sim_kill_daemons();
	simnet_set_connect_hook(NULL);
	for (auto c : w.clients)
		if (!c->is_sock)
			MUST(nng_ctx_close(c->ctx));
	MUST(nng_socket_close(w.req));
	for (auto r : w.reps) {
		if (r->kind == K_NNG)
			rep_down(r);
		else
			r->raw_gen++;
	}
	sim_join_all();
	g_w = NULL;
	for (auto c : w.clients)
		delete c;
	for (auto r : w.reps) {
		// RawConn objects stay: frozen daemon tasks still point at them
		delete r;
	}
}

static void
c12_cfg(sim_config *cfg, Params *p)
{
	long net = p->draw("net", 0, 4);
	if (net == 1) {
		cfg->seg_mode = 3;
	} else if (net == 2) {
		cfg->seg_mode   = 2;
		cfg->seg_k      = 64;
		cfg->lat_min_ns = 10000;
		cfg->lat_max_ns = 2000000;
	} else if (net == 3) {
		cfg->lat_min_ns = 100000;
		cfg->lat_max_ns = 20000000;
		cfg->sndbuf_min = 256;
		cfg->sndbuf_max = 4096;
		p->set("_max_len", 2000);
	} else if (net == 4) {
		cfg->sndbuf_min = 128;
		cfg->sndbuf_max = 1024;
		cfg->eagain_p   = 0.02;
		p->set("_max_len", 60000);
	}
	long cd = p->draw("cdelay", 0, 2);
	if (cd == 1)
		cfg->conn_delay_max_ns = 3000000;
	else if (cd == 2)
		cfg->conn_delay_max_ns = 80000000;
	p->set("_lat_max_ns", (long) cfg->lat_max_ns);
	p->set("_conn_delay_ns", (long) cfg->conn_delay_max_ns);
	p->set("_sndbuf_min", (long) cfg->sndbuf_min);
	cfg->max_steps = 1500000;
}

static void
connloss_run(Params *p)
{
	world_run(p, MODE_CONNLOSS);
}
static void
resend_run(Params *p)
{
	world_run(p, MODE_RESEND);
}
static void
noretry_run(Params *p)
{
	world_run(p, MODE_NORETRY);
}

SCENARIO(c12_connloss, "C12", c12_cfg, connloss_run);
SCENARIO(c12_resend, "C12", c12_cfg, resend_run);
SCENARIO(c12_noretry, "C12", c12_cfg, noretry_run);

// ------------------------------------------------------------------------
// Self test of the connection-fault controls of simnet (not in the plan).
static int
one_exchange(nng_socket req, uint32_t serial, nng_duration tmo)
{
	nng_msg *m = tag_msg(40, 1, 0, serial);
	MUST(nng_socket_set_ms(req, NNG_OPT_RECVTIMEO, tmo));
	MUST(nng_sendmsg(req, m, 0));
	nng_msg *r  = NULL;
	int      rv = nng_recvmsg(req, &r, 0);
	if (rv == 0) {
		Tag t = tag_parse((uint8_t *) nng_msg_body(r), nng_msg_len(r));
		if (!t.ok || t.serial != serial)
			h_fatal("nettest: wrong reply");
		nng_msg_free(r);
	}
	return rv;
}

struct NtSrv {
	nng_socket rep;
};
static void
nt_server(void *a)
{
	NtSrv *s = (NtSrv *) a;
	for (;;) {
		nng_msg *m = NULL;
		if (nng_recvmsg(s->rep, &m, 0) != 0)
			return;
		if (nng_sendmsg(s->rep, m, 0) != 0)
			nng_msg_free(m);
	}
}

static int g_nt_add, g_nt_rem;
static void
nt_pipe_cb(nng_pipe p, nng_pipe_ev ev, void *arg)
{
	(void) p;
	(void) arg;
	if (ev == NNG_PIPE_EV_ADD_POST)
		g_nt_add++;
	else
		g_nt_rem++;
}

#define NT_CHECK(cond, ...)                        \
	do {                                       \
		if (!(cond))                       \
			VIOL("nettest", __VA_ARGS__); \
	} while (0)

static void
nettest_run(Params *p)
{
	(void) p;
	nng_socket req, rep;
	g_nt_add = g_nt_rem = 0;
	MUST(nng_req0_open(&req));
	MUST(nng_rep0_open(&rep));
	MUST(nng_socket_set_ms(req, NNG_OPT_RECONNMINT, 10));
	MUST(nng_socket_set_ms(req, NNG_OPT_RECONNMAXT, 0));
	MUST(nng_socket_set_ms(req, NNG_OPT_REQ_RESENDTIME, 300));
	MUST(nng_socket_set_ms(req, NNG_OPT_REQ_RESENDTICK, 50));
	MUST(nng_pipe_notify(req, NNG_PIPE_EV_ADD_POST, nt_pipe_cb, NULL));
	MUST(nng_pipe_notify(req, NNG_PIPE_EV_REM_POST, nt_pipe_cb, NULL));
	MUST(nng_listen(rep, "tcp://10.0.0.2:5001", NULL, 0));
	MUST(nng_dial(req, "tcp://10.0.0.2:5001", NULL, 0));
	NtSrv srv = { rep };
	sim_spawn("ntsrv", nt_server, &srv, 0);
	NT_CHECK(one_exchange(req, 0, 2000) == 0, "plain exchange failed");
	NT_CHECK(g_nt_add == 1 && g_nt_rem == 0, "pipe events %d/%d", g_nt_add, g_nt_rem);

	// 1. kill: both ends notice, the dialer reconnects
	sim_event("nettest: kill");
	simnet_kill_conns_of(IP10(2), 5001);
	sim_sleep_ms(200);
	NT_CHECK(g_nt_rem == 1, "kill_conns_of: REQ pipe not removed (rem=%d)", g_nt_rem);
	NT_CHECK(g_nt_add == 2, "kill_conns_of: no reconnect (add=%d)", g_nt_add);
	NT_CHECK(one_exchange(req, 1, 2000) == 0, "exchange after kill failed");

	// 2. partition: data held, nothing lost, released on heal
	sim_event("nettest: partition");
	simnet_partition(IP_DIALER, IP10(2), 1);
	uint64_t t0 = sim_now_ns();
	NT_CHECK(one_exchange(req, 2, 1000) == NNG_ETIMEDOUT, "exchange crossed a partition");
	NT_CHECK(sim_now_ns() - t0 >= 1000 * MS, "timeout too early");
	NT_CHECK(g_nt_rem == 1, "partition must not drop the connection");
	{
		// request outstanding across the heal
		nng_msg *m = tag_msg(40, 1, 0, 3);
		MUST(nng_socket_set_ms(req, NNG_OPT_RECVTIMEO, 5000));
		MUST(nng_sendmsg(req, m, 0));
		sim_sleep_ms(100);
		simnet_partition(IP_DIALER, IP10(2), 0);
		t0          = sim_now_ns();
		uint64_t s0 = sim_stall_total_ns();
		nng_msg *r  = NULL;
		int      rv = nng_recvmsg(req, &r, 0);
		NT_CHECK(rv == 0, "no reply after heal: %d", rv);
		uint64_t dt = sim_now_ns() - t0 - (sim_stall_total_ns() - s0);
		NT_CHECK(dt < 100 * MS, "held data was not released on heal (%llu ms)", (unsigned long long) (dt / MS));
		nng_msg_free(r);
	}

	// 3. partition + kill: the redial goes into the void until the connect times out
	sim_event("nettest: partition+kill");
	simnet_partition(IP_DIALER, IP10(2), 1);
	simnet_kill_conns_of(IP10(2), 5001);
	sim_sleep_ms(500);
	NT_CHECK(g_nt_rem == 2 && g_nt_add == 2, "partition+kill: events add=%d rem=%d", g_nt_add, g_nt_rem);
	simnet_partition(IP_DIALER, IP10(2), 0);
	sim_sleep_ms(2000);
	NT_CHECK(g_nt_add == 2, "SYN sent into a partition completed after heal");
	t0 = sim_now_ns();
	NT_CHECK(one_exchange(req, 4, 200000) == 0, "no exchange after the connect timeout");
	NT_CHECK(sim_now_ns() - t0 > 100000 * MS && sim_now_ns() - t0 < 130000 * MS, "connect timeout %llu ms",
	    (unsigned long long) ((sim_now_ns() - t0) / MS));

	// 4. black hole: same for new connections only
	sim_event("nettest: blackhole");
	simnet_blackhole(IP10(2), 5001, 1);
	NT_CHECK(one_exchange(req, 5, 2000) == 0, "black hole must not touch an established connection");
	simnet_kill_conns_of(IP10(2), 5001);
	sim_sleep_ms(300);
	NT_CHECK(g_nt_add == 3 && g_nt_rem == 3, "blackhole: events add=%d rem=%d", g_nt_add, g_nt_rem);
	simnet_blackhole(IP10(2), 5001, 0);
	NT_CHECK(one_exchange(req, 6, 200000) == 0, "no exchange after black hole lifted");

	// 5. raw peer: stall one direction, release
	{
		sim_event("nettest: stall");
		int lfd = simnet_socket(AF_INET, SOCK_STREAM);
		struct sockaddr_in sin;
		memset(&sin, 0, sizeof(sin));
		sin.sin_family      = AF_INET;
		sin.sin_addr.s_addr = htonl(IP10(3));
		sin.sin_port        = htons(5002);
		NT_CHECK(bind(lfd, (struct sockaddr *) &sin, sizeof(sin)) == 0 && listen(lfd, 4) == 0, "raw listen");
		int cfd = simnet_socket(AF_INET, SOCK_STREAM);
		NT_CHECK(simnet_connect_blocking(cfd, &sin, sizeof(sin), 1000 * MS) == 0, "raw connect: %d", errno);
		int sfd = simnet_accept_blocking(lfd, 1000 * MS);
		NT_CHECK(sfd >= 0, "raw accept");
		char b[8];
		NT_CHECK(simnet_write_full(cfd, "abcd", 4, 0) == 4, "raw write");
		NT_CHECK(simnet_read_full(sfd, b, 4, 100 * MS) == 4, "raw read");
		simnet_stall_conn(sfd, 0, 1);
		NT_CHECK(simnet_write_full(cfd, "efgh", 4, 0) == 4, "raw write 2");
		NT_CHECK(simnet_read_full(sfd, b, 4, 100 * MS) == 0, "stalled data was delivered");
		simnet_stall_conn(sfd, 0, 0);
		NT_CHECK(simnet_read_full(sfd, b, 4, 100 * MS) == 4 && !memcmp(b, "efgh", 4), "data lost by stall");
		simnet_reset(sfd);
		long n = simnet_read_blocking(cfd, b, 4, 100 * MS);
		NT_CHECK(n < 0 && errno == ECONNRESET, "reset not seen by peer: %ld/%d", n, errno);
		close(cfd);
		close(lfd);
	}
	sim_stat("nontrivial", 1);
	MUST(nng_socket_close(req));
	MUST(nng_socket_close(rep));
	sim_join_all();
}

SCENARIO(c12_nettest, "C12", NULL, nettest_run);

} // namespace
