// C18 (second file): FIFO order across *parked* senders.  One task submits
// asynchronous sends one after the other (some of them park behind a full
// buffer), the receiver takes messages out in between; whatever is delivered
// is delivered in submission order.
#include "../harness/util.h"

#include <deque>

namespace {

struct PKind {
	const char *name;
	int (*open_s)(nng_socket *);
	int (*open_r)(nng_socket *);
	int  hdr; // 1: sender supplies a request/survey id header (raw REQ / raw SURVEYOR)
};
static const PKind PK[] = {
	{ "xreq-xrep", nng_req0_open_raw, nng_rep0_open_raw, 1 },
	{ "xsurv-xresp", nng_surveyor0_open_raw, nng_respondent0_open_raw, 1 },
	{ "pair0", nng_pair0_open, nng_pair0_open, 0 },
	{ "pair1", nng_pair1_open, nng_pair1_open, 0 },
	{ "push-pull", nng_push0_open, nng_pull0_open, 0 },
	{ "xreq-xrep", nng_req0_open_raw, nng_rep0_open_raw, 1 }, // the msgqueue.c ring twice
};

static void
parked_run(Params *p)
{
	const PKind *k  = &PK[p->draw("path", 0, 5)];
	int          tr = (int) p->draw("tr", 0, 2);
	nng_socket   S, R;
	MUST(k->open_s(&S));
	MUST(k->open_r(&R));
	MUST(nng_socket_set_int(S, NNG_OPT_SENDBUF, (int) W(0, 4)));
	if (k->open_r != nng_pull0_open)
		MUST(nng_socket_set_int(R, NNG_OPT_RECVBUF, (int) W(0, 2)));
	std::string url = h_url(tr, 14);
	MUST(nng_listen(R, url.c_str(), NULL, 0));
	MUST(nng_dial(S, url.c_str(), NULL, 0));
	sim_quiesce(20000000);
	sim_event("c18_parked %s tr=%s", k->name, h_tr_name(tr));
	std::deque<UAio *> pend;   // submitted, not yet reaped
	uint32_t           next = 0;
	uint32_t           expect = 0; // next serial the receiver may see (or a later one if some failed)
	std::vector<bool>  failed;
	int                nops = (int) W(8, 40);
	int                parked_seen = 0, delivered = 0;
	auto reap_done = [&]() {
		while (!pend.empty() && pend.front()->poll()) {
			UAio *u = pend.front();
			pend.pop_front();
			uint32_t ser = (uint32_t) (uintptr_t) u->user;
			if (u->result != 0) {
				nng_msg_free(nng_aio_get_msg(u->aio));
				failed[ser] = true;
			}
			delete u;
		}
	};
	auto recv_one = [&]() {
		nng_msg *m = NULL;
		if (nng_recvmsg(R, &m, NNG_FLAG_NONBLOCK) != 0)
			return false;
		Tag t = tag_parse((const uint8_t *) nng_msg_body(m), nng_msg_len(m));
		nng_msg_free(m);
		if (!t.ok)
			VIOL("corrupt_message", "%s: received a damaged message", k->name);
		if (t.serial < expect)
			VIOL("reordered",
			    "%s: message %u delivered after message %u although it was submitted earlier (asynchronous sends "
			    "submitted one after the other by one task, some parked behind a full send buffer)",
			    k->name, t.serial, expect - 1);
		expect = t.serial + 1;
		delivered++;
		return true;
	};
	for (int op = 0; op < nops; op++) {
		long sel = W(0, 9);
		if (sel <= 5) { // submit the next asynchronous send
			UAio    *u = new UAio();
			nng_msg *m = tag_msg((size_t) W(24, 300), 1, 0, next);
			if (k->hdr)
				MUST(nng_msg_header_append_u32(m, 0x80000000u | (next + 1)));
			nng_aio_set_msg(u->aio, m);
			nng_aio_set_timeout(u->aio, 10000);
			u->user = (void *) (uintptr_t) next;
			failed.push_back(false);
			u->arm("parked_send");
			nng_socket_send(S, u->aio);
			sim_event("send %u submitted%s", next, u->poll() ? " (done)" : " (pending)");
			next++;
			pend.push_back(u);
			if (W(0, 2) == 0)
				sim_quiesce(2000000);
			if (!pend.back()->poll())
				parked_seen++;
		} else if (sel <= 8) { // the receiver takes some
			sim_quiesce(2000000);
			int n = (int) W(1, 3);
			for (int i = 0; i < n; i++)
				if (!recv_one())
					break;
		} else {
			sim_quiesce(3000000);
		}
		reap_done();
	}
	// drain
	int idle = 0;
	while (idle < 3) {
		sim_quiesce(3000000);
		reap_done();
		if (recv_one())
			idle = 0;
		else
			idle++;
	}
	for (auto u : pend) {
		nng_aio_cancel(u->aio);
		u->wait(0);
		if (u->result != 0)
			nng_msg_free(nng_aio_get_msg(u->aio));
		delete u;
	}
	if (parked_seen > 0 && delivered > 0) {
		sim_probe("c18_parked_sender_seen");
		sim_stat("nontrivial", 1);
	}
	MUST(nng_socket_close(S));
	MUST(nng_socket_close(R));
}
SCENARIO(c18_parked, "C18", NULL, parked_run);

} // namespace

// ---------------------------------------------------------------------------
// c18_ctxrace: several application threads open and close contexts of one
// socket at the same time, holding enough of them for the identifier table to
// grow while the others are busy in it.  "Identifiers are unique among live
// objects"; every live context is found by its id and closes exactly once.
#include <set>
namespace {

struct CtxRace {
	nng_socket         s;
	std::set<uint32_t> live; // harness-side: ids of contexts currently open
	int                opened;
};

static void
ctxrace_task(void *a)
{
	CtxRace             *w = (CtxRace *) a;
	std::vector<nng_ctx> mine;
	int                  n = (int) W(20, 70);
	for (int i = 0; i < n; i++) {
		bool open = mine.empty() || W(0, 9) < 6;
		if (open) {
			nng_ctx c;
			int     rv = nng_ctx_open(&c, w->s);
			if (rv != 0)
				VIOL("ctx_open_failed", "nng_ctx_open returned %d", rv);
			uint32_t id = (uint32_t) nng_ctx_id(c);
			if (id == 0 || id > 0x7fffffffu)
				VIOL("id_out_of_range", "context id %u", id);
			if (!w->live.insert(id).second)
				VIOL("id_not_unique", "nng_ctx_open returned id %u, which another open context already has (%zu open)", id,
				    w->live.size());
			w->opened++;
			mine.push_back(c);
		} else {
			size_t  k = (size_t) W(0, (long) mine.size() - 1);
			nng_ctx c = mine[k];
			mine.erase(mine.begin() + (long) k);
			int v;
			int rv = nng_ctx_get_int(c, NNG_OPT_RECVBUF, &v);
			if (rv == NNG_ECLOSED || rv == NNG_ENOENT)
				VIOL("live_id_not_found", "an open context (id %u) is not found by its id (%d)", (uint32_t) nng_ctx_id(c), rv);
			w->live.erase((uint32_t) nng_ctx_id(c));
			rv = nng_ctx_close(c);
			if (rv != 0)
				VIOL("live_id_not_found", "nng_ctx_close of an open context (id %u) returned %d", (uint32_t) nng_ctx_id(c), rv);
		}
		if (W(0, 3) == 0)
			sim_yield();
	}
	for (auto c : mine) {
		w->live.erase((uint32_t) nng_ctx_id(c));
		int rv = nng_ctx_close(c);
		if (rv != 0)
			VIOL("live_id_not_found", "nng_ctx_close of an open context (id %u) returned %d", (uint32_t) nng_ctx_id(c), rv);
	}
}

static void
ctxrace_run(Params *p)
{
	(void) p;
	CtxRace w;
	w.opened = 0;
	static int (*const OP[])(nng_socket *) = { nng_req0_open, nng_rep0_open, nng_sub0_open, nng_surveyor0_open, nng_respondent0_open };
	MUST(OP[W(0, 4)](&w.s));
	int nt = 2 + (int) W(0, 2);
	for (int i = 0; i < nt; i++)
		sim_spawn("ctxrace", ctxrace_task, &w, 0);
	sim_join_all();
	if (!w.live.empty())
		h_fatal("bookkeeping: %zu ids left", w.live.size());
	if (w.opened > 30)
		sim_stat("nontrivial", 1);
	MUST(nng_socket_close(w.s));
}
SCENARIO(c18_ctxrace, "C18", NULL, ctxrace_run);

} // namespace
