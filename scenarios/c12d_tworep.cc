// C12 (fourth file).
//
// c12_tworep: two repliers.  The first copy of a request is ignored by the
// replier that got it; the timed retransmission goes out over the other
// connection, which that replier then drops.  "An outstanding request is
// retransmitted whenever the connection it was sent on is lost": another
// copy has to appear promptly (long before the next retry tick).
//
// c12_noise: while a request is being retransmitted, many other operations
// with time-outs on the same library expire in the same instants as the retry
// tick.  When they stop, the retransmissions must still be going on.
#include "../harness/util.h"

namespace {

#define MS 1000000ull

struct Rep2 {
	nng_socket   s[2];
	volatile int stop;
	volatile int answer;   // from now on copies are answered
	int          copies;   // copies seen in all
	int          first_at; // which replier saw copy 1
	int          second_at;
	uint64_t     t_copy[16];
	int          at[16];
	uint64_t     t_drop; // when the connection of copy 2 was dropped
	bool         dropped;
};

static void
rep2_task(void *a)
{
	Rep2 *w = (Rep2 *) a;
	while (!w->stop) {
		bool any = false;
		for (int k = 0; k < 2; k++) {
			nng_msg *m = NULL;
			if (nng_recvmsg(w->s[k], &m, NNG_FLAG_NONBLOCK) != 0)
				continue;
			any   = true;
			int n = w->copies++;
			if (n < 16) {
				w->t_copy[n] = sim_now_ns();
				w->at[n]     = k;
			}
			sim_event("replier %d: copy %d", k, n + 1);
			if (w->answer || n >= 2) {
				if (nng_sendmsg(w->s[k], m, 0) != 0)
					nng_msg_free(m);
				continue;
			}
			if (n == 0) {
				w->first_at = k;
				nng_msg_free(m);
			} else { // the timed retransmission
				w->second_at = k;
				if (k != w->first_at) {
					// lose the connection this copy came over
					nng_pipe pp = nng_msg_get_pipe(m);
					nng_msg_free(m);
					w->t_drop  = sim_now_ns();
					w->dropped = true;
					(void) nng_pipe_close(pp);
					sim_event("replier %d drops the connection of copy 2", k);
				} else {
					if (nng_sendmsg(w->s[k], m, 0) != 0)
						nng_msg_free(m);
				}
			}
		}
		if (!any)
			sim_sleep_ns(1 * MS);
	}
}

static void
nostall_cfg(sim_config *cfg, Params *p)
{
	(void) p;
	cfg->stall_p = 0; // bounds below are in plain virtual time
}

static void
tworep_run(Params *p)
{
	static const nng_duration rss[]   = { 40, 100, 200 };
	static const nng_duration ticks[] = { 600, 1000, 2000 };
	nng_duration rs   = rss[W(0, 2)];
	nng_duration tick = ticks[W(0, 2)];
	int          tr   = (int) p->draw("tr", 0, 2);
	Rep2         w;
	memset(&w, 0, sizeof(w));
	w.first_at = w.second_at = -1;
	nng_socket req;
	MUST(nng_req0_open(&req));
	MUST(nng_socket_set_ms(req, NNG_OPT_REQ_RESENDTIME, rs));
	MUST(nng_socket_set_ms(req, NNG_OPT_REQ_RESENDTICK, tick));
	MUST(nng_socket_set_ms(req, NNG_OPT_RECONNMINT, 2000)); // the dropped connection stays away
	MUST(nng_socket_set_ms(req, NNG_OPT_RECONNMAXT, 2000));
	for (int k = 0; k < 2; k++) {
		MUST(nng_rep0_open_raw(&w.s[k]));
		MUST(nng_socket_set_ms(w.s[k], NNG_OPT_SENDTIMEO, 1000));
		std::string url = h_url(tr, 60 + k);
		MUST(nng_listen(w.s[k], url.c_str(), NULL, 0));
		MUST(nng_dial(req, url.c_str(), NULL, 0));
	}
	sim_quiesce(20000000);
	int  rt = sim_spawn("repliers", rep2_task, &w, 0);
	bool use_ctx = W(0, 1) != 0;
	nng_ctx c;
	if (use_ctx)
		MUST(nng_ctx_open(&c, req));
	nng_msg *m = tag_msg(40, 1, 0, 1);
	int      rv = use_ctx ? nng_ctx_sendmsg(c, m, 0) : nng_sendmsg(req, m, 0);
	if (rv != 0)
		h_fatal("request send: %d", rv);
	sim_event("c12_tworep tr=%s resend %d tick %d", h_tr_name(tr), rs, tick);
	UAio u;
	nng_aio_set_timeout(u.aio, NNG_DURATION_INFINITE);
	u.arm("tworep_recv");
	if (use_ctx)
		nng_ctx_recv(c, u.aio);
	else
		nng_socket_recv(req, u.aio);
	// copy 2 comes with the first tick after the resend time
	uint64_t budget = (uint64_t) (rs + 2 * tick + 500) * MS;
	uint64_t t0     = sim_now_ns();
	while (w.copies < 2 && sim_now_ns() - t0 < budget)
		sim_sleep_ns(5 * MS);
	if (w.copies < 2)
		VIOL("reply_never_arrived", "no timed retransmission within %llu ms (resend time %d ms, tick %d ms)",
		    (unsigned long long) (budget / MS), rs, tick);
	if (w.dropped) {
		// "retransmitted whenever the connection it was sent on is lost"
		while (w.copies < 3 && sim_now_ns() - w.t_drop < 300 * MS)
			sim_sleep_ns(2 * MS);
		if (w.copies < 3)
			VIOL("no_resend_after_connection_loss",
			    "copy 1 went to replier %d (ignored), the timed copy 2 to replier %d, which then dropped that "
			    "connection; 300 ms later no further copy has reached the replier that is still connected (resend "
			    "time %d ms, next tick up to %d ms away)",
			    w.first_at, w.second_at, rs, tick);
		sim_probe("c12_tworep_resend_after_loss");
		sim_stat("nontrivial", 1);
	} else {
		sim_probe("c12_tworep_same_replier_twice");
	}
	if (u.wait(3000 * MS) == (nng_err) -1 || u.result != 0)
		VIOL("reply_never_arrived", "the reply to an answered copy did not arrive (%d)", (int) u.result);
	nng_msg_free(nng_aio_get_msg(u.aio));
	w.stop = 1;
	sim_join(rt);
	if (use_ctx)
		MUST(nng_ctx_close(c));
	MUST(nng_socket_close(req));
	MUST(nng_socket_close(w.s[0]));
	MUST(nng_socket_close(w.s[1]));
}
SCENARIO(c12_tworep, "C12", nostall_cfg, tworep_run);

// ---------------------------------------------------------------------------
struct Noise {
	nng_socket   sub; // a SUB socket nobody publishes to: receives only ever time out
	int          n;
	int          rounds;
	nng_duration tmo;
	volatile int done;
};

static void
noise_task(void *a)
{
	Noise              *nz = (Noise *) a;
	std::vector<UAio *> us;
	std::vector<nng_ctx> cs;
	for (int i = 0; i < nz->n; i++) {
		nng_ctx c;
		MUST(nng_ctx_open(&c, nz->sub));
		cs.push_back(c);
		us.push_back(new UAio());
	}
	for (int r = 0; r < nz->rounds; r++) {
		for (int i = 0; i < nz->n; i++) {
			nng_aio_set_timeout(us[(size_t) i]->aio, nz->tmo);
			us[(size_t) i]->arm("noise_recv");
			nng_ctx_recv(cs[(size_t) i], us[(size_t) i]->aio);
		}
		for (int i = 0; i < nz->n; i++)
			us[(size_t) i]->wait(0);
		if (W(0, 2) == 0)
			sim_sleep_ns((uint64_t) W(0, 3000) * 1000);
	}
	for (int i = 0; i < nz->n; i++) {
		delete us[(size_t) i];
		MUST(nng_ctx_close(cs[(size_t) i]));
	}
	nz->done = 1;
}

static void
noise_run(Params *p)
{
	static const nng_duration rss[]   = { 20, 40, 80 };
	static const nng_duration ticks[] = { 5, 10, 20 };
	nng_duration rs   = rss[W(0, 2)];
	nng_duration tick = ticks[W(0, 2)];
	int          tr   = (int) p->draw("tr", 0, 2);
	Rep2         w;
	memset(&w, 0, sizeof(w));
	nng_socket req;
	MUST(nng_req0_open(&req));
	MUST(nng_socket_set_ms(req, NNG_OPT_REQ_RESENDTIME, rs));
	MUST(nng_socket_set_ms(req, NNG_OPT_REQ_RESENDTICK, tick));
	MUST(nng_rep0_open_raw(&w.s[0]));
	MUST(nng_rep0_open_raw(&w.s[1])); // unused second slot of the replier task
	MUST(nng_socket_set_ms(w.s[0], NNG_OPT_SENDTIMEO, 1000));
	std::string url = h_url(tr, 62);
	MUST(nng_listen(w.s[0], url.c_str(), NULL, 0));
	MUST(nng_dial(req, url.c_str(), NULL, 0));
	Noise nz;
	MUST(nng_sub0_open(&nz.sub));
	nz.n      = (int) W(8, 60);
	nz.rounds = (int) W(4, 30);
	nz.tmo    = (nng_duration) W(1, 12);
	nz.done   = 0;
	sim_quiesce(20000000);
	// the replier ignores everything until told to answer: first_at/second_at logic off
	w.answer = 0;
	struct Ign {
		Rep2 *w;
	};
	auto ignorer = [](void *a) {
		Rep2 *w = (Rep2 *) a;
		while (!w->stop) {
			nng_msg *m = NULL;
			if (nng_recvmsg(w->s[0], &m, NNG_FLAG_NONBLOCK) != 0) {
				sim_sleep_ns(1 * MS);
				continue;
			}
			int n = w->copies++;
			if (n < 16)
				w->t_copy[n] = sim_now_ns();
			if (w->answer) {
				if (nng_sendmsg(w->s[0], m, 0) != 0)
					nng_msg_free(m);
			} else {
				nng_msg_free(m);
			}
		}
	};
	int rt = sim_spawn("replier", ignorer, &w, 0);
	int nt = sim_spawn("noise", noise_task, &nz, 0);
	nng_msg *m = tag_msg(40, 1, 0, 1);
	MUST(nng_sendmsg(req, m, 0));
	sim_event("c12_noise tr=%s resend %d tick %d; %d receives timing out together every %d ms, %d rounds", h_tr_name(tr), rs,
	    tick, nz.n, nz.tmo, nz.rounds);
	UAio u;
	nng_aio_set_timeout(u.aio, NNG_DURATION_INFINITE);
	u.arm("noise_req_recv");
	nng_socket_recv(req, u.aio);
	sim_join(nt);
	// nothing else in the library has a deadline now; the retransmissions go on regardless
	int seen = w.copies;
	w.answer = 1;
	if (u.wait((uint64_t) (2 * (rs + tick) + 300) * MS) == (nng_err) -1)
		VIOL("reply_never_arrived",
		    "the replier saw %d copies while %d other receives were timing out every %d ms; since those stopped, %d ms "
		    "ago, no further retransmission has come (resend time %d ms, tick %d ms)",
		    seen, nz.n, nz.tmo, 2 * (rs + tick) + 300, rs, tick);
	if (u.result != 0)
		VIOL("reply_never_arrived", "receive failed with %d", (int) u.result);
	nng_msg_free(nng_aio_get_msg(u.aio));
	if (seen >= 2)
		sim_stat("nontrivial", 1);
	w.stop = 1;
	sim_join(rt);
	MUST(nng_socket_close(req));
	MUST(nng_socket_close(nz.sub));
	MUST(nng_socket_close(w.s[0]));
	MUST(nng_socket_close(w.s[1]));
}
SCENARIO(c12_noise, "C12", nostall_cfg, noise_run);

} // namespace
