// C18: "Socket send ... buffers (NNG_OPT_SENDBUF ... and the per-protocol queues behind them) are bounded first-in-
// first-out queues: they ... never reorder, duplicate or corrupt queued messages".
//
// The state: messages are accepted into the send buffer while NO peer is connected (before the first connection, or
// between a disconnect and the reconnect); then a peer connects and the application goes on sending at once.  What
// was buffered must leave before what is sent afterwards.
//
// PAIR0, PAIR1 and PUSH (one peer) with NNG_OPT_SENDBUF 1..8 over inproc/tcp/ipc; the sender is the dialer or the
// listener.  Oracle: the serial numbers arrive in send order, each at most once, bodies intact ("never reorder,
// duplicate or corrupt"); whether everything arrives is not this property's business (only counted).
#include "../harness/util.h"
#include <nng/protocol/pair0/pair.h>
#include <nng/protocol/pair1/pair.h>
#include <nng/protocol/pipeline0/pull.h>
#include <nng/protocol/pipeline0/push.h>

namespace {

struct Kind {
	const char *name;
	int (*snd)(nng_socket *);
	int (*rcv)(nng_socket *);
};
static const Kind KINDS[] = {
	{ "pair1", nng_pair1_open, nng_pair1_open },
	{ "pair0", nng_pair0_open, nng_pair0_open },
	{ "push", nng_push0_open, nng_pull0_open },
};

static nng_msg *
mk(uint32_t serial)
{
	nng_msg *m = NULL;
	MUST(nng_msg_alloc(&m, 0));
	MUST(nng_msg_append_u32(m, serial));
	MUST(nng_msg_append_u32(m, serial ^ 0x5a5a5a5au));
	return m;
}

static void
pc_run(Params *p)
{
	const Kind &k   = KINDS[p->draw("kind", 0, 2)];
	int         tr  = (int) p->draw("tr", 0, 2);
	std::string url = h_url(tr == 0 ? TR_INPROC : tr == 1 ? TR_TCP : TR_IPC, 81);
	nng_socket  s, r;
	MUST(k.snd(&s));
	int depth = (int) W(1, 8);
	MUST(nng_socket_set_int(s, NNG_OPT_SENDBUF, depth));
	MUST(nng_socket_set_ms(s, NNG_OPT_SENDTIMEO, 200));
	MUST(nng_socket_set_ms(s, NNG_OPT_RECONNMINT, 5));
	MUST(nng_socket_set_ms(s, NNG_OPT_RECONNMAXT, 20));
	bool     s_listens = W(0, 1) != 0;
	uint32_t next = 1, last_rx = 0;
	int      rounds = 1 + (int) W(0, 2);
	std::vector<uint32_t> accepted;
	if (s_listens)
		MUST(nng_listen(s, url.c_str(), NULL, 0));
	for (int rd = 0; rd < rounds; rd++) {
		// nobody connected: fill (part of) the buffer
		int pre = (int) W(1, depth);
		for (int i = 0; i < pre; i++) {
			nng_msg *m = mk(next);
			if (nng_sendmsg(s, m, NNG_FLAG_NONBLOCK) != 0) {
				nng_msg_free(m);
				break;
			}
			accepted.push_back(next++);
		}
		sim_event("round %d: %s depth %d, %zu accepted while disconnected", rd, k.name, depth, accepted.size());
		// the peer appears
		MUST(k.rcv(&r));
		MUST(nng_socket_set_ms(r, NNG_OPT_RECVTIMEO, 100));
		MUST(nng_socket_set_int(r, NNG_OPT_RECVBUF, (int) W(0, 4)));
		if (s_listens) {
			MUST(nng_dial(r, url.c_str(), NULL, NNG_FLAG_NONBLOCK));
		} else {
			MUST(nng_listen(r, url.c_str(), NULL, 0));
			if (rd == 0)
				MUST(nng_dial(s, url.c_str(), NULL, NNG_FLAG_NONBLOCK));
		}
		// ... and the application goes on sending at once, racing the connection coming up
		int post = (int) W(1, 6);
		if (W(0, 1))
			sim_sleep_ns((uint64_t) W(0, 300) * 10000);
		for (int i = 0; i < post; i++) {
			nng_msg *m = mk(next);
			int      rv = W(0, 1) ? nng_sendmsg(s, m, 0) : nng_sendmsg(s, m, NNG_FLAG_NONBLOCK);
			if (rv != 0) {
				nng_msg_free(m);
				if (W(0, 1))
					sim_sleep_ns((uint64_t) W(1, 100) * 10000);
				continue;
			}
			accepted.push_back(next++);
			if (W(0, 2) == 0)
				sim_yield();
		}
		// drain
		int idle = 0;
		while (idle < 3) {
			nng_msg *m = NULL;
			int      rv = nng_recvmsg(r, &m, 0);
			if (rv != 0) {
				idle++;
				continue;
			}
			idle = 0;
			uint32_t a = 0, b = 0;
			if (nng_msg_len(m) != 8 || nng_msg_trim_u32(m, &a) != 0 || nng_msg_trim_u32(m, &b) != 0 || b != (a ^ 0x5a5a5a5au)) {
				nng_msg_free(m);
				VIOL("corrupted", "%s: a message arrived that nobody sent", k.name);
			}
			nng_msg_free(m);
			if (a == last_rx)
				VIOL("duplicate", "%s: serial %u arrived twice", k.name, a);
			if (a < last_rx)
				VIOL("reordered",
				    "%s with NNG_OPT_SENDBUF %d: serial %u arrived after serial %u (messages accepted while no peer was "
				    "connected were overtaken by ones sent after the peer connected)",
				    k.name, depth, a, last_rx);
			last_rx = a;
			sim_stat("nontrivial", 1);
		}
		if (last_rx + 1 != next)
			sim_probe("c18_preconnect_not_all_arrived");
		// the peer goes away; next round starts disconnected again
		MUST(nng_socket_close(r));
		sim_quiesce(3000000);
	}
	MUST(nng_socket_close(s));
}
SCENARIO(c18_preconnect, "C18", NULL, pc_run);

} // namespace
