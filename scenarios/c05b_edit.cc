// C05 (second file): several contexts of ONE SUB socket whose subscriptions
// match the same publications, and every receiver edits the message it got.
//
// A receiver owns the nng_msg it is handed: stripping the topic with
// nng_msg_trim, overwriting the body, nng_msg_chop / append / insert are all
// things applications do before they free it.  Whatever one context does with
// its message, every other context (and the socket itself) must still receive
// exactly the bytes that were published.  Some receivers have an asynchronous
// receive pending before the publication (the message is handed over directly
// in the pipe callback), others take it later from their receive buffer; the
// order in which they look at / edit / free their messages is drawn.
//
// Two modes: `rxtasks=0` everything is driven from the main task (receives are
// posted, polled and drained in a drawn order), `rxtasks=1` one receiver task per
// context blocks in a receive, as in c05_conc.
//
// Oracle -> phrase of the statement (C05):
//   altered_message      "messages from one publisher are never ... altered":
//                        the body handed to a context is byte for byte a body
//                        that was published (whatever another context did to
//                        its own message; "contexts filter independently")
//   duplicate_delivery   "... never duplicated": one context never receives the
//                        same publication twice
//   reordered            "... or reordered": per context and publisher, serials
//                        increase
//   unexpected_delivery  "receives a published message if and only if ... one of
//                        its current subscriptions is a prefix of the message
//                        body", "contexts filter independently": the body a
//                        context gets is prefixed by one of ITS OWN
//                        subscriptions (they are fixed before the first
//                        publication, so "current" is unambiguous)
//   missed_delivery      the "if" direction, only in the main-driven mode with
//                        `sync=1` (quiesce after every publication, so nothing
//                        is dropped on the publisher's side) and receive
//                        buffers larger than the number of publications (so
//                        the "buffer is full" clause never applies): after the
//                        final drain a context has every publication one of
//                        its subscriptions prefixes
//   pub_send_failed      "a PUB send never blocks" (it returns 0)
// Only counted (sim_probe), not asserted: how many publications went to two or
// more contexts, how many of those by direct hand-over to a pending receive,
// two contexts holding the same nng_msg object.
#include "../harness/util.h"

#include <deque>
#include <set>

namespace {

struct EWorld;
struct ECtx {
	EWorld                  *w;
	size_t                   idx;
	bool                     is_sock;
	nng_ctx                  ctx;
	std::vector<std::string> topics;
	UAio                    *pend; // receive posted earlier, not yet looked at
	std::set<int>            got;
	std::map<int, uint32_t>  last; // per publisher
	std::vector<nng_msg *>   held; // edited messages not freed yet
	volatile int             stop;
};

struct EPub {
	std::string body;
	int         pub;
	uint32_t    serial;
};

struct EWorld {
	nng_socket               sub;
	std::vector<nng_socket>  pubs;
	std::vector<ECtx *>      ctxs;
	std::vector<EPub>        msgs;
	std::map<std::string, int> by_body;
	int                      delivered;
};

static long g_net; // the network shape drawn by edit_cfg

static const char EALPHA[] = { 'a', 'b', 0x00 };

static std::string
e_letters(int maxlen)
{
	int         n = (int) W(0, maxlen);
	std::string s;
	for (int i = 0; i < n; i++)
		s += EALPHA[W(0, 2)];
	return s;
}

static std::string
e_show(const std::string &s)
{
	return h_hex((const uint8_t *) s.data(), s.size(), 24);
}

static const std::string *
e_match(const ECtx *c, const std::string &body)
{
	for (auto &t : c->topics)
		if (t.size() <= body.size() && body.compare(0, t.size(), t) == 0)
			return &t;
	return NULL;
}

// the receiver does with its own message what applications do
static void
e_edit(nng_msg *m, size_t tlen)
{
	size_t   n    = nng_msg_len(m);
	uint8_t *b    = (uint8_t *) nng_msg_body(m);
	long     kind = W(0, 5);
	switch (kind) {
	case 0: // strip the topic (at least one byte)
		(void) nng_msg_trim(m, tlen > 0 && tlen <= n ? tlen : (n > 0 ? 1 : 0));
		break;
	case 1: // overwrite in place
		memset(b, 0x5a, n);
		break;
	case 2: // cut the tail
		(void) nng_msg_chop(m, n > 1 ? n / 2 : n);
		break;
	case 3: // reuse it as a reply buffer
		if (n > 0)
			b[0] ^= 0xff;
		(void) nng_msg_append(m, "scribble", 8);
		break;
	case 4:
		(void) nng_msg_insert(m, "scribble", 8);
		break;
	default:
		memset(b, 0xa5, n);
		(void) nng_msg_trim(m, n < 3 ? n : 3);
		(void) nng_msg_chop(m, nng_msg_len(m) / 2);
		(void) nng_msg_insert(m, "xy", 2);
		break;
	}
}

static void
e_release(ECtx *c, bool all)
{
	while (!c->held.empty() && (all || W(0, 1) == 0)) {
		nng_msg *m = c->held.front();
		c->held.erase(c->held.begin());
		if (nng_msg_len(m) > 0)
			((uint8_t *) nng_msg_body(m))[0] = 0x33; // still ours
		nng_msg_free(m);
	}
}

// a context was handed message g
static void
e_take(ECtx *c, nng_msg *g, const char *how)
{
	EWorld     *w = c->w;
	std::string body((const char *) nng_msg_body(g), nng_msg_len(g));
	sim_event("ctx%zu %s %s", c->idx, how, e_show(body).c_str());
	auto it = w->by_body.find(body);
	if (it == w->by_body.end()) {
		nng_msg_free(g);
		VIOL("altered_message",
		    "ctx %zu (%s) received %zu bytes %s that are not any body as it was published; %zu contexts of "
		    "this SUB socket receive (and edit) their own messages",
		    c->idx, how, body.size(), e_show(body).c_str(), w->ctxs.size());
	}
	int         id = it->second;
	const EPub &pm = w->msgs[(size_t) id];
	const std::string *t = e_match(c, body);
	if (t == NULL) {
		nng_msg_free(g);
		VIOL("unexpected_delivery", "ctx %zu received %s although none of its subscriptions is a prefix of it",
		    c->idx, e_show(body).c_str());
	}
	if (!c->got.insert(id).second) {
		nng_msg_free(g);
		VIOL("duplicate_delivery", "ctx %zu received publication %d (%s) twice", c->idx, id,
		    e_show(body).c_str());
	}
	auto ls = c->last.find(pm.pub);
	if (ls != c->last.end() && pm.serial <= ls->second) {
		nng_msg_free(g);
		VIOL("reordered", "ctx %zu: publisher %d serial %u after %u", c->idx, pm.pub, pm.serial, ls->second);
	}
	c->last[pm.pub] = pm.serial;
	w->delivered++;
	sim_stat("delivered", 1);
	for (auto o : w->ctxs)
		if (o != c)
			for (auto hm : o->held)
				if (hm == g)
					sim_probe("c05_edit_same_object_twice");
	if (W(0, 3) == 0)
		sim_yield();
	e_edit(g, t->size());
	if (W(0, 2) == 0) {
		c->held.push_back(g);
		if (c->held.size() > 3)
			e_release(c, false);
	} else {
		nng_msg_free(g);
	}
}

static void
e_post(ECtx *c, nng_duration tmo)
{
	c->pend = new UAio();
	nng_aio_set_timeout(c->pend->aio, tmo);
	c->pend->arm("edit_recv");
	if (c->is_sock)
		nng_socket_recv(c->w->sub, c->pend->aio);
	else
		nng_ctx_recv(c->ctx, c->pend->aio);
}

// non-blocking receive; NULL when the buffer is empty
static nng_msg *
e_recv_nb(ECtx *c)
{
	nng_msg *m = NULL;
	if (c->is_sock) {
		int rv = nng_recvmsg(c->w->sub, &m, NNG_FLAG_NONBLOCK);
		return rv == 0 ? m : NULL;
	}
	UAio u;
	nng_aio_set_timeout(u.aio, NNG_DURATION_ZERO);
	u.arm("edit_recv_nb");
	nng_ctx_recv(c->ctx, u.aio);
	u.wait(0);
	return u.result == 0 ? nng_aio_get_msg(u.aio) : NULL;
}

static void
e_look(ECtx *c, bool drain)
{
	if (c->pend != NULL) {
		if (!c->pend->poll())
			return; // still waiting, its buffer is empty
		nng_err  rv = c->pend->result;
		nng_msg *g  = rv == 0 ? nng_aio_get_msg(c->pend->aio) : NULL;
		delete c->pend;
		c->pend = NULL;
		if (g != NULL)
			e_take(c, g, "pending receive got");
	}
	while (drain) {
		nng_msg *g = e_recv_nb(c);
		if (g == NULL)
			break;
		e_take(c, g, "buffered receive got");
		if (W(0, 3) == 0)
			break;
	}
}

static void
e_publish(EWorld *w, int np, uint32_t serial)
{
	EPub m;
	m.pub    = (int) W(0, np - 1);
	m.serial = serial;
	m.body   = e_letters(2);
	m.body += (char) (0x80 | m.pub);
	m.body += (char) (0x80 | (serial >> 6));
	m.body += (char) (0x80 | (serial & 0x3f));
	// (byte-at-a-time segmentation: long bodies would only burn the step budget)
	size_t pay = W(0, 5) == 0 ? (size_t) W(0, g_net == 3 ? 200 : 3000) : (size_t) W(0, 40);
	for (size_t i = 0; i < pay; i++)
		m.body += (char) ('A' + (serial * 7 + i) % 53);
	w->msgs.push_back(m);
	w->by_body[m.body] = (int) w->msgs.size() - 1;
	nng_msg *msg = NULL;
	MUST(nng_msg_alloc(&msg, 0));
	MUST(nng_msg_append(msg, m.body.data(), m.body.size()));
	int interested = 0, waiting = 0;
	for (auto c : w->ctxs)
		if (e_match(c, m.body) != NULL) {
			interested++;
			if (c->pend != NULL && !c->pend->poll())
				waiting++;
		}
	if (interested >= 2) {
		sim_probe("c05_edit_fanout");
		if (waiting >= 1)
			sim_probe("c05_edit_fanout_with_waiter");
		if (waiting >= 2)
			sim_probe("c05_edit_fanout_two_waiters");
	}
	sim_event("publish p%d #%u %s (%d interested, %d waiting)", m.pub, serial, e_show(m.body).c_str(), interested,
	    waiting);
	int rv = nng_sendmsg(w->pubs[(size_t) m.pub], msg, 0);
	if (rv != 0) {
		nng_msg_free(msg);
		VIOL("pub_send_failed", "PUB send returned %d", rv);
	}
}

static void
e_receiver(void *a)
{
	ECtx *c = (ECtx *) a;
	while (!c->stop) {
		e_post(c, 20);
		c->pend->wait(0);
		e_look(c, W(0, 2) == 0);
		if (W(0, 3) == 0)
			e_release(c, false);
	}
	e_release(c, true);
}

static void
edit_run(Params *p)
{
	EWorld w;
	w.delivered = 0;
	int  tr       = (int) p->draw("tr", 0, 3);
	bool tasks    = p->draw("rxtasks", 0, 1) != 0;
	bool sync     = p->draw("sync", 0, 1) != 0;
	bool subdials = p->draw("subdials", 0, 1) != 0;
	int  np       = (int) W(1, 2);
	int  nctx     = (int) W(1, 3); // contexts besides the socket itself
	MUST(nng_sub0_open(&w.sub));
	MUST(nng_socket_set_int(w.sub, NNG_OPT_RECVBUF, 64));
	for (int i = 0; i <= nctx; i++) {
		ECtx *c    = new ECtx();
		c->w       = &w;
		c->idx     = (size_t) i;
		c->is_sock = i == 0;
		c->pend    = NULL;
		c->stop    = 0;
		if (i > 0)
			MUST(nng_ctx_open(&c->ctx, w.sub));
		w.ctxs.push_back(c);
	}
	// subscriptions: fixed for the whole run, mostly overlapping
	for (auto c : w.ctxs) {
		int nt = c->is_sock ? (int) W(0, 2) : (int) W(1, 2);
		for (int k = 0; k < nt; k++) {
			std::string t = W(0, 1) == 0 ? std::string() : e_letters(2);
			int rv = c->is_sock ? nng_sub0_socket_subscribe(w.sub, t.data(), t.size())
			                    : nng_sub0_ctx_subscribe(c->ctx, t.data(), t.size());
			if (rv != 0)
				VIOL("subscribe_failed", "subscribe returned %d", rv);
			c->topics.push_back(t);
			sim_event("ctx%zu subscribes %s", c->idx, e_show(t).c_str());
		}
	}
	std::string url = h_url(tr, 4);
	if (subdials) {
		// every publisher listens on its own address
		for (int i = 0; i < np; i++) {
			nng_socket  ps;
			std::string u = h_url(tr, 5 + i);
			MUST(nng_pub0_open(&ps));
			MUST(nng_listen(ps, u.c_str(), NULL, 0));
			MUST(nng_dial(w.sub, u.c_str(), NULL, 0));
			w.pubs.push_back(ps);
		}
	} else {
		MUST(nng_listen(w.sub, url.c_str(), NULL, 0));
		for (int i = 0; i < np; i++) {
			nng_socket ps;
			MUST(nng_pub0_open(&ps));
			MUST(nng_dial(ps, url.c_str(), NULL, 0));
			w.pubs.push_back(ps);
		}
	}
	sim_quiesce(20000000);
	int nmsg = (int) W(3, 24);
	sim_event("c05_edit tr=%s pubs=%d ctxs=%d rxtasks=%d sync=%d nmsg=%d", h_tr_name(tr), np, nctx + 1, (int) tasks,
	    (int) sync, nmsg);

	if (tasks) {
		for (auto c : w.ctxs)
			sim_spawn("edit_recv", e_receiver, c, 0);
		for (int k = 0; k < nmsg; k++) {
			e_publish(&w, np, (uint32_t) k);
			long d = W(0, 3);
			if (d == 1)
				sim_sleep_ns((uint64_t) W(0, 2000) * 1000);
			else if (d == 2)
				sim_quiesce(5000000); // below the receivers' 20 ms timers
		}
		sim_quiesce(5000000);
		for (auto c : w.ctxs)
			c->stop = 1;
		sim_join_all();
		// what is still buffered
		for (auto c : w.ctxs)
			e_look(c, true);
	} else {
		for (int k = 0; k < nmsg; k++) {
			// some receivers are already waiting when the message is published
			for (auto c : w.ctxs)
				if (c->pend == NULL && W(0, 1) == 0)
					e_post(c, NNG_DURATION_INFINITE);
			e_publish(&w, np, (uint32_t) k);
			if (sync || W(0, 2) != 0)
				sim_quiesce(3000000);
			// the receivers look at what they have, in a drawn order
			size_t n     = w.ctxs.size();
			size_t first = (size_t) W(0, (long) n - 1);
			bool   down  = W(0, 1) != 0;
			for (size_t j = 0; j < n; j++) {
				ECtx *c = w.ctxs[(first + (down ? n - j : j)) % n];
				if (W(0, 2) == 0 && k + 1 < nmsg)
					continue; // this one reads later
				e_look(c, W(0, 3) != 0);
				if (W(0, 3) == 0)
					e_release(c, false);
			}
		}
		sim_quiesce(5000000);
		for (auto c : w.ctxs) {
			if (c->pend != NULL && !c->pend->poll()) {
				nng_aio_cancel(c->pend->aio);
				c->pend->wait(0);
			}
			e_look(c, true);
			while (c->pend == NULL) { // e_look may stop early
				nng_msg *g = e_recv_nb(c);
				if (g == NULL)
					break;
				e_take(c, g, "final drain got");
			}
		}
		if (sync) {
			for (auto c : w.ctxs)
				for (size_t id = 0; id < w.msgs.size(); id++)
					if (e_match(c, w.msgs[id].body) != NULL && c->got.count((int) id) == 0)
						VIOL("missed_delivery",
						    "ctx %zu never received publication %zu (%s) although one of its "
						    "subscriptions is a prefix of it and its buffer never filled",
						    c->idx, id, e_show(w.msgs[id].body).c_str());
		}
	}
	if (w.delivered > 0)
		sim_stat("nontrivial", 1);
	for (auto c : w.ctxs)
		e_release(c, true);
	for (size_t i = 1; i < w.ctxs.size(); i++)
		MUST(nng_ctx_close(w.ctxs[i]->ctx));
	for (auto ps : w.pubs)
		MUST(nng_socket_close(ps));
	MUST(nng_socket_close(w.sub));
	for (auto c : w.ctxs) {
		delete c->pend;
		delete c;
	}
}

static void
edit_cfg(sim_config *cfg, Params *p)
{
	long net = p->draw("net", 0, 3);
	g_net    = net;
	if (net == 1) {
		cfg->seg_mode = 3;
	} else if (net == 2) {
		cfg->seg_mode   = 2;
		cfg->seg_k      = 7;
		cfg->lat_min_ns = 10000;
		cfg->lat_max_ns = 2000000;
	} else if (net == 3) {
		cfg->seg_mode = 1;
		cfg->eagain_p = 0.05;
	}
}

SCENARIO(c05_edit, "C05", edit_cfg, edit_run);

} // namespace
