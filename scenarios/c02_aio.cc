// C02: every asynchronous operation completes exactly once.
// User-level oracle here; the link-time aio monitor (sim/aiomon.c) checks
// every aio, internal ones included, in every scenario.
#include "../harness/util.h"

#include <functional>
#include <set>

namespace {

enum { D_NONE = 0, D_CANCEL, D_ABORT, D_STOP, D_CLOSE };
static const char *dname[] = { "none", "cancel", "abort", "stop", "close" };

struct Op {
	UAio       *u;
	int         action;
	uint64_t    delay_ns;
	nng_err     abort_code;
	std::function<void()> closer; // D_CLOSE
	volatile int go;              // disturber may act
	volatile int acted;           // disturber finished
	bool        did_cancel, did_abort, did_stop, did_close;
	int         cbs_at_stop;
	nng_duration timeout;         // as set on the aio
	const char *what;
};

static void
disturber(void *a)
{
	Op *op = (Op *) a;
	sim_wait_flag(&op->go, 0);
	if (op->delay_ns)
		sim_sleep_ns(op->delay_ns);
	switch (op->action) {
	case D_CANCEL:
		op->did_cancel = true;
		sim_event("  disturb: cancel %s", op->what);
		nng_aio_cancel(op->u->aio);
		break;
	case D_ABORT:
		op->did_abort = true;
		sim_event("  disturb: abort(%d) %s", (int) op->abort_code, op->what);
		nng_aio_abort(op->u->aio, op->abort_code);
		break;
	case D_STOP:
		op->did_stop = true;
		sim_event("  disturb: stop %s", op->what);
		nng_aio_stop(op->u->aio);
		op->cbs_at_stop = op->u->total_cbs;
		if (nng_aio_busy(op->u->aio))
			sim_violation("C02", "busy_after_stop",
			    "nng_aio_busy is true after nng_aio_stop returned (%s)", op->what);
		break;
	case D_CLOSE:
		op->did_close = true;
		sim_event("  disturb: close object of %s", op->what);
		if (op->closer)
			op->closer();
		break;
	}
	op->acted = 1;
}

static void
op_init(Op *op, const char *what, bool allow_close)
{
	op->u          = new UAio();
	op->what       = what;
	op->go         = 0;
	op->acted      = 0;
	op->did_cancel = op->did_abort = op->did_stop = op->did_close = false;
	op->cbs_at_stop = -1;
	op->abort_code  = NNG_EPROTO;
	long a          = W(0, allow_close ? 7 : 6);
	// 0..2 none, 3 cancel, 4 abort, 5 stop, 6 cancel, 7 close
	op->action = a <= 2 ? D_NONE : a == 3 || a == 6 ? D_CANCEL : a == 4 ? D_ABORT : a == 5 ? D_STOP : D_CLOSE;
	static const nng_err codes[] = { NNG_EPROTO, NNG_EAGAIN, NNG_ECONNSHUT, NNG_EINTR };
	op->abort_code = codes[W(0, 3)];
	long d = W(0, 9);
	// moment: 0 = before submission, else a delay
	op->delay_ns = d <= 1 ? 0 : d <= 4 ? (uint64_t) W(0, 200) * 1000 : (uint64_t) W(0, 40) * 1000000ull;
	if (d == 0 && op->action != D_NONE && op->action != D_STOP && op->action != D_CLOSE) {
		op->go = 1; // pre-start disturbance
	}
	static const nng_duration tmos[] = { NNG_DURATION_INFINITE, NNG_DURATION_DEFAULT, 0, 1, 3, 10, 40, 200 };
	op->timeout = tmos[W(0, 7)];
	nng_aio_set_timeout(op->u->aio, op->timeout);
}

// An operation that cannot complete by itself needs a finite timeout unless a
// disturbance that is guaranteed to complete it will arrive after submission
// (a cancel/abort issued *before* submission is legitimately forgotten by the
// next nni_aio_reset).
static void
op_ensure_finite(Op *op, nng_duration ms)
{
	bool sure = op->action != D_NONE && !op->go;
	if (op->timeout < 0 && !sure) {
		op->timeout = ms;
		nng_aio_set_timeout(op->u->aio, ms);
	}
}

// finish an op: make sure disturber is done, wait for completion, validate.
// natural: set of result codes the operation may produce by itself.
// tmo_eff: effective timeout in ms that may produce ETIMEDOUT (-1 none)
static nng_err
op_finish(Op *op, int tid, const std::set<int> &natural, long tmo_eff, long min_ok_ms)
{
	op->go = 1;
	// must complete: by itself, by timeout or by the disturbance
	if (op->u->wait(300ull * 1000000000ull) == (nng_err) -1)
		sim_violation("C02", "never_completed", "%s (disturb=%s timeout=%d) did not complete within 300 s",
		    op->what, dname[op->action], (int) op->timeout);
	nng_err  r       = op->u->result;
	uint64_t elapsed = op->u->t_done_ns - op->u->t_submit_ns;
	sim_join(tid);
	nng_aio_wait(op->u->aio);
	if (nng_aio_busy(op->u->aio))
		sim_violation("C02", "busy_after_wait", "nng_aio_busy true after nng_aio_wait (%s)", op->what);
	sim_event("  -> %s result=%d after %.3f ms", op->what, (int) r, (double) elapsed / 1e6);
	bool ok = natural.count((int) r) != 0;
	if (r == NNG_ETIMEDOUT && tmo_eff >= 0) {
		ok = true;
		if (elapsed + 1000000ull < (uint64_t) tmo_eff * 1000000ull)
			sim_violation("C02", "early_timeout_user",
			    "%s: NNG_ETIMEDOUT after %.3f ms with a timeout of %ld ms", op->what,
			    (double) elapsed / 1e6, tmo_eff);
	}
	if (r == NNG_OK && min_ok_ms > 0 && elapsed + 1000000ull < (uint64_t) min_ok_ms * 1000000ull)
		sim_violation("C02", "early_completion", "%s: completed OK after %.3f ms, expected >= %ld ms",
		    op->what, (double) elapsed / 1e6, min_ok_ms);
	if (r == NNG_ECANCELED && op->did_cancel)
		ok = true;
	if (r == op->abort_code && op->did_abort)
		ok = true;
	if (r == NNG_ESTOPPED && op->did_stop)
		ok = true;
	if ((r == NNG_ECLOSED || r == NNG_ECONNSHUT || r == NNG_ECONNRESET || r == NNG_ECANCELED || r == NNG_ESTOPPED) &&
	    op->did_close)
		ok = true;
	if (!ok)
		sim_violation("C02", "unexplained_result",
		    "%s completed with %d (%s) but nothing that could cause it happened "
		    "(disturb=%s acted=%d timeout=%d)",
		    op->what, (int) r, nng_strerror(r), dname[op->action], (int) op->acted, (int) op->timeout);
	sim_stat("ops", 1);
	return r;
}

static void
op_fini(Op *op)
{
	int cbs = op->u->total_cbs;
	if (op->did_stop && op->cbs_at_stop >= 0 && cbs != op->cbs_at_stop && op->u->submissions == 1)
		sim_violation("C02", "callback_after_stop", "%s: callback ran after nng_aio_stop returned", op->what);
	delete op->u; // nng_aio_free; a later callback would hit freed memory (ASan) and the monitor
	op->u = NULL;
}

// ------------------------------------------------------------------ sleep ---
static void
sleep_run(Params *p)
{
	(void) p;
	int n = (int) W(1, 12);
	for (int i = 0; i < n; i++) {
		Op op;
		op_init(&op, "sleep", false);
		static const int mss[] = { 0, 1, 5, 20, 50, 300 };
		int              ms    = mss[W(0, 5)];
		sim_event("op %d: sleep %d ms, aio timeout %d, disturb %s after %llu us", i, ms, (int) op.timeout,
		    dname[op.action], (unsigned long long) (op.delay_ns / 1000));
		int tid = sim_spawn("dist", disturber, &op, 0);
		if (op.go)
			sim_yield();
		op.u->arm("sleep");
		nng_sleep_aio(ms, op.u->aio);
		std::set<int> nat;
		long          tmo = -1, min_ok = ms;
		if (op.timeout >= 0 && op.timeout < ms) {
			tmo = op.timeout; // ETIMEDOUT expected
		} else if (op.timeout >= 0 && op.timeout == ms) {
			tmo = op.timeout;
			nat.insert(NNG_OK);
		} else {
			nat.insert(NNG_OK);
		}
		op_finish(&op, tid, nat, tmo, min_ok);
		op_fini(&op);
		sim_stat("nontrivial", 1);
	}
}
SCENARIO(c02_sleep, "C02", NULL, sleep_run);

// ------------------------------------------------------------------ reuse ---
// One aio is used for a sequence of operations of different kinds (sleep,
// receive on an idle socket, receive with data waiting, send); nothing of an
// earlier operation (deadline, cancel state, result) may leak into a later one.
static void
reuse_run(Params *p)
{
	(void) p;
	nng_socket a, b;
	MUST(nng_pair0_open(&a));
	MUST(nng_pair0_open(&b));
	MUST(nng_socket_set_int(a, NNG_OPT_SENDBUF, 8));
	MUST(nng_socket_set_int(b, NNG_OPT_RECVBUF, 8));
	std::string url = h_url(TR_INPROC, 21);
	MUST(nng_listen(b, url.c_str(), NULL, 0));
	MUST(nng_dial(a, url.c_str(), NULL, 0));
	sim_quiesce(10000000);
	UAio *shared = new UAio();
	bool  sticky_default = W(0, 2) == 0;
	bool  set_once = W(0, 1) == 0;
	// a surveyor whose surveys nobody answers: its receive is limited by the survey's deadline as well, which is
	// the library's business and must not leak into the aio's own time-out
	nng_socket sv, rs;
	int        st_ms = (int) (20 + 10 * W(0, 4));
	MUST(nng_surveyor0_open(&sv));
	MUST(nng_respondent0_open(&rs));
	MUST(nng_socket_set_ms(sv, NNG_OPT_SURVEYOR_SURVEYTIME, st_ms));
	{
		std::string surl = h_url(TR_INPROC, 22);
		MUST(nng_listen(rs, surl.c_str(), NULL, 0));
		MUST(nng_dial(sv, surl.c_str(), NULL, 0));
	}
	long  last_set = -1000;
	int   n      = (int) W(2, 10);
	int   queued = 0; // messages sent to b and not yet received
	for (int i = 0; i < n; i++) {
		Op op;
		op_init(&op, "reuse", false);
		delete op.u; // op_init made a fresh one; this scenario reuses
		op.u = shared;
		if (sticky_default && W(0, 3) != 0)
			op.timeout = NNG_DURATION_DEFAULT;
		// an aio left at "default" is not touched between its uses: the time-out that counts is the socket's
		// (in half of the runs the same goes for any value: a time-out set once stays what the application set)
		if (!(op.timeout == last_set && (op.timeout == NNG_DURATION_DEFAULT || set_once)))
			nng_aio_set_timeout(shared->aio, op.timeout);
		last_set = op.timeout;
		long kind = W(0, 4); // 0 sleep, 1 recv (maybe idle), 2 recv with data waiting, 3 send, 4 surveyor recv
		long left = 0;       // kind 4: what is left of the survey time when the receive is submitted
		if (kind == 4) {
			nng_msg *q = tag_msg(24, 1, 0, (uint32_t) (5000 + i));
			uint64_t tq = sim_now_ms();
			if (nng_sendmsg(sv, q, 0) != 0) {
				nng_msg_free(q);
				kind = 0;
			} else {
				sim_sleep_ms((uint64_t) W(0, st_ms - 6));
				left = (long) st_ms - (long) (sim_now_ms() - tq) - 2;
				if (left < 0)
					left = 0;
			}
		}
		if (kind == 2 && queued == 0) {
			nng_msg *m = tag_msg(24, 1, 0, (uint32_t) i);
			if (nng_sendmsg(a, m, NNG_FLAG_NONBLOCK) != 0)
				nng_msg_free(m);
			else
				queued++;
			sim_quiesce(2000000);
		}
		static const int mss[] = { 0, 1, 5, 20, 50 };
		int              ms    = mss[W(0, 4)];
		std::set<int>    nat;
		long             tmo = op.timeout >= 0 ? op.timeout : -1, min_ok = 0;
		nng_msg         *sm  = NULL;
		const char      *what;
		if (kind == 0) {
			what = "reuse_sleep";
		} else if (kind == 4) {
			what = "reuse_survey_recv";
			// ends at the survey's deadline at the latest: never before the smaller of the two limits
			tmo = (op.timeout >= 0 && op.timeout < left) ? op.timeout : left;
		} else if (kind == 3) {
			what = "reuse_send";
		} else {
			what = "reuse_recv";
			if (queued == 0 && op.timeout != NNG_DURATION_DEFAULT)
				op_ensure_finite(&op, 30);
			last_set = op.timeout;
			tmo = op.timeout >= 0 ? op.timeout : -1;
		}
		if (op.timeout == NNG_DURATION_DEFAULT && kind != 0 && kind != 4) {
			// "default" means the socket's NNG_OPT_SENDTIMEO / NNG_OPT_RECVTIMEO as it is when the operation is
			// submitted: it is changed between the uses of the aio
			static const int dm[] = { -1, 15, 40, 120 };
			int              d    = dm[W(0, 3)];
			if (d < 0 && kind != 3 && queued == 0)
				d = 25; // nothing will arrive: the receive needs an end
			MUST(nng_socket_set_ms(kind == 3 ? a : b, kind == 3 ? NNG_OPT_SENDTIMEO : NNG_OPT_RECVTIMEO, d));
			tmo = d;
			sim_probe("c02_reuse_default_timeout");
		}
		op.what = what;
		sim_event("op %d: %s ms=%d aio timeout %d (effective %ld) disturb %s queued=%d", i, what, ms, (int) op.timeout, tmo,
		    dname[op.action], queued);
		int tid = sim_spawn("dist", disturber, &op, 0);
		if (op.go)
			sim_yield();
		shared->arm(what);
		if (kind == 0) {
			nng_sleep_aio(ms, shared->aio);
			min_ok = ms;
			if (op.timeout >= 0 && op.timeout < ms) {
				// ETIMEDOUT expected
			} else {
				nat.insert(NNG_OK);
			}
		} else if (kind == 4) {
			nng_socket_recv(sv, shared->aio);
			nat.insert(NNG_ETIMEDOUT); // the survey's deadline ends it (nobody answers)
			nat.insert(NNG_ESTATE);    // or the survey was over already when the receive was submitted
		} else if (kind == 3) {
			sm = tag_msg(24, 1, 0, (uint32_t) (1000 + i));
			nng_aio_set_msg(shared->aio, sm);
			nng_socket_send(a, shared->aio);
			nat.insert(NNG_OK);
		} else {
			nng_socket_recv(b, shared->aio);
			if (queued > 0)
				nat.insert(NNG_OK);
		}
		nng_err r = op_finish(&op, tid, nat, tmo, min_ok);
		if (kind == 3) {
			if (r == NNG_OK)
				queued++;
			else
				nng_msg_free(sm);
			nng_aio_set_msg(shared->aio, NULL);
		} else if (kind == 4) {
			if (r == NNG_OK)
				sim_violation("C02", "unexplained_result", "surveyor receive succeeded although nobody answers");
		} else if (kind != 0 && r == NNG_OK) {
			nng_msg *m = nng_aio_get_msg(shared->aio);
			if (m == NULL)
				sim_violation("C02", "ok_without_msg", "receive completed OK without a message");
			nng_msg_free(m);
			nng_aio_set_msg(shared->aio, NULL);
			queued--;
		}
		if (op.did_stop) {
			// a stopped aio is dead for good; continue with a new one
			if (op.cbs_at_stop >= 0 && shared->total_cbs != op.cbs_at_stop)
				sim_violation("C02", "callback_after_stop", "%s: callback ran after nng_aio_stop returned", what);
			delete shared;
			shared = new UAio();
			last_set = -1000;
		}
		sim_stat("nontrivial", 1);
	}
	delete shared;
	MUST(nng_socket_close(a));
	MUST(nng_socket_close(b));
	MUST(nng_socket_close(sv));
	MUST(nng_socket_close(rs));
}
SCENARIO(c02_reuse, "C02", NULL, reuse_run);

// ------------------------------------------------------------------- many ---
// Many operations whose deadlines fall into the same instant: each of them
// completes exactly once, none early, and none is forgotten (bounded: within
// one second of virtual time after its deadline, thread stalls excluded).
static void
many_run(Params *p)
{
	(void) p;
	nng_socket s;
	MUST(nng_pull0_open(&s)); // nothing ever arrives
	static const int counts[] = { 3, 20, 90, 101, 130, 260 };
	int              n        = counts[W(0, 5)];
	int              groups   = 1 + (int) W(0, 2);
	std::vector<UAio *> v;
	std::vector<long>   dl;
	uint64_t            st0 = sim_stall_total_ns();
	for (int i = 0; i < n; i++) {
		UAio *u  = new UAio();
		long  ms = 5 + 7 * (long) (i % groups);
		nng_aio_set_timeout(u->aio, W(0, 3) == 0 ? NNG_DURATION_INFINITE : (nng_duration) ms);
		bool sleep = W(0, 1) == 0;
		u->arm(sleep ? "many_sleep" : "many_recv");
		if (sleep) {
			nng_aio_set_timeout(u->aio, NNG_DURATION_INFINITE);
			nng_sleep_aio((nng_duration) ms, u->aio);
		} else {
			nng_aio_set_timeout(u->aio, (nng_duration) ms);
			nng_socket_recv(s, u->aio);
		}
		u->user = (void *) (intptr_t) sleep;
		v.push_back(u);
		dl.push_back(ms);
	}
	sim_event("many: %d operations in %d deadline groups", n, groups);
	for (int i = 0; i < n; i++) {
		UAio *u = v[(size_t) i];
		// generous: deadline + 1 s + stalls
		uint64_t budget = (uint64_t) dl[(size_t) i] * 1000000ull + 1000000000ull;
		for (;;) {
			uint64_t stalled = sim_stall_total_ns() - st0;
			uint64_t used    = sim_now_ns() - u->t_submit_ns;
			if (u->poll())
				break;
			if (used > budget + stalled)
				sim_violation("C02", "never_completed",
				    "operation %d of %d (%s, deadline %ld ms) has not completed %.0f ms after submission "
				    "(other operations with the same deadline have)",
				    i, n, u->what, dl[(size_t) i], (double) used / 1e6);
			u->wait(50000000ull);
		}
		bool     sleep   = u->user != NULL;
		uint64_t elapsed = u->t_done_ns - u->t_submit_ns;
		if (elapsed + 1000000ull < (uint64_t) dl[(size_t) i] * 1000000ull)
			sim_violation("C02", "early_timeout_user", "operation %d (%s) completed after %.3f ms, deadline %ld ms", i,
			    u->what, (double) elapsed / 1e6, dl[(size_t) i]);
		if (sleep ? u->result != NNG_OK : u->result != NNG_ETIMEDOUT)
			sim_violation("C02", "unexplained_result", "operation %d (%s) completed with %d", i, u->what, (int) u->result);
		if (u->cb_count != 1)
			sim_violation("C02", "user_callback_count", "operation %d (%s) ran its callback %d times", i, u->what,
			    u->cb_count);
	}
	for (auto u : v)
		delete u;
	sim_stat("nontrivial", 1);
	MUST(nng_socket_close(s));
}
SCENARIO(c02_many, "C02", NULL, many_run);

// --------------------------------------------------------------- transfer ---
// PAIR sender/receiver with disturbed aio operations and conservation check.
struct Xfer {
	nng_socket a, b;
	int        nmsgs;
	std::vector<int> sent_ok;   // serials whose send completed with 0
	std::vector<int> recvd;     // serials received
	volatile int sender_done;
};

static void
xfer_sender(void *arg)
{
	Xfer *x = (Xfer *) arg;
	for (int i = 0; i < x->nmsgs; i++) {
		Op op;
		op_init(&op, "pair_send", false);
		nng_msg *m = tag_msg((size_t) W(20, 200), 1, 0, (uint32_t) i);
		nng_aio_set_msg(op.u->aio, m);
		sim_event("send %d timeout %d disturb %s", i, (int) op.timeout, dname[op.action]);
		int tid = sim_spawn("dist", disturber, &op, 0);
		if (op.go)
			sim_yield();
		op.u->arm("pair_send");
		nng_socket_send(x->a, op.u->aio);
		std::set<int> nat = { NNG_OK };
		long tmo = op.timeout >= 0 ? op.timeout : -1;
		if (op.timeout == NNG_DURATION_DEFAULT)
			tmo = -1;
		nng_err r = op_finish(&op, tid, nat, tmo, 0);
		if (r == NNG_OK) {
			x->sent_ok.push_back(i);
		} else {
			// failed send: the message is still attached and still ours
			nng_msg *back = nng_aio_get_msg(op.u->aio);
			if (back != m)
				sim_violation("C02", "failed_send_lost_msg",
				    "send %d failed with %d but the aio no longer holds the message", i, (int) r);
			nng_msg_free(m);
		}
		op_fini(&op);
	}
	x->sender_done = 1;
}

static void
xfer_recv_one(Xfer *x, bool final_drain)
{
	Op op;
	op_init(&op, "pair_recv", false);
	if (final_drain) {
		op.action  = D_NONE;
		op.go      = 0;
		op.timeout = 300;
		nng_aio_set_timeout(op.u->aio, 300);
	}
	op_ensure_finite(&op, 40);
	int tid = sim_spawn("dist", disturber, &op, 0);
	if (op.go)
		sim_yield();
	op.u->arm("pair_recv");
	nng_socket_recv(x->b, op.u->aio);
	std::set<int> nat = { NNG_OK };
	long tmo = op.timeout >= 0 ? op.timeout : -1;
	nng_err r = op_finish(&op, tid, nat, tmo, 0);
	if (r == NNG_OK) {
		nng_msg *m = nng_aio_get_msg(op.u->aio);
		if (m == NULL)
			sim_violation("C02", "ok_without_msg", "receive completed OK without a message");
		Tag t = tag_parse((uint8_t *) nng_msg_body(m), nng_msg_len(m));
		nng_msg_free(m);
		if (!t.ok)
			sim_violation("C02", "corrupt_message", "received message fails its checksum");
		x->recvd.push_back((int) t.serial);
	} else if (nng_aio_get_msg(op.u->aio) != NULL && r != NNG_OK) {
		// a failed receive must not hand over a message
		sim_probe("failed_recv_has_msg");
	}
	op_fini(&op);
}

static void
xfer_run(Params *p)
{
	Xfer x;
	int  tr   = (int) p->draw("tr", 0, 2);
	int  prot = (int) W(0, 2);
	x.nmsgs   = (int) W(1, 14);
	x.sender_done = 0;
	if (prot == 0) {
		MUST(nng_pair0_open(&x.a));
		MUST(nng_pair0_open(&x.b));
	} else if (prot == 1) {
		MUST(nng_pair1_open(&x.a));
		MUST(nng_pair1_open(&x.b));
	} else {
		MUST(nng_push0_open(&x.a));
		MUST(nng_pull0_open(&x.b));
	}
	MUST(nng_socket_set_int(x.a, NNG_OPT_SENDBUF, (int) W(0, 2)));
	if (prot != 2)
		MUST(nng_socket_set_int(x.b, NNG_OPT_RECVBUF, (int) W(0, 2)));
	std::string url = h_url(tr, 20);
	MUST(nng_listen(x.b, url.c_str(), NULL, 0));
	MUST(nng_dial(x.a, url.c_str(), NULL, 0));
	sim_quiesce(10000000);
	sim_event("c02_xfer tr=%s proto=%s msgs=%d", h_tr_name(tr), prot == 2 ? "push/pull" : prot ? "pair1" : "pair0", x.nmsgs);
	sim_spawn("sender", xfer_sender, &x, 0);
	while (!x.sender_done || W(0, 3) == 0) {
		xfer_recv_one(&x, false);
		if (x.recvd.size() > (size_t) x.nmsgs + 2)
			break;
		if (x.sender_done && x.recvd.size() >= x.sent_ok.size())
			break;
	}
	sim_join_all();
	// drain: everything whose send reported success must arrive
	int idle = 0;
	while (x.recvd.size() < x.sent_ok.size() && idle < 3) {
		size_t before = x.recvd.size();
		xfer_recv_one(&x, true);
		idle = x.recvd.size() == before ? idle + 1 : 0;
	}
	// conservation and order
	std::set<int> seen;
	int           last = -1;
	for (int s : x.recvd) {
		if (!seen.insert(s).second)
			sim_violation("C02", "duplicate_delivery", "message %d delivered twice", s);
		if (s < last)
			sim_violation("C02", "reordered", "message %d delivered after %d", s, last);
		last = s;
	}
	std::set<int> okset(x.sent_ok.begin(), x.sent_ok.end());
	for (int s : x.recvd)
		if (!okset.count(s))
			sim_violation("C02", "failed_op_took_effect",
			    "message %d was delivered although its send reported failure "
			    "(timeout/cancel/abort/stop reported after the operation had completed)",
			    s);
	for (int s : x.sent_ok)
		if (!seen.count(s))
			sim_violation("C02", "completed_op_lost",
			    "message %d: send reported success but it never arrived, or a "
			    "receive that reported failure consumed it",
			    s);
	sim_stat("nontrivial", 1);
	MUST(nng_socket_close(x.a));
	MUST(nng_socket_close(x.b));
}

static void
xfer_cfg(sim_config *cfg, Params *p)
{
	long net = p->draw("net", 0, 2);
	if (net == 1) {
		cfg->seg_mode = 3;
	} else if (net == 2) {
		cfg->seg_mode   = 2;
		cfg->seg_k      = 40;
		cfg->lat_min_ns = 1000;
		cfg->lat_max_ns = 3000000;
	}
}
SCENARIO(c02_xfer, "C02", xfer_cfg, xfer_run);

// ---------------------------------------------------------------- pending ---
// operations that cannot complete by themselves, on every protocol; the
// disturbance (or the timeout, or closing the object) must complete them once.
struct Proto {
	const char *name;
	int (*open)(nng_socket *);
	bool can_recv, send_blocks, has_ctx;
};
static const Proto protos[] = {
	{ "pair0", nng_pair0_open, true, true, false },
	{ "pair1", nng_pair1_open, true, true, false },
	{ "pull", nng_pull0_open, true, false, false },
	{ "push", nng_push0_open, false, true, false },
	{ "sub", nng_sub0_open, true, false, true },
	{ "rep", nng_rep0_open, true, false, true },
	{ "req", nng_req0_open, false, false, true },
	{ "respondent", nng_respondent0_open, true, false, true },
	{ "bus", nng_bus0_open, true, false, false },
	{ "surveyor", nng_surveyor0_open, false, false, true },
	{ "pair0raw", nng_pair0_open_raw, true, true, false },
	{ "repraw", nng_rep0_open_raw, true, false, false },
	{ "reqraw", nng_req0_open_raw, true, false, false },
	{ "busraw", nng_bus0_open_raw, true, false, false },
};

static void
pending_run(Params *p)
{
	(void) p;
	int n = (int) W(1, 8);
	for (int i = 0; i < n; i++) {
		const Proto &pr = protos[W(0, (long) (sizeof(protos) / sizeof(protos[0])) - 1)];
		nng_socket   s;
		MUST(pr.open(&s));
		bool    use_ctx = pr.has_ctx && W(0, 1) == 1;
		nng_ctx ctx;
		if (use_ctx)
			MUST(nng_ctx_open(&ctx, s));
		bool do_send = pr.send_blocks && (!pr.can_recv || W(0, 1) == 1);
		if (!do_send && !pr.can_recv) {
			if (use_ctx)
				nng_ctx_close(ctx);
			nng_socket_close(s);
			continue;
		}
		Op op;
		op_init(&op, do_send ? "blocked_send" : "blocked_recv", true);
		bool close_ctx = use_ctx && W(0, 1) == 1;
		op.closer = [&]() {
			if (close_ctx)
				nng_ctx_close(ctx);
			else
				nng_socket_close(s);
		};
		op_ensure_finite(&op, 30);
		nng_msg *m = NULL;
		if (do_send) {
			m = tag_msg(32, 1, 0, (uint32_t) i);
			nng_aio_set_msg(op.u->aio, m);
		}
		sim_event("op %d: %s on %s%s timeout %d disturb %s after %llu us", i, op.what, pr.name,
		    use_ctx ? " ctx" : "", (int) op.timeout, dname[op.action],
		    (unsigned long long) (op.delay_ns / 1000));
		int tid = sim_spawn("dist", disturber, &op, 0);
		if (op.go)
			sim_yield();
		op.u->arm(op.what);
		if (use_ctx) {
			if (do_send)
				nng_ctx_send(ctx, op.u->aio);
			else
				nng_ctx_recv(ctx, op.u->aio);
		} else {
			if (do_send)
				nng_socket_send(s, op.u->aio);
			else
				nng_socket_recv(s, op.u->aio);
		}
		// natural results: state errors of the protocol state machines
		std::set<int> nat = { NNG_ESTATE, NNG_ENOTSUP };
		if (do_send)
			nat.insert(NNG_OK);
		long tmo = op.timeout >= 0 ? op.timeout : -1;
		nng_err r = op_finish(&op, tid, nat, tmo, 0);
		if (do_send) {
			// (a buffered send may legitimately complete without a peer)
			if (r != NNG_OK) {
				if (nng_aio_get_msg(op.u->aio) != m)
					sim_violation("C02", "failed_send_lost_msg",
					    "failed send no longer holds the message");
				nng_msg_free(m);
			}
		} else if (r == NNG_OK) {
			sim_violation("C02", "recv_ok_without_peer", "receive on %s without any peer completed OK", pr.name);
		}
		op_fini(&op);
		if (use_ctx && !(op.did_close && close_ctx))
			nng_ctx_close(ctx);
		if (!(op.did_close && !close_ctx))
			nng_socket_close(s);
		sim_stat("nontrivial", 1);
	}
}
SCENARIO(c02_pending, "C02", NULL, pending_run);

// ------------------------------------------------------------------- dial ---
static void
dial_run(Params *p)
{
	int n = (int) W(1, 6);
	for (int i = 0; i < n; i++) {
		int        tr = (int) W(0, 2);
		nng_socket ls, ds;
		MUST(nng_pair0_open(&ls));
		MUST(nng_pair0_open(&ds));
		std::string url  = h_url(tr, 30 + i);
		int         mode = (int) W(0, 2); // 0 listener present, 1 absent, 2 black hole (tcp)
		if (mode == 2 && tr != TR_TCP)
			mode = 1;
		if (mode == 0)
			MUST(nng_listen(ls, url.c_str(), NULL, 0));
		if (mode == 2)
			simnet_blackhole(0x7f000001u, (uint16_t) (5000 + 30 + i), 1);
		nng_dialer d;
		MUST(nng_dialer_create(&d, ds, url.c_str()));
		Op op;
		op_init(&op, "dialer_start", true);
		bool close_sock = W(0, 1) == 1;
		op.closer = [&]() {
			if (close_sock)
				nng_socket_close(ds);
			else
				nng_dialer_close(d);
		};

		int flags = W(0, 5) == 5 ? 0 : NNG_FLAG_NONBLOCK;
		sim_event("op %d: dialer_start %s mode %d flags %d timeout %d disturb %s after %llu us", i, h_tr_name(tr),
		    mode, flags, (int) op.timeout, dname[op.action], (unsigned long long) (op.delay_ns / 1000));
		int tid = sim_spawn("dist", disturber, &op, 0);
		if (op.go)
			sim_yield();
		op.u->arm("dialer_start");
		nng_dialer_start_aio(d, flags, op.u->aio);
		std::set<int> nat = { NNG_OK, NNG_ECONNREFUSED, NNG_ECONNRESET, NNG_ECONNSHUT, NNG_ECLOSED };
		if (flags == 0)
			nat = { NNG_EINVAL };
		if (mode == 2)
			nat.insert(NNG_ETIMEDOUT); // the simulated kernel gives up after 127 s
		long tmo = op.timeout >= 0 ? op.timeout : -1;
		op_finish(&op, tid, nat, tmo, 0);
		// let late internal completions (if any) surface before freeing
		sim_quiesce(2000000);
		op_fini(&op);
		if (mode == 2)
			simnet_blackhole(0x7f000001u, (uint16_t) (5000 + 30 + i), 0);
		if (!(op.did_close && close_sock))
			nng_socket_close(ds);
		nng_socket_close(ls);
		sim_stat("nontrivial", 1);
	}
	(void) p;
}
static void
dial_cfg(sim_config *cfg, Params *p)
{
	if (p->draw("cdelay", 0, 2))
		cfg->conn_delay_max_ns = 5000000;
}
SCENARIO(c02_dial, "C02", dial_cfg, dial_run);

// ----------------------------------------------------------------- stream ---
struct StreamPair {
	nng_stream *c, *s;
};

static void
stream_run(Params *p)
{
	int  tr = (int) p->draw("tr", 0, 1) ? TR_IPC : TR_TCP;
	char url[64];
	snprintf(url, sizeof(url), "%s", h_url(tr, 40).c_str());
	nng_stream_listener *l = NULL;
	nng_stream_dialer   *d = NULL;
	MUST(nng_stream_listener_alloc(&l, url));
	MUST(nng_stream_listener_listen(l));
	MUST(nng_stream_dialer_alloc(&d, url));
	// connect (undisturbed), then disturbed I/O
	UAio ua, ud;
	ua.arm("accept");
	nng_stream_listener_accept(l, ua.aio);
	ud.arm("dial");
	nng_stream_dialer_dial(d, ud.aio);
	if (ua.wait(30000000000ull) != 0 || ud.wait(30000000000ull) != 0)
		h_fatal("stream connect failed %d %d", (int) ua.result, (int) ud.result);
	nng_stream *cs = (nng_stream *) nng_aio_get_output(ud.aio, 0);
	nng_stream *ss = (nng_stream *) nng_aio_get_output(ua.aio, 0);
	// sender writes a known byte sequence in disturbed chunks; reader reads
	// with disturbed receives; what arrives must be a prefix-exact stream.
	size_t               total_ok = 0; // bytes whose send was acknowledged (count)
	std::vector<uint8_t> rx;
	int                  nops = (int) W(1, 10);
	uint32_t             ctr  = 0;
	bool                 closed = false;
	for (int i = 0; i < nops && !closed; i++) {
		bool do_send = W(0, 1) == 0;
		Op   op;
		op_init(&op, do_send ? "stream_send" : "stream_recv", true);
		op.closer = [&]() { nng_stream_close(do_send ? cs : ss); };
		size_t               len = (size_t) W(1, 300);
		std::vector<uint8_t> buf(len);
		if (do_send)
			for (size_t k = 0; k < len; k++)
				buf[k] = (uint8_t) ((ctr + k) * 131u + 7u);
		nng_iov iov = { buf.data(), len };
		nng_aio_set_iov(op.u->aio, 1, &iov);
		if (!do_send)
			op_ensure_finite(&op, 20);
		sim_event("op %d: %s %zu bytes timeout %d disturb %s", i, op.what, len, (int) op.timeout, dname[op.action]);
		int tid = sim_spawn("dist", disturber, &op, 0);
		if (op.go)
			sim_yield();
		op.u->arm(op.what);
		if (do_send)
			nng_stream_send(cs, op.u->aio);
		else
			nng_stream_recv(ss, op.u->aio);
		std::set<int> nat = { NNG_OK };
		long tmo = op.timeout >= 0 ? op.timeout : -1;
		nng_err r = op_finish(&op, tid, nat, tmo, 0);
		size_t  cnt = nng_aio_count(op.u->aio);
		if (r == NNG_OK) {
			if (cnt == 0 || cnt > len)
				sim_violation("C02", "bad_count", "%s OK with count %zu of %zu", op.what, cnt, len);
			if (do_send) {
				total_ok += cnt;
				ctr += (uint32_t) cnt;
			} else {
				rx.insert(rx.end(), buf.begin(), buf.begin() + (long) cnt);
			}
		}
		if (op.did_close)
			closed = true;
		op_fini(&op);
	}
	// drain the reader side
	for (int k = 0; k < 40 && !closed && rx.size() < total_ok; k++) {
		UAio                 u;
		std::vector<uint8_t> buf(512);
		nng_iov              iov = { buf.data(), buf.size() };
		nng_aio_set_iov(u.aio, 1, &iov);
		nng_aio_set_timeout(u.aio, 100);
		u.arm("drain");
		nng_stream_recv(ss, u.aio);
		u.wait(0);
		if (u.result != 0)
			break;
		rx.insert(rx.end(), buf.begin(), buf.begin() + (long) nng_aio_count(u.aio));
	}
	for (size_t k = 0; k < rx.size(); k++)
		if (rx[k] != (uint8_t) (k * 131u + 7u))
			sim_violation("C02", "stream_corrupt", "byte %zu of the stream is wrong (lost, duplicated or reordered data)", k);
	if (rx.size() > total_ok)
		sim_violation("C02", "failed_op_took_effect", "reader got %zu bytes but only %zu were acknowledged as sent",
		    rx.size(), total_ok);
	if (!closed && rx.size() < total_ok)
		sim_violation("C02", "completed_op_lost", "%zu bytes acknowledged as sent, only %zu arrived", total_ok, rx.size());
	sim_stat("nontrivial", 1);
	nng_stream_close(cs);
	nng_stream_close(ss);
	nng_stream_stop(cs);
	nng_stream_stop(ss);
	nng_stream_free(cs);
	nng_stream_free(ss);
	nng_stream_listener_close(l);
	nng_stream_dialer_close(d);
	nng_stream_listener_free(l);
	nng_stream_dialer_free(d);
}
SCENARIO(c02_stream, "C02", xfer_cfg, stream_run);

} // namespace
